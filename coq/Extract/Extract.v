(* Extraction of the executable models to OCaml. ExtrOcamlBasic only: bool, option,
   list, prod, unit, sumbool map to OCaml natives; N, Z, positive, nat stay Coq datatypes.
   No Extract Constant. *)
From Coq Require Import ExtrOcamlBasic.
From Coq Require Import List NArith ZArith.
From AnyTLS Require Import Bytes Cmd Generated Frame.
Extraction Language OCaml.
Set Extraction AccessOpaque.
Extraction "model.ml"
  Z.of_N Z.to_N Z.add
  cmd_of_byte byte_of_cmd encode decode1 decode_all feed feed_all.
