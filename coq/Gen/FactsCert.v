(* FactsCert.v -- side lemmas of the misc/cert package (C18) about regenerated structural facts.
   (Includes the facts about CertReloader::{new,reload} and cert_analyzer.rs: cert_*.) *)
From Coq Require Import List NArith ZArith Lia.
From AnyTLS Require Import Cmd Generated.
Import ListNotations.
Open Scope N_scope.

(* server.rs `Server::listen`: the acceptor snapshot `self.tls_config.read().unwrap().clone()` is taken
   inside the accept loop AFTER `listener.accept().await` returned. This is the premise of C18_snapshot's
   model operation CrAccept ("the connection accepted at step i uses active(st_i)"): were the snapshot
   taken before parking in accept(), the first connection after every successful reload would still be
   served the previous certificate. Also exercised on a real listening socket (driver `certlisten`). *)
Lemma listen_snapshot_after_accept_true : listen_snapshot_after_accept = true.
Proof. reflexivity. Qed.

(* ---- misc/cert (C18): shape of CertReloader::{new,reload} and the day arithmetic of cert_analyzer.rs ---- *)
Lemma cert_reload_cert_reads_1 : cert_reload_cert_reads = 1 /\ cert_new_cert_reads = 1.
Proof. split; reflexivity. Qed.

Lemma cert_reload_key_reads_1 : cert_reload_key_reads = 1 /\ cert_new_key_reads = 1.
Proof. split; reflexivity. Qed.

Lemma cert_reload_commit_shape : cert_reload_commit_writes = 4 /\ cert_reload_commit_after_checks = true.
Proof. split; reflexivity. Qed.

Lemma cert_reload_expiry_exact : cert_reload_expiry_compares_not_after = true.
Proof. reflexivity. Qed.

Lemma cert_reload_expiry_days : cert_reload_expiry_uses_is_expired = true.
Proof. reflexivity. Qed.

Lemma cert_day_arith : cert_secs_per_day = 86400%Z /\ cert_expired_below_days = 0%Z.
Proof. split; reflexivity. Qed.

Lemma cert_check_expiry_on : cert_default_check_expiry = true /\ cert_bin_check_expiry = true.
Proof. split; reflexivity. Qed.

Lemma cert_new_accepts_expired : cert_new_rejects_expired = false.
Proof. reflexivity. Qed.
