(* FactsConc.v -- side lemmas about regenerated structural facts used by the interleaving model (C11, C09) *)
From Coq Require Import NArith.
From AnyTLS Require Import Cmd Generated.

(* start_client enables buffering and queues the settings frame BEFORE it spawns the receive / forwarding /
   heartbeat tasks: this is what makes `init progs true [settings]` the right initial state of Model/Conc.v *)
Lemma start_settings_before_spawn_true : start_settings_before_spawn = true.
Proof. reflexivity. Qed.

Lemma client_numbering : client_pkt_start = 0%N /\ client_first_stream_id = 1%N /\ client_send_padding = true.
Proof. repeat split; reflexivity. Qed.
