(* FactsCore.v -- side lemmas about the regenerated wire-format constants (frame.rs, codec.rs, padding/mod.rs) *)
From Coq Require Import List NArith ZArith Lia.
From AnyTLS Require Import Cmd Generated.
Import ListNotations.
Open Scope N_scope.

Lemma header_size_7 : header_size = 7.
Proof. reflexivity. Qed.

Lemma encode_max_payload_u16 : encode_max_payload = 65535.
Proof. reflexivity. Qed.

Lemma cmd_table_exact :
  cmd_table = [(0, Waste); (1, Syn); (2, Push); (3, Fin); (4, Settings); (5, Alert);
               (6, UpdatePaddingScheme); (7, SynAck); (8, HeartRequest);
               (9, HeartResponse); (10, ServerSettings)].
Proof. reflexivity. Qed.

Lemma cmd_disc_exact : cmd_disc = cmd_table.
Proof. reflexivity. Qed.

Lemma cmd_default_waste : cmd_default = Waste.
Proof. reflexivity. Qed.

Lemma check_mark_neg1 : check_mark = (-1)%Z.
Proof. reflexivity. Qed.
