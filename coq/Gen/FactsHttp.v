(* FactsHttp.v -- side lemmas of the http package (C17) *)
From Coq Require Import List NArith ZArith Lia.
From AnyTLS Require Import Cmd Generated.
Import ListNotations.
Open Scope N_scope.

(* ---- http package (C17): limits of the header read loop, default ports, status codes of the proxy's own replies ---- *)
Lemma http_header_limits :
  http_max_header = 65536 /\ http_terminator = [13; 10; 13; 10] /\ http_read_chunk = 1024.
Proof. repeat split; reflexivity. Qed.

Lemma http_default_ports :
  http_default_port_http = 80 /\ http_default_port_https = 443 /\ http_default_port_connect = 443.
Proof. repeat split; reflexivity. Qed.

Lemma http_reply_codes : http_reply_connect_ok = 200 /\ http_reply_open_failed = 502.
Proof. split; reflexivity. Qed.
