(* FactsPadding.v -- side lemmas of the padding package (C04, C05, C19) *)
From Coq Require Import List NArith ZArith Lia.
From AnyTLS Require Import Cmd Generated.
Import ListNotations.
Open Scope N_scope.

(* padding package (C04/C05/C19) *)
Lemma padding_size_bound_u16 : padding_size_bound = Some 65535%Z.
Proof. reflexivity. Qed.

Lemma pkt_index_offset_1 : pkt_index_offset = 1.
Proof. reflexivity. Qed.

Lemma client_pads_server_does_not : client_send_padding = true /\ server_send_padding = false.
Proof. split; reflexivity. Qed.

Lemma pkt_counters_start_at_0 : client_pkt_start = 0 /\ server_pkt_start = 0.
Proof. split; reflexivity. Qed.

Lemma settings_md5_keys_agree : client_settings_md5_key = server_settings_md5_key.
Proof. reflexivity. Qed.
