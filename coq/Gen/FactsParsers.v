(* FactsParsers.v -- side lemmas of the parsers package (C06, C07, C15, C16) *)
From Coq Require Import List NArith ZArith Lia.
From AnyTLS Require Import Cmd Generated.
Import ListNotations.
Open Scope N_scope.

(* ---- parsers (C06, C07, C15, C16) ---- *)
Lemma socks_constants :
  socks_socks5_version = 5 /\ socks_auth_no_authentication = 0 /\ socks_auth_not_acceptable = 255 /\
  socks_cmd_connect = 1 /\ socks_atyp_ipv4 = 1 /\ socks_atyp_domain = 3 /\ socks_atyp_ipv6 = 4 /\
  socks_reply_succeeded = 0 /\ socks_reply_general_failure = 1 /\ socks_reply_command_not_supported = 7.
Proof. repeat split; reflexivity. Qed.

Lemma udp_max_both_u16 : udp_max_client = 65535 /\ udp_max_server = 65535.
Proof. split; reflexivity. Qed.

Lemma udp_datagram_fits_frame : 2 + 65507 <= encode_max_payload.
Proof. vm_compute. discriminate. Qed.

Lemma dns_ttl_positive : (0 < dns_ttl_ms)%Z.
Proof. reflexivity. Qed.

Lemma udp_magic_addr_contains_infix :
  udp_magic_addr = [115; 112; 46; 118; 50; 46] ++ udp_magic_infix.
Proof. reflexivity. Qed.

Lemma udp_empty_datagram_forwarded :
  udp_empty_datagram_ends_client = false /\ udp_empty_datagram_ends_server = false.
Proof. split; reflexivity. Qed.

Lemma udp_bind_follows_target : udp_server_bind_follows_target = true.
Proof. reflexivity. Qed.

(* ---- C06: the shape of the authentication gate (premises of Model/Auth.v) ---- *)
Lemma auth_hash_len_32 : auth_hash_len = 32.
Proof. reflexivity. Qed.

(* authenticate_client compares the whole received array with the whole expected array by `!=` *)
Lemma auth_whole_array_comparison : auth_compares_whole_arrays = true.
Proof. reflexivity. Qed.

(* handle_connection: `authenticate_client(..).await?;` is a statement of its own before the session is built:
   no wrapper (timeout/select) and no branch in which the function goes on without an Ok *)
Lemma auth_gate_direct : auth_result_propagated_directly = true.
Proof. reflexivity. Qed.
