(* FactsRelay.v -- side lemmas about the regenerated facts of the relay loops (server/handler.rs, client/socks5.rs,
   client/http_proxy.rs) that Model/Relay.v and the C01 tunnel theorems rely on. *)
From Coq Require Import List NArith.
From AnyTLS Require Import Generated.
Import ListNotations.
Open Scope N_scope.

(* every sink call of a relay loop is handed buf[..n], n the result of the read into that buffer; TCP sinks use write_all *)
Lemma relay_sinks_exact : relay_sinks_take_read_prefix = true.
Proof. reflexivity. Qed.

(* there are relay loops, and none has an empty buffer (a read into an empty buffer returns Ok(0) = end of input) *)
Lemma relay_bufs_positive : relay_buf_sizes <> [] /\ forallb (fun c => 0 <? c) relay_buf_sizes = true.
Proof. split; [discriminate | reflexivity]. Qed.

(* a relayed chunk always fits one frame: write_data_frame / send_data never have to split it *)
Lemma relay_bufs_fit_frame : forallb (fun c => c <=? encode_max_payload) relay_buf_sizes = true.
Proof. reflexivity. Qed.
