(* FactsSession.v -- side lemmas of the session package (C01, C02, C08, C10) *)
From Coq Require Import List NArith ZArith Lia.
From AnyTLS Require Import Cmd Generated.
Import ListNotations.
Open Scope N_scope.

(* ---- session package (C01, C02, C08, C10): stream ids start at 1 on both sides; the opener waits 30 s ---- *)
Lemma session_first_ids : client_first_stream_id = 1 /\ server_first_stream_id = 1.
Proof. split; reflexivity. Qed.

Lemma session_synack_timeout : synack_timeout_ms = 30000%Z.
Proof. reflexivity. Qed.
