(* FactsTimed.v -- side lemmas of the timed package (C12, C13, C14) *)
From Coq Require Import List NArith ZArith Lia.
From AnyTLS Require Import Cmd Generated.
Import ListNotations.
Open Scope N_scope.

(* ---- timed package (C12, C13, C14): shape of the pool, the client glue and the liveness rule ---- *)
Lemma pool_shape :
  pool_get_takes_last = true /\ pool_get_skips_closed = true /\ pool_add_skips_closed = true /\
  pool_reap_unexpired_cmp = [0; 0] /\ pool_reap_min_cmp = [0; 0] /\
  pool_reap_purges_closed = 2 /\ pool_reap_ascending = true.
Proof. repeat split; reflexivity. Qed.

(* a new session enters the idle map at creation; a reused one is not put back (root of F2 / F3) *)
Lemma client_glue_shape :
  client_adds_new_session_to_idle = true /\ client_reinserts_on_reuse = false /\
  hb_cfg_is_pool_interval_timeout = true.
Proof. repeat split; reflexivity. Qed.

(* deadline per outstanding request: `sent.elapsed() >= timeout`, cleared by `responses > seen`,
   the counter is advanced by the HeartResponse arm only *)
Lemma hb_rule_shape :
  hb_rule_deadline_per_request = true /\ hb_expire_cmp = 3 /\ hb_answered_cmp = 2 /\
  hb_response_arm_counts = true /\ hb_counter_updates = 1.
Proof. repeat split; reflexivity. Qed.

Lemma cli_positive_seconds :
  cli_rejects_zero_seconds = true /\ cli_interval_timeout_via_parse_u64 = true.
Proof. split; reflexivity. Qed.

Lemma pool_defaults : pool_default_interval_ms = 30000%Z /\ pool_default_timeout_ms = 60000%Z /\ pool_default_min_idle = 1.
Proof. repeat split; reflexivity. Qed.

(* the pool key is assigned before the session enters the idle map, in the real path and in the hook path:
   otherwise every new session is inserted under key `session_initial_seq` and replaces the one idle there *)
Lemma client_seq_before_add :
  client_seq_set_before_add_real = true /\ client_seq_set_before_add_hook = true /\ session_initial_seq = 0.
Proof. repeat split; reflexivity. Qed.

(* a reaper pass is atomic w.r.t. get_idle_session: scan, removal from the map and close all happen under the
   write guard taken for the scan (Model/Pool.v's pool_reap_step is one step; the proofs rely on it) *)
Lemma pool_reap_atomic :
  pool_reap_atomic_under_write_guard = [true; true] /\ pool_get_under_write_guard = true.
Proof. split; reflexivity. Qed.

(* the response baseline of an outstanding keep-alive request is the counter loaded before the request is written *)
Lemma hb_baseline_shape : hb_baseline_before_write = true.
Proof. reflexivity. Qed.
