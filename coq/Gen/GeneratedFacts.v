(* GeneratedFacts.v -- side lemmas (part G of the tie): exactly the facts about the
   regenerated constants that the proofs rely on. A mutation of a literal in the
   Rust source breaks one of these before any test runs. *)
From Coq Require Import List NArith ZArith Lia.
From AnyTLS Require Import Cmd Generated.
Import ListNotations.
Open Scope N_scope.

Lemma header_size_7 : header_size = 7.
Proof. reflexivity. Qed.

Lemma encode_max_payload_u16 : encode_max_payload = 65535.
Proof. reflexivity. Qed.

Lemma cmd_table_exact :
  cmd_table = [(0, Waste); (1, Syn); (2, Push); (3, Fin); (4, Settings); (5, Alert);
               (6, UpdatePaddingScheme); (7, SynAck); (8, HeartRequest);
               (9, HeartResponse); (10, ServerSettings)].
Proof. reflexivity. Qed.

Lemma cmd_disc_exact : cmd_disc = cmd_table.
Proof. reflexivity. Qed.

Lemma cmd_default_waste : cmd_default = Waste.
Proof. reflexivity. Qed.

Lemma check_mark_neg1 : check_mark = (-1)%Z.
Proof. reflexivity. Qed.

(* padding package (C04/C05/C19) *)
Lemma padding_size_bound_u16 : padding_size_bound = Some 65535%Z.
Proof. reflexivity. Qed.

Lemma pkt_index_offset_1 : pkt_index_offset = 1.
Proof. reflexivity. Qed.

Lemma client_pads_server_does_not : client_send_padding = true /\ server_send_padding = false.
Proof. split; reflexivity. Qed.

Lemma pkt_counters_start_at_0 : client_pkt_start = 0 /\ server_pkt_start = 0.
Proof. split; reflexivity. Qed.

Lemma settings_md5_keys_agree : client_settings_md5_key = server_settings_md5_key.
Proof. reflexivity. Qed.

(* ---- misc/cert (C18): shape of CertReloader::{new,reload} and the day arithmetic of cert_analyzer.rs ---- *)
Lemma cert_reload_cert_reads_1 : cert_reload_cert_reads = 1 /\ cert_new_cert_reads = 1.
Proof. split; reflexivity. Qed.

Lemma cert_reload_key_reads_1 : cert_reload_key_reads = 1 /\ cert_new_key_reads = 1.
Proof. split; reflexivity. Qed.

Lemma cert_reload_commit_shape : cert_reload_commit_writes = 4 /\ cert_reload_commit_after_checks = true.
Proof. split; reflexivity. Qed.

Lemma cert_reload_expiry_exact : cert_reload_expiry_compares_not_after = true.
Proof. reflexivity. Qed.

Lemma cert_reload_expiry_days : cert_reload_expiry_uses_is_expired = true.
Proof. reflexivity. Qed.

Lemma cert_day_arith : cert_secs_per_day = 86400%Z /\ cert_expired_below_days = 0%Z.
Proof. split; reflexivity. Qed.

Lemma cert_check_expiry_on : cert_default_check_expiry = true /\ cert_bin_check_expiry = true.
Proof. split; reflexivity. Qed.

Lemma cert_new_accepts_expired : cert_new_rejects_expired = false.
Proof. reflexivity. Qed.

(* ---- parsers (C06, C07, C15, C16) ---- *)
Lemma socks_constants :
  socks_socks5_version = 5 /\ socks_auth_no_authentication = 0 /\ socks_auth_not_acceptable = 255 /\
  socks_cmd_connect = 1 /\ socks_atyp_ipv4 = 1 /\ socks_atyp_domain = 3 /\ socks_atyp_ipv6 = 4 /\
  socks_reply_succeeded = 0 /\ socks_reply_general_failure = 1 /\ socks_reply_command_not_supported = 7.
Proof. repeat split; reflexivity. Qed.

Lemma udp_max_both_u16 : udp_max_client = 65535 /\ udp_max_server = 65535.
Proof. split; reflexivity. Qed.

Lemma udp_datagram_fits_frame : 2 + 65507 <= encode_max_payload.
Proof. vm_compute. discriminate. Qed.

Lemma dns_ttl_positive : (0 < dns_ttl_ms)%Z.
Proof. reflexivity. Qed.

Lemma udp_magic_addr_contains_infix :
  udp_magic_addr = [115; 112; 46; 118; 50; 46] ++ udp_magic_infix.
Proof. reflexivity. Qed.

(* ---- timed package (C12, C13, C14): shape of the pool, the client glue and the liveness rule ---- *)
Lemma pool_shape :
  pool_get_takes_last = true /\ pool_get_skips_closed = true /\ pool_add_skips_closed = true /\
  pool_reap_unexpired_cmp = [0; 0] /\ pool_reap_min_cmp = [0; 0] /\
  pool_reap_purges_closed = 2 /\ pool_reap_ascending = true.
Proof. repeat split; reflexivity. Qed.

(* a new session enters the idle map at creation; a reused one is not put back (root of F2 / F3) *)
Lemma client_glue_shape :
  client_adds_new_session_to_idle = true /\ client_reinserts_on_reuse = false /\
  hb_cfg_is_pool_interval_timeout = true.
Proof. repeat split; reflexivity. Qed.

(* deadline per outstanding request: `sent.elapsed() >= timeout`, cleared by `responses > seen`,
   the counter is advanced by the HeartResponse arm only *)
Lemma hb_rule_shape :
  hb_rule_deadline_per_request = true /\ hb_expire_cmp = 3 /\ hb_answered_cmp = 2 /\
  hb_response_arm_counts = true /\ hb_counter_updates = 1.
Proof. repeat split; reflexivity. Qed.

Lemma cli_positive_seconds :
  cli_rejects_zero_seconds = true /\ cli_interval_timeout_via_parse_u64 = true.
Proof. split; reflexivity. Qed.

Lemma pool_defaults : pool_default_interval_ms = 30000%Z /\ pool_default_timeout_ms = 60000%Z /\ pool_default_min_idle = 1.
Proof. repeat split; reflexivity. Qed.

(* ---- http package (C17): limits of the header read loop, default ports, status codes of the proxy's own replies ---- *)
Lemma http_header_limits :
  http_max_header = 65536 /\ http_terminator = [13; 10; 13; 10] /\ http_read_chunk = 1024.
Proof. repeat split; reflexivity. Qed.

Lemma http_default_ports :
  http_default_port_http = 80 /\ http_default_port_https = 443 /\ http_default_port_connect = 443.
Proof. repeat split; reflexivity. Qed.

Lemma http_reply_codes : http_reply_connect_ok = 200 /\ http_reply_open_failed = 502.
Proof. split; reflexivity. Qed.

(* ---- session package (C01, C02, C08, C10): stream ids start at 1 on both sides; the opener waits 30 s ---- *)
Lemma session_first_ids : client_first_stream_id = 1 /\ server_first_stream_id = 1.
Proof. split; reflexivity. Qed.

Lemma session_synack_timeout : synack_timeout_ms = 30000%Z.
Proof. reflexivity. Qed.

Lemma udp_empty_datagram_forwarded :
  udp_empty_datagram_ends_client = false /\ udp_empty_datagram_ends_server = false.
Proof. split; reflexivity. Qed.

Lemma udp_bind_follows_target : udp_server_bind_follows_target = true.
Proof. reflexivity. Qed.
