(* GeneratedFacts.v -- side lemmas (part G of the tie): exactly the facts about the
   regenerated constants that the proofs rely on. A mutation of a literal in the
   Rust source breaks one of these before any test runs. *)
From Coq Require Import List NArith ZArith Lia.
From AnyTLS Require Import Cmd Generated.
Import ListNotations.
Open Scope N_scope.

Lemma header_size_7 : header_size = 7.
Proof. reflexivity. Qed.

Lemma encode_max_payload_u16 : encode_max_payload = 65535.
Proof. reflexivity. Qed.

Lemma cmd_table_exact :
  cmd_table = [(0, Waste); (1, Syn); (2, Push); (3, Fin); (4, Settings); (5, Alert);
               (6, UpdatePaddingScheme); (7, SynAck); (8, HeartRequest);
               (9, HeartResponse); (10, ServerSettings)].
Proof. reflexivity. Qed.

Lemma cmd_disc_exact : cmd_disc = cmd_table.
Proof. reflexivity. Qed.

Lemma cmd_default_waste : cmd_default = Waste.
Proof. reflexivity. Qed.

Lemma check_mark_neg1 : check_mark = (-1)%Z.
Proof. reflexivity. Qed.

(* padding package (C04/C05/C19) *)
Lemma padding_size_bound_u16 : padding_size_bound = Some 65535%Z.
Proof. reflexivity. Qed.

Lemma pkt_index_offset_1 : pkt_index_offset = 1.
Proof. reflexivity. Qed.

Lemma client_pads_server_does_not : client_send_padding = true /\ server_send_padding = false.
Proof. split; reflexivity. Qed.

Lemma pkt_counters_start_at_0 : client_pkt_start = 0 /\ server_pkt_start = 0.
Proof. split; reflexivity. Qed.

Lemma settings_md5_keys_agree : client_settings_md5_key = server_settings_md5_key.
Proof. reflexivity. Qed.

(* ---- misc/cert (C18): shape of CertReloader::{new,reload} and the day arithmetic of cert_analyzer.rs ---- *)
Lemma cert_reload_cert_reads_1 : cert_reload_cert_reads = 1 /\ cert_new_cert_reads = 1.
Proof. split; reflexivity. Qed.

Lemma cert_reload_key_reads_1 : cert_reload_key_reads = 1 /\ cert_new_key_reads = 1.
Proof. split; reflexivity. Qed.

Lemma cert_reload_commit_shape : cert_reload_commit_writes = 4 /\ cert_reload_commit_after_checks = true.
Proof. split; reflexivity. Qed.

Lemma cert_reload_expiry_exact : cert_reload_expiry_compares_not_after = true.
Proof. reflexivity. Qed.

Lemma cert_reload_expiry_days : cert_reload_expiry_uses_is_expired = true.
Proof. reflexivity. Qed.

Lemma cert_day_arith : cert_secs_per_day = 86400%Z /\ cert_expired_below_days = 0%Z.
Proof. split; reflexivity. Qed.

Lemma cert_check_expiry_on : cert_default_check_expiry = true /\ cert_bin_check_expiry = true.
Proof. split; reflexivity. Qed.

Lemma cert_new_accepts_expired : cert_new_rejects_expired = false.
Proof. reflexivity. Qed.
