(* CertReloadLegacy.v -- the PINNED (pre-fix, /repo @ 1e92959..4c89e5c) behaviour of
   CertReloader::{new,reload}, kept as a model, with machine-checked witnesses that it violates C18.

   Pinned code:   new_config    = create_server_config_from_files(cert_path, key_path)?   (reads cert, key)
                  new_cert_info = CertificateInfo::from_pem_file(cert_path)?              (reads cert AGAIN)
                  if check_expiry && new_cert_info.is_expired() { return Err }            (whole days)
                  four writes
   Two defects, each reproduced on the real code (corpus/C18/*.cases, replayed on every run):
     D13  the acceptor comes from the first read of the certificate file, the reported information
          and the expiry check from the second: an update landing between the two reads leaves the
          old certificate served while the new one is reported -- or an EXPIRED certificate served
          because the second read saw a fresh one.   fix: 263131d (one read, both from the same bytes)
     D14  is_expired() is `days_until_expiry < 0` with the day count truncated towards zero, so a
          certificate that expired less than 24 h ago has 0 days and is installed.   fix: 977343e *)
From Coq Require Import List NArith ZArith Bool Lia.
From AnyTLS Require Import Generated CertReload.
Import ListNotations.
Open Scope Z_scope.

Section Legacy.
  Variables blob chain pkey ident : Type.
  Variable parse_certs : blob -> option chain.
  Variable parse_key   : blob -> option pkey.
  Variable pair_ok     : chain -> pkey -> bool.
  Variable parse_info  : blob -> option (ident * Z).
  Variable check_expiry : bool.

  Notation cr_analyze := (cr_analyze blob ident parse_info).

  Definition load_legacy (rd : cr_reads blob) (w : Z)
    : (cr_loaded blob chain pkey * option (certinfo ident)) + cr_err :=
    match rd_cert rd with
    | None => inr CrIo
    | Some cb =>
      match parse_certs cb with
      | None => inr CrTls
      | Some ch =>
        match rd_key rd with
        | None => inr CrIo
        | Some kb =>
          match parse_key kb with
          | None => inr CrTls
          | Some k =>
            if pair_ok ch k
            then inl (Build_cr_loaded cb kb ch k,
                      match rd_cert2 rd with      (* from_pem_file: a second open of the path *)
                      | None => None
                      | Some cb2 => cr_analyze w cb2
                      end)
            else inr CrTls
          end
        end
      end
    end.

  Definition new_legacy (rd : cr_reads blob) (c : cr_clock) : cr_state blob chain pkey ident + cr_err :=
    match load_legacy rd (cr_wall_an c) with
    | inr e => inr e
    | inl (l, oi) => inl (Build_cr_state l oi 0%N None)
    end.

  Definition reload_legacy (st : cr_state blob chain pkey ident) (rd : cr_reads blob) (c : cr_clock)
    : cr_state blob chain pkey ident * cr_outcome :=
    match load_legacy rd (cr_wall_an c) with
    | inr e => (st, CrErr e)
    | inl (_, None) => (st, CrErr CrTls)
    | inl (l, Some i) =>
      if check_expiry && cr_is_expired_days (ci_days i) then (st, CrErr CrTls)
      else if (cr_count st =? cr_u64_max)%N
      then (Build_cr_state l (Some i) (cr_count st) (cr_last st), CrPanic)
      else (Build_cr_state l (Some i) (cr_count st + 1)%N (Some (cr_mono c)), CrOk)
    end.
End Legacy.

(* ---- a concrete world: blobs, chains, keys and identities are numbers ----
   certificate files 1 (key 10), 2 (key 20), 3 (key 10, expired two days before `now`),
   4 (key 10, expired one hour before `now`); key files 10, 20 *)
Definition now_ns : Z := 1790000000 * cr_ns_per_sec.
Definition hour_ns : Z := 3600 * cr_ns_per_sec.
Definition day_ns : Z := 86400 * cr_ns_per_sec.

Definition w_parse_certs (b : N) : option N :=
  if ((b =? 1) || (b =? 2) || (b =? 3) || (b =? 4))%N then Some b else None.
Definition w_parse_key (b : N) : option N := if ((b =? 10) || (b =? 20))%N then Some b else None.
Definition w_pair_ok (ch k : N) : bool :=
  (((ch =? 1) || (ch =? 3) || (ch =? 4)) && (k =? 10) || (ch =? 2) && (k =? 20))%N.
Definition w_parse_info (b : N) : option (N * Z) :=
  match b with
  | 1%N => Some (101%N, now_ns + 3650 * day_ns)
  | 2%N => Some (102%N, now_ns + 3650 * day_ns)
  | 3%N => Some (103%N, now_ns - 2 * day_ns)
  | 4%N => Some (104%N, now_ns - hour_ns)
  | _ => None
  end.
Definition w_clock : cr_clock := {| cr_wall_an := now_ns; cr_wall_chk := now_ns; cr_mono := 7 |}.
Definition stable (c k : N) : cr_reads N := Build_cr_reads (Some c) (Some k) (Some c).

Notation w_new_legacy := (new_legacy N N N N w_parse_certs w_parse_key w_pair_ok w_parse_info).
Notation w_reload_legacy := (reload_legacy N N N N w_parse_certs w_parse_key w_pair_ok w_parse_info true).
Notation w_analyze := (cr_analyze N N w_parse_info).

(* D13a: the certificate file is replaced (1 -> 2) between the two reads of one reload. The reload
   succeeds, certificate 1 keeps being served, certificate 2 is reported as active. *)
Lemma C18_refuted_torn_info :
  exists st0 rd,
    w_new_legacy (stable 1 10) w_clock = inl st0 /\
    snd (w_reload_legacy st0 rd w_clock) = CrOk /\
    let st := fst (w_reload_legacy st0 rd w_clock) in
    l_cert (cr_active st) = 1%N /\
    cr_info st = w_analyze now_ns 2%N /\
    (forall w, cr_info st <> w_analyze w (l_cert (cr_active st))).
Proof.
  eexists. exists (Build_cr_reads (Some 1%N) (Some 10%N) (Some 2%N)).
  split; [vm_compute; reflexivity|].
  split; [vm_compute; reflexivity|].
  cbv zeta. split; [vm_compute; reflexivity|]. split; [vm_compute; reflexivity|].
  intros w H. apply (f_equal (option_map ci_ident)) in H. lazy in H. discriminate.
Qed.

(* D13b: first read = the expired certificate 3, second read = the fresh certificate 1 (both for
   key 10): with the expiry check ON the reload succeeds and the EXPIRED certificate is served. *)
Lemma C18_refuted_expired_served :
  exists st0 rd na,
    w_new_legacy (stable 1 10) w_clock = inl st0 /\
    snd (w_reload_legacy st0 rd w_clock) = CrOk /\
    l_cert (cr_active (fst (w_reload_legacy st0 rd w_clock))) = 3%N /\
    w_parse_info 3%N = Some (103%N, na) /\ na < cr_wall_chk w_clock.
Proof.
  eexists. exists (Build_cr_reads (Some 3%N) (Some 10%N) (Some 1%N)). eexists.
  split; [vm_compute; reflexivity|].
  split; [vm_compute; reflexivity|].
  split; [vm_compute; reflexivity|].
  split; [vm_compute; reflexivity|]. vm_compute; reflexivity.
Qed.

(* D14: a stable disk holding a certificate that expired one hour ago: accepted with the check ON *)
Lemma C18_refuted_recently_expired :
  exists st0 na,
    w_new_legacy (stable 1 10) w_clock = inl st0 /\
    snd (w_reload_legacy st0 (stable 4 10) w_clock) = CrOk /\
    l_cert (cr_active (fst (w_reload_legacy st0 (stable 4 10) w_clock))) = 4%N /\
    w_parse_info 4%N = Some (104%N, na) /\ na < cr_wall_chk w_clock.
Proof.
  eexists. eexists.
  split; [vm_compute; reflexivity|].
  split; [vm_compute; reflexivity|].
  split; [vm_compute; reflexivity|].
  split; [vm_compute; reflexivity|]. vm_compute; reflexivity.
Qed.

(* the whole-day test is blind for exactly the first 24 hours after not_after *)
Lemma legacy_expiry_blind_window : forall na now,
  na < now -> (cr_is_expired_days (cr_days_until na now) = false <-> now - na < day_ns).
Proof.
  intros na now H. unfold cr_is_expired_days, cr_days_until, day_ns, cr_ns_per_sec.
  replace cert_expired_below_days with 0 by reflexivity.
  replace cert_secs_per_day with 86400 by reflexivity.
  destruct (Z.leb_spec now na) as [Hle|Hgt]; [lia|].
  rewrite Z.ltb_ge.
  rewrite Z.div_div by lia.
  split; intro Hx.
  - assert (Hq : (now - na) / (1000000000 * 86400) <= 0) by lia.
    destruct (Z_lt_ge_dec (now - na) (86400 * 1000000000)) as [Hlt|Hge]; [exact Hlt|].
    exfalso. assert (1 <= (now - na) / (1000000000 * 86400)).
    { apply Z.div_le_lower_bound; lia. } lia.
  - rewrite Z.div_small by lia. lia.
Qed.
