(* ConcLegacy.v -- the write / close path of the PINNED session.rs (before the fix: commits 37cfea8,
   4bc6bc8, 0e2b7fc, 887136c), as a small interleaving machine of its own, with machine-checked witnesses
   that the pinned code violated C11, C05 (ordering) and C09. Not used by the correspondence check (the
   code it describes no longer exists); the witnesses are replayed against the implementation by the
   corpus schedules of C09 / C11, which fail again if the corresponding fix is reverted.

   Pinned write_frame:   (no closed check)  buffering ? append : { take buffer (lock released) ;
                         pkt := counter++ (outside the writer lock) ; lock writer ; write ; on error:
                         handle_io_error -> close() WHILE STILL HOLDING the writer guard }
   Pinned close():       swap flag ; drain tables ; lock writer ; shutdown.
   Pinned packet index:  the first session packet is number 0 (the preamble's line). *)
From Coq Require Import List NArith Bool Arith.
From AnyTLS Require Import Bytes Cmd Generated Frame.
Import ListNotations.
Open Scope N_scope.

Inductive lpc :=
| LIdle
| LTaken (held : list frame) (idx : N)      (* buffer drained and packet numbered; writer lock NOT yet held *)
| LLocked (held : list frame) (idx : N)     (* writer lock held, about to write *)
| LClosing                                   (* inside close(): flag set, about to lock the writer *)
| LDone.

Record lstate := {
  l_buffering : bool; l_pending : list frame; l_wr : option nat; l_pkt : N;
  l_wire : list (N * list frame); l_closed : bool; l_shut : bool; l_failing : bool;
  l_pcs : nat -> lpc; l_todo : nat -> list frame   (* frames each task still has to write *)
}.

Definition lupd {A} (f : nat -> A) (t : nat) (v : A) : nat -> A := fun t' => if Nat.eqb t' t then v else f t'.

Definition lset (s : lstate) (t : nat) (p : lpc) : lstate :=
  {| l_buffering := l_buffering s; l_pending := l_pending s; l_wr := l_wr s; l_pkt := l_pkt s;
     l_wire := l_wire s; l_closed := l_closed s; l_shut := l_shut s; l_failing := l_failing s;
     l_pcs := lupd (l_pcs s) t p; l_todo := l_todo s |}.

Definition lstep (s : lstate) (t : nat) : option lstate :=
  match l_pcs s t with
  | LIdle =>
      match l_todo s t with
      | [] => None
      | f :: rest =>
          if l_buffering s then
            Some {| l_buffering := true; l_pending := l_pending s ++ [f]; l_wr := l_wr s; l_pkt := l_pkt s;
                    l_wire := l_wire s; l_closed := l_closed s; l_shut := l_shut s; l_failing := l_failing s;
                    l_pcs := l_pcs s; l_todo := lupd (l_todo s) t rest |}
          else
            (* take the buffer, release its lock, number the packet -- all before the writer lock *)
            Some {| l_buffering := false; l_pending := []; l_wr := l_wr s; l_pkt := l_pkt s + 1;
                    l_wire := l_wire s; l_closed := l_closed s; l_shut := l_shut s; l_failing := l_failing s;
                    l_pcs := lupd (l_pcs s) t (LTaken (l_pending s ++ [f]) (l_pkt s));
                    l_todo := lupd (l_todo s) t rest |}
      end
  | LTaken held idx =>
      match l_wr s with
      | None => Some {| l_buffering := l_buffering s; l_pending := l_pending s; l_wr := Some t; l_pkt := l_pkt s;
                        l_wire := l_wire s; l_closed := l_closed s; l_shut := l_shut s; l_failing := l_failing s;
                        l_pcs := lupd (l_pcs s) t (LLocked held idx); l_todo := l_todo s |}
      | Some _ => None
      end
  | LLocked held idx =>
      if l_failing s
      then (* handle_io_error -> close(): flag set, tables drained, guard still held *)
        Some {| l_buffering := l_buffering s; l_pending := l_pending s; l_wr := l_wr s; l_pkt := l_pkt s;
                l_wire := l_wire s; l_closed := true; l_shut := l_shut s; l_failing := true;
                l_pcs := lupd (l_pcs s) t LClosing; l_todo := l_todo s |}
      else
        Some {| l_buffering := l_buffering s; l_pending := l_pending s; l_wr := None; l_pkt := l_pkt s;
                l_wire := l_wire s ++ [(idx, held)]; l_closed := l_closed s; l_shut := l_shut s;
                l_failing := false; l_pcs := lupd (l_pcs s) t LIdle; l_todo := l_todo s |}
  | LClosing =>
      match l_wr s with
      | None => Some {| l_buffering := l_buffering s; l_pending := l_pending s; l_wr := None; l_pkt := l_pkt s;
                        l_wire := l_wire s; l_closed := true; l_shut := true; l_failing := l_failing s;
                        l_pcs := lupd (l_pcs s) t LDone; l_todo := l_todo s |}
      | Some _ => None        (* writer.lock().await : blocked, also when the holder is this very task *)
      end
  | LDone => None
  end.

Definition lrun (s : lstate) (sched : list nat) : lstate :=
  fold_left (fun s t => match lstep s t with Some s' => s' | None => s end) sched s.

Definition linit (buf : bool) (pend : list frame) (todo : list (list frame)) (failing : bool) : lstate :=
  {| l_buffering := buf; l_pending := pend; l_wr := None; l_pkt := 0; l_wire := []; l_closed := false;
     l_shut := false; l_failing := failing; l_pcs := fun _ => LIdle; l_todo := fun t => nth t todo [] |}.

Definition settings : frame := {| fcmd := Settings; fsid := 0; fdata := [] |}.
Definition syn (i : N) : frame := {| fcmd := Syn; fsid := i; fdata := [] |}.
Definition psh (i : N) : frame := {| fcmd := Push; fsid := i; fdata := [i] |}.

(* C11: task 1 drains [Settings; SYN 1] together with its PSH 1 and is pre-empted before taking the writer
   lock; task 2 (buffer now empty) writes SYN 2 first: SYN 2 precedes the Settings frame on the wire *)
Lemma C11_refuted_settings_not_first :
  exists sched,
    let s := lrun (linit false [settings; syn 1] [[]; [psh 1]; [syn 2]] false) sched in
    concat (map snd (l_wire s)) = [syn 2; settings; syn 1; psh 1].
Proof. exists [1; 2; 2; 2; 1; 1]%nat. vm_compute. reflexivity. Qed.

(* C11: a stream's PSH overtakes its own SYN: task 1 holds [SYN 1] (taken with a control frame) while task 2,
   which inherited stream 1, writes PSH 1 directly *)
Lemma C11_refuted_psh_before_syn :
  exists sched,
    let s := lrun (linit false [syn 1] [[]; [settings]; [psh 1]] false) sched in
    concat (map snd (l_wire s)) = [psh 1; syn 1; settings].
Proof. exists [1; 2; 2; 2; 1; 1]%nat. vm_compute. reflexivity. Qed.

(* C05 (ordering + numbering): the burst that reaches the transport first was shaped with packet number 1,
   the second with number 0; and the very first session packet is number 0 (the preamble's line) *)
Lemma C05_refuted_order :
  exists sched,
    let s := lrun (linit false [] [[]; [psh 1]; [psh 2]] false) sched in
    map fst (l_wire s) = [1; 0].
Proof. exists [1; 2; 2; 2; 1; 1]%nat. vm_compute. reflexivity. Qed.

Lemma C05_refuted_first_packet_is_line_0 :
  map fst (l_wire (lrun (linit false [] [[]; [psh 1]] false) [1; 1; 1]%nat)) = [0].
Proof. vm_compute. reflexivity. Qed.

(* C09: a failing transport write never returns: the task ends up inside close() waiting for the writer lock
   it holds itself; no schedule can move it (or anybody queued behind it) any further *)
Lemma C09_refuted_self_deadlock :
  let s := lrun (linit false [] [[]; [psh 1]; [psh 2]] true) [1; 1; 1; 2]%nat in
  l_pcs s 1%nat = LClosing /\ l_wr s = Some 1%nat /\ l_shut s = false /\
  lstep s 1%nat = None /\ lstep s 2%nat = None.
Proof. vm_compute. repeat split; reflexivity. Qed.

Lemma C09_refuted_stuck_forever : forall sched,
  let s0 := lrun (linit false [] [[]; [psh 1]; [psh 2]] true) [1; 1; 1; 2]%nat in
  l_shut (lrun s0 (map (fun b : bool => if b then 1%nat else 2%nat) sched)) = false.
Proof.
  intros sched. cbv zeta.
  set (s0 := lrun (linit false [] [[]; [psh 1]; [psh 2]] true) [1; 1; 1; 2]%nat).
  assert (forall l, lrun s0 (map (fun b : bool => if b then 1%nat else 2%nat) l) = s0) as Hfix.
  { induction l as [|b l IH]; [reflexivity|]. cbn [map]. unfold lrun in *. cbn [fold_left].
    assert (lstep s0 (if b then 1%nat else 2%nat) = None) as E by (destruct b; vm_compute; reflexivity).
    rewrite E. exact IH. }
  rewrite Hfix. vm_compute. reflexivity.
Qed.
