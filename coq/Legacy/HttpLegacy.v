(* HttpLegacy.v -- the PINNED (pre-fix, /repo @ 1e92959) behaviour of src/client/http_proxy.rs where it differs
   from Model/Http.v, with machine-checked witnesses that it violates C17 (`C17_refuted_*`).
   Each witness is replayed on the implementation from corpus/C17/ on every run. *)
From Coq Require Import List NArith Bool.
From AnyTLS Require Import Bytes Generated HttpText Http.
Import ListNotations.
Open Scope N_scope.

(* pinned split_host_port: an empty port (`host:`) falls through with the colon kept in the host *)
Definition split_host_port_cur (value : bytes) (default : N) : bytes * N :=
  match h_rfind_byte c_colon value with
  | Some idx =>
      if h_contains_byte c_colon (takeN idx value) && negb (h_contains_byte c_rbr value)
      then (value, default)
      else
        match h_parse_u16 (dropN (idx + 1) value) with
        | Some p => (clean_host (takeN idx value), p)
        | None => (clean_host value, default)
        end
  | None => (clean_host value, default)
  end.

(* pinned Host lookup: only the spellings `Host:` and `host:` *)
Fixpoint find_host_header_cur (hs : list bytes) : option bytes :=
  match hs with
  | [] => None
  | l :: r =>
      match h_strip_prefix [72; 111; 115; 116; 58] l with
      | Some rest => Some (h_trim rest)
      | None =>
          match h_strip_prefix [104; 111; 115; 116; 58] l with
          | Some rest => Some (h_trim rest)
          | None => find_host_header_cur r
          end
      end
  end.

(* pinned determine_target: case-sensitive scheme test, authority ends only at '/' *)
Definition determine_target_cur (method target : bytes) (headers : list bytes)
  : hres (bytes * N * bytes * bool) :=
  if h_eq_ignore_case method k_connect then
    let '(h, p) := split_host_port_cur target 443 in HOk (h, p, [], true)
  else
    let host_header := find_host_header_cur headers in
    let is_http := h_starts_with k_http target in
    let is_https := h_starts_with k_https target in
    let '(host, port, path) :=
      if is_http || is_https then
        let without_scheme :=
          match h_find k_scheme_sep target with
          | Some pos => dropN (pos + 3) target
          | None => target
          end in
        let '(host, path) :=
          match h_find_if (fun c => c =? c_slash) without_scheme with
          | Some pos => (takeN pos without_scheme, dropN pos without_scheme)
          | None => (without_scheme, [c_slash])
          end in
        (host, (if is_https then 443 else 80), path)
      else
        match host_header with
        | Some h => (h, 80, target)
        | None => ([], 80, target)
        end in
    if h_nil host then HErr
    else
      let '(host_only, port_resolved) := split_host_port_cur host port in
      let path' :=
        if h_starts_with [c_slash] path || h_starts_with [c_star] path then path else c_slash :: path in
      HOk (host_only, port_resolved, path', false).

Definition parse_http_request_cur (header body : bytes) : hres hparsed :=
  match h_split_crlf header with
  | [] => HErr
  | request_line :: lines =>
      match h_split_whitespace request_line with
      | method :: target :: rest =>
          let version := match rest with v :: _ => v | [] => k_http11 end in
          let header_lines := filter (fun l => negb (h_nil l)) lines in
          match determine_target_cur method target header_lines with
          | HErr => HErr
          | HOk (host, port, path, is_connect) =>
              HOk {| hp_method := method; hp_version := version; hp_host := host; hp_port := port;
                    hp_path := path; hp_connect := is_connect; hp_headers := header_lines; hp_body := body |}
          end
      | _ => HErr
      end
  end.

(* pinned build_forward_request: the host is printed as it is, IPv6 literals lose their brackets *)
Definition host_line_out_cur (host : bytes) (port : N) : bytes :=
  k_host_sp ++ (if (port =? 80) || (port =? 443) then host else host ++ c_colon :: h_dec port) ++ k_crlf.

Definition build_forward_request_cur (r : hparsed) : bytes :=
  let hv := host_line_out_cur (hp_host r) (hp_port r) in
  (hp_method r ++ c_sp :: (if h_nil (hp_path r) then [c_slash] else hp_path r) ++ c_sp :: hp_version r ++ k_crlf)
  ++ concat (map (rewrite_line hv) (hp_headers r))
  ++ (if existsb is_host_line (hp_headers r) then [] else hv)
  ++ k_crlf.

(* pinned read loop: the size test precedes the terminator search *)
Fixpoint read_header_cur (buf : bytes) (chunks : list bytes) (eof : bool) : hrh :=
  match chunks with
  | [] => if eof then RhClosed else RhPending buf
  | c :: cs =>
      if h_nil c then RhClosed
      else
        let buf' := buf ++ c in
        if http_max_header <? lenN buf' then RhTooLarge
        else match find_header_end buf' with
             | Some e => RhOk (takeN e buf') (dropN e buf') cs
             | None => read_header_cur buf' cs eof
             end
  end.

(* pinned handler: for CONNECT the bytes that arrived with the header are never sent *)
Definition handle_cur (chunks : list bytes) (eof : bool) (open_ok : bool) : list hev :=
  match read_header_cur [] chunks eof with
  | RhOk h rest remaining =>
      match parse_http_request_cur h rest with
      | HErr => []
      | HOk r =>
          EvOpen (hp_host r) (hp_port r) ::
          (if open_ok then
             (if hp_connect r then [EvReply 200]
              else [EvSend (build_forward_request_cur r)] ++ opt_send (hp_body r))
             ++ fwd_loop remaining
           else [EvReply 502])
      end
  | _ => []
  end.

Definition forward_of_cur (r : hreq) : hres (bytes * N * bool * bytes) :=
  match parse_http_request_cur (render_head r) (r_body r) with
  | HErr => HErr
  | HOk p => HOk (hp_host p, hp_port p, hp_connect p, if hp_connect p then [] else build_forward_request_cur p)
  end.

(* =====================================================================================================
   Machine-checked witnesses: the pinned behaviour violates C17 (each replayed from corpus/C17/). *)
From Coq Require Import String.

Definition lg_req (m : string) (t : rtarget) (hh : option host_hdr) (body : string) : hreq :=
  {| r_method := bs m; r_target := t; r_version := bs "HTTP/1.1"; r_before := []; r_host := hh;
     r_after := [bs "X: y"]; r_body := bs body |}.
Definition lg_host (name : string) (h : hostname) (p : option (list N)) : option host_hdr :=
  Some {| hh_name := bs name; hh_pre := [32]; hh_auth := {| au_host := h; au_port := p |}; hh_post := [] |}.

(* (1) `HOST:` spelling: a well-formed origin-form request is rejected ("Host header missing") *)
Lemma C17_refuted_1_host_spelling :
  exists r, wf_req r = true /\ parse_http_request_cur (render_head r) (r_body r) = HErr /\
            exists p, parse_http_request (render_head r) (r_body r) = HOk p.
Proof.
  exists (lg_req "GET" (TOrigin (bs "/a")) (lg_host "HOST" (HName (bs "example.com")) None) "").
  vm_compute. repeat split. eexists. reflexivity.
Qed.

(* (2) IPv6 literal: the rewritten Host header loses the brackets (`Host: ::1:8080`) *)
Lemma C17_refuted_2_ipv6_brackets :
  exists r p, wf_req r = true /\ is_connect_req r = false /\
              parse_http_request_cur (render_head r) (r_body r) = HOk p /\
              bytes_eqb (build_forward_request_cur p) (render_head (origin_form r)) = false /\
              h_find (bs "Host: ::1:8080") (build_forward_request_cur p) <> None.
Proof.
  eexists (lg_req "GET" (TOrigin (bs "/a")) (lg_host "Host" (HV6 (bs "::1")) (Some [8; 0; 8; 0])) ""), _.
  split; [vm_compute; reflexivity|]. split; [reflexivity|]. split; [vm_compute; reflexivity|].
  split; [vm_compute; reflexivity|]. vm_compute. discriminate.
Qed.

(* (3) query without path: `http://example.com?q=1` opens the tunnel to host "example.com?q=1" *)
Lemma C17_refuted_3_query_without_path :
  exists r p, wf_req r = true /\ parse_http_request_cur (render_head r) (r_body r) = HOk p /\
              spec_target r = Some (bs "example.com", 80) /\ hp_host p = bs "example.com?q=1" /\ hp_path p = bs "/".
Proof.
  eexists (lg_req "GET" (TAbsolute false (bs "http") {| au_host := HName (bs "example.com"); au_port := None |} (bs "?q=1"))
                  None ""), _.
  split; [vm_compute; reflexivity|]. split; [vm_compute; reflexivity|]. repeat split.
Qed.

(* (4) upper-case scheme: `HTTP://example.com/a` is treated as an origin-form path and routed by the Host header *)
Lemma C17_refuted_4_scheme_case :
  exists r p, wf_req r = true /\ parse_http_request_cur (render_head r) (r_body r) = HOk p /\
              spec_target r = Some (bs "example.com", 80) /\ hp_host p = bs "other" /\
              hp_path p = bs "/HTTP://example.com/a".
Proof.
  eexists (lg_req "GET" (TAbsolute false (bs "HTTP") {| au_host := HName (bs "example.com"); au_port := None |} (bs "/a"))
                  (lg_host "Host" (HName (bs "other")) None) ""), _.
  split; [vm_compute; reflexivity|]. split; [vm_compute; reflexivity|]. repeat split.
Qed.

(* (5) bytes that arrive together with a CONNECT header are never sent into the tunnel *)
Lemma C17_refuted_5_connect_early_bytes :
  exists r, wf_req r = true /\ is_connect_req r = true /\ r_body r <> [] /\
            handle_cur [render r] false true = [EvOpen (bs "example.com") 443; EvReply 200] /\
            sent_bytes (handle [render r] false true) = r_body r.
Proof.
  exists (lg_req "CONNECT" (TAuthority {| au_host := HName (bs "example.com"); au_port := Some [4; 4; 3] |}) None "EARLY").
  vm_compute. repeat split. discriminate.
Qed.

(* (6) the same bytes (a 65530-byte header block followed by 1000 body bytes) are accepted when the reads are
   aligned to 1024 and rejected when a first read of 100 bytes mis-aligns them *)
Definition lg_big : bytes :=
  bs "GET / HTTP/1.1" ++ [13; 10] ++ bs "Host: a" ++ [13; 10] ++ bs "X: " ++ repeat 112 (N.to_nat 65498)
  ++ [13; 10; 13; 10] ++ repeat 98 (N.to_nat 1000).

Definition lg_ok_with (r : hrh) (h : bytes) : bool :=
  match r with RhOk h' _ _ => bytes_eqb h' h | _ => false end.
Definition lg_too_large (r : hrh) : bool := match r with RhTooLarge => true | _ => false end.

Lemma C17_refuted_6_limit_depends_on_chunking :
  let aligned := rechunk 1024 lg_big in
  let misaligned := takeN 100 lg_big :: rechunk 1024 (dropN 100 lg_big) in
  (bytes_eqb (List.concat aligned) lg_big && bytes_eqb (List.concat misaligned) lg_big
   && match find_header_end lg_big with Some e => e =? 65530 | None => false end
   && lg_ok_with (read_header_cur [] aligned false) (takeN 65530 lg_big)
   && lg_too_large (read_header_cur [] misaligned false)
   && lg_ok_with (read_header [] misaligned false) (takeN 65530 lg_big)) = true.
Proof. vm_compute. reflexivity. Qed.

(* (7) an empty port (`example.com:`) keeps the colon in the host name *)
Lemma C17_refuted_7_empty_port :
  exists r p, wf_req r = true /\ parse_http_request_cur (render_head r) (r_body r) = HOk p /\
              spec_target r = Some (bs "example.com", 80) /\ hp_host p = bs "example.com:".
Proof.
  eexists (lg_req "GET" (TAbsolute false (bs "http") {| au_host := HName (bs "example.com"); au_port := Some [] |} (bs "/a"))
                  None ""), _.
  split; [vm_compute; reflexivity|]. split; [vm_compute; reflexivity|]. repeat split.
Qed.
