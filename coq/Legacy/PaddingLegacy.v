(* PaddingLegacy.v -- the pinned (pre-fix) behaviour of the padding code where it differs from Model/Padding.v,
   with machine-checked witnesses that it violates C04 / C05 / C19 (DESIGN section 9: D3, D4, D12).
   The witnesses are also stored in corpus/C04, corpus/C05, corpus/C19 and replayed on the implementation. *)
From Coq Require Import List NArith ZArith Lia Bool.
From AnyTLS Require Import Bytes Cmd Generated Frame Text Padding PaddingProofs PaddingProcProofs.
Import ListNotations.
Open Scope N_scope.

(* D3: generate_record_payload_sizes without the bound on sizes *)
Definition line_entries_unbounded : scheme -> N -> list entry := line_entries_gen None.
Definition write_packet_d3 := write_packet_gen pkt_index line_entries_unbounded.

(* D4: packets numbered from 0 (the counter value before the increment selects the line) *)
Definition write_packet_d4 := write_packet_gen (fun c => u32_of c) line_entries.

Definition scheme_of (raw : bytes) : scheme :=
  match factory_new raw with Some s => s | None => {| sc_map := []; sc_raw := raw; sc_stop := 0 |} end.

Definition writes_of (r : shaped) : list bytes := match r with Writes ws => ws | Crash => [] end.

(* "stop=3\n1=70000-70000" *)
Definition scheme_70000 : bytes := [115;116;111;112;61;51;10;49;61;55;48;48;48;48;45;55;48;48;48;48].
(* "stop=3\n1=2147483648-2147483648" *)
Definition scheme_2g : bytes := [115;116;111;112;61;51;10;49;61;50;49;52;55;52;56;51;54;52;56;45;50;49;52;55;52;56;51;54;52;56].
(* "stop=3\n1=4294967295-4294967295,10-10" *)
Definition scheme_alias : bytes := [115;116;111;112;61;51;10;49;61;52;50;57;52;57;54;55;50;57;53;45;52;50;57;52;57;54;55;50;57;53;44;49;48;45;49;48].

Definition ten_byte_frame : bytes := [2; 0;0;0;1; 0;10; 1;2;3;4;5;6;7;8;9;10].

(* a size above 65535: the padding frame's length field is size mod 65536 while all the zeros are written:
   the wire no longer parses as complete frames *)
Lemma C04_refuted_wire :
  exists sc p, factory_new scheme_70000 = Some sc /\
    let ws := writes_of (fst (write_packet_d3 true sc 0 [] p)) in
    lenN (concat ws) = 70000 /\ snd (decode_all (concat ws)) <> [].
Proof.
  exists (scheme_of scheme_70000), ten_byte_frame. split; [reflexivity|]. cbv zeta.
  split; [vm_compute; reflexivity|]. vm_compute. discriminate.
Qed.

(* a size >= 2^31 wraps to a negative i32, sign-extends to a huge usize: capacity overflow *)
Lemma C04_refuted_crash :
  exists sc p, factory_new scheme_2g = Some sc /\ fst (write_packet_d3 true sc 0 [] p) = Crash.
Proof. exists (scheme_of scheme_2g), ten_byte_frame. split; vm_compute; reflexivity. Qed.

(* 4294967295 wraps to -1 = CHECK_MARK: a range entry turns into a check mark *)
Lemma C04_refuted_alias :
  exists sc, factory_new scheme_alias = Some sc /\
    line_entries_unbounded sc 1 = [ERange 4294967295 4294967295; ERange 10 10] /\
    sizes (line_entries_unbounded sc 1) [] = [check_mark; 10%Z].
Proof. exists (scheme_of scheme_alias). repeat split; vm_compute; reflexivity. Qed.

(* the repaired generator ignores all three *)
Lemma D3_repaired :
  line_entries (scheme_of scheme_70000) 1 = [] /\ line_entries (scheme_of scheme_2g) 1 = [] /\
  line_entries (scheme_of scheme_alias) 1 = [ERange 10 10].
Proof. repeat split; vm_compute; reflexivity. Qed.

(* D4: with the old numbering the first session packet (100 payload bytes, built-in scheme) is shaped by
   line 0 (30-30) instead of line 1 (100-400): writes of 30 and 70 bytes, not accepted by line 1 *)
Lemma C05_refuted_index :
  let p := repeat 7 100 in
  let ws := writes_of (fst (write_packet_d4 true builtin_scheme 0 [] p)) in
  map (@length N) ws = [30; 70]%nat /\ accepts (line_entries builtin_scheme 1) p ws = false /\
  (forall d, (100 <= d <= 400)%Z ->
     accepts (line_entries builtin_scheme 1) p (writes_of (fst (write_packet true builtin_scheme 0 [d] p))) = true).
Proof.
  cbv zeta. split; [vm_compute; reflexivity|]. split; [vm_compute; reflexivity|].
  intros d Hd. set (p := repeat 7 100).
  assert (line_entries builtin_scheme (pkt_index 0) = [ERange 100 400]) as El by (vm_compute; reflexivity).
  assert (draws_ok (line_entries builtin_scheme (pkt_index 0)) [d]) as Hok.
  { rewrite El. cbn [draws_ok]. destruct (Z.eqb_spec 100 400); [discriminate|]. split; [lia | exact I]. }
  destruct (write_packet_wire true builtin_scheme 0 [d] p Hok) as (ws & ns & E & _).
  rewrite E. cbn [writes_of].
  assert (pkt_index 0 = 1) as Ei by reflexivity. rewrite <- Ei.
  apply (write_packet_accepted builtin_scheme 0 [d] p ws Hok E). vm_compute. reflexivity.
Qed.

(* D12: the default scheme as a write-once cell, and a client that hands its construction-time scheme to
   every new session *)
Record lproc := { l_cell : option scheme }.
Definition lproc_default (p : lproc) : scheme * lproc :=
  match l_cell p with
  | Some s => (s, p)
  | None => (builtin_scheme, {| l_cell := Some builtin_scheme |})
  end.
Definition lproc_update (p : lproc) (raw : bytes) : option lproc :=
  match factory_new raw with
  | None => None
  | Some f => match l_cell p with None => Some {| l_cell := Some f |} | Some _ => None end
  end.
Definition on_update_legacy (p : lproc) (s : csess) (raw : bytes) : lproc * csess :=
  if cs_client s && negb (is_nil raw) then
    match lproc_update p raw with
    | Some p' => let '(d, p'') := lproc_default p' in (p'', sess_set_scheme s d)
    | None => (p, s)
    end
  else (p, s).
Definition session_padding_legacy (p : lproc) (client_scheme : scheme) : scheme := client_scheme.

(* "stop=2\n1=50-50" *)
Definition scheme_b : bytes := [115;116;111;112;61;50;10;49;61;53;48;45;53;48].

(* once the built-in default has been materialised (the client binary does it at start-up), a pushed scheme
   is rejected: the session keeps the old scheme and so does the process *)
Lemma C19_refuted_push_ignored :
  exists f, factory_new scheme_b = Some f /\
    let p1 := snd (lproc_default {| l_cell := None |}) in
    let s := sess_new true builtin_scheme in
    on_update_legacy p1 s scheme_b = (p1, s) /\ cs_scheme s <> f.
Proof.
  exists (scheme_of scheme_b). split; [reflexivity|]. cbv zeta. split; [vm_compute; reflexivity|].
  intros H. apply (f_equal sc_stop) in H. vm_compute in H. discriminate.
Qed.

(* and even when the first push is adopted, the next session of the client announces the old scheme again *)
Lemma C19_refuted_next_session :
  exists f cl, factory_new scheme_b = Some f /\ sc_raw cl <> sc_raw f /\
    let '(p1, s1) := on_update_legacy {| l_cell := None |} (sess_new true cl) scheme_b in
    cs_scheme s1 = f /\ session_padding_legacy p1 cl = cl /\
    (* a second push in the same process is then rejected *)
    on_update_legacy p1 (sess_new true cl) scheme_b = (p1, sess_new true cl).
Proof.
  exists (scheme_of scheme_b), (scheme_of scheme_70000). split; [reflexivity|].
  split; [vm_compute; discriminate|]. vm_compute. repeat split; reflexivity.
Qed.

(* the repaired process adopts the same pushes *)
Lemma D12_repaired :
  let f := scheme_of scheme_b in
  let p1 := snd (proc_default proc_init) in
  on_update p1 (sess_new true builtin_scheme) scheme_b = (proc_with p1 f, sess_set_scheme (sess_new true builtin_scheme) f) /\
  session_padding (proc_with p1 f) builtin_scheme = f.
Proof. cbv zeta. split; [apply on_update_adopts; reflexivity | reflexivity]. Qed.
