(* ParsersLegacy.v -- models of the PINNED (pre-fix) behaviour where it violates C07 / C16, with
   machine-checked witnesses.  The witnesses are replayed on the implementation from corpus/C07, corpus/C16. *)
From Coq Require Import List NArith ZArith Bool.
From AnyTLS Require Import Bytes Reader ReaderProg Generated Dest Socks5 DnsCache.
Import ListNotations.
Open Scope N_scope.

(* ---------------- D5 (C07): the cache hit returned the cached SocketAddr, port included ---------------- *)
Section LegacyDns.
  Variable parse_ip : bytes -> option ip.
  Variable resolve : Z -> bytes -> list ip.

  Definition dns_request_legacy (c : cache) (now : Z) (host : bytes) (port : N) : cache * option sockaddr :=
    match parse_ip host with
    | Some i => (c, Some (i, port))
    | None =>
        match cache_get c now host with
        | Some a => (cache_advance c host, Some a)                 (* <- the defect: `return Ok(addr)` *)
        | None =>
            match sort_addrs (map (fun i => (i, port)) (resolve now host)) with
            | [] => (c, None)
            | a :: rest => (cache_advance (cache_fill c now host (a :: rest)) host, Some a)
            end
        end
    end.

  Fixpoint dns_run_legacy (c : cache) (h : list (Z * hop)) : list answer :=
    match h with
    | [] => []
    | (t, HReq host port) :: h' =>
        let '(c', r) := dns_request_legacy c t host port in
        {| a_time := t; a_host := host; a_port := port; a_res := r |} :: dns_run_legacy c' h'
    | (t, HClear) :: h' => dns_run_legacy [] h'
    end.
End LegacyDns.

Definition localhost : bytes := [108; 111; 99; 97; 108; 104; 111; 115; 116].

(* localhost:80 then localhost:443 within the TTL is answered 127.0.0.1:80 *)
Lemma C07_refuted_cache :
  exists h a, In a (dns_run_legacy (fun _ => None) (fun _ _ => [[127; 0; 0; 1]]) [] h) /\
              a_port a = 443 /\ a_res a = Some ([127; 0; 0; 1], 80).
Proof.
  exists [(0%Z, HReq localhost 80); (1%Z, HReq localhost 443)].
  eexists. split; [right; left; reflexivity|]. split; reflexivity.
Qed.

(* the repaired model on the same history *)
Lemma C07_cache_witness_repaired :
  map a_res (dns_run (fun _ => None) (fun _ _ => [[127; 0; 0; 1]]) []
               [(0%Z, HReq localhost 80); (1%Z, HReq localhost 443)])
  = [Some ([127; 0; 0; 1], 80); Some ([127; 0; 0; 1], 443)].
Proof. vm_compute. reflexivity. Qed.

(* ---------------- D10 (C16): the command byte was parsed and ignored ---------------- *)
Definition socks_after_greeting_legacy (open_ok : dest -> N -> bool) (r : bytes) : list sev :=
  match run_bytes request_prog r with
  | NeedMore => []
  | Reject _ => [SEnd]
  | Accept q r2 =>
      SOpen (q_dest q) (q_port q) ::
      (if open_ok (q_dest q) (q_port q)
       then [SWrite (reply_bytes socks_reply_succeeded); STunnel r2]
       else [SWrite (reply_bytes socks_reply_general_failure); SEnd])
  end.

(* pinned greeting: NMETHODS = 0 is an error before any reply is written *)
Definition socks_session_legacy (open_ok : dest -> N -> bool) (b : bytes) : list sev :=
  match run_bytes greeting_prog b with
  | NeedMore => []
  | Reject _ => [SEnd]
  | Accept ms r =>
      if lenN ms =? 0 then [SEnd]
      else if offers_noauth ms then SWrite (method_reply ms) :: socks_after_greeting_legacy open_ok r
      else [SWrite (method_reply ms); SEnd]
  end.

(* BIND (2) for 127.0.0.1:80 opens a TCP tunnel and is answered 'succeeded' *)
Lemma C16_refuted_connect_only :
  exists b, socks_session_legacy (fun _ _ => true) b =
    [SWrite [5; 0]; SOpen (DV4 [127; 0; 0; 1]) 80; SWrite (reply_bytes 0); STunnel []] /\
    run_bytes request_prog (skipn 3 b) = Accept {| q_cmd := 2; q_dest := DV4 [127; 0; 0; 1]; q_port := 80 |} [].
Proof. exists [5; 1; 0; 5; 2; 0; 1; 127; 0; 0; 1; 0; 80]. split; vm_compute; reflexivity. Qed.

Lemma C16_connect_witness_repaired :
  socks_session (fun _ _ => true) [5; 1; 0; 5; 2; 0; 1; 127; 0; 0; 1; 0; 80] =
  [SWrite [5; 0]; SWrite (reply_bytes 7); SEnd].
Proof. vm_compute. reflexivity. Qed.

(* an empty method list was dropped without the [5;255] refusal *)
Lemma C16_refuted_empty_methods :
  exists b, socks_session_legacy (fun _ _ => true) b = [SEnd] /\
            socks_session (fun _ _ => true) b = [SWrite [5; 255]; SEnd].
Proof. exists [5; 0]. split; vm_compute; reflexivity. Qed.

(* ---------------- C15: an empty datagram ended the association (fixed by c7f42e2) ---------------- *)
From AnyTLS Require Import Udp.

(* pinned loops: `if payload.is_empty() { break }` = udp_loop with stop = true.  Three datagrams are sent,
   the second one empty: the third is never delivered *)
Lemma C15_refuted_empty_datagram :
  exists ds, Forall (fun d => lenN d <= 65535) ds /\
    udp_decode_all true 65535 (concat (map udp_frame ds)) = ([[65]], UStop (udp_frame [66])) /\
    udp_decode_all false 65535 (concat (map udp_frame ds)) = (ds, UMore []).
Proof.
  exists [[65]; []; [66]]. split; [repeat constructor; vm_compute; discriminate|].
  split; vm_compute; reflexivity.
Qed.

(* ---------------- C07/C15: the server's UDP socket was always AF_INET (fixed by 504704f) ---------------- *)
Definition udp_bind_fam_legacy (target : fam_t) : fam_t := F4.      (* UdpSocket::bind("0.0.0.0:0") *)

Lemma C15_refuted_ipv6_target : exists t, udp_can_send (udp_bind_fam_legacy t) t = false.
Proof. exists F6. reflexivity. Qed.
