(* SessionLegacy.v -- the data path as it was on the pinned tree (1e92959), before the repairs
     849f1f6  (D1) encoder wrote `len as u16` and the whole payload; write_data_frame did not split
     93f3572  (D2) StreamReader returned an empty chunk as a 0-byte read
   with machine-checked witnesses that C01 fails for them.  The witnesses are also stored in
   corpus/C01/ and replayed against the implementation on every run. *)
From Coq Require Import List NArith ZArith Lia Bool.
From AnyTLS Require Import Bytes Cmd Generated Frame Reader Session SessHandle.
Import ListNotations.
Import Sess.
Open Scope N_scope.

(* codec.rs :98-115 on the pinned tree: `dst.put_u16(data_len as u16)` then the whole payload *)
Definition encode_legacy (f : frame) : bytes :=
  byte_of_cmd (fcmd f) :: be32 (fsid f) ++ be16 (u16_of (lenN (fdata f))) ++ fdata f.

(* session.rs write_data_frame on the pinned tree: one PSH frame per submitted chunk *)
Definition write_data_legacy (sid : N) (d : bytes) : bytes := encode_legacy (mk Push sid d).

(* what the receiving session queues for stream sid when the legacy sender writes the chunks *)
Definition pipe_legacy (sid : N) (chunks : list bytes) : bytes :=
  concat (pushes sid (fst (decode_all (concat (map (write_data_legacy sid) chunks))))).

Lemma C01_refuted_big :
  exists chunks, pipe_legacy 1 chunks <> concat chunks.
Proof.
  exists [zeros 65536]. intros H. apply (f_equal (@lenN N)) in H. vm_compute in H. discriminate.
Qed.

(* stream_reader.rs read :72-95 on the pinned tree: the next queued chunk is returned whatever its size *)
Definition rd_read_legacy (st : Reader.rd) (cap : N) : Reader.rd * rres :=
  if reof st && is_nil (rbuf st) then (st, REof)
  else if negb (is_nil (rbuf st)) then
    let n := N.min (lenN (rbuf st)) cap in
    ({| rq := rq st; rclosed := rclosed st; rbuf := dropN n (rbuf st); reof := reof st |},
     RData (takeN n (rbuf st)))
  else
    match rq st with
    | c :: q' =>
        let n := N.min (lenN c) cap in
        ({| rq := q'; rclosed := rclosed st; rbuf := dropN n c; reof := reof st |}, RData (takeN n c))
    | [] =>
        if rclosed st
        then ({| rq := []; rclosed := true; rbuf := []; reof := true |}, REof)
        else ({| rq := []; rclosed := false; rbuf := []; reof := reof st |}, RPending)
    end.

(* every forwarding loop of the crate: read until a 0-byte read (`Ok(0) => break`) *)
Fixpoint forward_loop_legacy (fuel : nat) (st : Reader.rd) (cap : N) : bytes :=
  match fuel with
  | O => []
  | S k =>
      match rd_read_legacy st cap with
      | (st', RData b) => if is_nil b then [] else b ++ forward_loop_legacy k st' cap
      | _ => []
      end
  end.

Definition reader_legacy (chunks : list bytes) : bytes :=
  forward_loop_legacy (S (length (concat chunks)) + length chunks)
    {| rq := chunks; rclosed := true; rbuf := []; reof := false |} 8192.

Lemma C01_refuted_empty :
  exists chunks, reader_legacy chunks <> concat chunks.
Proof. exists [[1]; []; [1]]. vm_compute. discriminate. Qed.

(* the repaired model does deliver both witnesses *)
Lemma C01_witnesses_now_pass :
  bytes_eqb (concat (pushes 1 (data_frames 1 (zeros 65536)))) (zeros 65536) = true /\
  (let '(_, got, e) := rd_read_script {| rq := [[1]; []; [1]]; rclosed := true; rbuf := []; reof := false |}
                                       [8192; 8192; 8192] in (got, e)) = ([1; 1], true).
Proof. split; vm_compute; reflexivity. Qed.
