(* TimedLegacy.v -- (1) the PINNED liveness rule of the heartbeat task (before the repair of D9):
     tick: closed? -> exit; now - last_received > timeout -> close; else send HeartRequest
     HeartResponse: last_received := now
   with machine-checked witnesses that it closes sessions whose peer answers every keep-alive in time, and
   the exact class of (interval, timeout) pairs for which it does not;
   (2) witnesses of the two KNOWN FINDINGS of the pool glue, which is unrepaired (Model/Pool.v is the current
   code): F2 (the reaper closes a session that carries a live stream) and F3 (a reused session is never
   returned to the idle map: re-dials and unbounded growth of live sessions). *)
From Coq Require Import List NArith ZArith Bool Lia.
From AnyTLS Require Import Generated Pool PoolProofs PoolReuseProofs Heartbeat HeartbeatProofs.
Import ListNotations.
Open Scope Z_scope.

(* ------------------------------------------------------------------ (1) pinned heartbeat rule *)
Record lhb := { l_last : Z; l_closed : option Z; l_sent : list Z }.
Definition lhb_init : lhb := {| l_last := 0; l_closed := None; l_sent := [] |}.

Definition lhb_step (T : Z) (st : lhb) (e : hbev) : lhb :=
  match l_closed st with
  | Some _ => st
  | None =>
      match e with
      | HTick t =>
          if T <? t - l_last st
          then {| l_last := l_last st; l_closed := Some t; l_sent := l_sent st |}
          else {| l_last := l_last st; l_closed := None; l_sent := t :: l_sent st |}
      | HResp a => {| l_last := a; l_closed := None; l_sent := l_sent st |}
      end
  end.
Definition lhb_run (T : Z) (st : lhb) (evs : list hbev) : lhb := fold_left (lhb_step T) evs st.

(* I = 30 s, T = 10 s (timeout < interval), the peer answers at once: closed at the second tick.
   Observed on the pinned code under virtual time: `hb s 30000 10000 100000 0 0 0 0` -> closed at 30000. *)
Definition w_T_lt_I : list hbev := [HTick 0; HResp 0; HTick 30000; HResp 30000; HTick 60000; HResp 60000].

Lemma C14_refuted_timeout_below_interval :
  in_time 10000 w_T_lt_I /\ l_closed (lhb_run 10000 lhb_init w_T_lt_I) = Some 30000 /\
  hb_closed (hb_run 10000 hb_init w_T_lt_I) = None.
Proof. split; [cbn; lia|split; vm_compute; reflexivity]. Qed.

(* I = 30 s, T = 40 s (timeout > interval, not a multiple), delays 0 s then 39 s: closed at t = 60 s although
   every request is answered within 40 s. Observed: `hb s 30000 40000 200000 0 39000 0 39000 ..` -> closed at 60000. *)
Definition w_T_gt_I : list hbev :=
  [HTick 0; HResp 0; HTick 30000; HTick 60000; HResp 60000; HResp 69000; HTick 90000; HResp 90000].

Lemma C14_refuted_interval_not_dividing_timeout :
  in_time 40000 w_T_gt_I /\ l_closed (lhb_run 40000 lhb_init w_T_gt_I) = Some 60000 /\
  hb_closed (hb_run 40000 hb_init w_T_gt_I) = None.
Proof. split; [cbn; lia|split; vm_compute; reflexivity]. Qed.

(* ------------------------------------------------------------------ (2) known findings of the pool glue *)
Definition cfg0 := {| c_timeout := 60000; c_min := 0%N |}.
Definition cfg1 := {| c_timeout := 60000; c_min := 1%N |}.

(* F2, minimal history with min_idle = 0: one request whose stream stays open; the reaper pass at 90 s
   (interval 30 s, timeout 60 s) closes the session that carries it.
   Observed: `pool 30000 60000 0 1000:r 30000:t 60000:t 90000:t` -> i0,C0 after the third tick. *)
Definition h_F2_min0 : list (Z * poolop) :=
  [(1000, PAcq); (1000, PCreate); (30000, PTick); (60000, PTick)].

Lemma C12_known_F2_witness_min_idle_0 :
  let st := pool_run cfg0 pool_init h_F2_min0 in
  Forall (fun x => client_op (snd x)) h_F2_min0 /\
  p_closed st 0%nat = false /\ p_busy st 0%nat = 1%N /\
  (exists e, In e (p_idle st) /\ e_sid e = 0%nat) /\
  p_closed (fst (pool_step cfg0 90000 st PTick)) 0%nat = true.
Proof.
  cbv zeta. split; [repeat constructor|]. split; [vm_compute; reflexivity|]. split; [vm_compute; reflexivity|].
  split; [|vm_compute; reflexivity]. eexists. split; [vm_compute; left; reflexivity|reflexivity].
Qed.

(* F2 with min_idle = 1: two requests arrive together at an empty pool, both dial; one of the two busy
   sessions is closed. Observed: `pool 30000 60000 1 1000:a 1010:a 1020:c 1030:c 30000:t 60000:t 90000:t`. *)
Definition h_F2_two : list (Z * poolop) :=
  [(1000, PAcq); (1010, PAcq); (1020, PCreate); (1030, PCreate); (30000, PTick); (60000, PTick)].

Lemma C12_known_F2_witness_concurrent :
  let st := pool_run cfg1 pool_init h_F2_two in
  p_closed st 1%nat = false /\ p_busy st 1%nat = 1%N /\ p_peak st = 2%N /\
  p_closed (fst (pool_step cfg1 90000 st PTick)) 1%nat = true /\
  p_closed (fst (pool_step cfg1 90000 st PTick)) 0%nat = false.
Proof. cbv zeta. repeat split; vm_compute; reflexivity. Qed.

(* F3: sequential requests on a healthy server. The second reuses session 0; the third dials although session 0
   is live and unused, because the second request took it out of the map and nothing put it back.
   Observed: `pool 30000 60000 1 1000:r 2000:d0 3000:r 4000:d0 5000:r` -> n0 u0 n1, dials=2. *)
Definition h_F3 : list (Z * poolop) :=
  [(1000, PAcq); (1000, PCreate); (2000, PDone 0%nat); (3000, PAcq); (4000, PDone 0%nat)].

Lemma C13_known_F3_witness :
  let st := pool_run cfg1 pool_init h_F3 in
  Forall (fun x => client_op (snd x)) h_F3 /\
  p_hits st = 1%N /\                              (* the second request reused *)
  p_closed st 0%nat = false /\ p_busy st 0%nat = 0%N /\ p_streams st = 0%N /\   (* live, unused, nothing in progress *)
  p_idle st = [] /\                               (* but not in the map *)
  snd (pool_step cfg1 5000 st PAcq) = QMiss /\    (* so the third request dials *)
  p_dials (fst (pool_step cfg1 5000 st PAcq)) = 2%N.
Proof. cbv zeta. split; [repeat constructor|]. repeat split; vm_compute; reflexivity. Qed.

(* unbounded growth: n rounds of (request, done, request, done) leave n live sessions with peak concurrency 1 *)
Fixpoint rounds (n : nat) : list (Z * poolop) :=
  match n with
  | O => []
  | S k => rounds k ++ [(0, PAcq); (0, PCreate); (0, PDone k); (0, PAcq); (0, PDone k)]
  end.

Record grown (n : nat) (st : pool) : Prop := {
  g_n : p_n st = n; g_idle : p_idle st = [];
  g_live : forall k, (k < n)%nat -> p_closed st k = false;
  g_pend : p_pending st = 0%N; g_str : p_streams st = 0%N;
  g_peak : (p_peak st <= 1)%N;
  g_busy : forall k, p_busy st k = 0%N
}.

Lemma grown_init : grown 0 pool_init.
Proof. constructor; cbn; auto; try lia. Qed.

Transparent pool_get_idle pool_get_from pool_add_idle.

Lemma grown_round : forall c k st, grown k st ->
  grown (S k) (pool_run c st [(0, PAcq); (0, PCreate); (0, PDone k); (0, PAcq); (0, PDone k)]).
Proof.
  intros c k st G. destruct st as [n cl sq tb bs idl nx dl pd sr pk ht].
  destruct G as [G1 G2 G3 G4 G5 G6 G7]. cbn in G1, G2, G3, G4, G5, G6, G7. subst.
  unfold pool_run. cbn [fold_left fst snd].
  repeat (cbn; unfold pupd, pool_add_idle; cbn; rewrite ?Nat.eqb_refl, ?G7).
  constructor; cbn.
  - reflexivity.
  - reflexivity.
  - intros j Hj. destruct (Nat.eqb_spec j k); [reflexivity|]. apply G3. lia.
  - reflexivity.
  - reflexivity.
  - lia.
  - intros j. destruct (Nat.eqb j k); [reflexivity|apply G7].
Qed.

Opaque pool_get_idle pool_get_from pool_add_idle.

Lemma rounds_grow : forall c n, grown n (pool_run c pool_init (rounds n)).
Proof.
  intros c n. induction n as [|k IH]; [apply grown_init|].
  cbn [rounds]. rewrite run_app. apply grown_round. exact IH.
Qed.

Lemma filter_all : forall A (f : A -> bool) l, (forall x, In x l -> f x = true) -> filter f l = l.
Proof.
  intros A f l. induction l as [|a l IH]; intros H; [reflexivity|].
  cbn. rewrite (H a (or_introl eq_refl)). f_equal. apply IH. intros x Hx. apply H. right. assumption.
Qed.

(* C13_bounded fails on the current code: for every n there is a history of strictly sequential requests (at most
   one request in progress at any time) on a healthy server after which n sessions are live *)
Theorem C13_known_F3_unbounded : forall c n,
  let st := pool_run c pool_init (rounds n) in
  Forall (fun x => client_op (snd x)) (rounds n) /\ (p_peak st <= 1)%N /\ live st = n.
Proof.
  intros c n. cbv zeta. pose proof (rounds_grow c n) as G. split; [|split].
  - induction n as [|k IH]; [constructor|]. cbn [rounds]. apply Forall_app. split; [apply IH; apply rounds_grow|].
    repeat constructor.
  - exact (g_peak _ _ G).
  - unfold live, cnt. rewrite (g_n _ _ G).
    assert (E : filter (fun k => negb (p_closed (pool_run c pool_init (rounds n)) k)) (seq 0 n) = seq 0 n).
    { apply filter_all. intros x Hx. apply in_seq in Hx.
      rewrite (g_live _ _ G x) by lia. reflexivity. }
    rewrite E. apply seq_length.
Qed.
