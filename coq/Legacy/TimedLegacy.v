(* TimedLegacy.v -- (1) the PINNED liveness rule of the heartbeat task (before the repair of D9):
     tick: closed? -> exit; now - last_received > timeout -> close; else send HeartRequest
     HeartResponse: last_received := now
   with machine-checked witnesses that it closes sessions whose peer answers every keep-alive in time, and
   the exact class of (interval, timeout) pairs for which it does not;
   (2) witnesses of the two KNOWN FINDINGS of the pool glue, which is unrepaired (Model/Pool.v is the current
   code): F2 (the reaper closes a session that carries a live stream) and F3 (a reused session is never
   returned to the idle map: re-dials and unbounded growth of live sessions). *)
From Coq Require Import List NArith ZArith Bool Lia.
From AnyTLS Require Import Generated Pool PoolProofs PoolReuseProofs Heartbeat HeartbeatProofs.
Import ListNotations.
Open Scope Z_scope.

(* ------------------------------------------------------------------ (1) pinned heartbeat rule *)
Record lhb := { l_last : Z; l_closed : option Z; l_sent : list Z }.
Definition lhb_init : lhb := {| l_last := 0; l_closed := None; l_sent := [] |}.

Definition lhb_step (T : Z) (st : lhb) (e : hbev) : lhb :=
  match l_closed st with
  | Some _ => st
  | None =>
      match e with
      | HTick t =>
          if T <? t - l_last st
          then {| l_last := l_last st; l_closed := Some t; l_sent := l_sent st |}
          else {| l_last := l_last st; l_closed := None; l_sent := t :: l_sent st |}
      | HResp a => {| l_last := a; l_closed := None; l_sent := l_sent st |}
      end
  end.
Definition lhb_run (T : Z) (st : lhb) (evs : list hbev) : lhb := fold_left (lhb_step T) evs st.

(* I = 30 s, T = 10 s (timeout < interval), the peer answers at once: closed at the second tick.
   Observed on the pinned code under virtual time: `hb s 30000 10000 100000 0 0 0 0` -> closed at 30000. *)
Definition w_T_lt_I : list hbev := [HTick 0; HResp 0; HTick 30000; HResp 30000; HTick 60000; HResp 60000].

Lemma C14_refuted_timeout_below_interval :
  in_time 10000 w_T_lt_I /\ l_closed (lhb_run 10000 lhb_init w_T_lt_I) = Some 30000 /\
  hb_closed (hb_run 10000 hb_init w_T_lt_I) = None.
Proof. split; [cbn; lia|split; vm_compute; reflexivity]. Qed.

(* I = 30 s, T = 40 s (timeout > interval, not a multiple), delays 0 s then 39 s: closed at t = 60 s although
   every request is answered within 40 s. Observed: `hb s 30000 40000 200000 0 39000 0 39000 ..` -> closed at 60000. *)
Definition w_T_gt_I : list hbev :=
  [HTick 0; HResp 0; HTick 30000; HTick 60000; HResp 60000; HResp 69000; HTick 90000; HResp 90000].

Lemma C14_refuted_interval_not_dividing_timeout :
  in_time 40000 w_T_gt_I /\ l_closed (lhb_run 40000 lhb_init w_T_gt_I) = Some 60000 /\
  hb_closed (hb_run 40000 hb_init w_T_gt_I) = None.
Proof. split; [cbn; lia|split; vm_compute; reflexivity]. Qed.

(* ------------------------------------------------------------------ (2) known findings of the pool glue *)
Definition cfg0 := {| c_timeout := 60000; c_min := 0%N |}.
Definition cfg1 := {| c_timeout := 60000; c_min := 1%N |}.

(* F2, minimal history with min_idle = 0: one request whose stream stays open; the reaper pass at 90 s
   (interval 30 s, timeout 60 s) closes the session that carries it.
   Observed: `pool 30000 60000 0 1000:r 30000:t 60000:t 90000:t` -> i0,C0 after the third tick. *)
Definition h_F2_min0 : list (Z * poolop) :=
  [(1000, PAcq); (1000, PCreate); (30000, PTick); (60000, PTick)].

Lemma C12_known_F2_witness_min_idle_0 :
  let st := pool_run cfg0 pool_init h_F2_min0 in
  Forall (fun x => client_op (snd x)) h_F2_min0 /\
  p_closed st 0%nat = false /\ p_busy st 0%nat = 1%N /\
  (exists e, In e (p_idle st) /\ e_sid e = 0%nat) /\
  p_closed (fst (pool_step cfg0 90000 st PTick)) 0%nat = true.
Proof.
  cbv zeta. split; [repeat constructor|]. split; [vm_compute; reflexivity|]. split; [vm_compute; reflexivity|].
  split; [|vm_compute; reflexivity]. eexists. split; [vm_compute; left; reflexivity|reflexivity].
Qed.

(* F2 with min_idle = 1: two requests arrive together at an empty pool, both dial; one of the two busy
   sessions is closed. Observed: `pool 30000 60000 1 1000:a 1010:a 1020:c 1030:c 30000:t 60000:t 90000:t`. *)
Definition h_F2_two : list (Z * poolop) :=
  [(1000, PAcq); (1010, PAcq); (1020, PCreate); (1030, PCreate); (30000, PTick); (60000, PTick)].

Lemma C12_known_F2_witness_concurrent :
  let st := pool_run cfg1 pool_init h_F2_two in
  p_closed st 1%nat = false /\ p_busy st 1%nat = 1%N /\ p_peak st = 2%N /\
  p_closed (fst (pool_step cfg1 90000 st PTick)) 1%nat = true /\
  p_closed (fst (pool_step cfg1 90000 st PTick)) 0%nat = false.
Proof. cbv zeta. repeat split; vm_compute; reflexivity. Qed.

(* F3: sequential requests on a healthy server. The second reuses session 0; the third dials although session 0
   is live and unused, because the second request took it out of the map and nothing put it back.
   Observed: `pool 30000 60000 1 1000:r 2000:d0 3000:r 4000:d0 5000:r` -> n0 u0 n1, dials=2. *)
Definition h_F3 : list (Z * poolop) :=
  [(1000, PAcq); (1000, PCreate); (2000, PDone 0%nat); (3000, PAcq); (4000, PDone 0%nat)].

Lemma C13_known_F3_witness :
  let st := pool_run cfg1 pool_init h_F3 in
  Forall (fun x => client_op (snd x)) h_F3 /\
  p_hits st = 1%N /\                              (* the second request reused *)
  p_closed st 0%nat = false /\ p_busy st 0%nat = 0%N /\ p_streams st = 0%N /\   (* live, unused, nothing in progress *)
  p_idle st = [] /\                               (* but not in the map *)
  snd (pool_step cfg1 5000 st PAcq) = QMiss /\    (* so the third request dials *)
  p_dials (fst (pool_step cfg1 5000 st PAcq)) = 2%N.
Proof. cbv zeta. split; [repeat constructor|]. repeat split; vm_compute; reflexivity. Qed.

(* unbounded growth: n rounds of (request, done, request, done) leave n live sessions with peak concurrency 1 *)
Fixpoint rounds (n : nat) : list (Z * poolop) :=
  match n with
  | O => []
  | S k => rounds k ++ [(0, PAcq); (0, PCreate); (0, PDone k); (0, PAcq); (0, PDone k)]
  end.

Record grown (n : nat) (st : pool) : Prop := {
  g_n : p_n st = n; g_idle : p_idle st = [];
  g_live : forall k, (k < n)%nat -> p_closed st k = false;
  g_pend : p_pending st = 0%N; g_str : p_streams st = 0%N;
  g_peak : (p_peak st <= 1)%N;
  g_busy : forall k, p_busy st k = 0%N
}.

Lemma grown_init : grown 0 pool_init.
Proof. constructor; cbn; auto; try lia. Qed.

Transparent pool_get_idle pool_get_from pool_add_idle.

Lemma grown_round : forall c k st, grown k st ->
  grown (S k) (pool_run c st [(0, PAcq); (0, PCreate); (0, PDone k); (0, PAcq); (0, PDone k)]).
Proof.
  intros c k st G. destruct st as [n cl sq tb bs idl nx dl pd sr pk ht].
  destruct G as [G1 G2 G3 G4 G5 G6 G7]. cbn in G1, G2, G3, G4, G5, G6, G7. subst.
  unfold pool_run. cbn [fold_left fst snd].
  repeat (cbn; unfold pupd, pool_add_idle; cbn; rewrite ?Nat.eqb_refl, ?G7).
  constructor; cbn.
  - reflexivity.
  - reflexivity.
  - intros j Hj. destruct (Nat.eqb_spec j k); [reflexivity|]. apply G3. lia.
  - reflexivity.
  - reflexivity.
  - lia.
  - intros j. destruct (Nat.eqb j k); [reflexivity|apply G7].
Qed.

Opaque pool_get_idle pool_get_from pool_add_idle.

Lemma rounds_grow : forall c n, grown n (pool_run c pool_init (rounds n)).
Proof.
  intros c n. induction n as [|k IH]; [apply grown_init|].
  cbn [rounds]. rewrite run_app. apply grown_round. exact IH.
Qed.

Lemma filter_all : forall A (f : A -> bool) l, (forall x, In x l -> f x = true) -> filter f l = l.
Proof.
  intros A f l. induction l as [|a l IH]; intros H; [reflexivity|].
  cbn. rewrite (H a (or_introl eq_refl)). f_equal. apply IH. intros x Hx. apply H. right. assumption.
Qed.

(* C13_bounded fails on the current code: for every n there is a history of strictly sequential requests (at most
   one request in progress at any time) on a healthy server after which n sessions are live *)
Theorem C13_known_F3_unbounded : forall c n,
  let st := pool_run c pool_init (rounds n) in
  Forall (fun x => client_op (snd x)) (rounds n) /\ (p_peak st <= 1)%N /\ live st = n.
Proof.
  intros c n. cbv zeta. pose proof (rounds_grow c n) as G. split; [|split].
  - induction n as [|k IH]; [constructor|]. cbn [rounds]. apply Forall_app. split; [apply IH; apply rounds_grow|].
    repeat constructor.
  - exact (g_peak _ _ G).
  - unfold live, cnt. rewrite (g_n _ _ G).
    assert (E : filter (fun k => negb (p_closed (pool_run c pool_init (rounds n)) k)) (seq 0 n) = seq 0 n).
    { apply filter_all. intros x Hx. apply in_seq in Hx.
      rewrite (g_live _ _ G x) by lia. reflexivity. }
    rewrite E. apply seq_length.
Qed.

(* ------------------------------------------------------------------ (3) the exact class of the pinned rule
   Traces: time-ordered from 0 (chrono), ticks at 0, I, 2I, .. (periodic_from I 0), the peer answers every
   request in time (in_time T). Ties between an answer and a tick are resolved by the order in the trace,
   i.e. adversarially. The pinned rule keeps every such session open exactly when I divides T. *)
Fixpoint chrono (prev : Z) (evs : list hbev) : Prop :=
  match evs with
  | [] => True
  | e :: r => prev <= hbev_time e /\ chrono (hbev_time e) r
  end.

Fixpoint periodic_from (I m : Z) (evs : list hbev) : Prop :=
  match evs with
  | [] => True
  | HTick t :: r => t = m * I /\ periodic_from I (m + 1) r
  | HResp _ :: r => periodic_from I m r
  end.

Definition legacy_sound (I T : Z) : Prop :=
  forall evs, chrono 0 evs -> periodic_from I 0 evs -> in_time T evs ->
    l_closed (lhb_run T lhb_init evs) = None.

(* m ticks have been processed, the last p of them since the last answer; prev = instant of the last event *)
Lemma legacy_run_inv : forall I a, 0 < I -> 0 < a -> forall rest st m p prev,
  l_closed st = None -> 0 <= p <= m -> 0 <= prev ->
  (m - p - 1) * I <= l_last st ->
  (0 < p -> answered (a * I) ((m - p) * I) rest) ->
  (1 <= m -> (m - 1) * I <= prev) ->
  chrono prev rest -> periodic_from I m rest -> in_time (a * I) rest ->
  l_closed (lhb_run (a * I) st rest) = None.
Proof.
  intros I a HI Ha rest. induction rest as [|e rest IH]; intros st m p prev Hc Hp Hprev Hl Hans Hm Hch Hper Hin;
    [exact Hc|].
  change (lhb_run (a * I) st (e :: rest)) with (lhb_run (a * I) (lhb_step (a * I) st e) rest).
  destruct e as [t|r0]; cbn [chrono periodic_from in_time hbev_time] in Hch, Hper, Hin.
  - destruct Hper as [-> Hper]. destruct Hch as [Hpt Hch]. destruct Hin as [Hat Hin].
    assert (Hpa : p + 1 <= a).
    { destruct (Z.eq_dec p 0) as [->|Hne]; [lia|].
      specialize (Hans ltac:(lia)). cbn in Hans. destruct Hans as [Hlt _]. nia. }
    unfold lhb_step. rewrite Hc.
    destruct (Z.ltb_spec (a * I) (m * I - l_last st)) as [Hbad|Hok]; [nia|].
    apply (IH _ (m + 1) (p + 1) (m * I)); cbn [l_closed l_last]; try reflexivity; try lia; try nia; try assumption.
    intros _. replace ((m + 1 - (p + 1)) * I) with ((m - p) * I) by ring.
    destruct (Z.eq_dec p 0) as [->|Hne].
    + replace ((m - 0) * I) with (m * I) by ring. assumption.
    + specialize (Hans ltac:(lia)). cbn in Hans. tauto.
  - destruct Hch as [Hpt Hch].
    unfold lhb_step. rewrite Hc.
    assert (Hr : (m - 0 - 1) * I <= r0).
    { destruct (Z.eq_dec m 0) as [->|Hne]; [nia|]. specialize (Hm ltac:(lia)). nia. }
    apply (IH _ m 0 r0); cbn [l_closed l_last]; try reflexivity; try lia; try assumption.
Qed.

Lemma legacy_sound_multiple : forall I a, 0 < I -> 0 < a -> legacy_sound I (a * I).
Proof.
  intros I a HI Ha evs Hch Hper Hin.
  apply (legacy_run_inv I a HI Ha evs lhb_init 0 0 0); cbn [lhb_init l_closed l_last]; try reflexivity; try lia; assumption.
Qed.

Theorem legacy_sound_if_divides : forall I T, 0 < I -> 0 < T -> T mod I = 0 -> legacy_sound I T.
Proof.
  intros I T HI HT Hd.
  assert (E : T = (T / I) * I) by (pose proof (Z.div_mod T I ltac:(lia)); lia).
  assert (Ha : 0 < T / I) by (destruct (Z_lt_le_dec 0 (T / I)) as [?|Hq]; [assumption|exfalso; nia]).
  replace T with (T / I * I) by (symmetry; exact E).
  replace (T / I * I / I) with (T / I) by (rewrite <- E; reflexivity).
  apply legacy_sound_multiple; assumption.
Qed.

(* the witness when I does not divide T = a*I + r, 0 < r < I: tick 0 is answered at once; the answers to
   the ticks I .. (a+1)*I may all arrive later than (a+1)*I (each still within T); the tick at (a+1)*I finds the
   last answer older than T *)
Fixpoint upticks (I j : Z) (n : nat) : list hbev :=
  match n with
  | O => []
  | S n' => HTick (j * I) :: upticks I (j + 1) n'
  end.

Lemma answered_upticks : forall I T s n j, 0 < I ->
  (j + Z.of_nat n - 1) * I < s + T -> answered T s (upticks I j n).
Proof.
  intros I T s n. induction n as [|n IH]; intros j HI H; [exact Logic.I|]. cbn [upticks answered].
  split; [nia|]. apply IH; [assumption|]. nia.
Qed.

Lemma in_time_upticks : forall I T n j, 0 < I ->
  (Z.of_nat n - 1) * I < T -> in_time T (upticks I j n).
Proof.
  intros I T n. induction n as [|n IH]; intros j HI H; [exact Logic.I|]. cbn [upticks in_time].
  split.
  - apply answered_upticks; [assumption|]. nia.
  - apply IH; [assumption|]. nia.
Qed.

Lemma chrono_upticks : forall I n j prev, 0 < I -> prev <= j * I -> chrono prev (upticks I j n).
Proof.
  intros I n. induction n as [|n IH]; intros j prev HI H; [exact Logic.I|]. cbn [upticks chrono hbev_time].
  split; [assumption|]. apply IH; [assumption|nia].
Qed.

Lemma periodic_upticks : forall I n j, periodic_from I j (upticks I j n).
Proof.
  intros I n. induction n as [|n IH]; intros j; [exact Logic.I|]. cbn [upticks periodic_from]. split; [reflexivity|apply IH].
Qed.

(* with last = 0: ticks up to T are survived, the first tick beyond T closes *)
Lemma legacy_upticks : forall I T n j st, 0 < I -> 0 <= j ->
  l_closed st = None -> l_last st = 0 ->
  (j + Z.of_nat n - 1) * I <= T -> T < (j + Z.of_nat n) * I ->
  l_closed (lhb_run T st (upticks I j (S n))) = Some ((j + Z.of_nat n) * I).
Proof.
  intros I T n. induction n as [|n IH]; intros j st HI Hj Hc Hl Hle Hgt.
  - cbn [upticks lhb_run fold_left]. unfold lhb_step. rewrite Hc, Hl.
    destruct (Z.ltb_spec T (j * I - 0)) as [_|Hno]; [cbn; f_equal; lia|cbn in *; nia].
  - change (upticks I j (S (S n))) with (HTick (j * I) :: upticks I (j + 1) (S n)).
    change (lhb_run T st (HTick (j * I) :: upticks I (j + 1) (S n)))
      with (lhb_run T (lhb_step T st (HTick (j * I))) (upticks I (j + 1) (S n))).
    unfold lhb_step at 1. rewrite Hc, Hl.
    destruct (Z.ltb_spec T (j * I - 0)) as [Hbad|_]; [nia|].
    rewrite Nat2Z.inj_succ in *. rewrite (IH (j + 1)); cbn [l_closed l_last]; try reflexivity; try lia; try assumption.
    f_equal. ring.
Qed.

Lemma legacy_prefix : forall T rest, 0 < T ->
  lhb_run T lhb_init (HTick 0 :: HResp 0 :: rest) =
  lhb_run T {| l_last := 0; l_closed := None; l_sent := [0] |} rest.
Proof.
  intros T rest HT. unfold lhb_run. cbn [fold_left]. f_equal.
  unfold lhb_step, lhb_init. cbn [l_closed l_last l_sent].
  destruct (Z.ltb_spec T (0 - 0)) as [Hb|_]; [lia|]. reflexivity.
Qed.

Theorem legacy_unsound_if_not_divides : forall I T, 0 < I -> 0 < T -> T mod I <> 0 -> ~ legacy_sound I T.
Proof.
  intros I T HI HT Hnd Hs.
  pose proof (Z.div_mod T I ltac:(lia)) as D. pose proof (Z.mod_pos_bound T I HI) as M.
  set (a := T / I) in *. set (r := T mod I) in *.
  assert (Ha : 0 <= a) by (apply Z.div_pos; lia).
  set (evs := HTick 0 :: HResp 0 :: upticks I 1 (S (Z.to_nat a))).
  assert (Hn : Z.of_nat (Z.to_nat a) = a) by (apply Z2Nat.id; assumption).
  specialize (Hs evs).
  assert (C : l_closed (lhb_run T lhb_init evs) = Some ((1 + a) * I)).
  { subst evs. rewrite legacy_prefix by assumption.
    rewrite (legacy_upticks I T (Z.to_nat a) 1); cbn [l_closed l_last]; try lia; try reflexivity; rewrite ?Hn; try nia.
    f_equal. }
  rewrite Hs in C; [discriminate| | |].
  - subst evs. cbn [chrono hbev_time]. split; [lia|]. split; [lia|]. apply chrono_upticks; lia.
  - subst evs. cbn [periodic_from]. split; [lia|]. apply periodic_upticks.
  - subst evs. cbn [in_time answered]. split; [lia|]. apply in_time_upticks; [assumption|].
    rewrite Nat2Z.inj_succ, Hn. nia.
Qed.

(* D9, the characterisation: for positive interval and timeout, the pinned rule never closes a session whose peer
   answers in time  <->  the interval divides the timeout. (In particular it fails for every timeout < interval; the
   default 30 s / 60 s is inside the sound class.) *)
Theorem C14_legacy_sound_class : forall I T, 0 < I -> 0 < T -> (legacy_sound I T <-> T mod I = 0).
Proof.
  intros I T HI HT. split.
  - intros Hs. destruct (Z.eq_dec (T mod I) 0) as [E|E]; [assumption|].
    exfalso. exact (legacy_unsound_if_not_divides I T HI HT E Hs).
  - apply legacy_sound_if_divides; assumption.
Qed.
