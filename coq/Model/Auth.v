(* Auth.v -- M8: src/util/auth.rs authenticate_client and the order of operations of
   src/server/server.rs handle_connection (C06).
     auth_prog H   = read_exact 32 bytes, compare ALL of them with the expected hash H, read_exact the
                     u16 big-endian padding0 length, read_exact (and discard) that many bytes
     server_conn   = handle_connection after the TLS handshake: `authenticate_client(..).await?` comes
                     first; only after Ok is the session built over the SAME reader, so the session sees
                     exactly the bytes that follow the preamble.  The session's own reaction to those
                     bytes (M4, another package) is a Section variable. *)
From AnyTLS Require Export Bytes Reader ReaderProg Generated.
Open Scope N_scope.

Definition hash_len : N := auth_hash_len.      (* regenerated from auth.rs: `[0u8; 32]` *)

Definition auth_prog (H : bytes) : prog unit :=
  PExact hash_len E_EOF (fun h =>
    if bytes_eqb h H then
      PExact 2 E_EOF (fun l =>
        let n := de16_of l in
        if n =? 0 then PRet tt else PExact n E_EOF (fun _ => PRet tt))
    else PFail E_AUTH).

Definition auth_parse (H b : bytes) : pres unit := run_bytes (auth_prog H) b.

(* the declared padding0 length of a preamble *)
Definition auth_L (b : bytes) : N := de16 (byte_at 32 b) (byte_at 33 b).

(* the client side: send_authentication with a padding0 of n bytes (n < 65536) *)
Definition auth_preamble (H : bytes) (n : N) : bytes := H ++ be16 n ++ zeros n.

Section ServerConn.
  Variable ev : Type.
  (* Session::new_server + recv_loop on the bytes after the preamble; the bool says whether the
     transport then ended *)
  Variable session : bytes -> bool -> list ev.

  Inductive conn_ev : Type :=
  | CAuthOk                (* authenticate_client returned Ok: the session object is created *)
  | CAuthFail (e : N)      (* authenticate_client returned Err: handle_connection returns, the transport is dropped *)
  | CSession (e : ev).     (* anything the session does: frames parsed, streams opened, dials, replies *)

  Definition server_conn (H : bytes) (chunks : list bytes) (closed : bool) : list conn_ev :=
    match run_rd (auth_prog H) (rd_of_chunks chunks closed) with
    | (st', SDone _) => CAuthOk :: map CSession (session (rd_pending_bytes st') (rclosed st'))
    | (_, SFail e) => [CAuthFail e]
    | (_, SPending) => []
    end.
End ServerConn.
Arguments CAuthOk {ev}.
Arguments CAuthFail {ev} e.
Arguments CSession {ev} e.
