(* Bytes.v -- byte strings as lists of N, big-endian integers, take/drop.
   Executable Gallina only. *)
From Coq Require Export List NArith ZArith Bool.
Export ListNotations.
Open Scope N_scope.

Definition byte := N.
Definition bytes := list N.

Definition wfbb (b : bytes) : bool := forallb (fun x => x <? 256) b.
Definition wfb (b : bytes) : Prop := Forall (fun x => x < 256) b.

Definition lenN {A} (l : list A) : N := N.of_nat (length l).
Definition takeN {A} (n : N) (l : list A) : list A := firstn (N.to_nat n) l.
Definition dropN {A} (n : N) (l : list A) : list A := skipn (N.to_nat n) l.

Definition be16 (n : N) : bytes := [ (n / 256) mod 256 ; n mod 256 ].
Definition be32 (n : N) : bytes :=
  [ (n / 16777216) mod 256 ; (n / 65536) mod 256 ; (n / 256) mod 256 ; n mod 256 ].
Definition de16 (a b : N) : N := a * 256 + b.
Definition de32 (a b c d : N) : N := ((a * 256 + b) * 256 + c) * 256 + d.

Definition zeros (n : N) : bytes := repeat 0 (N.to_nat n).

Fixpoint bytes_eqb (a b : bytes) : bool :=
  match a, b with
  | [], [] => true
  | x :: a', y :: b' => (x =? y) && bytes_eqb a' b'
  | _, _ => false
  end.

(* Rust integer casts that the models need explicitly. *)
Definition u16_of (n : N) : N := n mod 65536.
Definition u32_of (n : N) : N := n mod 4294967296.
