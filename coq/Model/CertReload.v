(* CertReload.v -- M8: certificate hot-reload (src/util/cert_reloader.rs, with the pieces of
   src/util/tls.rs, src/util/cert_analyzer.rs and src/server/server.rs it relies on).

   The reloader owns four independently locked cells: tls_acceptor, cert_info, reload_count,
   last_reload.  `load` is the private helper `load_pair`: ONE read of the certificate file, ONE
   read of the key file, in this order:
       read cert file -> PEM certs (non-empty) -> read key file -> PEM private key
       -> ServerConfig::with_single_cert (leaf parses, key usable, key matches the leaf)
       -> CertificateInfo::from_pem_bytes on the SAME certificate bytes.
   `reads` is what the file system returns to the reads performed by one (re)load; it has a third
   field, the content a SECOND read of the certificate file would see, because the pinned code
   (Legacy/CertReloadLegacy.v) performs that read and the correspondence cases carry it. The current
   code never looks at it (side lemma cert_reload_cert_reads_1).

   Everything the environment decides is a Section variable applied to the bytes read in THIS load:
   PEM/X.509 parsing, the key/certificate match test of rustls, the wall clock. Nothing is assumed
   about them.

   Time: `wall_*` are SystemTime readings in nanoseconds since the epoch (one taken inside
   from_x509 when days_until_expiry is computed, one at the expiry check of reload), `cr_mono` is the
   Instant stored in last_reload. *)
From Coq Require Import List NArith ZArith Bool.
From AnyTLS Require Import Generated.
Import ListNotations.
Open Scope Z_scope.

(* ---- cert_analyzer.rs: from_x509 day arithmetic, is_expired ---- *)
Definition cr_ns_per_sec : Z := 1000000000.

(* days_until_expiry: Duration::as_secs() / 86400, negated when not_after is in the past *)
Definition cr_days_until (not_after now : Z) : Z :=
  if now <=? not_after
  then ((not_after - now) / cr_ns_per_sec) / cert_secs_per_day
  else - (((now - not_after) / cr_ns_per_sec) / cert_secs_per_day).

Definition cr_is_expired_days (days : Z) : bool := days <? cert_expired_below_days.

Record certinfo (ident : Type) : Type :=
  { ci_ident : ident;        (* subject, issuer, serial, SANs, algorithms: what operators are shown *)
    ci_not_after : Z;        (* ns since the epoch *)
    ci_days : Z }.           (* days_until_expiry, frozen at analysis time *)
Arguments ci_ident {ident}. Arguments ci_not_after {ident}. Arguments ci_days {ident}.

Inductive cr_err := CrIo | CrTls.
Inductive cr_outcome := CrOk | CrErr (e : cr_err) | CrPanic.

Definition cr_u64_max : N := 18446744073709551615%N.

Section CertReload.
  Variables blob chain pkey ident : Type.
  Variable parse_certs : blob -> option chain.       (* rustls_pemfile::certs, all items Ok, non-empty *)
  Variable parse_key   : blob -> option pkey.        (* rustls_pemfile::private_key = Ok(Some _) *)
  Variable pair_ok     : chain -> pkey -> bool.      (* ServerConfig::with_single_cert succeeds *)
  Variable parse_info  : blob -> option (ident * Z). (* from_pem_bytes up to the clock: identity, not_after *)
  Variable check_expiry : bool.                      (* CertReloaderConfig::check_expiry *)

  Record cr_reads := { rd_cert : option blob; rd_key : option blob; rd_cert2 : option blob }.
  Record cr_clock := { cr_wall_an : Z; cr_wall_chk : Z; cr_mono : Z }.

  (* what an acceptor was built from *)
  Record cr_loaded := { l_cert : blob; l_key : blob; l_chain : chain; l_pkey : pkey }.

  Record cr_state :=
    { cr_active : cr_loaded;                       (* tls_acceptor *)
      cr_info   : option (certinfo ident);      (* cert_info *)
      cr_count  : N;                            (* reload_count *)
      cr_last   : option Z }.                   (* last_reload *)

  Definition cr_analyze (w : Z) (b : blob) : option (certinfo ident) :=
    match parse_info b with
    | None => None
    | Some (id, na) => Some {| ci_ident := id; ci_not_after := na; ci_days := cr_days_until na w |}
    end.

  (* load_pair *)
  Definition cr_load (rd : cr_reads) (w : Z) : (cr_loaded * option (certinfo ident)) + cr_err :=
    match rd_cert rd with
    | None => inr CrIo
    | Some cb =>
      match parse_certs cb with
      | None => inr CrTls
      | Some ch =>
        match rd_key rd with
        | None => inr CrIo
        | Some kb =>
          match parse_key kb with
          | None => inr CrTls
          | Some k =>
            if pair_ok ch k
            then inl ({| l_cert := cb; l_key := kb; l_chain := ch; l_pkey := k |}, cr_analyze w cb)
            else inr CrTls
          end
        end
      end
    end.

  (* CertReloader::new: the analysis result is kept with `.ok()`; an expired initial certificate is
     only logged (side lemma cert_new_accepts_expired) *)
  Definition cr_new (rd : cr_reads) (c : cr_clock) : cr_state + cr_err :=
    match cr_load rd (cr_wall_an c) with
    | inr e => inr e
    | inl (l, oi) => inl {| cr_active := l; cr_info := oi; cr_count := 0%N; cr_last := None |}
    end.

  (* the condition under `if self.config.check_expiry`, assembled from what the translator found there *)
  Definition cr_expired_at_reload (c : cr_clock) (i : certinfo ident) : bool :=
    (cert_reload_expiry_uses_is_expired && cr_is_expired_days (ci_days i))
    || (cert_reload_expiry_compares_not_after && (ci_not_after i <? cr_wall_chk c)).

  (* CertReloader::reload. The four cells are written only after the last error exit; the counter
     increment is a checked `+= 1` on u64 (debug profile): at u64::MAX it panics after the first two
     cells were written. *)
  Definition cr_reload (st : cr_state) (rd : cr_reads) (c : cr_clock) : cr_state * cr_outcome :=
    match cr_load rd (cr_wall_an c) with
    | inr e => (st, CrErr e)
    | inl (_, None) => (st, CrErr CrTls)
    | inl (l, Some i) =>
      if check_expiry && cr_expired_at_reload c i then (st, CrErr CrTls)
      else if (cr_count st =? cr_u64_max)%N
      then ({| cr_active := l; cr_info := Some i; cr_count := cr_count st; cr_last := cr_last st |}, CrPanic)
      else ({| cr_active := l; cr_info := Some i; cr_count := (cr_count st + 1)%N; cr_last := Some (cr_mono c) |}, CrOk)
    end.

  Fixpoint cr_run_state (st : cr_state) (evs : list (cr_reads * cr_clock)) : cr_state :=
    match evs with
    | [] => st
    | (rd, c) :: evs' => cr_run_state (fst (cr_reload st rd c)) evs'
    end.

  Fixpoint cr_outcomes (st : cr_state) (evs : list (cr_reads * cr_clock)) : list cr_outcome :=
    match evs with
    | [] => []
    | (rd, c) :: evs' => snd (cr_reload st rd c) :: cr_outcomes (fst (cr_reload st rd c)) evs'
    end.

  (* ---- the server around it: server.rs `listen` clones the current acceptor per accepted
     connection; an established session keeps the configuration it was accepted with ---- *)
  Inductive cr_op :=
  | CrReload (rd : cr_reads) (c : cr_clock)
  | CrAccept          (* accept(): snapshot of the acceptor; the handshake happens later *)
  | CrEstablish.      (* accept() + handshake now: an established session *)

  Record cr_sys := { cr_rl : cr_state; cr_conns : list cr_loaded; cr_sess : list cr_loaded }.

  Definition cr_step (s : cr_sys) (o : cr_op) : cr_sys :=
    match o with
    | CrReload rd c => {| cr_rl := fst (cr_reload (cr_rl s) rd c); cr_conns := cr_conns s; cr_sess := cr_sess s |}
    | CrAccept => {| cr_rl := cr_rl s; cr_conns := cr_conns s ++ [cr_active (cr_rl s)]; cr_sess := cr_sess s |}
    | CrEstablish => {| cr_rl := cr_rl s; cr_conns := cr_conns s; cr_sess := cr_sess s ++ [cr_active (cr_rl s)] |}
    end.

  Fixpoint cr_run (s : cr_sys) (ops : list cr_op) : cr_sys :=
    match ops with
    | [] => s
    | o :: ops' => cr_run (cr_step s o) ops'
    end.

  (* the chain presented by the handshake of accepted connection j / seen by established session j *)
  Definition cr_served_conn (s : cr_sys) (j : nat) : option chain := option_map l_chain (nth_error (cr_conns s) j).
  Definition cr_served_sess (s : cr_sys) (j : nat) : option chain := option_map l_chain (nth_error (cr_sess s) j).
End CertReload.

Arguments rd_cert {blob}. Arguments rd_key {blob}. Arguments rd_cert2 {blob}.
Arguments Build_cr_reads {blob}.
Arguments l_cert {blob chain pkey}. Arguments l_key {blob chain pkey}.
Arguments l_chain {blob chain pkey}. Arguments l_pkey {blob chain pkey}.
Arguments Build_cr_loaded {blob chain pkey}.
Arguments cr_active {blob chain pkey ident}. Arguments cr_info {blob chain pkey ident}.
Arguments cr_count {blob chain pkey ident}. Arguments cr_last {blob chain pkey ident}.
Arguments Build_cr_state {blob chain pkey ident}.
Arguments CrReload {blob}. Arguments CrAccept {blob}. Arguments CrEstablish {blob}.
Arguments cr_rl {blob chain pkey ident}. Arguments cr_conns {blob chain pkey ident}. Arguments cr_sess {blob chain pkey ident}.
Arguments Build_cr_sys {blob chain pkey ident}.
