(* CertReload.v -- M8: certificate hot-reload (src/util/cert_reloader.rs, with the pieces of
   src/util/tls.rs, src/util/cert_analyzer.rs and src/server/server.rs it relies on).

   The reloader owns four independently locked cells: tls_acceptor, cert_info, reload_count,
   last_reload.  `load` is the private helper `load_pair`: ONE read of the certificate file, ONE
   read of the key file, in this order:
       read cert file -> PEM certs (non-empty) -> read key file -> PEM private key
       -> ServerConfig::with_single_cert (leaf parses, key usable, key matches the leaf)
       -> CertificateInfo::from_pem_bytes on the SAME certificate bytes.
   `reads` is what the file system returns to the reads performed by one (re)load; it has a third
   field, the content a SECOND read of the certificate file would see, because the pinned code
   (Legacy/CertReloadLegacy.v) performs that read and the correspondence cases carry it. The current
   code never looks at it (side lemma cert_reload_cert_reads_1).

   Everything the environment decides is a Section variable applied to the bytes read in THIS load:
   PEM/X.509 parsing, the key/certificate match test of rustls, the wall clock. Nothing is assumed
   about them.

   Time: `wall_*` are SystemTime readings in nanoseconds since the epoch (one taken inside
   from_x509 when days_until_expiry is computed, one at the expiry check of reload), `mono` is the
   Instant stored in last_reload. *)
From Coq Require Import List NArith ZArith Bool.
From AnyTLS Require Import Generated.
Import ListNotations.
Open Scope Z_scope.

(* ---- cert_analyzer.rs: from_x509 day arithmetic, is_expired ---- *)
Definition ns_per_sec : Z := 1000000000.

(* days_until_expiry: Duration::as_secs() / 86400, negated when not_after is in the past *)
Definition days_until (not_after now : Z) : Z :=
  if now <=? not_after
  then ((not_after - now) / ns_per_sec) / cert_secs_per_day
  else - (((now - not_after) / ns_per_sec) / cert_secs_per_day).

Definition is_expired_days (days : Z) : bool := days <? cert_expired_below_days.

Record certinfo (ident : Type) : Type :=
  { ci_ident : ident;        (* subject, issuer, serial, SANs, algorithms: what operators are shown *)
    ci_not_after : Z;        (* ns since the epoch *)
    ci_days : Z }.           (* days_until_expiry, frozen at analysis time *)
Arguments ci_ident {ident}. Arguments ci_not_after {ident}. Arguments ci_days {ident}.

Inductive err := EIo | ETls.
Inductive outcome := ROk | RErr (e : err) | RPanic.

Definition u64_max : N := 18446744073709551615%N.

Section CertReload.
  Variables blob chain pkey ident : Type.
  Variable parse_certs : blob -> option chain.       (* rustls_pemfile::certs, all items Ok, non-empty *)
  Variable parse_key   : blob -> option pkey.        (* rustls_pemfile::private_key = Ok(Some _) *)
  Variable pair_ok     : chain -> pkey -> bool.      (* ServerConfig::with_single_cert succeeds *)
  Variable parse_info  : blob -> option (ident * Z). (* from_pem_bytes up to the clock: identity, not_after *)
  Variable check_expiry : bool.                      (* CertReloaderConfig::check_expiry *)

  Record reads := { rd_cert : option blob; rd_key : option blob; rd_cert2 : option blob }.
  Record clock := { wall_an : Z; wall_chk : Z; mono : Z }.

  (* what an acceptor was built from *)
  Record loaded := { l_cert : blob; l_key : blob; l_chain : chain; l_pkey : pkey }.

  Record state :=
    { active : loaded;                       (* tls_acceptor *)
      info   : option (certinfo ident);      (* cert_info *)
      count  : N;                            (* reload_count *)
      last   : option Z }.                   (* last_reload *)

  Definition analyze (w : Z) (b : blob) : option (certinfo ident) :=
    match parse_info b with
    | None => None
    | Some (id, na) => Some {| ci_ident := id; ci_not_after := na; ci_days := days_until na w |}
    end.

  (* load_pair *)
  Definition load (rd : reads) (w : Z) : (loaded * option (certinfo ident)) + err :=
    match rd_cert rd with
    | None => inr EIo
    | Some cb =>
      match parse_certs cb with
      | None => inr ETls
      | Some ch =>
        match rd_key rd with
        | None => inr EIo
        | Some kb =>
          match parse_key kb with
          | None => inr ETls
          | Some k =>
            if pair_ok ch k
            then inl ({| l_cert := cb; l_key := kb; l_chain := ch; l_pkey := k |}, analyze w cb)
            else inr ETls
          end
        end
      end
    end.

  (* CertReloader::new: the analysis result is kept with `.ok()`; an expired initial certificate is
     only logged (side lemma cert_new_accepts_expired) *)
  Definition new_reloader (rd : reads) (c : clock) : state + err :=
    match load rd (wall_an c) with
    | inr e => inr e
    | inl (l, oi) => inl {| active := l; info := oi; count := 0%N; last := None |}
    end.

  (* the condition under `if self.config.check_expiry`, assembled from what the translator found there *)
  Definition expired_at_reload (c : clock) (i : certinfo ident) : bool :=
    (cert_reload_expiry_uses_is_expired && is_expired_days (ci_days i))
    || (cert_reload_expiry_compares_not_after && (ci_not_after i <? wall_chk c)).

  (* CertReloader::reload. The four cells are written only after the last error exit; the counter
     increment is a checked `+= 1` on u64 (debug profile): at u64::MAX it panics after the first two
     cells were written. *)
  Definition reload (st : state) (rd : reads) (c : clock) : state * outcome :=
    match load rd (wall_an c) with
    | inr e => (st, RErr e)
    | inl (_, None) => (st, RErr ETls)
    | inl (l, Some i) =>
      if check_expiry && expired_at_reload c i then (st, RErr ETls)
      else if (count st =? u64_max)%N
      then ({| active := l; info := Some i; count := count st; last := last st |}, RPanic)
      else ({| active := l; info := Some i; count := (count st + 1)%N; last := Some (mono c) |}, ROk)
    end.

  Fixpoint run_state (st : state) (evs : list (reads * clock)) : state :=
    match evs with
    | [] => st
    | (rd, c) :: evs' => run_state (fst (reload st rd c)) evs'
    end.

  Fixpoint outcomes (st : state) (evs : list (reads * clock)) : list outcome :=
    match evs with
    | [] => []
    | (rd, c) :: evs' => snd (reload st rd c) :: outcomes (fst (reload st rd c)) evs'
    end.

  (* ---- the server around it: server.rs `listen` clones the current acceptor per accepted
     connection; an established session keeps the configuration it was accepted with ---- *)
  Inductive op :=
  | OReload (rd : reads) (c : clock)
  | OAccept          (* accept(): snapshot of the acceptor; the handshake happens later *)
  | OEstablish.      (* accept() + handshake now: an established session *)

  Record sys := { rl : state; conns : list loaded; sess : list loaded }.

  Definition step (s : sys) (o : op) : sys :=
    match o with
    | OReload rd c => {| rl := fst (reload (rl s) rd c); conns := conns s; sess := sess s |}
    | OAccept => {| rl := rl s; conns := conns s ++ [active (rl s)]; sess := sess s |}
    | OEstablish => {| rl := rl s; conns := conns s; sess := sess s ++ [active (rl s)] |}
    end.

  Fixpoint run (s : sys) (ops : list op) : sys :=
    match ops with
    | [] => s
    | o :: ops' => run (step s o) ops'
    end.

  (* the chain presented by the handshake of accepted connection j / seen by established session j *)
  Definition served_conn (s : sys) (j : nat) : option chain := option_map l_chain (nth_error (conns s) j).
  Definition served_sess (s : sys) (j : nat) : option chain := option_map l_chain (nth_error (sess s) j).
End CertReload.

Arguments rd_cert {blob}. Arguments rd_key {blob}. Arguments rd_cert2 {blob}.
Arguments Build_reads {blob}.
Arguments l_cert {blob chain pkey}. Arguments l_key {blob chain pkey}.
Arguments l_chain {blob chain pkey}. Arguments l_pkey {blob chain pkey}.
Arguments Build_loaded {blob chain pkey}.
Arguments active {blob chain pkey ident}. Arguments info {blob chain pkey ident}.
Arguments count {blob chain pkey ident}. Arguments last {blob chain pkey ident}.
Arguments Build_state {blob chain pkey ident}.
Arguments OReload {blob}. Arguments OAccept {blob}. Arguments OEstablish {blob}.
Arguments rl {blob chain pkey ident}. Arguments conns {blob chain pkey ident}. Arguments sess {blob chain pkey ident}.
Arguments Build_sys {blob chain pkey ident}.
