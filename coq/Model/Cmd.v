(* Cmd.v -- the command alphabet (hand-written; the byte<->command tables are
   regenerated from src/protocol/frame.rs into Gen/Generated.v). *)
Inductive cmd :=
| Waste | Syn | Push | Fin | Settings | Alert | UpdatePaddingScheme
| SynAck | HeartRequest | HeartResponse | ServerSettings.

Definition cmd_eqb (a b : cmd) : bool :=
  match a, b with
  | Waste, Waste | Syn, Syn | Push, Push | Fin, Fin | Settings, Settings
  | Alert, Alert | UpdatePaddingScheme, UpdatePaddingScheme | SynAck, SynAck
  | HeartRequest, HeartRequest | HeartResponse, HeartResponse
  | ServerSettings, ServerSettings => true
  | _, _ => false
  end.
