(* Conc.v -- M5: small-step interleaving semantics of the session write / open / close paths of
   src/session/session.rs (repaired code), at the granularity of the scheduling hook points
   (`verif_sched::point`) placed in the code:

     harness "h.call"        PIdle     between two API calls of a task
     wf.enter                PW0       write_frame entered, closed flag not yet examined
     wf.buffering            PW1       buffering mode seen, append to the pending buffer not yet done
     wf.before_writer        PW2       about to lock the writer           (PW2wait: queued on the tokio mutex)
     wf.writer_locked        PW3       writer lock held, pending buffer not yet drained
     wf.buffer_taken         PW4       pending ++ [frame] taken; packet not yet numbered / written
     io_err.enter            PE0       a transport error occurred, writer lock already released
     close.flag_set          PC1       close(): flag swapped, stream tables not yet drained
     close.before_writer     PC2       tables drained, writer not yet locked for shutdown (PC2wait: queued)
     open.checked            PO0       open_stream: closed flag examined (it was clear), id not yet allocated
     open.rx_registered      PO0b      open_stream: id allocated, inbound queue in stream_receive_tx, not yet in `streams`
     open.registered         PO1       open_stream: registered in both tables, SYN not yet submitted
     pump.loop               PIdle of the pump task: top of the loop of process_stream_data
     (no point)              PPwait    the pump is inside `select!{notified(), recv()}` with an empty channel

   The outbound data path of proxied streams: `Stream::send_data` / `poll_write` (CSend) pushes (id, bytes) into
   the session's unbounded channel `dq`; the pump task (process_stream_data, CPump = one loop iteration) pops
   one item and submits it with write_data_frame. `pushed` is a ghost log of all successful pushes.

   The buffer mutex and the table RwLocks are never held across an await that can block on another
   session lock, so their critical sections are atomic steps here. The writer mutex is a tokio mutex:
   FIFO hand-off to the first waiter on release (`waiters`).
   Task 0 is the session's receive task (recv_loop): it handles incoming frames without parking and
   parks only inside close(); incoming events are injected by CFeed calls of any task.
   `lin` is a ghost log of frames in linearisation order (append at PW1 / PW3). *)
From AnyTLS Require Export Bytes Cmd Generated Frame.
Open Scope N_scope.

Definition tid := nat.
Definition witem := (tid * frame)%type.

Inductive res := ResOk | ResClosed | ResIo | ResErrOpen | ResTimeout | ResData | ResEof | ResNoStream.

Inductive inev :=
| InSynAck (owner : tid) (ok : bool)
| InPush (owner : tid)
| InFin (owner : tid)
| InAlert | InEof | InErr.

Inductive call :=
| CWrite (f : frame)          (* write_frame / write_control_frame *)
| CData (payload : bytes)     (* write_data_frame on this task's stream (payload <= 65535 bytes) *)
| COpen                       (* open_stream *)
| CAwait                      (* take the verdict of this task's open; blocked while unresolved *)
| CTimeout                    (* the open timer fires: verdict if resolved, ResTimeout otherwise *)
| CRead                       (* one read on this task's stream; blocked while empty and open *)
| CClose                      (* owner calls close() *)
| CDisableBuf | CEnableBuf
| CFail                       (* from now on every transport write fails *)
| CStall                      (* from now on the peer reads nothing: a transport write or shutdown never completes *)
| CFeed (ev : inev)           (* bytes of one incoming frame / EOF / error reach recv_loop *)
| CSend (payload : bytes)     (* Stream::send_data / poll_write on this task's stream: push into the session's channel *)
| CPump.                      (* process_stream_data: the first call takes the receiver, every further call is one
                                 iteration of its loop (pop one item, write_data_frame) *)

Inductive after := AfterClose | AfterIoErr | AfterRecv.
Inductive wk := WkPlain | WkOpen | WkPump.

Inductive pc :=
| PIdle
| PW0 (k : wk) (f : frame) | PW1 (k : wk) (f : frame)
| PW2 (k : wk) (f : frame) | PW2wait (k : wk) (f : frame)
| PW3 (k : wk) (f : frame) | PW4 (k : wk) (held : list witem)
| PE0 (a : after) (k : wk)
| PC1 (a : after) (k : wk) | PC2 (a : after) (k : wk) | PC2wait (a : after) (k : wk)
| PO0
| PO0b (sid : N)
| PO1 (sid : N)
| PPwait.

Record task := {
  t_prog : list call;
  t_pc : pc;
  t_res : list res;            (* results of completed calls, oldest first *)
  t_sid : option N;            (* stream opened by this task *)
  t_verdict : option res;      (* the one-shot open verdict, once resolved *)
  t_rq : nat;                  (* chunks queued for this task's stream reader *)
  t_rclosed : bool;            (* the queue's sender was dropped *)
  t_sclosed : bool;            (* Stream::is_closed of this task's stream: set by the drain of close() only *)
  t_sub : list frame           (* ghost: frames this task has submitted (write_frame entered), in order *)
}.

Record state := {
  buffering : bool;
  pending : list witem;
  wr : option tid;
  waiters : list tid;
  pkt : N;
  wire : list (N * list witem);     (* bursts in transport order, tagged with the packet number used *)
  closed : bool;
  shut : bool;
  failing : bool;
  next_sid : N;
  table : list (N * tid);           (* `streams`: registered stream ids -> owner task *)
  rtable : list (N * tid);          (* `stream_receive_tx`: ids with an inbound queue -> owner task *)
  ralive : bool;                    (* recv_loop still running *)
  tasks : tid -> task;
  lin : list witem;
  dq : list witem;                  (* the unbounded channel stream_data_tx -> rx: (sender task, data frame) *)
  pushed : list witem;              (* ghost: every successful push, in order *)
  pump_owner : option tid;          (* the task that took the receiver (process_stream_data) *)
  pump_done : bool;                 (* that task has returned: the receiver is dropped, sends fail *)
  stalled : bool                    (* the peer has stopped reading: every transport write / shutdown stays pending *)
}.

Definition rtid : tid := 0%nat.

Definition idle_task (prog : list call) : task :=
  {| t_prog := prog; t_pc := PIdle; t_res := []; t_sid := None; t_verdict := None;
     t_rq := 0; t_rclosed := false; t_sclosed := false; t_sub := [] |}.

Definition upd (f : tid -> task) (t : tid) (v : task) : tid -> task :=
  fun t' => if Nat.eqb t' t then v else f t'.

(* ---- record updates ---- *)
Definition set_tasks (s : state) (ts : tid -> task) : state :=
  {| buffering := buffering s; pending := pending s; wr := wr s; waiters := waiters s; pkt := pkt s;
     wire := wire s; closed := closed s; shut := shut s; failing := failing s; next_sid := next_sid s;
     table := table s; rtable := rtable s; ralive := ralive s; tasks := ts; lin := lin s;
     dq := dq s; pushed := pushed s; pump_owner := pump_owner s; pump_done := pump_done s; stalled := stalled s |}.
Definition set_task (s : state) (t : tid) (v : task) : state := set_tasks s (upd (tasks s) t v).

Definition with_pc (x : task) (p : pc) : task :=
  {| t_prog := t_prog x; t_pc := p; t_res := t_res x; t_sid := t_sid x; t_verdict := t_verdict x;
     t_rq := t_rq x; t_rclosed := t_rclosed x; t_sclosed := t_sclosed x; t_sub := t_sub x |}.
Definition with_res (x : task) (r : res) : task :=
  {| t_prog := t_prog x; t_pc := PIdle; t_res := t_res x ++ [r]; t_sid := t_sid x;
     t_verdict := t_verdict x; t_rq := t_rq x; t_rclosed := t_rclosed x; t_sclosed := t_sclosed x; t_sub := t_sub x |}.
Definition with_prog (x : task) (p : list call) : task :=
  {| t_prog := p; t_pc := t_pc x; t_res := t_res x; t_sid := t_sid x; t_verdict := t_verdict x;
     t_rq := t_rq x; t_rclosed := t_rclosed x; t_sclosed := t_sclosed x; t_sub := t_sub x |}.
Definition with_sid (x : task) (sid : N) : task :=
  {| t_prog := t_prog x; t_pc := t_pc x; t_res := t_res x; t_sid := Some sid; t_verdict := None;
     t_rq := 0; t_rclosed := false; t_sclosed := false; t_sub := t_sub x |}.
Definition with_verdict (x : task) (v : option res) : task :=
  {| t_prog := t_prog x; t_pc := t_pc x; t_res := t_res x; t_sid := t_sid x; t_verdict := v;
     t_rq := t_rq x; t_rclosed := t_rclosed x; t_sclosed := t_sclosed x; t_sub := t_sub x |}.
Definition with_rq (x : task) (q : nat) (c : bool) : task :=
  {| t_prog := t_prog x; t_pc := t_pc x; t_res := t_res x; t_sid := t_sid x; t_verdict := t_verdict x;
     t_rq := q; t_rclosed := c; t_sclosed := t_sclosed x; t_sub := t_sub x |}.
Definition with_sub (x : task) (f : frame) : task :=
  {| t_prog := t_prog x; t_pc := t_pc x; t_res := t_res x; t_sid := t_sid x; t_verdict := t_verdict x;
     t_rq := t_rq x; t_rclosed := t_rclosed x; t_sclosed := t_sclosed x; t_sub := t_sub x ++ [f] |}.
Definition with_sclosed (x : task) : task :=
  {| t_prog := t_prog x; t_pc := t_pc x; t_res := t_res x; t_sid := t_sid x; t_verdict := t_verdict x;
     t_rq := t_rq x; t_rclosed := t_rclosed x; t_sclosed := true; t_sub := t_sub x |}.
Definition clear_sid (x : task) : task :=
  {| t_prog := t_prog x; t_pc := t_pc x; t_res := t_res x; t_sid := None; t_verdict := t_verdict x;
     t_rq := t_rq x; t_rclosed := t_rclosed x; t_sclosed := t_sclosed x; t_sub := t_sub x |}.

Definition set_pc (s : state) (t : tid) (p : pc) : state := set_task s t (with_pc (tasks s t) p).
Definition finish (s : state) (t : tid) (r : res) : state := set_task s t (with_res (tasks s t) r).
(* end of a write_frame call: an open_stream whose SYN failed returns Err, the caller has no stream handle *)
Definition set_pump (s : state) (q pu : list witem) (o : option tid) (d : bool) : state :=
  {| buffering := buffering s; pending := pending s; wr := wr s; waiters := waiters s; pkt := pkt s;
     wire := wire s; closed := closed s; shut := shut s; failing := failing s; next_sid := next_sid s;
     table := table s; rtable := rtable s; ralive := ralive s; tasks := tasks s; lin := lin s;
     dq := q; pushed := pu; pump_owner := o; pump_done := d; stalled := stalled s |}.
Definition set_pump_done (s : state) : state := set_pump s (dq s) (pushed s) (pump_owner s) true.
Definition set_dq (s : state) (q : list witem) : state := set_pump s q (pushed s) (pump_owner s) (pump_done s).

(* a write that the pump submitted and that failed makes process_stream_data return the error: the pump is gone *)
Definition finish_w (s : state) (t : tid) (k : wk) (r : res) : state :=
  match k, r with
  | WkOpen, ResOk => finish s t r
  | WkOpen, _ => set_task s t (with_res (clear_sid (tasks s t)) r)
  | WkPlain, _ => finish s t r
  | WkPump, ResOk => finish s t r
  | WkPump, _ => set_pump_done (finish s t r)
  end.

Definition set_flags (s : state) (b c sh fl ra : bool) : state :=
  {| buffering := b; pending := pending s; wr := wr s; waiters := waiters s; pkt := pkt s;
     wire := wire s; closed := c; shut := sh; failing := fl; next_sid := next_sid s;
     table := table s; rtable := rtable s; ralive := ra; tasks := tasks s; lin := lin s;
     dq := dq s; pushed := pushed s; pump_owner := pump_owner s; pump_done := pump_done s; stalled := stalled s |}.
Definition set_buffering (s : state) (b : bool) := set_flags s b (closed s) (shut s) (failing s) (ralive s).
Definition set_closed (s : state) := set_flags s (buffering s) true (shut s) (failing s) (ralive s).
Definition set_shut (s : state) := set_flags s (buffering s) (closed s) true (failing s) (ralive s).
Definition set_failing (s : state) := set_flags s (buffering s) (closed s) (shut s) true (ralive s).
Definition set_rdead (s : state) := set_flags s (buffering s) (closed s) (shut s) (failing s) false.
Definition set_stalled (s : state) : state :=
  {| buffering := buffering s; pending := pending s; wr := wr s; waiters := waiters s; pkt := pkt s;
     wire := wire s; closed := closed s; shut := shut s; failing := failing s; next_sid := next_sid s;
     table := table s; rtable := rtable s; ralive := ralive s; tasks := tasks s; lin := lin s;
     dq := dq s; pushed := pushed s; pump_owner := pump_owner s; pump_done := pump_done s; stalled := true |}.
(* close(): `timeout(1 s, writer.shutdown())` under the writer lock. On a stalled transport the shutdown stays
   pending, the timer fires and close() returns with the transport NOT shut down *)
Definition shutdown_tr (s : state) : state := if stalled s then s else set_shut s.

Definition set_queue (s : state) (p : list witem) (l : list witem) : state :=
  {| buffering := buffering s; pending := p; wr := wr s; waiters := waiters s; pkt := pkt s;
     wire := wire s; closed := closed s; shut := shut s; failing := failing s; next_sid := next_sid s;
     table := table s; rtable := rtable s; ralive := ralive s; tasks := tasks s; lin := l;
     dq := dq s; pushed := pushed s; pump_owner := pump_owner s; pump_done := pump_done s; stalled := stalled s |}.
Definition set_lock (s : state) (w : option tid) (ws : list tid) : state :=
  {| buffering := buffering s; pending := pending s; wr := w; waiters := ws; pkt := pkt s;
     wire := wire s; closed := closed s; shut := shut s; failing := failing s; next_sid := next_sid s;
     table := table s; rtable := rtable s; ralive := ralive s; tasks := tasks s; lin := lin s;
     dq := dq s; pushed := pushed s; pump_owner := pump_owner s; pump_done := pump_done s; stalled := stalled s |}.
Definition set_wire (s : state) (k : N) (w : list (N * list witem)) : state :=
  {| buffering := buffering s; pending := pending s; wr := wr s; waiters := waiters s; pkt := k;
     wire := w; closed := closed s; shut := shut s; failing := failing s; next_sid := next_sid s;
     table := table s; rtable := rtable s; ralive := ralive s; tasks := tasks s; lin := lin s;
     dq := dq s; pushed := pushed s; pump_owner := pump_owner s; pump_done := pump_done s; stalled := stalled s |}.
Definition set_table (s : state) (n : N) (tb : list (N * tid)) : state :=
  {| buffering := buffering s; pending := pending s; wr := wr s; waiters := waiters s; pkt := pkt s;
     wire := wire s; closed := closed s; shut := shut s; failing := failing s; next_sid := n;
     table := tb; rtable := rtable s; ralive := ralive s; tasks := tasks s; lin := lin s;
     dq := dq s; pushed := pushed s; pump_owner := pump_owner s; pump_done := pump_done s; stalled := stalled s |}.

Definition set_rtable (s : state) (n : N) (rtb : list (N * tid)) : state :=
  {| buffering := buffering s; pending := pending s; wr := wr s; waiters := waiters s; pkt := pkt s;
     wire := wire s; closed := closed s; shut := shut s; failing := failing s; next_sid := n;
     table := table s; rtable := rtb; ralive := ralive s; tasks := tasks s; lin := lin s;
     dq := dq s; pushed := pushed s; pump_owner := pump_owner s; pump_done := pump_done s; stalled := stalled s |}.

(* ---- close(): what the finished close returns into ---- *)
Definition finish_close (s : state) (t : tid) (a : after) (k : wk) : state :=
  match a with
  | AfterClose => finish s t ResOk
  | AfterIoErr => finish_w s t k ResIo
  | AfterRecv => set_rdead (set_pc s t PIdle)
  end.

(* release of the writer mutex: FIFO hand-off. A queued closer that obtains the lock shuts the
   transport down and releases again without reaching another scheduling point. *)
Fixpoint release_ws (ws : list tid) (s : state) : state :=
  match ws with
  | [] => set_lock s None []
  | w :: ws' =>
      match t_pc (tasks s w) with
      | PW2wait k f => set_pc (set_lock s (Some w) ws') w (PW3 k f)
      | PC2wait a k => release_ws ws' (finish_close (shutdown_tr s) w a k)
      | _ => set_lock s None []          (* unreachable: only waiting tasks are queued *)
      end
  end.
Definition release (s : state) : state := release_ws (waiters s) s.

(* the swap at the head of close() *)
Definition enter_close (s : state) (t : tid) (a : after) (k : wk) : state :=
  if closed s then finish_close s t a k
  else set_pc (set_closed s) t (PC1 a k).

(* drain of the stream tables in close(): every registered stream gets its verdict resolved
   (if still pending) and its inbound queue closed *)
Fixpoint drain (tb : list (N * tid)) (ts : tid -> task) : tid -> task :=
  match tb with
  | [] => ts
  | (_, o) :: tb' =>
      let x := ts o in
      let v := match t_verdict x with None => Some ResClosed | Some r => Some r end in
      drain tb' (upd ts o (with_sclosed (with_rq (with_verdict x v) (t_rq x) true)))
  end.

(* the Alert handler records the alert on every registered stream (Stream::close_with_error: the stream's own
   closed flag) before it calls close() *)
Fixpoint mark_sclosed (tb : list (N * tid)) (ts : tid -> task) : tid -> task :=
  match tb with
  | [] => ts
  | (_, o) :: tb' => mark_sclosed tb' (upd ts o (with_sclosed (ts o)))
  end.
Definition mark_state (s : state) : state := set_tasks s (mark_sclosed (table s) (tasks s)).

(* close() drains `streams` and removes each drained id from `stream_receive_tx` (ids are handed out once, so removing
   the id and removing the pair (id, owner) coincide) *)
Definition pair_eqb (a b : N * tid) : bool := N.eqb (fst a) (fst b) && Nat.eqb (snd a) (snd b).
Definition minus_pairs (l d : list (N * tid)) : list (N * tid) :=
  filter (fun e => negb (existsb (pair_eqb e) d)) l.

Fixpoint lookup_owner (tb : list (N * tid)) (o : tid) : option N :=
  match tb with
  | [] => None
  | (sid, o') :: tb' => if Nat.eqb o' o then Some sid else lookup_owner tb' o
  end.
Definition remove_owner (tb : list (N * tid)) (o : tid) : list (N * tid) :=
  filter (fun p => negb (Nat.eqb (snd p) o)) tb.

Definition pc_is_idle (p : pc) : bool := match p with PIdle => true | _ => false end.

Definition feed_ev (s : state) (ev : inev) : state :=
  if negb (ralive s) then s else
  match ev with
  | InSynAck o ok =>
      match lookup_owner (table s) o with
      | Some _ =>
          let x := tasks s o in
          match t_verdict x with
          | None => set_task s o (with_verdict x (Some (if ok then ResOk else ResErrOpen)))
          | Some _ => s
          end
      | None => s
      end
  | InPush o =>
      match lookup_owner (rtable s) o with
      | Some _ => let x := tasks s o in set_task s o (with_rq x (S (t_rq x)) (t_rclosed x))
      | None => s
      end
  | InFin o =>
      (* both maps drop the id; dropping the inbound queue's sender is what the reader sees as end-of-stream *)
      match lookup_owner (rtable s) o with
      | Some _ =>
          let x := tasks s o in
          set_rtable (set_table (set_task s o (with_rq x (t_rq x) true)) (next_sid s) (remove_owner (table s) o))
                     (next_sid s) (remove_owner (rtable s) o)
      | None => set_table s (next_sid s) (remove_owner (table s) o)
      end
  | InAlert =>
      if pc_is_idle (t_pc (tasks s rtid)) then enter_close (mark_state s) rtid AfterRecv WkPlain else s
  | InEof =>
      if pc_is_idle (t_pc (tasks s rtid)) then enter_close s rtid AfterRecv WkPlain else s
  | InErr =>
      if pc_is_idle (t_pc (tasks s rtid)) then set_pc s rtid (PE0 AfterRecv WkPlain) else s
  end.

Definition syn_frame (sid : N) : frame := {| fcmd := Syn; fsid := sid; fdata := [] |}.
Definition psh_frame (sid : N) (d : bytes) : frame := {| fcmd := Push; fsid := sid; fdata := d |}.

Definition sub_if_pump (k : wk) (x : task) (f : frame) : task :=
  match k with WkPump => with_sub x f | _ => x end.

(* the drain of close(): every stream in `streams` is released and forgotten, and its id leaves `stream_receive_tx` *)
Definition drain_state (s : state) : state :=
  set_rtable (set_table (set_tasks s (drain (table s) (tasks s))) (next_sid s) [])
             (next_sid s) (minus_pairs (rtable s) (table s)).

Definition is_ppwait (p : pc) : bool := match p with PPwait => true | _ => false end.

(* the pump parked inside select!{notified(), recv()} is woken by close_notify.notify_waiters(): it leaves its
   loop and returns *)
Definition wake_pump_closed (s : state) : state :=
  if closed s then     (* close() has swapped the flag before it notifies (always true where this is used: at PC1) *)
    match pump_owner s with
    | Some p => if is_ppwait (t_pc (tasks s p)) then set_pump_done (finish s p ResClosed) else s
    | None => s
    end
  else s.

(* Stream::send_data with the stream open: the item enters the channel; a pump parked in recv() takes it at
   once: it re-checks the closed flag (and leaves) or submits the frame (write_data_frame -> wf.enter) *)
Definition push_item (s : state) (t : tid) (f : frame) : state :=
  let it := (t, f) in
  let s1 := set_pump s (dq s) (pushed s ++ [it]) (pump_owner s) (pump_done s) in
  match pump_owner s with
  | Some p =>
      if is_ppwait (t_pc (tasks s p)) then
        if closed s then set_pump_done (finish s1 p ResClosed)
        else set_task s1 p (with_pc (tasks s p) (PW0 WkPump f))
      else set_dq s1 (dq s ++ [it])
  | None => set_dq s1 (dq s ++ [it])
  end.

(* a task at PIdle starts its next call *)
Definition start_call (s : state) (t : tid) (c : call) (rest : list call) : option state :=
  let x := with_prog (tasks s t) rest in
  let s0 := set_task s t x in
  match c with
  | CWrite f => Some (set_task s0 t (with_pc (with_sub x f) (PW0 WkPlain f)))
  | CData d =>
      match t_sid x with
      | Some sid => Some (set_task s0 t (with_pc (with_sub x (psh_frame sid d)) (PW0 WkPlain (psh_frame sid d))))
      | None => Some (finish s0 t ResNoStream)
      end
  | COpen =>
      if closed s then Some (finish s0 t ResClosed)
      else Some (set_task s0 t (with_pc x PO0))
  | CAwait =>
      match t_sid x, t_verdict x with
      | None, _ => Some (finish s0 t ResNoStream)
      | Some _, Some r => Some (finish s0 t r)
      | Some _, None => None
      end
  | CTimeout =>
      match t_sid x, t_verdict x with
      | None, _ => Some (finish s0 t ResNoStream)
      | Some _, Some r => Some (finish s0 t r)
      | Some _, None => Some (finish (set_task s0 t (with_verdict x (Some ResTimeout))) t ResTimeout)
      end
  | CRead =>
      match t_sid x, t_rq x with
      | None, _ => Some (finish s0 t ResNoStream)
      | Some _, S q => Some (finish (set_task s0 t (with_rq x q (t_rclosed x))) t ResData)
      | Some _, O => if t_rclosed x then Some (finish s0 t ResEof) else None
      end
  | CClose => Some (enter_close s0 t AfterClose WkPlain)
  | CDisableBuf => Some (finish (set_buffering s0 false) t ResOk)
  | CEnableBuf => Some (finish (set_buffering s0 true) t ResOk)
  | CFail => Some (finish (set_failing s0) t ResOk)
  | CStall => Some (finish (set_stalled s0) t ResOk)
  | CFeed ev => if Nat.eqb t rtid then Some (finish s0 t ResOk)      (* the receive task does not feed itself *)
               else Some (finish (feed_ev s0 ev) t ResOk)
  | CSend d =>
      match t_sid x with
      | None => Some (finish s0 t ResNoStream)
      | Some sid =>
          if t_sclosed x || pump_done s then Some (finish s0 t ResClosed)
          else Some (finish (push_item s0 t (psh_frame sid d)) t ResOk)
      end
  | CPump =>
      match pump_owner s with
      | None => Some (finish (set_pump s0 (dq s) (pushed s) (Some t) (pump_done s)) t ResOk)   (* takes the receiver *)
      | Some p =>
          if negb (Nat.eqb p t) then Some (finish s0 t ResNoStream)    (* "receiver already taken": returns at once *)
          else if pump_done s then Some (finish s0 t ResClosed)        (* process_stream_data has returned *)
          else
            match dq s with
            | (_, f) :: q =>
                if closed s then Some (set_pump_done (finish (set_dq s0 q) t ResClosed))
                else Some (set_task (set_dq s0 q) t (with_pc x (PW0 WkPump f)))
            | [] => Some (set_task s0 t (with_pc x PPwait))
            end
      end
  end.

Definition step (s : state) (t : tid) : option state :=
  let x := tasks s t in
  match t_pc x with
  | PIdle =>
      match t_prog x with
      | [] => None
      | c :: rest => start_call s t c rest
      end
  | PW0 k f =>
      (* ghost: a frame the pump took from the channel counts as submitted once write_frame is past its closed
         check (a frame submitted by a direct caller is recorded when the call starts) *)
      if closed s then Some (finish_w s t k ResClosed)
      else if buffering s then Some (set_task s t (with_pc (sub_if_pump k x f) (PW1 k f)))
      else Some (set_task s t (with_pc (sub_if_pump k x f) (PW2 k f)))
  | PW1 k f =>
      Some (finish_w (set_queue s (pending s ++ [(t, f)]) (lin s ++ [(t, f)])) t k ResOk)
  | PW2 k f =>
      match wr s with
      | None => Some (set_pc (set_lock s (Some t) (waiters s)) t (PW3 k f))
      | Some _ => Some (set_pc (set_lock s (wr s) (waiters s ++ [t])) t (PW2wait k f))
      end
  | PW2wait _ _ => None
  | PW3 k f =>
      Some (set_pc (set_queue s [] (lin s ++ [(t, f)])) t (PW4 k (pending s ++ [(t, f)])))
  | PW4 k held =>
      let n := pkt s + 1 in
      (* `writer.write_all(..).await` on a transport whose peer has stopped reading never returns: the task stays
         here, HOLDING the writer mutex (nothing bounds this await: known finding F4) *)
      if stalled s && negb (shut s) then None else     (* after a shutdown the write fails at once *)
      if failing s || shut s
      then Some (set_pc (release (set_wire s n (wire s))) t (PE0 AfterIoErr k))
      else Some (finish_w (release (set_wire s n (wire s ++ [(n, held)]))) t k ResOk)
  | PE0 a k => Some (enter_close s t a k)
  | PC1 a k =>
      (* notify_waiters(), then the drain of both tables *)
      let s1 := wake_pump_closed s in
      Some (set_pc (drain_state s1) t (PC2 a k))
  | PC2 a k =>
      match wr s with
      | None => Some (finish_close (shutdown_tr s) t a k)
      | Some _ => Some (set_pc (set_lock s (wr s) (waiters s ++ [t])) t (PC2wait a k))
      end
  | PC2wait _ _ => None
  | PO0 =>
      (* the closed flag is NOT examined again: close() may have run (and drained the tables) since the check *)
      let sid := next_sid s in
      let s1 := set_rtable s (sid + 1) (rtable s ++ [(sid, t)]) in
      Some (set_task s1 t (with_pc (with_sid x sid) (PO0b sid)))
  | PO0b sid =>
      (* the second table: two separate lock acquisitions in the code *)
      Some (set_task (set_table s (next_sid s) (table s ++ [(sid, t)])) t (with_pc x (PO1 sid)))
  | PO1 sid => Some (set_task s t (with_pc (with_sub x (syn_frame sid)) (PW0 WkOpen (syn_frame sid))))
  | PPwait => None
  end.

(* a schedule is a list of task ids; a grant to a task that cannot move is a stutter *)
Definition step_or_skip (s : state) (t : tid) : state :=
  match step s t with Some s' => s' | None => s end.
Definition run (s : state) (sched : list tid) : state := fold_left step_or_skip sched s.

Definition init (progs : list (list call)) (buf : bool) (pend : list witem) : state :=
  {| buffering := buf; pending := pend; wr := None; waiters := []; pkt := client_pkt_start;
     wire := []; closed := false; shut := false; failing := false;
     next_sid := client_first_stream_id; table := []; rtable := []; ralive := true;
     tasks := fun t => idle_task (nth t progs []); lin := pend;
     dq := []; pushed := []; pump_owner := None; pump_done := false; stalled := false |}.

Definition flat_wire (s : state) : list witem := concat (map snd (wire s)).
