(* Dest.v -- M7: the destination codec (C07 part a).
     dest_wire / client_encode = src/client/client.rs create_proxy_stream:100-128 (the encoder)
     dest_prog                 = src/server/handler.rs read_socks_addr (the decoder; ATYP via `read`)
     udp_init_encode           = src/client/udp_client.rs encode_initial_request
     udp_init_prog             = src/server/udp_proxy.rs read_initial_request (all read_exact)
     route                     = handler.rs:73 `destination.addr.contains("udp-over-tcp.arpa")`
   A destination is an IPv4 address (4 octets), an IPv6 address (16 octets) or a name (the bytes of a
   Rust String).  The server renders V4/V6 with std's `to_string` and parses the text back with
   `parse::<IpAddr>()`; std::net printing/parsing is in the trusted base, the model keeps the octets. *)
From AnyTLS Require Export Bytes Reader ReaderProg Generated.
Open Scope N_scope.

Inductive dest : Type :=
| DV4 (a : bytes)
| DV6 (a : bytes)
| DName (n : bytes).

Definition atyp_v4 : N := 1.
Definition atyp_name : N := 3.
Definition atyp_v6 : N := 4.

Definition u8_of (n : N) : N := n mod 256.     (* `len() as u8` *)

(* the wire form `ATYP | ADDR | PORT` of an abstract destination *)
Definition dest_wire (d : dest) (port : N) : bytes :=
  match d with
  | DV4 a => atyp_v4 :: a ++ be16 port
  | DV6 a => atyp_v6 :: a ++ be16 port
  | DName n => atyp_name :: u8_of (lenN n) :: n ++ be16 port
  end.

Section ClientEncoder.
  (* `addr.parse::<Ipv4Addr>()` / `addr.parse::<Ipv6Addr>()` of std: oracles returning the octets *)
  Variable parse_v4 parse_v6 : bytes -> option bytes.

  Definition classify (host : bytes) : dest :=
    match parse_v4 host with
    | Some o => DV4 o
    | None => match parse_v6 host with Some o => DV6 o | None => DName host end
    end.

  (* None = Err("Domain name too long"); the empty name is NOT refused by the client *)
  Definition client_encode (host : bytes) (port : N) : option bytes :=
    match classify host with
    | DName n => if lenN n <=? 255 then Some (dest_wire (DName n) port) else None
    | d => Some (dest_wire d port)
    end.
End ClientEncoder.

Definition port_k {A} (f : N -> A) : prog A :=
  PExact 2 E_EOF (fun p => PRet (f (de16_of p))).

(* [LEN | DOMAIN] + from_utf8, shared by the three decoders of this package *)
Definition name_k {A} (k : bytes -> prog A) : prog A :=
  PExact 1 E_EOF (fun l =>
    let n := byte_at 0 l in
    if (n =? 0) || (255 <? n) then PFail E_LEN
    else PExact n E_EOF (fun d => if utf8_valid d then k d else PFail E_UTF8)).

Definition addr_k {A} (atyp : N) (k : dest -> prog A) : prog A :=
  if atyp =? atyp_v4 then PExact 4 E_EOF (fun a => k (DV4 a))
  else if atyp =? atyp_name then name_k (fun d => k (DName d))
  else if atyp =? atyp_v6 then PExact 16 E_EOF (fun a => k (DV6 a))
  else PFail E_ATYP.

Definition dest_prog : prog (dest * N) :=
  PByte0 (fun atyp => addr_k atyp (fun d => port_k (fun p => (d, p)))).

Definition dest_decode (b : bytes) : pres (dest * N) := run_bytes dest_prog b.

(* ---- UDP-over-TCP initial request ---- *)
Definition udp_init_encode (d : dest) (port : N) : bytes := 1 :: dest_wire d port.

Definition udp_init_prog : prog (dest * N) :=
  PExact 1 E_EOF (fun c =>
    if byte_at 0 c =? 1 then
      PExact 1 E_EOF (fun t => addr_k (byte_at 0 t) (fun d => port_k (fun p => (d, p))))
    else PFail E_FMT).

Definition udp_init_decode (b : bytes) : pres (dest * N) := run_bytes udp_init_prog b.

(* ---- what the server does with the decoded name ---- *)
Fixpoint is_prefixb (m n : bytes) : bool :=
  match m, n with
  | [], _ => true
  | x :: m', y :: n' => (x =? y) && is_prefixb m' n'
  | _ :: _, [] => false
  end.
Fixpoint is_infixb (m n : bytes) : bool :=
  is_prefixb m n || match n with [] => false | _ :: n' => is_infixb m n' end.

Inductive route_t := RTcp | RUdp.
(* the reference protocol reserves every name containing `udp-over-tcp.arpa` for the UDP handler
   (carve-out recorded in DESIGN.md C07; the textual form of an IP address never contains it) *)
Definition route (d : dest) : route_t :=
  match d with
  | DName n => if is_infixb udp_magic_infix n then RUdp else RTcp
  | _ => RTcp
  end.

Definition wf_destb (d : dest) : bool :=
  match d with
  | DV4 a => (lenN a =? 4) && wfbb a
  | DV6 a => (lenN a =? 16) && wfbb a
  | DName n => (1 <=? lenN n) && (lenN n <=? 255) && wfbb n && utf8_valid n
  end.
