(* DnsCache.v -- M7: src/util/dns_cache.rs resolve_host_with_cache and its cache (C07 part b).
   Time is Z milliseconds.  The environment is explicit:
     parse_ip host  = `host.parse::<IpAddr>()` (octets of an IP literal)
     resolve t host = what the resolver (system or custom) answers for host when asked at time t
                      ([] = lookup error or no address)
   cache = HashMap<String, CacheEntry> as an association list (first binding wins, insert replaces). *)
From AnyTLS Require Export Bytes Generated.
Open Scope N_scope.

Definition ip := bytes.                     (* 4 or 16 octets *)
Definition sockaddr : Type := ip * N.       (* (address, port) *)

Record centry := { c_addrs : list sockaddr; c_expires : Z; c_next : N }.
Definition cache := list (bytes * centry).

Definition dns_ttl : Z := dns_ttl_ms.

Fixpoint c_find (c : cache) (host : bytes) : option centry :=
  match c with
  | [] => None
  | (h, e) :: c' => if bytes_eqb h host then Some e else c_find c' host
  end.

Fixpoint c_remove (c : cache) (host : bytes) : cache :=
  match c with
  | [] => []
  | (h, e) :: c' => if bytes_eqb h host then c_remove c' host else (h, e) :: c_remove c' host
  end.

Definition c_insert (c : cache) (host : bytes) (e : centry) : cache := (host, e) :: c_remove c host.

Definition usize_wrap (n : N) : N := n mod 18446744073709551616.

(* DnsCache::get *)
Definition cache_get (c : cache) (now : Z) (host : bytes) : option sockaddr :=
  match c_find c host with
  | Some e =>
      if (now <=? c_expires e)%Z && negb (lenN (c_addrs e) =? 0)
      then nth_error (c_addrs e) (N.to_nat (c_next e mod lenN (c_addrs e)))
      else None
  | None => None
  end.

(* DnsCache::advance *)
Definition cache_advance (c : cache) (host : bytes) : cache :=
  match c_find c host with
  | Some e => c_insert c host {| c_addrs := c_addrs e; c_expires := c_expires e;
                                 c_next := usize_wrap (c_next e + 1) |}
  | None => c
  end.

(* DnsCache::insert *)
Definition cache_fill (c : cache) (now : Z) (host : bytes) (addrs : list sockaddr) : cache :=
  c_insert c host {| c_addrs := addrs; c_expires := (now + dns_ttl)%Z; c_next := 0 |}.

(* sort_unstable_by_key(|a| (family, octets)) as an insertion sort; elements with equal keys are equal
   addresses of one lookup (same port), so stability is irrelevant *)
Fixpoint bytes_leb (a b : bytes) : bool :=
  match a, b with
  | [], _ => true
  | _ :: _, [] => false
  | x :: a', y :: b' => (x <? y) || ((x =? y) && bytes_leb a' b')
  end.
Definition fam (i : ip) : N := if lenN i =? 4 then 0 else 1.
Definition addr_leb (a b : sockaddr) : bool :=
  (fam (fst a) <? fam (fst b)) || ((fam (fst a) =? fam (fst b)) && bytes_leb (fst a) (fst b)).
Fixpoint ins_sorted (a : sockaddr) (l : list sockaddr) : list sockaddr :=
  match l with
  | [] => [a]
  | b :: l' => if addr_leb a b then a :: l else b :: ins_sorted a l'
  end.
Definition sort_addrs (l : list sockaddr) : list sockaddr := fold_right ins_sorted [] l.

Section Resolver.
  Variable parse_ip : bytes -> option ip.
  Variable resolve : Z -> bytes -> list ip.

  (* resolve_host_with_cache (repaired, D5: the requested port is re-applied on a cache hit) *)
  Definition dns_request (c : cache) (now : Z) (host : bytes) (port : N) : cache * option sockaddr :=
    match parse_ip host with
    | Some i => (c, Some (i, port))
    | None =>
        match cache_get c now host with
        | Some (i, _) => (cache_advance c host, Some (i, port))
        | None =>
            match sort_addrs (map (fun i => (i, port)) (resolve now host)) with
            | [] => (c, None)
            | a :: rest => (cache_advance (cache_fill c now host (a :: rest)) host, Some a)
            end
        end
    end.

  (* histories: requests and cache clears (set_custom_dns_servers), each with its time *)
  Inductive hop : Type :=
  | HReq (host : bytes) (port : N)
  | HClear.

  Record answer := { a_time : Z; a_host : bytes; a_port : N; a_res : option sockaddr }.

  Fixpoint dns_run (c : cache) (h : list (Z * hop)) : list answer :=
    match h with
    | [] => []
    | (t, HReq host port) :: h' =>
        let '(c', r) := dns_request c t host port in
        {| a_time := t; a_host := host; a_port := port; a_res := r |} :: dns_run c' h'
    | (t, HClear) :: h' => dns_run [] h'
    end.
End Resolver.

(* dns_verif_hooks::dns_cache_seed: an entry as if filled `age` ms ago (driver only; the theorems
   quantify over an arbitrary initial cache instead) *)
Definition cache_seed (c : cache) (now : Z) (host : bytes) (addrs : list sockaddr) (age : Z) : cache :=
  c_insert c host {| c_addrs := addrs; c_expires := (now + dns_ttl - age)%Z; c_next := 0 |}.
