(* Frame.v -- wire format of src/protocol/{frame,codec}.rs.
   encode      = <FrameCodec as Encoder>::encode  (Err on payload > 65535)
   decode1     = <FrameCodec as Decoder>::decode  (None = Ok(None), never an error)
   decode_all  = the `while let Some(frame) = codec.decode(&mut buffer)` loop
   feed        = one iteration of recv_loop: append chunk to carry, drain frames *)
From AnyTLS Require Export Bytes Cmd Generated.
Open Scope N_scope.

Definition assoc_N {A} (k : N) (l : list (N * A)) : option A :=
  match find (fun p => fst p =? k) l with Some p => Some (snd p) | None => None end.

Definition cmd_of_byte (b : N) : cmd :=
  match assoc_N b cmd_table with Some c => c | None => cmd_default end.

Definition byte_of_cmd (c : cmd) : N :=
  match find (fun p => cmd_eqb (snd p) c) cmd_disc with Some p => fst p | None => 0 end.

Record rframe := { rcmd : N; rsid : N; rdata : bytes }.
Record frame := { fcmd : cmd; fsid : N; fdata : bytes }.

Definition cook (r : rframe) : frame :=
  {| fcmd := cmd_of_byte (rcmd r); fsid := rsid r; fdata := rdata r |}.

Definition max_payload : N := encode_max_payload.

Definition encode_raw (r : rframe) : bytes :=
  rcmd r :: be32 (rsid r) ++ be16 (lenN (rdata r)) ++ rdata r.

Definition encode (f : frame) : option bytes :=
  if lenN (fdata f) <=? max_payload
  then Some (byte_of_cmd (fcmd f) :: be32 (fsid f) ++ be16 (lenN (fdata f)) ++ fdata f)
  else None.

Definition decode1_raw (b : bytes) : option (rframe * bytes) :=
  match b with
  | c :: s3 :: s2 :: s1 :: s0 :: l1 :: l0 :: rest =>
      let len := de16 l1 l0 in
      if len <=? lenN rest
      then Some ({| rcmd := c; rsid := de32 s3 s2 s1 s0; rdata := takeN len rest |},
                 dropN len rest)
      else None
  | _ => None
  end.

Definition decode1 (b : bytes) : option (frame * bytes) :=
  match decode1_raw b with
  | Some (r, rest) => Some (cook r, rest)
  | None => None
  end.

Fixpoint decode_all_raw_fuel (fuel : nat) (b : bytes) : list rframe * bytes :=
  match fuel with
  | O => ([], b)
  | S k =>
      match decode1_raw b with
      | None => ([], b)
      | Some (f, r) =>
          let '(fs, r') := decode_all_raw_fuel k r in (f :: fs, r')
      end
  end.

Definition decode_all_raw (b : bytes) : list rframe * bytes :=
  decode_all_raw_fuel (length b) b.

Definition decode_all (b : bytes) : list frame * bytes :=
  let '(fs, r) := decode_all_raw b in (map cook fs, r).

(* streaming decoder: carry = undecoded remainder kept in recv_loop's BytesMut *)
Definition feed (carry chunk : bytes) : list frame * bytes :=
  decode_all (carry ++ chunk).

Fixpoint feed_all (carry : bytes) (chunks : list bytes) : list frame * bytes :=
  match chunks with
  | [] => ([], carry)
  | c :: cs =>
      let '(fs, carry') := feed carry c in
      let '(gs, carry'') := feed_all carry' cs in
      (fs ++ gs, carry'')
  end.

Definition wf_frame (f : frame) : Prop := fsid f < 4294967296 /\ wfb (fdata f).
Definition wf_rframe (r : rframe) : Prop :=
  rcmd r < 256 /\ rsid r < 4294967296 /\ wfb (rdata r) /\ lenN (rdata r) <= max_payload.
