(* Heartbeat.v -- M6: the liveness monitor of a client session.
   Stands for: src/session/session.rs, the heartbeat task spawned by start_client and the
   HeartResponse arm of handle_frame; (interval, timeout) = (check_interval, idle_timeout) of the
   pool configuration (client.rs create_new_session).
   The task wakes at every tick of `time::interval(interval)` and at the deadline of the oldest
   keep-alive request that no response has followed yet:
     wake: closed? -> exit;  outstanding (sent, seen): responses > seen -> outstanding := None
                                                      | sent.elapsed() >= timeout -> close, exit
           tick: outstanding is None -> outstanding := (now, responses); send HeartRequest
   Events of the model: HTick t (the interval timer fires at t), HResp t (a HeartResponse arrives at t);
   the deadline wake is internal (hb_expire: the clock reaches t). The two comparison operators are
   taken from Gen/Generated.v. Time is Z milliseconds. Executable Gallina only. *)
From Coq Require Import List NArith ZArith Bool.
From AnyTLS Require Import Generated Pool.
Import ListNotations.
Open Scope Z_scope.

Inductive hbev := HTick (t : Z) | HResp (t : Z).
Definition hbev_time (e : hbev) : Z := match e with HTick t => t | HResp t => t end.

Record hb := {
  hb_out : option Z;        (* send instant of the oldest request no response has followed *)
  hb_closed : option Z;     (* instant at which the monitor closed the session *)
  hb_sent : list Z          (* instants of the keep-alive requests sent, newest first *)
}.

Definition hb_init : hb := {| hb_out := None; hb_closed := None; hb_sent := [] |}.

(* `sent.elapsed() >= timeout` evaluated when the clock has reached t *)
Definition hb_due (T s t : Z) : bool := cmp_code hb_expire_cmp (t - s) T.

(* the clock reaches t: the deadline timer of an outstanding request fires at s + T *)
Definition hb_expire (T : Z) (st : hb) (t : Z) : hb :=
  match hb_closed st, hb_out st with
  | None, Some s =>
      if hb_due T s t
      then {| hb_out := hb_out st; hb_closed := Some (s + T); hb_sent := hb_sent st |}
      else st
  | _, _ => st
  end.

Definition hb_step (T : Z) (st : hb) (e : hbev) : hb :=
  let st := hb_expire T st (hbev_time e) in
  match hb_closed st with
  | Some _ => st
  | None =>
      match e with
      | HTick t =>
          {| hb_out := match hb_out st with None => Some t | o => o end;
             hb_closed := None; hb_sent := t :: hb_sent st |}
      | HResp _ =>
          (* `responses > seen`: one response after the request was sent clears it *)
          if cmp_code hb_answered_cmp 1 0
          then {| hb_out := None; hb_closed := None; hb_sent := hb_sent st |}
          else st
      end
  end.

Definition hb_run (T : Z) (st : hb) (evs : list hbev) : hb := fold_left (hb_step T) evs st.

(* ---- the scripted-peer simulation the correspondence check runs:
   ticks at 0, I, 2I, .. (first tick immediately, MissedTickBehavior::Delay with instantaneous work);
   the k-th request is answered script[k] ms after it was sent (None / beyond the script: never);
   observation ends at H. Arrivals are kept sorted; an arrival at the instant of a tick is taken first
   (generated cases avoid such ties, except the causal one: delay 0, which arrives after its own tick). *)
Fixpoint hb_ins_sorted (a : Z) (l : list Z) : list Z :=
  match l with
  | [] => [a]
  | b :: r => if a <? b then a :: l else b :: hb_ins_sorted a r
  end.

Fixpoint hb_sim_loop (fuel : nat) (I T H : Z) (script : list (option Z)) (k : nat) (nt : Z)
         (arr : list Z) (st : hb) : hb :=
  match fuel with
  | O => st
  | S f =>
    match hb_closed st with
    | Some _ => st
    | None =>
      (* the next event is the earliest pending arrival if it is due before (or at) the next tick *)
      match (match arr with a :: _ => if a <=? nt then Some a else None | [] => None end) with
      | Some a =>
          if a <=? H then hb_sim_loop f I T H script k nt (tl arr) (hb_step T st (HResp a))
          else hb_expire T st H
      | None =>
          if nt <=? H then
            let st' := hb_step T st (HTick nt) in
            match hb_closed st' with
            | Some _ => st'
            | None =>
                let arr' := match nth_error script k with
                            | Some (Some d) => hb_ins_sorted (nt + d) arr
                            | _ => arr
                            end in
                hb_sim_loop f I T H script (S k) (nt + I) arr' st'
            end
          else hb_expire T st H
      end
    end
  end.

Definition hb_sim (I T H : Z) (script : list (option Z)) : hb :=
  hb_sim_loop (2 * (Z.to_nat (H / Z.max 1 I) + 2)) I T H script 0 0 [] hb_init.
