(* HeartbeatStall.v -- the liveness monitor when its own transport write may never return.
   The heartbeat task of session.rs sends the keep-alive request with a plain `write_control_frame(..).await` inside its
   loop. Model/Heartbeat.v treats that write as instantaneous. Here a tick carries a flag: `true` = the write of this tick
   never completes (the transport is full and the peer no longer reads, or the writer mutex is held by such a write).
   From then on the task is inside that await: it handles no tick, no response, no deadline. Executable Gallina only. *)
From Coq Require Import List ZArith Bool.
From AnyTLS Require Import Generated Pool Heartbeat.
Import ListNotations.
Open Scope Z_scope.

Record hbw := { w_hb : hb; w_blocked : bool }.
Definition hbw_init : hbw := {| w_hb := hb_init; w_blocked := false |}.

(* an event together with "the write this tick performs never returns" (ignored for responses) *)
Definition hbw_step (T : Z) (st : hbw) (ev : hbev * bool) : hbw :=
  if w_blocked st then st
  else
    let h := hb_step T (w_hb st) (fst ev) in
    match fst ev, hb_closed h with
    | HTick _, None => {| w_hb := h; w_blocked := snd ev |}
    | _, _ => {| w_hb := h; w_blocked := false |}
    end.

Definition hbw_run (T : Z) (st : hbw) (evs : list (hbev * bool)) : hbw := fold_left (hbw_step T) evs st.

(* the clock reaches t: a blocked task does not examine its deadline *)
Definition hbw_expire (T : Z) (st : hbw) (t : Z) : hbw :=
  if w_blocked st then st else {| w_hb := hb_expire T (w_hb st) t; w_blocked := false |}.
