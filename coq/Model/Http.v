(* Http.v -- M7: the HTTP front-end, src/client/http_proxy.rs, translated function by function.
     find_header_end        = fn find_header_end            (windows(4).position(== "\r\n\r\n") + 4)
     read_header            = the loop of fn read_http_header over the list of chunks its `read`s return
     parse_http_request     = fn parse_http_request
     determine_target       = fn determine_target
     split_host_port        = fn split_host_port            (never returns HErr)
     build_forward_request  = fn build_forward_request      (never returns HErr)
     handle                 = fn handle_http_proxy_connection: what is sent where and in which order,
                              with the outcome of `create_proxy_stream` as an argument
   Strings are byte strings (HttpText.v; proved domain: ASCII).  The second half of the file is the
   specification side of C17: abstract syntax `hreq`, `render`, the well-formedness predicate `wf_req`,
   `spec_target`, `origin_form`.  Executable Gallina only. *)
From AnyTLS Require Export Bytes Generated HttpText.
Open Scope N_scope.

Inductive hres (A : Type) := HOk (a : A) | HErr.
Arguments HOk {A} a.
Arguments HErr {A}.

(* ---- literals of http_proxy.rs (spelled out; HttpText.bs gives the same lists, see HttpProofs.lit_ok) ---- *)
Definition k_crlf : bytes := [13; 10].
Definition k_connect : bytes := [67; 79; 78; 78; 69; 67; 84].                 (* "CONNECT" *)
Definition k_host_colon : bytes := [104; 111; 115; 116; 58].                 (* "host:" *)
Definition k_http : bytes := [104; 116; 116; 112; 58; 47; 47].               (* "http://" *)
Definition k_https : bytes := [104; 116; 116; 112; 115; 58; 47; 47].         (* "https://" *)
Definition k_scheme_sep : bytes := [58; 47; 47].                             (* "://" *)
Definition k_http11 : bytes := [72; 84; 84; 80; 47; 49; 46; 49].             (* "HTTP/1.1" *)
Definition k_host_sp : bytes := [72; 111; 115; 116; 58; 32].                 (* "Host: " *)
Definition c_colon : N := 58.
Definition c_slash : N := 47.
Definition c_qmark : N := 63.
Definition c_star : N := 42.
Definition c_lbr : N := 91.
Definition c_rbr : N := 93.
Definition c_sp : N := 32.

(* ---- fn find_header_end ---- *)
Definition find_header_end (b : bytes) : option N :=
  match h_find http_terminator b with
  | Some i => Some (i + lenN http_terminator)
  | None => None
  end.

(* ---- fn read_http_header: `chunks` = what the successive `stream.read(&mut tmp)` calls return
        (an empty chunk = read returned 0 = the peer closed); after the list: `eof` = closed, else still waiting.
        RhOk header rest remaining: remaining = the chunks not read by the loop. ---- *)
Inductive hrh := RhOk (h rest : bytes) (remaining : list bytes) | RhTooLarge | RhClosed | RhPending (buf : bytes).

Fixpoint read_header (buf : bytes) (chunks : list bytes) (eof : bool) : hrh :=
  match chunks with
  | [] => if eof then RhClosed else RhPending buf
  | c :: cs =>
      if h_nil c then RhClosed
      else
        let buf' := buf ++ c in
        match find_header_end buf' with
        | Some e => if e <=? http_max_header then RhOk (takeN e buf') (dropN e buf') cs else RhTooLarge
        | None => if http_max_header <? lenN buf' then RhTooLarge else read_header buf' cs eof
        end
  end.

(* a TCP segment of any size reaches the loop in reads of at most http_read_chunk bytes *)
Fixpoint rechunk_fuel (fuel : nat) (n : N) (s : bytes) : list bytes :=
  match fuel with
  | O => [s]
  | S k => if lenN s <=? n then [s] else takeN n s :: rechunk_fuel k n (dropN n s)
  end.
Definition rechunk (n : N) (s : bytes) : list bytes :=
  if h_nil s then [] else if n =? 0 then [s] else rechunk_fuel (length s) n s.
Definition tcp_reads (segments : list bytes) : list bytes := flat_map (rechunk http_read_chunk) segments.

(* ---- fn split_host_port ---- *)
Definition clean_host (s : bytes) : bytes := h_trim_matches c_rbr (h_trim_matches c_lbr (h_trim s)).

Definition split_host_port (value : bytes) (default : N) : bytes * N :=
  match h_rfind_byte c_colon value with
  | Some idx =>
      if h_contains_byte c_colon (takeN idx value) && negb (h_contains_byte c_rbr value)
      then (value, default)
      else
        let host_part := takeN idx value in
        let port_part := dropN (idx + 1) value in
        if h_nil port_part then (clean_host host_part, default)
        else match h_parse_u16 port_part with
             | Some p => (clean_host host_part, p)
             | None => (clean_host value, default)
             end
  | None => (clean_host value, default)
  end.

(* ---- fn determine_target ---- *)
Definition is_host_line (l : bytes) : bool := h_starts_with k_host_colon (h_to_lower l).

Fixpoint find_host_header (hs : list bytes) : option bytes :=
  match hs with
  | [] => None
  | l :: r => if is_host_line l then Some (h_trim (dropN 5 l)) else find_host_header r
  end.

Definition is_authority_end (c : N) : bool := (c =? c_slash) || (c =? c_qmark).

Definition determine_target (method target : bytes) (headers : list bytes)
  : hres (bytes * N * bytes * bool) :=
  if h_eq_ignore_case method k_connect then
    let '(h, p) := split_host_port target http_default_port_connect in HOk (h, p, [], true)
  else
    let host_header := find_host_header headers in
    let lower := h_to_lower target in
    let is_http := h_starts_with k_http lower in
    let is_https := h_starts_with k_https lower in
    let '(host, port, path) :=
      if is_http || is_https then
        let without_scheme :=
          match h_find k_scheme_sep target with
          | Some pos => dropN (pos + 3) target
          | None => target
          end in
        let '(host, path) :=
          match h_find_if is_authority_end without_scheme with
          | Some pos => (takeN pos without_scheme, dropN pos without_scheme)
          | None => (without_scheme, [c_slash])
          end in
        (host, (if is_https then http_default_port_https else http_default_port_http), path)
      else
        match host_header with
        | Some h => (h, http_default_port_http, target)
        | None => ([], http_default_port_http, target)
        end in
    if h_nil host then HErr
    else
      let '(host_only, port_resolved) := split_host_port host port in
      let path' :=
        if h_starts_with [c_slash] path || h_starts_with [c_star] path then path else c_slash :: path in
      HOk (host_only, port_resolved, path', false).

(* ---- fn parse_http_request ---- *)
Record hparsed := {
  hp_method : bytes; hp_version : bytes; hp_host : bytes; hp_port : N; hp_path : bytes;
  hp_connect : bool; hp_headers : list bytes; hp_body : bytes }.

Definition parse_http_request (header body : bytes) : hres hparsed :=
  match h_split_crlf header with
  | [] => HErr
  | request_line :: lines =>
      match h_split_whitespace request_line with
      | method :: target :: rest =>
          let version := match rest with v :: _ => v | [] => k_http11 end in
          let header_lines := filter (fun l => negb (h_nil l)) lines in
          match determine_target method target header_lines with
          | HErr => HErr
          | HOk (host, port, path, is_connect) =>
              HOk {| hp_method := method; hp_version := version; hp_host := host; hp_port := port;
                    hp_path := path; hp_connect := is_connect; hp_headers := header_lines; hp_body := body |}
          end
      | _ => HErr
      end
  end.

(* ---- fn build_forward_request ---- *)
Definition host_header_value (host : bytes) (port : N) : bytes :=
  let h := if h_contains_byte c_colon host then c_lbr :: host ++ [c_rbr] else host in
  if (port =? 80) || (port =? 443) then h else h ++ c_colon :: h_dec port.

Definition host_line_out (host : bytes) (port : N) : bytes :=
  k_host_sp ++ host_header_value host port ++ k_crlf.

Definition rewrite_line (hv : bytes) (l : bytes) : bytes :=
  if h_nil l then [] else if is_host_line l then hv else l ++ k_crlf.

Definition build_forward_request (r : hparsed) : bytes :=
  let hv := host_line_out (hp_host r) (hp_port r) in
  (hp_method r ++ c_sp :: (if h_nil (hp_path r) then [c_slash] else hp_path r) ++ c_sp :: hp_version r ++ k_crlf)
  ++ concat (map (rewrite_line hv) (hp_headers r))
  ++ (if existsb is_host_line (hp_headers r) then [] else hv)
  ++ k_crlf.

(* ---- fn handle_http_proxy_connection: observable events, in order.
        EvOpen h p   : client.create_proxy_stream((h, p)) is called; `open_ok` is its outcome
        EvReply code : the proxy's own reply to the HTTP client (200 Connection Established / 502 Bad Gateway)
        EvSend b     : one session.write_data_frame(stream, b)
        Nothing at all is sent when the header is not obtained or does not parse (the connection is dropped). ---- *)
Inductive hev := EvOpen (host : bytes) (port : N) | EvReply (code : N) | EvSend (b : bytes).

(* the client-to-proxy forwarding loop: one write per read until a read returns 0 *)
Fixpoint fwd_loop (chunks : list bytes) : list hev :=
  match chunks with
  | [] => []
  | c :: cs => if h_nil c then [] else EvSend c :: fwd_loop cs
  end.

Definition opt_send (b : bytes) : list hev := if h_nil b then [] else [EvSend b].

Definition handle (chunks : list bytes) (eof : bool) (open_ok : bool) : list hev :=
  match read_header [] chunks eof with
  | RhOk h rest remaining =>
      match parse_http_request h rest with
      | HErr => []
      | HOk r =>
          EvOpen (hp_host r) (hp_port r) ::
          (if open_ok then
             (if hp_connect r then [EvReply http_reply_connect_ok] else [EvSend (build_forward_request r)])
             ++ opt_send (hp_body r) ++ fwd_loop remaining
           else [EvReply http_reply_open_failed])
      end
  | _ => []
  end.

Fixpoint sent_bytes (t : list hev) : bytes :=
  match t with
  | [] => []
  | EvSend b :: t' => b ++ sent_bytes t'
  | _ :: t' => sent_bytes t'
  end.

(* =====================================================================================================
   Specification side (C17): abstract syntax of a proxy request, its wire form, well-formedness. *)

Inductive hostname := HName (s : bytes) | HV6 (s : bytes).          (* reg-name or IPv4 | bracketed IP literal *)
Record authority := { au_host : hostname; au_port : option (list N) }.  (* port: decimal digits (values 0..9), may be empty *)

Inductive rtarget :=
| TAuthority (a : authority)                                          (* CONNECT host:port *)
| TAbsolute (https : bool) (scheme : bytes) (a : authority) (pq : bytes)  (* scheme "://" authority path-and-query *)
| TOrigin (path : bytes).                                             (* /path?query  or  * *)

(* the Host header field: name in any spelling of "host", optional white space around the value *)
Record host_hdr := { hh_name : bytes; hh_pre : bytes; hh_auth : authority; hh_post : bytes }.

Record hreq := {
  r_method : bytes; r_target : rtarget; r_version : bytes;
  r_before : list bytes;            (* header lines before the Host line (all lines when there is none) *)
  r_host : option host_hdr;
  r_after : list bytes;             (* header lines after the Host line *)
  r_body : bytes }.                 (* bytes that follow the header block *)

Definition digits_text (ds : list N) : bytes := map (fun d => 48 + d) ds.
Definition digits_value (ds : list N) : N := fold_left (fun acc d => acc * 10 + d) ds 0.

Definition render_host (h : hostname) : bytes :=
  match h with HName s => s | HV6 s => c_lbr :: s ++ [c_rbr] end.
Definition render_auth (a : authority) : bytes :=
  render_host (au_host a) ++ match au_port a with Some ds => c_colon :: digits_text ds | None => [] end.
Definition render_target (t : rtarget) : bytes :=
  match t with
  | TAuthority a => render_auth a
  | TAbsolute _ sch a pq => sch ++ k_scheme_sep ++ render_auth a ++ pq
  | TOrigin p => p
  end.
Definition render_host_line (hh : host_hdr) : bytes :=
  hh_name hh ++ c_colon :: hh_pre hh ++ render_auth (hh_auth hh) ++ hh_post hh.
Definition header_lines (r : hreq) : list bytes :=
  r_before r ++ match r_host r with Some hh => render_host_line hh :: r_after r | None => r_after r end.
Definition render_lines (ls : list bytes) : bytes := concat (map (fun l => l ++ k_crlf) ls).
Definition render_head (r : hreq) : bytes :=
  (r_method r ++ c_sp :: render_target (r_target r) ++ c_sp :: r_version r ++ k_crlf)
  ++ render_lines (header_lines r) ++ k_crlf.
Definition render (r : hreq) : bytes := render_head r ++ r_body r.

(* --- what the request means --- *)
Definition host_text (h : hostname) : bytes := match h with HName s => s | HV6 s => s end.
Definition auth_port (a : authority) (default : N) : N :=
  match au_port a with Some (d :: ds) => digits_value (d :: ds) | _ => default end.
Definition auth_target (a : authority) (default : N) : bytes * N := (host_text (au_host a), auth_port a default).

Definition is_connect_req (r : hreq) : bool := match r_target r with TAuthority _ => true | _ => false end.

Definition spec_target (r : hreq) : option (bytes * N) :=
  match r_target r with
  | TAuthority a => Some (auth_target a 443)
  | TAbsolute https _ a _ => Some (auth_target a (if https then 443 else 80))
  | TOrigin _ => match r_host r with Some hh => Some (auth_target (hh_auth hh) 80) | None => None end
  end.

Definition spec_path (r : hreq) : bytes :=
  match r_target r with
  | TAuthority _ => []
  | TAbsolute _ _ _ pq =>
      match pq with
      | [] => [c_slash]
      | c :: _ => if c =? c_slash then pq else c_slash :: pq
      end
  | TOrigin p => p
  end.

(* the request as the origin server must receive it: same method, origin-form target, same version,
   same header lines in the same order, the Host line (in place; appended when there was none) normalised to
   `Host: host[:port]` with the port omitted when it is 80 or 443 *)
Definition norm_host_hdr (host : hostname) (port : N) : host_hdr :=
  {| hh_name := [72; 111; 115; 116]; hh_pre := [c_sp];
     hh_auth := {| au_host := host;
                   au_port := if (port =? 80) || (port =? 443) then None
                             else Some (map (fun c => c - 48) (h_dec port)) |};
     hh_post := [] |}.

Definition target_authority (r : hreq) : option (authority * N) :=
  match r_target r with
  | TAuthority a => Some (a, 443)
  | TAbsolute https _ a _ => Some (a, if https then 443 else 80)
  | TOrigin _ => match r_host r with Some hh => Some (hh_auth hh, 80) | None => None end
  end.

Definition origin_form (r : hreq) : hreq :=
  match target_authority r with
  | None => r
  | Some (a, default) =>
      let hh := norm_host_hdr (au_host a) (auth_port a default) in
      match r_host r with
      | Some _ =>
          {| r_method := r_method r; r_target := TOrigin (spec_path r); r_version := r_version r;
             r_before := r_before r; r_host := Some hh; r_after := r_after r; r_body := r_body r |}
      | None =>
          {| r_method := r_method r; r_target := TOrigin (spec_path r); r_version := r_version r;
             r_before := r_before r ++ r_after r; r_host := Some hh; r_after := []; r_body := r_body r |}
      end
  end.

(* --- well-formedness (boolean) --- *)
Definition no_byte (c : N) (s : bytes) : bool := negb (h_contains_byte c s).
Definition tokenb (s : bytes) : bool :=                       (* non-empty, ASCII, no white space (so no CR / LF) *)
  negb (h_nil s) && forallb (fun c => negb (h_is_ws c) && (c <? 128)) s.
Definition host_charb (c : N) : bool :=
  negb (h_is_ws c) && (c <? 128) && negb (c =? c_colon) && negb (c =? c_slash) && negb (c =? c_qmark)
  && negb (c =? c_lbr) && negb (c =? c_rbr).
Definition v6_charb (c : N) : bool :=
  negb (h_is_ws c) && (c <? 128) && negb (c =? c_slash) && negb (c =? c_qmark)
  && negb (c =? c_lbr) && negb (c =? c_rbr).
Definition wf_hostb (h : hostname) : bool :=
  match h with
  | HName s => negb (h_nil s) && forallb host_charb s
  | HV6 s => h_contains_byte c_colon s && forallb v6_charb s
  end.
Definition wf_digitsb (ds : list N) : bool := forallb (fun d => d <? 10) ds && (digits_value ds <=? 65535).
Definition wf_authb (a : authority) : bool :=
  wf_hostb (au_host a) && match au_port a with Some ds => wf_digitsb ds | None => true end.
Definition owsb (s : bytes) : bool := forallb (fun c => (c =? 32) || (c =? 9)) s.
Definition wf_host_hdrb (hh : host_hdr) : bool :=
  bytes_eqb (h_to_lower (hh_name hh)) [104; 111; 115; 116] && owsb (hh_pre hh) && owsb (hh_post hh)
  && wf_authb (hh_auth hh).
(* any other header line: non-empty, ASCII, no CR, no LF, not a Host line *)
Definition plain_lineb (l : bytes) : bool :=
  negb (h_nil l) && forallb (fun c => negb (c =? 13) && negb (c =? 10) && (c <? 128)) l && negb (is_host_line l).
Definition wf_pqb (pq : bytes) : bool :=
  forallb (fun c => negb (h_is_ws c) && (c <? 128)) pq
  && match pq with [] => true | c :: _ => is_authority_end c end.
Definition wf_schemeb (https : bool) (sch : bytes) : bool :=
  bytes_eqb (h_to_lower sch) (if https then [104; 116; 116; 112; 115] else [104; 116; 116; 112]).
Definition wf_targetb (r : hreq) : bool :=
  match r_target r with
  | TAuthority a => h_eq_ignore_case (r_method r) k_connect && wf_authb a
  | TAbsolute https sch a pq =>
      negb (h_eq_ignore_case (r_method r) k_connect) && wf_schemeb https sch && wf_authb a && wf_pqb pq
  | TOrigin p =>
      negb (h_eq_ignore_case (r_method r) k_connect) && tokenb p
      && (h_starts_with [c_slash] p || h_starts_with [c_star] p)
      && match r_host r with Some _ => true | None => false end
  end.
Definition wf_req (r : hreq) : bool :=
  tokenb (r_method r) && tokenb (r_version r) && wf_targetb r
  && forallb plain_lineb (r_before r) && forallb plain_lineb (r_after r)
  && match r_host r with Some hh => wf_host_hdrb hh | None => true end.

(* what the handler computes from the bytes of a rendered request before any I/O (tested composition) *)
Definition forward_of (r : hreq) : hres (bytes * N * bool * bytes) :=
  match parse_http_request (render_head r) (r_body r) with
  | HErr => HErr
  | HOk p => HOk (hp_host p, hp_port p, hp_connect p, if hp_connect p then [] else build_forward_request p)
  end.
