(* HttpText.v -- the Rust `str` / slice functions used by src/client/http_proxy.rs, on byte strings.
   Domain: ASCII (every byte < 128).  There `str` indices are byte indices, `char` = byte, and
   `char::is_whitespace` is exactly { \t \n \x0B \x0C \r ' ' } (Rust additionally treats U+0085, U+00A0,
   U+1680, U+2000-200A, U+2028/9, U+202F, U+205F, U+3000 as white space: outside the proved domain,
   exercised by the correspondence check by outcome class only).
   Executable Gallina only.  Names carry the prefix h_ (package "http"). *)
From Coq Require Import String Ascii.
From AnyTLS Require Export Bytes.
Open Scope N_scope.

(* ASCII literal -> bytes (used for constants in examples and drivers; the model constants are spelled out) *)
Fixpoint bs (s : string) : bytes :=
  match s with
  | EmptyString => []
  | String a r => N_of_ascii a :: bs r
  end.

Definition h_nil {A} (l : list A) : bool := match l with [] => true | _ => false end.

Definition h_ascii (s : bytes) : bool := forallb (fun c => c <? 128) s.

(* char::is_whitespace restricted to ASCII *)
Definition h_is_ws (c : N) : bool := ((9 <=? c) && (c <=? 13)) || (c =? 32).

(* str::starts_with(&str) / strip_prefix *)
Fixpoint h_starts_with (p s : bytes) : bool :=
  match p, s with
  | [], _ => true
  | x :: p', y :: s' => (x =? y) && h_starts_with p' s'
  | _ :: _, [] => false
  end.

Fixpoint h_strip_prefix (p s : bytes) : option bytes :=
  match p, s with
  | [], _ => Some s
  | x :: p', y :: s' => if x =? y then h_strip_prefix p' s' else None
  | _ :: _, [] => None
  end.

(* str::find(&str): byte index of the first occurrence; slice::windows(n).position(== pat) for n = |pat| > 0 *)
Fixpoint h_find (p s : bytes) : option N :=
  if h_starts_with p s then Some 0
  else match s with
       | [] => None
       | _ :: s' => match h_find p s' with Some i => Some (N.succ i) | None => None end
       end.

(* str::find(char) / find(|c| ..) *)
Fixpoint h_find_if (f : N -> bool) (s : bytes) : option N :=
  match s with
  | [] => None
  | x :: s' => if f x then Some 0
               else match h_find_if f s' with Some i => Some (N.succ i) | None => None end
  end.

(* str::rfind(char) *)
Fixpoint h_rfind_byte (c : N) (s : bytes) : option N :=
  match s with
  | [] => None
  | x :: s' => match h_rfind_byte c s' with
               | Some i => Some (N.succ i)
               | None => if x =? c then Some 0 else None
               end
  end.

(* str::contains(char) *)
Definition h_contains_byte (c : N) (s : bytes) : bool := existsb (fun x => x =? c) s.

(* str::split("\r\n"): all pieces, empty ones included; matches are found left to right, non-overlapping *)
Fixpoint h_split_crlf (s : bytes) : list bytes :=
  match s with
  | [] => [[]]
  | x :: s' =>
      match s' with
      | y :: s'' =>
          if (x =? 13) && (y =? 10) then [] :: h_split_crlf s''
          else match h_split_crlf s' with
               | l :: ls => (x :: l) :: ls
               | [] => [[x]]
               end
      | [] => [[x]]
      end
  end.

(* str::split_whitespace: maximal runs of non-white-space.
   h_ws_aux s = (the token that starts at the head of s (empty if s starts with white space), the later tokens) *)
Fixpoint h_ws_aux (s : bytes) : bytes * list bytes :=
  match s with
  | [] => ([], [])
  | x :: s' =>
      let '(t, ts) := h_ws_aux s' in
      if h_is_ws x then ([], if h_nil t then ts else t :: ts) else (x :: t, ts)
  end.

Definition h_split_whitespace (s : bytes) : list bytes :=
  let '(t, ts) := h_ws_aux s in if h_nil t then ts else t :: ts.

(* trim_start_matches / trim_end_matches / trim_matches for a char predicate; str::trim = predicate is_whitespace *)
Fixpoint h_trim_start_by (f : N -> bool) (s : bytes) : bytes :=
  match s with
  | [] => []
  | x :: s' => if f x then h_trim_start_by f s' else s
  end.

Definition h_trim_end_by (f : N -> bool) (s : bytes) : bytes := rev (h_trim_start_by f (rev s)).
Definition h_trim_by (f : N -> bool) (s : bytes) : bytes := h_trim_end_by f (h_trim_start_by f s).
Definition h_trim (s : bytes) : bytes := h_trim_by h_is_ws s.
Definition h_trim_matches (c : N) (s : bytes) : bytes := h_trim_by (fun x => x =? c) s.

(* u8::to_ascii_lowercase, str::to_ascii_lowercase, str::eq_ignore_ascii_case *)
Definition h_lower (c : N) : N := if (65 <=? c) && (c <=? 90) then c + 32 else c.
Definition h_to_lower (s : bytes) : bytes := map h_lower s.
Definition h_eq_ignore_case (a b : bytes) : bool := bytes_eqb (h_to_lower a) (h_to_lower b).

(* str::parse::<u16>: one optional '+', then at least one decimal digit, Err on overflow (by value:
   leading zeros are fine), '-' rejected *)
Definition h_digit (c : N) : option N := if (48 <=? c) && (c <=? 57) then Some (c - 48) else None.

Fixpoint h_parse_digits (lim acc : N) (s : bytes) : option N :=
  match s with
  | [] => Some acc
  | c :: s' =>
      match h_digit c with
      | None => None
      | Some d => let v := acc * 10 + d in if v <=? lim then h_parse_digits lim v s' else None
      end
  end.

Definition h_parse_uint (lim : N) (s : bytes) : option N :=
  let s' := match s with c :: t => if c =? 43 then t else s | [] => s end in
  if h_nil s' then None else h_parse_digits lim 0 s'.

Definition h_parse_u16 (s : bytes) : option N := h_parse_uint 65535 s.

(* u16 (any unsigned) Display: canonical decimal. fuel = number of bits + 1 >= number of decimal digits *)
Fixpoint h_dec_fuel (fuel : nat) (n : N) (acc : bytes) : bytes :=
  match fuel with
  | O => acc
  | S k => let acc' := (48 + n mod 10) :: acc in
           if n / 10 =? 0 then acc' else h_dec_fuel k (n / 10) acc'
  end.

Definition h_dec (n : N) : bytes := h_dec_fuel (S (N.size_nat n)) n [].
