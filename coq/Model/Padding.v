(* Padding.v -- padding scheme language, size generation, the shaping loop, the authentication
   preamble, the reference acceptor of C05 and the process-level model of C19.
   Executable Gallina only (proofs: Proofs/Padding*.v; pinned pre-fix behaviour: Legacy/PaddingLegacy.v).

   Rust (src/...)                                   here
   padding/factory.rs  PaddingFactory::new          factory_new
                       generate_record_payload_sizes  sizes (line_entries sc pkt) draws
                         one `rand::random_range(min..=max)` per non-degenerate range = one element of
                         the explicit argument `draws`
                       BUILTIN_FACTORY/UPDATED_FACTORY, default, updated, update_default
                                                    proc, proc_default, proc_update
   session/session.rs  write_with_padding           write_packet (shape_loop = the `for size in pkt_sizes` loop)
                       write_frame (buffering)      sess_write_frame
                       start_client (Settings)      client_settings / sess_start
                       Settings arm (server)        server_on_announce
                       UpdatePaddingScheme arm      on_update
   util/auth.rs        send_authentication          auth_writes
   client/client.rs    Client::session_padding      session_padding, new_session

   A transport write is an element of a `list bytes`; `wr b` is `write_all(b)`: no transport event for an
   empty slice, one write otherwise (the recording transport accepts a whole slice per poll_write). *)
From AnyTLS Require Export Bytes Cmd Generated Frame Text.
Open Scope N_scope.

(* ------------------------------------------------------------------ scheme *)
Definition key_stop : bytes := [115; 116; 111; 112].   (* "stop" *)
Definition lit_c : bytes := [99].                       (* "c" *)

Record scheme := { sc_map : smap; sc_raw : bytes; sc_stop : N }.

Definition factory_new (raw : bytes) : option scheme :=
  let m := parse_map raw in
  match map_get key_stop m with
  | None => None
  | Some v => match parse_u32 v with
              | None => None
              | Some s => Some {| sc_map := m; sc_raw := raw; sc_stop := s |}
              end
  end.

Inductive entry := ECheck | ERange (lo hi : Z).

Definition or0 (o : option Z) : Z := match o with Some z => z | None => 0%Z end.

(* one comma-separated part of a scheme line; `bound` = MAX_RECORD_PAYLOAD_SIZE (None on the pinned tree) *)
Definition parse_entry (bound : option Z) (part : bytes) : option entry :=
  let p := trim part in
  if bytes_eqb p lit_c then Some ECheck
  else match split_once 45 p with
       | None => None
       | Some (a, b) =>
           let lo := or0 (parse_i64 (trim a)) in
           let hi := or0 (parse_i64 (trim b)) in
           if ((lo <=? 0) || (hi <=? 0))%Z then None
           else
             let mn := Z.min lo hi in
             let mx := Z.max lo hi in
             match bound with
             | Some bd => if (bd <? mx)%Z then None else Some (ERange mn mx)
             | None => Some (ERange mn mx)
             end
       end.

Definition spec_entries (bound : option Z) (spec : bytes) : list entry :=
  filter_map (parse_entry bound) (split 44 spec).

Definition line_entries_gen (bound : option Z) (sc : scheme) (pkt : N) : list entry :=
  match map_get (u32_to_string pkt) (sc_map sc) with
  | None => []
  | Some spec => spec_entries bound spec
  end.

Definition line_entries : scheme -> N -> list entry := line_entries_gen padding_size_bound.

(* ------------------------------------------------------------------ sizes and casts *)
Definition i32_of (z : Z) : Z := ((z + 2147483648) mod 4294967296 - 2147483648)%Z.   (* `as i32` *)
Definition usize_of_i32 (z : Z) : N :=                                                (* `as usize` *)
  Z.to_N (if (z <? 0)%Z then (z + 18446744073709551616)%Z else z).
Definition isize_max : N := 9223372036854775807.

Fixpoint sizes (es : list entry) (draws : list Z) : list Z :=
  match es with
  | [] => []
  | ECheck :: es' => check_mark :: sizes es' draws
  | ERange lo hi :: es' =>
      if (lo =? hi)%Z then i32_of lo :: sizes es' draws
      else match draws with
           | d :: ds => i32_of d :: sizes es' ds
           | [] => i32_of lo :: sizes es' []
           end
  end.

(* the draws handed to `sizes` are what random_range may return *)
Fixpoint draws_ok (es : list entry) (draws : list Z) : Prop :=
  match es with
  | [] => True
  | ECheck :: es' => draws_ok es' draws
  | ERange lo hi :: es' =>
      if (lo =? hi)%Z then draws_ok es' draws
      else match draws with
           | d :: ds => (lo <= d <= hi)%Z /\ draws_ok es' ds
           | [] => False
           end
  end.

(* ------------------------------------------------------------------ the shaping loop *)
Definition wr (b : bytes) : list bytes := match b with [] => [] | _ => [b] end.

Definition is_nil {A} (l : list A) : bool := match l with [] => true | _ => false end.

(* a cmdWaste frame as write_with_padding builds it: length field `lf` (the `as u16` of n), n zero bytes *)
Definition waste_bytes (lf n : N) : bytes := byte_of_cmd Waste :: be32 0 ++ be16 lf ++ zeros n.

Inductive shaped := Crash | Writes (ws : list bytes).

Definition and_then (w : list bytes) (k : shaped) : shaped :=
  match k with Crash => Crash | Writes ws => Writes (w ++ ws) end.

Fixpoint shape_loop (szs : list Z) (buf : bytes) : shaped :=
  match szs with
  | [] => Writes (wr buf)                                     (* trailing remainder *)
  | s :: rest =>
      if (s =? check_mark)%Z then
        (if is_nil buf then Writes [] else shape_loop rest buf)
      else
        let sz := usize_of_i32 s in
        let remain := lenN buf in
        if sz <? remain then                                   (* payload only *)
          and_then (wr (takeN sz buf)) (shape_loop rest (dropN sz buf))
        else if 0 <? remain then                               (* payload + padding *)
          let pl := sz - (remain + header_size) in             (* saturating_sub *)
          if 0 <? pl then
            if isize_max <? header_size + pl then Crash        (* capacity overflow *)
            else and_then (wr (buf ++ waste_bytes (u16_of pl) pl)) (shape_loop rest [])
          else and_then (wr buf) (shape_loop rest [])
        else                                                   (* padding only *)
          if isize_max <? header_size + sz then Crash          (* add overflow / capacity overflow *)
          else and_then (wr (waste_bytes (u16_of sz) sz)) (shape_loop rest [])
  end.

(* packet index used for the write that finds `counter` in pkt_counter: fetch_add(1) then wrapping_add *)
Definition pkt_index (counter : N) : N := u32_of (counter + pkt_index_offset).

(* write_with_padding, parameterised by the numbering and the size generator so that Legacy can reuse it.
   Result: what reaches the transport before the flush, and the new counter value *)
Definition write_packet_gen (idx : N -> N) (entries_of : scheme -> N -> list entry)
           (pads : bool) (sc : scheme) (counter : N) (draws : list Z) (buf : bytes) : shaped * N :=
  if negb pads then (Writes (wr buf), counter)
  else
    let pkt := idx counter in
    let counter' := u32_of (counter + 1) in
    if sc_stop sc <=? pkt then (Writes (wr buf), counter')
    else
      match sizes (entries_of sc pkt) draws with
      | [] => (Writes (wr buf), counter')
      | szs => (shape_loop szs buf, counter')
      end.

Definition write_packet := write_packet_gen pkt_index line_entries.

(* ------------------------------------------------------------------ session write path (sequential) *)
Record csess := { cs_client : bool; cs_scheme : scheme; cs_counter : N;
                  cs_buffering : bool; cs_buffer : bytes }.

Definition sess_new (client : bool) (sc : scheme) : csess :=
  {| cs_client := client; cs_scheme := sc;
     cs_counter := if client then client_pkt_start else server_pkt_start;
     cs_buffering := false; cs_buffer := [] |}.

Definition sess_pads (s : csess) : bool :=
  if cs_client s then client_send_padding else server_send_padding.

(* write_frame with an already encoded frame `e`: None = buffered (no transport activity) *)
Definition sess_write (s : csess) (draws : list Z) (e : bytes) : csess * option shaped :=
  if cs_buffering s then
    ({| cs_client := cs_client s; cs_scheme := cs_scheme s; cs_counter := cs_counter s;
        cs_buffering := true; cs_buffer := cs_buffer s ++ e |}, None)
  else
    let '(r, c') := write_packet (sess_pads s) (cs_scheme s) (cs_counter s) draws (cs_buffer s ++ e) in
    ({| cs_client := cs_client s; cs_scheme := cs_scheme s; cs_counter := c';
        cs_buffering := false; cs_buffer := [] |}, Some r).

Definition sess_set_buffering (s : csess) (b : bool) : csess :=
  {| cs_client := cs_client s; cs_scheme := cs_scheme s; cs_counter := cs_counter s;
     cs_buffering := b; cs_buffer := cs_buffer s |}.

Definition sess_set_scheme (s : csess) (sc : scheme) : csess :=
  {| cs_client := cs_client s; cs_scheme := sc; cs_counter := cs_counter s;
     cs_buffering := cs_buffering s; cs_buffer := cs_buffer s |}.

(* a run of packets on one session: (draws, payload) per packet; bursts in order (Crash stops the run) *)
Fixpoint run_packets (pads : bool) (sc : scheme) (counter : N) (pkts : list (list Z * bytes))
  : list shaped :=
  match pkts with
  | [] => []
  | (d, p) :: rest =>
      let '(r, c') := write_packet pads sc counter d p in
      r :: run_packets pads sc c' rest
  end.

(* ------------------------------------------------------------------ authentication preamble *)
Definition auth_writes (hash : bytes) (szs : list Z) : list bytes :=
  let first := match szs with [] => 0%Z | s :: _ => s end in
  let plen := if (first <? 0)%Z then 0 else u16_of (Z.to_N first) in
  wr hash ++ wr (be16 plen) ++ (if 0 <? plen then wr (zeros plen) else []).

(* ------------------------------------------------------------------ reference acceptor (C05) *)
(* written from the property text, range based: no knowledge of the draws.
   waste n = a padding frame carrying n zero bytes *)
Definition waste (n : N) : bytes := 0 :: be32 0 ++ be16 n ++ zeros n.

Definition in_range (lo hi x : Z) : bool := ((lo <=? x) && (x <=? hi))%Z.

Fixpoint accepts (es : list entry) (p : bytes) (ws : list bytes) : bool :=
  match es with
  | [] =>
      match p with
      | [] => is_nil ws
      | _ => match ws with [w] => bytes_eqb w p | _ => false end
      end
  | ECheck :: es' =>
      match p with
      | [] => is_nil ws                      (* stop at a check mark once no payload remains *)
      | _ => accepts es' p ws
      end
  | ERange lo hi :: es' =>
      match ws with
      | [] => false
      | w :: ws' =>
          let L := Z.of_N (lenN w) in
          let r := Z.of_N (lenN p) in
          match p with
          | [] =>                            (* padding-only record: drawn size + one frame header *)
              let s := (L - 7)%Z in
              in_range lo hi s && (s <=? 65535)%Z && bytes_eqb w (waste (Z.to_N s)) && accepts es' [] ws'
          | _ =>
              if (L <? r)%Z then            (* payload-only record of a drawn size *)
                in_range lo hi L && bytes_eqb w (takeN (lenN w) p) && accepts es' (dropN (lenN w) p) ws'
              else if (L =? r)%Z then       (* bare rest of the payload: fewer than 8 bytes of room *)
                (Z.max lo r <=? Z.min hi (r + 7))%Z && bytes_eqb w p && accepts es' [] ws'
              else                           (* payload completed with padding to the drawn size *)
                let n := (L - r - 7)%Z in
                in_range lo hi L && (0 <? n)%Z && (n <=? 65535)%Z &&
                bytes_eqb w (p ++ waste (Z.to_N n)) && accepts es' [] ws'
          end
      end
  end.

(* ------------------------------------------------------------------ process-level model (C19) *)
(* md5 of the raw scheme text is a function argument (Section variable in the proofs) *)
Definition builtin_scheme : scheme :=
  match factory_new default_scheme with
  | Some s => s
  | None => {| sc_map := []; sc_raw := default_scheme; sc_stop := 0 |}   (* unreachable: side lemma *)
  end.

Record proc := { p_builtin_made : bool;            (* BUILTIN_FACTORY initialised *)
                 p_updated : option scheme }.      (* UPDATED_FACTORY *)
Definition proc_init : proc := {| p_builtin_made := false; p_updated := None |}.

(* PaddingFactory::default() *)
Definition proc_default (p : proc) : scheme * proc :=
  match p_updated p with
  | Some s => (s, p)
  | None => (builtin_scheme, {| p_builtin_made := true; p_updated := None |})
  end.

(* PaddingFactory::update_default(raw): None = Err *)
Definition proc_update (p : proc) (raw : bytes) : option proc :=
  match factory_new raw with
  | Some f => Some {| p_builtin_made := p_builtin_made p; p_updated := Some f |}
  | None => None
  end.

(* Client::session_padding *)
Definition session_padding (p : proc) (client_scheme : scheme) : scheme :=
  match p_updated p with Some s => s | None => client_scheme end.

(* the UpdatePaddingScheme arm of handle_frame *)
Definition on_update (p : proc) (s : csess) (raw : bytes) : proc * csess :=
  if cs_client s && negb (is_nil raw) then
    match proc_update p raw with
    | Some p' => let '(d, p'') := proc_default p' in (p'', sess_set_scheme s d)
    | None => (p, s)
    end
  else (p, s).

Section WithMd5.
  Variable md5 : bytes -> bytes.

  Definition scheme_md5 (sc : scheme) : bytes := md5 (sc_raw sc).

  (* start_client: the Settings map (insertion order; the wire order is the HashMap's) *)
  Definition client_settings (sc : scheme) : smap :=
    client_settings_fixed ++ [(client_settings_md5_key, scheme_md5 sc)].

  (* the padding part of the server's Settings arm: Some raw = an UpdatePaddingScheme frame with data raw *)
  Definition server_on_announce (srv : scheme) (announced : option bytes) : option bytes :=
    match announced with
    | None => None
    | Some a => if bytes_eqb a (scheme_md5 srv) then None else Some (sc_raw srv)
    end.

  Definition server_on_settings (srv : scheme) (settings : smap) : option bytes :=
    server_on_announce srv (map_get server_settings_md5_key settings).
End WithMd5.

(* histories of one client process *)
Inductive event :=
| EvDefault                         (* somebody calls PaddingFactory::default() *)
| EvNewSession                      (* the Client opens a session *)
| EvPush (i : nat) (raw : bytes)    (* session i receives UpdatePaddingScheme raw *)
| EvSend (i : nat) (draws : list Z) (payload : bytes).   (* session i writes one packet *)

Record world := { w_proc : proc; w_client : scheme; w_sessions : list csess;
                  w_out : list (nat * shaped) }.   (* bursts, newest first, tagged with the session *)

Fixpoint upd_nth {A} (n : nat) (l : list A) (x : A) : list A :=
  match l, n with
  | [], _ => []
  | _ :: t, O => x :: t
  | h :: t, S k => h :: upd_nth k t x
  end.

Definition step (w : world) (e : event) : world :=
  match e with
  | EvDefault =>
      {| w_proc := snd (proc_default (w_proc w)); w_client := w_client w;
         w_sessions := w_sessions w; w_out := w_out w |}
  | EvNewSession =>
      {| w_proc := w_proc w; w_client := w_client w;
         w_sessions := w_sessions w ++ [sess_new true (session_padding (w_proc w) (w_client w))];
         w_out := w_out w |}
  | EvPush i raw =>
      match nth_error (w_sessions w) i with
      | None => w
      | Some s =>
          let '(p', s') := on_update (w_proc w) s raw in
          {| w_proc := p'; w_client := w_client w;
             w_sessions := upd_nth i (w_sessions w) s'; w_out := w_out w |}
      end
  | EvSend i d payload =>
      match nth_error (w_sessions w) i with
      | None => w
      | Some s =>
          match sess_write s d payload with
          | (s', Some r) =>
              {| w_proc := w_proc w; w_client := w_client w;
                 w_sessions := upd_nth i (w_sessions w) s'; w_out := (i, r) :: w_out w |}
          | (s', None) =>
              {| w_proc := w_proc w; w_client := w_client w;
                 w_sessions := upd_nth i (w_sessions w) s'; w_out := w_out w |}
          end
      end
  end.

Definition run (w : world) (h : list event) : world := fold_left step h w.

Definition world_init (p : proc) (client_scheme : scheme) : world :=
  {| w_proc := p; w_client := client_scheme; w_sessions := []; w_out := [] |}.
