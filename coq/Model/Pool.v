(* Pool.v -- M6: the client's session pool and the glue of create_stream / create_new_session.
   Stands for: src/client/session_pool.rs (get_idle_session :90-120, add_idle_session :123-144,
   cleanup_expired :152-227 = reaper copy 0, the periodic task :247-296 = reaper copy 1) and
   src/client/client.rs (create_stream :214-224, create_new_session :227-341 / the hook copy :359-383).
   Time is Z milliseconds. The comparison operators, the end of the map `get` takes from, the closed
   skips and "a new session is inserted at creation / nothing re-inserts on reuse" are taken from
   Gen/Generated.v (regenerated from the Rust source), so a changed operator changes this model.

   Session ids are 0,1,2.. in creation order. Per session:
     closed : Session::is_closed          seq : Session::seq (pool key)
     tbl    : entries in the session's stream table (Session::verif_table_sizes): one per stream ever
              opened -- nothing removes an pentry short of a received FIN or the session closing
     busy   : GHOST -- streams opened for a request and not yet finished by the application
   Ghost request bookkeeping (no counterpart in the code): pending = requests inside create_new_session,
   streams = streams opened for requests and not yet finished, active = pending + streams = requests in
   progress, peak = max active so far, hits = reuses so far.
   Executable Gallina only; proofs are in Proofs/Pool*.v. *)
From Coq Require Import List NArith ZArith Bool.
From AnyTLS Require Import Generated.
Import ListNotations.
Open Scope Z_scope.

Definition cmp_code (c : N) (a b : Z) : bool :=
  match c with
  | 0%N => a <? b | 1%N => a <=? b | 2%N => b <? a | 3%N => b <=? a
  | _ => false
  end.

Record pentry := { e_seq : N; e_sid : nat; e_since : Z }.

Record pool := {
  p_n : nat;
  p_closed : nat -> bool;
  p_seq : nat -> N;
  p_tbl : nat -> N;
  p_busy : nat -> N;
  p_idle : list pentry;          (* BTreeMap<u64, PooledSession>, ascending key *)
  p_nextseq : N;                (* client.rs SEQ_COUNTER *)
  p_dials : N;                  (* transports dialled (connector invocations) *)
  p_pending : N; p_streams : N; p_peak : N; p_hits : N
}.

(* requests in progress: those inside create_new_session plus those holding a stream *)
Definition p_active (st : pool) : N := (p_pending st + p_streams st)%N.

Record pcfg := { c_timeout : Z; c_min : N }.

(* set_seq precedes add_idle_session in both copies of create_new_session (real path, hook path); if it did not,
   add_idle_session would read the session's initial seq as the map key *)
Definition client_seq_before_add : bool :=
  client_seq_set_before_add_real && client_seq_set_before_add_hook.

Definition pupd {A} (f : nat -> A) (k : nat) (v : A) : nat -> A :=
  fun j => if Nat.eqb j k then v else f j.

Definition pool_init : pool :=
  {| p_n := 0; p_closed := fun _ => false; p_seq := fun _ => 0%N; p_tbl := fun _ => 0%N;
     p_busy := fun _ => 0%N; p_idle := []; p_nextseq := 0%N; p_dials := 0%N;
     p_pending := 0%N; p_streams := 0%N; p_peak := 0%N; p_hits := 0%N |}.

(* ---- BTreeMap::insert: ascending keys, an equal key is replaced *)
Fixpoint bt_insert (e : pentry) (l : list pentry) : list pentry :=
  match l with
  | [] => [e]
  | x :: r =>
      if (e_seq e <? e_seq x)%N then e :: l
      else if (e_seq e =? e_seq x)%N then e :: r
      else x :: bt_insert e r
  end.

(* ---- get_idle_session: try keys from one end, drop closed sessions on the way *)
Fixpoint pool_get_from (closed : nat -> bool) (r : list pentry) : option nat * list pentry :=
  match r with
  | [] => (None, [])
  | e :: r' =>
      if pool_get_skips_closed && closed (e_sid e) then pool_get_from closed r'
      else (Some (e_sid e), r')
  end.

Definition pool_get_idle (closed : nat -> bool) (idle : list pentry) : option nat * list pentry :=
  if pool_get_takes_last
  then let (o, r) := pool_get_from closed (rev idle) in (o, rev r)
  else pool_get_from closed idle.

(* ---- add_idle_session *)
Definition pool_add_idle (st_closed : nat -> bool) (seq : N) (sid : nat) (now : Z) (idle : list pentry) : list pentry :=
  if pool_add_skips_closed && st_closed sid then idle
  else bt_insert {| e_seq := seq; e_sid := sid; e_since := now |} idle.

(* ---- one pass of the reaper (copy 0 = cleanup_expired, copy 1 = the periodic task):
        returns the entries kept and the sessions to close. `now.duration_since` saturates at 0. *)
Definition pool_idle_dur (now since : Z) : Z := Z.max 0 (now - since).

Definition pool_unexpired (copy : nat) (T now since : Z) : bool :=
  cmp_code (nth copy pool_reap_unexpired_cmp 99%N) (pool_idle_dur now since) T.
Definition pool_below_min (copy : nat) (M act : N) : bool :=
  cmp_code (nth copy pool_reap_min_cmp 99%N) (Z.of_N act) (Z.of_N M).
Definition pool_reap_purges : bool := (pool_reap_purges_closed =? 2)%N.

Fixpoint pool_reap (copy : nat) (T : Z) (M : N) (now : Z) (closed : nat -> bool) (l : list pentry) (act : N)
  : list pentry * list nat :=
  match l with
  | [] => ([], [])
  | e :: l' =>
      if pool_reap_purges && closed (e_sid e) then pool_reap copy T M now closed l' act
      else if pool_unexpired copy T now (e_since e) then
        let (k, c) := pool_reap copy T M now closed l' (act + 1)%N in (e :: k, c)
      else if pool_below_min copy M act then
        let (k, c) := pool_reap copy T M now closed l' (act + 1)%N in (e :: k, c)
      else
        let (k, c) := pool_reap copy T M now closed l' act in (k, e_sid e :: c)
  end.

Definition pool_reap_pass (copy : nat) (T : Z) (M : N) (now : Z) (closed : nat -> bool) (l : list pentry)
  : list pentry * list nat :=
  if pool_reap_ascending then pool_reap copy T M now closed l 0%N
  else let (k, c) := pool_reap copy T M now closed (rev l) 0%N in (rev k, c).

(* Session::close: flag set, stream table drained *)
Definition pmemb (k : nat) (l : list nat) : bool := existsb (Nat.eqb k) l.
Definition pool_close_set (f : nat -> bool) (ids : list nat) : nat -> bool := fun j => f j || pmemb j ids.
Definition pool_drain_set (f : nat -> N) (ids : list nat) : nat -> N := fun j => if pmemb j ids then 0%N else f j.

(* ---- operations *)
Inductive poolop :=
| PAcq              (* client: create_stream up to the decision (reuse, or go on to dial) *)
| PCreate           (* client: a waiting request finishes create_new_session *)
| PDone (sid : nat) (* the application finishes one stream of session sid (ghost: the code has no such signal) *)
| PDie (sid : nat)  (* session sid dies (peer gone / closed from outside) *)
| PTick             (* the periodic reaper fires (copy 1) *)
| PCleanup          (* cleanup_expired() is called (copy 0) *)
| PNew (seq : N)    (* bare API: a session object exists, with this seq *)
| PAdd (sid : nat)  (* bare API: add_idle_session *)
| PGet.             (* bare API: get_idle_session *)

Inductive poolres :=
| QUnit | QNone
| QHit (sid : nat)    (* reused *)
| QMiss               (* waiting in create_new_session *)
| QNew (sid : nat)    (* dialled *)
| QGot (sid : nat).

Definition pool_set_idle (st : pool) (l : list pentry) : pool :=
  {| p_n := p_n st; p_closed := p_closed st; p_seq := p_seq st; p_tbl := p_tbl st; p_busy := p_busy st;
     p_idle := l; p_nextseq := p_nextseq st; p_dials := p_dials st;
     p_pending := p_pending st; p_streams := p_streams st; p_peak := p_peak st; p_hits := p_hits st |}.

Definition pool_reap_step (copy : nat) (c : pcfg) (now : Z) (st : pool) : pool :=
  let (k, cl) := pool_reap_pass copy (c_timeout c) (c_min c) now (p_closed st) (p_idle st) in
  {| p_n := p_n st; p_closed := pool_close_set (p_closed st) cl; p_seq := p_seq st;
     p_tbl := pool_drain_set (p_tbl st) cl; p_busy := p_busy st;
     p_idle := k; p_nextseq := p_nextseq st; p_dials := p_dials st;
     p_pending := p_pending st; p_streams := p_streams st; p_peak := p_peak st; p_hits := p_hits st |}.

Definition pool_step (c : pcfg) (now : Z) (st : pool) (o : poolop) : pool * poolres :=
  match o with
  | PAcq =>
      let (r, idle') := pool_get_idle (p_closed st) (p_idle st) in
      let act := (p_active st + 1)%N in    (* this request is now in progress *)
      match r with
      | Some sid =>
          let idle'' := if client_reinserts_on_reuse
                        then pool_add_idle (p_closed st) (p_seq st sid) sid now idle' else idle' in
          ({| p_n := p_n st; p_closed := p_closed st; p_seq := p_seq st;
              p_tbl := pupd (p_tbl st) sid (p_tbl st sid + 1)%N;
              p_busy := pupd (p_busy st) sid (p_busy st sid + 1)%N;
              p_idle := idle''; p_nextseq := p_nextseq st; p_dials := p_dials st;
              p_pending := p_pending st; p_streams := (p_streams st + 1)%N;
              p_peak := N.max (p_peak st) act; p_hits := (p_hits st + 1)%N |}, QHit sid)
      | None =>
          ({| p_n := p_n st; p_closed := p_closed st; p_seq := p_seq st; p_tbl := p_tbl st;
              p_busy := p_busy st; p_idle := idle'; p_nextseq := p_nextseq st;
              p_dials := (p_dials st + 1)%N;
              p_pending := (p_pending st + 1)%N; p_streams := p_streams st;
              p_peak := N.max (p_peak st) act; p_hits := p_hits st |}, QMiss)
      end
  | PCreate =>
      if (p_pending st =? 0)%N then (st, QNone) else
      let sid := p_n st in
      let seq := p_nextseq st in
      let closed' := pupd (p_closed st) sid false in
      ({| p_n := S sid; p_closed := closed'; p_seq := pupd (p_seq st) sid seq;
          p_tbl := pupd (p_tbl st) sid 1%N; p_busy := pupd (p_busy st) sid 1%N;
          p_idle := if client_adds_new_session_to_idle
                    then pool_add_idle closed' (if client_seq_before_add then seq else session_initial_seq)
                                       sid now (p_idle st)
                    else p_idle st;
          p_nextseq := (seq + 1)%N; p_dials := p_dials st;
          p_pending := (p_pending st - 1)%N; p_streams := (p_streams st + 1)%N; p_peak := p_peak st;
          p_hits := p_hits st |}, QNew sid)
  | PDone sid =>
      if (0 <? p_busy st sid)%N then
        ({| p_n := p_n st; p_closed := p_closed st; p_seq := p_seq st; p_tbl := p_tbl st;
            p_busy := pupd (p_busy st) sid (p_busy st sid - 1)%N;
            p_idle := p_idle st; p_nextseq := p_nextseq st; p_dials := p_dials st;
            p_pending := p_pending st; p_streams := (p_streams st - 1)%N; p_peak := p_peak st;
            p_hits := p_hits st |}, QUnit)
      else (st, QUnit)
  | PDie sid =>
      if Nat.ltb sid (p_n st) then
        ({| p_n := p_n st; p_closed := pupd (p_closed st) sid true; p_seq := p_seq st;
            p_tbl := pupd (p_tbl st) sid 0%N; p_busy := p_busy st;
            p_idle := p_idle st; p_nextseq := p_nextseq st; p_dials := p_dials st;
            p_pending := p_pending st; p_streams := p_streams st; p_peak := p_peak st;
            p_hits := p_hits st |}, QUnit)
      else (st, QUnit)
  | PTick => (pool_reap_step 1 c now st, QUnit)
  | PCleanup => (pool_reap_step 0 c now st, QUnit)
  | PNew seq =>
      let sid := p_n st in
      ({| p_n := S sid; p_closed := pupd (p_closed st) sid false; p_seq := pupd (p_seq st) sid seq;
          p_tbl := pupd (p_tbl st) sid 0%N; p_busy := pupd (p_busy st) sid 0%N;
          p_idle := p_idle st; p_nextseq := p_nextseq st; p_dials := p_dials st;
          p_pending := p_pending st; p_streams := p_streams st; p_peak := p_peak st;
          p_hits := p_hits st |}, QUnit)
  | PAdd sid =>
      if Nat.ltb sid (p_n st)
      then (pool_set_idle st (pool_add_idle (p_closed st) (p_seq st sid) sid now (p_idle st)), QUnit)
      else (st, QUnit)
  | PGet =>
      let (r, idle') := pool_get_idle (p_closed st) (p_idle st) in
      (pool_set_idle st idle', match r with Some sid => QGot sid | None => QNone end)
  end.

(* a history: operations with their instants *)
Definition pool_run (c : pcfg) (st : pool) (h : list (Z * poolop)) : pool :=
  fold_left (fun s x => fst (pool_step c (fst x) s (snd x))) h st.

(* the trace the correspondence check prints: per operation the result, the idle count and, per
   session, the closed flag and the stream table size *)
Definition pool_snapshot (st : pool) : N * list (bool * N) :=
  (N.of_nat (length (p_idle st)),
   map (fun k => (p_closed st k, p_tbl st k)) (seq 0 (p_n st))).

Fixpoint pool_trace (c : pcfg) (st : pool) (h : list (Z * poolop)) : list (poolres * (N * list (bool * N))) * pool :=
  match h with
  | [] => ([], st)
  | (now, o) :: h' =>
      let (st', r) := pool_step c now st o in
      let (tr, fin) := pool_trace c st' h' in
      ((r, pool_snapshot st') :: tr, fin)
  end.
