(* Reader.v -- M2: per-stream inbound queue (the mpsc channel fed by handle_frame's PSH arm)
   and StreamReader of src/session/stream_reader.rs.
     rq      = chunks sitting in the unbounded channel, oldest first
     rclosed = the sender side was dropped (stream removed from stream_receive_tx)
     rbuf    = StreamReader::reader_buffer (left-over of a partially consumed chunk)
     reof    = StreamReader::eof
   rd_read models one call of StreamReader::read with a buffer of capacity cap > 0;
   RPending = the await on the channel is not ready. *)
From AnyTLS Require Export Bytes.
Open Scope N_scope.

Record rd := { rq : list bytes; rclosed : bool; rbuf : bytes; reof : bool }.
Inductive rres := RData (b : bytes) | REof | RPending.

Definition rd_init : rd := {| rq := []; rclosed := false; rbuf := []; reof := false |}.

Definition is_nil {A} (l : list A) : bool := match l with [] => true | _ => false end.

(* tx.send(chunk): succeeds while the receiver exists (always, in the model) *)
Definition rd_push (st : rd) (c : bytes) : rd :=
  {| rq := rq st ++ [c]; rclosed := rclosed st; rbuf := rbuf st; reof := reof st |}.

(* the sender is dropped: chunks already queued stay readable *)
Definition rd_close (st : rd) : rd :=
  {| rq := rq st; rclosed := true; rbuf := rbuf st; reof := reof st |}.

(* skip empty chunks (they carry no data) *)
Fixpoint pop_nonempty (q : list bytes) : option (bytes * list bytes) :=
  match q with
  | [] => None
  | c :: q' => if is_nil c then pop_nonempty q' else Some (c, q')
  end.

Definition rd_read (st : rd) (cap : N) : rd * rres :=
  if reof st && is_nil (rbuf st) then (st, REof)
  else if negb (is_nil (rbuf st)) then
    let n := N.min (lenN (rbuf st)) cap in
    ({| rq := rq st; rclosed := rclosed st; rbuf := dropN n (rbuf st); reof := reof st |},
     RData (takeN n (rbuf st)))
  else
    match pop_nonempty (rq st) with
    | Some (c, q') =>
        let n := N.min (lenN c) cap in
        ({| rq := q'; rclosed := rclosed st; rbuf := dropN n c; reof := reof st |},
         RData (takeN n c))
    | None =>
        if rclosed st
        then ({| rq := []; rclosed := true; rbuf := []; reof := true |}, REof)
        else ({| rq := []; rclosed := false; rbuf := []; reof := reof st |}, RPending)
    end.

(* StreamReader::read_exact(n): loops read until n bytes; None = UnexpectedEof / not enough data yet.
   fuel = n + number of queued chunks bounds the number of read calls. *)
Inductive xres := XOk (b : bytes) | XEof | XPending.

Fixpoint rd_read_exact_fuel (fuel : nat) (st : rd) (need : N) (acc : bytes) : rd * xres :=
  if need =? 0 then (st, XOk acc) else
  match fuel with
  | O => (st, XPending)
  | S k =>
      match rd_read st need with
      | (st', RData b) => rd_read_exact_fuel k st' (need - lenN b) (acc ++ b)
      | (st', REof) => (st', XEof)
      | (st', RPending) => (st', XPending)
      end
  end.

Definition rd_read_exact (st : rd) (n : N) : rd * xres :=
  rd_read_exact_fuel (S (N.to_nat n) + length (rq st)) st n [].

(* everything a reader can still obtain from this state, in order *)
Definition rd_pending_bytes (st : rd) : bytes := rbuf st ++ concat (rq st).

(* a reader that issues reads with the given capacities until the script ends;
   returns the concatenation of what it got and whether it saw EOF *)
Fixpoint rd_read_script (st : rd) (caps : list N) : rd * bytes * bool :=
  match caps with
  | [] => (st, [], false)
  | c :: cs =>
      match rd_read st c with
      | (st', RData b) => let '(st'', got, e) := rd_read_script st' cs in (st'', b ++ got, e)
      | (st', REof) => (st', [], true)
      | (st', RPending) => (st', [], false)
      end
  end.
