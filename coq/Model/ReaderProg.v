(* ReaderProg.v -- M7 glue: a parser is a *reader program* (free monad over the two read
   primitives the Rust parsers use) with three interpreters:
     run_bytes  over a flat byte string : NeedMore | Reject e | Accept v rest
     run_eof    over a flat byte string followed by end-of-input
     run_rd     over the per-stream reader of Model/Reader.v (any chunking of the same bytes)
   PExact n e k  = `read_exact(&mut [0u8; n])`, UnexpectedEof mapped to error class e, then k
   PByte0 k      = `read(&mut [0u8; 1])`: the next byte, or the untouched 0 of the buffer at EOF
                   (handler.rs read_socks_addr reads ATYP this way)
   Executable Gallina only; proofs are in Proofs/ReaderProofs.v. *)
From AnyTLS Require Export Bytes Reader.
Open Scope N_scope.

Inductive pres (A : Type) : Type :=
| NeedMore
| Reject (e : N)
| Accept (v : A) (rest : bytes).
Arguments NeedMore {A}.
Arguments Reject {A} e.
Arguments Accept {A} v rest.

Inductive prog (A : Type) : Type :=
| PRet (a : A)
| PFail (e : N)
| PExact (n : N) (eof_e : N) (k : bytes -> prog A)
| PByte0 (k : N -> prog A).
Arguments PRet {A} a.
Arguments PFail {A} e.
Arguments PExact {A} n eof_e k.
Arguments PByte0 {A} k.

(* error classes shared by all parsers of this package (canonical tokens of the drivers) *)
Definition E_EOF : N := 1.      (* io::ErrorKind::UnexpectedEof from read_exact *)
Definition E_AUTH : N := 2.     (* AnyTlsError::AuthenticationFailed *)
Definition E_ATYP : N := 3.     (* unsupported / unknown address type *)
Definition E_LEN : N := 4.      (* invalid domain length *)
Definition E_UTF8 : N := 5.     (* invalid domain name (not UTF-8) *)
Definition E_VER : N := 6.      (* wrong SOCKS version byte *)
Definition E_FMT : N := 7.      (* UDP-over-TCP: isConnect <> 1 *)
Definition E_BIG : N := 8.      (* UDP packet too large *)

Fixpoint run_bytes {A} (p : prog A) (b : bytes) : pres A :=
  match p with
  | PRet a => Accept a b
  | PFail e => Reject e
  | PExact n _ k => if n <=? lenN b then run_bytes (k (takeN n b)) (dropN n b) else NeedMore
  | PByte0 k => match b with [] => NeedMore | x :: r => run_bytes (k x) r end
  end.

Inductive fres (A : Type) : Type :=
| FDone (v : A) (rest : bytes)
| FFail (e : N).
Arguments FDone {A} v rest.
Arguments FFail {A} e.

Fixpoint run_eof {A} (p : prog A) (b : bytes) : fres A :=
  match p with
  | PRet a => FDone a b
  | PFail e => FFail e
  | PExact n ee k => if n <=? lenN b then run_eof (k (takeN n b)) (dropN n b) else FFail ee
  | PByte0 k => match b with [] => run_eof (k 0) [] | x :: r => run_eof (k x) r end
  end.

Inductive sres (A : Type) : Type :=
| SDone (v : A)
| SFail (e : N)
| SPending.
Arguments SDone {A} v.
Arguments SFail {A} e.
Arguments SPending {A}.

Fixpoint run_rd {A} (p : prog A) (st : rd) : rd * sres A :=
  match p with
  | PRet a => (st, SDone a)
  | PFail e => (st, SFail e)
  | PExact n ee k =>
      match rd_read_exact st n with
      | (st', XOk b) => run_rd (k b) st'
      | (st', XEof) => (st', SFail ee)
      | (st', XPending) => (st', SPending)
      end
  | PByte0 k =>
      match rd_read st 1 with
      | (st', RData b) => run_rd (k (hd 0 b)) st'
      | (st', REof) => run_rd (k 0) st'
      | (st', RPending) => (st', SPending)
      end
  end.

(* a reader whose channel holds the given chunks (oldest first); closed = the sender is gone *)
Definition rd_of_chunks (chunks : list bytes) (closed : bool) : rd :=
  {| rq := chunks; rclosed := closed; rbuf := []; reof := false |}.

(* what a parser reports for a transport that delivered `chunks` and then either stays open or ends *)
Definition run_chunks {A} (p : prog A) (chunks : list bytes) (closed : bool) : sres A :=
  snd (run_rd p (rd_of_chunks chunks closed)).

Definition byte_at (i : nat) (b : bytes) : N := nth i b 0.
Definition de16_of (b : bytes) : N := de16 (byte_at 0 b) (byte_at 1 b).

(* ---- std::str::from_utf8 validity (Unicode 15 table 3-7, as implemented by core::str::validations) ---- *)
Definition cont (x : N) : bool := (128 <=? x) && (x <=? 191).
Fixpoint utf8_valid_fuel (fuel : nat) (b : bytes) : bool :=
  match fuel with
  | O => is_nil b
  | S k =>
      match b with
      | [] => true
      | x :: r =>
          if x <? 128 then utf8_valid_fuel k r
          else if (194 <=? x) && (x <=? 223) then
            match r with y :: r' => cont y && utf8_valid_fuel k r' | _ => false end
          else if x =? 224 then
            match r with y :: z :: r' => (160 <=? y) && (y <=? 191) && cont z && utf8_valid_fuel k r' | _ => false end
          else if ((225 <=? x) && (x <=? 236)) || (x =? 238) || (x =? 239) then
            match r with y :: z :: r' => cont y && cont z && utf8_valid_fuel k r' | _ => false end
          else if x =? 237 then
            match r with y :: z :: r' => (128 <=? y) && (y <=? 159) && cont z && utf8_valid_fuel k r' | _ => false end
          else if x =? 240 then
            match r with y :: z :: w :: r' => (144 <=? y) && (y <=? 191) && cont z && cont w && utf8_valid_fuel k r' | _ => false end
          else if (241 <=? x) && (x <=? 243) then
            match r with y :: z :: w :: r' => cont y && cont z && cont w && utf8_valid_fuel k r' | _ => false end
          else if x =? 244 then
            match r with y :: z :: w :: r' => (128 <=? y) && (y <=? 143) && cont z && cont w && utf8_valid_fuel k r' | _ => false end
          else false
      end
  end.
Definition utf8_valid (b : bytes) : bool := utf8_valid_fuel (length b) b.
