(* Relay.v -- the copy loops of a proxied TCP connection.
   Six loops in the crate have the same shape (buffer of `cap` bytes allocated once, reused by every iteration):
     server/handler.rs  proxy_tcp_connection_data_forwarding  Task1: StreamReader::read -> outbound.write_all(&buf[..n])
                                                              Task2: outbound.read     -> stream.send_data(copy of &buf[..n])
     client/socks5.rs   handle_socks5_connection              Task1: StreamReader::read -> client.write_all(&buf[..n])
                                                              Task2: client.read       -> session.write_data_frame(sid, buf[..n].to_vec())
     client/http_proxy.rs (tunnel)                            the same two as socks5.rs
   One iteration:  n = read(&mut buf)  -- Ok(0) => break, Err => break;  write(&buf[..n])  -- Err => break.
   The buffer is modelled WITH its stale content (what earlier iterations left behind the first n bytes), so that
   "the slice handed to the sink is exactly what this read returned" is a statement, not a definition.
   Executable Gallina only. *)
From AnyTLS Require Export Bytes Generated Reader.
Import ListNotations.
Open Scope N_scope.

(* the buffer after a read that returned `data` (written over its front; a read never returns more than the
   buffer holds -- if it did, nothing of the old content would be left) *)
Definition fill (buf data : bytes) : bytes := data ++ skipn (length data) buf.

(* the piece of the buffer a sink is handed: `buf[..n]` with n = the length this read returned -- a structural fact of
   the six loops regenerated from the source on every run (Generated.relay_sinks_take_read_prefix); if a loop handed
   over anything else the model hands over the whole buffer, stale tail included, and C01_relay_exact no longer compiles *)
Definition slice_len (d b' : bytes) : nat := if relay_sinks_take_read_prefix then length d else length b'.

Inductive rd_ev := GotN (data : bytes) | GotEof | GotErr.   (* result of one read; GotN [] is Ok(0) *)
Inductive wr_ev := WrOk | WrErr.                            (* result of handing the whole slice to the sink *)

Record lp := { lbuf : bytes; lout : list bytes; lstop : bool }.

Definition lp_init (cap : N) : lp := {| lbuf := zeros cap; lout := []; lstop := false |}.
Definition lp_stop (s : lp) : lp := {| lbuf := lbuf s; lout := lout s; lstop := true |}.

(* one iteration: the read result and, if bytes were read, the result of the write of buf[..n] *)
Definition lp_iter (s : lp) (e : rd_ev * wr_ev) : lp :=
  if lstop s then s else
  match fst e with
  | GotEof | GotErr => lp_stop s
  | GotN d =>
      if is_nil d then lp_stop s
      else
        let b' := fill (lbuf s) d in
        match snd e with
        | WrOk => {| lbuf := b'; lout := lout s ++ [firstn (slice_len d b') b']; lstop := false |}
        | WrErr => {| lbuf := b'; lout := lout s; lstop := true |}
        end
  end.

Definition lp_run (s : lp) (es : list (rd_ev * wr_ev)) : lp := fold_left lp_iter es s.
Definition relay (cap : N) (es : list (rd_ev * wr_ev)) : list bytes := lout (lp_run (lp_init cap) es).

(* what the loop is supposed to hand to its sink, written without any buffer: the chunks read before the first
   end of input / read error / failed write, each one whole *)
Fixpoint relay_spec (es : list (rd_ev * wr_ev)) : list bytes :=
  match es with
  | [] => []
  | (GotN d, w) :: r =>
      if is_nil d then []
      else match w with WrOk => d :: relay_spec r | WrErr => [] end
  | (_, _) :: _ => []
  end.

(* everything the source produced before its end (what a perfect relay with a perfect sink would forward) *)
Fixpoint source_bytes (es : list (rd_ev * wr_ev)) : bytes :=
  match es with
  | (GotN d, _) :: r => if is_nil d then [] else d ++ source_bytes r
  | _ => []
  end.

(* did the loop run into its source's end with every write accepted? *)
Fixpoint ran_to_eof (es : list (rd_ev * wr_ev)) : bool :=
  match es with
  | [] => false
  | (GotN d, w) :: r => if is_nil d then true else match w with WrOk => ran_to_eof r | WrErr => false end
  | (GotEof, _) :: _ => true
  | (GotErr, _) :: _ => false
  end.

(* ---------------------------------------------------------------- the upload direction of a tunnel, end to end
   application -> front-end Task2 -> write_data_frame -> [session: Model/Session.v] -> StreamReader -> server Task1 -> target.
   The middle is the pipe of C01; the two ends are relays.  The server's Task1 sees the results of its own reads
   on stream object (b,k); they are the (b,k) entries of the receiver's read log. *)
Definition log_reads (b : N) (k : nat) (lg : list (N * nat * rres)) : list rd_ev :=
  flat_map (fun e => match e with
                     | (s, k', RData d) => if (s =? b) && Nat.eqb k' k then [GotN d] else []
                     | (s, k', REof) => if (s =? b) && Nat.eqb k' k then [GotEof] else []
                     | (_, _, RPending) => []
                     end) lg.

Fixpoint zip_ev (rs : list rd_ev) (ws : list wr_ev) : list (rd_ev * wr_ev) :=
  match rs, ws with
  | r :: rs', w :: ws' => (r, w) :: zip_ev rs' ws'
  | r :: rs', [] => (r, WrOk) :: zip_ev rs' []      (* a sink that is not scripted accepts *)
  | [], _ => []
  end.

(* bytes the target has received: the server relay run over the read log with the target's write results *)
Definition to_target (cap : N) (b : N) (k : nat) (lg : list (N * nat * rres)) (ws : list wr_ev) : bytes :=
  concat (relay cap (zip_ev (log_reads b k lg) ws)).
