(* Session.v -- M4: frame dispatch of src/session/session.rs as a sequential state machine.

   What stands for what (Rust line numbers of /repo/src/session/session.rs at the time of writing):
     tbl          = the two per-stream tables `streams` and `stream_receive_tx` (always updated together:
                    Syn :503-523, Fin :617-620, open_stream :805-814, close :229-235); one association
                    list, keys unique (insert = HashMap::insert, replaces)
     gone         = stream objects the session no longer references (removed by FIN, replaced by a
                    duplicate SYN / a colliding insert, drained by close).  They are NOT session state: the
                    application may still hold the Arc<Stream>; kept here so that theorems can speak about
                    what their readers and pending opens observe.  Oldest first.
     stream.rd    = the inbound mpsc queue + StreamReader (Model/Reader.v); dropping the sender = rd_close
     stream.synack= Stream::synack_tx, a one-shot: Pending = Some(tx), Resolved r = taken (stream.rs :69-88)
     stream.sclosed = Stream::is_closed (close_with_error / poll_shutdown)
     next_id      = Session::stream_id (AtomicU32, fetch_add wraps)
     peer_version = Session::peer_version
     closed       = Session::is_closed
     dead         = recv_loop has returned (handle_frame returned Err: Alert, failed reply write)
     sendq        = the per-session channel stream_data_tx/rx feeding process_stream_data
   handle = handle_frame (:426-773); handle_all + recv = the decode/dispatch part of recv_loop (:286-407);
   recv_eof = read of 0 bytes / close_notify error (:326-358); open = open_stream (:777-827);
   write_data = write_data_frame (:836-853); write_ctrl = write_control_frame; close = close (:215-262);
   stream_send = Stream::send_data / poll_write (stream.rs :124-133, :196-238); pump = one iteration of
   process_stream_data (:1297-1368).
   Not in M4 (other layers): the padding applied to a burst (M3, Padding.v: the wire is any byte string whose
   decoded frames minus Waste frames are the submitted frames), buffering of the first client frames and lock
   interleavings (M5, Conc.v), transport write failures (M5; here a transport write always completes),
   heartbeat timestamps (M6).  Executable Gallina only. *)
From AnyTLS Require Export Bytes Cmd Generated Frame Reader.
Open Scope N_scope.

(* everything lives in the module Sess so that the extracted OCaml names (Sess.handle, Sess.init, ...) cannot
   collide with the other packages' models in the single extracted file; the proof files `Import Sess` *)
Module Sess.

(* ---------------------------------------------------------------- association lists keyed by stream id *)
Section Assoc.
  Context {A : Type}.
  Fixpoint lookup (k : N) (l : list (N * A)) : option A :=
    match l with
    | [] => None
    | (k', v) :: r => if k' =? k then Some v else lookup k r
    end.
  Fixpoint remove (k : N) (l : list (N * A)) : list (N * A) :=
    match l with
    | [] => []
    | (k', v) :: r => if k' =? k then remove k r else (k', v) :: remove k r
    end.
  Definition insert (k : N) (v : A) (l : list (N * A)) : list (N * A) := (k, v) :: remove k l.
  Definition keys (l : list (N * A)) : list N := map fst l.
  Definition only (k : N) (l : list (N * A)) : list A :=
    map snd (filter (fun p => fst p =? k) l).
End Assoc.

(* ---------------------------------------------------------------- per-stream state *)
Inductive role := Client | Server.
Inductive sres := SOk | SErr (msg : bytes) | SClosed.
Inductive slot := Pending | Resolved (r : sres).

Record stream := { rd : Reader.rd; synack : slot; sclosed : bool }.

Definition fresh : stream := {| rd := rd_init; synack := Pending; sclosed := false |}.

(* Stream::notify_synack: the first call takes the sender, later calls find None *)
Definition resolve (s : stream) (r : sres) : stream :=
  match synack s with
  | Pending => {| rd := rd s; synack := Resolved r; sclosed := sclosed s |}
  | Resolved _ => s
  end.
Definition push_data (s : stream) (d : bytes) : stream :=
  {| rd := rd_push (rd s) d; synack := synack s; sclosed := sclosed s |}.
(* the queue sender is dropped (entry removed from stream_receive_tx) *)
Definition drop_tx (s : stream) : stream :=
  {| rd := rd_close (rd s); synack := synack s; sclosed := sclosed s |}.
(* close(): close_with_error + notify_synack(Err(SessionClosed)) + receive_map.remove *)
Definition kill (s : stream) : stream :=
  {| rd := rd_close (rd s);
     synack := match synack s with Pending => Resolved SClosed | x => x end;
     sclosed := true |}.
Definition shut_stream (s : stream) : stream :=
  {| rd := rd s; synack := synack s; sclosed := true |}.
Definition set_rd (s : stream) (r : Reader.rd) : stream :=
  {| rd := r; synack := synack s; sclosed := sclosed s |}.

(* ---------------------------------------------------------------- session *)
(* immutable configuration: role; md5 text and raw text of the session's padding scheme (opaque to M4) *)
Record cfg := { c_role : role; c_md5 : bytes; c_scheme : bytes }.

Record sess := {
  tbl : list (N * stream);
  gone : list (N * stream);
  next_id : N;
  peer_version : N;
  s_closed : bool;
  dead : bool;
  sendq : list (N * bytes)
}.

Definition first_id (r : role) : N :=
  match r with Client => client_first_stream_id | Server => server_first_stream_id end.

Definition init_sess (c : cfg) : sess :=
  {| tbl := []; gone := []; next_id := first_id (c_role c); peer_version := 0;
     s_closed := false; dead := false; sendq := [] |}.

Inductive out := Send (f : frame) | NewStream (sid : N) | Closed.

Definition is_client (c : cfg) : bool := match c_role c with Client => true | Server => false end.

Definition with_tbl (st : sess) (t : list (N * stream)) (g : list (N * stream)) : sess :=
  {| tbl := t; gone := g; next_id := next_id st; peer_version := peer_version st;
     s_closed := s_closed st; dead := dead st; sendq := sendq st |}.
Definition with_pv (st : sess) (v : N) : sess :=
  {| tbl := tbl st; gone := gone st; next_id := next_id st; peer_version := v;
     s_closed := s_closed st; dead := dead st; sendq := sendq st |}.
Definition with_dead (st : sess) : sess :=
  {| tbl := tbl st; gone := gone st; next_id := next_id st; peer_version := peer_version st;
     s_closed := s_closed st; dead := true; sendq := sendq st |}.
Definition with_sendq (st : sess) (q : list (N * bytes)) : sess :=
  {| tbl := tbl st; gone := gone st; next_id := next_id st; peer_version := peer_version st;
     s_closed := s_closed st; dead := dead st; sendq := q |}.

(* the entry of `sid` leaves the tables; the object survives outside with its queue sender dropped *)
Definition detach (sid : N) (t g : list (N * stream)) : list (N * stream) * list (N * stream) :=
  match lookup sid t with
  | Some s => (remove sid t, g ++ [(sid, drop_tx s)])
  | None => (t, g)
  end.

(* HashMap::insert of a fresh stream under `sid`: a previous entry is displaced *)
Definition install (sid : N) (st : sess) : sess :=
  let '(t, g) := detach sid (tbl st) (gone st) in with_tbl st (insert sid fresh t) g.

(* Session::close *)
Definition close (st : sess) : sess * list out :=
  if s_closed st then (st, [])
  else ({| tbl := []; gone := gone st ++ map (fun p => (fst p, kill (snd p))) (tbl st);
           next_id := next_id st; peer_version := peer_version st;
           s_closed := true; dead := dead st; sendq := [] |}, [Closed]).

(* ---------------------------------------------------------------- settings text (ASCII domain)
   StringMap::from_bytes: lines, split_once('='), trim both sides, last key wins; `v` parsed as u8 *)
Definition is_ws (b : N) : bool :=
  (b =? 9) || (b =? 10) || (b =? 11) || (b =? 12) || (b =? 13) || (b =? 32).
Fixpoint trim_l (b : bytes) : bytes :=
  match b with x :: r => if is_ws x then trim_l r else b | [] => [] end.
Definition trim (b : bytes) : bytes := rev (trim_l (rev (trim_l b))).

Fixpoint split_lines (b cur : bytes) : list bytes :=
  match b with
  | [] => [rev cur]
  | x :: r => if x =? 10 then rev cur :: split_lines r [] else split_lines r (x :: cur)
  end.
Fixpoint split_once (sep : N) (b acc : bytes) : option (bytes * bytes) :=
  match b with
  | [] => None
  | x :: r => if x =? sep then Some (rev acc, r) else split_once sep r (x :: acc)
  end.
Definition map_get (key data : bytes) : option bytes :=
  fold_left (fun acc line =>
               match split_once 61 line [] with
               | Some (k, v) => if bytes_eqb (trim k) key then Some (trim v) else acc
               | None => acc
               end) (split_lines data []) None.

Fixpoint digits_val (b : bytes) (acc : N) : option N :=
  match b with
  | [] => Some acc
  | x :: r => if (48 <=? x) && (x <=? 57) then digits_val r (acc * 10 + (x - 48)) else None
  end.
(* str::parse::<u8>: optional '+', at least one digit, value <= 255 *)
Definition parse_u8 (b : bytes) : option N :=
  let d := match b with 43 :: r => r | _ => b end in
  match d with
  | [] => None
  | _ => match digits_val d 0 with
         | Some v => if v <=? 255 then Some v else None
         | None => None
         end
  end.

Definition key_v : bytes := [118].                                   (* "v" *)
Definition key_md5 : bytes := [112; 97; 100; 100; 105; 110; 103; 45; 109; 100; 53].  (* "padding-md5" *)
Definition server_settings_body : bytes := [118; 61; 50].            (* "v=2" (no extra settings) *)

Definition mk (c : cmd) (sid : N) (d : bytes) : frame := {| fcmd := c; fsid := sid; fdata := d |}.

(* ---------------------------------------------------------------- handle_frame *)
Definition handle (c : cfg) (st : sess) (f : frame) : sess * list out :=
  let sid := fsid f in
  match fcmd f with
  | Push =>
      match lookup sid (tbl st) with
      | Some s => (with_tbl st (insert sid (push_data s (fdata f)) (tbl st)) (gone st), [])
      | None => (st, [])
      end
  | Syn =>
      if is_client c then (st, [])
      else (install sid st, [NewStream sid])
  | SynAck =>
      if is_client c then
        match lookup sid (tbl st) with
        | Some s =>
            let r := if is_nil (fdata f) then SOk else SErr (fdata f) in
            (with_tbl st (insert sid (resolve s r) (tbl st)) (gone st), [])
        | None => (st, [])
        end
      else (st, [])
  | Fin =>
      let '(t, g) := detach sid (tbl st) (gone st) in (with_tbl st t g, [])
  | Settings =>
      if negb (is_client c) && negb (is_nil (fdata f)) then
        let need_update :=
          match map_get key_md5 (fdata f) with
          | Some m => negb (bytes_eqb m (c_md5 c))
          | None => false
          end in
        if need_update && (max_payload <? lenN (c_scheme c))
        then (with_dead st, [])                 (* the encoder rejects the frame: handle_frame returns Err *)
        else
          let o1 := if need_update then [Send (mk UpdatePaddingScheme 0 (c_scheme c))] else [] in
          match map_get key_v (fdata f) with
          | Some vs =>
              match parse_u8 vs with
              | Some v => if 2 <=? v
                          then (with_pv st v, o1 ++ [Send (mk ServerSettings 0 server_settings_body)])
                          else (st, o1)
              | None => (st, o1)
              end
          | None => (st, o1)
          end
      else (st, [])
  | ServerSettings =>
      if is_client c && negb (is_nil (fdata f)) then
        match map_get key_v (fdata f) with
        | Some vs => match parse_u8 vs with Some v => (with_pv st v, []) | None => (st, []) end
        | None => (st, [])
        end
      else (st, [])
  | UpdatePaddingScheme => (st, [])     (* replaces the padding factory: outside M4 (C19) *)
  | Alert =>
      let '(st', o) := close st in (with_dead st', o)
  | HeartRequest => (st, [Send (mk HeartResponse sid [])])
  | HeartResponse => (st, [])           (* refreshes the heartbeat timestamp: M6 *)
  | Waste => (st, [])
  end.

(* the `while let Some(frame) = decode()? { handle_frame(frame).await? }` loop *)
Fixpoint handle_all (c : cfg) (st : sess) (fs : list frame) : sess * list out :=
  match fs with
  | [] => (st, [])
  | f :: r =>
      if dead st then (st, [])
      else let '(st1, o1) := handle c st f in
           let '(st2, o2) := handle_all c st1 r in (st2, o1 ++ o2)
  end.

(* one iteration of recv_loop on a transport read that returned `chunk` (non-empty) *)
Definition recv (c : cfg) (st : sess) (carry chunk : bytes) : sess * bytes * list out :=
  if s_closed st || dead st then (st, carry, [])
  else let '(fs, carry') := feed carry chunk in
       let '(st', o) := handle_all c st fs in (st', carry', o).

Fixpoint recv_all (c : cfg) (st : sess) (carry : bytes) (chunks : list bytes) : sess * bytes * list out :=
  match chunks with
  | [] => (st, carry, [])
  | ch :: r =>
      let '(st1, carry1, o1) := recv c st carry ch in
      let '(st2, carry2, o2) := recv_all c st1 carry1 r in (st2, carry2, o1 ++ o2)
  end.

(* the transport read returned 0 / failed: close and leave the loop *)
Definition recv_eof (st : sess) : sess * list out :=
  if s_closed st || dead st then (st, [])
  else let '(st', o) := close st in (with_dead st', o).

(* ---------------------------------------------------------------- local operations *)
(* write_data_frame: chunks above max_payload are split; an empty chunk is one empty frame *)
Fixpoint split_fuel (fuel : nat) (d : bytes) : list bytes :=
  match fuel with
  | O => [d]
  | S k => if max_payload <? lenN d
           then takeN max_payload d :: split_fuel k (dropN max_payload d)
           else [d]
  end.
Definition split_chunk (d : bytes) : list bytes := split_fuel (length d) d.
Definition data_frames (sid : N) (d : bytes) : list frame := map (mk Push sid) (split_chunk d).

Inductive wres := WOk | WErrClosed | WErrEncode | WErrStream.

Definition write_data (st : sess) (sid : N) (d : bytes) : list out * wres :=
  if s_closed st then ([], WErrClosed) else (map Send (data_frames sid d), WOk).

Definition write_ctrl (st : sess) (f : frame) : list out * wres :=
  if s_closed st then ([], WErrClosed)
  else if max_payload <? lenN (fdata f) then ([], WErrEncode)
  else ([Send f], WOk).

(* open_stream *)
Definition open (st : sess) : sess * list out * option N :=
  if s_closed st then (st, [], None)
  else
    let sid := next_id st in
    let st1 := install sid st in
    ({| tbl := tbl st1; gone := gone st1; next_id := u32_of (sid + 1); peer_version := peer_version st1;
        s_closed := s_closed st1; dead := dead st1; sendq := sendq st1 |},
     [Send (mk Syn sid [])], Some sid).

(* n consecutive open_stream calls: the ids handed out *)
Fixpoint open_many (n : nat) (st : sess) : sess * list N :=
  match n with
  | O => (st, [])
  | S k =>
      match open st with
      | (st1, _, Some sid) => let '(st2, ids) := open_many k st1 in (st2, sid :: ids)
      | (st1, _, None) => (st1, [])
      end
  end.

(* stream objects are addressed as (sid, k): the k-th object ever created under sid; all but possibly
   the last are in `gone` (in creation order), the live one is in `tbl` *)
Definition obj (st : sess) (sid : N) (k : nat) : option stream :=
  let g := only sid (gone st) in
  match nth_error g k with
  | Some s => Some s
  | None => if Nat.eqb k (length g) then lookup sid (tbl st) else None
  end.

Fixpoint set_nth_for (sid : N) (k : nat) (s : stream) (g : list (N * stream)) : list (N * stream) :=
  match g with
  | [] => []
  | (k', v) :: r =>
      if k' =? sid then
        match k with
        | O => (k', s) :: r
        | S k1 => (k', v) :: set_nth_for sid k1 s r
        end
      else (k', v) :: set_nth_for sid k s r
  end.

Definition set_obj (st : sess) (sid : N) (k : nat) (s : stream) : sess :=
  let g := only sid (gone st) in
  if Nat.ltb k (length g) then with_tbl st (tbl st) (set_nth_for sid k s (gone st))
  else match lookup sid (tbl st) with
       | Some _ => if Nat.eqb k (length g) then with_tbl st (insert sid s (tbl st)) (gone st) else st
       | None => st
       end.

(* StreamReader::read on object (sid,k) with a buffer of capacity cap *)
Definition read (st : sess) (sid : N) (k : nat) (cap : N) : sess * option rres :=
  match obj st sid k with
  | Some s => let '(r', res) := rd_read (rd s) cap in (set_obj st sid k (set_rd s r'), Some res)
  | None => (st, None)
  end.

(* Stream::send_data / poll_write on object (sid,k): one channel item per call *)
Definition stream_send (st : sess) (sid : N) (k : nat) (d : bytes) : sess * wres :=
  match obj st sid k with
  | Some s => if sclosed s || s_closed st then (st, WErrStream)
              else (with_sendq st (sendq st ++ [(sid, d)]), WOk)
  | None => (st, WErrStream)
  end.

(* AsyncWrite::poll_shutdown on object (sid,k): only marks the stream closed *)
Definition stream_shutdown (st : sess) (sid : N) (k : nat) : sess * list out :=
  match obj st sid k with
  | Some s => (set_obj st sid k (shut_stream s), [])
  | None => (st, [])
  end.

(* one iteration of process_stream_data *)
Definition pump (st : sess) : sess * list out :=
  match sendq st with
  | [] => (st, [])
  | (sid, d) :: q =>
      if s_closed st then (with_sendq st [], [])
      else (with_sendq st q, fst (write_data st sid d))
  end.
Fixpoint pump_n (n : nat) (st : sess) : sess * list out :=
  match n with
  | O => (st, [])
  | S k => let '(st1, o1) := pump st in let '(st2, o2) := pump_n k st1 in (st2, o1 ++ o2)
  end.
Definition pump_all (st : sess) : sess * list out := pump_n (length (sendq st)) st.

(* ---------------------------------------------------------------- histories (used by the C01 statements)
   receiver side: transport reads and application reads in any interleaving *)
Inductive rop := ORecv (chunk : bytes) | ORead (sid : N) (k : nat) (cap : N).
Definition rlog := list (N * nat * rres).

Fixpoint run_rops (c : cfg) (st : sess) (carry : bytes) (ops : list rop) : sess * bytes * rlog :=
  match ops with
  | [] => (st, carry, [])
  | ORecv ch :: r =>
      let '(st1, carry1, _) := recv c st carry ch in run_rops c st1 carry1 r
  | ORead sid k cap :: r =>
      match read st sid k cap with
      | (st1, Some res) =>
          let '(st2, c2, lg) := run_rops c st1 carry r in (st2, c2, (sid, k, res) :: lg)
      | (st1, None) => run_rops c st1 carry r
      end
  end.

Definition recv_chunks (ops : list rop) : list bytes :=
  flat_map (fun o => match o with ORecv ch => [ch] | _ => [] end) ops.

(* bytes object (sid,k) has handed to its reader, and whether that reader has been told EOF *)
Definition delivered (sid : N) (k : nat) (lg : rlog) : bytes :=
  flat_map (fun e => match e with
                     | (s, k', RData b) => if (s =? sid) && Nat.eqb k' k then b else []
                     | _ => []
                     end) lg.
Definition saw_eof (sid : N) (k : nat) (lg : rlog) : bool :=
  existsb (fun e => match e with
                    | (s, k', REof) => (s =? sid) && Nat.eqb k' k
                    | _ => false
                    end) lg.

(* sender side: data submissions (already in the order in which they reach write_data_frame: a merge of the
   per-stream orders) and control frames *)
Inductive wop := WData (sid : N) (chunk : bytes) | WCtrl (f : frame).

Definition wop_frames (o : wop) : list frame :=
  match o with
  | WData sid d => data_frames sid d
  | WCtrl f => if max_payload <? lenN (fdata f) then [] else [f]
  end.
Definition run_wops (st : sess) (ops : list wop) : list out :=
  flat_map (fun o => match o with
                     | WData sid d => fst (write_data st sid d)
                     | WCtrl f => fst (write_ctrl st f)
                     end) ops.
Definition sent_frames (os : list out) : list frame :=
  flat_map (fun o => match o with Send f => [f] | _ => [] end) os.
(* the bytes submitted for stream sid (a PSH frame passed to write_control_frame counts as data) *)
Definition written (sid : N) (ops : list wop) : bytes :=
  flat_map (fun o => match o with
                     | WData s d => if s =? sid then d else []
                     | WCtrl f => if cmd_eqb (fcmd f) Push && (fsid f =? sid) && negb (max_payload <? lenN (fdata f))
                                  then fdata f else []
                     end) ops.

(* the padding layer is any transformation of the submitted frames into bytes that decodes back to them
   once Waste frames are deleted (a session never submits a Waste frame itself) *)
Definition not_padding (f : frame) : bool := negb (cmd_eqb (fcmd f) Waste).

(* ---------------------------------------------------------------- sending side of end-of-stream (C08)
   The four places where a local end of input is noticed.  None of them writes anything. *)
Inductive site := SocksClientEof | HttpClientEof | ServerTargetEof | StreamShutdown.

Definition local_eof (s : site) (st : sess) (sid : N) (k : nat) : sess * list out :=
  match s with
  | SocksClientEof => (st, [])      (* socks5.rs Task2: `Ok(0) => break` *)
  | HttpClientEof => (st, [])       (* http_proxy.rs to_proxy: `Ok(0) => break` *)
  | ServerTargetEof => (st, [])     (* handler.rs Task2: `Ok(0) => break` *)
  | StreamShutdown => stream_shutdown st sid k
  end.

(* ---------------------------------------------------------------- opening a stream (C10) *)
Inductive outcome := OOk | OErr (msg : bytes) | OClosed | OTimeout.
Inductive wait := Waiting | Done (o : outcome).

(* client.rs create_proxy_stream: `timeout(30 s, synack_rx)`; the receiver is polled before the timer *)
Definition opener_poll (w : wait) (s : slot) (timer_fired : bool) : wait :=
  match w with
  | Done _ => w
  | Waiting =>
      match s with
      | Resolved SOk => Done OOk
      | Resolved (SErr m) => Done (OErr m)
      | Resolved SClosed => Done OClosed
      | Pending => if timer_fired then Done OTimeout else Waiting
      end
  end.

Inductive cev :=
| EFrame (f : frame)        (* a frame arrives and is dispatched *)
| EClose                    (* the session is closed locally (pool reaper, heartbeat, write error) *)
| EEof                      (* the transport ends *)
| ETimeout (sid : N).       (* the 30 s timer of the opener of sid fires *)

Definition slot_of (st : sess) (sid : N) : slot :=
  match obj st sid 0 with Some s => synack s | None => Pending end.

(* one event, then the opener of (sid,0) is polled *)
Definition cstep (c : cfg) (sid : N) (x : sess * wait) (e : cev) : sess * wait :=
  let '(st, w) := x in
  let st' :=
    match e with
    | EFrame f => if s_closed st || dead st then st else fst (handle_all c st [f])
    | EClose => fst (close st)
    | EEof => fst (recv_eof st)
    | ETimeout _ => st
    end in
  let fired := match e with ETimeout s => s =? sid | _ => false end in
  (st', opener_poll w (slot_of st' sid) fired).

Definition crun (c : cfg) (sid : N) (x : sess * wait) (es : list cev) : sess * wait :=
  fold_left (cstep c sid) es x.

(* specification of the opener's outcome, written from the property text: the first event among
   {SYNACK for its id while the stream is registered, session end while registered, its own timer} decides;
   reg = the stream is still in the tables; alive = the session still dispatches frames *)
Fixpoint expect (sid : N) (reg alive : bool) (es : list cev) : wait :=
  match es with
  | [] => Waiting
  | ETimeout s :: r => if s =? sid then Done OTimeout else expect sid reg alive r
  | EClose :: r => if alive && reg then Done OClosed else expect sid reg false r
  | EEof :: r => if alive && reg then Done OClosed else expect sid reg false r
  | EFrame f :: r =>
      if negb alive then expect sid reg alive r
      else match fcmd f with
           | Alert => if reg then Done OClosed else expect sid reg false r
           | SynAck => if reg && (fsid f =? sid)
                       then Done (if is_nil (fdata f) then OOk else OErr (fdata f))
                       else expect sid reg alive r
           | Fin => expect sid (reg && negb (fsid f =? sid)) alive r
           | _ => expect sid reg alive r
           end
  end.

(* server/handler.rs: what the handler writes after the dial *)
Inductive dial := DialOk | DialFail (msg : bytes) | DialTimeout (msg : bytes) | DialUdp.

Definition serve_open (st : sess) (sid : N) (d : dial) : list out :=
  if 2 <=? peer_version st then
    match d with
    | DialOk | DialUdp => fst (write_ctrl st (mk SynAck sid []))
    | DialFail m | DialTimeout m => fst (write_ctrl st (mk SynAck sid m))
    end
  else [].

(* client front-ends: what the local application sees / what is forwarded, given the open's outcome *)
Inductive front := Socks5 | HttpConnect | HttpPlain.
Inductive fout := ReplyOk | ReplyFail | ToStream (b : bytes).

Definition front_end (fe : front) (o : outcome) (early : bytes) (app : list bytes) : list fout :=
  match o with
  | OOk =>
      match fe with
      | Socks5 => ReplyOk :: map ToStream app
      | HttpConnect => ReplyOk :: map ToStream app
      | HttpPlain => ToStream early :: map ToStream app      (* the rewritten request, then the tunnel *)
      end
  | _ => [ReplyFail]
  end.

End Sess.
