(* Socks5.v -- M7: the SOCKS5 front-end of src/client/socks5.rs (C16).
     greeting_prog  = authenticate: VER NMETHODS METHODS
     request_prog   = read_connection_request: VER CMD RSV ATYP ADDR PORT (the whole request is read
                      before the command is looked at)
     socks_session  = handle_socks5_connection: method selection, request, CONNECT check (repair D10),
                      tunnel open (outcome = explicit oracle), reply, then forwarding of what follows
   All constants come from Gen/Generated.v (regenerated from socks5.rs). *)
From AnyTLS Require Export Bytes Reader ReaderProg Generated Dest.
Open Scope N_scope.

Definition socks_ver : N := socks_socks5_version.

Definition greeting_prog : prog bytes :=
  PExact 2 E_EOF (fun h =>
    if byte_at 0 h =? socks_ver then PExact (byte_at 1 h) E_EOF (fun ms => PRet ms)
    else PFail E_VER).

Definition offers_noauth (ms : bytes) : bool := existsb (fun m => m =? socks_auth_no_authentication) ms.

Definition method_reply (ms : bytes) : bytes :=
  if offers_noauth ms then [socks_ver; socks_auth_no_authentication]
  else [socks_ver; socks_auth_not_acceptable].

Record sreq := { q_cmd : N; q_dest : dest; q_port : N }.

Definition socks_addr_k {A} (atyp : N) (k : dest -> prog A) : prog A :=
  if atyp =? socks_atyp_ipv4 then PExact 4 E_EOF (fun a => k (DV4 a))
  else if atyp =? socks_atyp_domain then name_k (fun d => k (DName d))
  else if atyp =? socks_atyp_ipv6 then PExact 16 E_EOF (fun a => k (DV6 a))
  else PFail E_ATYP.

Definition request_prog : prog sreq :=
  PExact 4 E_EOF (fun h =>
    if byte_at 0 h =? socks_ver then
      socks_addr_k (byte_at 3 h) (fun d =>
        port_k (fun p => {| q_cmd := byte_at 1 h; q_dest := d; q_port := p |}))
    else PFail E_VER).

(* what a client sends for a request (rsv is the reserved byte, ignored by the front-end) *)
Definition atyp_of (d : dest) : N :=
  match d with DV4 _ => socks_atyp_ipv4 | DV6 _ => socks_atyp_ipv6 | DName _ => socks_atyp_domain end.
Definition addr_wire (d : dest) : bytes :=
  match d with DV4 a => a | DV6 a => a | DName n => u8_of (lenN n) :: n end.
Definition request_wire (rsv : N) (q : sreq) : bytes :=
  socks_ver :: q_cmd q :: rsv :: atyp_of (q_dest q) :: addr_wire (q_dest q) ++ be16 (q_port q).

Definition reply_bytes (rep : N) : bytes := [socks_ver; rep; 0; socks_atyp_ipv4; 0; 0; 0; 0; 0; 0].
Definition reply_rep (b : bytes) : N := byte_at 1 b.

Inductive sev : Type :=
| SWrite (b : bytes)               (* bytes written to the local client *)
| SOpen (d : dest) (p : N)         (* Client::create_proxy_stream((addr, port)) is called *)
| STunnel (fwd : bytes)            (* tunnel established: bytes that followed the request are forwarded *)
| SEnd.                            (* handle_socks5_connection returned: this connection is dropped *)

(* open_ok d p = the verdict of the open (SYNACK ok / error / timeout, C10) *)
Definition socks_after_greeting (open_ok : dest -> N -> bool) (r : bytes) : list sev :=
  match run_bytes request_prog r with
  | NeedMore => []
  | Reject _ => [SEnd]
  | Accept q r2 =>
      if q_cmd q =? socks_cmd_connect then
        SOpen (q_dest q) (q_port q) ::
        (if open_ok (q_dest q) (q_port q)
         then [SWrite (reply_bytes socks_reply_succeeded); STunnel r2]
         else [SWrite (reply_bytes socks_reply_general_failure); SEnd])
      else [SWrite (reply_bytes socks_reply_command_not_supported); SEnd]
  end.

Definition socks_session (open_ok : dest -> N -> bool) (b : bytes) : list sev :=
  match run_bytes greeting_prog b with
  | NeedMore => []
  | Reject _ => [SEnd]
  | Accept ms r =>
      if offers_noauth ms then SWrite (method_reply ms) :: socks_after_greeting open_ok r
      else [SWrite (method_reply ms); SEnd]
  end.

(* the same session when the client's byte stream ends after b (half-close): every NeedMore becomes
   an UnexpectedEof error and the connection is dropped *)
Definition socks_after_greeting_eof (open_ok : dest -> N -> bool) (r : bytes) : list sev :=
  match run_bytes request_prog r with
  | NeedMore => [SEnd]
  | _ => socks_after_greeting open_ok r
  end.
Definition socks_session_eof (open_ok : dest -> N -> bool) (b : bytes) : list sev :=
  match run_bytes greeting_prog b with
  | NeedMore => [SEnd]
  | Reject _ => [SEnd]
  | Accept ms r =>
      if offers_noauth ms then SWrite (method_reply ms) :: socks_after_greeting_eof open_ok r
      else [SWrite (method_reply ms); SEnd]
  end.

(* the same session over a transport that delivered `chunks` (TCP segments) and then either stays
   open or was half-closed by the client; read_exact on a TcpStream loops over the segments exactly
   like the reader of Model/Reader.v *)
Definition socks_after_greeting_rd (open_ok : dest -> N -> bool) (st : rd) : list sev :=
  match run_rd request_prog st with
  | (_, SPending) => []
  | (_, SFail _) => [SEnd]
  | (st', SDone q) =>
      if q_cmd q =? socks_cmd_connect then
        SOpen (q_dest q) (q_port q) ::
        (if open_ok (q_dest q) (q_port q)
         then [SWrite (reply_bytes socks_reply_succeeded); STunnel (rd_pending_bytes st')]
         else [SWrite (reply_bytes socks_reply_general_failure); SEnd])
      else [SWrite (reply_bytes socks_reply_command_not_supported); SEnd]
  end.

Definition socks_session_rd (open_ok : dest -> N -> bool) (chunks : list bytes) (closed : bool) : list sev :=
  match run_rd greeting_prog (rd_of_chunks chunks closed) with
  | (_, SPending) => []
  | (_, SFail _) => [SEnd]
  | (st', SDone ms) =>
      if offers_noauth ms then SWrite (method_reply ms) :: socks_after_greeting_rd open_ok st'
      else [SWrite (method_reply ms); SEnd]
  end.
