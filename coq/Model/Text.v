(* Text.v -- the Rust `str` functions used by the padding scheme language, on byte strings,
   for ASCII input (DESIGN Appendix B).  Executable Gallina only.

   Rust                         here
   str::trim                    trim          (whitespace = the ASCII subset \t \n \x0B \x0C \r ' ')
   str::lines                   lines         (split_inclusive('\n'); a line that ended in \n loses that
                                               \n and then one \r; a last line without \n is kept as is)
   str::split_once(c)           split_once    (first occurrence)
   str::split(c)                split         (all pieces, empty ones included, never an empty list)
   str::parse::<i64>            parse_i64     (one optional + or -, >= 1 digit, None outside i64)
   str::parse::<u32>            parse_u32     (one optional +, >= 1 digit, None above u32::MAX)
   u32::to_string               u32_to_string (canonical decimal)
   String::from_utf8_lossy      identity      (ASCII domain; non-ASCII input is exercised by the
                                               correspondence check by outcome class only)          *)
From AnyTLS Require Export Bytes.
Open Scope N_scope.

Definition is_ws (b : N) : bool :=
  (b =? 9) || (b =? 10) || (b =? 11) || (b =? 12) || (b =? 13) || (b =? 32).

Definition ascii_only (s : bytes) : Prop := Forall (fun x => x < 128) s.
Definition ascii_onlyb (s : bytes) : bool := forallb (fun x => x <? 128) s.

Fixpoint trim_start (s : bytes) : bytes :=
  match s with
  | [] => []
  | c :: t => if is_ws c then trim_start t else s
  end.
Definition trim_end (s : bytes) : bytes := rev (trim_start (rev s)).
Definition trim (s : bytes) : bytes := trim_end (trim_start s).

Fixpoint split_once (c : N) (s : bytes) : option (bytes * bytes) :=
  match s with
  | [] => None
  | x :: t =>
      if x =? c then Some ([], t)
      else match split_once c t with
           | Some (a, b) => Some (x :: a, b)
           | None => None
           end
  end.

Fixpoint split (c : N) (s : bytes) : list bytes :=
  match s with
  | [] => [[]]
  | x :: t =>
      if x =? c then [] :: split c t
      else match split c t with
           | p :: ps => (x :: p) :: ps
           | [] => [[x]]
           end
  end.

Definition strip_cr (l : bytes) : bytes :=
  match rev l with
  | 13 :: r => rev r
  | _ => l
  end.

Fixpoint lines_aux (cur_rev : bytes) (s : bytes) : list bytes :=
  match s with
  | [] => match cur_rev with [] => [] | _ => [rev cur_rev] end
  | x :: t =>
      if x =? 10 then strip_cr (rev cur_rev) :: lines_aux [] t
      else lines_aux (x :: cur_rev) t
  end.
Definition lines (s : bytes) : list bytes := lines_aux [] s.

Definition digit_val (b : N) : option Z :=
  if (48 <=? b) && (b <=? 57) then Some (Z.of_N (b - 48)) else None.

Fixpoint parse_digits (acc : Z) (s : bytes) : option Z :=
  match s with
  | [] => Some acc
  | c :: t => match digit_val c with
              | Some d => parse_digits (acc * 10 + d)%Z t
              | None => None
              end
  end.

Definition parse_nat_digits (s : bytes) : option Z :=
  match s with [] => None | _ => parse_digits 0%Z s end.

Definition i64_min : Z := (-9223372036854775808)%Z.
Definition i64_max : Z := 9223372036854775807%Z.
Definition u32_max : Z := 4294967295%Z.

Definition parse_i64 (s : bytes) : option Z :=
  let '(neg, body) := match s with
                      | 45 :: t => (true, t)
                      | 43 :: t => (false, t)
                      | _ => (false, s)
                      end in
  match parse_nat_digits body with
  | None => None
  | Some v =>
      let z := if neg then (- v)%Z else v in
      if ((i64_min <=? z) && (z <=? i64_max))%Z then Some z else None
  end.

Definition parse_u32 (s : bytes) : option N :=
  let body := match s with 43 :: t => t | _ => s end in
  match parse_nat_digits body with
  | None => None
  | Some v => if (v <=? u32_max)%Z then Some (Z.to_N v) else None
  end.

Fixpoint to_dec_fuel (fuel : nat) (n : N) (acc : bytes) : bytes :=
  match fuel with
  | O => acc
  | S f =>
      let acc' := (48 + n mod 10) :: acc in
      if n / 10 =? 0 then acc' else to_dec_fuel f (n / 10) acc'
  end.
(* 10 digits are enough for every u32 *)
Definition u32_to_string (n : N) : bytes := to_dec_fuel 10 n [].

Fixpoint filter_map {A B} (f : A -> option B) (l : list A) : list B :=
  match l with
  | [] => []
  | x :: t => match f x with Some y => y :: filter_map f t | None => filter_map f t end
  end.

(* StringMap (a HashMap<String,String>) as an insertion-ordered association list; lookup returns the
   LAST binding of the key, which is what repeated HashMap::insert leaves behind *)
Definition smap := list (bytes * bytes).

Fixpoint map_get (k : bytes) (m : smap) : option bytes :=
  match m with
  | [] => None
  | (k', v) :: m' =>
      match map_get k m' with
      | Some x => Some x
      | None => if bytes_eqb k' k then Some v else None
      end
  end.

(* StringMap::from_bytes *)
Definition parse_kv (l : bytes) : option (bytes * bytes) :=
  match split_once 61 l with
  | Some (k, v) => Some (trim k, trim v)
  | None => None
  end.
Definition parse_map (raw : bytes) : smap := filter_map parse_kv (lines raw).
