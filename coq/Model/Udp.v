(* Udp.v -- M7: UDP-over-TCP datagram framing (C15).
     udp_encode mx    = encode_udp_packet (udp_client.rs, mx = its MAX_UDP_PACKET_SIZE) and
                        encode_udp_packet_simple (udp_proxy.rs, mx = its MAX_UDP_PACKET_SIZE)
     udp_read1_prog   = read_udp_packet of both files (textually the same function)
     udp_loop         = the `loop { read_udp_packet ... }` of stream_to_udp in both files
     udp_loop_rd      = the same loop over the per-stream reader (any chunking)
   The initial request (target of the association) is in Dest.v. *)
From AnyTLS Require Export Bytes Reader ReaderProg Generated Dest.
Open Scope N_scope.

(* None = Err("UDP packet too large"); `payload.len() as u16` is kept as a cast *)
Definition udp_encode (mx : N) (d : bytes) : option bytes :=
  if mx <? lenN d then None else Some (be16 (u16_of (lenN d)) ++ d).

Definition udp_frame (d : bytes) : bytes := be16 (lenN d) ++ d.

Definition udp_read1_prog (mx : N) : prog bytes :=
  PExact 2 E_EOF (fun l =>
    let n := de16_of l in
    if n =? 0 then PRet []
    else if mx <? n then PFail E_BIG
    else PExact n E_EOF (fun d => PRet d)).

Definition udp_read1 (mx : N) (b : bytes) : pres bytes := run_bytes (udp_read1_prog mx) b.

(* how a direction ends *)
Inductive uend : Type :=
| UMore (rest : bytes)      (* waiting for more bytes; `rest` is the undecoded tail *)
| UStop (rest : bytes)      (* an empty packet ended the loop (only when stop = true: the pinned behaviour) *)
| UErr (e : N).

(* stop = "an empty datagram ends the direction": regenerated from the two stream_to_udp loops
   (Generated.udp_empty_datagram_ends_{client,server}); false on the repaired tree, where a
   zero-length datagram is forwarded like any other *)
Definition udp_stop (client_side : bool) : bool :=
  if client_side then udp_empty_datagram_ends_client else udp_empty_datagram_ends_server.
Definition udp_max (client_side : bool) : N := if client_side then udp_max_client else udp_max_server.

Fixpoint udp_loop (fuel : nat) (stop : bool) (mx : N) (b : bytes) : list bytes * uend :=
  match fuel with
  | O => ([], UMore b)
  | S k =>
      match udp_read1 mx b with
      | NeedMore => ([], UMore b)
      | Reject e => ([], UErr e)
      | Accept d r =>
          if stop && is_nil d then ([], UStop r)
          else let '(ds, e) := udp_loop k stop mx r in (d :: ds, e)
      end
  end.

Definition udp_decode_all (stop : bool) (mx : N) (b : bytes) : list bytes * uend :=
  udp_loop (S (length b)) stop mx b.

(* the same loop over the reader: datagrams delivered, and how it ended
   (SPending = blocked waiting for more, SFail E_EOF = stream closed, SDone tt = stopped by an empty packet) *)
Fixpoint udp_loop_rd (fuel : nat) (stop : bool) (mx : N) (st : rd) : rd * list bytes * sres unit :=
  match fuel with
  | O => (st, [], SPending)
  | S k =>
      match run_rd (udp_read1_prog mx) st with
      | (st', SDone d) =>
          if stop && is_nil d then (st', [], SDone tt)
          else let '(st'', ds, e) := udp_loop_rd k stop mx st' in (st'', d :: ds, e)
      | (st', SFail e) => (st', [], SFail e)
      | (st', SPending) => (st', [], SPending)
      end
  end.

Definition udp_stream_rd (stop : bool) (mx : N) (chunks : list bytes) (closed : bool) : list bytes * sres unit :=
  let '(_, ds, e) := udp_loop_rd (S (length (concat chunks))) stop mx (rd_of_chunks chunks closed) in (ds, e).

(* the server-side socket of an association: bound in the family of the target iff the code says so
   (Generated.udp_server_bind_follows_target), else always IPv4; an AF_INET socket cannot send to an
   IPv6 target (EAFNOSUPPORT) *)
Inductive fam_t := F4 | F6.
Definition fam_of (d : dest) : fam_t := match d with DV6 _ => F6 | _ => F4 end.
Definition udp_bind_fam (target : fam_t) : fam_t := if udp_server_bind_follows_target then target else F4.
Definition udp_can_send (sock target : fam_t) : bool :=
  match sock, target with F4, F4 | F6, F6 => true | _, _ => false end.
