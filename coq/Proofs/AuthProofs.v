(* AuthProofs.v -- lemmas behind C06 (authentication preamble, order of operations of handle_connection). *)
From Coq Require Import List NArith ZArith Lia Bool.
From AnyTLS Require Import Bytes Reader ReaderProg Generated FactsParsers Auth BytesFacts ReaderProofs.
Import ListNotations.
Open Scope N_scope.
Ltac Zify.zify_post_hook ::= Z.to_euclidean_division_equations.

(* closed form of the parser *)
Lemma auth_parse_eq H b :
  auth_parse H b =
  if 32 <=? lenN b then
    if bytes_eqb (takeN 32 b) H then
      if 34 + auth_L b <=? lenN b then Accept tt (dropN (34 + auth_L b) b) else NeedMore
    else Reject E_AUTH
  else NeedMore.
Proof.
  unfold auth_parse, auth_prog, hash_len. rewrite auth_hash_len_32. cbn [run_bytes].
  destruct (N.leb_spec 32 (lenN b)) as [H32|H32]; [|reflexivity].
  destruct (bytes_eqb (takeN 32 b) H); [|reflexivity].
  cbn [run_bytes]. rewrite lenN_dropN.
  change (de16_of (takeN 2 (dropN 32 b))) with (de16_of (takeN 2 (dropN 32 b))).
  rewrite de16_of_take2_drop. change (N.to_nat 32) with 32%nat. fold (auth_L b).
  destruct (N.leb_spec 2 (lenN b - 32)) as [H2|H2].
  - destruct (N.eqb_spec (auth_L b) 0) as [E0|E0].
    + rewrite E0. cbn [run_bytes]. rewrite dropN_dropN.
      destruct (N.leb_spec (34 + 0) (lenN b)); [reflexivity | lia].
    + cbn [run_bytes]. rewrite !lenN_dropN, !dropN_dropN.
      destruct (N.leb_spec (auth_L b) (lenN b - 32 - 2));
        destruct (N.leb_spec (34 + auth_L b) (lenN b)); try lia; try reflexivity.
      f_equal. f_equal. lia.
  - destruct (N.leb_spec (34 + auth_L b) (lenN b)); [lia | reflexivity].
Qed.

Lemma takeN_eq_len {A} n (b h : list A) : takeN n b = h -> lenN h = n -> n <= lenN b.
Proof. intros <- Hl. rewrite lenN_takeN_min in Hl. lia. Qed.

Section Auth.
Variable H : bytes.
Hypothesis Hlen : lenN H = 32.

Lemma auth_iff b r :
  auth_parse H b = Accept tt r <->
  takeN 32 b = H /\ 34 + auth_L b <= lenN b /\ r = dropN (34 + auth_L b) b.
Proof.
  rewrite auth_parse_eq. split.
  - destruct (N.leb_spec 32 (lenN b)); [|discriminate].
    destruct (bytes_eqb (takeN 32 b) H) eqn:E; [|discriminate].
    apply bytes_eqb_eq in E.
    destruct (N.leb_spec (34 + auth_L b) (lenN b)); [|discriminate].
    intros Hx. inversion Hx. auto.
  - intros (Ht & Hl & ->).
    destruct (N.leb_spec 32 (lenN b)); [|lia].
    rewrite Ht, bytes_eqb_refl.
    destruct (N.leb_spec (34 + auth_L b) (lenN b)); [reflexivity | lia].
Qed.

Lemma auth_reject b : 32 <= lenN b -> takeN 32 b <> H -> auth_parse H b = Reject E_AUTH.
Proof.
  clear Hlen. intros Hl Hne. rewrite auth_parse_eq.
  destruct (N.leb_spec 32 (lenN b)); [|lia].
  rewrite (bytes_eqb_neq _ _ Hne). reflexivity.
Qed.

(* a wrong preamble is never accepted, whatever follows it, and a short one is never answered *)
Lemma auth_accept_only_hash b r : auth_parse H b = Accept tt r -> takeN 32 b = H.
Proof. intros Hx. apply auth_iff in Hx. tauto. Qed.

Lemma auth_short b : lenN b < 32 -> auth_parse H b = NeedMore.
Proof. clear Hlen. intros Hl. rewrite auth_parse_eq. destruct (N.leb_spec 32 (lenN b)); [lia | reflexivity]. Qed.

Lemma auth_exact_only : exact_only E_EOF (auth_prog H).
Proof.
  unfold auth_prog, hash_len. constructor. intros h. destruct (bytes_eqb h H); [|constructor].
  constructor. intros l. destruct (de16_of l =? 0); constructor. intros _. constructor.
Qed.

(* every proper prefix of an accepted preamble is incomplete, and end-of-input there is an error *)
Lemma auth_truncated p s :
  auth_parse H (p ++ s) = Accept tt [] -> s <> [] ->
  auth_parse H p = NeedMore /\ run_eof (auth_prog H) p = FFail E_EOF.
Proof.
  intros Ha Hs. pose proof (run_bytes_proper_prefix (auth_prog H) p s tt Ha Hs) as Hn.
  split; [exact Hn|]. apply (run_eof_needmore _ _ auth_exact_only). exact Hn.
Qed.

(* the client's preamble is accepted and consumed exactly, for every padding0 length *)
Lemma auth_preamble_accepted n rest :
  n < 65536 -> auth_parse H (auth_preamble H n ++ rest) = Accept tt rest.
Proof.
  intros Hn. apply auth_iff.
  assert (Hb : auth_preamble H n ++ rest = H ++ (be16 n ++ zeros n ++ rest)).
  { unfold auth_preamble. rewrite <- !app_assoc. reflexivity. }
  assert (HL : auth_L (auth_preamble H n ++ rest) = n).
  { assert (HlenH : length H = 32%nat) by (unfold lenN in Hlen; lia).
    rewrite Hb. unfold auth_L, byte_at.
    rewrite (app_nth2 H _ 0 (n := 32)) by lia. rewrite (app_nth2 H _ 0 (n := 33)) by lia.
    rewrite HlenH. change (32 - 32)%nat with 0%nat. change (33 - 32)%nat with 1%nat.
    unfold be16. cbn [app nth]. apply de16_be16. lia. }
  rewrite HL. split; [|split].
  - rewrite Hb, <- Hlen. apply takeN_app_exact.
  - unfold auth_preamble. rewrite !lenN_app, lenN_zeros, Hlen. unfold be16, lenN. cbn [length]. lia.
  - replace (34 + n) with (lenN (auth_preamble H n)).
    + symmetry. apply dropN_app_exact.
    + unfold auth_preamble. rewrite !lenN_app, lenN_zeros, Hlen. unfold be16, lenN. cbn [length]. lia.
Qed.

Section Conn.
Variable ev : Type.
Variable session : bytes -> bool -> list ev.

(* handle_connection for any fragmentation of the transport: the session exists iff the preamble was
   accepted, and then it is fed exactly the bytes after the preamble *)
Lemma server_conn_eq chunks closed :
  server_conn ev session H chunks closed =
  match auth_parse H (concat chunks) with
  | Accept _ r => CAuthOk :: map CSession (session r closed)
  | Reject e => [CAuthFail e]
  | NeedMore => if closed then [CAuthFail E_EOF] else []
  end.
Proof.
  unfold server_conn, auth_parse.
  destruct (run_bytes (auth_prog H) (concat chunks)) as [|e|v r] eqn:E.
  - destruct closed.
    + pose proof (run_chunks_closed (auth_prog H) chunks) as Hc. unfold run_chunks in Hc.
      rewrite (run_eof_needmore _ _ auth_exact_only _ E) in Hc. cbn [sres_of_fres] in Hc.
      destruct (run_rd (auth_prog H) (rd_of_chunks chunks true)) as [st' x]. cbn [snd] in Hc. subst x. reflexivity.
    + pose proof (run_chunks_open (auth_prog H) chunks) as Hc. unfold run_chunks in Hc.
      rewrite E in Hc. cbn [sres_of_pres] in Hc.
      destruct (run_rd (auth_prog H) (rd_of_chunks chunks false)) as [st' x]. cbn [snd] in Hc. subst x. reflexivity.
  - destruct closed.
    + pose proof (run_chunks_closed (auth_prog H) chunks) as Hc. unfold run_chunks in Hc.
      rewrite (run_eof_of_reject _ _ _ E) in Hc. cbn [sres_of_fres] in Hc.
      destruct (run_rd (auth_prog H) (rd_of_chunks chunks true)) as [st' x]. cbn [snd] in Hc. subst x. reflexivity.
    + pose proof (run_chunks_open (auth_prog H) chunks) as Hc. unfold run_chunks in Hc.
      rewrite E in Hc. cbn [sres_of_pres] in Hc.
      destruct (run_rd (auth_prog H) (rd_of_chunks chunks false)) as [st' x]. cbn [snd] in Hc. subst x. reflexivity.
  - destruct (run_rd_chunks_rest (auth_prog H) chunks closed v r E) as (st' & Hr & Hp & Hc & _).
    rewrite Hr, Hp, Hc. destruct v. reflexivity.
Qed.

Lemma server_conn_no_effects chunks closed :
  (forall e, In (CSession e) (server_conn ev session H chunks closed) ->
     exists r, auth_parse H (concat chunks) = Accept tt r /\ In e (session r closed)) /\
  (In CAuthOk (server_conn ev session H chunks closed) ->
     exists r, auth_parse H (concat chunks) = Accept tt r) /\
  (forall r, auth_parse H (concat chunks) = Accept tt r ->
     server_conn ev session H chunks closed = CAuthOk :: map CSession (session r closed)).
Proof.
  rewrite server_conn_eq. destruct (auth_parse H (concat chunks)) as [|e|[] r] eqn:E.
  - split; [|split].
    + intros e Hin. destruct closed; cbn in Hin; [destruct Hin as [Hin|[]]; discriminate | contradiction].
    + intros Hin. destruct closed; cbn in Hin; [destruct Hin as [Hin|[]]; discriminate | contradiction].
    + discriminate.
  - split; [|split].
    + intros e' Hin. cbn in Hin. destruct Hin as [Hin|[]]; discriminate.
    + intros Hin. cbn in Hin. destruct Hin as [Hin|[]]; discriminate.
    + discriminate.
  - split; [|split].
    + intros e Hin. exists r. split; [reflexivity|]. cbn [In] in Hin. destruct Hin as [Hin|Hin]; [discriminate|].
      apply in_map_iff in Hin. destruct Hin as (x & Hx & Hin). inversion Hx; subst. exact Hin.
    + intros _. exists r. reflexivity.
    + intros r' Hr'. inversion Hr'; subst. reflexivity.
Qed.

End Conn.
End Auth.
