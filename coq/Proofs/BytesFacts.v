(* BytesFacts.v -- arithmetic and list lemmas shared by all proofs. *)
From Coq Require Import List NArith ZArith Lia Bool.
From AnyTLS Require Import Bytes.
Import ListNotations.
Open Scope N_scope.
Ltac Zify.zify_post_hook ::= Z.to_euclidean_division_equations.

Lemma be16_de16 a b : a < 256 -> b < 256 -> be16 (de16 a b) = [a; b].
Proof. intros Ha Hb. unfold be16, de16. f_equal; [|f_equal]; lia. Qed.

Lemma de16_be16 n : n < 65536 -> de16 ((n / 256) mod 256) (n mod 256) = n.
Proof. intros H. unfold de16. lia. Qed.

Lemma de16_lt a b : a < 256 -> b < 256 -> de16 a b < 65536.
Proof. unfold de16. lia. Qed.

Lemma be32_de32 a b c d : a < 256 -> b < 256 -> c < 256 -> d < 256 ->
  be32 (de32 a b c d) = [a; b; c; d].
Proof. intros. unfold be32, de32. repeat f_equal; lia. Qed.

Lemma de32_be32 n : n < 4294967296 ->
  de32 ((n / 16777216) mod 256) ((n / 65536) mod 256) ((n / 256) mod 256) (n mod 256) = n.
Proof. intros H. unfold de32. lia. Qed.

Lemma de32_lt a b c d : a < 256 -> b < 256 -> c < 256 -> d < 256 -> de32 a b c d < 4294967296.
Proof. unfold de32. lia. Qed.

Lemma wfb_be16 n : wfb (be16 n).
Proof. unfold wfb, be16. repeat constructor; lia. Qed.

Lemma wfb_be32 n : wfb (be32 n).
Proof. unfold wfb, be32. repeat constructor; lia. Qed.

Lemma wfb_app a b : wfb (a ++ b) <-> wfb a /\ wfb b.
Proof. unfold wfb. apply Forall_app. Qed.

Lemma wfb_cons x a : wfb (x :: a) <-> x < 256 /\ wfb a.
Proof. unfold wfb. split; intros H; [inversion H; auto | destruct H; constructor; auto]. Qed.

Lemma wfbb_spec b : wfbb b = true <-> wfb b.
Proof.
  unfold wfbb, wfb. rewrite forallb_forall, Forall_forall.
  split; intros H x Hx; specialize (H x Hx); [apply N.ltb_lt | apply N.ltb_lt in H]; exact H.
Qed.

Lemma wfb_zeros n : wfb (zeros n).
Proof. unfold wfb, zeros. apply Forall_forall. intros x Hx. apply repeat_spec in Hx. lia. Qed.

Lemma lenN_app {A} (a b : list A) : lenN (a ++ b) = lenN a + lenN b.
Proof. unfold lenN. rewrite app_length. lia. Qed.

Lemma lenN_cons {A} (x : A) a : lenN (x :: a) = 1 + lenN a.
Proof. unfold lenN. cbn [length]. lia. Qed.

Lemma lenN_nil {A} : lenN (@nil A) = 0.
Proof. reflexivity. Qed.

Lemma lenN_zeros n : lenN (zeros n) = n.
Proof. unfold lenN, zeros. rewrite repeat_length. lia. Qed.

Lemma takeN_app_exact {A} (d r : list A) : takeN (lenN d) (d ++ r) = d.
Proof.
  unfold takeN, lenN. rewrite Nat2N.id.
  rewrite firstn_app, Nat.sub_diag, firstn_all. cbn. apply app_nil_r.
Qed.

Lemma dropN_app_exact {A} (d r : list A) : dropN (lenN d) (d ++ r) = r.
Proof.
  unfold dropN, lenN. rewrite Nat2N.id.
  rewrite skipn_app, Nat.sub_diag, skipn_all. reflexivity.
Qed.

Lemma takeN_dropN {A} n (l : list A) : takeN n l ++ dropN n l = l.
Proof. apply firstn_skipn. Qed.

Lemma lenN_takeN {A} n (l : list A) : n <= lenN l -> lenN (takeN n l) = n.
Proof. unfold lenN, takeN. intros H. rewrite firstn_length. lia. Qed.

Lemma lenN_dropN {A} n (l : list A) : lenN (dropN n l) = lenN l - n.
Proof. unfold lenN, dropN. rewrite skipn_length. lia. Qed.

Lemma takeN_app_le {A} n (l c : list A) : n <= lenN l -> takeN n (l ++ c) = takeN n l.
Proof.
  unfold takeN, lenN. intros H. rewrite firstn_app.
  replace (N.to_nat n - length l)%nat with 0%nat by lia. cbn. apply app_nil_r.
Qed.

Lemma dropN_app_le {A} n (l c : list A) : n <= lenN l -> dropN n (l ++ c) = dropN n l ++ c.
Proof.
  unfold dropN, lenN. intros H. rewrite skipn_app.
  replace (N.to_nat n - length l)%nat with 0%nat by lia. reflexivity.
Qed.

Lemma wfb_take_drop n l : wfb l -> wfb (takeN n l) /\ wfb (dropN n l).
Proof. intros H. rewrite <- (takeN_dropN n l) in H. apply wfb_app in H. exact H. Qed.
