(* CertReloadProofs.v -- proofs about Model/CertReload.v (C18).
   All statements hold for EVERY environment (PEM/X.509 parsers, key-match test, clocks): the section
   variables are universally quantified in the closed lemmas. *)
From Coq Require Import List NArith ZArith Bool Lia.
From AnyTLS Require Import Generated FactsCert CertReload.
Import ListNotations.
Open Scope Z_scope.

Section Proofs.
  Variables blob chain pkey ident : Type.
  Variable parse_certs : blob -> option chain.
  Variable parse_key   : blob -> option pkey.
  Variable pair_ok     : chain -> pkey -> bool.
  Variable parse_info  : blob -> option (ident * Z).
  Variable check_expiry : bool.

  Notation cr_load := (cr_load blob chain pkey ident parse_certs parse_key pair_ok parse_info).
  Notation cr_analyze := (cr_analyze blob ident parse_info).
  Notation cr_new := (cr_new blob chain pkey ident parse_certs parse_key pair_ok parse_info).
  Notation cr_reload := (cr_reload blob chain pkey ident parse_certs parse_key pair_ok parse_info check_expiry).
  Notation cr_run_state := (cr_run_state blob chain pkey ident parse_certs parse_key pair_ok parse_info check_expiry).
  Notation cr_outcomes := (cr_outcomes blob chain pkey ident parse_certs parse_key pair_ok parse_info check_expiry).
  Notation cr_step := (cr_step blob chain pkey ident parse_certs parse_key pair_ok parse_info check_expiry).
  Notation cr_run := (cr_run blob chain pkey ident parse_certs parse_key pair_ok parse_info check_expiry).
  Notation cr_state := (cr_state blob chain pkey ident).
  Notation cr_sys := (cr_sys blob chain pkey ident).
  Notation cr_loaded := (cr_loaded blob chain pkey).

  (* a pair that passed every check of one load *)
  Definition valid_pair (l : cr_loaded) : Prop :=
    parse_certs (l_cert l) = Some (l_chain l) /\
    parse_key (l_key l) = Some (l_pkey l) /\
    pair_ok (l_chain l) (l_pkey l) = true.

  (* ---------------------------------------------------------------- load *)
  Lemma load_ok_inv : forall rd w l oi,
    cr_load rd w = inl (l, oi) ->
    rd_cert rd = Some (l_cert l) /\ rd_key rd = Some (l_key l) /\ valid_pair l /\
    oi = cr_analyze w (l_cert l).
  Proof.
    intros rd w l oi H. unfold CertReload.cr_load in H.
    destruct (rd_cert rd) as [cb|] eqn:Ec; [|discriminate].
    destruct (parse_certs cb) as [ch|] eqn:Ep; [|discriminate].
    destruct (rd_key rd) as [kb|] eqn:Ek; [|discriminate].
    destruct (parse_key kb) as [k|] eqn:Epk; [|discriminate].
    destruct (pair_ok ch k) eqn:Eok; [|discriminate].
    inversion H; subst; clear H. cbn.
    unfold valid_pair; cbn. repeat split; auto.
  Qed.

  (* the second-read field is never consulted *)
  Lemma load_ignores_second_read : forall c k c2 c2' w,
    cr_load (Build_cr_reads c k c2) w = cr_load (Build_cr_reads c k c2') w.
  Proof. reflexivity. Qed.

  (* ---------------------------------------------------------------- one reload *)
  Lemma reload_cases : forall st rd c,
    (exists e, cr_reload st rd c = (st, CrErr e)) \/
    (exists l i,
        cr_load rd (cr_wall_an c) = inl (l, Some i) /\
        (check_expiry && cr_expired_at_reload ident c i) = false /\
        ((cr_count st <> cr_u64_max /\
          cr_reload st rd c = (Build_cr_state l (Some i) (cr_count st + 1)%N (Some (cr_mono c)), CrOk)) \/
         (cr_count st = cr_u64_max /\
          cr_reload st rd c = (Build_cr_state l (Some i) (cr_count st) (cr_last st), CrPanic)))).
  Proof.
    intros st rd c. unfold CertReload.cr_reload.
    destruct (cr_load rd (cr_wall_an c)) as [[l [i|]]|e] eqn:El.
    - destruct (check_expiry && cr_expired_at_reload ident c i) eqn:Ex.
      + left; eexists; reflexivity.
      + right. exists l, i. split; [reflexivity|]. split; [exact Ex|].
        destruct (N.eqb_spec (cr_count st) cr_u64_max) as [E|E].
        * right; split; [exact E | reflexivity].
        * left; split; [exact E | reflexivity].
    - left; eexists; reflexivity.
    - left; eexists; reflexivity.
  Qed.

  Lemma fail_unchanged : forall st rd c st' e,
    cr_reload st rd c = (st', CrErr e) -> st' = st.
  Proof.
    intros st rd c st' e H.
    destruct (reload_cases st rd c) as [[e' E]|(l & i & _ & _ & [[_ E]|[_ E]])];
      rewrite E in H; inversion H; reflexivity.
  Qed.

  Lemma not_expired_at_check : forall c (i : certinfo ident),
    cr_expired_at_reload ident c i = false -> cr_wall_chk c <= ci_not_after i.
  Proof.
    intros c i H. unfold cr_expired_at_reload in H.
    rewrite cert_reload_expiry_exact in H.
    apply orb_false_iff in H. destruct H as [_ H]. cbn in H.
    apply Z.ltb_ge in H. exact H.
  Qed.

  Lemma success_pair : forall st rd c st',
    cr_reload st rd c = (st', CrOk) ->
    exists i,
      rd_cert rd = Some (l_cert (cr_active st')) /\ rd_key rd = Some (l_key (cr_active st')) /\
      valid_pair (cr_active st') /\
      cr_analyze (cr_wall_an c) (l_cert (cr_active st')) = Some i /\ cr_info st' = Some i /\
      (check_expiry = true -> cr_wall_chk c <= ci_not_after i) /\
      cr_count st' = (cr_count st + 1)%N /\ cr_last st' = Some (cr_mono c).
  Proof.
    intros st rd c st' H.
    destruct (reload_cases st rd c) as [[e' E]|(l & i & El & Ex & [[_ E]|[_ E]])];
      rewrite E in H; inversion H; subst; clear H.
    apply load_ok_inv in El. destruct El as (Hc & Hk & Hv & Hi).
    exists i. cbn. repeat split; auto.
    - apply Hv. - apply Hv. - apply Hv.
    - intro Hce. rewrite Hce in Ex. cbn in Ex. apply not_expired_at_check; exact Ex.
  Qed.

  (* an expired certificate is refused (with the expiry check on), whatever else is on disk *)
  Lemma expired_fails : forall st rd c cb id na r st',
    check_expiry = true ->
    rd_cert rd = Some cb -> parse_info cb = Some (id, na) -> na < cr_wall_chk c ->
    cr_reload st rd c = (st', r) -> st' = st /\ exists e, r = CrErr e.
  Proof.
    intros st rd c cb id na r st' Hce Hc Hp Hlt H.
    destruct (reload_cases st rd c) as [[e' E]|(l & i & El & Ex & Hrest)].
    - rewrite E in H; inversion H; subst. split; [reflexivity | eexists; reflexivity].
    - exfalso. apply load_ok_inv in El. destruct El as (Hc' & _ & _ & Hi).
      rewrite Hc in Hc'. inversion Hc'; subst cb.
      unfold CertReload.cr_analyze in Hi. rewrite Hp in Hi. inversion Hi; subst i; clear Hi.
      rewrite Hce in Ex. cbn [andb] in Ex.
      apply not_expired_at_check in Ex. cbn in Ex. lia.
  Qed.

  (* every failure class: missing file, no PEM certificate / key, key mismatch, unparsable leaf *)
  Lemma bad_input_fails : forall st rd c,
    (rd_cert rd = None \/ rd_key rd = None \/
     (exists cb, rd_cert rd = Some cb /\ (parse_certs cb = None \/ parse_info cb = None)) \/
     (exists kb, rd_key rd = Some kb /\ parse_key kb = None) \/
     (exists cb kb ch k, rd_cert rd = Some cb /\ rd_key rd = Some kb /\
        parse_certs cb = Some ch /\ parse_key kb = Some k /\ pair_ok ch k = false)) ->
    exists e, cr_reload st rd c = (st, CrErr e).
  Proof.
    intros st rd c H.
    destruct (reload_cases st rd c) as [E|(l & i & El & _ & _)]; [exact E|].
    exfalso. apply load_ok_inv in El. destruct El as (Hc & Hk & (Hpc & Hpk & Hok) & Hi).
    destruct H as [H|[H|[(cb & H1 & H2)|[(kb & H1 & H2)|(cb & kb & ch & k & H1 & H2 & H3 & H4 & H5)]]]].
    - congruence.
    - congruence.
    - rewrite Hc in H1; inversion H1; subst cb. destruct H2 as [H2|H2]; [congruence|].
      unfold CertReload.cr_analyze in Hi. rewrite H2 in Hi. discriminate.
    - rewrite Hk in H1; inversion H1; subst kb. congruence.
    - rewrite Hc in H1; inversion H1; subst cb. rewrite Hk in H2; inversion H2; subst kb.
      rewrite Hpc in H3; inversion H3; subst ch. rewrite Hpk in H4; inversion H4; subst k. congruence.
  Qed.

  (* ---------------------------------------------------------------- histories *)
  Lemma run_state_app : forall evs1 evs2 st,
    cr_run_state st (evs1 ++ evs2) = cr_run_state (cr_run_state st evs1) evs2.
  Proof.
    induction evs1 as [|[rd c] evs1 IH]; intros; cbn; [reflexivity | apply IH].
  Qed.

  (* the event that installed the current pair *)
  Definition installed_by (st0 st : cr_state) (rd0 : cr_reads blob) (c0 : cr_clock) (evs : list (cr_reads blob * cr_clock))
             (rd : cr_reads blob) (c : cr_clock) : Prop :=
    rd_cert rd = Some (l_cert (cr_active st)) /\ rd_key rd = Some (l_key (cr_active st)) /\
    valid_pair (cr_active st) /\
    cr_info st = cr_analyze (cr_wall_an c) (l_cert (cr_active st)) /\
    (((rd, c) = (rd0, c0) /\ cr_active st = cr_active st0 /\ cr_info st = cr_info st0) \/
     (In (rd, c) evs /\ exists i, cr_info st = Some i /\
                                 (check_expiry = true -> cr_wall_chk c <= ci_not_after i))).

  Lemma installed_by_weaken : forall st0 st rd0 c0 evs evs' rd c,
    installed_by st0 st rd0 c0 evs rd c -> (forall x, In x evs -> In x evs') ->
    installed_by st0 st rd0 c0 evs' rd c.
  Proof.
    intros st0 st rd0 c0 evs evs' rd c (H1 & H2 & H3 & H4 & H5) Hin.
    repeat split; try apply H3; auto.
    destruct H5 as [H5|[H5 H6]]; [left; exact H5 | right; split; auto].
  Qed.

  Lemma invariant_step : forall st0 rd0 c0 pre st rd c,
    (exists rdx cx, installed_by st0 st rd0 c0 pre rdx cx) ->
    exists rdx cx, installed_by st0 (fst (cr_reload st rd c)) rd0 c0 (pre ++ [(rd, c)]) rdx cx.
  Proof.
    intros st0 rd0 c0 pre st rd c (rdx & cx & Hinst).
    destruct (reload_cases st rd c) as [[e E]|(l & i & El & Ex & Hrest)].
    - rewrite E. cbn. exists rdx, cx. eapply installed_by_weaken; [exact Hinst|].
      intros x Hx. apply in_or_app; left; exact Hx.
    - exists rd, c.
      apply load_ok_inv in El. destruct El as (Hc & Hk & Hv & Hi).
      assert (Hin : In (rd, c) (pre ++ [(rd, c)])) by (apply in_or_app; right; left; reflexivity).
      assert (Hexp : check_expiry = true -> cr_wall_chk c <= ci_not_after i).
      { intro Hce. rewrite Hce in Ex. cbn [andb] in Ex. apply not_expired_at_check; exact Ex. }
      destruct Hrest as [[_ E]|[_ E]]; rewrite E; cbn;
        (unfold installed_by; cbn; repeat split; auto; try apply Hv;
         right; split; [exact Hin | exists i; split; [reflexivity | exact Hexp]]).
  Qed.

  Lemma invariant_from : forall evs st0 rd0 c0 pre st,
    (exists rdx cx, installed_by st0 st rd0 c0 pre rdx cx) ->
    exists rdx cx, installed_by st0 (cr_run_state st evs) rd0 c0 (pre ++ evs) rdx cx.
  Proof.
    induction evs as [|[rd c] evs IH]; intros st0 rd0 c0 pre st H.
    - cbn. rewrite app_nil_r. exact H.
    - cbn [CertReload.cr_run_state].
      replace (pre ++ (rd, c) :: evs) with ((pre ++ [(rd, c)]) ++ evs)
        by (rewrite <- app_assoc; reflexivity).
      apply IH. apply invariant_step. exact H.
  Qed.

  Lemma new_installed : forall rd0 c0 st0,
    cr_new rd0 c0 = inl st0 ->
    installed_by st0 st0 rd0 c0 [] rd0 c0 /\ cr_count st0 = 0%N /\ cr_last st0 = None.
  Proof.
    intros rd0 c0 st0 H. unfold CertReload.cr_new in H.
    destruct (cr_load rd0 (cr_wall_an c0)) as [[l oi]|e] eqn:El; [|discriminate].
    inversion H; subst; clear H. apply load_ok_inv in El.
    destruct El as (Hc & Hk & Hv & Hi). cbn.
    split; [|split; reflexivity].
    unfold installed_by; cbn. repeat split; auto; try apply Hv.
  Qed.

  (* C18_invariant: in every history the served pair and the reported information were produced by
     ONE load: certificate and key bytes returned to the reads of one (re)load event of the history,
     which passed PEM parsing and the key-match test together, and the information is the analysis of
     exactly those certificate bytes; if installed by a reload (check on) it was unexpired then. *)
  Theorem invariant : forall rd0 c0 st0 evs,
    cr_new rd0 c0 = inl st0 ->
    exists rd c, installed_by st0 (cr_run_state st0 evs) rd0 c0 evs rd c.
  Proof.
    intros rd0 c0 st0 evs H. apply new_installed in H. destruct H as [H _].
    change evs with ([] ++ evs) at 2.
    apply invariant_from. exists rd0, c0. exact H.
  Qed.

  (* ---------------------------------------------------------------- counters *)
  Lemma count_step : forall st rd c,
    (cr_count (fst (cr_reload st rd c)) <= cr_count st + 1)%N /\
    (snd (cr_reload st rd c) = CrPanic -> cr_count st = cr_u64_max).
  Proof.
    intros st rd c.
    destruct (reload_cases st rd c) as [[e E]|(l & i & _ & _ & [[Hn E]|[Hn E]])]; rewrite E; cbn.
    - split; [lia | discriminate].
    - split; [lia | discriminate].
    - split; [lia | auto].
  Qed.

  Lemma count_bound : forall evs st,
    (cr_count (cr_run_state st evs) <= cr_count st + N.of_nat (length evs))%N.
  Proof.
    induction evs as [|[rd c] evs IH]; intros st; cbn [CertReload.cr_run_state length].
    - lia.
    - specialize (IH (fst (cr_reload st rd c))). pose proof (count_step st rd c) as [H _]. lia.
  Qed.

  (* the checked increment cannot overflow in any history of fewer than 2^64 - 1 reload requests *)
  Theorem no_panic : forall evs st,
    (cr_count st + N.of_nat (length evs) <= cr_u64_max)%N -> ~ In CrPanic (cr_outcomes st evs).
  Proof.
    induction evs as [|[rd c] evs IH]; intros st Hb Hin; cbn in Hin; [exact Hin|].
    cbn [length] in Hb.
    pose proof (count_step st rd c) as [Hle Hp].
    destruct Hin as [Hin|Hin].
    - apply Hp in Hin. lia.
    - apply (IH (fst (cr_reload st rd c))); [lia | exact Hin].
  Qed.

  (* ---------------------------------------------------------------- a success stays in force *)
  Theorem failures_keep_state : forall evs st,
    Forall (fun r => exists e, r = CrErr e) (cr_outcomes st evs) -> cr_run_state st evs = st.
  Proof.
    induction evs as [|[rd c] evs IH]; intros st H; cbn in *; [reflexivity|].
    inversion H as [|r rs [e He] Hrs]; subst.
    assert (Hst : fst (cr_reload st rd c) = st).
    { destruct (cr_reload st rd c) as [st' r] eqn:E. cbn in *. subst r. eapply fail_unchanged; exact E. }
    rewrite Hst in *. apply IH. exact Hrs.
  Qed.

  (* ---------------------------------------------------------------- snapshots *)
  Lemma step_conns_prefix : forall s o, exists tl, cr_conns (cr_step s o) = cr_conns s ++ tl.
  Proof.
    intros s [rd c| |]; cbn.
    - exists []; rewrite app_nil_r; reflexivity.
    - eexists; reflexivity.
    - exists []; rewrite app_nil_r; reflexivity.
  Qed.

  Lemma step_sess_prefix : forall s o, exists tl, cr_sess (cr_step s o) = cr_sess s ++ tl.
  Proof.
    intros s [rd c| |]; cbn.
    - exists []; rewrite app_nil_r; reflexivity.
    - exists []; rewrite app_nil_r; reflexivity.
    - eexists; reflexivity.
  Qed.

  Lemma run_prefix : forall ops s,
    (exists tl, cr_conns (cr_run s ops) = cr_conns s ++ tl) /\ (exists tl, cr_sess (cr_run s ops) = cr_sess s ++ tl).
  Proof.
    induction ops as [|o ops IH]; intros s; cbn [CertReload.cr_run].
    - split; exists []; rewrite app_nil_r; reflexivity.
    - destruct (IH (cr_step s o)) as [[t1 H1] [t2 H2]].
      destruct (step_conns_prefix s o) as [u1 U1]. destruct (step_sess_prefix s o) as [u2 U2].
      split.
      + exists (u1 ++ t1). rewrite H1, U1, app_assoc. reflexivity.
      + exists (u2 ++ t2). rewrite H2, U2, app_assoc. reflexivity.
  Qed.

  Lemma run_app : forall ops1 ops2 s, cr_run s (ops1 ++ ops2) = cr_run (cr_run s ops1) ops2.
  Proof. induction ops1 as [|o ops1 IH]; intros; cbn; [reflexivity | apply IH]. Qed.

  Lemma nth_error_app_here : forall (A : Type) (l tl : list A) (x : A),
    nth_error ((l ++ [x]) ++ tl) (length l) = Some x.
  Proof.
    intros A l tl x. rewrite <- app_assoc. rewrite nth_error_app2 by lia.
    rewrite Nat.sub_diag. reflexivity.
  Qed.

  (* a connection accepted after `before` uses the pair active at that moment, whatever happens later *)
  Theorem snapshot_conn : forall s before after,
    nth_error (cr_conns (cr_run s (before ++ CrAccept :: after))) (length (cr_conns (cr_run s before)))
    = Some (cr_active (cr_rl (cr_run s before))).
  Proof.
    intros s before after. rewrite run_app. cbn [CertReload.cr_run].
    destruct (run_prefix after (cr_step (cr_run s before) CrAccept)) as [[tl H] _].
    rewrite H. cbn [CertReload.cr_step cr_conns]. apply nth_error_app_here.
  Qed.

  Theorem snapshot_sess : forall s before after,
    nth_error (cr_sess (cr_run s (before ++ CrEstablish :: after))) (length (cr_sess (cr_run s before)))
    = Some (cr_active (cr_rl (cr_run s before))).
  Proof.
    intros s before after. rewrite run_app. cbn [CertReload.cr_run].
    destruct (run_prefix after (cr_step (cr_run s before) CrEstablish)) as [_ [tl H]].
    rewrite H. cbn [CertReload.cr_step cr_sess]. apply nth_error_app_here.
  Qed.

  (* existing connections and sessions are never touched by later operations *)
  Theorem undisturbed : forall s ops j a,
    (nth_error (cr_conns s) j = Some a -> nth_error (cr_conns (cr_run s ops)) j = Some a) /\
    (nth_error (cr_sess s) j = Some a -> nth_error (cr_sess (cr_run s ops)) j = Some a).
  Proof.
    intros s ops j a. destruct (run_prefix ops s) as [[t1 H1] [t2 H2]].
    split; intro H; [rewrite H1 | rewrite H2];
      (rewrite nth_error_app1; [exact H | apply nth_error_Some; congruence]).
  Qed.

  (* the reloader component of a system run is the history of its reload events *)
  Fixpoint reload_events (ops : list (cr_op blob)) : list (cr_reads blob * cr_clock) :=
    match ops with
    | [] => []
    | CrReload rd c :: ops' => (rd, c) :: reload_events ops'
    | _ :: ops' => reload_events ops'
    end.

  Lemma rl_run : forall ops s, cr_rl (cr_run s ops) = cr_run_state (cr_rl s) (reload_events ops).
  Proof.
    induction ops as [|[rd c| |] ops IH]; intros s; cbn [CertReload.cr_run reload_events CertReload.cr_run_state];
      try reflexivity; rewrite IH; reflexivity.
  Qed.
End Proofs.
