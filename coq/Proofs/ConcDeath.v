(* ConcDeath.v -- C09 core on Model/Conc.v: no task can be blocked forever by the session's own locks,
   a closed session ends up shut down with its tables drained, every waiter released, and every later
   write or open fails. All statements hold for every program list and every schedule. *)
From Coq Require Import List NArith ZArith Lia Bool Arith.
From AnyTLS Require Import Bytes Cmd Generated Frame Conc ConcInv ConcLin.
Import ListNotations.
Arguments push_item : simpl never.
Arguments wake_pump_closed : simpl never.

Ltac push_closed C' :=
  match type of C' with
  | context [closed (push_item ?a ?b ?c)] => let F := fresh "F" in destruct (flags_push a b c) as (_ & _ & F & _); rewrite F in C'
  end.
Ltac wake_closed C' :=
  match type of C' with
  | context [closed (wake_pump_closed ?a)] => let F := fresh "F" in destruct (flags_wake a) as (_ & _ & F & _); rewrite F in C'
  end.

(* ---- what a step can do to the pc of ANOTHER task ---- *)
Definition rel_effect (s s' : state) (w : tid) : Prop :=
  pcof s' w = pcof s w
  \/ (exists k f, pcof s w = PW2wait k f /\ pcof s' w = PW3 k f)
  \/ (exists a k, pcof s w = PC2wait a k /\ pcof s' w = PIdle /\ shutd s' = true).

Definition other_effect (s s' : state) (w : tid) : Prop :=
  rel_effect s s' w
  \/ (w = rtid /\ pcof s w = PIdle /\ (pcof s' w = PC1 AfterRecv WkPlain \/ pcof s' w = PE0 AfterRecv WkPlain))
  \/ (pcof s w = PPwait /\ pump_target (pcof s' w)).

Lemma release_ws_others ws : forall s t,
  leaving s t ws -> forall w, w <> t -> rel_effect s (release_ws ws s) w.
Proof.
  induction ws as [|x ws IH]; intros s t L w Hw.
  - left. reflexivity.
  - destruct L as (Hnd & Hnin & Hwt & Hh).
    assert (x <> t) as Hxt by (intros ->; apply Hnin; left; reflexivity).
    assert (waits_pc (pcof s x) = true) as Hwx by (apply Hwt; [exact Hxt | left; reflexivity]).
    inversion Hnd as [|? ? Hnx Hnd']; subst.
    cbn [release_ws]. unfold pcof in Hwx. destruct (t_pc (tasks s x)) eqn:Epc; try discriminate.
    + destruct (Nat.eq_dec w x) as [->|Hne].
      * right; left. exists k, f. split; [unfold pcof; exact Epc|].
        unfold pcof. cbn. rewrite upd_same. reflexivity.
      * left. unfold pcof. cbn. rewrite upd_other by exact Hne. reflexivity.
    + set (s1 := finish_close (shutdown_tr s) x a k).
      assert (leaving s1 t ws) as L1.
      { unfold leaving. split; [exact Hnd' | split; [intros H1; apply Hnin; right; exact H1 | split]].
        - intros t' Hne. split.
          + intros H1. destruct (Nat.eq_dec t' x) as [->|Hne2].
            * unfold s1 in H1. rewrite pcof_finish_close_same in H1. discriminate.
            * unfold s1 in H1. rewrite pcof_finish_close_other in H1 by exact Hne2.
              rewrite pcof_shutdown_tr in H1.
              apply Hwt in H1; [|exact Hne]. destruct H1 as [->|H1]; [contradiction | exact H1].
          + intros H1. destruct (Nat.eq_dec t' x) as [->|Hne2]; [contradiction|].
            unfold s1. rewrite pcof_finish_close_other by exact Hne2.
            rewrite pcof_shutdown_tr. apply Hwt; [exact Hne | right; exact H1].
        - intros t' Hne. destruct (Nat.eq_dec t' x) as [->|Hne2].
          + unfold s1. rewrite pcof_finish_close_same. reflexivity.
          + unfold s1. rewrite pcof_finish_close_other by exact Hne2.
            rewrite pcof_shutdown_tr. apply Hh. exact Hne. }
      assert (shutd (release_ws ws s1) = true) as Hsh.
      { pose proof (shutd_shutdown_tr s) as S0. unfold shutd in *. apply orb_true_iff in S0. apply orb_true_iff.
        destruct S0 as [S0|S0].
        - left. destruct (release_ws_data ws s1) as (_ & _ & _ & _ & _ & M). apply M.
          unfold s1. destruct (data_finish_close (shutdown_tr s) x a k) as (_ & _ & _ & _ & _ & F). rewrite F. exact S0.
        - right. rewrite stalled_release_ws. unfold s1. rewrite stalled_finish_close. exact S0. }
      destruct (Nat.eq_dec w x) as [->|Hne].
      * right; right. exists a, k. split; [unfold pcof; exact Epc | split; [|exact Hsh]].
        destruct (IH s1 t L1 x Hxt) as [H|[(k' & f' & A & _)|(a' & k' & A & _)]].
        -- rewrite H. unfold s1. apply pcof_finish_close_same.
        -- unfold s1 in A. rewrite pcof_finish_close_same in A. discriminate.
        -- unfold s1 in A. rewrite pcof_finish_close_same in A. discriminate.
      * assert (pcof s1 w = pcof s w) as E1.
        { unfold s1. rewrite pcof_finish_close_other by exact Hne. apply pcof_shutdown_tr. }
        destruct (IH s1 t L1 w Hw) as [H|[(k' & f' & A & B)|(a' & k' & A & B & C)]].
        -- left. congruence.
        -- right; left. exists k', f'. split; congruence.
        -- right; right. exists a', k'. repeat split; congruence.
Qed.

Lemma oe_rel s s' w : rel_effect s s' w -> other_effect s s' w.
Proof. intros H. left. exact H. Qed.
Lemma oe_same s s' w : pcof s' w = pcof s w -> other_effect s s' w.
Proof. intros H. left. left. exact H. Qed.
Lemma oe_of_pcu s s' t p w : pc_update s s' t p -> w <> t -> other_effect s s' w.
Proof. intros (_ & _ & _ & E) H. apply oe_same. apply E. exact H. Qed.
Lemma oe_of_quiet s s' w : quiet s s' -> other_effect s s' w.
Proof. intros (_ & _ & E). apply oe_same. apply E. Qed.

Lemma oe_after_quiet s s0 s' w : quiet s s0 -> other_effect s0 s' w -> other_effect s s' w.
Proof.
  intros (_ & _ & E) [[H|[(k & f & A & B)|(a & k & A & B & C)]]|[(A & B & C)|(A & B)]].
  - apply oe_same. rewrite H. apply E.
  - left; right; left. exists k, f. rewrite <- E. auto.
  - left; right; right. exists a, k. rewrite <- E. auto.
  - right; left. rewrite <- E. auto.
  - right; right. rewrite <- E. auto.
Qed.

Lemma oe_then_pcu s s1 s2 t p w :
  other_effect s s1 w -> pc_update s1 s2 t p -> w <> t -> shutd s2 = shutd s1 -> other_effect s s2 w.
Proof.
  intros O (_ & _ & _ & E) Hne Sh. specialize (E w Hne).
  destruct O as [[H|[(k & f & A & B)|(a & k & A & B & C)]]|[(A & B & [C|C])|(A & B)]].
  - apply oe_same. congruence.
  - left; right; left. exists k, f. split; congruence.
  - left; right; right. exists a, k. repeat split; congruence.
  - right; left. repeat split; auto. left. congruence.
  - right; left. repeat split; auto. right. congruence.
  - right; right. split; [exact A | rewrite E; exact B].
Qed.

Lemma oe_pump_effect s s' w : pump_effect s s' -> other_effect s s' w.
Proof.
  intros [Q|(p & E & q & T & (_ & _ & Ep & Eo))]; [apply oe_of_quiet; exact Q|].
  destruct (Nat.eq_dec w p) as [->|Hne].
  - right; right. split; [exact E | rewrite Ep; exact T].
  - apply oe_same. apply Eo. exact Hne.
Qed.

(* composition with a step-local effect that follows: the pump's wake-up happens first, inside the same step *)
Lemma oe_pump_then_same s s1 s' w :
  pump_effect s s1 -> pcof s' w = pcof s1 w -> other_effect s s' w.
Proof.
  intros P E. destruct (oe_pump_effect s s1 w P) as [[H|[(k & f & A & B)|(a & k & A & B & C)]]|[(A & B & C)|(A & B)]].
  - apply oe_same. congruence.
  - left; right; left. exists k, f. split; congruence.
  - exfalso. destruct P as [(_ & _ & Q)|(p & Ep & q & T & (_ & _ & Eq & Eo))].
    + rewrite Q in B. rewrite A in B. discriminate.
    + destruct (Nat.eq_dec w p) as [->|Hne]; [congruence|]. rewrite Eo in B by exact Hne. congruence.
  - right; left. repeat split; auto. destruct C as [C|C]; [left | right]; congruence.
  - right; right. split; [exact A | rewrite E; exact B].
Qed.

Lemma oe_enter_close s u a k w : w <> u -> other_effect s (enter_close s u a k) w.
Proof.
  intros H. unfold enter_close. destruct (closed s).
  - eapply oe_of_pcu; [apply pcu_finish_close | exact H].
  - apply oe_same. unfold pcof. cbn. rewrite upd_other by exact H. reflexivity.
Qed.

Lemma oe_feed s ev w : other_effect s (feed_ev s ev) w.
Proof.
  destruct ev; try (apply oe_of_quiet; apply quiet_feed_nonclosing; exact I);
    unfold feed_ev; destruct (negb (ralive s)); try (apply oe_same; reflexivity);
    destruct (pc_is_idle (t_pc (tasks s rtid))) eqn:E; try (apply oe_same; reflexivity);
    assert (pcof s rtid = PIdle) as Ei by (unfold pcof; destruct (t_pc (tasks s rtid)); try discriminate; reflexivity).
  - eapply oe_after_quiet; [apply quiet_mark|].
    assert (pcof (mark_state s) rtid = PIdle) as Ei' by (rewrite pcof_mark; exact Ei).
    destruct (Nat.eq_dec w rtid) as [->|Hne]; [|apply oe_enter_close; exact Hne].
    unfold enter_close. destruct (closed (mark_state s)).
    + apply oe_same. rewrite pcof_finish_close_same. symmetry. exact Ei'.
    + right; left. split; [reflexivity | split; [exact Ei'|]]. left. unfold pcof. cbn. try rewrite upd_same. reflexivity.
  - destruct (Nat.eq_dec w rtid) as [->|Hne]; [|apply oe_enter_close; exact Hne].
    unfold enter_close. destruct (closed s).
    + apply oe_same. rewrite pcof_finish_close_same. symmetry. exact Ei.
    + right; left. split; [reflexivity | split; [exact Ei|]]. left. unfold pcof. cbn. try rewrite upd_same. reflexivity.
  - destruct (Nat.eq_dec w rtid) as [->|Hne].
    + right; left. split; [reflexivity | split; [exact Ei|]]. right. unfold pcof. cbn. try rewrite upd_same. reflexivity.
    + apply oe_same. unfold pcof. cbn. rewrite upd_other by exact Hne. reflexivity.
Qed.

Lemma oe_qp s s1 s2 t p w : quiet s s1 -> pc_update s1 s2 t p -> w <> t -> other_effect s s2 w.
Proof. intros Q U H. eapply oe_after_quiet; [exact Q | eapply oe_of_pcu; eauto]. Qed.

Ltac qrl := unfold quiet; split; [reflexivity | split; [reflexivity | intros ?; reflexivity]].

Theorem step_others s t s' : Inv s -> step s t = Some s' -> forall w, w <> t -> other_effect s s' w.
Proof.
  intros HI H w Hw. unfold step in H.
  destruct (t_pc (tasks s t)) eqn:Epc.
  - destruct (t_prog (tasks s t)) as [|c rest] eqn:Eprog; [discriminate|].
    pose proof (quiet_with_prog s t rest) as Q0.
    set (s0 := set_task s t (with_prog (tasks s t) rest)) in *.
    unfold start_call in H. fold s0 in H.
    destruct c.
    + inversion H; subst. eapply oe_qp; [exact Q0 | apply pcu_set_task | exact Hw].
    + destruct (t_sid (with_prog (tasks s t) rest)); inversion H; subst.
      * eapply oe_qp; [exact Q0 | apply pcu_set_task | exact Hw].
      * eapply oe_qp; [exact Q0 | apply pcu_finish | exact Hw].
    + destruct (closed s); inversion H; subst.
      * eapply oe_qp; [exact Q0 | apply pcu_finish | exact Hw].
      * eapply oe_qp; [exact Q0 | apply pcu_set_task | exact Hw].
    + destruct (t_sid (with_prog (tasks s t) rest)); [destruct (t_verdict (with_prog (tasks s t) rest))|];
        inversion H; subst; (eapply oe_qp; [exact Q0 | apply pcu_finish | exact Hw]).
    + destruct (t_sid (with_prog (tasks s t) rest)); [destruct (t_verdict (with_prog (tasks s t) rest))|];
        inversion H; subst.
      * eapply oe_qp; [exact Q0 | apply pcu_finish | exact Hw].
      * eapply oe_qp with (s1 := set_task s0 t (with_verdict (with_prog (tasks s t) rest) (Some ResTimeout)));
          [eapply quiet_trans; [exact Q0 | apply quiet_set_task_again; reflexivity] | apply pcu_finish | exact Hw].
      * eapply oe_qp; [exact Q0 | apply pcu_finish | exact Hw].
    + destruct (t_sid (with_prog (tasks s t) rest)); [destruct (t_rq (with_prog (tasks s t) rest)) as [|q]; [destruct (t_rclosed (with_prog (tasks s t) rest))|]|];
        inversion H; subst.
      * eapply oe_qp; [exact Q0 | apply pcu_finish | exact Hw].
      * eapply oe_qp with (s1 := set_task s0 t (with_rq (with_prog (tasks s t) rest) q (t_rclosed (with_prog (tasks s t) rest))));
          [eapply quiet_trans; [exact Q0 | apply quiet_set_task_again; reflexivity] | apply pcu_finish | exact Hw].
      * eapply oe_qp; [exact Q0 | apply pcu_finish | exact Hw].
    + inversion H; subst. eapply oe_after_quiet; [exact Q0 | apply oe_enter_close; exact Hw].
    + inversion H; subst. eapply oe_qp with (s1 := set_buffering s0 false);
        [eapply quiet_trans; [exact Q0 | qrl] | apply pcu_finish | exact Hw].
    + inversion H; subst. eapply oe_qp with (s1 := set_buffering s0 true);
        [eapply quiet_trans; [exact Q0 | qrl] | apply pcu_finish | exact Hw].
    + inversion H; subst. eapply oe_qp with (s1 := set_failing s0);
        [eapply quiet_trans; [exact Q0 | qrl] | apply pcu_finish | exact Hw].
    + inversion H; subst. eapply oe_qp with (s1 := set_stalled s0);
        [eapply quiet_trans; [exact Q0 | qrl] | apply pcu_finish | exact Hw].
    + destruct (Nat.eqb t rtid); inversion H; subst.
      * eapply oe_qp; [exact Q0 | apply pcu_finish | exact Hw].
      * eapply oe_after_quiet; [exact Q0|].
        eapply oe_then_pcu; [apply oe_feed | apply pcu_finish | exact Hw | reflexivity].
    + (* CSend *)
      destruct (t_sid (with_prog (tasks s t) rest)); [destruct (t_sclosed (with_prog (tasks s t) rest) || pump_done s)|];
        inversion H; subst.
      * eapply oe_qp; [exact Q0 | apply pcu_finish | exact Hw].
      * eapply oe_after_quiet; [exact Q0|].
        eapply oe_then_pcu; [apply oe_pump_effect; apply pump_effect_push | apply pcu_finish | exact Hw | reflexivity].
      * eapply oe_qp; [exact Q0 | apply pcu_finish | exact Hw].
    + (* CPump *)
      destruct (pump_owner s) as [p|].
      * destruct (negb (Nat.eqb p t)); [|destruct (pump_done s); [|destruct (dq s) as [|[u f] q]; [|destruct (closed s)]]];
          inversion H; subst.
        -- eapply oe_qp; [exact Q0 | apply pcu_finish | exact Hw].
        -- eapply oe_qp; [exact Q0 | apply pcu_finish | exact Hw].
        -- eapply oe_qp; [exact Q0 | apply pcu_set_task | exact Hw].
        -- eapply oe_qp with (s1 := set_dq s0 q);
             [eapply quiet_trans; [exact Q0 | apply quiet_set_pump] | eapply pcu_then_quiet; [apply pcu_finish | apply quiet_set_pump] | exact Hw].
        -- eapply oe_qp with (s1 := set_dq s0 q);
             [eapply quiet_trans; [exact Q0 | apply quiet_set_pump] | apply pcu_set_task | exact Hw].
      * inversion H; subst.
        eapply oe_qp with (s1 := set_pump s0 (dq s) (pushed s) (Some t) (pump_done s));
          [eapply quiet_trans; [exact Q0 | apply quiet_set_pump] | apply pcu_finish | exact Hw].
  - destruct (closed s); [|destruct (buffering s)]; inversion H; subst.
    + eapply oe_of_pcu; [apply pcu_finish_w | exact Hw].
    + eapply oe_of_pcu; [apply pcu_set_task | exact Hw].
    + eapply oe_of_pcu; [apply pcu_set_task | exact Hw].
  - inversion H; subst.
    eapply oe_qp with (s1 := set_queue s (pending s ++ [(t, f)]) (lin s ++ [(t, f)])); [qrl | apply pcu_finish_w | exact Hw].
  - destruct (wr s); inversion H; subst; apply oe_same; unfold pcof; cbn; rewrite upd_other by exact Hw; reflexivity.
  - discriminate.
  - inversion H; subst. apply oe_same. unfold pcof. cbn. rewrite upd_other by exact Hw. reflexivity.
  - assert (wr s = Some t) as Ewr by (apply (inv_holder s HI); unfold pcof; rewrite Epc; reflexivity).
    destruct (stalled s && negb (shut s)); [discriminate|].
    destruct (failing s || shut s); inversion H; subst.
    + set (s1 := set_wire s (pkt s + 1)%N (wire s)).
      assert (Inv s1) as HI1 by (eapply inv_quiet; [exact HI | qrl]).
      pose proof (release_ws_others (waiters s1) s1 t (leaving_of_inv s1 t HI1 Ewr) w Hw) as R.
      eapply oe_then_pcu with (s1 := release s1); [apply oe_rel; exact R | apply pcu_set_pc | exact Hw | reflexivity].
    + set (s1 := set_wire s (pkt s + 1)%N (wire s ++ [((pkt s + 1)%N, held)])).
      assert (Inv s1) as HI1 by (eapply inv_quiet; [exact HI | qrl]).
      pose proof (release_ws_others (waiters s1) s1 t (leaving_of_inv s1 t HI1 Ewr) w Hw) as R.
      eapply oe_then_pcu with (s1 := release s1); [apply oe_rel; exact R | apply pcu_finish_w | exact Hw |].
      destruct k; reflexivity.
  - inversion H; subst. apply oe_enter_close. exact Hw.
  - cbv zeta in H. inversion H; subst. clear H.
    eapply oe_pump_then_same; [apply pump_effect_wake|].
    unfold pcof. cbn. rewrite upd_other by exact Hw. apply drain_pc.
  - destruct (wr s); inversion H; subst.
    + apply oe_same. unfold pcof. cbn. rewrite upd_other by exact Hw. reflexivity.
    + eapply oe_qp with (s1 := shutdown_tr s); [apply quiet_shutdown_tr | apply pcu_finish_close | exact Hw].
  - discriminate.
  - inversion H; subst.
    eapply oe_qp with (s1 := set_rtable s (next_sid s + 1)%N (rtable s ++ [(next_sid s, t)])); [qrl | apply pcu_set_task | exact Hw].
  - inversion H; subst.
    eapply oe_qp with (s1 := set_table s (next_sid s) (table s ++ [(sid, t)])); [qrl | apply pcu_set_task | exact Hw].
  - inversion H; subst. eapply oe_of_pcu; [apply pcu_set_task | exact Hw].
  - discriminate.
Qed.

(* ---- no task is blocked by the session's own locks ---- *)
Definition finished (s : state) (t : tid) : Prop := pcof s t = PIdle /\ t_prog (tasks s t) = [].
(* waiting for the peer (data / verdict) -- not for anything the session itself holds *)
Definition awaits_peer (s : state) (t : tid) : Prop :=
  pcof s t = PIdle /\ exists rest,
    (t_prog (tasks s t) = CAwait :: rest /\ t_sid (tasks s t) <> None /\ t_verdict (tasks s t) = None)
    \/ (t_prog (tasks s t) = CRead :: rest /\ t_sid (tasks s t) <> None /\ t_rq (tasks s t) = O /\ t_rclosed (tasks s t) = false).

(* blocked inside `writer.write_all(..)` on a transport whose peer has stopped reading (known finding F4): the
   only way a task of the model is ever blocked while it holds the writer mutex *)
Definition in_transport (s : state) (t : tid) : Prop :=
  stalled s = true /\ shut s = false /\ exists k held, pcof s t = PW4 k held.

Lemma holder_enabled s h : Inv s -> wr s = Some h -> step s h <> None \/ in_transport s h.
Proof.
  intros HI E. apply (inv_holder s HI) in E. unfold step, in_transport. unfold pcof in *.
  destruct (t_pc (tasks s h)) eqn:Epc; try discriminate.
  - left. discriminate.
  - destruct (stalled s) eqn:St; [destruct (shut s) eqn:Sh|]; cbn [andb negb].
    + left. destruct (failing s || true); discriminate.
    + right. repeat split. eauto.
    + left. destruct (failing s || shut s); discriminate.
Qed.

Ltac en_tac Epc := right; right; left; unfold step; rewrite Epc.

(* the pump parked in recv() of the outbound data channel: it waits for the local application's next chunk (or for
   the close notification), not for anything the session holds *)
Definition awaits_app (s : state) (t : tid) : Prop := pcof s t = PPwait.

Theorem no_deadlock s t :
  Inv s ->
  finished s t \/ (awaits_peer s t \/ awaits_app s t) \/ step s t <> None \/
  (waits_pc (pcof s t) = true /\ exists h, wr s = Some h /\ (step s h <> None \/ in_transport s h)) \/
  in_transport s t.
Proof.
  intros HI. destruct (t_pc (tasks s t)) eqn:Epc.
  - destruct (t_prog (tasks s t)) as [|c rest] eqn:Eprog.
    + left. split; [unfold pcof; exact Epc | exact Eprog].
    + destruct c.
      * en_tac Epc. rewrite Eprog. discriminate.
      * en_tac Epc. rewrite Eprog. unfold start_call. cbn [t_sid with_prog]. destruct (t_sid (tasks s t)); discriminate.
      * en_tac Epc. rewrite Eprog. unfold start_call. destruct (closed s); discriminate.
      * destruct (t_sid (tasks s t)) eqn:Es; [destruct (t_verdict (tasks s t)) eqn:Ev|].
        -- en_tac Epc. rewrite Eprog. unfold start_call. cbn [t_sid t_verdict with_prog]. rewrite Es, Ev. discriminate.
        -- right; left; left. split; [unfold pcof; exact Epc|]. exists rest. left. rewrite Es. repeat split; auto. discriminate.
        -- en_tac Epc. rewrite Eprog. unfold start_call. cbn [t_sid t_verdict with_prog]. rewrite Es. discriminate.
      * en_tac Epc. rewrite Eprog. unfold start_call. cbn [t_sid t_verdict with_prog].
        destruct (t_sid (tasks s t)); [destruct (t_verdict (tasks s t))|]; discriminate.
      * destruct (t_sid (tasks s t)) eqn:Es; [destruct (t_rq (tasks s t)) eqn:Eq; [destruct (t_rclosed (tasks s t)) eqn:Ec|]|].
        -- en_tac Epc. rewrite Eprog. unfold start_call. cbn [t_sid t_rq t_rclosed with_prog]. rewrite Es, Eq, Ec. discriminate.
        -- right; left; left. split; [unfold pcof; exact Epc|]. exists rest. right. rewrite Es. repeat split; auto. discriminate.
        -- en_tac Epc. rewrite Eprog. unfold start_call. cbn [t_sid t_rq t_rclosed with_prog]. rewrite Es, Eq. discriminate.
        -- en_tac Epc. rewrite Eprog. unfold start_call. cbn [t_sid t_rq t_rclosed with_prog]. rewrite Es. discriminate.
      * en_tac Epc. rewrite Eprog. discriminate.
      * en_tac Epc. rewrite Eprog. discriminate.
      * en_tac Epc. rewrite Eprog. discriminate.
      * en_tac Epc. rewrite Eprog. discriminate.
      * en_tac Epc. rewrite Eprog. discriminate.
      * en_tac Epc. rewrite Eprog. unfold start_call. destruct (Nat.eqb t rtid); discriminate.
      * en_tac Epc. rewrite Eprog. unfold start_call. cbn [t_sid t_sclosed with_prog].
        destruct (t_sid (tasks s t)); [destruct (t_sclosed (tasks s t) || pump_done s)|]; discriminate.
      * en_tac Epc. rewrite Eprog. unfold start_call.
        destruct (pump_owner s); [destruct (negb (Nat.eqb t0 t)); [|destruct (pump_done s); [|destruct (dq s) as [|[u f] q]; [|destruct (closed s)]]]|];
          discriminate.
  - en_tac Epc. destruct (closed s); [|destruct (buffering s)]; discriminate.
  - en_tac Epc. discriminate.
  - en_tac Epc. destruct (wr s); discriminate.
  - right; right; right; left. split; [unfold pcof; rewrite Epc; reflexivity|].
    destruct (wr s) as [h|] eqn:Ewr.
    + exists h. split; [reflexivity | apply holder_enabled; assumption].
    + exfalso. pose proof (inv_free s HI Ewr) as Hn.
      assert (In t (waiters s)) as Hi by (apply (inv_wait s HI); unfold pcof; rewrite Epc; reflexivity).
      rewrite Hn in Hi. exact Hi.
  - en_tac Epc. discriminate.
  - destruct (stalled s) eqn:St; [destruct (shut s) eqn:Sh|].
    + en_tac Epc. rewrite St, Sh. cbn [andb negb]. destruct (failing s || true); discriminate.
    + right; right; right; right. unfold in_transport, pcof. rewrite Epc. repeat split; eauto.
    + en_tac Epc. rewrite St. cbn [andb]. destruct (failing s || shut s); discriminate.
  - en_tac Epc. discriminate.
  - en_tac Epc. discriminate.
  - en_tac Epc. destruct (wr s); discriminate.
  - right; right; right; left. split; [unfold pcof; rewrite Epc; reflexivity|].
    destruct (wr s) as [h|] eqn:Ewr.
    + exists h. split; [reflexivity | apply holder_enabled; assumption].
    + exfalso. pose proof (inv_free s HI Ewr) as Hn.
      assert (In t (waiters s)) as Hi by (apply (inv_wait s HI); unfold pcof; rewrite Epc; reflexivity).
      rewrite Hn in Hi. exact Hi.
  - en_tac Epc. discriminate.
  - en_tac Epc. discriminate.
  - en_tac Epc. discriminate.
  - right; left; right. unfold awaits_app, pcof. exact Epc.
Qed.

(* ---- the drain releases every registered stream ---- *)
Lemma drain_other tb : forall ts u, ~ In u (map snd tb) -> drain tb ts u = ts u.
Proof.
  induction tb as [|[sid o] tb IH]; intros ts u Hn; cbn [drain]; [reflexivity|].
  cbn in Hn. rewrite IH by (intros H; apply Hn; right; exact H).
  apply upd_other. intros ->. apply Hn. left. reflexivity.
Qed.

Lemma drain_keeps tb : forall ts u,
  (t_rclosed (ts u) = true -> t_rclosed (drain tb ts u) = true) /\
  (t_verdict (ts u) <> None -> t_verdict (drain tb ts u) <> None) /\
  t_sid (drain tb ts u) = t_sid (ts u) /\ t_prog (drain tb ts u) = t_prog (ts u).
Proof.
  induction tb as [|[sid o] tb IH]; intros ts u; cbn [drain]; [repeat split; auto|].
  destruct (IH (upd ts o (with_sclosed (with_rq (with_verdict (ts o) match t_verdict (ts o) with
                                                        | Some r => Some r | None => Some ResClosed end)
                                  (t_rq (ts o)) true))) u) as (A & B & C & D).
  destruct (Nat.eq_dec u o) as [->|Hne].
  - rewrite upd_same in A, B, C, D. cbn in A, B, C, D. repeat split; auto.
    intros H. apply B. destruct (t_verdict (ts o)); [discriminate | contradiction].
  - rewrite upd_other in A, B, C, D by exact Hne. repeat split; auto.
Qed.

Theorem drain_releases tb : forall ts sid o,
  In (sid, o) tb ->
  t_rclosed (drain tb ts o) = true /\ t_verdict (drain tb ts o) <> None.
Proof.
  induction tb as [|[sid' o'] tb IH]; intros ts sid o Hin; [destruct Hin|].
  cbn [drain]. destruct Hin as [E|Hin].
  - inversion E; subst.
    set (ts1 := upd ts o (with_sclosed (with_rq (with_verdict (ts o) match t_verdict (ts o) with
                                                        | Some r => Some r | None => Some ResClosed end)
                                  (t_rq (ts o)) true))).
    destruct (drain_keeps tb ts1 o) as (A & B & _).
    split.
    + apply A. unfold ts1. rewrite upd_same. reflexivity.
    + apply B. unfold ts1. rewrite upd_same. cbn. destruct (t_verdict (ts o)); discriminate.
  - eapply IH. exact Hin.
Qed.

(* the PC1 step is that drain *)
Theorem close_drain_step s t a k s' :
  pcof s t = PC1 a k -> step s t = Some s' ->
  table s' = [] /\
  forall sid o, In (sid, o) (table s) -> o <> t ->
    t_rclosed (tasks s' o) = true /\ t_verdict (tasks s' o) <> None.
Proof.
  intros Epc H. unfold step in H. unfold pcof in Epc. rewrite Epc in H. cbv zeta in H. inversion H; subst. cbn [table set_pc set_task set_tasks set_table].
  split; [reflexivity|]. intros sid o Hin Hne. cbn. rewrite upd_other by exact Hne.
  eapply drain_releases. destruct (flags_wake s) as (_ & _ & _ & T & _). rewrite T. exact Hin.
Qed.

(* ---- every later attempt fails ---- *)
Theorem write_on_closed_fails s t k f :
  closed s = true -> pcof s t = PW0 k f ->
  exists s', step s t = Some s' /\ wire s' = wire s /\ pending s' = pending s /\
             exists pre, t_res (tasks s' t) = pre ++ [ResClosed].
Proof.
  intros C Epc. unfold step. unfold pcof in Epc. rewrite Epc, C.
  eexists. split; [reflexivity|]. destruct k; cbn; rewrite upd_same; cbn; repeat split; eexists; reflexivity.
Qed.

Theorem open_on_closed_fails s t rest :
  closed s = true -> pcof s t = PIdle -> t_prog (tasks s t) = COpen :: rest ->
  exists s', step s t = Some s' /\ table s' = table s /\ exists pre, t_res (tasks s' t) = pre ++ [ResClosed].
Proof.
  intros C Epc Ep. unfold step. unfold pcof in Epc. rewrite Epc, Ep. unfold start_call. rewrite C.
  eexists. split; [reflexivity|]. cbn. rewrite !upd_same. cbn. split; [reflexivity | eexists; reflexivity].
Qed.

Theorem write_on_shut_fails s t k held :
  shut s = true -> pcof s t = PW4 k held ->
  exists s', step s t = Some s' /\ wire s' = wire s /\ pcof s' t = PE0 AfterIoErr k.
Proof.
  intros C Epc. unfold step. unfold pcof in Epc. rewrite Epc, C, orb_true_r. cbn [negb]. rewrite andb_false_r.
  eexists. split; [reflexivity|]. split.
  - cbn [wire set_pc set_task set_tasks].
    destruct (release_ws_data (waiters (set_wire s (pkt s + 1)%N (wire s))) (set_wire s (pkt s + 1)%N (wire s))) as (A & _).
    exact A.
  - unfold pcof. cbn. rewrite upd_same. reflexivity.
Qed.

(* ---- once closed, the transport ends up shut down and the tables drained ---- *)
Definition in_close (p : pc) : bool :=
  match p with PC1 _ _ | PC2 _ _ | PC2wait _ _ => true | _ => false end.

Lemma closed_finish_close s t a k : closed (finish_close s t a k) = closed s.
Proof. destruct a; [| destruct k |]; reflexivity. Qed.
Lemma closed_finish_w s t k r : closed (finish_w s t k r) = closed s.
Proof. destruct k, r; reflexivity. Qed.
Lemma table_finish_close s t a k : table (finish_close s t a k) = table s.
Proof. destruct a; [| destruct k |]; reflexivity. Qed.
Lemma table_finish_w s t k r : table (finish_w s t k r) = table s.
Proof. destruct k, r; reflexivity. Qed.
Lemma release_ws_closed ws : forall s, closed (release_ws ws s) = closed s /\ table (release_ws ws s) = table s.
Proof.
  induction ws as [|w ws IH]; intros s; cbn [release_ws]; [split; reflexivity|].
  destruct (t_pc (tasks s w)); try (split; reflexivity).
  destruct (IH (finish_close (shutdown_tr s) w a k)) as [A B].
  rewrite A, B, closed_finish_close, table_finish_close. shtr. split; reflexivity.
Qed.

Lemma closed_feed s ev :
  closed (feed_ev s ev) = closed s \/
  (closed s = false /\ closed (feed_ev s ev) = true /\ pcof (feed_ev s ev) rtid = PC1 AfterRecv WkPlain).
Proof.
  unfold feed_ev. destruct (negb (ralive s)); [left; reflexivity|].
  destruct ev;
    repeat match goal with
           | |- context [match ?x with _ => _ end] => destruct x eqn:?
           end; try (left; reflexivity);
    unfold enter_close; change (closed (mark_state s)) with (closed s);
    destruct (closed s) eqn:Ec; try (left; rewrite closed_finish_close; exact Ec);
    right; (split; [reflexivity | split; [reflexivity | unfold pcof; cbn; reflexivity]]).
Qed.

Lemma step_closed_by s t s' :
  step s t = Some s' -> closed s = false -> closed s' = true ->
  in_close (pcof s' t) = true \/ (t <> rtid /\ in_close (pcof s' rtid) = true).
Proof.
  intros H C C'. unfold step in H.
  destruct (t_pc (tasks s t)) eqn:Epc.
  - destruct (t_prog (tasks s t)) as [|c rest]; [discriminate|].
    unfold start_call in H. set (s0 := set_task s t (with_prog (tasks s t) rest)) in *.
    destruct c;
      repeat match type of H with
             | context [match ?x with _ => _ end] => destruct x eqn:?
             end; inversion H; subst; cbn in C'; try congruence.
    + (* CClose *)
      left. unfold enter_close. change (closed s0) with (closed s). rewrite C.
      unfold pcof. cbn. rewrite !upd_same. reflexivity.
    + (* CFeed by a task other than rtid *)
      destruct (closed_feed s0 ev) as [E|(_ & _ & E)].
      * change (closed (feed_ev s0 ev) = true) in C'. rewrite E in C'. exfalso. apply diff_false_true. rewrite <- C. exact C'.
      * right. apply Nat.eqb_neq in Heqb. split; [exact Heqb|].
        unfold pcof. cbn. rewrite upd_other by (intros X; apply Heqb; symmetry; exact X).
        unfold pcof in E. rewrite E. reflexivity.
    + push_closed C'. cbn in C'. congruence.
  - rewrite C in H. destruct (buffering s); inversion H; subst; cbn in C'; congruence.
  - inversion H; subst. rewrite closed_finish_w in C'. cbn in C'. congruence.
  - destruct (wr s); inversion H; subst; cbn in C'; congruence.
  - discriminate.
  - inversion H; subst. cbn in C'. congruence.
  - destruct (stalled s && negb (shut s)); [discriminate|].
    destruct (failing s || shut s); inversion H; subst.
    + set (s1 := set_wire s (pkt s + 1)%N (wire s)) in *.
      change (closed (release s1) = true) in C'. unfold release in C'.
      destruct (release_ws_closed (waiters s1) s1) as [A _]. rewrite A in C'. cbn in C'. congruence.
    + set (s1 := set_wire s (pkt s + 1)%N (wire s ++ [((pkt s + 1)%N, held)])) in *.
      rewrite closed_finish_w in C'. unfold release in C'.
      destruct (release_ws_closed (waiters s1) s1) as [A _]. rewrite A in C'. cbn in C'. congruence.
  - inversion H; subst. left. unfold enter_close. rewrite C. unfold pcof. cbn. rewrite upd_same. reflexivity.
  - cbv zeta in H. inversion H; subst. cbn in C'. wake_closed C'. congruence.
  - destruct (wr s); inversion H; subst; [cbn in C'; congruence|].
    rewrite closed_finish_close in C'. shtr_in C'. congruence.
  - discriminate.
  - inversion H; subst. cbn in C'. congruence.
  - inversion H; subst. cbn in C'. congruence.
  - inversion H; subst. cbn in C'. congruence.
  - discriminate.
Qed.

Lemma step_self_in_close s t s' :
  step s t = Some s' -> in_close (pcof s t) = true -> in_close (pcof s' t) = true \/ shutd s' = true.
Proof.
  intros H I. unfold step in H. unfold pcof in I.
  destruct (t_pc (tasks s t)) eqn:Epc; try discriminate.
  - inversion H; subst. left. unfold pcof. cbn. rewrite upd_same. reflexivity.
  - destruct (wr s); inversion H; subst.
    + left. unfold pcof. cbn. rewrite upd_same. reflexivity.
    + right. pose proof (shutd_shutdown_tr s) as S0. unfold shutd in *.
      destruct (data_finish_close (shutdown_tr s) t a k) as (_ & _ & _ & _ & _ & F). rewrite F, stalled_finish_close. exact S0.
Qed.

Definition shut_ok (s : state) : Prop :=
  closed s = true -> shutd s = true \/ exists x, in_close (pcof s x) = true.

Theorem step_shut_ok s t s' : Inv s -> shut_ok s -> step s t = Some s' -> shut_ok s'.
Proof.
  intros HI S H C'. destruct (closed s) eqn:C.
  - destruct (S C) as [Sh|[x Hx]].
    + left. eapply step_shutd; eauto.
    + destruct (Nat.eq_dec x t) as [->|Hne].
      * destruct (step_self_in_close s t s' H Hx) as [A|A]; [right; exists t; exact A | left; exact A].
      * destruct (step_others s t s' HI H x Hne) as [[E|[(k & f & A & _)|(a & k & A & B & Sh)]]|[(_ & A & _)|(A & _)]].
        -- right. exists x. rewrite E. exact Hx.
        -- rewrite A in Hx. discriminate.
        -- left. exact Sh.
        -- rewrite A in Hx. discriminate.
        -- rewrite A in Hx. discriminate.
  - destruct (step_closed_by s t s' H C C') as [A|[_ A]]; right; eauto.
Qed.

Lemma shut_ok_init progs buf pend : shut_ok (init progs buf pend).
Proof. intros C. discriminate. Qed.

Lemma table_enter_close s w a k : table (enter_close s w a k) = table s.
Proof. unfold enter_close. destruct (closed s); [apply table_finish_close | reflexivity]. Qed.

(* ---- what a step can do to the two stream tables ---- *)
Lemma rtable_finish_close s t a k : rtable (finish_close s t a k) = rtable s.
Proof. destruct a; [| destruct k |]; reflexivity. Qed.
Lemma rtable_finish_w s t k r : rtable (finish_w s t k r) = rtable s.
Proof. destruct k, r; reflexivity. Qed.
Lemma rtable_enter_close s w a k : rtable (enter_close s w a k) = rtable s.
Proof. unfold enter_close. destruct (closed s); [apply rtable_finish_close | reflexivity]. Qed.
Lemma rtable_release_ws ws : forall s, rtable (release_ws ws s) = rtable s.
Proof.
  induction ws as [|w ws IH]; intros s; cbn [release_ws]; [reflexivity|].
  destruct (t_pc (tasks s w)); try reflexivity. rewrite IH, rtable_finish_close. apply rtable_shutdown_tr.
Qed.
Lemma rtable_push s t f : rtable (push_item s t f) = rtable s.
Proof.
  unfold push_item. destruct (pump_owner s) as [p|]; [|reflexivity].
  destruct (is_ppwait (t_pc (tasks s p))); [destruct (closed s)|]; reflexivity.
Qed.
Lemma rtable_wake s : rtable (wake_pump_closed s) = rtable s.
Proof.
  unfold wake_pump_closed. destruct (closed s); [|reflexivity]. destruct (pump_owner s) as [p|]; [|reflexivity].
  destruct (is_ppwait (t_pc (tasks s p))); reflexivity.
Qed.

Lemma table_feed s ev :
  table (feed_ev s ev) = table s \/ exists o, table (feed_ev s ev) = remove_owner (table s) o.
Proof.
  unfold feed_ev. destruct (negb (ralive s)); [left; reflexivity|].
  destruct ev;
    repeat match goal with
           | |- context [match ?x with _ => _ end] => destruct x eqn:?
           end;
    try (left; reflexivity); try (right; eexists; reflexivity); left;
    first [apply table_enter_close | apply (table_enter_close (mark_state s))].
Qed.
Lemma rtable_feed s ev :
  rtable (feed_ev s ev) = rtable s \/ exists o, rtable (feed_ev s ev) = remove_owner (rtable s) o.
Proof.
  unfold feed_ev. destruct (negb (ralive s)); [left; reflexivity|].
  destruct ev;
    repeat match goal with
           | |- context [match ?x with _ => _ end] => destruct x eqn:?
           end;
    try (left; reflexivity); try (right; eexists; reflexivity); left;
    first [apply rtable_enter_close | apply (rtable_enter_close (mark_state s))].
Qed.

(* `streams` gets an entry only by the second insert of open_stream (PO0b), `stream_receive_tx` only by the first
   (PO0); close() empties the first and removes the drained pairs from the second; a received FIN removes the
   owner's entries from both *)
Definition is_pc1 (p : pc) : bool := match p with PC1 _ _ => true | _ => false end.

Inductive tables_effect (s s' : state) (t : tid) : Prop :=
| TE_same : table s' = table s -> rtable s' = rtable s -> ((forall x, pcof s t <> PO0b x) /\ is_pc1 (pcof s t) = false) -> tables_effect s s' t
| TE_drain : forall a k, pcof s t = PC1 a k -> table s' = [] -> rtable s' = minus_pairs (rtable s) (table s) -> tables_effect s s' t
| TE_fin : forall o, pcof s t = PIdle -> table s' = remove_owner (table s) o ->
    (rtable s' = remove_owner (rtable s) o \/ (rtable s' = rtable s /\ lookup_owner (rtable s) o = None)) -> tables_effect s s' t
| TE_first : pcof s t = PO0 -> table s' = table s -> rtable s' = rtable s ++ [(next_sid s, t)] -> tables_effect s s' t
| TE_second : forall sid, pcof s t = PO0b sid -> table s' = table s ++ [(sid, t)] -> rtable s' = rtable s -> tables_effect s s' t.

Lemma lookup_none_not_in tb o : lookup_owner tb o = None -> forall sid, ~ In (sid, o) tb.
Proof.
  induction tb as [|[sid' o'] tb IH]; intros E sid Hin; [destruct Hin|].
  cbn in E. destruct (Nat.eqb o' o) eqn:Eo; [discriminate|]. destruct Hin as [X|X].
  - inversion X; subst. rewrite Nat.eqb_refl in Eo. discriminate.
  - apply (IH E sid X).
Qed.

Lemma feed_tables s ev :
  (table (feed_ev s ev) = table s /\ rtable (feed_ev s ev) = rtable s) \/
  exists o, table (feed_ev s ev) = remove_owner (table s) o /\
            (rtable (feed_ev s ev) = remove_owner (rtable s) o \/
             (rtable (feed_ev s ev) = rtable s /\ lookup_owner (rtable s) o = None)).
Proof.
  unfold feed_ev. destruct (negb (ralive s)); [left; split; reflexivity|].
  destruct ev;
    repeat match goal with
           | |- context [match ?x with _ => _ end] => destruct x eqn:?
           end;
    try (left; split; reflexivity);
    try (left; split; [first [apply table_enter_close | apply (table_enter_close (mark_state s))]
                      | first [apply rtable_enter_close | apply (rtable_enter_close (mark_state s))]]).
  - right. exists owner. split; [reflexivity | left; reflexivity].
  - right. exists owner. split; [reflexivity | right; split; [reflexivity | assumption]].
Qed.

Lemma step_tables s t s' : step s t = Some s' -> tables_effect s s' t.
Proof.
  intros H. unfold step in H.
  destruct (t_pc (tasks s t)) eqn:Epc.
  - destruct (t_prog (tasks s t)) as [|c rest]; [discriminate|].
    unfold start_call in H. set (s0 := set_task s t (with_prog (tasks s t) rest)) in *.
    assert ((forall x, pcof s t <> PO0b x) /\ is_pc1 (pcof s t) = false) as NP by (split; [intros x; unfold pcof; rewrite Epc; discriminate | unfold pcof; rewrite Epc; reflexivity]).
    destruct c;
      repeat match type of H with
             | context [match ?x with _ => _ end] => destruct x eqn:?
             end; inversion H; subst; try (apply TE_same; [reflexivity | reflexivity | exact NP]).
    + apply TE_same; [apply (table_enter_close s0) | apply (rtable_enter_close s0) | exact NP].
    + destruct (feed_tables s0 ev) as [[T R]|(o & T & R)].
      * apply TE_same; [exact T | exact R | exact NP].
      * apply (TE_fin s _ t o); [unfold pcof; exact Epc | exact T | exact R].
    + apply TE_same; [|  | exact NP].
      * match goal with |- context [push_item ?a ?b ?c] => destruct (flags_push a b c) as (_ & _ & _ & F) end. exact F.
      * match goal with |- context [push_item ?a ?b ?c] => apply (rtable_push a b c) end.
  - assert ((forall x, pcof s t <> PO0b x) /\ is_pc1 (pcof s t) = false) as NP by (split; [intros x; unfold pcof; rewrite Epc; discriminate | unfold pcof; rewrite Epc; reflexivity]).
    destruct (closed s); [|destruct (buffering s)]; inversion H; subst;
      (apply TE_same; [first [apply table_finish_w | reflexivity] | first [apply rtable_finish_w | reflexivity] | exact NP]).
  - assert ((forall x, pcof s t <> PO0b x) /\ is_pc1 (pcof s t) = false) as NP by (split; [intros x; unfold pcof; rewrite Epc; discriminate | unfold pcof; rewrite Epc; reflexivity]).
    inversion H; subst. apply TE_same; [rewrite table_finish_w; reflexivity | rewrite rtable_finish_w; reflexivity | exact NP].
  - assert ((forall x, pcof s t <> PO0b x) /\ is_pc1 (pcof s t) = false) as NP by (split; [intros x; unfold pcof; rewrite Epc; discriminate | unfold pcof; rewrite Epc; reflexivity]).
    destruct (wr s); inversion H; subst; apply TE_same; [reflexivity | reflexivity | exact NP | reflexivity | reflexivity | exact NP].
  - discriminate.
  - assert ((forall x, pcof s t <> PO0b x) /\ is_pc1 (pcof s t) = false) as NP by (split; [intros x; unfold pcof; rewrite Epc; discriminate | unfold pcof; rewrite Epc; reflexivity]).
    inversion H; subst. apply TE_same; [reflexivity | reflexivity | exact NP].
  - assert ((forall x, pcof s t <> PO0b x) /\ is_pc1 (pcof s t) = false) as NP by (split; [intros x; unfold pcof; rewrite Epc; discriminate | unfold pcof; rewrite Epc; reflexivity]).
    destruct (stalled s && negb (shut s)); [discriminate|].
    destruct (failing s || shut s); inversion H; subst; apply TE_same; try exact NP.
    + set (s1 := set_wire s (pkt s + 1)%N (wire s)) in *.
      change (table (release s1) = table s). unfold release. destruct (release_ws_closed (waiters s1) s1) as [_ B]. rewrite B. reflexivity.
    + set (s1 := set_wire s (pkt s + 1)%N (wire s)) in *.
      change (rtable (release s1) = rtable s). unfold release. rewrite rtable_release_ws. reflexivity.
    + set (s1 := set_wire s (pkt s + 1)%N (wire s ++ [((pkt s + 1)%N, held)])) in *.
      rewrite table_finish_w. unfold release. destruct (release_ws_closed (waiters s1) s1) as [_ B]. rewrite B. reflexivity.
    + set (s1 := set_wire s (pkt s + 1)%N (wire s ++ [((pkt s + 1)%N, held)])) in *.
      rewrite rtable_finish_w. unfold release. rewrite rtable_release_ws. reflexivity.
  - assert ((forall x, pcof s t <> PO0b x) /\ is_pc1 (pcof s t) = false) as NP by (split; [intros x; unfold pcof; rewrite Epc; discriminate | unfold pcof; rewrite Epc; reflexivity]).
    inversion H; subst. apply TE_same; [apply table_enter_close | apply rtable_enter_close | exact NP].
  - cbv zeta in H. inversion H; subst. apply (TE_drain s _ t a k); [unfold pcof; exact Epc | reflexivity |].
    cbn [rtable set_pc set_task set_tasks drain_state set_rtable]. rewrite rtable_wake, (proj1 (proj2 (proj2 (proj2 (flags_wake s))))). reflexivity.
  - assert ((forall x, pcof s t <> PO0b x) /\ is_pc1 (pcof s t) = false) as NP by (split; [intros x; unfold pcof; rewrite Epc; discriminate | unfold pcof; rewrite Epc; reflexivity]).
    destruct (wr s); inversion H; subst; apply TE_same; try exact NP; try reflexivity;
      [rewrite table_finish_close | rewrite rtable_finish_close]; shtr; reflexivity.
  - discriminate.
  - inversion H; subst. apply TE_first; [unfold pcof; exact Epc | reflexivity | reflexivity].
  - inversion H; subst. apply (TE_second s _ t sid); [unfold pcof; exact Epc | reflexivity | reflexivity].
  - assert ((forall x, pcof s t <> PO0b x) /\ is_pc1 (pcof s t) = false) as NP by (split; [intros x; unfold pcof; rewrite Epc; discriminate | unfold pcof; rewrite Epc; reflexivity]).
    inversion H; subst. apply TE_same; [reflexivity | reflexivity | exact NP].
  - discriminate.
Qed.

Definition table_effect (s s' : state) (t : tid) : Prop :=
  table s' = table s \/ table s' = [] \/ (exists o, table s' = remove_owner (table s) o)
  \/ (exists sid, pcof s t = PO0b sid /\ table s' = table s ++ [(sid, t)]).

Lemma step_table s t s' : step s t = Some s' -> table_effect s s' t.
Proof.
  intros H. unfold table_effect.
  destruct (step_tables s t s' H) as [T _ _|a k _ T _|o _ T _|_ T _|sid P T _]; eauto.
  right; right; right. exists sid. auto.
Qed.

Lemma in_remove_owner_inv tb e o : In e (remove_owner tb o) -> In e tb.
Proof. unfold remove_owner. intros H. apply filter_In in H. exact (proj1 H). Qed.
Lemma in_minus_pairs_inv l d e : In e (minus_pairs l d) -> In e l.
Proof. unfold minus_pairs. intros H. apply filter_In in H. exact (proj1 H). Qed.

Lemma step_table_in s t s' e :
  step s t = Some s' -> In e (table s') -> In e (table s) \/ (exists sid, pcof s t = PO0b sid /\ e = (sid, t)).
Proof.
  intros H Hin. destruct (step_table s t s' H) as [A|[A|[[o A]|(sid & P & A)]]]; rewrite A in Hin.
  - left. exact Hin.
  - destruct Hin.
  - left. eapply in_remove_owner_inv. exact Hin.
  - apply in_app_or in Hin. destruct Hin as [Hin|[<-|[]]]; [left; exact Hin | right; exists sid; split; [exact P | reflexivity]].
Qed.

Lemma step_rtable_in s t s' e :
  step s t = Some s' -> In e (rtable s') -> In e (rtable s) \/ (pcof s t = PO0 /\ e = (next_sid s, t)).
Proof.
  intros H Hin. destruct (step_tables s t s' H) as [_ R _|a k _ _ R|o _ _ [R|[R _]]|P _ R|sid _ _ R]; rewrite R in Hin.
  - left. exact Hin.
  - left. eapply in_minus_pairs_inv. exact Hin.
  - left. eapply in_remove_owner_inv. exact Hin.
  - left. exact Hin.
  - apply in_app_or in Hin. destruct Hin as [Hin|[<-|[]]]; [left; exact Hin | right; split; [exact P | reflexivity]].
  - left. exact Hin.
Qed.


Lemma step_closed_by_pc1 s t s' :
  step s t = Some s' -> closed s = false -> closed s' = true ->
  is_pc1 (pcof s' t) = true \/ (t <> rtid /\ is_pc1 (pcof s' rtid) = true).
Proof.
  intros H C C'. unfold step in H.
  destruct (t_pc (tasks s t)) eqn:Epc.
  - destruct (t_prog (tasks s t)) as [|c rest]; [discriminate|].
    unfold start_call in H. set (s0 := set_task s t (with_prog (tasks s t) rest)) in *.
    destruct c;
      repeat match type of H with
             | context [match ?x with _ => _ end] => destruct x eqn:?
             end; inversion H; subst; cbn in C'; try congruence.
    + left. unfold enter_close. change (closed s0) with (closed s). rewrite C.
      unfold pcof. cbn. rewrite !upd_same. reflexivity.
    + destruct (closed_feed s0 ev) as [E|(_ & _ & E)].
      * change (closed (feed_ev s0 ev) = true) in C'. rewrite E in C'. exfalso. apply diff_false_true. rewrite <- C. exact C'.
      * right. apply Nat.eqb_neq in Heqb. split; [exact Heqb|].
        unfold pcof. cbn. rewrite upd_other by (intros X; apply Heqb; symmetry; exact X).
        unfold pcof in E. rewrite E. reflexivity.
    + push_closed C'. cbn in C'. congruence.
  - rewrite C in H. destruct (buffering s); inversion H; subst; cbn in C'; congruence.
  - inversion H; subst. rewrite closed_finish_w in C'. cbn in C'. congruence.
  - destruct (wr s); inversion H; subst; cbn in C'; congruence.
  - discriminate.
  - inversion H; subst. cbn in C'. congruence.
  - destruct (stalled s && negb (shut s)); [discriminate|].
    destruct (failing s || shut s); inversion H; subst.
    + set (s1 := set_wire s (pkt s + 1)%N (wire s)) in *.
      change (closed (release s1) = true) in C'. unfold release in C'.
      destruct (release_ws_closed (waiters s1) s1) as [A _]. rewrite A in C'. cbn in C'. congruence.
    + set (s1 := set_wire s (pkt s + 1)%N (wire s ++ [((pkt s + 1)%N, held)])) in *.
      rewrite closed_finish_w in C'. unfold release in C'.
      destruct (release_ws_closed (waiters s1) s1) as [A _]. rewrite A in C'. cbn in C'. congruence.
  - inversion H; subst. left. unfold enter_close. rewrite C. unfold pcof. cbn. rewrite upd_same. reflexivity.
  - cbv zeta in H. inversion H; subst. cbn in C'. wake_closed C'. congruence.
  - destruct (wr s); inversion H; subst; [cbn in C'; congruence|].
    rewrite closed_finish_close in C'. shtr_in C'. congruence.
  - discriminate.
  - inversion H; subst. cbn in C'. congruence.
  - inversion H; subst. cbn in C'. congruence.
  - inversion H; subst. cbn in C'. congruence.
  - discriminate.
Qed.

Lemma closed_mono s t s' : step s t = Some s' -> closed s = true -> closed s' = true.
Proof.
  intros H C. destruct (closed s') eqn:C'; [reflexivity|]. exfalso.
  (* closed is only ever set, never cleared: every constructor copies it or sets it *)
  unfold step in H.
  destruct (t_pc (tasks s t)) eqn:Epc.
  - destruct (t_prog (tasks s t)) as [|c rest]; [discriminate|].
    unfold start_call in H. set (s0 := set_task s t (with_prog (tasks s t) rest)) in *. rewrite C in H.
    destruct c;
      repeat match type of H with
             | context [match ?x with _ => _ end] => destruct x eqn:?
             end; inversion H; subst; cbn in C'; try congruence.
    + unfold enter_close in C'. change (closed s0) with (closed s) in C'. rewrite C, closed_finish_close in C'. cbn in C'. congruence.
    + destruct (closed_feed s0 ev) as [E|(E & _)].
      * change (closed (feed_ev s0 ev) = false) in C'. rewrite E in C'. change (closed s0) with (closed s) in C'. congruence.
      * change (closed s0) with (closed s) in E. congruence.
    + push_closed C'. cbn in C'. congruence.
  - rewrite C in H. inversion H; subst. rewrite closed_finish_w in C'. congruence.
  - inversion H; subst. rewrite closed_finish_w in C'. cbn in C'. congruence.
  - destruct (wr s); inversion H; subst; cbn in C'; congruence.
  - discriminate.
  - inversion H; subst. cbn in C'. congruence.
  - destruct (stalled s && negb (shut s)); [discriminate|].
    destruct (failing s || shut s); inversion H; subst.
    + set (s1 := set_wire s (pkt s + 1)%N (wire s)) in *.
      change (closed (release s1) = false) in C'. unfold release in C'.
      destruct (release_ws_closed (waiters s1) s1) as [A _]. rewrite A in C'. cbn in C'. congruence.
    + set (s1 := set_wire s (pkt s + 1)%N (wire s ++ [((pkt s + 1)%N, held)])) in *.
      rewrite closed_finish_w in C'. unfold release in C'.
      destruct (release_ws_closed (waiters s1) s1) as [A _]. rewrite A in C'. cbn in C'. congruence.
  - inversion H; subst. unfold enter_close in C'. rewrite C, closed_finish_close in C'. congruence.
  - cbv zeta in H. inversion H; subst. cbn in C'. wake_closed C'. congruence.
  - destruct (wr s); inversion H; subst; [cbn in C'; congruence|].
    rewrite closed_finish_close in C'. shtr_in C'. congruence.
  - discriminate.
  - inversion H; subst. cbn in C'. congruence.
  - inversion H; subst. cbn in C'. congruence.
  - inversion H; subst. cbn in C'. congruence.
  - discriminate.
Qed.

(* ---- every reader is released: a stream handle is either still registered or its queue is closed ---- *)
Lemma prod_eq_dec (a b : N * tid) : {a = b} + {a <> b}.
Proof. decide equality; [apply Nat.eq_dec | apply N.eq_dec]. Qed.

Definition reader_ok (s : state) : Prop :=
  forall u sid, t_sid (tasks s u) = Some sid -> In (sid, u) (rtable s) \/ t_rclosed (tasks s u) = true.

(* fields of other tasks: the stream handle is kept (or dropped, when the task's open failed), a closed
   queue stays closed *)
Definition keeps_stream (x y : task) : Prop :=
  (t_sid y = t_sid x \/ t_sid y = None) /\ (t_rclosed x = true -> t_rclosed y = true).

Lemma ks_refl x : keeps_stream x x. Proof. split; auto. Qed.
Lemma ks_trans x y z : keeps_stream x y -> keeps_stream y z -> keeps_stream x z.
Proof. intros [[A|A] B] [[C|C] D]; split; auto; try (right; congruence); left; congruence. Qed.

Lemma ks_with_res x r : keeps_stream x (with_res x r). Proof. split; auto. Qed.
Lemma ks_with_pc x p : keeps_stream x (with_pc x p). Proof. split; auto. Qed.
Lemma ks_clear x : keeps_stream x (clear_sid x). Proof. split; auto. Qed.

Lemma ks_finish_close s w a k u : keeps_stream (tasks s u) (tasks (finish_close s w a k) u).
Proof.
  destruct (Nat.eq_dec u w) as [->|H].
  - destruct a; [| destruct k |]; cbn; rewrite ?upd_same; split; auto.
  - rewrite tasks_finish_close_other by exact H. apply ks_refl.
Qed.
Lemma ks_shutdown_close s w a k u : keeps_stream (tasks s u) (tasks (finish_close (shutdown_tr s) w a k) u).
Proof. rewrite <- (tasks_shutdown_tr s). apply ks_finish_close. Qed.

Lemma ks_finish_w s w k r u : keeps_stream (tasks s u) (tasks (finish_w s w k r) u).
Proof.
  destruct (Nat.eq_dec u w) as [->|H].
  - destruct k, r; cbn; rewrite ?upd_same; split; auto.
  - destruct k, r; cbn; rewrite upd_other by exact H; apply ks_refl.
Qed.

Lemma ks_set_pc s w p u : keeps_stream (tasks s u) (tasks (set_pc s w p) u).
Proof.
  destruct (Nat.eq_dec u w) as [->|H]; cbn; [rewrite upd_same; split; auto | rewrite upd_other by exact H; apply ks_refl].
Qed.

Lemma ks_finish s w r u : keeps_stream (tasks s u) (tasks (finish s w r) u).
Proof.
  destruct (Nat.eq_dec u w) as [->|H]; cbn; [rewrite upd_same; split; auto | rewrite upd_other by exact H; apply ks_refl].
Qed.

Lemma ks_release_ws ws : forall s u, keeps_stream (tasks s u) (tasks (release_ws ws s) u).
Proof.
  induction ws as [|w ws IH]; intros s u; cbn [release_ws]; [apply ks_refl|].
  destruct (t_pc (tasks s w)); try apply ks_refl.
  - apply (ks_set_pc (set_lock s (Some w) ws) w (PW3 k f) u).
  - eapply ks_trans; [|apply IH]. apply (ks_shutdown_close s w a k u).
Qed.

Lemma ks_enter_close s w a k u : keeps_stream (tasks s u) (tasks (enter_close s w a k) u).
Proof. unfold enter_close. destruct (closed s); [apply ks_finish_close | apply (ks_set_pc (set_closed s))]. Qed.

Lemma ks_set_task s t v u : keeps_stream (tasks s t) v -> keeps_stream (tasks s u) (tasks (set_task s t v) u).
Proof.
  intros H. destruct (Nat.eq_dec u t) as [->|Hne]; cbn; [rewrite upd_same; exact H | rewrite upd_other by exact Hne; apply ks_refl].
Qed.

Lemma reader_ok_keep s s' :
  reader_ok s -> rtable s' = rtable s -> (forall u, keeps_stream (tasks s u) (tasks s' u)) -> reader_ok s'.
Proof.
  intros R T K u sid H. destruct (K u) as [[E|E] M]; [|congruence].
  rewrite E in H. destruct (R u sid H) as [A|A]; [left; rewrite T; exact A | right; apply M; exact A].
Qed.

Lemma in_remove_owner tb sid u o : In (sid, u) tb -> u <> o -> In (sid, u) (remove_owner tb o).
Proof.
  intros H Hne. unfold remove_owner. apply filter_In. split; [exact H|]. cbn.
  apply negb_true_iff. apply Nat.eqb_neq. exact Hne.
Qed.

Lemma mark_keeps tb : forall ts u,
  t_sid (mark_sclosed tb ts u) = t_sid (ts u) /\ t_rclosed (mark_sclosed tb ts u) = t_rclosed (ts u) /\
  t_verdict (mark_sclosed tb ts u) = t_verdict (ts u) /\ t_prog (mark_sclosed tb ts u) = t_prog (ts u) /\
  t_sub (mark_sclosed tb ts u) = t_sub (ts u) /\ t_res (mark_sclosed tb ts u) = t_res (ts u).
Proof.
  induction tb as [|[sid o] tb IH]; intros ts u; cbn [mark_sclosed]; [repeat split; reflexivity|].
  destruct (IH (upd ts o (with_sclosed (ts o))) u) as (A & B & C & D & E & F).
  unfold upd in *. destruct (Nat.eqb u o) eqn:Eq; [apply Nat.eqb_eq in Eq; subst|]; repeat split; assumption.
Qed.
Lemma ks_mark s u : keeps_stream (tasks s u) (tasks (mark_state s) u).
Proof. destruct (mark_keeps (table s) (tasks s) u) as (A & B & _). split; [left; exact A | intros H; cbn; rewrite B; exact H]. Qed.

Lemma reader_ok_feed s ev : reader_ok s -> reader_ok (feed_ev s ev).
Proof.
  intros R. unfold feed_ev. destruct (negb (ralive s)); [exact R|].
  destruct ev.
  - destruct (lookup_owner (table s) owner); [|exact R].
    destruct (t_verdict (tasks s owner)); [exact R|].
    eapply reader_ok_keep; [exact R | reflexivity | intros u; apply ks_set_task; split; auto].
  - destruct (lookup_owner (rtable s) owner); [|exact R].
    eapply reader_ok_keep; [exact R | reflexivity | intros u; apply ks_set_task; split; auto].
  - destruct (lookup_owner (rtable s) owner).
    + intros u sid H. cbn [rtable set_table set_rtable]. cbn [tasks set_table set_rtable set_task set_tasks] in *.
      destruct (Nat.eq_dec u owner) as [->|Hne].
      * right. rewrite upd_same. reflexivity.
      * rewrite upd_other in * by exact Hne. destruct (R u sid H) as [A|A]; [left; apply in_remove_owner; assumption | right; exact A].
    + eapply reader_ok_keep; [exact R | reflexivity | intros u; apply ks_refl].
  - destruct (pc_is_idle (t_pc (tasks s rtid))); [|exact R].
    eapply reader_ok_keep; [exact R | apply (rtable_enter_close (mark_state s)) |
                            intros u; eapply ks_trans; [apply ks_mark | apply ks_enter_close]].
  - destruct (pc_is_idle (t_pc (tasks s rtid))); [|exact R].
    eapply reader_ok_keep; [exact R | apply rtable_enter_close | intros u; apply ks_enter_close].
  - destruct (pc_is_idle (t_pc (tasks s rtid))); [|exact R].
    eapply reader_ok_keep; [exact R | reflexivity | intros u; apply ks_set_pc].
Qed.

Lemma ks_push s t f u : keeps_stream (tasks s u) (tasks (push_item s t f) u).
Proof.
  unfold push_item. set (s1 := set_pump s (dq s) (pushed s ++ [(t, f)]) (pump_owner s) (pump_done s)).
  destruct (pump_owner s) as [p|]; [|apply ks_refl].
  destruct (is_ppwait (t_pc (tasks s p))); [destruct (closed s)|]; try apply ks_refl.
  - apply (ks_finish s1 p ResClosed u).
  - apply (ks_set_task s1 p _ u). split; auto.
Qed.
Lemma ks_wake s u : keeps_stream (tasks s u) (tasks (wake_pump_closed s) u).
Proof.
  unfold wake_pump_closed. destruct (closed s); [|apply ks_refl]. destruct (pump_owner s) as [p|]; [|apply ks_refl].
  destruct (is_ppwait (t_pc (tasks s p))); [|apply ks_refl]. apply (ks_finish s p ResClosed u).
Qed.
Lemma table_push s t f : table (push_item s t f) = table s.
Proof. apply (flags_push s t f). Qed.
Lemma table_wake s : table (wake_pump_closed s) = table s.
Proof. apply (flags_wake s). Qed.

(* membership in the pair filter *)
Lemma pair_eqb_refl e : pair_eqb e e = true.
Proof. unfold pair_eqb. rewrite N.eqb_refl, Nat.eqb_refl. reflexivity. Qed.
Lemma pair_eqb_eq a b : pair_eqb a b = true -> a = b.
Proof.
  unfold pair_eqb. intros H. apply andb_prop in H. destruct H as [A B]. apply N.eqb_eq in A. apply Nat.eqb_eq in B.
  destruct a, b. cbn in *. subst. reflexivity.
Qed.
Lemma in_minus_pairs l d e : In e l -> ~ In e d -> In e (minus_pairs l d).
Proof.
  intros H N. unfold minus_pairs. apply filter_In. split; [exact H|]. apply negb_true_iff.
  destruct (existsb (pair_eqb e) d) eqn:E; [|reflexivity]. exfalso. apply existsb_exists in E.
  destruct E as (x & Hx & Ex). apply pair_eqb_eq in Ex. subst x. apply N. exact Hx.
Qed.
Lemma minus_pairs_not_in l d e : In e (minus_pairs l d) -> ~ In e d.
Proof.
  unfold minus_pairs. intros H Hd. apply filter_In in H. destruct H as [_ H]. apply negb_true_iff in H.
  assert (existsb (pair_eqb e) d = true) as X by (apply existsb_exists; exists e; split; [exact Hd | apply pair_eqb_refl]).
  congruence.
Qed.

Lemma reader_ok_drain s t p :
  reader_ok s ->
  reader_ok (set_pc (drain_state s) t p).
Proof.
  intros R u sid H.
  assert (keeps_stream (drain (table s) (tasks s) u)
            (tasks (set_pc (drain_state s) t p) u)) as K
    by (apply (ks_set_pc (drain_state s) t p u)).
  destruct K as [[E|E] M]; [|congruence].
  change (tasks (drain_state s) u) with (drain (table s) (tasks s) u) in E.
  rewrite E in H. destruct (drain_keeps (table s) (tasks s) u) as (A & _ & B & _).
  rewrite B in H.
  change (rtable (set_pc (drain_state s) t p)) with (minus_pairs (rtable s) (table s)).
  destruct (R u sid H) as [Hin|Hc]; [|right; apply M; apply A; exact Hc].
  destruct (in_dec (fun a b : N * tid => prod_eq_dec a b) (sid, u) (table s)) as [Ht|Ht].
  - right. apply M. apply (drain_releases _ _ _ _ Ht).
  - left. apply in_minus_pairs; assumption.
Qed.

Theorem step_reader_ok s t s' : reader_ok s -> step s t = Some s' -> reader_ok s'.
Proof.
  intros R H. unfold step in H.
  destruct (t_pc (tasks s t)) eqn:Epc.
  - destruct (t_prog (tasks s t)) as [|c rest]; [discriminate|].
    unfold start_call in H. set (x := with_prog (tasks s t) rest) in *. set (s0 := set_task s t x) in *.
    assert (reader_ok s0) as R0.
    { eapply reader_ok_keep; [exact R | reflexivity | intros u; apply ks_set_task; split; auto]. }
    assert (forall v, keeps_stream x v -> forall u, keeps_stream (tasks s0 u) (tasks (set_task s0 t v) u)) as KS.
    { intros v Hv u. apply ks_set_task. unfold s0. cbn. rewrite upd_same. exact Hv. }
    destruct c;
      repeat match type of H with
             | context [match ?y with _ => _ end] => destruct y eqn:?
             end; inversion H; subst s'; clear H;
      try (eapply reader_ok_keep; [exact R0 | reflexivity | intros u; first [apply ks_finish | apply KS; split; auto]]; fail).
    + (* CTimeout on a pending verdict *)
      eapply reader_ok_keep; [exact R0 | reflexivity|]. intros u.
      eapply ks_trans; [apply KS with (v := with_verdict x (Some ResTimeout)); split; auto | apply ks_finish].
    + (* CRead consuming a chunk *)
      eapply reader_ok_keep; [exact R0 | reflexivity|]. intros u.
      eapply ks_trans; [apply KS with (v := with_rq x n0 (t_rclosed x)); split; auto | apply ks_finish].
    + eapply reader_ok_keep; [exact R0 | apply rtable_enter_close | intros u; apply ks_enter_close].
    + eapply reader_ok_keep; [exact R0 | reflexivity | intros u; apply (ks_finish (set_buffering s0 false))].
    + eapply reader_ok_keep; [exact R0 | reflexivity | intros u; apply (ks_finish (set_buffering s0 true))].
    + eapply reader_ok_keep; [exact R0 | reflexivity | intros u; apply (ks_finish (set_failing s0))].
    + eapply reader_ok_keep; [exact R0 | reflexivity | intros u; apply (ks_finish (set_stalled s0))].
    + eapply reader_ok_keep; [apply reader_ok_feed; exact R0 | reflexivity | intros u; apply ks_finish].
    + (* CSend *)
      eapply reader_ok_keep; [exact R0 | apply (rtable_push s0) | intros u; eapply ks_trans; [apply ks_push | apply ks_finish]].
    + match goal with |- reader_ok (set_pump_done (finish ?X t ResClosed)) =>
        eapply reader_ok_keep; [exact R0 | reflexivity | intros u; apply (ks_finish X t ResClosed u)] end.
    + match goal with |- reader_ok (finish ?X t ?r) =>
        eapply reader_ok_keep; [exact R0 | reflexivity | intros u; apply (ks_finish X t r u)] end.
  - destruct (closed s); [|destruct (buffering s)]; inversion H; subst.
    + eapply reader_ok_keep; [exact R | apply rtable_finish_w | intros u; apply ks_finish_w].
    + eapply reader_ok_keep; [exact R | reflexivity | intros u; apply ks_set_task; destruct k; split; auto].
    + eapply reader_ok_keep; [exact R | reflexivity | intros u; apply ks_set_task; destruct k; split; auto].
  - inversion H; subst.
    eapply reader_ok_keep; [exact R | rewrite rtable_finish_w; reflexivity | intros u; apply (ks_finish_w (set_queue s _ _))].
  - destruct (wr s); inversion H; subst;
      (eapply reader_ok_keep; [exact R | reflexivity | intros u; apply (ks_set_pc (set_lock s _ _))]).
  - discriminate.
  - inversion H; subst. eapply reader_ok_keep; [exact R | reflexivity | intros u; apply (ks_set_pc (set_queue s _ _))].
  - destruct (stalled s && negb (shut s)); [discriminate|].
    destruct (failing s || shut s); inversion H; subst.
    + set (s1 := set_wire s (pkt s + 1)%N (wire s)).
      eapply reader_ok_keep; [exact R | | intros u; eapply ks_trans; [apply (ks_release_ws (waiters s1) s1 u) | apply ks_set_pc]].
      cbn [rtable set_pc set_task set_tasks]. unfold release. apply (rtable_release_ws (waiters s1) s1).
    + set (s1 := set_wire s (pkt s + 1)%N (wire s ++ [((pkt s + 1)%N, held)])).
      eapply reader_ok_keep; [exact R | | intros u; eapply ks_trans; [apply (ks_release_ws (waiters s1) s1 u) | apply ks_finish_w]].
      rewrite rtable_finish_w. unfold release. apply (rtable_release_ws (waiters s1) s1).
  - inversion H; subst. eapply reader_ok_keep; [exact R | apply rtable_enter_close | intros u; apply ks_enter_close].
  - cbv zeta in H. inversion H; subst. apply reader_ok_drain.
    eapply reader_ok_keep; [exact R | apply rtable_wake | intros u; apply ks_wake].
  - destruct (wr s); inversion H; subst.
    + eapply reader_ok_keep; [exact R | reflexivity | intros u; apply (ks_set_pc (set_lock s _ _))].
    + eapply reader_ok_keep; [exact R | rewrite rtable_finish_close; apply rtable_shutdown_tr | intros u; apply (ks_shutdown_close s)].
  - discriminate.
  - (* PO0 allocates the id and registers the inbound queue *)
    inversion H; subst. clear H.
    intros u sid H. cbn [rtable set_task set_tasks set_rtable]. cbn [tasks set_task set_tasks set_rtable] in H.
    destruct (Nat.eq_dec u t) as [->|Hne].
    + rewrite upd_same in H. cbn in H. inversion H; subst. left. apply in_or_app. right. left. reflexivity.
    + rewrite upd_other in H by exact Hne.
      destruct (R u sid H) as [A|A]; [left; apply in_or_app; left; exact A | right].
      cbn. rewrite upd_other by exact Hne. exact A.
  - (* PO0b *)
    inversion H; subst. eapply reader_ok_keep; [exact R | reflexivity |].
    intros u. apply (ks_set_task (set_table s (next_sid s) (table s ++ [(sid, t)])) t _ u). split; auto.
  - inversion H; subst. eapply reader_ok_keep; [exact R | reflexivity | intros u; apply ks_set_task; split; auto].
  - discriminate.
Qed.

Lemma reader_ok_init progs buf pend : reader_ok (init progs buf pend).
Proof. intros u sid H. cbn in H. discriminate. Qed.

(* ---- what a step does to the stream handle of any task ---- *)
Lemma ks_feed s ev u : keeps_stream (tasks s u) (tasks (feed_ev s ev) u).
Proof.
  unfold feed_ev. destruct (negb (ralive s)); [apply ks_refl|].
  destruct ev;
    repeat match goal with
           | |- context [match ?x with _ => _ end] => destruct x eqn:?
           end;
    try apply ks_refl; try apply ks_enter_close; try apply ks_set_pc;
    try (apply ks_set_task; split; auto; fail);
    try (eapply ks_trans; [apply ks_mark | apply ks_enter_close]).
Qed.

Lemma step_keeps s t s' u :
  step s t = Some s' -> (u = t -> pcof s t <> PO0) -> keeps_stream (tasks s u) (tasks s' u).
Proof.
  intros H NP. unfold step in H.
  destruct (t_pc (tasks s t)) eqn:Epc.
  - destruct (t_prog (tasks s t)) as [|c rest]; [discriminate|].
    unfold start_call in H. set (x := with_prog (tasks s t) rest) in *. set (s0 := set_task s t x) in *.
    assert (keeps_stream (tasks s u) (tasks s0 u)) as K0 by (apply ks_set_task; split; auto).
    assert (forall v, keeps_stream x v -> keeps_stream (tasks s0 u) (tasks (set_task s0 t v) u)) as KS.
    { intros v Hv. apply ks_set_task. unfold s0. cbn. rewrite upd_same. exact Hv. }
    destruct c;
      repeat match type of H with
             | context [match ?y with _ => _ end] => destruct y eqn:?
             end; inversion H; subst s'; clear H; (eapply ks_trans; [exact K0|]);
      try (first [apply ks_finish | apply KS; split; auto]; fail).
    + eapply ks_trans; [apply KS with (v := with_verdict x (Some ResTimeout)); split; auto | apply ks_finish].
    + eapply ks_trans; [apply KS with (v := with_rq x n0 (t_rclosed x)); split; auto | apply ks_finish].
    + apply ks_enter_close.
    + apply (ks_finish (set_buffering s0 false)).
    + apply (ks_finish (set_buffering s0 true)).
    + apply (ks_finish (set_failing s0)).
    + apply (ks_finish (set_stalled s0)).
    + eapply ks_trans; [apply ks_feed | apply ks_finish].
    + eapply ks_trans; [apply ks_push | apply ks_finish].
    + match goal with |- keeps_stream _ (tasks (set_pump_done (finish ?X t ResClosed)) u) => apply (ks_finish X t ResClosed u) end.
    + match goal with |- keeps_stream _ (tasks (finish ?X t ?r) u) => apply (ks_finish X t r u) end.
  - destruct (closed s); [|destruct (buffering s)]; inversion H; subst;
      [apply ks_finish_w | apply ks_set_task; destruct k; split; auto | apply ks_set_task; destruct k; split; auto].
  - inversion H; subst. apply (ks_finish_w (set_queue s (pending s ++ [(t, f)]) (lin s ++ [(t, f)]))).
  - destruct (wr s); inversion H; subst; apply (ks_set_pc (set_lock s _ _)).
  - discriminate.
  - inversion H; subst. apply (ks_set_pc (set_queue s _ _)).
  - destruct (stalled s && negb (shut s)); [discriminate|].
    destruct (failing s || shut s); inversion H; subst.
    + set (s1 := set_wire s (pkt s + 1)%N (wire s)).
      eapply ks_trans; [apply (ks_release_ws (waiters s1) s1 u) | apply ks_set_pc].
    + set (s1 := set_wire s (pkt s + 1)%N (wire s ++ [((pkt s + 1)%N, held)])).
      eapply ks_trans; [apply (ks_release_ws (waiters s1) s1 u) | apply ks_finish_w].
  - inversion H; subst. apply ks_enter_close.
  - cbv zeta in H. inversion H; subst. set (s1 := wake_pump_closed s).
    eapply ks_trans; [apply ks_wake|]. fold s1.
    eapply ks_trans; [|apply (ks_set_pc (drain_state s1) t (PC2 a k) u)].
    change (keeps_stream (tasks s1 u) (drain (table s1) (tasks s1) u)).
    destruct (drain_keeps (table s1) (tasks s1) u) as (A & _ & B & _). split; [left; exact B | exact A].
  - destruct (wr s); inversion H; subst; [apply (ks_set_pc (set_lock s _ _)) | apply (ks_shutdown_close s)].
  - discriminate.
  - inversion H; subst. destruct (Nat.eq_dec u t) as [->|Hne].
    + exfalso. apply NP; [reflexivity | unfold pcof; exact Epc].
    + cbn. rewrite upd_other by exact Hne. apply ks_refl.
  - inversion H; subst. apply (ks_set_task (set_table s (next_sid s) (table s ++ [(sid, t)])) t _ u). split; auto.
  - inversion H; subst. apply ks_set_task. split; auto.
  - discriminate.
Qed.

(* ---- the pc of the stepping task: PO0 is only ever entered from PIdle on an open session ---- *)
Lemma pcof_enter_close_same s t a k : pcof (enter_close s t a k) t = PIdle \/ pcof (enter_close s t a k) t = PC1 a k.
Proof.
  unfold enter_close. destruct (closed s); [left; apply pcof_finish_close_same | right].
  unfold pcof. cbn. rewrite upd_same. reflexivity.
Qed.

Definition is_pre (p : pc) : bool := match p with PO0 | PO0b _ => true | _ => false end.

(* on a closed session nobody enters open_stream's registration any more *)
Lemma step_self_not_pre s t s' :
  step s t = Some s' -> closed s = true -> is_pre (pcof s t) = false -> is_pre (pcof s' t) = false.
Proof.
  intros H C P. unfold step in H. unfold pcof in P.
  destruct (t_pc (tasks s t)) eqn:Epc; try discriminate.
  - destruct (t_prog (tasks s t)) as [|c rest]; [discriminate|].
    unfold start_call in H. set (x := with_prog (tasks s t) rest) in *. set (s0 := set_task s t x) in *.
    rewrite C in H.
    destruct c;
      repeat match type of H with
             | context [match ?y with _ => _ end] => destruct y eqn:?
             end; inversion H; subst s'; clear H;
      try (unfold pcof; cbn; rewrite ?upd_same; cbn; reflexivity).
    + destruct (pcof_enter_close_same s0 t AfterClose WkPlain) as [E|E]; rewrite E; reflexivity.
  - rewrite C in H. inversion H; subst. destruct (pcu_finish_w s t k ResClosed) as (_ & _ & E & _). rewrite E. reflexivity.
  - inversion H; subst.
    destruct (pcu_finish_w (set_queue s (pending s ++ [(t, f)]) (lin s ++ [(t, f)])) t k ResOk) as (_ & _ & E & _).
    rewrite E. reflexivity.
  - destruct (wr s); inversion H; subst; unfold pcof; cbn; rewrite upd_same; reflexivity.
  - inversion H; subst. unfold pcof; cbn; rewrite upd_same; reflexivity.
  - destruct (stalled s && negb (shut s)); [discriminate|].
    destruct (failing s || shut s); inversion H; subst.
    + unfold pcof; cbn; rewrite upd_same; reflexivity.
    + match goal with |- is_pre (pcof (finish_w ?a t k ResOk) t) = _ => destruct (pcu_finish_w a t k ResOk) as (_ & _ & E & _) end.
      rewrite E. reflexivity.
  - inversion H; subst. destruct (pcof_enter_close_same s t a k) as [E|E]; rewrite E; reflexivity.
  - cbv zeta in H. inversion H; subst. unfold pcof; cbn; rewrite upd_same; reflexivity.
  - destruct (wr s); inversion H; subst; [unfold pcof; cbn; rewrite upd_same; reflexivity|].
    rewrite pcof_finish_close_same. reflexivity.
  - inversion H; subst. unfold pcof; cbn; rewrite upd_same; reflexivity.
Qed.

(* ---- the windows of open_stream. The closed flag is examined BEFORE the id is allocated, and the stream is put
   into the two tables by two separate lock acquisitions; no lock spans any two of these. So a stream can be
   registered (in one table, then in the other) after close() has drained them. Such an entry is never handed to a
   caller: its owner is still inside open_stream, the SYN it is about to submit fails on the closed flag, and
   open_stream returns the error (the handle is dropped). ---- *)
Definition in_window (p : pc) (sid : N) : Prop := p = PO1 sid \/ p = PW0 WkOpen (syn_frame sid).
Definition in_window_r (p : pc) (sid : N) : Prop := p = PO0b sid \/ in_window p sid.
Definition late_entry (s : state) (sid : N) (u : tid) : Prop :=
  in_window (pcof s u) sid \/ (t_sid (tasks s u) = None /\ is_pre (pcof s u) = false).
Definition late_entry_r (s : state) (sid : N) (u : tid) : Prop :=
  in_window_r (pcof s u) sid \/ (t_sid (tasks s u) = None /\ is_pre (pcof s u) = false).

(* in every state: an inbound queue without a `streams` entry belongs to an open_stream between its two inserts *)
Definition half_ok (s : state) : Prop :=
  forall sid u, In (sid, u) (rtable s) -> In (sid, u) (table s) \/ pcof s u = PO0b sid.

Lemma other_keeps_po0b s t s' u sid : Inv s -> step s t = Some s' -> u <> t -> pcof s u = PO0b sid -> pcof s' u = PO0b sid.
Proof.
  intros HI H Hne P.
  destruct (step_others s t s' HI H u Hne) as [[E|[(k & f & A & _)|(a & k & A & _)]]|[(_ & A & _)|(A & _)]];
    try (rewrite A in P; discriminate). rewrite E. exact P.
Qed.

Lemma remove_owner_not_in tb sid o : ~ In (sid, o) (remove_owner tb o).
Proof. unfold remove_owner. intros H. apply filter_In in H. destruct H as [_ X]. cbn in X. rewrite Nat.eqb_refl in X. discriminate. Qed.

Theorem step_half_ok s t s' : Inv s -> half_ok s -> step s t = Some s' -> half_ok s'.
Proof.
  intros HI Hh H sid u Hin.
  destruct (step_tables s t s' H) as [T R NP|a k P T R|o P T R|P T R|x P T R].
  - rewrite R in Hin. destruct (Hh sid u Hin) as [A|A]; [left; rewrite T; exact A | right].
    destruct (Nat.eq_dec u t) as [->|Hne]; [exfalso; apply (proj1 NP sid A) | eapply other_keeps_po0b; eauto].
  - rewrite R in Hin. pose proof (in_minus_pairs_inv _ _ _ Hin) as Hin0. pose proof (minus_pairs_not_in _ _ _ Hin) as Nt.
    destruct (Hh sid u Hin0) as [A|A]; [contradiction | right].
    destruct (Nat.eq_dec u t) as [->|Hne]; [rewrite P in A; discriminate | eapply other_keeps_po0b; eauto].
  - assert (In (sid, u) (rtable s) /\ u <> o) as [Hin0 Huo].
    { destruct R as [R|[R L]]; rewrite R in Hin.
      - split; [eapply in_remove_owner_inv; exact Hin | intros ->; exact (remove_owner_not_in _ _ _ Hin)].
      - split; [exact Hin | intros ->; exact (lookup_none_not_in _ _ L sid Hin)]. }
    destruct (Hh sid u Hin0) as [A|A]; [left; rewrite T; apply in_remove_owner; assumption | right].
    destruct (Nat.eq_dec u t) as [->|Hne]; [rewrite P in A; discriminate | eapply other_keeps_po0b; eauto].
  - rewrite R in Hin. apply in_app_or in Hin. destruct Hin as [Hin|[E|[]]].
    + destruct (Hh sid u Hin) as [A|A]; [left; rewrite T; exact A | right].
      destruct (Nat.eq_dec u t) as [->|Hne]; [rewrite P in A; discriminate | eapply other_keeps_po0b; eauto].
    + inversion E; subst. right. unfold step in H. unfold pcof in P. rewrite P in H. inversion H; subst.
      unfold pcof. cbn. rewrite upd_same. reflexivity.
  - rewrite R in Hin. destruct (Hh sid u Hin) as [A|A]; [left; rewrite T; apply in_or_app; left; exact A|].
    destruct (Nat.eq_dec u t) as [->|Hne].
    + rewrite P in A. inversion A; subst. left. rewrite T. apply in_or_app. right. left. reflexivity.
    + right. eapply other_keeps_po0b; eauto.
Qed.

Lemma half_ok_init progs buf pend : half_ok (init progs buf pend).
Proof. intros sid u H. destruct H. Qed.

Definition drained_ok (s : state) : Prop :=
  closed s = true ->
  (exists x, is_pc1 (pcof s x) = true) \/
  ((forall sid u, In (sid, u) (table s) -> late_entry s sid u) /\
   (forall sid u, In (sid, u) (rtable s) -> late_entry_r s sid u)).

Lemma step_self_late_r s t s' sid :
  step s t = Some s' -> closed s = true -> late_entry_r s sid t -> late_entry_r s' sid t.
Proof.
  intros H C [[W|[W|W]]|[Sn Np]].
  - (* PO0b: the second insert *)
    left. right. left. unfold step in H. unfold pcof in W. rewrite W in H. inversion H; subst.
    unfold pcof. cbn. rewrite upd_same. reflexivity.
  - (* PO1: the SYN is submitted *)
    left. right. right. unfold step in H. unfold pcof in W. rewrite W in H. inversion H; subst.
    unfold pcof. cbn. rewrite upd_same. reflexivity.
  - (* PW0 of the SYN: the closed flag is seen, open_stream returns the error and drops the handle *)
    right. unfold step in H. unfold pcof in W. rewrite W, C in H. inversion H; subst.
    unfold pcof. cbn. rewrite upd_same. cbn. split; reflexivity.
  - right. split; [|eapply step_self_not_pre; eauto].
    assert (pcof s t <> PO0) as Np0 by (intros E; rewrite E in Np; discriminate).
    destruct (step_keeps s t s' t H (fun _ => Np0)) as [[E|E] _]; [rewrite E; exact Sn | exact E].
Qed.

Lemma step_self_late s t s' sid :
  step s t = Some s' -> closed s = true -> late_entry s sid t -> late_entry s' sid t.
Proof.
  intros H C L.
  assert (late_entry_r s sid t) as Lr by (destruct L as [W|N]; [left; right; exact W | right; exact N]).
  destruct L as [W|N].
  - destruct W as [W|W].
    + left. right. unfold step in H. unfold pcof in W. rewrite W in H. inversion H; subst.
      unfold pcof. cbn. rewrite upd_same. reflexivity.
    + right. unfold step in H. unfold pcof in W. rewrite W, C in H. inversion H; subst.
      unfold pcof. cbn. rewrite upd_same. cbn. split; reflexivity.
  - destruct (step_self_late_r s t s' sid H C (or_intror N)) as [[W|W]|N']; [| left; exact W | right; exact N'].
    (* the task cannot be between its two inserts: it was not in the registration before *)
    exfalso. destruct N as [_ Np]. pose proof (step_self_not_pre s t s' H C Np) as X. rewrite W in X. discriminate.
Qed.

Lemma step_other_late_r s t s' sid u :
  Inv s -> step s t = Some s' -> u <> t -> late_entry_r s sid u -> late_entry_r s' sid u.
Proof.
  intros HI H Hne L.
  pose proof (step_others s t s' HI H u Hne) as O.
  destruct L as [W|[Sn Np]].
  - left. assert (pcof s' u = pcof s u) as E; [|rewrite E; exact W].
    destruct O as [[E|[(k & f & A & _)|(a & k & A & _)]]|[(_ & A & _)|(A & _)]]; [exact E | | | |];
      destruct W as [W|[W|W]]; rewrite W in A; discriminate.
  - right. split.
    + destruct (step_keeps s t s' u H (fun E => False_ind _ (Hne E))) as [[E|E] _]; [rewrite E; exact Sn | exact E].
    + destruct O as [[E|[(k & f & _ & B)|(a & k & _ & B & _)]]|[(_ & _ & [B|B])|(_ & [B|[f B]])]];
        try (rewrite B; reflexivity). rewrite E. exact Np.
Qed.

Lemma step_other_late s t s' sid u :
  Inv s -> step s t = Some s' -> u <> t -> late_entry s sid u -> late_entry s' sid u.
Proof.
  intros HI H Hne L.
  pose proof (step_others s t s' HI H u Hne) as O.
  destruct L as [W|[Sn Np]].
  - left. assert (pcof s' u = pcof s u) as E; [|rewrite E; exact W].
    destruct O as [[E|[(k & f & A & _)|(a & k & A & _)]]|[(_ & A & _)|(A & _)]]; [exact E | | | |];
      destruct W as [W|W]; rewrite W in A; discriminate.
  - destruct (step_other_late_r s t s' sid u HI H Hne (or_intror (conj Sn Np))) as [[W|W]|N]; [| left; exact W | right; exact N].
    exfalso. destruct O as [[E|[(k & f & _ & B)|(a & k & _ & B & _)]]|[(_ & _ & [B|B])|(_ & [B|[f B]])]];
      try (rewrite B in W; discriminate). rewrite E in W. rewrite W in Np. discriminate.
Qed.

Theorem step_drained_ok s t s' : Inv s -> half_ok s -> drained_ok s -> step s t = Some s' -> drained_ok s'.
Proof.
  intros HI Hh D H C'. destruct (closed s) eqn:C.
  - destruct (D C) as [[x Hx]|[Rt Rr]].
    + destruct (Nat.eq_dec x t) as [->|Hne].
      * (* the drain itself *)
        right. unfold pcof in Hx. destruct (t_pc (tasks s t)) eqn:Epc; try discriminate.
        destruct (step_tables s t s' H) as [_ _ NP|a' k' P T R|o P _ _|P _ _|y P _ _];
          try (unfold pcof in P; rewrite Epc in P; discriminate).
        -- exfalso. destruct NP as [_ NP]. unfold pcof in NP. rewrite Epc in NP. discriminate.
        -- split; [rewrite T; intros sid u []|].
           intros sid u Hin. rewrite R in Hin.
           pose proof (in_minus_pairs_inv _ _ _ Hin) as Hin0. pose proof (minus_pairs_not_in _ _ _ Hin) as Nt.
           destruct (Hh sid u Hin0) as [A|A]; [contradiction|].
           left. left. destruct (Nat.eq_dec u t) as [->|Hne]; [unfold pcof in A; rewrite Epc in A; discriminate | eapply other_keeps_po0b; eauto].
      * left. destruct (step_others s t s' HI H x Hne) as [[E|[(k & f & A & _)|(a & k & A & _)]]|[(_ & A & _)|(A & _)]].
        -- exists x. rewrite E. exact Hx.
        -- rewrite A in Hx. discriminate.
        -- rewrite A in Hx. discriminate.
        -- rewrite A in Hx. discriminate.
        -- rewrite A in Hx. discriminate.
    + right. split.
      * intros sid u Hin.
        destruct (step_table_in s t s' (sid, u) H Hin) as [Hold|(y & P & E)].
        -- specialize (Rt sid u Hold). destruct (Nat.eq_dec u t) as [->|Hne].
           ++ eapply step_self_late; eauto.
           ++ eapply step_other_late; eauto.
        -- inversion E; subst. left. left.
           unfold step in H. unfold pcof in P. rewrite P in H. inversion H; subst.
           unfold pcof. cbn. rewrite upd_same. reflexivity.
      * intros sid u Hin.
        destruct (step_rtable_in s t s' (sid, u) H Hin) as [Hold|[P E]].
        -- specialize (Rr sid u Hold). destruct (Nat.eq_dec u t) as [->|Hne].
           ++ eapply step_self_late_r; eauto.
           ++ eapply step_other_late_r; eauto.
        -- inversion E; subst. left. left.
           unfold step in H. unfold pcof in P. rewrite P in H. inversion H; subst.
           unfold pcof. cbn. rewrite upd_same. reflexivity.
  - destruct (step_closed_by_pc1 s t s' H C C') as [A|[_ A]]; left; eauto.
Qed.

Lemma drained_ok_init progs buf pend : drained_ok (init progs buf pend).
Proof. intros C. discriminate. Qed.

(* ---- assembled: the end state of a dead session ---- *)
Definition quiescent_close (s : state) : Prop := forall x, in_close (pcof s x) = false.

Theorem dead_session_released sched progs buf pend :
  let s := run (init progs buf pend) sched in
  closed s = true -> quiescent_close s ->
  (shut s = true \/ stalled s = true) /\
  (forall sid u, In (sid, u) (table s) -> late_entry s sid u) /\
  (forall sid u, In (sid, u) (rtable s) -> late_entry_r s sid u).
Proof.
  intros s C Q.
  assert (Inv s /\ shut_ok s /\ half_ok s /\ drained_ok s) as (HI & S & Hh & D).
  { unfold s. clear s C Q.
    apply (run_invariant (fun s => Inv s /\ shut_ok s /\ half_ok s /\ drained_ok s)).
    - intros s t s' HI (_ & S & Hh & D) H.
      split; [eapply step_inv; eauto | split; [eapply step_shut_ok; eauto | split; [eapply step_half_ok; eauto | eapply step_drained_ok; eauto]]].
    - apply inv_init.
    - split; [apply inv_init | split; [apply shut_ok_init | split; [apply half_ok_init | apply drained_ok_init]]]. }
  split.
  - destruct (S C) as [A|[x A]]; [unfold shutd in A; apply orb_true_iff in A; exact A | rewrite Q in A; discriminate].
  - destruct (D C) as [[x A]|A]; [|exact A]. specialize (Q x). destruct (pcof s x); discriminate.
Qed.

(* assembled: in a dead session every task that holds a stream handle has that stream's queue closed: its
   reads return the data already queued and then end-of-stream, they never park. The only streams exempt are
   those whose open_stream call is still in its window (registered after the drain, SYN not yet attempted):
   no caller has their handle yet, and it never gets it (window_open_fails). *)
Theorem dead_session_readers sched progs buf pend :
  let s := run (init progs buf pend) sched in
  closed s = true -> quiescent_close s ->
  forall u sid, t_sid (tasks s u) = Some sid -> t_rclosed (tasks s u) = true \/ in_window_r (pcof s u) sid.
Proof.
  intros s C Q u sid H.
  assert (reader_ok s) as R.
  { unfold s. apply (run_invariant reader_ok); [| apply inv_init | apply reader_ok_init].
    intros s1 t s2 _ R1 H1. eapply step_reader_ok; eauto. }
  destruct (dead_session_released sched progs buf pend C Q) as (_ & _ & T). fold s in T.
  destruct (R u sid H) as [A|A]; [|left; exact A].
  destruct (T sid u A) as [W|[Sn _]]; [right; exact W | congruence].
Qed.

(* the open_stream call that registered its stream in the window fails: three steps after the first insert it has
   returned SessionClosed, nothing was written, and the task holds no handle *)
Theorem window_open_fails s t sid :
  closed s = true -> pcof s t = PO1 sid ->
  exists s1 s2, step s t = Some s1 /\ step s1 t = Some s2 /\
    wire s2 = wire s /\ pending s2 = pending s /\ table s2 = table s /\
    t_sid (tasks s2 t) = None /\ exists pre, t_res (tasks s2 t) = pre ++ [ResClosed].
Proof.
  intros C P. unfold pcof in P.
  eexists. eexists. split; [unfold step; rewrite P; reflexivity|].
  split; [unfold step; cbn; rewrite upd_same; cbn; rewrite C; reflexivity|].
  cbn. rewrite !upd_same. cbn. repeat split; eexists; reflexivity.
Qed.

Theorem window_second_insert s t sid :
  pcof s t = PO0b sid -> exists s1, step s t = Some s1 /\ pcof s1 t = PO1 sid /\ closed s1 = closed s /\ wire s1 = wire s.
Proof.
  intros P. unfold pcof in P. eexists. split; [unfold step; rewrite P; reflexivity|].
  unfold pcof. cbn. rewrite upd_same. repeat split; reflexivity.
Qed.
