(* ConcFair.v -- "promptly": under round-robin scheduling the session's own machinery comes to rest within a number
   of rounds bounded by the programs alone, from EVERY reachable state, and at rest every task has finished, waits
   for the peer / the application, or is blocked by the stalled transport (known finding F4) -- nothing else.
   Composition of ConcTerm (every step pays from a potential that no other task's step refills) and
   ConcDeath.no_deadlock (a task that cannot move and is none of the above has an enabled lock holder in front). *)
From Coq Require Import List NArith ZArith Lia Bool Arith.
From AnyTLS Require Import Bytes Cmd Generated Frame Conc ConcInv ConcLin ConcDeath ConcTerm.
Import ListNotations.
Local Open Scope nat_scope.
Arguments push_item : simpl never.
Arguments wake_pump_closed : simpl never.

(* ---- the receive task is set in motion by a CFeed call of another task only ---- *)
Lemma r_pcu s s' t p : pc_update s s' t p -> t <> rtid -> pcof s' rtid = pcof s rtid.
Proof. intros (_ & _ & _ & E) H. apply E. intros X. apply H. symmetry. exact X. Qed.
Lemma r_quiet s s' : quiet s s' -> pcof s' rtid = pcof s rtid.
Proof. intros (_ & _ & E). apply E. Qed.

Lemma r_enter_close s t a k : t <> rtid -> pcof (enter_close s t a k) rtid = pcof s rtid.
Proof.
  intros H. unfold enter_close. destruct (closed s).
  - apply (r_pcu _ _ _ _ (pcu_finish_close s t a k) H).
  - apply (r_pcu _ _ _ _ (pcu_set_pc (set_closed s) t (PC1 a k)) H).
Qed.

Definition feeds (s : state) (t : tid) : Prop :=
  pcof s t = PIdle /\ exists ev rest, t_prog (tasks s t) = CFeed ev :: rest.

Lemma kick_only_feed s t s' :
  Inv s -> step s t = Some s' -> t <> rtid -> pcof s rtid = PIdle ->
  pcof s' rtid = pcof s rtid \/ feeds s t.
Proof.
  intros HI H Hne Ri. unfold step in H.
  assert (rtid <> t) as Hne' by (intros X; apply Hne; symmetry; exact X).
  destruct (t_pc (tasks s t)) eqn:Epc.
  - destruct (t_prog (tasks s t)) as [|c rest] eqn:Eprog; [discriminate|].
    unfold start_call in H.
    set (s0 := set_task s t (with_prog (tasks s t) rest)) in *.
    assert (pcof s0 rtid = pcof s rtid) as R0 by (apply r_quiet; apply quiet_with_prog).
    destruct c; try (right; split; [unfold pcof; exact Epc | eauto]; fail); left; rewrite <- R0;
      repeat match type of H with
             | context [match ?x with _ => _ end] => destruct x
             end; inversion H; subst;
      try (unfold pcof; cbn; rewrite ?upd_other by exact Hne'; reflexivity).
    + apply r_enter_close. exact Hne.
    + match goal with |- pcof (finish ?X t ?r) rtid = _ =>
        rewrite (r_pcu _ _ _ _ (pcu_finish X t r) Hne) end.
      apply pcof_pump_effect_other; [apply pump_effect_push | rewrite R0, Ri; discriminate].
  - left. destruct (closed s); [|destruct (buffering s)]; inversion H; subst.
    + apply (r_pcu _ _ _ _ (pcu_finish_w s t k ResClosed) Hne).
    + apply (r_pcu _ _ _ _ (pcu_set_task s t _) Hne).
    + apply (r_pcu _ _ _ _ (pcu_set_task s t _) Hne).
  - left. inversion H; subst.
    rewrite (r_pcu _ _ _ _ (pcu_finish_w _ t k ResOk) Hne). reflexivity.
  - left. destruct (wr s); inversion H; subst; unfold pcof; cbn; rewrite upd_other by exact Hne'; reflexivity.
  - discriminate.
  - left. inversion H; subst. unfold pcof. cbn. rewrite upd_other by exact Hne'. reflexivity.
  - (* PW4: the release hands the lock to waiters only; the receive task is idle *)
    left.
    assert (step s t = Some s') as H0 by (unfold step; rewrite Epc; exact H).
    destruct (step_others s t s' HI H0 rtid Hne') as [[E|[(k' & f' & A & _)|(a & k' & A & _)]]|[(_ & _ & B)|(A & _)]];
      [exact E | rewrite Ri in A; discriminate | rewrite Ri in A; discriminate | | rewrite Ri in A; discriminate].
    + (* a kick cannot come from a PW4 step: the release touches waiters only *)
      exfalso. clear H0.
      destruct (stalled s && negb (shut s)); [discriminate|].
      assert (wr s = Some t) as Ewr by (apply (inv_holder s HI); unfold pcof; rewrite Epc; reflexivity).
      destruct (failing s || shut s); inversion H; subst.
      * set (s1 := set_wire s (pkt s + 1)%N (wire s)) in *.
        assert (Inv s1) as HI1 by (eapply inv_quiet; [exact HI | unfold quiet; split; [reflexivity | split; [reflexivity | intros ?; reflexivity]]]).
        pose proof (release_ws_others (waiters s1) s1 t (leaving_of_inv s1 t HI1 Ewr) rtid Hne') as R.
        assert (pcof (set_pc (release s1) t (PE0 AfterIoErr k)) rtid = pcof (release s1) rtid) as E1
          by (apply (r_pcu _ _ _ _ (pcu_set_pc _ t _) Hne)).
        assert (pcof s1 rtid = PIdle) as Ri1 by exact Ri.
        destruct R as [E|[(k' & f' & A & _)|(a & k' & A & _)]]; [|rewrite Ri1 in A; discriminate|rewrite Ri1 in A; discriminate].
        destruct B as [B|B]; rewrite E1 in B; unfold release in B; rewrite E, Ri1 in B; discriminate.
      * set (s1 := set_wire s (pkt s + 1)%N (wire s ++ [((pkt s + 1)%N, held)])) in *.
        assert (Inv s1) as HI1 by (eapply inv_quiet; [exact HI | unfold quiet; split; [reflexivity | split; [reflexivity | intros ?; reflexivity]]]).
        pose proof (release_ws_others (waiters s1) s1 t (leaving_of_inv s1 t HI1 Ewr) rtid Hne') as R.
        assert (pcof (finish_w (release s1) t k ResOk) rtid = pcof (release s1) rtid) as E1
          by (apply (r_pcu _ _ _ _ (pcu_finish_w _ t k ResOk) Hne)).
        assert (pcof s1 rtid = PIdle) as Ri1 by exact Ri.
        destruct R as [E|[(k' & f' & A & _)|(a & k' & A & _)]]; [|rewrite Ri1 in A; discriminate|rewrite Ri1 in A; discriminate].
        destruct B as [B|B]; rewrite E1 in B; unfold release in B; rewrite E, Ri1 in B; discriminate.
  - left. inversion H; subst. apply r_enter_close. exact Hne.
  - left. cbv zeta in H. inversion H; subst.
    rewrite (r_pcu _ _ _ _ (pcu_set_pc _ t _) Hne). unfold pcof. cbn [tasks drain_state set_rtable set_table set_tasks].
    rewrite drain_pc. apply pcof_pump_effect_other; [apply pump_effect_wake | rewrite Ri; discriminate].
  - left. destruct (wr s); inversion H; subst.
    + unfold pcof. cbn. rewrite upd_other by exact Hne'. reflexivity.
    + rewrite (r_pcu _ _ _ _ (pcu_finish_close _ t a k) Hne). apply pcof_shutdown_tr.
  - discriminate.
  - left. inversion H; subst. unfold pcof. cbn. rewrite upd_other by exact Hne'. reflexivity.
  - left. inversion H; subst. unfold pcof. cbn. rewrite upd_other by exact Hne'. reflexivity.
  - left. inversion H; subst. unfold pcof. cbn. rewrite upd_other by exact Hne'. reflexivity.
  - discriminate.
Qed.

(* a feeding step pays 4, whatever the event does *)
Lemma feed_pays s t s' : Inv s -> step s t = Some s' -> feeds s t -> mu s' t + 4 <= mu s t.
Proof.
  intros HI H (Ei & ev & rest & Ep). unfold step in H. unfold pcof in Ei. rewrite Ei, Ep in H.
  unfold start_call in H. unfold mu.
  destruct (Nat.eqb t rtid); inversion H; subst;
    rewrite (pcof_of_pcu _ _ _ _ (pcu_finish _ t _)), prog_finish, ?prog_feed;
    cbn [tasks set_task set_tasks]; rewrite upd_same; cbn [t_prog with_prog];
    unfold pcof; rewrite Ei, Ep; cbn; lia.
Qed.

(* what a step of another task can do to the receive task's potential *)
Lemma step_recv_mu s t s' :
  Inv s -> step s t = Some s' -> t <> rtid ->
  mu s' rtid <= mu s rtid \/ (mu s' rtid <= mu s rtid + 3 /\ mu s' t + 4 <= mu s t).
Proof.
  intros HI H Hne.
  assert (rtid <> t) as Hne' by (intros X; apply Hne; symmetry; exact X).
  pose proof (step_other_prog s t s' rtid H Hne') as P.
  destruct (step_others s t s' HI H rtid Hne') as [[E|[(k & f & A & B)|(a & k & A & B & _)]]|[(_ & A & B)|(A & [B|[f B]])]].
  - left. unfold mu. rewrite P, E. lia.
  - left. unfold mu. rewrite P, A, B. cbn. lia.
  - left. unfold mu. rewrite P, A, B. cbn. lia.
  - destruct (kick_only_feed s t s' HI H Hne A) as [E|F].
    + left. unfold mu. rewrite P, E. lia.
    + right. split; [|apply feed_pays; assumption].
      unfold mu. rewrite P, A. destruct B as [B|B]; rewrite B; cbn; lia.
  - left. unfold mu. rewrite P, A, B. cbn. lia.
  - left. unfold mu. rewrite P, A, B. cbn. lia.
Qed.

(* ---- the total potential of the tasks 0 .. n-1 ---- *)
Fixpoint sumf (f : tid -> nat) (l : list tid) : nat :=
  match l with [] => 0 | t :: r => f t + sumf f r end.

Lemma sumf_le f g l : (forall u, In u l -> g u <= f u) -> sumf g l <= sumf f l.
Proof.
  induction l as [|x l IH]; intros H; cbn; [lia|].
  pose proof (H x (or_introl eq_refl)). assert (sumf g l <= sumf f l) by (apply IH; intros u Hu; apply H; right; exact Hu). lia.
Qed.
Lemma sumf_dec f g l t d :
  (forall u, In u l -> g u <= f u) -> In t l -> g t + d <= f t -> sumf g l + d <= sumf f l.
Proof.
  induction l as [|x l IH]; intros H Hin Hd; [destruct Hin|]. cbn.
  assert (forall u, In u l -> g u <= f u) as H' by (intros u Hu; apply H; right; exact Hu).
  destruct Hin as [->|Hin].
  - pose proof (sumf_le f g l H'). lia.
  - pose proof (H x (or_introl eq_refl)). pose proof (IH H' Hin Hd). lia.
Qed.

Definition total (n : nat) (s : state) : nat := sumf (mu s) (seq 0 n).

Lemma seq_head n : 0 < n -> seq 0 n = rtid :: seq 1 (n - 1).
Proof. intros H. destruct n; [lia|]. cbn. rewrite Nat.sub_0_r. reflexivity. Qed.

Theorem step_total n s t s' : Inv s -> step s t = Some s' -> t < n -> total n s' < total n s.
Proof.
  intros HI H Hlt. unfold total.
  assert (In t (seq 0 n)) as Hin by (apply in_seq; lia).
  pose proof (step_self_mu s t s' HI H) as Hself.
  destruct (Nat.eq_dec t rtid) as [->|Hne].
  - (* the receive task itself steps: nobody else's potential grows *)
    assert (sumf (mu s') (seq 0 n) + 1 <= sumf (mu s) (seq 0 n)); [|lia].
    apply sumf_dec with (t := rtid); [|exact Hin|lia].
    intros u Hu. destruct (Nat.eq_dec u rtid) as [->|Hur]; [lia|].
    apply (step_other_mu s rtid s' u HI H Hur Hur).
  - rewrite (seq_head n) by lia. cbn [sumf].
    assert (In t (seq 1 (n - 1))) as Hin1 by (apply in_seq; unfold rtid in Hne; lia).
    assert (forall u, In u (seq 1 (n - 1)) -> mu s' u <= mu s u) as Hle.
    { intros u Hu. apply in_seq in Hu. destruct (Nat.eq_dec u t) as [->|Hut]; [lia|].
      apply (step_other_mu s t s' u HI H Hut). unfold rtid. lia. }
    destruct (step_recv_mu s t s' HI H Hne) as [R|[R P]].
    + pose proof (sumf_dec (mu s) (mu s') (seq 1 (n - 1)) t 1 Hle Hin1 ltac:(lia)). lia.
    + pose proof (sumf_dec (mu s) (mu s') (seq 1 (n - 1)) t 4 Hle Hin1 P). lia.
Qed.

(* ---- rounds ---- *)
Definition stuck_on (l : list tid) (s : state) : Prop := forall u, In u l -> step s u = None.

Lemma stuck_dec l s : {stuck_on l s} + {~ stuck_on l s}.
Proof.
  induction l as [|x l IH].
  - left. intros u [].
  - destruct (step s x) as [s1|] eqn:E.
    + right. intros S. rewrite (S x (or_introl eq_refl)) in E. discriminate.
    + destruct IH as [S|N].
      * left. intros u [->|Hu]; [exact E | apply S; exact Hu].
      * right. intros S. apply N. intros u Hu. apply S. right. exact Hu.
Qed.

Lemma run_stuck l : forall s, stuck_on l s -> run s l = s.
Proof.
  induction l as [|x l IH]; intros s S; [reflexivity|].
  rewrite run_cons. unfold step_or_skip. rewrite (S x (or_introl eq_refl)).
  apply IH. intros u Hu. apply S. right. exact Hu.
Qed.

Lemma run_total_le n l : forall s, Inv s -> (forall u, In u l -> u < n) -> total n (run s l) <= total n s.
Proof.
  induction l as [|x l IH]; intros s HI Hb; [cbn; lia|].
  rewrite run_cons. unfold step_or_skip.
  assert (forall u, In u l -> u < n) as Hb' by (intros u Hu; apply Hb; right; exact Hu).
  destruct (step s x) as [s1|] eqn:E.
  - pose proof (step_total n s x s1 HI E (Hb x (or_introl eq_refl))).
    pose proof (IH s1 (step_inv s x s1 HI E) Hb'). lia.
  - apply IH; assumption.
Qed.

Lemma run_progress n l : forall s, Inv s -> (forall u, In u l -> u < n) -> ~ stuck_on l s ->
  total n (run s l) < total n s.
Proof.
  induction l as [|x l IH]; intros s HI Hb NS.
  - exfalso. apply NS. intros u [].
  - rewrite run_cons. unfold step_or_skip.
    assert (forall u, In u l -> u < n) as Hb' by (intros u Hu; apply Hb; right; exact Hu).
    destruct (step s x) as [s1|] eqn:E.
    + pose proof (step_total n s x s1 HI E (Hb x (or_introl eq_refl))).
      pose proof (run_total_le n l s1 (step_inv s x s1 HI E) Hb'). lia.
    + apply IH; [exact HI | exact Hb'|]. intros S. apply NS. intros u [->|Hu]; [exact E | apply S; exact Hu].
Qed.

Fixpoint rounds (n N : nat) : list tid :=
  match N with 0 => [] | S N' => seq 0 n ++ rounds n N' end.

Lemma run_app s l1 l2 : run s (l1 ++ l2) = run (run s l1) l2.
Proof. unfold run. apply fold_left_app. Qed.

Lemma rounds_stuck n N : forall s, stuck_on (seq 0 n) s -> run s (rounds n N) = s.
Proof.
  induction N as [|N IH]; intros s S; [reflexivity|].
  cbn [rounds]. rewrite run_app, (run_stuck _ s S). apply IH. exact S.
Qed.

Theorem rounds_rest n N : forall s, Inv s -> total n s < N -> stuck_on (seq 0 n) (run s (rounds n N)).
Proof.
  induction N as [|N IH]; intros s HI Hlt; [lia|].
  cbn [rounds]. rewrite run_app.
  assert (forall u, In u (seq 0 n) -> u < n) as Hb by (intros u Hu; apply in_seq in Hu; lia).
  destruct (stuck_dec (seq 0 n) s) as [S|NS].
  - rewrite (run_stuck _ s S), (rounds_stuck n N s S). exact S.
  - pose proof (run_progress n (seq 0 n) s HI Hb NS) as P.
    apply IH; [apply run_inv; exact HI | lia].
Qed.

(* ---- tasks beyond the program list never do anything ---- *)
Definition beyond (n : nat) (s : state) : Prop :=
  forall t, n <= t -> pcof s t = PIdle /\ t_prog (tasks s t) = [].

Lemma beyond_init progs buf pend : beyond (length progs) (init progs buf pend).
Proof.
  intros t Ht. split; [reflexivity|]. cbn. apply nth_overflow. exact Ht.
Qed.

Lemma beyond_step n s t s' : Inv s -> 0 < n -> beyond n s -> step s t = Some s' -> beyond n s'.
Proof.
  intros HI Hn B H u Hu.
  assert (u <> t) as Hut.
  { intros ->. destruct (B t Hu) as [P Q]. unfold step in H. unfold pcof in P. rewrite P, Q in H. discriminate. }
  destruct (B u Hu) as [P Q]. split.
  - destruct (step_others s t s' HI H u Hut) as [[E|[(k & f & A & _)|(a & k & A & _)]]|[(A & _)|(A & _)]]; try congruence.
    unfold rtid in A. lia.
  - rewrite (step_other_prog s t s' u H Hut). exact Q.
Qed.

Lemma beyond_run n sched : forall s, Inv s -> 0 < n -> beyond n s -> beyond n (run s sched).
Proof.
  induction sched as [|t sched IH]; intros s HI Hn B; [exact B|].
  rewrite run_cons. unfold step_or_skip. destruct (step s t) as [s1|] eqn:E.
  - apply IH; [eapply step_inv; eauto | exact Hn | eapply beyond_step; eauto].
  - apply IH; assumption.
Qed.

Lemma beyond_stuck n s u : beyond n s -> n <= u -> step s u = None.
Proof. intros B G. destruct (B u G) as [P Q]. unfold step. unfold pcof in P. rewrite P, Q. reflexivity. Qed.

(* any schedule at all: grants to tasks beyond the program list are no-ops *)
Lemma run_total_le_any n l : forall s, Inv s -> 0 < n -> beyond n s -> total n (run s l) <= total n s.
Proof.
  induction l as [|x l IH]; intros s HI Hn B; [cbn; lia|].
  rewrite run_cons. unfold step_or_skip.
  destruct (step s x) as [s1|] eqn:E.
  - destruct (Nat.lt_ge_cases x n) as [L|G]; [|rewrite (beyond_stuck n s x B G) in E; discriminate].
    pose proof (step_total n s x s1 HI E L).
    pose proof (IH s1 (step_inv s x s1 HI E) Hn (beyond_step n s x s1 HI Hn B E)). lia.
  - apply IH; assumption.
Qed.

(* ---- at rest ---- *)
Definition transport_blocked (s : state) (t : tid) : Prop :=
  in_transport s t \/ (waits_pc (pcof s t) = true /\ exists h, wr s = Some h /\ in_transport s h).

Theorem at_rest n s :
  Inv s -> beyond n s -> stuck_on (seq 0 n) s ->
  forall t, finished s t \/ awaits_peer s t \/ awaits_app s t \/ transport_blocked s t.
Proof.
  intros HI B S t.
  assert (forall u, step s u = None) as SA.
  { intros u. destruct (Nat.lt_ge_cases u n) as [L|G].
    - apply S. apply in_seq. lia.
    - destruct (B u G) as [P Q]. unfold step. unfold pcof in P. rewrite P, Q. reflexivity. }
  destruct (no_deadlock s t HI) as [A|[[A|A]|[A|[(W & h & E & [A|A])|A]]]]; auto.
  - exfalso. apply A. apply SA.
  - exfalso. apply A. apply SA.
  - right; right; right. right. split; [exact W|]. exists h. split; assumption.
  - right; right; right. left. exact A.
Qed.

(* the bound in terms of the programs alone *)
Lemma total_init progs buf pend : total (length progs) (init progs buf pend) = sumf (fun t => progw (nth t progs [])) (seq 0 (length progs)).
Proof. unfold total. reflexivity. Qed.

Theorem fair_release progs buf pend sched0 :
  let n := length progs in
  let s0 := run (init progs buf pend) sched0 in
  let N := S (sumf (fun t => progw (nth t progs [])) (seq 0 n)) in
  let s := run s0 (rounds n N) in
  forall t, finished s t \/ awaits_peer s t \/ awaits_app s t \/ transport_blocked s t.
Proof.
  intros n s0 N s t.
  assert (Inv s0) as HI0 by (apply run_inv; apply inv_init).
  destruct (Nat.eq_dec n 0) as [Z|NZ].
  - (* no tasks at all *)
    left. assert (progs = []) as -> by (destruct progs; [reflexivity | discriminate]).
    assert (forall sched, run (init [] buf pend) sched = init [] buf pend) as R.
    { induction sched as [|x l IH]; [reflexivity|]. rewrite run_cons. unfold step_or_skip.
      assert (step (init [] buf pend) x = None) as E by (unfold step; cbn; destruct x; reflexivity).
      rewrite E. exact IH. }
    unfold s, s0. rewrite !R. split; [reflexivity|]. cbn. destruct t; reflexivity.
  - assert (beyond n s0) as B0 by (apply beyond_run; [apply inv_init | lia | apply beyond_init]).
    assert (total n s0 < N) as Hlt.
    { pose proof (run_total_le_any n sched0 (init progs buf pend) (inv_init progs buf pend) ltac:(lia) (beyond_init progs buf pend)) as L.
      assert (total n (init progs buf pend) = sumf (fun t => progw (nth t progs [])) (seq 0 n)) as TI by reflexivity.
      fold s0 in L. rewrite TI in L. unfold N. lia. }
    apply (at_rest n s).
    + apply run_inv. exact HI0.
    + apply beyond_run; [exact HI0 | lia | exact B0].
    + apply rounds_rest; assumption.
Qed.

(* ---- a dead session at rest: nobody is parked in a read ---- *)
Lemma rest_quiescent n s :
  Inv s -> beyond n s -> stuck_on (seq 0 n) s -> stalled s = false -> quiescent_close s.
Proof.
  intros HI B S St x.
  assert (forall u, step s u = None) as SA.
  { intros u. destruct (Nat.lt_ge_cases u n) as [L|G].
    - apply S. apply in_seq. lia.
    - destruct (B u G) as [P Q]. unfold step. unfold pcof in P. rewrite P, Q. reflexivity. }
  destruct (in_close (pcof s x)) eqn:E; [exfalso | reflexivity].
  pose proof (SA x) as Sx. unfold step in Sx. unfold pcof in E.
  destruct (t_pc (tasks s x)) eqn:Epc; try discriminate.
  - destruct (wr s); discriminate.
  - assert (In x (waiters s)) as Hw by (apply (inv_wait s HI); unfold pcof; rewrite Epc; reflexivity).
    destruct (wr s) as [h|] eqn:Ewr.
    + destruct (holder_enabled s h HI Ewr) as [A|(A & _)]; [apply A; apply SA | congruence].
    + rewrite (inv_free s HI Ewr) in Hw. exact Hw.
Qed.

Definition awaits_verdict (s : state) (t : tid) : Prop :=
  pcof s t = PIdle /\ exists rest, t_prog (tasks s t) = CAwait :: rest /\ t_sid (tasks s t) <> None /\ t_verdict (tasks s t) = None.

Theorem dead_at_rest progs buf pend sched0 :
  let n := length progs in
  let s0 := run (init progs buf pend) sched0 in
  let N := S (sumf (fun t => progw (nth t progs [])) (seq 0 n)) in
  let s := run s0 (rounds n N) in
  closed s = true -> stalled s = false ->
  forall t, finished s t \/ awaits_app s t \/ awaits_verdict s t.
Proof.
  intros n s0 N s C St t.
  assert (Inv s0) as HI0 by (apply run_inv; apply inv_init).
  assert (s = run (init progs buf pend) (sched0 ++ rounds n N)) as Es by (unfold s, s0; rewrite run_app; reflexivity).
  destruct (fair_release progs buf pend sched0 t) as [A|[A|[A|A]]]; fold n s0 N s in A.
  - left. exact A.
  - destruct A as (Pi & rest & [(Ep & Es' & Ev)|(Ep & Esid & Eq & Ec)]).
    + right; right. split; [exact Pi|]. exists rest. auto.
    + exfalso.
      destruct (Nat.eq_dec n 0) as [Z|NZ].
      * (* no tasks: every program is empty *)
        assert (progs = []) as Ep0 by (destruct progs; [reflexivity | discriminate]).
        assert (forall sched, run (init [] buf pend) sched = init [] buf pend) as R.
        { induction sched as [|x l IH]; [reflexivity|]. rewrite run_cons. unfold step_or_skip.
          assert (step (init [] buf pend) x = None) as E by (unfold step; cbn; destruct x; reflexivity).
          rewrite E. exact IH. }
        rewrite Es, Ep0, R in Ep. cbn in Ep. destruct t; discriminate.
      * assert (quiescent_close s) as Q.
        { apply (rest_quiescent n s).
          - apply run_inv. exact HI0.
          - apply beyond_run; [exact HI0 | lia | apply beyond_run; [apply inv_init | lia | apply beyond_init]].
          - apply rounds_rest; [exact HI0|].
            pose proof (run_total_le_any n sched0 (init progs buf pend) (inv_init progs buf pend) ltac:(lia) (beyond_init progs buf pend)) as L.
            assert (total n (init progs buf pend) = sumf (fun t => progw (nth t progs [])) (seq 0 n)) as TI by reflexivity.
            fold s0 in L. rewrite TI in L. unfold N. lia.
          - exact St. }
        destruct (t_sid (tasks s t)) as [sid|] eqn:Esd; [|apply Esid; reflexivity].
        rewrite Es in C, Q, Esd, Ec, Pi.
        destruct (dead_session_readers (sched0 ++ rounds n N) progs buf pend C Q t sid Esd) as [X|[X|[X|X]]].
        -- rewrite X in Ec. discriminate.
        -- rewrite Pi in X. discriminate.
        -- rewrite Pi in X. discriminate.
        -- rewrite Pi in X. discriminate.
  - right; left. exact A.
  - exfalso. destruct A as [(A & _)|(_ & h & _ & (A & _))]; congruence.
Qed.

(* ---- the same for ANY fair schedule: a sequence of segments each of which grants every task at least once ---- *)
Definition covering (n : nat) (l : list tid) : Prop :=
  (forall u, In u l -> u < n) /\ (forall u, u < n -> In u l).

Lemma stuck_sub l1 l2 s : (forall u, In u l2 -> In u l1) -> stuck_on l1 s -> stuck_on l2 s.
Proof. intros H S u Hu. apply S. apply H. exact Hu. Qed.

Lemma segments_stuck n segs : forall s,
  Forall (covering n) segs -> stuck_on (seq 0 n) s -> run s (concat segs) = s.
Proof.
  induction segs as [|l segs IH]; intros s F S; [reflexivity|].
  inversion F as [|? ? (Hb & _) F']; subst. cbn [concat]. rewrite run_app.
  assert (stuck_on l s) as Sl by (apply (stuck_sub (seq 0 n)); [intros u Hu; apply in_seq; pose proof (Hb u Hu); lia | exact S]).
  rewrite (run_stuck l s Sl). apply IH; assumption.
Qed.

Theorem segments_rest n segs : forall s,
  Forall (covering n) segs -> Inv s -> total n s < length segs -> stuck_on (seq 0 n) (run s (concat segs)).
Proof.
  induction segs as [|l segs IH]; intros s F HI Hlt; [cbn in Hlt; lia|].
  inversion F as [|? ? (Hb & Hc) F']; subst. cbn [concat]. rewrite run_app.
  destruct (stuck_dec l s) as [S|NS].
  - assert (stuck_on (seq 0 n) s) as S0 by (apply (stuck_sub l); [intros u Hu; apply Hc; apply in_seq in Hu; lia | exact S]).
    rewrite (run_stuck l s S), (segments_stuck n segs s F' S0). exact S0.
  - pose proof (run_progress n l s HI Hb NS) as P.
    apply IH; [exact F' | apply run_inv; exact HI | cbn [length] in Hlt; lia].
Qed.

Theorem fair_release_any progs buf pend sched0 segs :
  let n := length progs in
  let s0 := run (init progs buf pend) sched0 in
  Forall (covering n) segs ->
  sumf (fun t => progw (nth t progs [])) (seq 0 n) < length segs ->
  let s := run s0 (concat segs) in
  forall t, finished s t \/ awaits_peer s t \/ awaits_app s t \/ transport_blocked s t.
Proof.
  intros n s0 F Hlen s t.
  assert (Inv s0) as HI0 by (apply run_inv; apply inv_init).
  destruct (Nat.eq_dec n 0) as [Z|NZ].
  - left. assert (progs = []) as -> by (destruct progs; [reflexivity | discriminate]).
    assert (forall sched, run (init [] buf pend) sched = init [] buf pend) as R.
    { induction sched as [|x l IH]; [reflexivity|]. rewrite run_cons. unfold step_or_skip.
      assert (step (init [] buf pend) x = None) as E by (unfold step; cbn; destruct x; reflexivity).
      rewrite E. exact IH. }
    unfold s, s0. rewrite !R. split; [reflexivity|]. cbn. destruct t; reflexivity.
  - assert (beyond n s0) as B0 by (apply beyond_run; [apply inv_init | lia | apply beyond_init]).
    assert (total n s0 < length segs) as Hlt.
    { pose proof (run_total_le_any n sched0 (init progs buf pend) (inv_init progs buf pend) ltac:(lia) (beyond_init progs buf pend)) as L.
      assert (total n (init progs buf pend) = sumf (fun t => progw (nth t progs [])) (seq 0 n)) as TI by reflexivity.
      fold s0 in L. rewrite TI in L. lia. }
    apply (at_rest n s).
    + apply run_inv. exact HI0.
    + apply beyond_run; [exact HI0 | lia | exact B0].
    + apply segments_rest; assumption.
Qed.
