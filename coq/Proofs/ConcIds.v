(* ConcIds.v -- stream ids handed out by open_stream under arbitrary interleaving: the id counter only moves at
   the allocation step of an open (fetch_add), every id a task holds is below the counter, and no two tasks ever
   hold the same id -- for all programs and schedules. Two streams with one id would share an inbound queue: the
   bytes of one would be delivered to the other (C02). *)
From Coq Require Import List NArith ZArith Lia Bool Arith.
From AnyTLS Require Import Bytes Cmd Generated Frame Conc ConcInv ConcLin ConcDeath ConcTerm ConcOrder ConcPump.
Import ListNotations.
Arguments push_item : simpl never.
Arguments wake_pump_closed : simpl never.
Open Scope N_scope.

Lemma nsid_finish_w s t k r : next_sid (finish_w s t k r) = next_sid s.
Proof. destruct k, r; reflexivity. Qed.
Lemma nsid_finish_close s t a k : next_sid (finish_close s t a k) = next_sid s.
Proof. destruct a; [| destruct k |]; reflexivity. Qed.
Lemma nsid_enter_close s t a k : next_sid (enter_close s t a k) = next_sid s.
Proof. unfold enter_close. destruct (closed s); [apply nsid_finish_close | reflexivity]. Qed.
Lemma nsid_feed s ev : next_sid (feed_ev s ev) = next_sid s.
Proof.
  unfold feed_ev. destruct (negb (ralive s)); [reflexivity|].
  destruct ev;
    repeat match goal with
           | |- context [match ?x with _ => _ end] => destruct x
           end; try reflexivity;
    first [apply nsid_enter_close | rewrite nsid_enter_close; reflexivity].
Qed.
Lemma nsid_release_ws ws : forall s, next_sid (release_ws ws s) = next_sid s.
Proof.
  induction ws as [|w ws IH]; intros s; cbn [release_ws]; [reflexivity|].
  destruct (t_pc (tasks s w)); try reflexivity.
  rewrite IH, nsid_finish_close. apply next_sid_shutdown_tr.
Qed.
Lemma nsid_push s t f : next_sid (push_item s t f) = next_sid s.
Proof.
  unfold push_item. destruct (pump_owner s) as [p|]; [|reflexivity].
  destruct (is_ppwait (t_pc (tasks s p))); [destruct (closed s)|]; reflexivity.
Qed.
Lemma nsid_wake s : next_sid (wake_pump_closed s) = next_sid s.
Proof. destruct (flags_wake s) as (_ & _ & _ & _ & E). exact E. Qed.

Definition is_po0 (p : pc) : bool := match p with PO0 => true | _ => false end.

(* the counter moves at the allocation step only, by one *)
Lemma step_next_sid s t s' :
  step s t = Some s' ->
  next_sid s' = if is_po0 (pcof s t) then next_sid s + 1 else next_sid s.
Proof.
  intros H. unfold step in H. unfold pcof.
  destruct (t_pc (tasks s t)) eqn:Epc; cbn [is_po0].
  - destruct (t_prog (tasks s t)) as [|c rest]; [discriminate|].
    unfold start_call in H.
    set (s0 := set_task s t (with_prog (tasks s t) rest)) in *.
    destruct c;
      repeat match type of H with
             | context [match ?x with _ => _ end] => destruct x
             end; inversion H; subst; try reflexivity.
    + change (next_sid (enter_close s0 t AfterClose WkPlain) = next_sid s0). apply nsid_enter_close.
    + change (next_sid (feed_ev s0 ev) = next_sid s0). apply nsid_feed.
    + change (next_sid (push_item s0 t (psh_frame n payload)) = next_sid s0). apply nsid_push.
  - destruct (closed s); [|destruct (buffering s)]; inversion H; subst;
      [apply nsid_finish_w | reflexivity | reflexivity].
  - inversion H; subst. rewrite nsid_finish_w. reflexivity.
  - destruct (wr s); inversion H; subst; reflexivity.
  - discriminate.
  - inversion H; subst. reflexivity.
  - destruct (stalled s && negb (shut s)); [discriminate|].
    destruct (failing s || shut s); inversion H; subst.
    + change (next_sid (release (set_wire s (pkt s + 1) (wire s))) = next_sid s). unfold release. rewrite nsid_release_ws. reflexivity.
    + rewrite nsid_finish_w. unfold release. rewrite nsid_release_ws. reflexivity.
  - inversion H; subst. apply nsid_enter_close.
  - cbv zeta in H. inversion H; subst. change (next_sid (wake_pump_closed s) = next_sid s). apply nsid_wake.
  - destruct (wr s); inversion H; subst; [reflexivity|].
    rewrite nsid_finish_close. apply next_sid_shutdown_tr.
  - discriminate.
  - inversion H; subst. reflexivity.
  - inversion H; subst. reflexivity.
  - inversion H; subst. reflexivity.
  - discriminate.
Qed.

(* ---- the invariant ---- *)
Definition ids_ok (s : state) : Prop :=
  (forall t sid, t_sid (tasks s t) = Some sid -> sid < next_sid s) /\
  (forall t1 t2 sid, t_sid (tasks s t1) = Some sid -> t_sid (tasks s t2) = Some sid -> t1 = t2).

Lemma ids_ok_init progs buf pend : ids_ok (init progs buf pend).
Proof. split; intros; discriminate. Qed.

(* the allocation step itself *)
Lemma po0_step s t s' :
  step s t = Some s' -> pcof s t = PO0 ->
  t_sid (tasks s' t) = Some (next_sid s) /\ forall u, u <> t -> tasks s' u = tasks s u.
Proof.
  intros H P. unfold step in H. unfold pcof in P. rewrite P in H. inversion H; subst. split.
  - cbn. rewrite upd_same. reflexivity.
  - intros u Hu. cbn. rewrite upd_other by exact Hu. reflexivity.
Qed.

Theorem step_ids_ok s t s' : ids_ok s -> step s t = Some s' -> ids_ok s'.
Proof.
  intros [B D] H. pose proof (step_next_sid s t s' H) as N.
  destruct (is_po0 (pcof s t)) eqn:E.
  - assert (pcof s t = PO0) as P by (destruct (pcof s t); try discriminate; reflexivity).
    destruct (po0_step s t s' H P) as (St & Oth). split.
    + intros u sid Hs. rewrite N. destruct (Nat.eq_dec u t) as [->|Hu].
      * rewrite St in Hs. inversion Hs; subst. lia.
      * rewrite (Oth u Hu) in Hs. pose proof (B u sid Hs). lia.
    + intros t1 t2 sid H1 H2.
      destruct (Nat.eq_dec t1 t) as [->|N1], (Nat.eq_dec t2 t) as [->|N2]; try reflexivity.
      * rewrite St in H1. inversion H1; subst. rewrite (Oth t2 N2) in H2. pose proof (B t2 _ H2). lia.
      * rewrite St in H2. inversion H2; subst. rewrite (Oth t1 N1) in H1. pose proof (B t1 _ H1). lia.
      * rewrite (Oth t1 N1) in H1. rewrite (Oth t2 N2) in H2. exact (D t1 t2 sid H1 H2).
  - assert (forall u, u = t -> pcof s t <> PO0) as NP by (intros u _ P; rewrite P in E; discriminate).
    assert (forall u sid, t_sid (tasks s' u) = Some sid -> t_sid (tasks s u) = Some sid) as K.
    { intros u sid Hs. destruct (step_keeps s t s' u H (NP u)) as [[A|A] _]; congruence. }
    split.
    + intros u sid Hs. rewrite N. apply (B u). apply K. exact Hs.
    + intros t1 t2 sid H1 H2. apply (D t1 t2 sid); apply K; assumption.
Qed.

Theorem run_ids_ok progs buf pend sched : ids_ok (run (init progs buf pend) sched).
Proof.
  apply (run_invariant ids_ok); [| apply inv_init | apply ids_ok_init].
  intros s t s' _ I H. eapply step_ids_ok; eauto.
Qed.


(* ---- the two stream tables never hold an id twice ---- *)
Definition keys (tb : list (N * tid)) : list N := map fst tb.

Definition tab_ok (s : state) : Prop :=
  (forall sid u, In (sid, u) (rtable s) -> sid < next_sid s) /\
  (forall sid u, In (sid, u) (table s) -> sid < next_sid s) /\
  NoDup (keys (rtable s)) /\ NoDup (keys (table s)) /\
  (forall t sid, pcof s t = PO0b sid -> sid < next_sid s /\ ~ In sid (keys (table s))) /\
  (forall t u sid, pcof s t = PO0b sid -> pcof s u = PO0b sid -> t = u).

Lemma tab_ok_init progs buf pend : tab_ok (init progs buf pend).
Proof.
  unfold tab_ok. cbn [rtable table init keys map].
  repeat split; try (intros; contradiction); try constructor; intros; discriminate.
Qed.

(* where a task at PO0b comes from *)
Lemma step_po0b s t s' u sid :
  Inv s -> step s t = Some s' -> pcof s' u = PO0b sid ->
  (u <> t /\ pcof s u = PO0b sid) \/ (u = t /\ pcof s t = PO0 /\ sid = next_sid s).
Proof.
  intros HI H P. destruct (Nat.eq_dec u t) as [->|Hne].
  - right. split; [reflexivity|].
    assert (is_po (pcof s' t) = true) as Q by (rewrite P; reflexivity).
    destruct (step_self_po s t s' H Q) as [A|(A & rest & B)].
    + unfold step in H. unfold pcof in A, P |- *. destruct (t_pc (tasks s t)) eqn:Epc; try discriminate.
      * inversion H; subst. cbn in P. rewrite upd_same in P. cbn in P. inversion P. split; reflexivity.
      * inversion H; subst. cbn in P. rewrite upd_same in P. discriminate.
      * inversion H; subst. cbn in P. rewrite upd_same in P. discriminate.
    + exfalso. unfold step in H. unfold pcof in A, P. rewrite A, B in H. unfold start_call in H.
      destruct (closed s); inversion H; subst; cbn in P; rewrite !upd_same in P; discriminate.
  - left. split; [exact Hne|].
    destruct (step_others s t s' HI H u Hne) as [[E|[(k & f & _ & B)|(a & k & _ & B & _)]]|[(_ & _ & [B|B])|(_ & [B|[f B]])]];
      try congruence.
Qed.

Lemma keys_app tb e : keys (tb ++ [e]) = keys tb ++ [fst e].
Proof. unfold keys. rewrite map_app. reflexivity. Qed.
Lemma nodup_snoc_N (l : list N) x : NoDup l -> ~ In x l -> NoDup (l ++ [x]).
Proof.
  induction l as [|y l IH]; intros Hn Hx; cbn; [constructor; [intros [] | constructor]|].
  inversion Hn as [|? ? Hy Hn']; subst. constructor.
  - intros Hin. apply in_app_or in Hin. destruct Hin as [Hin|[->|[]]]; [contradiction | apply Hx; left; reflexivity].
  - apply IH; [exact Hn' | intros Hin; apply Hx; right; exact Hin].
Qed.
Lemma in_keys tb sid : In sid (keys tb) -> exists u, In (sid, u) tb.
Proof. unfold keys. intros H. apply in_map_iff in H. destruct H as ([a b] & E & Hin). cbn in E. subst. eauto. Qed.
Lemma keys_in tb sid u : In (sid, u) tb -> In sid (keys tb).
Proof. intros H. unfold keys. apply in_map_iff. exists (sid, u). split; [reflexivity | exact H]. Qed.
Lemma nodup_filter_keys f tb : NoDup (keys tb) -> NoDup (keys (filter f tb)).
Proof.
  induction tb as [|[a b] tb IH]; intros Hn; cbn; [constructor|].
  inversion Hn as [|? ? Ha Hn']; subst. destruct (f (a, b)); [|apply IH; exact Hn'].
  cbn. constructor; [|apply IH; exact Hn'].
  intros Hin. apply Ha. apply in_keys in Hin. destruct Hin as [u Hu]. apply filter_In in Hu. apply (keys_in tb a u). exact (proj1 Hu).
Qed.

Theorem step_tab_ok s t s' : Inv s -> tab_ok s -> step s t = Some s' -> tab_ok s'.
Proof.
  intros HI (R1 & T1 & R2 & T2 & P1 & P2) H.
  pose proof (step_next_sid s t s' H) as N.
  assert (next_sid s <= next_sid s') as Nle by (rewrite N; destruct (is_po0 (pcof s t)); lia).
  (* tasks at PO0b after the step *)
  assert (forall u sid, pcof s' u = PO0b sid ->
            (u <> t /\ pcof s u = PO0b sid) \/ (u = t /\ pcof s t = PO0 /\ sid = next_sid s)) as From
    by (intros u sid; apply step_po0b; assumption).
  assert (forall a b sid, pcof s' a = PO0b sid -> pcof s' b = PO0b sid -> a = b) as P2'.
  { intros a b sid Ha Hb.
    destruct (From a sid Ha) as [(Na & Pa)|(-> & Pa & Ea)], (From b sid Hb) as [(Nb & Pb)|(-> & Pb & Eb)]; try reflexivity.
    - exact (P2 a b sid Pa Pb).
    - exfalso. destruct (P1 a sid Pa) as [L _]. lia.
    - exfalso. destruct (P1 b sid Pb) as [L _]. lia. }
  destruct (step_tables s t s' H) as [T R NP|a k P T R|o P T R|P T R|x P T R].
  - (* tables unchanged *)
    unfold tab_ok. rewrite T, R. repeat split; auto.
    + intros sid u Hin. pose proof (R1 sid u Hin). lia.
    + intros sid u Hin. pose proof (T1 sid u Hin). lia.
    + destruct (From t0 sid H0) as [(_ & Pa)|(-> & Pa & ->)]; [destruct (P1 t0 sid Pa); lia | rewrite N, Pa; cbn; lia].
    + destruct (From t0 sid H0) as [(_ & Pa)|(-> & Pa & ->)]; [exact (proj2 (P1 t0 sid Pa))|].
      intros Hin. apply in_keys in Hin. destruct Hin as [u Hu]. pose proof (T1 _ _ Hu). lia.
  - (* the drain *)
    unfold tab_ok. rewrite T, R. repeat split; auto; try (intros; contradiction); try constructor.
    + intros sid u Hin. apply in_minus_pairs_inv in Hin. pose proof (R1 sid u Hin). lia.
    + unfold minus_pairs. apply nodup_filter_keys. exact R2.
    + destruct (From t0 sid H0) as [(_ & Pa)|(-> & Pa & ->)]; [destruct (P1 t0 sid Pa); lia | rewrite P in Pa; discriminate].
  - (* a FIN *)
    assert (forall sid u, In (sid, u) (rtable s') -> In (sid, u) (rtable s)) as Rsub.
    { intros sid u Hin. destruct R as [R|[R _]]; rewrite R in Hin; [apply in_remove_owner_inv in Hin|]; exact Hin. }
    unfold tab_ok. rewrite T. repeat split; auto.
    + intros sid u Hin. pose proof (R1 sid u (Rsub sid u Hin)). lia.
    + intros sid u Hin. apply in_remove_owner_inv in Hin. pose proof (T1 sid u Hin). lia.
    + destruct R as [R|[R _]]; rewrite R; [unfold remove_owner; apply nodup_filter_keys|]; exact R2.
    + unfold remove_owner. apply nodup_filter_keys. exact T2.
    + destruct (From t0 sid H0) as [(_ & Pa)|(-> & Pa & ->)]; [destruct (P1 t0 sid Pa); lia | rewrite P in Pa; discriminate].
    + destruct (From t0 sid H0) as [(_ & Pa)|(-> & Pa & ->)]; [|rewrite P in Pa; discriminate].
      intros Hin. apply (proj2 (P1 t0 sid Pa)). apply in_keys in Hin. destruct Hin as [u Hu].
      apply in_remove_owner_inv in Hu. apply (keys_in _ _ u). exact Hu.
  - (* the allocation + first insert *)
    assert (next_sid s' = next_sid s + 1) as N1 by (rewrite N, P; reflexivity).
    unfold tab_ok. rewrite T, R. repeat split; auto.
    + intros sid u Hin. apply in_app_or in Hin. destruct Hin as [Hin|[E|[]]]; [pose proof (R1 sid u Hin); lia | inversion E; subst; lia].
    + intros sid u Hin. pose proof (T1 sid u Hin). lia.
    + rewrite keys_app. apply nodup_snoc_N; [exact R2|]. cbn [fst].
      intros Hin. apply in_keys in Hin. destruct Hin as [u Hu]. pose proof (R1 _ _ Hu). lia.
    + destruct (From t0 sid H0) as [(_ & Pa)|(-> & Pa & ->)]; [destruct (P1 t0 sid Pa); lia | lia].
    + destruct (From t0 sid H0) as [(_ & Pa)|(-> & Pa & ->)]; [exact (proj2 (P1 t0 sid Pa))|].
      intros Hin. apply in_keys in Hin. destruct Hin as [u Hu]. pose proof (T1 _ _ Hu). lia.
  - (* the second insert *)
    assert (next_sid s' = next_sid s) as N1 by (rewrite N, P; reflexivity).
    destruct (P1 t x P) as [Lx Fx].
    unfold tab_ok. rewrite T, R, N1. repeat split; auto.
    + intros sid u Hin. apply in_app_or in Hin. destruct Hin as [Hin|[E|[]]]; [exact (T1 sid u Hin) | inversion E; subst; exact Lx].
    + rewrite keys_app. apply nodup_snoc_N; [exact T2 | exact Fx].
    + destruct (From t0 sid H0) as [(_ & Pa)|(-> & Pa & ->)]; [exact (proj1 (P1 t0 sid Pa)) | rewrite P in Pa; discriminate].
    + destruct (From t0 sid H0) as [(Na & Pa)|(-> & Pa & ->)]; [|rewrite P in Pa; discriminate].
      rewrite keys_app. cbn [fst]. intros Hin. apply in_app_or in Hin. destruct Hin as [Hin|[E|[]]].
      * exact (proj2 (P1 t0 sid Pa) Hin).
      * subst. apply Na. exact (P2 t0 t sid Pa P).
Qed.

Theorem run_tab_ok progs buf pend sched : tab_ok (run (init progs buf pend) sched).
Proof.
  apply (run_invariant tab_ok); [| apply inv_init | apply tab_ok_init].
  intros s t s' HI I H. eapply step_tab_ok; eauto.
Qed.
