(* ConcInv.v -- lock discipline of Model/Conc.v: mutual exclusion on the writer mutex and the
   FIFO wait queue, for every reachable state (all programs, all schedules). *)
From Coq Require Import List NArith ZArith Lia Bool Arith.
From AnyTLS Require Import Bytes Cmd Generated Frame Conc.
Import ListNotations.

Definition holds_pc (p : pc) : bool := match p with PW3 _ _ | PW4 _ _ => true | _ => false end.
Definition waits_pc (p : pc) : bool := match p with PW2wait _ _ | PC2wait _ _ => true | _ => false end.
Definition pcof (s : state) (t : tid) : pc := t_pc (tasks s t).

Record Inv (s : state) : Prop := {
  inv_holder : forall t, holds_pc (pcof s t) = true <-> wr s = Some t;
  inv_wait : forall t, waits_pc (pcof s t) = true <-> In t (waiters s);
  inv_nodup : NoDup (waiters s);
  inv_free : wr s = None -> waiters s = []
}.

(* ---- how updates act on pcs ---- *)
Lemma upd_same f t v : upd f t v t = v.
Proof. unfold upd. rewrite Nat.eqb_refl. reflexivity. Qed.
Lemma upd_other f t v t' : t' <> t -> upd f t v t' = f t'.
Proof. intros H. unfold upd. destruct (Nat.eqb_spec t' t); [contradiction | reflexivity]. Qed.

Lemma pcof_set_task_same s t v : pcof (set_task s t v) t = t_pc v.
Proof. unfold pcof, set_task, set_tasks. cbn. rewrite upd_same. reflexivity. Qed.
Lemma pcof_set_task_other s t v t' : t' <> t -> pcof (set_task s t v) t' = pcof s t'.
Proof. intros H. unfold pcof, set_task, set_tasks. cbn. rewrite upd_other by exact H. reflexivity. Qed.

(* the shutdown attempt of close(): only the `shut` flag can change *)
Lemma shutdown_tr_cases s : (stalled s = true /\ shutdown_tr s = s) \/ (stalled s = false /\ shutdown_tr s = set_shut s).
Proof. unfold shutdown_tr. destruct (stalled s); [left | right]; split; reflexivity. Qed.
Lemma tasks_shutdown_tr s : tasks (shutdown_tr s) = tasks s.
Proof. unfold shutdown_tr. destruct (stalled s); reflexivity. Qed.
Lemma pcof_shutdown_tr s t : pcof (shutdown_tr s) t = pcof s t.
Proof. unfold pcof. rewrite tasks_shutdown_tr. reflexivity. Qed.
Lemma wr_shutdown_tr s : wr (shutdown_tr s) = wr s.
Proof. unfold shutdown_tr. destruct (stalled s); reflexivity. Qed.
Lemma waiters_shutdown_tr s : waiters (shutdown_tr s) = waiters s.
Proof. unfold shutdown_tr. destruct (stalled s); reflexivity. Qed.

Lemma buffering_shutdown_tr s : buffering (shutdown_tr s) = buffering s.
Proof. unfold shutdown_tr. destruct (stalled s); reflexivity. Qed.
Lemma pending_shutdown_tr s : pending (shutdown_tr s) = pending s.
Proof. unfold shutdown_tr. destruct (stalled s); reflexivity. Qed.
Lemma pkt_shutdown_tr s : pkt (shutdown_tr s) = pkt s.
Proof. unfold shutdown_tr. destruct (stalled s); reflexivity. Qed.
Lemma wire_shutdown_tr s : wire (shutdown_tr s) = wire s.
Proof. unfold shutdown_tr. destruct (stalled s); reflexivity. Qed.
Lemma closed_shutdown_tr s : closed (shutdown_tr s) = closed s.
Proof. unfold shutdown_tr. destruct (stalled s); reflexivity. Qed.
Lemma failing_shutdown_tr s : failing (shutdown_tr s) = failing s.
Proof. unfold shutdown_tr. destruct (stalled s); reflexivity. Qed.
Lemma next_sid_shutdown_tr s : next_sid (shutdown_tr s) = next_sid s.
Proof. unfold shutdown_tr. destruct (stalled s); reflexivity. Qed.
Lemma table_shutdown_tr s : table (shutdown_tr s) = table s.
Proof. unfold shutdown_tr. destruct (stalled s); reflexivity. Qed.
Lemma rtable_shutdown_tr s : rtable (shutdown_tr s) = rtable s.
Proof. unfold shutdown_tr. destruct (stalled s); reflexivity. Qed.
Lemma ralive_shutdown_tr s : ralive (shutdown_tr s) = ralive s.
Proof. unfold shutdown_tr. destruct (stalled s); reflexivity. Qed.
Lemma lin_shutdown_tr s : lin (shutdown_tr s) = lin s.
Proof. unfold shutdown_tr. destruct (stalled s); reflexivity. Qed.
Lemma dq_shutdown_tr s : dq (shutdown_tr s) = dq s.
Proof. unfold shutdown_tr. destruct (stalled s); reflexivity. Qed.
Lemma pushed_shutdown_tr s : pushed (shutdown_tr s) = pushed s.
Proof. unfold shutdown_tr. destruct (stalled s); reflexivity. Qed.
Lemma pump_owner_shutdown_tr s : pump_owner (shutdown_tr s) = pump_owner s.
Proof. unfold shutdown_tr. destruct (stalled s); reflexivity. Qed.
Lemma pump_done_shutdown_tr s : pump_done (shutdown_tr s) = pump_done s.
Proof. unfold shutdown_tr. destruct (stalled s); reflexivity. Qed.
Ltac shtr := rewrite ?tasks_shutdown_tr, ?pcof_shutdown_tr, ?wr_shutdown_tr, ?waiters_shutdown_tr, ?buffering_shutdown_tr, ?pending_shutdown_tr, ?pkt_shutdown_tr, ?wire_shutdown_tr, ?closed_shutdown_tr, ?failing_shutdown_tr, ?next_sid_shutdown_tr, ?table_shutdown_tr, ?rtable_shutdown_tr, ?ralive_shutdown_tr, ?lin_shutdown_tr, ?dq_shutdown_tr, ?pushed_shutdown_tr, ?pump_owner_shutdown_tr, ?pump_done_shutdown_tr.
Ltac shtr_in H := rewrite ?tasks_shutdown_tr, ?pcof_shutdown_tr, ?wr_shutdown_tr, ?waiters_shutdown_tr, ?buffering_shutdown_tr, ?pending_shutdown_tr, ?pkt_shutdown_tr, ?wire_shutdown_tr, ?closed_shutdown_tr, ?failing_shutdown_tr, ?next_sid_shutdown_tr, ?table_shutdown_tr, ?rtable_shutdown_tr, ?ralive_shutdown_tr, ?lin_shutdown_tr, ?dq_shutdown_tr, ?pushed_shutdown_tr, ?pump_owner_shutdown_tr, ?pump_done_shutdown_tr in H.

(* a state update that leaves lock, queue and every pc alone, except that task t now has pc p *)
Definition pc_update (s s' : state) (t : tid) (p : pc) : Prop :=
  wr s' = wr s /\ waiters s' = waiters s /\ pcof s' t = p /\ (forall t', t' <> t -> pcof s' t' = pcof s t').

Definition neutral (p : pc) : bool := negb (holds_pc p) && negb (waits_pc p).

Lemma inv_pc_update s s' t p :
  Inv s -> pc_update s s' t p -> neutral (pcof s t) = true -> neutral p = true -> Inv s'.
Proof.
  intros [Hh Hw Hn Hf] (Ewr & Ewt & Ept & Eo) N1 N2.
  unfold neutral in *. apply andb_prop in N1, N2. destruct N1 as [N1h N1w], N2 as [N2h N2w].
  apply negb_true_iff in N1h, N1w, N2h, N2w.
  constructor; rewrite ?Ewr, ?Ewt; auto.
  - intros t'. destruct (Nat.eq_dec t' t) as [->|Hne].
    + rewrite Ept, N2h. rewrite <- Hh, N1h. tauto.
    + rewrite Eo by exact Hne. apply Hh.
  - intros t'. destruct (Nat.eq_dec t' t) as [->|Hne].
    + rewrite Ept, N2w. rewrite <- Hw, N1w. tauto.
    + rewrite Eo by exact Hne. apply Hw.
Qed.

(* same, when the step stays inside the holder pcs (PW3 -> PW4) *)
Lemma inv_pc_update_holder s s' t p :
  Inv s -> pc_update s s' t p -> holds_pc (pcof s t) = true -> holds_pc p = true -> Inv s'.
Proof.
  intros [Hh Hw Hn Hf] (Ewr & Ewt & Ept & Eo) H1 H2.
  assert (waits_pc (pcof s t) = false) as W1 by (destruct (pcof s t); try discriminate; reflexivity).
  assert (waits_pc p = false) as W2 by (destruct p; try discriminate; reflexivity).
  constructor; rewrite ?Ewr, ?Ewt; auto.
  - intros t'. destruct (Nat.eq_dec t' t) as [->|Hne].
    + rewrite Ept, H2. rewrite <- Hh, H1. tauto.
    + rewrite Eo by exact Hne. apply Hh.
  - intros t'. destruct (Nat.eq_dec t' t) as [->|Hne].
    + rewrite Ept, W2. rewrite <- Hw, W1. tauto.
    + rewrite Eo by exact Hne. apply Hw.
Qed.

(* drain never touches a pc *)
Lemma drain_pc tb : forall ts t, t_pc (drain tb ts t) = t_pc (ts t).
Proof.
  induction tb as [|[sid o] tb IH]; intros ts t; cbn [drain]; [reflexivity|].
  rewrite IH. unfold upd. destruct (Nat.eqb t o) eqn:E; [|reflexivity].
  apply Nat.eqb_eq in E. subst. reflexivity.
Qed.

Lemma mark_pc tb : forall ts t, t_pc (mark_sclosed tb ts t) = t_pc (ts t).
Proof.
  induction tb as [|[sid o] tb IH]; intros ts t; cbn [mark_sclosed]; [reflexivity|].
  rewrite IH. unfold upd. destruct (Nat.eqb t o) eqn:E; [|reflexivity].
  apply Nat.eqb_eq in E. subst. reflexivity.
Qed.
Lemma pcof_mark s t : pcof (mark_state s) t = pcof s t.
Proof. unfold pcof, mark_state. cbn. apply mark_pc. Qed.

(* ---- release ---- *)
Definition leaving (s : state) (t : tid) (ws : list tid) : Prop :=
  NoDup ws /\ ~ In t ws /\
  (forall t', t' <> t -> (waits_pc (pcof s t') = true <-> In t' ws)) /\
  (forall t', t' <> t -> holds_pc (pcof s t') = false).

Definition released (s0 s2 : state) (t : tid) : Prop :=
  (forall t', t' <> t -> (holds_pc (pcof s2 t') = true <-> wr s2 = Some t')) /\
  (forall t', t' <> t -> (waits_pc (pcof s2 t') = true <-> In t' (waiters s2))) /\
  NoDup (waiters s2) /\ (wr s2 = None -> waiters s2 = []) /\ wr s2 <> Some t /\
  tasks s2 t = tasks s0 t /\ ~ In t (waiters s2).

Lemma pcof_finish_close_same s w a k : pcof (finish_close s w a k) w = PIdle.
Proof.
  unfold finish_close, finish, finish_w. destruct a; [| destruct k | ];
  unfold set_rdead, set_flags, set_pc, pcof; cbn; try rewrite upd_same; reflexivity.
Qed.
Lemma pcof_finish_close_other s w a k t' : t' <> w -> pcof (finish_close s w a k) t' = pcof s t'.
Proof.
  intros H. unfold finish_close, finish, finish_w. destruct a; [| destruct k | ];
  unfold set_rdead, set_flags, set_pc, pcof; cbn; rewrite upd_other by exact H; reflexivity.
Qed.
Lemma tasks_finish_close_other s w a k t' : t' <> w -> tasks (finish_close s w a k) t' = tasks s t'.
Proof.
  intros H. unfold finish_close, finish, finish_w. destruct a; [| destruct k | ];
  unfold set_rdead, set_flags, set_pc; cbn; rewrite upd_other by exact H; reflexivity.
Qed.

Lemma release_ws_released ws : forall s t,
  leaving s t ws -> released s (release_ws ws s) t.
Proof.
  induction ws as [|w ws IH]; intros s t (Hnd & Hnin & Hw & Hh).
  - cbn [release_ws]. unfold released.
    assert (forall t', pcof (set_lock s None []) t' = pcof s t') as Hp by reflexivity.
    cbn [wr waiters tasks set_lock].
    split; [|split; [|split; [|split; [|split; [|split]]]]].
    + intros t' Hne. rewrite Hp. split; [|discriminate]. intros H. rewrite (Hh t' Hne) in H. discriminate.
    + intros t' Hne. rewrite Hp. apply Hw. exact Hne.
    + constructor.
    + reflexivity.
    + discriminate.
    + reflexivity.
    + intros [].
  - cbn [release_ws].
    assert (w <> t) as Hwt by (intros ->; apply Hnin; left; reflexivity).
    assert (waits_pc (pcof s w) = true) as Hww by (apply Hw; [exact Hwt | left; reflexivity]).
    inversion Hnd as [|? ? Hnw Hnd']; subst.
    unfold pcof in Hww. destruct (t_pc (tasks s w)) eqn:Epc; try discriminate.
    + (* a queued writer obtains the lock *)
      unfold released.
      assert (forall t', pcof (set_pc (set_lock s (Some w) ws) w (PW3 k f)) t' =
                         if Nat.eqb t' w then PW3 k f else pcof s t') as Hp.
      { intros t'. unfold pcof, set_pc, set_task, set_tasks, set_lock. cbn. unfold upd.
        destruct (Nat.eqb t' w); reflexivity. }
      cbn [wr waiters set_pc set_task set_tasks set_lock].
      split; [|split; [|split; [|split; [|split; [|split]]]]].
      * intros t' Hne. rewrite Hp. split.
        -- destruct (Nat.eqb_spec t' w) as [->|Hne2]; [intros _; reflexivity|].
           intros H1. rewrite (Hh t' Hne) in H1. discriminate.
        -- intros E. inversion E; subst. rewrite Nat.eqb_refl. reflexivity.
      * intros t' Hne. rewrite Hp. split.
        -- destruct (Nat.eqb_spec t' w) as [->|Hne2]; [discriminate|].
           intros H1. apply Hw in H1; [|exact Hne]. destruct H1 as [->|H1]; [contradiction | exact H1].
        -- destruct (Nat.eqb_spec t' w) as [->|Hne2]; [intros H1; contradiction|].
           intros H1. apply Hw; [exact Hne | right; exact H1].
      * exact Hnd'.
      * discriminate.
      * intros E. inversion E. contradiction.
      * cbn. rewrite upd_other by (intros E; apply Hwt; symmetry; exact E). reflexivity.
      * intros H1. apply Hnin. right. exact H1.
    + (* a queued closer obtains the lock, shuts down, releases again *)
      set (s1 := finish_close (shutdown_tr s) w a k).
      assert (leaving s1 t ws) as L1.
      { unfold leaving. split; [|split; [|split]].
        - exact Hnd'.
        - intros H1. apply Hnin. right. exact H1.
        - intros t' Hne. split.
          + intros H1. destruct (Nat.eq_dec t' w) as [->|Hne2].
            * unfold s1 in H1. rewrite pcof_finish_close_same in H1. discriminate.
            * unfold s1 in H1. rewrite pcof_finish_close_other in H1 by exact Hne2.
              rewrite pcof_shutdown_tr in H1.
              apply Hw in H1; [|exact Hne]. destruct H1 as [->|H1]; [contradiction | exact H1].
          + intros H1. destruct (Nat.eq_dec t' w) as [->|Hne2]; [contradiction|].
            unfold s1. rewrite pcof_finish_close_other by exact Hne2.
            rewrite pcof_shutdown_tr.
            apply Hw; [exact Hne | right; exact H1].
        - intros t' Hne. destruct (Nat.eq_dec t' w) as [->|Hne2].
          + unfold s1. rewrite pcof_finish_close_same. reflexivity.
          + unfold s1. rewrite pcof_finish_close_other by exact Hne2.
            rewrite pcof_shutdown_tr. apply Hh. exact Hne. }
      destruct (IH s1 t L1) as (R1 & R2 & R3 & R4 & R5 & R6 & R7).
      unfold released. split; [|split; [|split; [|split; [|split; [|split]]]]]; auto.
      rewrite R6. unfold s1. rewrite tasks_finish_close_other by (intros E; apply Hwt; symmetry; exact E).
      rewrite tasks_shutdown_tr. reflexivity.
Qed.

(* ---- every step preserves the invariant ---- *)
Ltac unf_all :=
  unfold pc_update, pcof, finish_w, finish, set_pc, set_task, set_tasks, set_queue, set_wire, set_table,
         set_lock, set_buffering, set_closed, set_shut, set_failing, set_rdead, set_flags,
         with_res, with_pc, with_prog, with_sid, with_verdict, with_rq, with_sub, clear_sid in *.

Ltac pcu :=
  unf_all; cbn;
  repeat match goal with
         | |- _ /\ _ => split
         | |- forall _, _ => intro
         end;
  rewrite ?upd_same; try reflexivity;
  try (rewrite !upd_other by assumption; reflexivity).

Lemma pcu_finish s t r : pc_update s (finish s t r) t PIdle.
Proof. pcu. Qed.
Lemma pcu_finish_w s t k r : pc_update s (finish_w s t k r) t PIdle.
Proof. destruct k, r; pcu. Qed.
Lemma pcu_set_pc s t p : pc_update s (set_pc s t p) t p.
Proof. pcu. Qed.
Lemma pcu_finish_close s t a k : pc_update s (finish_close s t a k) t PIdle.
Proof. destruct a.
  - pcu.
  - destruct k; pcu.
  - pcu.
Qed.

Lemma pc_update_trans s s1 s2 t p1 p2 :
  pc_update s s1 t p1 -> pc_update s1 s2 t p2 -> pc_update s s2 t p2.
Proof.
  intros (A1 & A2 & A3 & A4) (B1 & B2 & B3 & B4). unfold pc_update.
  split; [congruence | split; [congruence | split; [exact B3 |]]].
  intros t' H. rewrite B4, A4 by exact H. reflexivity.
Qed.

(* updates that change neither lock nor any pc *)
Definition quiet (s s' : state) : Prop :=
  wr s' = wr s /\ waiters s' = waiters s /\ forall t', pcof s' t' = pcof s t'.

Lemma quiet_refl s : quiet s s. Proof. unfold quiet. auto. Qed.
Lemma quiet_trans s s1 s2 : quiet s s1 -> quiet s1 s2 -> quiet s s2.
Proof. intros (A1 & A2 & A3) (B1 & B2 & B3). unfold quiet. split; [congruence | split; [congruence | intros t'; rewrite B3, A3; reflexivity]]. Qed.
Lemma quiet_pcu s s1 s2 t p : quiet s s1 -> pc_update s1 s2 t p -> pc_update s s2 t p.
Proof.
  intros (A1 & A2 & A3) (B1 & B2 & B3 & B4). unfold pc_update.
  split; [congruence | split; [congruence | split; [exact B3 |]]].
  intros t' H. rewrite B4, A3 by exact H. reflexivity.
Qed.
Lemma inv_quiet s s' : Inv s -> quiet s s' -> Inv s'.
Proof.
  intros [Hh Hw Hn Hf] (A1 & A2 & A3). constructor; rewrite ?A1, ?A2; auto.
  - intros t. rewrite A3. apply Hh.
  - intros t. rewrite A3. apply Hw.
Qed.

Lemma quiet_shutdown_tr s : quiet s (shutdown_tr s).
Proof. unfold quiet, shutdown_tr. destruct (stalled s); repeat split; reflexivity. Qed.

Lemma quiet_set_task_samepc s t v : t_pc v = pcof s t -> quiet s (set_task s t v).
Proof.
  intros H. unfold quiet. split; [reflexivity | split; [reflexivity |]]. intros t'.
  destruct (Nat.eq_dec t' t) as [->|Hne].
  - rewrite pcof_set_task_same. exact H.
  - apply pcof_set_task_other. exact Hne.
Qed.

Lemma quiet_feed_nonclosing s ev :
  (match ev with InAlert | InEof | InErr => False | _ => True end) -> quiet s (feed_ev s ev).
Proof.
  intros Hev. unfold feed_ev. destruct (negb (ralive s)); [apply quiet_refl|].
  destruct ev; try contradiction.
  - destruct (lookup_owner (table s) owner); [|apply quiet_refl].
    destruct (t_verdict (tasks s owner)); [apply quiet_refl|].
    apply quiet_set_task_samepc. reflexivity.
  - destruct (lookup_owner (rtable s) owner); [|apply quiet_refl].
    apply quiet_set_task_samepc. reflexivity.
  - destruct (lookup_owner (rtable s) owner).
    + apply quiet_trans with (set_task s owner (with_rq (tasks s owner) (t_rq (tasks s owner)) true)).
      * apply quiet_set_task_samepc; reflexivity.
      * unfold quiet. split; [reflexivity | split; [reflexivity | intros t'; reflexivity]].
    + unfold quiet. split; [reflexivity | split; [reflexivity | intros t'; reflexivity]].
Qed.

Lemma quiet_mark s : quiet s (mark_state s).
Proof. unfold quiet. split; [reflexivity | split; [reflexivity | intros t'; apply pcof_mark]]. Qed.

Lemma neutral_idle : neutral PIdle = true. Proof. reflexivity. Qed.

Lemma inv_enter_close s t a k :
  Inv s -> neutral (pcof s t) = true -> Inv (enter_close s t a k).
Proof.
  intros HI Hn. unfold enter_close. destruct (closed s).
  - apply inv_pc_update with (s := s) (t := t) (p := PIdle);
      [exact HI | apply pcu_finish_close | exact Hn | reflexivity].
  - apply inv_pc_update with (s := s) (t := t) (p := PC1 a k); [exact HI | | exact Hn | reflexivity].
    apply quiet_pcu with (s1 := set_closed s); [|apply pcu_set_pc].
    unfold quiet. split; [reflexivity | split; [reflexivity | intros t'; reflexivity]].
Qed.

Lemma inv_feed s ev : Inv s -> Inv (feed_ev s ev).
Proof.
  intros HI. destruct ev; try (eapply inv_quiet; [exact HI | apply quiet_feed_nonclosing; exact I]).
  - unfold feed_ev. destruct (negb (ralive s)); [exact HI|].
    destruct (pc_is_idle (t_pc (tasks s rtid))) eqn:E; [|exact HI].
    apply inv_enter_close; [eapply inv_quiet; [exact HI | apply quiet_mark]|]. rewrite pcof_mark.
    unfold pcof. destruct (t_pc (tasks s rtid)); try discriminate. reflexivity.
  - unfold feed_ev. destruct (negb (ralive s)); [exact HI|].
    destruct (pc_is_idle (t_pc (tasks s rtid))) eqn:E; [|exact HI].
    apply inv_enter_close; [exact HI|]. unfold pcof. destruct (t_pc (tasks s rtid)); try discriminate. reflexivity.
  - unfold feed_ev. destruct (negb (ralive s)); [exact HI|].
    destruct (pc_is_idle (t_pc (tasks s rtid))) eqn:E; [|exact HI].
    apply inv_pc_update with (s := s) (t := rtid) (p := PE0 AfterRecv WkPlain);
      [exact HI | apply pcu_set_pc | | reflexivity].
    unfold pcof. destruct (t_pc (tasks s rtid)); try discriminate. reflexivity.
Qed.

Lemma neutral_split p : neutral p = true -> holds_pc p = false /\ waits_pc p = false.
Proof. unfold neutral. intros H. apply andb_prop in H. destruct H as [A B]. apply negb_true_iff in A, B. auto. Qed.

Lemma inv_acquire s t p :
  Inv s -> neutral (pcof s t) = true -> wr s = None -> holds_pc p = true ->
  Inv (set_pc (set_lock s (Some t) (waiters s)) t p).
Proof.
  intros [Hh Hw Hn Hf] N Hfree Hp. apply neutral_split in N. destruct N as [N1 N2].
  assert (waits_pc p = false) as Wp by (destruct p; try discriminate; reflexivity).
  assert (forall t', pcof (set_pc (set_lock s (Some t) (waiters s)) t p) t' =
                     if Nat.eqb t' t then p else pcof s t') as Hpc.
  { intros t'. unfold pcof, set_pc, set_task, set_tasks, set_lock. cbn. unfold upd.
    destruct (Nat.eqb t' t); reflexivity. }
  constructor; cbn [wr waiters set_pc set_task set_tasks set_lock].
  - intros t'. rewrite Hpc. destruct (Nat.eqb_spec t' t) as [->|Hne].
    + rewrite Hp. tauto.
    + split.
      * intros H. apply Hh in H. congruence.
      * intros E. inversion E. congruence.
  - intros t'. rewrite Hpc. destruct (Nat.eqb_spec t' t) as [->|Hne].
    + rewrite Wp. rewrite <- Hw, N2. tauto.
    + apply Hw.
  - exact Hn.
  - discriminate.
Qed.

Lemma nodup_snoc (ws : list tid) t : NoDup ws -> ~ In t ws -> NoDup (ws ++ [t]).
Proof.
  induction ws as [|w ws IH]; intros Hn Hi; cbn.
  - constructor; [intros [] | constructor].
  - inversion Hn as [|? ? Hw Hn']; subst. constructor.
    + rewrite in_app_iff. intros [H|[H|[]]]; [contradiction | subst; apply Hi; left; reflexivity].
    + apply IH; [exact Hn' | intros H; apply Hi; right; exact H].
Qed.

Lemma inv_enqueue s t p :
  Inv s -> neutral (pcof s t) = true -> wr s <> None -> waits_pc p = true ->
  Inv (set_pc (set_lock s (wr s) (waiters s ++ [t])) t p).
Proof.
  intros [Hh Hw Hn Hf] N Hheld Hp. apply neutral_split in N. destruct N as [N1 N2].
  assert (holds_pc p = false) as Hhp by (destruct p; try discriminate; reflexivity).
  assert (forall t', pcof (set_pc (set_lock s (wr s) (waiters s ++ [t])) t p) t' =
                     if Nat.eqb t' t then p else pcof s t') as Hpc.
  { intros t'. unfold pcof, set_pc, set_task, set_tasks, set_lock. cbn. unfold upd.
    destruct (Nat.eqb t' t); reflexivity. }
  assert (~ In t (waiters s)) as Hnin by (rewrite <- Hw, N2; discriminate).
  constructor; cbn [wr waiters set_pc set_task set_tasks set_lock].
  - intros t'. rewrite Hpc. destruct (Nat.eqb_spec t' t) as [->|Hne].
    + rewrite Hhp. rewrite <- Hh, N1. tauto.
    + apply Hh.
  - intros t'. rewrite Hpc, in_app_iff. destruct (Nat.eqb_spec t' t) as [->|Hne].
    + rewrite Hp. split; [intros _; right; left; reflexivity | reflexivity].
    + rewrite Hw. split; [tauto|]. intros [H|[H|[]]]; [exact H | congruence].
  - apply nodup_snoc; assumption.
  - intros E. contradiction.
Qed.

Lemma inv_after_release s0 s2 s3 t p :
  released s0 s2 t -> pc_update s2 s3 t p -> neutral p = true -> Inv s3.
Proof.
  intros (R1 & R2 & R3 & R4 & R5 & R6 & R7) (Ewr & Ewt & Ept & Eo) N.
  apply neutral_split in N. destruct N as [N1 N2].
  constructor; rewrite ?Ewr, ?Ewt; auto.
  - intros t'. destruct (Nat.eq_dec t' t) as [->|Hne].
    + rewrite Ept, N1. split; [discriminate | intros E; contradiction].
    + rewrite Eo by exact Hne. apply R1. exact Hne.
  - intros t'. destruct (Nat.eq_dec t' t) as [->|Hne].
    + rewrite Ept, N2. split; [discriminate | intros E; contradiction].
    + rewrite Eo by exact Hne. apply R2. exact Hne.
Qed.

Lemma leaving_of_inv s t :
  Inv s -> wr s = Some t -> leaving s t (waiters s).
Proof.
  intros [Hh Hw Hn Hf] E. unfold leaving. split; [exact Hn | split; [|split]].
  - intros H. apply Hw in H. assert (holds_pc (pcof s t) = true) as H2 by (apply Hh; exact E).
    destruct (pcof s t); discriminate.
  - intros t' _. apply Hw.
  - intros t' Hne. destruct (holds_pc (pcof s t')) eqn:E2; [|reflexivity].
    apply Hh in E2. congruence.
Qed.

Lemma neutral_after_pcu s s' u p t :
  pc_update s s' u p -> neutral p = true -> neutral (pcof s t) = true -> neutral (pcof s' t) = true.
Proof.
  intros (_ & _ & Ep & Eo) Np N. destruct (Nat.eq_dec t u) as [->|Hne].
  - rewrite Ep. exact Np.
  - rewrite Eo by exact Hne. exact N.
Qed.

Lemma neutral_after_quiet s s' t : quiet s s' -> neutral (pcof s t) = true -> neutral (pcof s' t) = true.
Proof. intros (_ & _ & E) N. rewrite E. exact N. Qed.

Lemma neutral_after_enter_close s u a k t :
  neutral (pcof s t) = true -> neutral (pcof (enter_close s u a k) t) = true.
Proof.
  intros N. unfold enter_close. destruct (closed s).
  - eapply neutral_after_pcu; [apply pcu_finish_close | reflexivity | exact N].
  - eapply neutral_after_pcu; [apply pcu_set_pc | reflexivity |].
    exact N.
Qed.

Lemma neutral_after_feed s ev t :
  neutral (pcof s t) = true -> neutral (pcof (feed_ev s ev) t) = true.
Proof.
  intros N. destruct ev; try (eapply neutral_after_quiet; [apply quiet_feed_nonclosing; exact I | exact N]);
  unfold feed_ev; destruct (negb (ralive s)); try exact N;
  destruct (pc_is_idle (t_pc (tasks s rtid))); try exact N.
  - apply neutral_after_enter_close. rewrite pcof_mark. exact N.
  - apply neutral_after_enter_close. exact N.
  - eapply neutral_after_pcu; [apply pcu_set_pc | reflexivity | exact N].
Qed.


Lemma inv_qp s s1 s2 t p :
  Inv s -> quiet s s1 -> pc_update s1 s2 t p ->
  neutral (pcof s t) = true -> neutral p = true -> Inv s2.
Proof.
  intros HI Q U N Np. apply inv_pc_update with (s := s1) (t := t) (p := p); auto.
  - eapply inv_quiet; eauto.
  - eapply neutral_after_quiet; eauto.
Qed.

Ltac quiet_refl_like := unfold quiet; split; [reflexivity | split; [reflexivity | intros ?; reflexivity]].

Lemma quiet_with_prog s t rest : quiet s (set_task s t (with_prog (tasks s t) rest)).
Proof. apply quiet_set_task_samepc. reflexivity. Qed.

Lemma pcu_set_task s t v : pc_update s (set_task s t v) t (t_pc v).
Proof.
  unfold pc_update. split; [reflexivity | split; [reflexivity | split]].
  - apply pcof_set_task_same.
  - intros t' H. apply pcof_set_task_other. exact H.
Qed.

Lemma quiet_set_task_again s t v1 v2 :
  t_pc v2 = t_pc v1 -> quiet (set_task s t v1) (set_task (set_task s t v1) t v2).
Proof. intros H. apply quiet_set_task_samepc. rewrite pcof_set_task_same. exact H. Qed.

(* ---- the pump: what a push or the close notification does to it ---- *)
Lemma quiet_set_pump s q pu o d : quiet s (set_pump s q pu o d).
Proof. quiet_refl_like. Qed.

Lemma pcu_then_quiet s s1 s2 t p : pc_update s s1 t p -> quiet s1 s2 -> pc_update s s2 t p.
Proof.
  intros (A1 & A2 & A3 & A4) (B1 & B2 & B3). unfold pc_update.
  split; [congruence | split; [congruence | split; [rewrite B3; exact A3 |]]].
  intros t' H. rewrite B3. apply A4. exact H.
Qed.

Definition pump_target (q : pc) : Prop := q = PIdle \/ exists f, q = PW0 WkPump f.
Lemma pump_target_neutral q : pump_target q -> neutral q = true.
Proof. intros [->|[f ->]]; reflexivity. Qed.
Definition pump_effect (s s' : state) : Prop :=
  quiet s s' \/ exists p, pcof s p = PPwait /\ exists q, pump_target q /\ pc_update s s' p q.

Lemma inv_pump_effect s s' : Inv s -> pump_effect s s' -> Inv s'.
Proof.
  intros HI [Q|(p & E & q & Nq & U)]; [eapply inv_quiet; eauto|].
  eapply inv_pc_update; [exact HI | exact U | rewrite E; reflexivity | apply pump_target_neutral; exact Nq].
Qed.

Lemma neutral_after_pump_effect s s' u : pump_effect s s' -> neutral (pcof s u) = true -> neutral (pcof s' u) = true.
Proof.
  intros [Q|(p & E & q & Nq & U)] N; [eapply neutral_after_quiet; eauto|].
  eapply neutral_after_pcu; [exact U | apply pump_target_neutral; exact Nq | exact N].
Qed.

Lemma pcof_pump_effect_other s s' u : pump_effect s s' -> pcof s u <> PPwait -> pcof s' u = pcof s u.
Proof.
  intros [(_ & _ & Q)|(p & E & q & _ & (_ & _ & _ & O))] N; [apply Q|].
  apply O. intros ->. apply N. exact E.
Qed.

Lemma pump_effect_locks s s' : pump_effect s s' -> wr s' = wr s /\ waiters s' = waiters s.
Proof. intros [(A & B & _)|(p & _ & q & _ & (A & B & _))]; split; assumption. Qed.

Lemma pump_effect_wake s : pump_effect s (wake_pump_closed s).
Proof.
  unfold wake_pump_closed. destruct (closed s); [|left; apply quiet_refl]. destruct (pump_owner s) as [p|]; [|left; apply quiet_refl].
  destruct (is_ppwait (t_pc (tasks s p))) eqn:E; [|left; apply quiet_refl].
  right. exists p. split; [unfold pcof; destruct (t_pc (tasks s p)); try discriminate; reflexivity|].
  exists PIdle. split; [left; reflexivity|].
  eapply pcu_then_quiet; [apply pcu_finish | apply quiet_set_pump].
Qed.

Lemma pump_effect_push s t f : pump_effect s (push_item s t f).
Proof.
  unfold push_item.
  set (s1 := set_pump s (dq s) (pushed s ++ [(t, f)]) (pump_owner s) (pump_done s)).
  assert (quiet s s1) as Q1 by apply quiet_set_pump.
  destruct (pump_owner s) as [p|]; [|left; eapply quiet_trans; [exact Q1 | apply quiet_set_pump]].
  destruct (is_ppwait (t_pc (tasks s p))) eqn:E; [|left; eapply quiet_trans; [exact Q1 | apply quiet_set_pump]].
  right. exists p. split; [unfold pcof; destruct (t_pc (tasks s p)); try discriminate; reflexivity|].
  destruct (closed s).
  - exists PIdle. split; [left; reflexivity|].
    eapply quiet_pcu; [exact Q1|]. eapply pcu_then_quiet; [apply pcu_finish | apply quiet_set_pump].
  - exists (PW0 WkPump f). split; [right; exists f; reflexivity|].
    eapply quiet_pcu; [exact Q1|]. apply (pcu_set_task s1 p (with_pc (tasks s p) (PW0 WkPump f))).
Qed.

Theorem step_inv s t s' : Inv s -> step s t = Some s' -> Inv s'.
Proof.
  intros HI H. unfold step in H.
  destruct (t_pc (tasks s t)) eqn:Epc.
  - (* PIdle: start of a call *)
    destruct (t_prog (tasks s t)) as [|c rest] eqn:Eprog; [discriminate|].
    assert (neutral (pcof s t) = true) as N by (unfold pcof; rewrite Epc; reflexivity).
    pose proof (quiet_with_prog s t rest) as Q0.
    set (s0 := set_task s t (with_prog (tasks s t) rest)) in *.
    assert (Inv s0) as HI0 by (eapply inv_quiet; eauto).
    assert (neutral (pcof s0 t) = true) as N0 by (eapply neutral_after_quiet; eauto).
    unfold start_call in H. fold s0 in H.
    destruct c.
    + inversion H; subst. eapply inv_pc_update; [exact HI0 | apply pcu_set_task | exact N0 | reflexivity].
    + destruct (t_sid (with_prog (tasks s t) rest)); inversion H; subst.
      * eapply inv_pc_update; [exact HI0 | apply pcu_set_task | exact N0 | reflexivity].
      * eapply inv_pc_update; [exact HI0 | apply pcu_finish | exact N0 | reflexivity].
    + destruct (closed s); inversion H; subst.
      * eapply inv_pc_update; [exact HI0 | apply pcu_finish | exact N0 | reflexivity].
      * eapply inv_pc_update; [exact HI0 | apply pcu_set_task | exact N0 | reflexivity].
    + destruct (t_sid (with_prog (tasks s t) rest)); [destruct (t_verdict (with_prog (tasks s t) rest))|];
        inversion H; subst; (eapply inv_pc_update; [exact HI0 | apply pcu_finish | exact N0 | reflexivity]).
    + destruct (t_sid (with_prog (tasks s t) rest)); [destruct (t_verdict (with_prog (tasks s t) rest))|];
        inversion H; subst.
      * eapply inv_pc_update; [exact HI0 | apply pcu_finish | exact N0 | reflexivity].
      * eapply inv_qp with (s := s0) (s1 := set_task s0 t (with_verdict (with_prog (tasks s t) rest) (Some ResTimeout)));
          [exact HI0 | apply quiet_set_task_again; reflexivity | apply pcu_finish | exact N0 | reflexivity].
      * eapply inv_pc_update; [exact HI0 | apply pcu_finish | exact N0 | reflexivity].
    + destruct (t_sid (with_prog (tasks s t) rest)); [destruct (t_rq (with_prog (tasks s t) rest)); [destruct (t_rclosed (with_prog (tasks s t) rest))|]|];
        inversion H; subst.
      * eapply inv_pc_update; [exact HI0 | apply pcu_finish | exact N0 | reflexivity].
      * eapply inv_qp with (s := s0) (s1 := set_task s0 t (with_rq (with_prog (tasks s t) rest) n0 (t_rclosed (with_prog (tasks s t) rest))));
          [exact HI0 | apply quiet_set_task_again; reflexivity | apply pcu_finish | exact N0 | reflexivity].
      * eapply inv_pc_update; [exact HI0 | apply pcu_finish | exact N0 | reflexivity].
    + inversion H; subst. apply inv_enter_close; assumption.
    + inversion H; subst. eapply inv_qp with (s := s0) (s1 := set_buffering s0 false); [exact HI0 | quiet_refl_like | apply pcu_finish | exact N0 | reflexivity].
    + inversion H; subst. eapply inv_qp with (s := s0) (s1 := set_buffering s0 true); [exact HI0 | quiet_refl_like | apply pcu_finish | exact N0 | reflexivity].
    + inversion H; subst. eapply inv_qp with (s := s0) (s1 := set_failing s0); [exact HI0 | quiet_refl_like | apply pcu_finish | exact N0 | reflexivity].
    + inversion H; subst. eapply inv_qp with (s := s0) (s1 := set_stalled s0); [exact HI0 | quiet_refl_like | apply pcu_finish | exact N0 | reflexivity].
    + destruct (Nat.eqb t rtid); inversion H; subst.
      * eapply inv_pc_update; [exact HI0 | apply pcu_finish | exact N0 | reflexivity].
      * apply inv_pc_update with (s := feed_ev s0 ev) (t := t) (p := PIdle).
        -- apply inv_feed. exact HI0.
        -- apply pcu_finish.
        -- apply neutral_after_feed. exact N0.
        -- reflexivity.
    + (* CSend *)
      destruct (t_sid (with_prog (tasks s t) rest)); [destruct (t_sclosed (with_prog (tasks s t) rest) || pump_done s)|];
        inversion H; subst.
      * eapply inv_pc_update; [exact HI0 | apply pcu_finish | exact N0 | reflexivity].
      * apply inv_pc_update with (s := push_item s0 t (psh_frame n payload)) (t := t) (p := PIdle).
        -- eapply inv_pump_effect; [exact HI0 | apply pump_effect_push].
        -- apply pcu_finish.
        -- eapply neutral_after_pump_effect; [apply pump_effect_push | exact N0].
        -- reflexivity.
      * eapply inv_pc_update; [exact HI0 | apply pcu_finish | exact N0 | reflexivity].
    + (* CPump *)
      destruct (pump_owner s) as [p|].
      * destruct (negb (Nat.eqb p t)); [|destruct (pump_done s); [|destruct (dq s) as [|[u f] q]; [|destruct (closed s)]]];
          inversion H; subst.
        -- eapply inv_pc_update; [exact HI0 | apply pcu_finish | exact N0 | reflexivity].
        -- eapply inv_pc_update; [exact HI0 | apply pcu_finish | exact N0 | reflexivity].
        -- eapply inv_pc_update; [exact HI0 | apply pcu_set_task | exact N0 | reflexivity].
        -- eapply inv_qp with (s := s0) (s1 := set_dq s0 q);
             [exact HI0 | apply quiet_set_pump | eapply pcu_then_quiet; [apply pcu_finish | apply quiet_set_pump] | exact N0 | reflexivity].
        -- eapply inv_qp with (s := s0) (s1 := set_dq s0 q);
             [exact HI0 | apply quiet_set_pump | apply pcu_set_task | exact N0 | reflexivity].
      * inversion H; subst.
        eapply inv_qp with (s := s0) (s1 := set_pump s0 (dq s) (pushed s) (Some t) (pump_done s));
          [exact HI0 | apply quiet_set_pump | apply pcu_finish | exact N0 | reflexivity].
  - (* PW0 *)
    assert (neutral (pcof s t) = true) as N by (unfold pcof; rewrite Epc; reflexivity).
    destruct (closed s); [|destruct (buffering s)]; inversion H; subst.
    + eapply inv_pc_update; [exact HI | apply pcu_finish_w | exact N | reflexivity].
    + eapply inv_pc_update; [exact HI | apply pcu_set_task | exact N | reflexivity].
    + eapply inv_pc_update; [exact HI | apply pcu_set_task | exact N | reflexivity].
  - (* PW1 *)
    assert (neutral (pcof s t) = true) as N by (unfold pcof; rewrite Epc; reflexivity).
    inversion H; subst.
    eapply inv_qp with (s := s) (s1 := set_queue s (pending s ++ [(t, f)]) (lin s ++ [(t, f)]));
      [exact HI | quiet_refl_like | apply pcu_finish_w | exact N | reflexivity].
  - (* PW2 *)
    assert (neutral (pcof s t) = true) as N by (unfold pcof; rewrite Epc; reflexivity).
    destruct (wr s) eqn:Ewr; inversion H; subst.
    + rewrite <- Ewr. apply inv_enqueue; auto. congruence.
    + apply inv_acquire; auto.
  - discriminate.
  - (* PW3 *)
    inversion H; subst.
    apply inv_pc_update_holder with (s := set_queue s [] (lin s ++ [(t, f)])) (t := t) (p := PW4 k (pending s ++ [(t, f)])).
    + eapply inv_quiet; [exact HI | quiet_refl_like].
    + apply pcu_set_pc.
    + change (holds_pc (pcof s t) = true). unfold pcof. rewrite Epc. reflexivity.
    + reflexivity.
  - (* PW4 *)
    assert (wr s = Some t) as Ewr.
    { apply (inv_holder s HI). unfold pcof. rewrite Epc. reflexivity. }
    destruct (stalled s && negb (shut s)); [discriminate|].
    destruct (failing s || shut s); inversion H; subst.
    + set (s1 := set_wire s (pkt s + 1)%N (wire s)).
      assert (Inv s1) as HI1 by (eapply inv_quiet; [exact HI | quiet_refl_like]).
      apply inv_after_release with (s0 := s1) (s2 := release s1) (t := t) (p := PE0 AfterIoErr k).
      * apply release_ws_released. apply leaving_of_inv; [exact HI1 | exact Ewr].
      * apply pcu_set_pc.
      * reflexivity.
    + set (s1 := set_wire s (pkt s + 1)%N (wire s ++ [((pkt s + 1)%N, held)])).
      assert (Inv s1) as HI1 by (eapply inv_quiet; [exact HI | quiet_refl_like]).
      apply inv_after_release with (s0 := s1) (s2 := release s1) (t := t) (p := PIdle).
      * apply release_ws_released. apply leaving_of_inv; [exact HI1 | exact Ewr].
      * apply pcu_finish_w.
      * reflexivity.
  - (* PE0 *)
    inversion H; subst. apply inv_enter_close; [exact HI|]. unfold pcof. rewrite Epc. reflexivity.
  - (* PC1 *)
    assert (neutral (pcof s t) = true) as N by (unfold pcof; rewrite Epc; reflexivity).
    cbv zeta in H. inversion H; subst. clear H.
    set (s1 := wake_pump_closed s).
    assert (Inv s1) as HI1 by (eapply inv_pump_effect; [exact HI | apply pump_effect_wake]).
    assert (neutral (pcof s1 t) = true) as N1 by (eapply neutral_after_pump_effect; [apply pump_effect_wake | exact N]).
    eapply inv_qp with (s := s1) (s1 := drain_state s1);
      [exact HI1 | | apply pcu_set_pc | exact N1 | reflexivity].
    unfold quiet. split; [reflexivity | split; [reflexivity|]]. intros t'. unfold pcof. cbn. apply drain_pc.
  - (* PC2 *)
    assert (neutral (pcof s t) = true) as N by (unfold pcof; rewrite Epc; reflexivity).
    destruct (wr s) eqn:Ewr; inversion H; subst.
    + rewrite <- Ewr. apply inv_enqueue; auto. congruence.
    + eapply inv_qp with (s := s) (s1 := shutdown_tr s); [exact HI | apply quiet_shutdown_tr | apply pcu_finish_close | exact N | reflexivity].
  - discriminate.
  - (* PO0 *)
    assert (neutral (pcof s t) = true) as N by (unfold pcof; rewrite Epc; reflexivity).
    inversion H; subst.
    apply inv_qp with (s := s) (s1 := set_rtable s (next_sid s + 1) (rtable s ++ [(next_sid s, t)])) (t := t)
                      (p := PO0b (next_sid s)); auto.
    + quiet_refl_like.
    + apply pcu_set_task.
  - (* PO0b *)
    assert (neutral (pcof s t) = true) as N by (unfold pcof; rewrite Epc; reflexivity).
    inversion H; subst.
    apply inv_qp with (s := s) (s1 := set_table s (next_sid s) (table s ++ [(sid, t)])) (t := t) (p := PO1 sid); auto.
    + quiet_refl_like.
    + apply pcu_set_task.
  - (* PO1 *)
    assert (neutral (pcof s t) = true) as N by (unfold pcof; rewrite Epc; reflexivity).
    inversion H; subst. eapply inv_pc_update; [exact HI | apply pcu_set_task | exact N | reflexivity].
  - discriminate.
Qed.

Lemma inv_init progs buf pend : Inv (init progs buf pend).
Proof.
  constructor; cbn.
  - intros t. unfold pcof. cbn. split; discriminate.
  - intros t. unfold pcof. cbn. split; [discriminate | intros []].
  - constructor.
  - reflexivity.
Qed.

Lemma step_or_skip_inv s t : Inv s -> Inv (step_or_skip s t).
Proof. intros HI. unfold step_or_skip. destruct (step s t) eqn:E; [eapply step_inv; eauto | exact HI]. Qed.

Theorem run_inv sched : forall s, Inv s -> Inv (run s sched).
Proof.
  induction sched as [|t sched IH]; intros s HI; cbn; [exact HI|].
  apply IH. apply step_or_skip_inv. exact HI.
Qed.
