(* ConcLin.v -- C11 core: on a transport that has not failed, what reaches the wire is exactly the
   linearisation log, in order (nothing dropped, duplicated, reordered or interleaved), for all
   programs and all schedules; packets are numbered in transport order. *)
From Coq Require Import List NArith ZArith Lia Bool Arith.
From AnyTLS Require Import Bytes Cmd Generated Frame Conc ConcInv.
Import ListNotations.

Definition held_of (p : pc) : list witem := match p with PW4 _ h => h | _ => [] end.
Definition inflight (s : state) : list witem :=
  match wr s with Some t => held_of (pcof s t) | None => [] end.
Definition absq (s : state) : list witem := flat_wire s ++ inflight s ++ pending s.
Definition calm (s : state) : Prop := failing s = false /\ shut s = false.

Definition data_same (s s' : state) : Prop :=
  wire s' = wire s /\ pending s' = pending s /\ lin s' = lin s /\ pkt s' = pkt s.
Definition holders_kept (s s' : state) : Prop :=
  forall t', holds_pc (pcof s t') = true -> pcof s' t' = pcof s t'.

Inductive step_class (s : state) (t : tid) (s' : state) : Prop :=
| SC_boring : data_same s s' -> wr s' = wr s -> holders_kept s s' -> step_class s t s'
| SC_lin1 : forall k f, pcof s t = PW1 k f ->
    wire s' = wire s -> pkt s' = pkt s -> pending s' = pending s ++ [(t, f)] -> lin s' = lin s ++ [(t, f)] ->
    wr s' = wr s -> holders_kept s s' -> step_class s t s'
| SC_acquire : forall k f, wr s = None -> wr s' = Some t -> pcof s' t = PW3 k f -> data_same s s' -> step_class s t s'
| SC_take : forall k f, pcof s t = PW3 k f -> wr s = Some t -> wr s' = Some t ->
    pcof s' t = PW4 k (pending s ++ [(t, f)]) -> pending s' = [] -> lin s' = lin s ++ [(t, f)] ->
    wire s' = wire s -> pkt s' = pkt s -> step_class s t s'
| SC_write_ok : forall k held, pcof s t = PW4 k held -> wr s = Some t ->
    failing s = false -> shut s = false ->
    wire s' = wire s ++ [((pkt s + 1)%N, held)] -> pkt s' = (pkt s + 1)%N ->
    pending s' = pending s -> lin s' = lin s ->
    (forall w, wr s' = Some w -> exists k' f', pcof s' w = PW3 k' f') -> step_class s t s'
| SC_write_fail : forall k held, pcof s t = PW4 k held -> (failing s || shut s = true) ->
    wire s' = wire s -> pkt s' = (pkt s + 1)%N -> pending s' = pending s -> lin s' = lin s -> step_class s t s'.

(* ---- release: data untouched, new holder (if any) is at PW3 ---- *)
Lemma data_finish_close s w a k :
  wire (finish_close s w a k) = wire s /\ pending (finish_close s w a k) = pending s /\
  lin (finish_close s w a k) = lin s /\ pkt (finish_close s w a k) = pkt s /\
  failing (finish_close s w a k) = failing s /\ shut (finish_close s w a k) = shut s.
Proof. destruct a; [| destruct k |]; repeat split; reflexivity. Qed.

Lemma data_shutdown_tr s :
  wire (shutdown_tr s) = wire s /\ pending (shutdown_tr s) = pending s /\
  lin (shutdown_tr s) = lin s /\ pkt (shutdown_tr s) = pkt s /\
  failing (shutdown_tr s) = failing s /\ (shut s = true -> shut (shutdown_tr s) = true).
Proof. unfold shutdown_tr. destruct (stalled s); repeat split; auto. Qed.

Lemma release_ws_data ws : forall s,
  wire (release_ws ws s) = wire s /\ pending (release_ws ws s) = pending s /\
  lin (release_ws ws s) = lin s /\ pkt (release_ws ws s) = pkt s /\
  failing (release_ws ws s) = failing s /\ (shut s = true -> shut (release_ws ws s) = true).
Proof.
  induction ws as [|w ws IH]; intros s; cbn [release_ws].
  - repeat split; auto.
  - destruct (t_pc (tasks s w)); try (repeat split; auto; fail).
    destruct (IH (finish_close (shutdown_tr s) w a k)) as (A & B & C & D & E & F).
    destruct (data_finish_close (shutdown_tr s) w a k) as (A' & B' & C' & D' & E' & F').
    destruct (data_shutdown_tr s) as (A2 & B2 & C2 & D2 & E2 & F2).
    rewrite A, B, C, D, E, A', B', C', D', E', A2, B2, C2, D2, E2. repeat split; auto.
    intros Hs. apply F. rewrite F'. apply F2. exact Hs.
Qed.

Lemma release_ws_holder ws : forall s w,
  wr (release_ws ws s) = Some w -> exists k f, pcof (release_ws ws s) w = PW3 k f.
Proof.
  induction ws as [|x ws IH]; intros s w; cbn [release_ws].
  - cbn. discriminate.
  - destruct (t_pc (tasks s x)) eqn:E; try (cbn; discriminate).
    + cbn [wr set_pc set_task set_tasks set_lock]. intros H. inversion H; subst.
      exists k, f. unfold pcof. cbn. rewrite upd_same. reflexivity.
    + apply IH.
Qed.

(* ---- classification of every step ---- *)
Lemma hk_of_quiet s s' : quiet s s' -> holders_kept s s'.
Proof. intros (_ & _ & E) t' _. apply E. Qed.
Lemma hk_of_pcu s s' t p : pc_update s s' t p -> neutral (pcof s t) = true -> holders_kept s s'.
Proof.
  intros (_ & _ & _ & Eo) N t' H. apply Eo. intros ->.
  apply neutral_split in N. destruct N as [N _]. congruence.
Qed.
Lemma hk_trans s s1 s2 : holders_kept s s1 -> holders_kept s1 s2 -> holders_kept s s2.
Proof. intros A B t' H. rewrite B; [apply A; exact H | rewrite A; exact H]. Qed.
Lemma hk_refl s : holders_kept s s. Proof. intros t' _. reflexivity. Qed.

Lemma wr_of_pcu s s' t p : pc_update s s' t p -> wr s' = wr s.
Proof. intros (E & _). exact E. Qed.

Ltac ds := unfold data_same; repeat split; reflexivity.

Lemma boring_pcu s s' t p :
  pc_update s s' t p -> neutral (pcof s t) = true -> data_same s s' -> step_class s t s'.
Proof. intros U N D. apply SC_boring; [exact D | eapply wr_of_pcu; eauto | eapply hk_of_pcu; eauto]. Qed.

Lemma enter_close_triple s t a k :
  neutral (pcof s t) = true ->
  data_same s (enter_close s t a k) /\ wr (enter_close s t a k) = wr s /\ holders_kept s (enter_close s t a k).
Proof.
  intros N. unfold enter_close. destruct (closed s).
  - split; [|split].
    + destruct (data_finish_close s t a k) as (A & B & C & D & _).
      unfold data_same. rewrite A, B, C, D. auto.
    + apply (wr_of_pcu _ _ _ _ (pcu_finish_close s t a k)).
    + eapply hk_of_pcu; [apply pcu_finish_close | exact N].
  - split; [|split].
    + unfold data_same. cbn. auto.
    + reflexivity.
    + apply hk_trans with (set_closed s); [intros t' _; reflexivity|].
      eapply hk_of_pcu; [apply pcu_set_pc | exact N].
Qed.

Lemma triple_trans s s1 s2 :
  (data_same s s1 /\ wr s1 = wr s /\ holders_kept s s1) ->
  (data_same s1 s2 /\ wr s2 = wr s1 /\ holders_kept s1 s2) ->
  data_same s s2 /\ wr s2 = wr s /\ holders_kept s s2.
Proof.
  intros ((A1 & A2 & A3 & A4) & Aw & Ah) ((B1 & B2 & B3 & B4) & Bw & Bh).
  split; [|split].
  - unfold data_same. repeat split; congruence.
  - congruence.
  - eapply hk_trans; eauto.
Qed.

Lemma triple_of_quiet s s1 : quiet s s1 -> data_same s s1 -> data_same s s1 /\ wr s1 = wr s /\ holders_kept s s1.
Proof. intros Q D. split; [exact D | split; [apply Q | apply hk_of_quiet; exact Q]]. Qed.

Lemma triple_of_pcu s s1 t p :
  pc_update s s1 t p -> neutral (pcof s t) = true -> data_same s s1 ->
  data_same s s1 /\ wr s1 = wr s /\ holders_kept s s1.
Proof. intros U N D. split; [exact D | split; [eapply wr_of_pcu; eauto | eapply hk_of_pcu; eauto]]. Qed.

Lemma class_of_triple s t s' :
  data_same s s' /\ wr s' = wr s /\ holders_kept s s' -> step_class s t s'.
Proof. intros (D & W & H). apply SC_boring; assumption. Qed.

Lemma feed_class s ev :
  data_same s (feed_ev s ev) /\ wr (feed_ev s ev) = wr s /\ holders_kept s (feed_ev s ev).
Proof.
  assert (forall s1, quiet s s1 -> data_same s s1 -> data_same s s1 /\ wr s1 = wr s /\ holders_kept s s1) as QQ.
  { intros s1 Q D. split; [exact D | split; [apply Q | apply hk_of_quiet; exact Q]]. }
  unfold feed_ev. destruct (negb (ralive s)); [apply QQ; [apply quiet_refl | ds]|].
  destruct ev.
  - destruct (lookup_owner (table s) owner); [|apply QQ; [apply quiet_refl | ds]].
    destruct (t_verdict (tasks s owner)); [apply QQ; [apply quiet_refl | ds]|].
    apply QQ; [apply quiet_set_task_samepc; reflexivity | ds].
  - destruct (lookup_owner (rtable s) owner); [|apply QQ; [apply quiet_refl | ds]].
    apply QQ; [apply quiet_set_task_samepc; reflexivity | ds].
  - destruct (lookup_owner (rtable s) owner).
    + apply QQ; [|ds].
      apply quiet_trans with (set_task s owner (with_rq (tasks s owner) (t_rq (tasks s owner)) true)).
      * apply quiet_set_task_samepc; reflexivity.
      * unfold quiet. split; [reflexivity | split; [reflexivity | intros t'; reflexivity]].
    + apply QQ; [|ds]. unfold quiet. split; [reflexivity | split; [reflexivity | intros t'; reflexivity]].
  - destruct (pc_is_idle (t_pc (tasks s rtid))) eqn:E; [|apply QQ; [apply quiet_refl | ds]].
    assert (neutral (pcof s rtid) = true) as N by (unfold pcof; destruct (t_pc (tasks s rtid)); try discriminate; reflexivity).
    eapply triple_trans; [apply QQ; [apply quiet_mark | ds]|].
    apply enter_close_triple. rewrite pcof_mark. exact N.
  - destruct (pc_is_idle (t_pc (tasks s rtid))) eqn:E; [|apply QQ; [apply quiet_refl | ds]].
    assert (neutral (pcof s rtid) = true) as N by (unfold pcof; destruct (t_pc (tasks s rtid)); try discriminate; reflexivity).
    apply enter_close_triple. exact N.
  - destruct (pc_is_idle (t_pc (tasks s rtid))) eqn:E; [|apply QQ; [apply quiet_refl | ds]].
    assert (neutral (pcof s rtid) = true) as N by (unfold pcof; destruct (t_pc (tasks s rtid)); try discriminate; reflexivity).
    split; [ds | split; [reflexivity|]]. eapply hk_of_pcu; [apply pcu_set_pc | exact N].
Qed.

Lemma data_finish_w s t k r : data_same s (finish_w s t k r).
Proof. destruct k, r; ds. Qed.

Lemma enqueue_triple s t p :
  holds_pc (pcof s t) = false ->
  let s' := set_pc (set_lock s (wr s) (waiters s ++ [t])) t p in
  data_same s s' /\ wr s' = wr s /\ holders_kept s s'.
Proof.
  intros N s'. split; [ds | split; [reflexivity|]].
  intros t' H. unfold s', pcof, set_pc, set_task, set_tasks, set_lock. cbn.
  rewrite upd_other; [reflexivity|]. intros ->. congruence.
Qed.

(* ---- the pump's channel and the wake-ups leave the write path's data alone ---- *)
Lemma triple_of_pump_effect s s1 :
  pump_effect s s1 -> data_same s s1 -> data_same s s1 /\ wr s1 = wr s /\ holders_kept s s1.
Proof.
  intros [Q|(p & E & q & Nq & U)] D; [apply triple_of_quiet; assumption|].
  eapply triple_of_pcu; [exact U | rewrite E; reflexivity | exact D].
Qed.
Lemma data_push s t f : data_same s (push_item s t f).
Proof.
  unfold push_item. destruct (pump_owner s) as [p|]; [|ds].
  destruct (is_ppwait (t_pc (tasks s p))); [destruct (closed s)|]; ds.
Qed.
Lemma data_wake s : data_same s (wake_pump_closed s).
Proof.
  unfold wake_pump_closed. destruct (closed s); [|ds]. destruct (pump_owner s) as [p|]; [|ds].
  destruct (is_ppwait (t_pc (tasks s p))); ds.
Qed.
Lemma flags_push s t f :
  failing (push_item s t f) = failing s /\ shut (push_item s t f) = shut s /\ closed (push_item s t f) = closed s /\
  table (push_item s t f) = table s.
Proof.
  unfold push_item. destruct (pump_owner s) as [p|]; [|repeat split; reflexivity].
  destruct (is_ppwait (t_pc (tasks s p))); [destruct (closed s) eqn:C|]; repeat split; try reflexivity; cbn; auto.
Qed.
Lemma flags_wake s :
  failing (wake_pump_closed s) = failing s /\ shut (wake_pump_closed s) = shut s /\ closed (wake_pump_closed s) = closed s /\
  table (wake_pump_closed s) = table s /\ next_sid (wake_pump_closed s) = next_sid s.
Proof.
  unfold wake_pump_closed. destruct (closed s) eqn:Ec; [|repeat split; try reflexivity; exact Ec].
  destruct (pump_owner s) as [p|]; [|repeat split; try reflexivity; exact Ec].
  destruct (is_ppwait (t_pc (tasks s p))); repeat split; try reflexivity; exact Ec.
Qed.

Theorem step_classify s t s' : Inv s -> step s t = Some s' -> step_class s t s'.
Proof.
  intros HI H. unfold step in H.
  destruct (t_pc (tasks s t)) eqn:Epc.
  - (* PIdle *)
    destruct (t_prog (tasks s t)) as [|c rest] eqn:Eprog; [discriminate|].
    assert (neutral (pcof s t) = true) as N by (unfold pcof; rewrite Epc; reflexivity).
    pose proof (quiet_with_prog s t rest) as Q0.
    set (s0 := set_task s t (with_prog (tasks s t) rest)) in *.
    assert (neutral (pcof s0 t) = true) as N0 by (eapply neutral_after_quiet; eauto).
    assert (data_same s s0 /\ wr s0 = wr s /\ holders_kept s s0) as T0 by (apply triple_of_quiet; [exact Q0 | ds]).
    unfold start_call in H. fold s0 in H.
    apply class_of_triple.
    destruct c.
    + inversion H; subst. eapply triple_trans; [exact T0|].
      eapply triple_of_pcu; [apply pcu_set_task | exact N0 | ds].
    + destruct (t_sid (with_prog (tasks s t) rest)); inversion H; subst; (eapply triple_trans; [exact T0|]).
      * eapply triple_of_pcu; [apply pcu_set_task | exact N0 | ds].
      * eapply triple_of_pcu; [apply pcu_finish | exact N0 | ds].
    + destruct (closed s); inversion H; subst; (eapply triple_trans; [exact T0|]).
      * eapply triple_of_pcu; [apply pcu_finish | exact N0 | ds].
      * eapply triple_of_pcu; [apply pcu_set_task | exact N0 | ds].
    + destruct (t_sid (with_prog (tasks s t) rest)); [destruct (t_verdict (with_prog (tasks s t) rest))|];
        inversion H; subst; (eapply triple_trans; [exact T0|]);
        (eapply triple_of_pcu; [apply pcu_finish | exact N0 | ds]).
    + destruct (t_sid (with_prog (tasks s t) rest)); [destruct (t_verdict (with_prog (tasks s t) rest))|];
        inversion H; subst; (eapply triple_trans; [exact T0|]).
      * eapply triple_of_pcu; [apply pcu_finish | exact N0 | ds].
      * eapply triple_of_pcu; [ | exact N0 | ds].
        apply quiet_pcu with (s1 := set_task s0 t (with_verdict (with_prog (tasks s t) rest) (Some ResTimeout)));
          [apply quiet_set_task_again; reflexivity | apply pcu_finish].
      * eapply triple_of_pcu; [apply pcu_finish | exact N0 | ds].
    + destruct (t_sid (with_prog (tasks s t) rest)); [destruct (t_rq (with_prog (tasks s t) rest)) as [|q]; [destruct (t_rclosed (with_prog (tasks s t) rest))|]|];
        inversion H; subst; (eapply triple_trans; [exact T0|]).
      * eapply triple_of_pcu; [apply pcu_finish | exact N0 | ds].
      * eapply triple_of_pcu; [ | exact N0 | ds].
        apply quiet_pcu with (s1 := set_task s0 t (with_rq (with_prog (tasks s t) rest) q (t_rclosed (with_prog (tasks s t) rest))));
          [apply quiet_set_task_again; reflexivity | apply pcu_finish].
      * eapply triple_of_pcu; [apply pcu_finish | exact N0 | ds].
    + inversion H; subst. eapply triple_trans; [exact T0|]. apply enter_close_triple. exact N0.
    + inversion H; subst. eapply triple_trans; [exact T0|].
      eapply triple_of_pcu; [ | exact N0 | ds].
      apply quiet_pcu with (s1 := set_buffering s0 false); [|apply pcu_finish].
      unfold quiet. split; [reflexivity | split; [reflexivity | intros ?; reflexivity]].
    + inversion H; subst. eapply triple_trans; [exact T0|].
      eapply triple_of_pcu; [ | exact N0 | ds].
      apply quiet_pcu with (s1 := set_buffering s0 true); [|apply pcu_finish].
      unfold quiet. split; [reflexivity | split; [reflexivity | intros ?; reflexivity]].
    + inversion H; subst. eapply triple_trans; [exact T0|].
      eapply triple_of_pcu; [ | exact N0 | ds].
      apply quiet_pcu with (s1 := set_failing s0); [|apply pcu_finish].
      unfold quiet. split; [reflexivity | split; [reflexivity | intros ?; reflexivity]].
    + inversion H; subst. eapply triple_trans; [exact T0|].
      eapply triple_of_pcu; [ | exact N0 | ds].
      apply quiet_pcu with (s1 := set_stalled s0); [|apply pcu_finish].
      unfold quiet. split; [reflexivity | split; [reflexivity | intros ?; reflexivity]].
    + destruct (Nat.eqb t rtid); inversion H; subst; (eapply triple_trans; [exact T0|]).
      * eapply triple_of_pcu; [apply pcu_finish | exact N0 | ds].
      * eapply triple_trans; [apply feed_class|].
        eapply triple_of_pcu; [apply pcu_finish | apply neutral_after_feed; exact N0 | ds].
    + (* CSend *)
      destruct (t_sid (with_prog (tasks s t) rest)); [destruct (t_sclosed (with_prog (tasks s t) rest) || pump_done s)|];
        inversion H; subst; (eapply triple_trans; [exact T0|]).
      * eapply triple_of_pcu; [apply pcu_finish | exact N0 | ds].
      * eapply triple_trans; [apply triple_of_pump_effect; [apply pump_effect_push | apply data_push]|].
        eapply triple_of_pcu; [apply pcu_finish | eapply neutral_after_pump_effect; [apply pump_effect_push | exact N0] | ds].
      * eapply triple_of_pcu; [apply pcu_finish | exact N0 | ds].
    + (* CPump *)
      destruct (pump_owner s) as [p|].
      * destruct (negb (Nat.eqb p t)); [|destruct (pump_done s); [|destruct (dq s) as [|[u f] q]; [|destruct (closed s)]]];
          inversion H; subst; (eapply triple_trans; [exact T0|]).
        -- eapply triple_of_pcu; [apply pcu_finish | exact N0 | ds].
        -- eapply triple_of_pcu; [apply pcu_finish | exact N0 | ds].
        -- eapply triple_of_pcu; [apply pcu_set_task | exact N0 | ds].
        -- eapply triple_of_pcu; [ | exact N0 | ds].
           eapply quiet_pcu; [apply (quiet_set_pump s0 q (pushed s0) (pump_owner s0) (pump_done s0))|].
           eapply pcu_then_quiet; [apply pcu_finish | apply quiet_set_pump].
        -- eapply triple_of_pcu; [ | exact N0 | ds].
           eapply quiet_pcu; [apply (quiet_set_pump s0 q (pushed s0) (pump_owner s0) (pump_done s0)) | apply pcu_set_task].
      * inversion H; subst. eapply triple_trans; [exact T0|].
        eapply triple_of_pcu; [ | exact N0 | ds].
        eapply quiet_pcu; [apply (quiet_set_pump s0 (dq s) (pushed s) (Some t) (pump_done s)) | apply pcu_finish].
  - (* PW0 *)
    assert (neutral (pcof s t) = true) as N by (unfold pcof; rewrite Epc; reflexivity).
    apply class_of_triple.
    destruct (closed s); [|destruct (buffering s)]; inversion H; subst.
    + eapply triple_of_pcu; [apply pcu_finish_w | exact N | apply data_finish_w].
    + eapply triple_of_pcu; [apply pcu_set_task | exact N | ds].
    + eapply triple_of_pcu; [apply pcu_set_task | exact N | ds].
  - (* PW1 *)
    assert (neutral (pcof s t) = true) as N by (unfold pcof; rewrite Epc; reflexivity).
    inversion H; subst.
    set (s1 := set_queue s (pending s ++ [(t, f)]) (lin s ++ [(t, f)])).
    destruct (data_finish_w s1 t k ResOk) as (D1 & D2 & D3 & D4).
    apply SC_lin1 with (k := k) (f := f).
    + unfold pcof. exact Epc.
    + rewrite D1. reflexivity.
    + rewrite D4. reflexivity.
    + rewrite D2. reflexivity.
    + rewrite D3. reflexivity.
    + rewrite (wr_of_pcu _ _ _ _ (pcu_finish_w s1 t k ResOk)). reflexivity.
    + apply hk_trans with s1; [intros t' _; reflexivity|].
      eapply hk_of_pcu; [apply pcu_finish_w | exact N].
  - (* PW2 *)
    destruct (wr s) eqn:Ewr; inversion H; subst.
    + apply class_of_triple. rewrite <- Ewr. apply enqueue_triple. unfold pcof. rewrite Epc. reflexivity.
    + apply SC_acquire with (k := k) (f := f); [exact Ewr | reflexivity | | ds].
      unfold pcof. cbn. rewrite upd_same. reflexivity.
  - discriminate.
  - (* PW3 *)
    inversion H; subst.
    assert (wr s = Some t) as Ewr by (apply (inv_holder s HI); unfold pcof; rewrite Epc; reflexivity).
    apply SC_take with (k := k) (f := f); try reflexivity; try exact Ewr.
    + unfold pcof. exact Epc.
    + unfold pcof. cbn. rewrite upd_same. reflexivity.
  - (* PW4 *)
    assert (wr s = Some t) as Ewr by (apply (inv_holder s HI); unfold pcof; rewrite Epc; reflexivity).
    destruct (stalled s && negb (shut s)); [discriminate|].
    destruct (failing s || shut s) eqn:Efl; inversion H; subst.
    + set (s1 := set_wire s (pkt s + 1)%N (wire s)).
      destruct (release_ws_data (waiters s1) s1) as (A & B & C & D & _).
      apply SC_write_fail with (k := k) (held := held).
      * unfold pcof. exact Epc.
      * exact Efl.
      * change (wire (release s1) = wire s). unfold release. rewrite A. reflexivity.
      * change (pkt (release s1) = (pkt s + 1)%N). unfold release. rewrite D. reflexivity.
      * change (pending (release s1) = pending s). unfold release. rewrite B. reflexivity.
      * change (lin (release s1) = lin s). unfold release. rewrite C. reflexivity.
    + apply orb_false_elim in Efl. destruct Efl as [Ef Es].
      set (s1 := set_wire s (pkt s + 1)%N (wire s ++ [((pkt s + 1)%N, held)])).
      destruct (release_ws_data (waiters s1) s1) as (A & B & C & D & _).
      destruct (data_finish_w (release s1) t k ResOk) as (D1 & D2 & D3 & D4).
      assert (Inv s1) as HI1 by (eapply inv_quiet; [exact HI | unfold quiet; split; [reflexivity | split; [reflexivity | intros ?; reflexivity]]]).
      pose proof (release_ws_released (waiters s1) s1 t (leaving_of_inv s1 t HI1 Ewr)) as (R1 & R2 & R3 & R4 & R5 & R6 & R7).
      apply SC_write_ok with (k := k) (held := held).
      * unfold pcof. exact Epc.
      * exact Ewr.
      * exact Ef.
      * exact Es.
      * rewrite D1. unfold release. rewrite A. reflexivity.
      * rewrite D4. unfold release. rewrite D. reflexivity.
      * rewrite D2. unfold release. rewrite B. reflexivity.
      * rewrite D3. unfold release. rewrite C. reflexivity.
      * intros w Hw. pose proof (pcu_finish_w (release s1) t k ResOk) as (U1 & U2 & U3 & U4).
        rewrite U1 in Hw. assert (w <> t) as Hne by (intros ->; apply R5; exact Hw).
        rewrite U4 by exact Hne. apply release_ws_holder. exact Hw.
  - (* PE0 *)
    inversion H; subst. apply class_of_triple. apply enter_close_triple. unfold pcof. rewrite Epc. reflexivity.
  - (* PC1 *)
    assert (neutral (pcof s t) = true) as N by (unfold pcof; rewrite Epc; reflexivity).
    cbv zeta in H. inversion H; subst. clear H. apply class_of_triple.
    set (s1 := wake_pump_closed s).
    eapply triple_trans; [apply triple_of_pump_effect; [apply pump_effect_wake | apply data_wake]|]. fold s1.
    assert (neutral (pcof s1 t) = true) as N1 by (eapply neutral_after_pump_effect; [apply pump_effect_wake | exact N]).
    eapply triple_of_pcu; [ | exact N1 | ds].
    apply quiet_pcu with (s1 := drain_state s1); [|apply pcu_set_pc].
    unfold quiet. split; [reflexivity | split; [reflexivity|]]. intros t'. unfold pcof. cbn. apply drain_pc.
  - (* PC2 *)
    assert (neutral (pcof s t) = true) as N by (unfold pcof; rewrite Epc; reflexivity).
    destruct (wr s) eqn:Ewr; inversion H; subst; apply class_of_triple.
    + rewrite <- Ewr. apply enqueue_triple. unfold pcof. rewrite Epc. reflexivity.
    + eapply triple_trans with (s1 := shutdown_tr s).
      * apply triple_of_quiet; [apply quiet_shutdown_tr|]. destruct (data_shutdown_tr s) as (A & B & C & D & _).
        unfold data_same. rewrite A, B, C, D. auto.
      * destruct (data_finish_close (shutdown_tr s) t a k) as (A & B & C & D & _).
        split; [unfold data_same; rewrite A, B, C, D; auto | split].
        -- apply (wr_of_pcu _ _ _ _ (pcu_finish_close (shutdown_tr s) t a k)).
        -- eapply hk_of_pcu; [apply pcu_finish_close | rewrite pcof_shutdown_tr; exact N].
  - discriminate.
  - (* PO0 *)
    assert (neutral (pcof s t) = true) as N by (unfold pcof; rewrite Epc; reflexivity).
    inversion H; subst. apply class_of_triple. eapply triple_of_pcu; [ | exact N | ds].
    apply quiet_pcu with (s1 := set_rtable s (next_sid s + 1)%N (rtable s ++ [(next_sid s, t)])); [|apply pcu_set_task].
    unfold quiet. split; [reflexivity | split; [reflexivity | intros ?; reflexivity]].
  - (* PO0b *)
    assert (neutral (pcof s t) = true) as N by (unfold pcof; rewrite Epc; reflexivity).
    inversion H; subst. apply class_of_triple. eapply triple_of_pcu; [ | exact N | ds].
    apply quiet_pcu with (s1 := set_table s (next_sid s) (table s ++ [(sid, t)])); [|apply pcu_set_task].
    unfold quiet. split; [reflexivity | split; [reflexivity | intros ?; reflexivity]].
  - (* PO1 *)
    assert (neutral (pcof s t) = true) as N by (unfold pcof; rewrite Epc; reflexivity).
    inversion H; subst. apply class_of_triple. eapply triple_of_pcu; [apply pcu_set_task | exact N | ds].
  - discriminate.
Qed.

(* ---- flags only ever go from false to true ---- *)
Definition mono (s s' : state) : Prop :=
  (failing s = true -> failing s' = true) /\ (shut s = true -> shut s' = true).
Lemma mono_same s s' : failing s' = failing s -> shut s' = shut s -> mono s s'.
Proof. intros A B. unfold mono. rewrite A, B. auto. Qed.
Lemma mono_trans s s1 s2 : mono s s1 -> mono s1 s2 -> mono s s2.
Proof. intros [A B] [C D]. split; auto. Qed.
Lemma mono_finish_w s t k r : mono s (finish_w s t k r).
Proof. destruct k, r; apply mono_same; reflexivity. Qed.
Lemma mono_finish_close s t a k : mono s (finish_close s t a k).
Proof. destruct (data_finish_close s t a k) as (_ & _ & _ & _ & A & B). apply mono_same; assumption. Qed.
Lemma mono_enter_close s t a k : mono s (enter_close s t a k).
Proof. unfold enter_close. destruct (closed s); [apply mono_finish_close | apply mono_same; reflexivity]. Qed.
Lemma mono_feed s ev : mono s (feed_ev s ev).
Proof.
  unfold feed_ev. destruct (negb (ralive s)); [apply mono_same; reflexivity|].
  destruct ev;
    repeat match goal with
           | |- context [match ?x with _ => _ end] => destruct x
           end; try (apply mono_same; reflexivity);
    first [apply mono_enter_close
          | eapply mono_trans; [apply (mono_same s (mark_state s)); reflexivity | apply mono_enter_close]].
Qed.
Lemma mono_release s : mono s (release s).
Proof. unfold release. destruct (release_ws_data (waiters s) s) as (_ & _ & _ & _ & A & B). split; [rewrite A; auto | exact B]. Qed.

Lemma step_mono s t s' : step s t = Some s' -> mono s s'.
Proof.
  intros H. unfold step in H.
  destruct (t_pc (tasks s t)) eqn:Epc.
  - destruct (t_prog (tasks s t)) as [|c rest]; [discriminate|].
    unfold start_call in H.
    set (s0 := set_task s t (with_prog (tasks s t) rest)) in *.
    destruct c;
      repeat match type of H with
             | context [match ?x with _ => _ end] => destruct x
             end; inversion H; subst; try (apply mono_same; reflexivity).
    + apply (mono_enter_close s0).
    + split; [intros _; reflexivity | intros A; exact A].
    + apply mono_trans with (feed_ev s0 ev); [apply (mono_feed s0) | apply mono_same; reflexivity].
    + destruct (flags_push s0 t (psh_frame n payload)) as (A & B & _).
      apply mono_same; [exact A | exact B].
  - destruct (closed s); [|destruct (buffering s)]; inversion H; subst;
      [apply mono_finish_w | apply mono_same; reflexivity | apply mono_same; reflexivity].
  - inversion H; subst. eapply mono_trans; [|apply mono_finish_w]. apply mono_same; reflexivity.
  - destruct (wr s); inversion H; subst; apply mono_same; reflexivity.
  - discriminate.
  - inversion H; subst. apply mono_same; reflexivity.
  - destruct (stalled s && negb (shut s)); [discriminate|].
    destruct (failing s || shut s); inversion H; subst.
    + apply mono_trans with (release (set_wire s (pkt s + 1)%N (wire s)));
        [apply (mono_release (set_wire s (pkt s + 1)%N (wire s))) | apply mono_same; reflexivity].
    + eapply mono_trans; [|apply mono_finish_w].
      apply (mono_release (set_wire s (pkt s + 1)%N (wire s ++ [((pkt s + 1)%N, held)]))).
  - inversion H; subst. apply mono_enter_close.
  - cbv zeta in H. inversion H; subst. destruct (flags_wake s) as (A & B & _). apply mono_same; [exact A | exact B].
  - destruct (wr s); inversion H; subst; [apply mono_same; reflexivity|].
    eapply mono_trans; [|apply mono_finish_close]. destruct (data_shutdown_tr s) as (_ & _ & _ & _ & A & B).
    split; [rewrite A; auto | exact B].
  - discriminate.
  - inversion H; subst. apply mono_same; reflexivity.
  - inversion H; subst. apply mono_same; reflexivity.
  - inversion H; subst. apply mono_same; reflexivity.
  - discriminate.
Qed.

(* ---- a transport that has stalled stays stalled; `shutd`: shut down, or never going to be ---- *)
Definition shutd (s : state) : bool := shut s || stalled s.

Lemma stalled_push s t f : stalled (push_item s t f) = stalled s.
Proof.
  unfold push_item. destruct (pump_owner s) as [p|]; [|reflexivity].
  destruct (is_ppwait (t_pc (tasks s p))); [destruct (closed s)|]; reflexivity.
Qed.
Lemma stalled_wake s : stalled (wake_pump_closed s) = stalled s.
Proof.
  unfold wake_pump_closed. destruct (closed s); [|reflexivity].
  destruct (pump_owner s) as [p|]; [|reflexivity]. destruct (is_ppwait (t_pc (tasks s p))); reflexivity.
Qed.
Lemma stalled_finish_w s t k r : stalled (finish_w s t k r) = stalled s.
Proof. destruct k, r; reflexivity. Qed.
Lemma stalled_finish_close s t a k : stalled (finish_close s t a k) = stalled s.
Proof. destruct a; [| destruct k |]; reflexivity. Qed.
Lemma stalled_shutdown_tr s : stalled (shutdown_tr s) = stalled s.
Proof. unfold shutdown_tr. destruct (stalled s) eqn:E; [exact E | exact E]. Qed.
Lemma shutd_shutdown_tr s : shutd (shutdown_tr s) = true.
Proof. unfold shutd, shutdown_tr. destruct (stalled s) eqn:E; [rewrite E; apply orb_true_r | reflexivity]. Qed.
Lemma stalled_enter_close s t a k : stalled (enter_close s t a k) = stalled s.
Proof. unfold enter_close. destruct (closed s); [apply stalled_finish_close | reflexivity]. Qed.
Lemma stalled_feed s ev : stalled (feed_ev s ev) = stalled s.
Proof.
  unfold feed_ev. destruct (negb (ralive s)); [reflexivity|].
  destruct ev;
    repeat match goal with
           | |- context [match ?x with _ => _ end] => destruct x
           end; try reflexivity;
    first [apply stalled_enter_close | rewrite stalled_enter_close; reflexivity].
Qed.
Lemma stalled_release_ws ws : forall s, stalled (release_ws ws s) = stalled s.
Proof.
  induction ws as [|w ws IH]; intros s; cbn [release_ws]; [reflexivity|].
  destruct (t_pc (tasks s w)); try reflexivity.
  rewrite IH, stalled_finish_close. apply stalled_shutdown_tr.
Qed.
Lemma stalled_release s : stalled (release s) = stalled s.
Proof. apply stalled_release_ws. Qed.

Lemma step_stalled s t s' : step s t = Some s' -> stalled s = true -> stalled s' = true.
Proof.
  intros H St. unfold step in H.
  destruct (t_pc (tasks s t)) eqn:Epc.
  - destruct (t_prog (tasks s t)) as [|c rest]; [discriminate|].
    unfold start_call in H.
    set (s0 := set_task s t (with_prog (tasks s t) rest)) in *.
    assert (stalled s0 = true) as St0 by exact St.
    destruct c;
      repeat match type of H with
             | context [match ?x with _ => _ end] => destruct x
             end; inversion H; subst; try exact St; try reflexivity.
    + change (stalled (enter_close s0 t AfterClose WkPlain) = true). rewrite stalled_enter_close. exact St0.
    + change (stalled (feed_ev s0 ev) = true). rewrite stalled_feed. exact St0.
    + change (stalled (push_item s0 t (psh_frame n payload)) = true). rewrite stalled_push. exact St0.
  - destruct (closed s); [|destruct (buffering s)]; inversion H; subst;
      [rewrite stalled_finish_w; exact St | exact St | exact St].
  - inversion H; subst. rewrite stalled_finish_w. exact St.
  - destruct (wr s); inversion H; subst; exact St.
  - discriminate.
  - inversion H; subst. exact St.
  - destruct (stalled s && negb (shut s)); [discriminate|].
    destruct (failing s || shut s); inversion H; subst.
    + change (stalled (release (set_wire s (pkt s + 1)%N (wire s))) = true). rewrite stalled_release. exact St.
    + rewrite stalled_finish_w, stalled_release. exact St.
  - inversion H; subst. rewrite stalled_enter_close. exact St.
  - cbv zeta in H. inversion H; subst. change (stalled (wake_pump_closed s) = true). rewrite stalled_wake. exact St.
  - destruct (wr s); inversion H; subst; [exact St|].
    rewrite stalled_finish_close, stalled_shutdown_tr. exact St.
  - discriminate.
  - inversion H; subst. exact St.
  - inversion H; subst. exact St.
  - inversion H; subst. exact St.
  - discriminate.
Qed.

Lemma step_shutd s t s' : step s t = Some s' -> shutd s = true -> shutd s' = true.
Proof.
  intros H S. unfold shutd in *. apply orb_true_iff in S. apply orb_true_iff. destruct S as [S|S].
  - left. destruct (step_mono s t s' H) as [_ M]. apply M. exact S.
  - right. eapply step_stalled; eauto.
Qed.

Lemma calm_back s t s' : step s t = Some s' -> calm s' -> calm s.
Proof.
  intros H [A B]. destruct (step_mono s t s' H) as [M1 M2]. split.
  - destruct (failing s); [rewrite M1 in A by reflexivity; discriminate | reflexivity].
  - destruct (shut s); [rewrite M2 in B by reflexivity; discriminate | reflexivity].
Qed.

Lemma run_cons s t sched : run s (t :: sched) = run (step_or_skip s t) sched.
Proof. reflexivity. Qed.

Lemma run_invariant (P : state -> Prop) :
  (forall s t s', Inv s -> P s -> step s t = Some s' -> P s') ->
  forall sched s, Inv s -> P s -> P (run s sched).
Proof.
  intros Hstep. induction sched as [|t sched IH]; intros s HI HP; [exact HP|].
  rewrite run_cons. unfold step_or_skip. destruct (step s t) as [s1|] eqn:E.
  - apply IH; [eapply step_inv; eauto | eapply Hstep; eauto].
  - apply IH; assumption.
Qed.

(* ---- the wire is the log ---- *)
Definition lin_ok (s : state) : Prop := calm s -> absq s = lin s.

Lemma inflight_same s s' :
  Inv s -> wr s' = wr s -> holders_kept s s' -> inflight s' = inflight s.
Proof.
  intros HI W H. unfold inflight. rewrite W. destruct (wr s) as [h|] eqn:E; [|reflexivity].
  rewrite H; [reflexivity|]. apply (inv_holder s HI). exact E.
Qed.

Theorem step_lin_ok s t s' : Inv s -> lin_ok s -> step s t = Some s' -> lin_ok s'.
Proof.
  intros HI L H C'. pose proof (calm_back s t s' H C') as C. specialize (L C).
  unfold absq, flat_wire in *.
  destruct (step_classify s t s' HI H) as
      [(D1 & D2 & D3 & D4) W Hk
      | k f Ep D1 D4 D2 D3 W Hk
      | k f W0 W1 Ep (D1 & D2 & D3 & D4)
      | k f Ep W0 W1 Ep' D2 D3 D1 D4
      | k held Ep W0 Ef Es D1 D4 D2 D3 Hn
      | k held Ep Efl D1 D4 D2 D3].
  - rewrite D1, D2, D3, (inflight_same s s' HI W Hk). exact L.
  - rewrite D1, D2, D3, (inflight_same s s' HI W Hk), <- L. rewrite !app_assoc. reflexivity.
  - rewrite D1, D2, D3. unfold inflight in *. rewrite W1, Ep. rewrite W0 in L. exact L.
  - rewrite D1, D2, D3. unfold inflight in *. rewrite W1, Ep'. rewrite W0, Ep in L. cbn [held_of] in *.
    rewrite <- L. cbn [app]. rewrite app_nil_r, !app_assoc. reflexivity.
  - rewrite D1, D2, D3. unfold inflight in *. rewrite W0, Ep in L. cbn [held_of] in L.
    rewrite map_app, concat_app. cbn [map concat snd]. rewrite app_nil_r.
    assert (match wr s' with Some t0 => held_of (pcof s' t0) | None => [] end = []) as E.
    { destruct (wr s') as [w|] eqn:Ew; [|reflexivity]. destruct (Hn w eq_refl) as (k' & f' & Ew'). rewrite Ew'. reflexivity. }
    rewrite E. cbn [app]. rewrite <- L, <- !app_assoc. reflexivity.
  - destruct C as [Cf Cs]. rewrite Cf, Cs in Efl. discriminate.
Qed.

Lemma lin_ok_init progs buf pend : lin_ok (init progs buf pend).
Proof. intros _. reflexivity. Qed.

Theorem run_lin_ok sched : forall s, Inv s -> lin_ok s -> lin_ok (run s sched).
Proof. apply run_invariant. intros s t s' HI L H. eapply step_lin_ok; eauto. Qed.

(* the log only grows, by appending *)
Lemma step_lin_grows s t s' : Inv s -> step s t = Some s' -> exists l, lin s' = lin s ++ l.
Proof.
  intros HI H.
  destruct (step_classify s t s' HI H) as
      [(D1 & D2 & D3 & D4) W Hk | k f Ep D1 D4 D2 D3 W Hk | k f W0 W1 Ep (D1 & D2 & D3 & D4)
      | k f Ep W0 W1 Ep' D2 D3 D1 D4 | k held Ep W0 Ef Es D1 D4 D2 D3 Hn | k held Ep Efl D1 D4 D2 D3];
    rewrite D3; eauto using app_nil_r; exists []; symmetry; apply app_nil_r.
Qed.

Theorem run_lin_grows sched : forall s, Inv s -> exists l, lin (run s sched) = lin s ++ l.
Proof.
  induction sched as [|t sched IH]; intros s HI.
  - exists []. symmetry. apply app_nil_r.
  - rewrite run_cons. unfold step_or_skip. destruct (step s t) as [s1|] eqn:E; [|apply IH; exact HI].
    destruct (step_lin_grows s t s1 HI E) as [l1 E1].
    destruct (IH s1 (step_inv s t s1 HI E)) as [l2 E2].
    exists (l1 ++ l2). rewrite E2, E1, app_assoc. reflexivity.
Qed.

(* bursts reach the wire whole, only from the lock holder *)
Theorem step_wire s t s' :
  Inv s -> step s t = Some s' ->
  wire s' = wire s \/
  exists k held, pcof s t = PW4 k held /\ wr s = Some t /\ wire s' = wire s ++ [((pkt s + 1)%N, held)].
Proof.
  intros HI H.
  destruct (step_classify s t s' HI H) as
      [(D1 & D2 & D3 & D4) W Hk | k f Ep D1 D4 D2 D3 W Hk | k f W0 W1 Ep (D1 & D2 & D3 & D4)
      | k f Ep W0 W1 Ep' D2 D3 D1 D4 | k held Ep W0 Ef Es D1 D4 D2 D3 Hn | k held Ep Efl D1 D4 D2 D3];
    try (left; assumption).
  right. exists k, held. auto.
Qed.

(* ---- packets are numbered in transport order ---- *)
Definition idx_ok (p0 : N) (s : state) : Prop :=
  calm s -> pkt s = (p0 + lenN (wire s))%N /\
            forall n i h, nth_error (wire s) n = Some (i, h) -> i = (p0 + N.of_nat n + 1)%N.

Theorem step_idx_ok p0 s t s' : Inv s -> idx_ok p0 s -> step s t = Some s' -> idx_ok p0 s'.
Proof.
  intros HI L H C'. pose proof (calm_back s t s' H C') as C. destruct (L C) as [L1 L2].
  destruct (step_classify s t s' HI H) as
      [(D1 & D2 & D3 & D4) W Hk | k f Ep D1 D4 D2 D3 W Hk | k f W0 W1 Ep (D1 & D2 & D3 & D4)
      | k f Ep W0 W1 Ep' D2 D3 D1 D4 | k held Ep W0 Ef Es D1 D4 D2 D3 Hn | k held Ep Efl D1 D4 D2 D3];
    try (rewrite D1, D4; split; assumption).
  - rewrite D1, D4. split.
    + rewrite L1. unfold lenN. rewrite app_length. cbn [length]. rewrite Nat2N.inj_add, N.add_assoc. reflexivity.
    + intros n i h Hn'. destruct (Nat.lt_ge_cases n (length (wire s))) as [Hlt|Hge].
      * rewrite nth_error_app1 in Hn' by exact Hlt. eapply L2; eauto.
      * rewrite nth_error_app2 in Hn' by exact Hge.
        destruct (n - length (wire s))%nat as [|m] eqn:Em; cbn [nth_error] in Hn'.
        -- inversion Hn'; subst. rewrite L1. unfold lenN. assert (n = length (wire s)) as -> by lia. lia.
        -- destruct m; discriminate.
  - destruct C as [Cf Cs]. rewrite Cf, Cs in Efl. discriminate.
Qed.

Lemma idx_ok_init progs buf pend : idx_ok client_pkt_start (init progs buf pend).
Proof.
  intros _. split; [cbn [pkt wire init]; unfold lenN; cbn [length N.of_nat]; symmetry; apply N.add_0_r|].
  intros n i h Hn. destruct n; discriminate.
Qed.

Theorem run_idx_ok p0 sched : forall s, Inv s -> idx_ok p0 s -> idx_ok p0 (run s sched).
Proof. apply run_invariant. intros s t s' HI L H. eapply step_idx_ok; eauto. Qed.

(* the frame a task adds to the log is the frame of the write_frame call it is executing *)
Theorem step_lin_point s t s' :
  Inv s -> step s t = Some s' ->
  lin s' = lin s \/
  exists k f, (pcof s t = PW1 k f \/ pcof s t = PW3 k f) /\ lin s' = lin s ++ [(t, f)].
Proof.
  intros HI H.
  destruct (step_classify s t s' HI H) as
      [(D1 & D2 & D3 & D4) W Hk | k f Ep D1 D4 D2 D3 W Hk | k f W0 W1 Ep (D1 & D2 & D3 & D4)
      | k f Ep W0 W1 Ep' D2 D3 D1 D4 | k held Ep W0 Ef Es D1 D4 D2 D3 Hn | k held Ep Efl D1 D4 D2 D3];
    try (left; assumption); right; exists k, f; auto.
Qed.

Theorem settings_first progs x pend sched :
  let s := run (init progs true (x :: pend)) sched in
  calm s -> forall y rest, flat_wire s = y :: rest -> y = x.
Proof.
  intros s C y rest E.
  pose proof (run_lin_ok sched _ (inv_init progs true (x :: pend)) (lin_ok_init progs true (x :: pend)) C) as L.
  destruct (run_lin_grows sched _ (inv_init progs true (x :: pend))) as [l G].
  fold s in L, G. unfold absq in L. rewrite E, G in L. cbn in L. inversion L. reflexivity.
Qed.

Theorem holder_unique s t1 t2 :
  Inv s -> holds_pc (pcof s t1) = true -> holds_pc (pcof s t2) = true -> t1 = t2.
Proof.
  intros HI H1 H2. apply (inv_holder s HI) in H1, H2. congruence.
Qed.
