(* ConcOrder.v -- per-task order on Model/Conc.v: the frames a task has logged (hence, by absq = lin, put on
   the wire / into the pending buffer) are, in order, exactly the frames it has submitted so far (`t_sub`,
   appended when write_frame is entered), minus the one it is still submitting. All programs, all schedules. *)
From Coq Require Import List NArith ZArith Lia Bool Arith.
From AnyTLS Require Import Bytes Cmd Generated Frame Conc ConcInv ConcLin ConcDeath ConcTerm.
Import ListNotations.

(* the frame of the write_frame call in progress that has not been logged yet *)
Definition in_hand (p : pc) : list frame :=
  match p with
  | PW0 WkPump _ => []       (* taken from the channel, write_frame not yet past its closed check: not yet submitted *)
  | PW0 _ f | PW1 _ f | PW2 _ f | PW2wait _ f | PW3 _ f => [f]
  | _ => []
  end.

Definition mine (t : tid) (l : list witem) : list frame :=
  map snd (filter (fun x => Nat.eqb (fst x) t) l).

Lemma mine_app t l1 l2 : mine t (l1 ++ l2) = mine t l1 ++ mine t l2.
Proof. unfold mine. rewrite filter_app, map_app. reflexivity. Qed.
Lemma mine_self t f : mine t [(t, f)] = [f].
Proof. unfold mine. cbn. rewrite Nat.eqb_refl. reflexivity. Qed.
Lemma mine_other t u f : u <> t -> mine t [(u, f)] = [].
Proof. intros H. unfold mine. cbn. destruct (Nat.eqb_spec u t); [contradiction | reflexivity]. Qed.

Definition order_ok (s : state) (t : tid) : Prop :=
  mine t (lin s) ++ in_hand (pcof s t) = t_sub (tasks s t).

(* ---- t_sub of other tasks is never touched ---- *)
Lemma sub_finish_close s w a k u : t_sub (tasks (finish_close s w a k) u) = t_sub (tasks s u).
Proof.
  destruct a; [| destruct k |]; cbn; unfold upd; destruct (Nat.eqb u w) eqn:E; try reflexivity;
    apply Nat.eqb_eq in E; subst; reflexivity.
Qed.
Lemma sub_finish_w s w k r u : t_sub (tasks (finish_w s w k r) u) = t_sub (tasks s u).
Proof.
  destruct k, r; cbn; unfold upd; destruct (Nat.eqb u w) eqn:E; try reflexivity;
    apply Nat.eqb_eq in E; subst; reflexivity.
Qed.
Lemma sub_set_pc s w p u : t_sub (tasks (set_pc s w p) u) = t_sub (tasks s u).
Proof. cbn. unfold upd. destruct (Nat.eqb u w) eqn:E; try reflexivity. apply Nat.eqb_eq in E; subst; reflexivity. Qed.
Lemma sub_finish s w r u : t_sub (tasks (finish s w r) u) = t_sub (tasks s u).
Proof. cbn. unfold upd. destruct (Nat.eqb u w) eqn:E; try reflexivity. apply Nat.eqb_eq in E; subst; reflexivity. Qed.
Lemma sub_release_ws ws : forall s u, t_sub (tasks (release_ws ws s) u) = t_sub (tasks s u).
Proof.
  induction ws as [|w ws IH]; intros s u; cbn [release_ws]; [reflexivity|].
  destruct (t_pc (tasks s w)); try reflexivity.
  - apply (sub_set_pc (set_lock s (Some w) ws) w (PW3 k f) u).
  - rewrite IH. rewrite sub_finish_close, tasks_shutdown_tr. reflexivity.
Qed.
Lemma sub_drain tb : forall ts u, t_sub (drain tb ts u) = t_sub (ts u).
Proof.
  induction tb as [|[sid o] tb IH]; intros ts u; cbn [drain]; [reflexivity|].
  rewrite IH. unfold upd. destruct (Nat.eqb u o) eqn:E; [|reflexivity]. apply Nat.eqb_eq in E. subst. reflexivity.
Qed.
Lemma sub_enter_close s w a k u : t_sub (tasks (enter_close s w a k) u) = t_sub (tasks s u).
Proof. unfold enter_close. destruct (closed s); [apply sub_finish_close | apply (sub_set_pc (set_closed s))]. Qed.
Lemma sub_set_task_keep s w v u : t_sub v = t_sub (tasks s w) -> t_sub (tasks (set_task s w v) u) = t_sub (tasks s u).
Proof. intros H. cbn. unfold upd. destruct (Nat.eqb u w) eqn:E; try reflexivity. apply Nat.eqb_eq in E; subst. exact H. Qed.
Lemma sub_feed s ev u : t_sub (tasks (feed_ev s ev) u) = t_sub (tasks s u).
Proof.
  unfold feed_ev. destruct (negb (ralive s)); [reflexivity|].
  destruct ev;
    repeat match goal with
           | |- context [match ?x with _ => _ end] => destruct x eqn:?
           end; try reflexivity;
    try (apply sub_set_task_keep; reflexivity);
    try apply sub_enter_close; try apply sub_set_pc;
    try (rewrite sub_enter_close; apply (mark_keeps (table s) (tasks s) u)).
Qed.

Lemma sub_wake s u : t_sub (tasks (wake_pump_closed s) u) = t_sub (tasks s u).
Proof.
  unfold wake_pump_closed. destruct (closed s); [|reflexivity]. destruct (pump_owner s) as [p|]; [|reflexivity].
  destruct (is_ppwait (t_pc (tasks s p))); [|reflexivity]. apply (sub_finish s p ResClosed u).
Qed.
Lemma sub_push s t f u : t_sub (tasks (push_item s t f) u) = t_sub (tasks s u).
Proof.
  unfold push_item. set (s1 := set_pump s (dq s) (pushed s ++ [(t, f)]) (pump_owner s) (pump_done s)).
  destruct (pump_owner s) as [p|]; [|reflexivity].
  destruct (is_ppwait (t_pc (tasks s p))); [destruct (closed s)|]; try reflexivity.
  - apply (sub_finish s1 p ResClosed u).
  - apply (sub_set_task_keep s1 p). reflexivity.
Qed.
Arguments push_item : simpl never.
Arguments wake_pump_closed : simpl never.

Ltac subtac Hw :=
  cbn [tasks set_pump set_dq set_pump_done];
  repeat first [ rewrite sub_finish_w | rewrite sub_finish | rewrite sub_set_pc | rewrite sub_finish_close
               | rewrite sub_enter_close | rewrite sub_feed | rewrite sub_wake | rewrite sub_push ];
  cbn [tasks set_task set_tasks set_table set_rtable set_buffering set_failing set_stalled set_flags set_queue set_lock set_wire set_shut set_closed set_pump set_dq set_pump_done];
  rewrite ?tasks_shutdown_tr;
  rewrite ?upd_other by exact Hw; try reflexivity.

Lemma step_other_sub s t s' w :
  step s t = Some s' -> w <> t -> t_sub (tasks s' w) = t_sub (tasks s w).
Proof.
  intros H Hw. unfold step in H.
  destruct (t_pc (tasks s t)) eqn:Epc.
  - destruct (t_prog (tasks s t)) as [|c rest]; [discriminate|].
    unfold start_call in H.
    destruct c;
      repeat match type of H with
             | context [match ?x with _ => _ end] => destruct x eqn:?
             end; inversion H; subst; subtac Hw.
  - destruct (closed s); [|destruct (buffering s)]; inversion H; subst; subtac Hw.
  - inversion H; subst; subtac Hw.
  - destruct (wr s); inversion H; subst; subtac Hw.
  - discriminate.
  - inversion H; subst; subtac Hw.
  - destruct (stalled s && negb (shut s)); [discriminate|].
    destruct (failing s || shut s); inversion H; subst.
    + rewrite sub_set_pc. unfold release. rewrite sub_release_ws. reflexivity.
    + rewrite sub_finish_w. unfold release. rewrite sub_release_ws. reflexivity.
  - inversion H; subst; subtac Hw.
  - cbv zeta in H. inversion H; subst. rewrite sub_set_pc. cbn [tasks set_table set_tasks set_rtable drain_state]. rewrite sub_drain. apply sub_wake.
  - destruct (wr s); inversion H; subst; subtac Hw.
  - discriminate.
  - inversion H; subst; subtac Hw.
  - inversion H; subst; subtac Hw.
  - inversion H; subst; subtac Hw.
  - discriminate.
Qed.

(* ---- a step of ANOTHER task leaves a task's record intact ---- *)
Lemma order_other s u s' t :
  Inv s -> step s u = Some s' -> t <> u -> order_ok s t -> order_ok s' t.
Proof.
  intros HI H Hne O. unfold order_ok in *.
  rewrite (step_other_sub s u s' t H Hne), <- O.
  assert (mine t (lin s') = mine t (lin s)) as EL.
  { destruct (step_lin_point s u s' HI H) as [E|(k & f & _ & E)]; rewrite E; [reflexivity|].
    rewrite mine_app, mine_other by (intros X; apply Hne; symmetry; exact X). apply app_nil_r. }
  rewrite EL. f_equal.
  destruct (step_others s u s' HI H t Hne) as [[E|[(k & f & A & B)|(a & k & A & B & _)]]|[(_ & A & [B|B])|(A & [B|[f B]])]];
    try (rewrite E; reflexivity); rewrite A, B; reflexivity.
Qed.

(* ---- the task's own step, while the session is open ---- *)
Lemma pcof_sub_set_task s t v : pcof (set_task s t v) t = t_pc v /\ t_sub (tasks (set_task s t v) t) = t_sub v.
Proof. unfold pcof. cbn. rewrite upd_same. split; reflexivity. Qed.

Lemma order_finish s X t r :
  lin X = lin s -> t_sub (tasks X t) = t_sub (tasks s t) -> mine t (lin s) = t_sub (tasks s t) ->
  mine t (lin (finish X t r)) ++ in_hand (pcof (finish X t r) t) = t_sub (tasks (finish X t r) t).
Proof.
  intros L S O. rewrite (pcof_of_pcu _ _ _ _ (pcu_finish X t r)), sub_finish. cbn [in_hand].
  rewrite app_nil_r. change (lin (finish X t r)) with (lin X). rewrite L, S. exact O.
Qed.

Ltac subgoal_tsub := cbn [tasks set_task set_tasks set_buffering set_failing set_stalled set_flags]; rewrite ?upd_same; reflexivity.

Lemma order_self s t s' :
  Inv s -> step s t = Some s' -> closed s' = false -> order_ok s t -> order_ok s' t.
Proof.
  intros HI H C' O.
  assert (closed s = false) as C.
  { destruct (closed s) eqn:E; [|reflexivity]. rewrite (closed_mono s t s' H E) in C'. discriminate. }
  unfold order_ok in *. unfold step in H. unfold pcof in O.
  destruct (t_pc (tasks s t)) eqn:Epc; cbn [in_hand] in O.
  - (* PIdle *)
    destruct (t_prog (tasks s t)) as [|c rest] eqn:Eprog; [discriminate|].
    unfold start_call in H. set (x := with_prog (tasks s t) rest) in *. set (s0 := set_task s t x) in *.
    assert (t_sub x = t_sub (tasks s t)) as X by reflexivity.
    rewrite app_nil_r in O.
    destruct c;
      repeat match type of H with
             | context [match ?y with _ => _ end] => destruct y eqn:?
             end; inversion H; subst s'; clear H;
      try (apply (order_finish s); [reflexivity | unfold s0, x; cbn [tasks set_task set_tasks set_buffering set_failing set_stalled set_flags t_sub with_prog with_verdict with_rq]; rewrite ?upd_same; cbn [t_sub with_prog with_verdict with_rq]; reflexivity | exact O]).
    + (* CWrite *)
      destruct (pcof_sub_set_task s0 t (with_pc (with_sub x f) (PW0 WkPlain f))) as [P S]. rewrite P, S.
      cbn [t_pc with_pc in_hand t_sub with_sub lin set_task set_tasks]. rewrite X, <- O. reflexivity.
    + (* CData with a stream *)
      destruct (pcof_sub_set_task s0 t (with_pc (with_sub x (psh_frame n payload)) (PW0 WkPlain (psh_frame n payload)))) as [P S].
      rewrite P, S. cbn [t_pc with_pc in_hand t_sub with_sub lin set_task set_tasks]. rewrite X, <- O. reflexivity.
    + (* COpen passes the closed check *)
      destruct (pcof_sub_set_task s0 t (with_pc x PO0)) as [P S]. rewrite P, S.
      cbn [t_pc with_pc in_hand t_sub lin set_task set_tasks]. rewrite app_nil_r, X. exact O.
    + (* CClose *)
      rewrite sub_enter_close.
      assert (t_sub (tasks s0 t) = t_sub (tasks s t)) as S0 by (unfold s0; cbn; rewrite upd_same; reflexivity).
      rewrite S0. unfold enter_close in *. change (closed s0) with (closed s) in *. rewrite C in *.
      rewrite (pcof_of_pcu _ _ _ _ (pcu_set_pc (set_closed s0) t _)). cbn [in_hand]. rewrite app_nil_r.
      change (lin (set_pc (set_closed s0) t (PC1 AfterClose WkPlain))) with (lin s). exact O.
    + (* CFeed *)
      rewrite (pcof_of_pcu _ _ _ _ (pcu_finish _ t _)), sub_finish, sub_feed. cbn [in_hand]. rewrite app_nil_r.
      assert (t_sub (tasks s0 t) = t_sub (tasks s t)) as S0 by (unfold s0; cbn; rewrite upd_same; reflexivity).
      rewrite S0. change (lin (finish (feed_ev s0 ev) t ResOk)) with (lin (feed_ev s0 ev)).
      destruct (feed_class s0 ev) as ((_ & _ & L & _) & _). rewrite L. exact O.
    + (* CSend: the push *)
      apply (order_finish s).
      * destruct (data_push s0 t (psh_frame n payload)) as (_ & _ & L & _). rewrite L. reflexivity.
      * rewrite sub_push. unfold s0. cbn. rewrite upd_same. reflexivity.
      * exact O.
    + (* CPump parks in recv() *)
      destruct (pcof_sub_set_task s0 t (with_pc x PPwait)) as [P S]. rewrite P, S.
      cbn [t_pc with_pc in_hand t_sub lin set_task set_tasks]. rewrite app_nil_r, X. exact O.
    + (* CPump, the closed flag is seen: excluded, the session is open *)
      congruence.
    + (* CPump takes an item: not yet submitted *)
      match goal with |- context [set_task ?Y t ?v] => destruct (pcof_sub_set_task Y t v) as [P S] end.
      rewrite P, S. cbn [t_pc with_pc in_hand t_sub lin set_task set_tasks set_dq set_pump]. rewrite app_nil_r, X. exact O.
    + (* CPump takes the receiver *)
      apply (order_finish s); [reflexivity | unfold s0; cbn; rewrite upd_same; reflexivity | exact O].
  - (* PW0: a frame the pump took is recorded as submitted here *)
    rewrite C in H.
    assert (forall p, mine t (lin s) ++ in_hand (PW0 k f) = t_sub (tasks s t) ->
                      (forall k' f', p k' f' = PW1 k' f' \/ p k' f' = PW2 k' f') ->
                      mine t (lin s) ++ in_hand (p k f) = t_sub (sub_if_pump k (tasks s t) f)) as G.
    { intros p O1 Hp. destruct (Hp k f) as [->| ->]; destruct k; cbn [in_hand sub_if_pump t_sub with_sub] in *;
        try exact O1; rewrite app_nil_r in O1; rewrite O1; reflexivity. }
    destruct (buffering s); inversion H; subst;
      match goal with |- context [set_task s t ?v] => destruct (pcof_sub_set_task s t v) as [P S] end;
      rewrite P, S; cbn [t_pc with_pc t_sub lin set_task set_tasks].
    + apply (G PW1 O). intros; left; reflexivity.
    + apply (G PW2 O). intros; right; reflexivity.
  - (* PW1 *)
    inversion H; subst. rewrite (pcof_of_pcu _ _ _ _ (pcu_finish_w _ t k _)), sub_finish_w.
    destruct (data_finish_w (set_queue s (pending s ++ [(t, f)]) (lin s ++ [(t, f)])) t k ResOk) as (_ & _ & L & _).
    rewrite L. change (lin (set_queue s (pending s ++ [(t, f)]) (lin s ++ [(t, f)]))) with (lin s ++ [(t, f)]).
    cbn [in_hand]. rewrite mine_app, mine_self, app_nil_r.
    change (t_sub (tasks (set_queue s (pending s ++ [(t, f)]) (lin s ++ [(t, f)])) t)) with (t_sub (tasks s t)). exact O.
  - (* PW2 *)
    destruct (wr s); inversion H; subst;
      rewrite (pcof_of_pcu _ _ _ _ (pcu_set_pc _ t _)), sub_set_pc; exact O.
  - discriminate.
  - (* PW3 *)
    inversion H; subst. rewrite (pcof_of_pcu _ _ _ _ (pcu_set_pc _ t _)), sub_set_pc.
    change (lin (set_pc (set_queue s [] (lin s ++ [(t, f)])) t (PW4 k (pending s ++ [(t, f)])))) with (lin s ++ [(t, f)]).
    cbn [in_hand]. rewrite mine_app, mine_self, app_nil_r.
    change (t_sub (tasks (set_queue s [] (lin s ++ [(t, f)])) t)) with (t_sub (tasks s t)). exact O.
  - (* PW4 *)
    assert (wr s = Some t) as Ewr by (apply (inv_holder s HI); unfold pcof; rewrite Epc; reflexivity).
    destruct (stalled s && negb (shut s)); [discriminate|].
    destruct (failing s || shut s); inversion H; subst.
    + rewrite (pcof_of_pcu _ _ _ _ (pcu_set_pc _ t _)), sub_set_pc. unfold release. rewrite sub_release_ws.
      cbn [in_hand]. cbn [lin set_pc set_task set_tasks].
      destruct (release_ws_data (waiters (set_wire s (pkt s + 1)%N (wire s))) (set_wire s (pkt s + 1)%N (wire s))) as (_ & _ & L & _).
      rewrite L. exact O.
    + rewrite (pcof_of_pcu _ _ _ _ (pcu_finish_w _ t k _)), sub_finish_w. unfold release. rewrite sub_release_ws.
      destruct (data_finish_w (release_ws (waiters (set_wire s (pkt s + 1)%N (wire s ++ [((pkt s + 1)%N, held)])))
                                          (set_wire s (pkt s + 1)%N (wire s ++ [((pkt s + 1)%N, held)]))) t k ResOk) as (_ & _ & L & _).
      rewrite L.
      destruct (release_ws_data (waiters (set_wire s (pkt s + 1)%N (wire s ++ [((pkt s + 1)%N, held)])))
                                (set_wire s (pkt s + 1)%N (wire s ++ [((pkt s + 1)%N, held)]))) as (_ & _ & L2 & _).
      rewrite L2. exact O.
  - (* PE0 *)
    inversion H; subst. rewrite sub_enter_close. unfold enter_close in *. rewrite C in *.
    rewrite (pcof_of_pcu _ _ _ _ (pcu_set_pc (set_closed s) t _)). exact O.
  - (* PC1 *)
    cbv zeta in H. inversion H; subst. rewrite (pcof_of_pcu _ _ _ _ (pcu_set_pc _ t _)), sub_set_pc.
    cbn [tasks set_table set_tasks set_rtable drain_state lin set_pc set_task]. rewrite sub_drain, sub_wake.
    destruct (data_wake s) as (_ & _ & L & _). rewrite L. exact O.
  - (* PC2 *)
    destruct (wr s); inversion H; subst.
    + rewrite (pcof_of_pcu _ _ _ _ (pcu_set_pc _ t _)), sub_set_pc. exact O.
    + rewrite pcof_finish_close_same, sub_finish_close.
      destruct (data_finish_close (shutdown_tr s) t a k) as (_ & _ & L & _). rewrite L. shtr. exact O.
  - discriminate.
  - (* PO0: first insert *)
    inversion H; subst. cbv zeta.
    match goal with |- context [pcof (set_task ?Y t ?v) t] => destruct (pcof_sub_set_task Y t v) as [P S] end.
    rewrite P, S.
    cbn [t_pc with_pc in_hand t_sub with_sid lin set_task set_tasks set_table set_rtable]. rewrite app_nil_r in *. exact O.
  - (* PO0b: second insert *)
    inversion H; subst.
    match goal with |- context [pcof (set_task ?Y t ?v) t] => destruct (pcof_sub_set_task Y t v) as [P S] end.
    rewrite P, S.
    cbn [t_pc with_pc in_hand t_sub lin set_task set_tasks set_table]. rewrite app_nil_r in *. exact O.
  - (* PO1 *)
    inversion H; subst.
    destruct (pcof_sub_set_task s t (with_pc (with_sub (tasks s t) (syn_frame sid)) (PW0 WkOpen (syn_frame sid)))) as [P S].
    rewrite P, S. cbn [t_pc with_pc in_hand t_sub with_sub lin set_task set_tasks]. rewrite <- O, app_nil_r. reflexivity.
  - discriminate.
Qed.

Lemma mine_none t l : Forall (fun x : witem => fst x <> t) l -> mine t l = [].
Proof.
  induction 1 as [|x l Hx _ IH]; [reflexivity|].
  change (x :: l) with ([x] ++ l). rewrite mine_app, IH, app_nil_r.
  destruct x as [u f]. apply mine_other. exact Hx.
Qed.

Lemma order_init progs buf pend t :
  Forall (fun x => fst x <> t) pend -> order_ok (init progs buf pend) t.
Proof.
  intros H. unfold order_ok, pcof. cbn [lin init tasks t_pc idle_task in_hand t_sub]. rewrite app_nil_r.
  apply mine_none. exact H.
Qed.

(* for every schedule: while the session is open, what task t has in the log is, in order, what it submitted *)
Theorem run_order progs buf pend sched t :
  Forall (fun x => fst x <> t) pend ->
  let s := run (init progs buf pend) sched in
  closed s = false -> mine t (lin s) ++ in_hand (pcof s t) = t_sub (tasks s t).
Proof.
  intros Hp s C.
  assert (closed s = false -> order_ok s t) as P; [|exact (P C)].
  unfold s. apply (run_invariant (fun s => closed s = false -> order_ok s t)); [| apply inv_init | intros _; apply order_init; exact Hp].
  intros s1 u s2 HI P1 H C2.
  assert (closed s1 = false) as C1.
  { destruct (closed s1) eqn:E; [|reflexivity]. rewrite (closed_mono s1 u s2 H E) in C2. discriminate. }
  destruct (Nat.eq_dec t u) as [->|Hne].
  - eapply order_self; eauto.
  - eapply order_other; eauto.
Qed.
