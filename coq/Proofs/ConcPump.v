(* ConcPump.v -- the outbound data path of proxied streams on Model/Conc.v:
     application  --Stream::send_data-->  unbounded channel (dq)  --forwarding task (process_stream_data)-->  write_data_frame
   For every program list in which one task p does nothing but run the forwarding loop and nobody else does,
   and for every schedule, while the session is open:
     pump_fifo      what p has submitted ++ what it holds ++ the channel = everything the applications pushed, in push order
                    (nothing dropped, duplicated or reordered between the application and write_frame);
     pushed_has_syn every pushed frame belongs to a stream whose SYN is already in the linearisation log.
   Together with C11_task_order (what p submitted is, in order, what p has in the log) and C11_wire_is_log this is
   "frames of one stream reach the wire in the order the application wrote them, after the stream's SYN". *)
From Coq Require Import List NArith ZArith Lia Bool Arith.
From AnyTLS Require Import Bytes Cmd Generated Frame Conc ConcInv ConcLin ConcDeath ConcTerm ConcOrder.
Import ListNotations.
Arguments push_item : simpl never.
Arguments wake_pump_closed : simpl never.

(* a frame the forwarding task has taken from the channel and not yet submitted *)
Definition pre_hand (p : pc) : list frame := match p with PW0 WkPump f => [f] | _ => [] end.

(* ---- the channel fields under the wrappers of the step function ---- *)
Definition Qs (s : state) : list witem * list witem * option tid := (dq s, pushed s, pump_owner s).

Lemma q_finish_w s t k r : Qs (finish_w s t k r) = Qs s.
Proof. destruct k, r; reflexivity. Qed.
Lemma q_finish_close s t a k : Qs (finish_close s t a k) = Qs s.
Proof. destruct a; [| destruct k |]; reflexivity. Qed.
Lemma q_shutdown_tr s : Qs (shutdown_tr s) = Qs s.
Proof. unfold shutdown_tr. destruct (stalled s); reflexivity. Qed.
Lemma q_release_ws ws : forall s, Qs (release_ws ws s) = Qs s.
Proof.
  induction ws as [|w ws IH]; intros s; cbn [release_ws]; [reflexivity|].
  destruct (t_pc (tasks s w)); try reflexivity. rewrite IH, q_finish_close. apply q_shutdown_tr.
Qed.
Lemma q_enter_close s t a k : Qs (enter_close s t a k) = Qs s.
Proof. unfold enter_close. destruct (closed s); [apply q_finish_close | reflexivity]. Qed.
Lemma q_feed s ev : Qs (feed_ev s ev) = Qs s.
Proof.
  unfold feed_ev. destruct (negb (ralive s)); [reflexivity|].
  destruct ev;
    repeat match goal with
           | |- context [match ?x with _ => _ end] => destruct x eqn:?
           end; try reflexivity; try apply q_enter_close; apply (q_enter_close (mark_state s)).
Qed.
Lemma q_wake s : Qs (wake_pump_closed s) = Qs s.
Proof.
  unfold wake_pump_closed. destruct (closed s); [|reflexivity]. destruct (pump_owner s) as [p|]; [|reflexivity].
  destruct (is_ppwait (t_pc (tasks s p))); reflexivity.
Qed.

(* ---- a task parked in recv() is left alone by everything but a push and the close notification ---- *)
Definition keepw (s s' : state) (t : tid) : Prop := forall u, u <> t -> pcof s u = PPwait -> pcof s' u = PPwait.

Lemma kw_refl s t : keepw s s t. Proof. intros u _ H. exact H. Qed.
Lemma kw_trans s s1 s2 t : keepw s s1 t -> keepw s1 s2 t -> keepw s s2 t.
Proof. intros A B u Hne H. apply B; [exact Hne | apply A; assumption]. Qed.
Lemma kw_of_pcu s s' t p : pc_update s s' t p -> keepw s s' t.
Proof. intros (_ & _ & _ & E) u Hne H. rewrite E by exact Hne. exact H. Qed.
Lemma kw_pcs s s' t : (forall u, u <> t -> pcof s' u = pcof s u) -> keepw s s' t.
Proof. intros E u Hne H. rewrite E by exact Hne. exact H. Qed.
Lemma kw_of_quiet s s' t : quiet s s' -> keepw s s' t.
Proof. intros (_ & _ & E) u _ H. rewrite E. exact H. Qed.
Lemma kw_enter_close s t a k : keepw s (enter_close s t a k) t.
Proof.
  unfold enter_close. destruct (closed s); [eapply kw_of_pcu; apply pcu_finish_close|].
  eapply kw_trans; [apply (kw_of_quiet s (set_closed s)) | eapply kw_of_pcu; apply pcu_set_pc].
  unfold quiet. split; [reflexivity | split; [reflexivity | intros ?; reflexivity]].
Qed.
Lemma kw_feed s ev t : t <> rtid -> keepw s (feed_ev s ev) t.
Proof.
  intros Ht u Hne H.
  destruct ev;
    try (match goal with |- pcof (feed_ev s ?e) u = _ => destruct (quiet_feed_nonclosing s e I) as (_ & _ & E) end;
         rewrite E; exact H);
    unfold feed_ev; destruct (negb (ralive s)); try exact H;
    destruct (pc_is_idle (t_pc (tasks s rtid))) eqn:E; try exact H;
    (destruct (Nat.eq_dec u rtid) as [->|Hr]; [unfold pcof in H; rewrite H in E; discriminate|]).
  - apply (kw_enter_close (mark_state s) rtid AfterRecv WkPlain u Hr). rewrite pcof_mark. exact H.
  - apply (kw_enter_close s rtid AfterRecv WkPlain u Hr). exact H.
  - unfold pcof. cbn. rewrite upd_other by exact Hr. exact H.
Qed.
Lemma kw_release s t : Inv s -> wr s = Some t -> keepw s (release s) t.
Proof.
  intros HI E u Hne H. unfold release.
  destruct (release_ws_others (waiters s) s t (leaving_of_inv s t HI E) u Hne) as [A|[(k & f & A & _)|(a & k & A & _)]].
  - rewrite A. exact H.
  - rewrite A in H. discriminate.
  - rewrite A in H. discriminate.
Qed.

(* ---- what one step does to the channel, to the stepping task's submissions, and to parked tasks ---- *)
Definition own (s : state) (t : tid) : list frame * list frame := (t_sub (tasks s t), pre_hand (pcof s t)).

Inductive view (s : state) (t : tid) (s' : state) : Prop :=
| V_same : Qs s' = Qs s -> own s' t = own s t -> keepw s s' t -> view s t s'
| V_sub : forall f, Qs s' = Qs s -> t_sub (tasks s' t) = t_sub (tasks s t) ++ [f] ->
    pre_hand (pcof s t) = [] -> pre_hand (pcof s' t) = [] ->
    ((pcof s t = PIdle /\ exists c rest, t_prog (tasks s t) = c :: rest /\ c <> CPump) \/ exists sid, pcof s t = PO1 sid) ->
    keepw s s' t -> view s t s'
| V_enter : forall f, Qs s' = Qs s -> pcof s t = PW0 WkPump f -> t_sub (tasks s' t) = t_sub (tasks s t) ++ [f] ->
    pre_hand (pcof s' t) = [] -> keepw s s' t -> view s t s'
| V_push : forall f, pcof s t = PIdle ->
    (exists sid d rest, t_prog (tasks s t) = CSend d :: rest /\ t_sid (tasks s t) = Some sid /\ f = psh_frame sid d) ->
    pushed s' = pushed s ++ [(t, f)] -> pump_owner s' = pump_owner s -> own s' t = own s t ->
    ((dq s' = dq s ++ [(t, f)] /\ keepw s s' t /\ forall p, pump_owner s = Some p -> pcof s p <> PPwait)
     \/ (exists p, p <> t /\ pump_owner s = Some p /\ pcof s p = PPwait /\ dq s' = dq s /\
                   pcof s' p = PW0 WkPump f /\ t_sub (tasks s' p) = t_sub (tasks s p))) -> view s t s'
| V_take : pump_owner s = None -> pump_owner s' = Some t -> dq s' = dq s -> pushed s' = pushed s ->
    own s' t = own s t -> pcof s t = PIdle -> (exists rest, t_prog (tasks s t) = CPump :: rest) -> keepw s s' t -> view s t s'
| V_pop : forall u f q, pump_owner s = Some t -> pump_owner s' = Some t -> dq s = (u, f) :: q -> dq s' = q ->
    pushed s' = pushed s -> pcof s t = PIdle -> pcof s' t = PW0 WkPump f ->
    t_sub (tasks s' t) = t_sub (tasks s t) -> keepw s s' t -> view s t s'
| V_wait : pump_owner s = Some t -> Qs s' = Qs s -> dq s = [] -> pcof s t = PIdle -> pcof s' t = PPwait ->
    t_sub (tasks s' t) = t_sub (tasks s t) -> keepw s s' t -> view s t s'.

Lemma own_of s s' t p : pcof s' t = p -> t_sub (tasks s' t) = t_sub (tasks s t) -> pre_hand p = pre_hand (pcof s t) ->
  own s' t = own s t.
Proof. intros E S P. unfold own. rewrite E, S, P. reflexivity. Qed.

Lemma sub_set_task_self s t v : t_sub (tasks (set_task s t v) t) = t_sub v.
Proof. cbn. rewrite upd_same. reflexivity. Qed.
Lemma pcof_finish_self s t r : pcof (finish s t r) t = PIdle.
Proof. apply (pcu_finish s t r). Qed.
Lemma pcof_finish_w_self s t k r : pcof (finish_w s t k r) t = PIdle.
Proof. apply (pcu_finish_w s t k r). Qed.
Lemma quiet_flags s b c sh fl ra : quiet s (set_flags s b c sh fl ra).
Proof. unfold quiet. split; [reflexivity | split; [reflexivity | intros ?; reflexivity]]. Qed.

Lemma wake_id s : closed s = false -> wake_pump_closed s = s.
Proof. intros C. unfold wake_pump_closed. rewrite C. reflexivity. Qed.

(* the push itself, on an open session *)
Lemma push_view s t f :
  closed s = false ->
  pushed (push_item s t f) = pushed s ++ [(t, f)] /\ pump_owner (push_item s t f) = pump_owner s /\
  ((dq (push_item s t f) = dq s ++ [(t, f)] /\ (forall p, pump_owner s = Some p -> pcof s p <> PPwait) /\
    (forall u, tasks (push_item s t f) u = tasks s u))
   \/ (exists p, pump_owner s = Some p /\ pcof s p = PPwait /\ dq (push_item s t f) = dq s /\
                 pcof (push_item s t f) p = PW0 WkPump f /\ t_sub (tasks (push_item s t f) p) = t_sub (tasks s p) /\
                 (forall u, u <> p -> tasks (push_item s t f) u = tasks s u))).
Proof.
  intros C. unfold push_item. rewrite C.
  destruct (pump_owner s) as [p|] eqn:Eo.
  - destruct (is_ppwait (t_pc (tasks s p))) eqn:E.
    + split; [reflexivity | split; [reflexivity|]]. right. exists p.
      split; [reflexivity | split; [unfold pcof; destruct (t_pc (tasks s p)); try discriminate; reflexivity|]].
      split; [reflexivity | split; [unfold pcof; cbn; rewrite upd_same; reflexivity | split; [cbn; rewrite upd_same; reflexivity|]]].
      intros u Hne. cbn. rewrite upd_other by exact Hne. reflexivity.
    + split; [reflexivity | split; [reflexivity|]]. left. split; [reflexivity | split; [|intros u; reflexivity]].
      intros p' Ep' Hp. inversion Ep'; subst. unfold pcof in Hp. rewrite Hp in E. discriminate.
  - split; [reflexivity | split; [reflexivity|]]. left. split; [reflexivity | split; [intros p' Ep'; discriminate | intros u; reflexivity]].
Qed.

Theorem step_view s t s' : Inv s -> step s t = Some s' -> closed s' = false -> view s t s'.
Proof.
  intros HI H C'.
  assert (closed s = false) as C.
  { destruct (closed s) eqn:E; [|reflexivity]. rewrite (closed_mono s t s' H E) in C'. discriminate. }
  unfold step in H.
  destruct (t_pc (tasks s t)) eqn:Epc.
  - (* PIdle: a call starts *)
    destruct (t_prog (tasks s t)) as [|c rest] eqn:Eprog; [discriminate|].
    unfold start_call in H. set (x := with_prog (tasks s t) rest) in *. set (s0 := set_task s t x) in *.
    assert (pcof s t = PIdle) as Ei by (unfold pcof; exact Epc).
    assert (quiet s s0) as Q0 by (apply quiet_with_prog).
    assert (t_sub (tasks s0 t) = t_sub (tasks s t)) as S0 by (unfold s0; cbn; rewrite upd_same; reflexivity).
    assert (forall X r, keepw s0 X t -> t_sub (tasks X t) = t_sub (tasks s0 t) -> Qs X = Qs s -> view s t (finish X t r)) as VF.
    { intros X r KX SX QQ. apply V_same.
      - exact QQ.
      - apply (own_of s (finish X t r) t PIdle); [apply pcof_finish_self | rewrite sub_finish, SX, S0; reflexivity | rewrite Ei; reflexivity].
      - eapply kw_trans; [apply kw_of_quiet; exact Q0|]. eapply kw_trans; [exact KX | eapply kw_of_pcu; apply pcu_finish]. }
    assert (forall r, view s t (finish s0 t r)) as VF0 by (intros r; apply VF; [apply kw_refl | reflexivity | reflexivity]).
    assert (forall v, keepw s (set_task s0 t v) t) as KS.
    { intros v. eapply kw_trans; [apply kw_of_quiet; exact Q0 | eapply kw_of_pcu; apply pcu_set_task]. }
    destruct c.
    + (* CWrite *)
      inversion H; subst. apply (V_sub s t _ f); [reflexivity | | rewrite Ei; reflexivity | | | apply KS].
      * rewrite sub_set_task_self. cbn. reflexivity.
      * unfold pcof. cbn. rewrite upd_same. reflexivity.
      * left. split; [exact Ei | exists (CWrite f), rest; split; [exact Eprog | discriminate]].
    + (* CData *)
      destruct (t_sid x) eqn:Es; inversion H; subst; [|apply VF0].
      apply (V_sub s t _ (psh_frame n payload)); [reflexivity | | rewrite Ei; reflexivity | | | apply KS].
      * rewrite sub_set_task_self. cbn. reflexivity.
      * unfold pcof. cbn. rewrite upd_same. reflexivity.
      * left. split; [exact Ei | exists (CData payload), rest; split; [exact Eprog | discriminate]].
    + (* COpen *)
      destruct (closed s); inversion H; subst; [apply VF0|].
      apply V_same; [reflexivity | | apply KS].
      apply (own_of s _ t PO0); [apply pcof_set_task_same | rewrite sub_set_task_self; reflexivity | rewrite Ei; reflexivity].
    + (* CAwait *)
      destruct (t_sid x); [destruct (t_verdict x)|]; inversion H; subst; apply VF0.
    + (* CTimeout *)
      destruct (t_sid x); [destruct (t_verdict x)|]; inversion H; subst; try apply VF0.
      apply VF; [apply kw_of_quiet; apply quiet_set_task_again; reflexivity | cbn; rewrite !upd_same; reflexivity | reflexivity].
    + (* CRead *)
      destruct (t_sid x); [destruct (t_rq x) as [|q]; [destruct (t_rclosed x)|]|]; inversion H; subst; try apply VF0.
      apply VF; [apply kw_of_quiet; apply quiet_set_task_again; reflexivity | cbn; rewrite !upd_same; reflexivity | reflexivity].
    + (* CClose: the flag is set, so the session is closed afterwards *)
      inversion H; subst. exfalso. unfold enter_close in C'. change (closed s0) with (closed s) in C'. rewrite C in C'. cbn in C'. discriminate.
    + inversion H; subst. apply VF; [apply kw_of_quiet; apply quiet_flags | reflexivity | reflexivity].
    + inversion H; subst. apply VF; [apply kw_of_quiet; apply quiet_flags | reflexivity | reflexivity].
    + inversion H; subst. apply VF; [apply kw_of_quiet; apply quiet_flags | reflexivity | reflexivity].
    + inversion H; subst. apply VF; [apply kw_of_quiet; unfold quiet; split; [reflexivity | split; [reflexivity | intros ?; reflexivity]] | reflexivity | reflexivity].
    + (* CFeed *)
      destruct (Nat.eqb t rtid) eqn:Et; inversion H; subst; [apply VF0|].
      apply Nat.eqb_neq in Et.
      apply VF; [apply kw_feed; exact Et | apply sub_feed | rewrite q_feed; reflexivity].
    + (* CSend *)
      destruct (t_sid x) eqn:Es; [destruct (t_sclosed x || pump_done s)|]; inversion H; subst; try apply VF0.
      set (f := psh_frame n payload).
      destruct (push_view s0 t f C) as (P1 & P2 & [(D & NW & TS)|(p & Eo & Ew & D & Pp & Sp & TS)]).
      * apply (V_push s t _ f); [exact Ei | exists n, payload, rest; split; [exact Eprog | split; [exact Es | reflexivity]] | exact P1 | exact P2 | |].
        -- apply (own_of s _ t PIdle); [apply pcof_finish_self | rewrite sub_finish, TS; exact S0 | rewrite Ei; reflexivity].
        -- left. split; [exact D | split].
           ++ intros u Hne Hu. unfold pcof. cbn. rewrite upd_other by exact Hne. rewrite TS.
              destruct Q0 as (_ & _ & E). fold (pcof s0 u). rewrite E. exact Hu.
           ++ intros p Ep Hp. apply (NW p Ep). destruct Q0 as (_ & _ & E). rewrite E. exact Hp.
      * assert (p <> t) as Hpt by (intros ->; destruct Q0 as (_ & _ & E); rewrite E, Ei in Ew; discriminate).
        apply (V_push s t _ f); [exact Ei | exists n, payload, rest; split; [exact Eprog | split; [exact Es | reflexivity]] | exact P1 | exact P2 | |].
        -- apply (own_of s _ t PIdle); [apply pcof_finish_self | | rewrite Ei; reflexivity].
           rewrite sub_finish, (TS t) by (intros E; apply Hpt; symmetry; exact E). exact S0.
        -- right. exists p. split; [exact Hpt | split; [exact Eo | split; [|split; [exact D | split]]]].
           ++ destruct Q0 as (_ & _ & E). rewrite <- E. exact Ew.
           ++ unfold pcof. cbn. rewrite upd_other by exact Hpt. exact Pp.
           ++ rewrite sub_finish, Sp. unfold s0. cbn. rewrite upd_other by exact Hpt. reflexivity.
    + (* CPump *)
      destruct (pump_owner s) as [p|] eqn:Eo.
      * destruct (negb (Nat.eqb p t)) eqn:En; [inversion H; subst; apply VF0|].
        apply negb_false_iff, Nat.eqb_eq in En. subst p.
        destruct (pump_done s); [inversion H; subst; apply VF0|].
        destruct (dq s) as [|[u f] q] eqn:Ed.
        -- inversion H; subst. apply V_wait; [exact Eo | reflexivity | exact Ed | exact Ei | apply pcof_set_task_same | | apply KS].
           rewrite sub_set_task_self. reflexivity.
        -- rewrite C in H. inversion H; subst.
           apply (V_pop s t _ u f q); [exact Eo | exact Eo | exact Ed | reflexivity | reflexivity | exact Ei | apply pcof_set_task_same | |].
           ++ rewrite sub_set_task_self. reflexivity.
           ++ eapply kw_trans; [apply kw_of_quiet; exact Q0 | eapply kw_of_pcu; apply (pcu_set_task (set_dq s0 q))].
      * inversion H; subst. apply V_take; [exact Eo | reflexivity | reflexivity | reflexivity | | exact Ei | exists rest; exact Eprog |].
        -- apply (own_of s _ t PIdle); [apply pcof_finish_self | rewrite sub_finish; exact S0 | rewrite Ei; reflexivity].
        -- eapply kw_trans; [apply kw_of_quiet; exact Q0 | eapply kw_of_pcu; apply (pcu_finish (set_pump s0 (dq s) (pushed s) (Some t) (pump_done s)))].
  - (* PW0 *)
    rewrite C in H.
    assert (forall p, (p = PW1 k f \/ p = PW2 k f) -> view s t (set_task s t (with_pc (sub_if_pump k (tasks s t) f) p))) as G.
    { intros p Hp. destruct k.
      - apply V_same; [reflexivity | | eapply kw_of_pcu; apply pcu_set_task].
        apply (own_of s _ t p); [apply pcof_set_task_same | rewrite sub_set_task_self; reflexivity |].
        unfold pcof. rewrite Epc. destruct Hp as [->| ->]; reflexivity.
      - apply V_same; [reflexivity | | eapply kw_of_pcu; apply pcu_set_task].
        apply (own_of s _ t p); [apply pcof_set_task_same | rewrite sub_set_task_self; reflexivity |].
        unfold pcof. rewrite Epc. destruct Hp as [->| ->]; reflexivity.
      - apply (V_enter s t _ f); [reflexivity | unfold pcof; exact Epc | rewrite sub_set_task_self; reflexivity | | eapply kw_of_pcu; apply pcu_set_task].
        rewrite pcof_set_task_same. destruct Hp as [->| ->]; reflexivity. }
    destruct (buffering s); inversion H; subst; apply G; [left | right]; reflexivity.
  - (* PW1 *)
    inversion H; subst. apply V_same.
    + rewrite q_finish_w. reflexivity.
    + apply (own_of s _ t PIdle); [apply pcof_finish_w_self | rewrite sub_finish_w; reflexivity | unfold pcof; rewrite Epc; reflexivity].
    + eapply kw_of_pcu. eapply quiet_pcu; [|apply pcu_finish_w].
      unfold quiet. split; [reflexivity | split; [reflexivity | intros ?; reflexivity]].
  - (* PW2 *)
    destruct (wr s); inversion H; subst;
      (apply V_same; [reflexivity | | apply kw_pcs; intros u Hne; unfold pcof; cbn; rewrite upd_other by exact Hne; reflexivity]);
      (unfold own; rewrite sub_set_pc; unfold pcof; cbn; rewrite upd_same, Epc; reflexivity).
  - discriminate.
  - (* PW3 *)
    inversion H; subst. apply V_same; [reflexivity | |].
    + unfold own; rewrite sub_set_pc; unfold pcof; cbn; rewrite upd_same, Epc; reflexivity.
    + eapply kw_of_pcu. eapply quiet_pcu; [|apply pcu_set_pc]. unfold quiet. split; [reflexivity | split; [reflexivity | intros ?; reflexivity]].
  - (* PW4 *)
    assert (wr s = Some t) as Ewr by (apply (inv_holder s HI); unfold pcof; rewrite Epc; reflexivity).
    destruct (stalled s && negb (shut s)); [discriminate|].
    destruct (failing s || shut s); inversion H; subst.
    + set (s1 := set_wire s (pkt s + 1)%N (wire s)).
      assert (Inv s1) as HI1 by (eapply inv_quiet; [exact HI | unfold quiet; split; [reflexivity | split; [reflexivity | intros ?; reflexivity]]]).
      apply V_same.
      * change (Qs (release s1) = Qs s1). unfold release. apply q_release_ws.
      * unfold own. rewrite sub_set_pc. unfold release. rewrite sub_release_ws. unfold pcof. cbn. rewrite upd_same, Epc. reflexivity.
      * eapply kw_trans; [apply (kw_release s1 t HI1 Ewr) | eapply kw_of_pcu; apply pcu_set_pc].
    + set (s1 := set_wire s (pkt s + 1)%N (wire s ++ [((pkt s + 1)%N, held)])).
      assert (Inv s1) as HI1 by (eapply inv_quiet; [exact HI | unfold quiet; split; [reflexivity | split; [reflexivity | intros ?; reflexivity]]]).
      apply V_same.
      * rewrite q_finish_w. change (Qs (release s1) = Qs s1). unfold release. apply q_release_ws.
      * apply (own_of s _ t PIdle); [apply pcof_finish_w_self | rewrite sub_finish_w; unfold release; rewrite sub_release_ws; reflexivity | unfold pcof; rewrite Epc; reflexivity].
      * eapply kw_trans; [apply (kw_release s1 t HI1 Ewr) | eapply kw_of_pcu; apply pcu_finish_w].
  - (* PE0: close() sets the flag *)
    inversion H; subst. exfalso. unfold enter_close in C'. rewrite C in C'. cbn in C'. discriminate.
  - (* PC1 (the flag is set: not on an open session; stated anyway, the notification is a no-op when it is clear) *)
    cbv zeta in H. rewrite (wake_id s C) in H. inversion H; subst. apply V_same; [reflexivity | |].
    + unfold own. rewrite sub_set_pc. cbn [tasks set_table set_tasks set_rtable drain_state]. rewrite sub_drain. unfold pcof. cbn. rewrite upd_same, Epc. reflexivity.
    + eapply kw_of_pcu. eapply quiet_pcu; [|apply pcu_set_pc].
      unfold quiet. split; [reflexivity | split; [reflexivity|]]. intros t'. unfold pcof. cbn. apply drain_pc.
  - (* PC2 *)
    destruct (wr s); inversion H; subst.
    + apply V_same; [reflexivity | |].
      * unfold own. rewrite sub_set_pc. unfold pcof. cbn. rewrite upd_same, Epc. reflexivity.
      * apply kw_pcs; intros u Hne; unfold pcof; cbn; rewrite upd_other by exact Hne; reflexivity.
    + apply V_same.
      * rewrite q_finish_close. apply q_shutdown_tr.
      * apply (own_of s _ t PIdle); [apply pcof_finish_close_same | rewrite sub_finish_close, tasks_shutdown_tr; reflexivity | unfold pcof; rewrite Epc; reflexivity].
      * eapply kw_of_pcu. eapply quiet_pcu; [|apply pcu_finish_close]. apply quiet_shutdown_tr.
  - discriminate.
  - (* PO0 *)
    inversion H; subst. apply V_same; [reflexivity | |].
    + apply (own_of s _ t (PO0b (next_sid s))); [apply pcof_set_task_same | rewrite sub_set_task_self; reflexivity | unfold pcof; rewrite Epc; reflexivity].
    + eapply kw_of_pcu. eapply quiet_pcu; [|apply pcu_set_task]. unfold quiet. split; [reflexivity | split; [reflexivity | intros ?; reflexivity]].
  - (* PO0b *)
    inversion H; subst. apply V_same; [reflexivity | |].
    + apply (own_of s _ t (PO1 sid)); [apply pcof_set_task_same | rewrite sub_set_task_self; reflexivity | unfold pcof; rewrite Epc; reflexivity].
    + eapply kw_of_pcu. eapply quiet_pcu; [|apply pcu_set_task]. unfold quiet. split; [reflexivity | split; [reflexivity | intros ?; reflexivity]].
  - (* PO1: the SYN is submitted *)
    inversion H; subst. apply (V_sub s t _ (syn_frame sid)); [reflexivity | | unfold pcof; rewrite Epc; reflexivity | | | eapply kw_of_pcu; apply pcu_set_task].
    + rewrite sub_set_task_self. reflexivity.
    + rewrite pcof_set_task_same. reflexivity.
    + right. exists sid. unfold pcof. exact Epc.
  - discriminate.
Qed.

(* ---- the stepping task's own program and open_stream program counters ---- *)
Lemma step_self_prog s t s' :
  step s t = Some s' ->
  t_prog (tasks s' t) = t_prog (tasks s t) \/ exists c, t_prog (tasks s t) = c :: t_prog (tasks s' t).
Proof.
  intros H. unfold step in H.
  destruct (t_pc (tasks s t)) eqn:Epc.
  - destruct (t_prog (tasks s t)) as [|c rest] eqn:Eprog; [discriminate|]. right. exists c. f_equal.
    unfold start_call in H. set (s0 := set_task s t (with_prog (tasks s t) rest)) in *.
    assert (t_prog (tasks s0 t) = rest) as P0 by (unfold s0; cbn; rewrite upd_same; reflexivity).
    destruct c;
      repeat match type of H with
             | context [match ?x with _ => _ end] => destruct x eqn:?
             end; inversion H; subst s'; clear H;
      cbn [tasks set_pump set_dq set_pump_done];
      repeat first [ rewrite prog_finish_w | rewrite prog_finish | rewrite prog_set_pc | rewrite prog_finish_close
                   | rewrite prog_enter_close | rewrite prog_feed | rewrite prog_push | rewrite prog_wake ];
      cbn [tasks set_task set_tasks set_table set_buffering set_failing set_flags set_pump set_dq];
      rewrite ?upd_same; cbn [t_prog with_pc with_sub with_sid with_verdict with_rq]; try (symmetry; exact P0); try reflexivity.
  - left. destruct (closed s); [|destruct (buffering s)]; inversion H; subst; [apply prog_finish_w | |];
      cbn; rewrite upd_same; destruct k; reflexivity.
  - left. inversion H; subst. rewrite prog_finish_w. reflexivity.
  - left. destruct (wr s); inversion H; subst; rewrite prog_set_pc; reflexivity.
  - discriminate.
  - left. inversion H; subst. rewrite prog_set_pc. reflexivity.
  - left. destruct (stalled s && negb (shut s)); [discriminate|]. destruct (failing s || shut s); inversion H; subst.
    + rewrite prog_set_pc. unfold release. rewrite prog_release_ws. reflexivity.
    + rewrite prog_finish_w. unfold release. rewrite prog_release_ws. reflexivity.
  - left. inversion H; subst. apply prog_enter_close.
  - left. cbv zeta in H. inversion H; subst. rewrite prog_set_pc. cbn [tasks set_table set_tasks set_rtable drain_state]. rewrite prog_drain. apply prog_wake.
  - left. destruct (wr s); inversion H; subst; [rewrite prog_set_pc; reflexivity | rewrite prog_finish_close, tasks_shutdown_tr; reflexivity].
  - discriminate.
  - left. inversion H; subst. cbn. rewrite upd_same. reflexivity.
  - left. inversion H; subst. cbn. rewrite upd_same. reflexivity.
  - left. inversion H; subst. cbn. rewrite upd_same. reflexivity.
  - discriminate.
Qed.

Definition is_po (p : pc) : bool := match p with PO0 | PO0b _ | PO1 _ => true | _ => false end.

Lemma step_self_po s t s' :
  step s t = Some s' -> is_po (pcof s' t) = true ->
  is_po (pcof s t) = true \/ (pcof s t = PIdle /\ exists rest, t_prog (tasks s t) = COpen :: rest).
Proof.
  intros H P. unfold step in H.
  destruct (t_pc (tasks s t)) eqn:Epc.
  - right. split; [unfold pcof; exact Epc|].
    destruct (t_prog (tasks s t)) as [|c rest] eqn:Eprog; [discriminate|].
    unfold start_call in H. set (x := with_prog (tasks s t) rest) in *. set (s0 := set_task s t x) in *.
    destruct c; try (exists rest; reflexivity); exfalso;
      repeat match type of H with
             | context [match ?y with _ => _ end] => destruct y eqn:?
             end; inversion H; subst s'; clear H;
      try (unfold pcof in P; cbn in P; rewrite ?upd_same in P; cbn in P; discriminate).
    + destruct (pcof_enter_close_same s0 t AfterClose WkPlain) as [E|E]; rewrite E in P; discriminate.
  - exfalso. destruct (closed s); [|destruct (buffering s)]; inversion H; subst;
      [rewrite pcof_finish_w_self in P | rewrite pcof_set_task_same in P | rewrite pcof_set_task_same in P]; discriminate.
  - exfalso. inversion H; subst. rewrite pcof_finish_w_self in P. discriminate.
  - exfalso. destruct (wr s); inversion H; subst; unfold pcof in P; cbn in P; rewrite upd_same in P; discriminate.
  - discriminate.
  - exfalso. inversion H; subst. unfold pcof in P; cbn in P; rewrite upd_same in P; discriminate.
  - exfalso. destruct (stalled s && negb (shut s)); [discriminate|]. destruct (failing s || shut s); inversion H; subst.
    + unfold pcof in P; cbn in P; rewrite upd_same in P; discriminate.
    + rewrite pcof_finish_w_self in P. discriminate.
  - exfalso. inversion H; subst. destruct (pcof_enter_close_same s t a k) as [E|E]; rewrite E in P; discriminate.
  - exfalso. cbv zeta in H. inversion H; subst. unfold pcof in P; cbn in P; rewrite upd_same in P; discriminate.
  - exfalso. destruct (wr s); inversion H; subst; [unfold pcof in P; cbn in P; rewrite upd_same in P; discriminate|].
    rewrite pcof_finish_close_same in P. discriminate.
  - discriminate.
  - left. unfold pcof. rewrite Epc. reflexivity.
  - left. unfold pcof. rewrite Epc. reflexivity.
  - left. unfold pcof. rewrite Epc. reflexivity.
  - discriminate.
Qed.

Lemma step_self_ppwait s t s' :
  step s t = Some s' -> pcof s' t = PPwait ->
  pcof s t = PIdle /\ pump_owner s = Some t /\ dq s = [] /\ exists rest, t_prog (tasks s t) = CPump :: rest.
Proof.
  intros H P. unfold step in H.
  destruct (t_pc (tasks s t)) eqn:Epc.
  - split; [unfold pcof; exact Epc|].
    destruct (t_prog (tasks s t)) as [|c rest] eqn:Eprog; [discriminate|].
    unfold start_call in H. set (x := with_prog (tasks s t) rest) in *. set (s0 := set_task s t x) in *.
    destruct c;
      try (exfalso;
           repeat match type of H with
                  | context [match ?y with _ => _ end] => destruct y eqn:?
                  end; inversion H; subst s'; clear H;
           try (unfold pcof in P; cbn in P; rewrite ?upd_same in P; cbn in P; discriminate);
           destruct (pcof_enter_close_same s0 t AfterClose WkPlain) as [E|E]; rewrite E in P; discriminate).
    destruct (pump_owner s) as [q|] eqn:Eo.
    + destruct (negb (Nat.eqb q t)) eqn:En; [exfalso; inversion H; subst; rewrite pcof_finish_self in P; discriminate|].
      apply negb_false_iff, Nat.eqb_eq in En. subst q.
      destruct (pump_done s); [exfalso; inversion H; subst; rewrite pcof_finish_self in P; discriminate|].
      destruct (dq s) as [|[u f] q] eqn:Ed.
      * split; [reflexivity | split; [reflexivity | exists rest; reflexivity]].
      * exfalso. destruct (closed s); inversion H; subst; unfold pcof in P; cbn in P; rewrite upd_same in P; cbn in P; discriminate.
    + exfalso. inversion H; subst. rewrite pcof_finish_self in P. discriminate.
  - exfalso. destruct (closed s); [|destruct (buffering s)]; inversion H; subst;
      [rewrite pcof_finish_w_self in P | rewrite pcof_set_task_same in P | rewrite pcof_set_task_same in P]; discriminate.
  - exfalso. inversion H; subst. rewrite pcof_finish_w_self in P. discriminate.
  - exfalso. destruct (wr s); inversion H; subst; unfold pcof in P; cbn in P; rewrite upd_same in P; discriminate.
  - discriminate.
  - exfalso. inversion H; subst. unfold pcof in P; cbn in P; rewrite upd_same in P; discriminate.
  - exfalso. destruct (stalled s && negb (shut s)); [discriminate|]. destruct (failing s || shut s); inversion H; subst.
    + unfold pcof in P; cbn in P; rewrite upd_same in P; discriminate.
    + rewrite pcof_finish_w_self in P. discriminate.
  - exfalso. inversion H; subst. destruct (pcof_enter_close_same s t a k) as [E|E]; rewrite E in P; discriminate.
  - exfalso. cbv zeta in H. inversion H; subst. unfold pcof in P; cbn in P; rewrite upd_same in P; discriminate.
  - exfalso. destruct (wr s); inversion H; subst; [unfold pcof in P; cbn in P; rewrite upd_same in P; discriminate|].
    rewrite pcof_finish_close_same in P. discriminate.
  - discriminate.
  - exfalso. inversion H; subst. rewrite pcof_set_task_same in P. discriminate.
  - exfalso. inversion H; subst. rewrite pcof_set_task_same in P. discriminate.
  - exfalso. inversion H; subst. rewrite pcof_set_task_same in P. discriminate.
  - discriminate.
Qed.

Lemma step_take s t s' rest :
  step s t = Some s' -> pcof s t = PIdle -> t_prog (tasks s t) = CPump :: rest -> pump_owner s = None ->
  pump_owner s' = Some t.
Proof.
  intros H Ei Ep Eo. unfold step in H. unfold pcof in Ei. rewrite Ei, Ep in H. unfold start_call in H. rewrite Eo in H.
  inversion H; subst. reflexivity.
Qed.

(* ---- the invariant of the forwarding path ---- *)
Section Pump.
Variable p : tid.
Hypothesis p_not_recv : p <> rtid.

Definition only_pump (l : list call) : Prop := Forall (fun c => c = CPump) l.

Record PF (s : state) : Prop := {
  pf_owner : pump_owner s = None \/ pump_owner s = Some p;
  pf_prog_p : only_pump (t_prog (tasks s p));
  pf_prog_o : forall u, u <> p -> ~ In CPump (t_prog (tasks s u));
  pf_nopo : is_po (pcof s p) = false;
  pf_idle : pump_owner s = None -> pcof s p = PIdle /\ t_sub (tasks s p) = [];
  pf_wait : forall u, pcof s u = PPwait -> u = p /\ pump_owner s = Some p /\ dq s = [];
  pf_fifo : t_sub (tasks s p) ++ pre_hand (pcof s p) ++ map snd (dq s) = map snd (pushed s)
}.

Lemma qs_fields s s' : Qs s' = Qs s -> dq s' = dq s /\ pushed s' = pushed s /\ pump_owner s' = pump_owner s.
Proof. unfold Qs. intros E. inversion E. auto. Qed.

(* the pc of p after a step of another task that is not a hand-off *)
Lemma other_pre_hand s t s' :
  Inv s -> step s t = Some s' -> p <> t -> keepw s s' t -> pre_hand (pcof s' p) = pre_hand (pcof s p).
Proof.
  intros HI H Hne K.
  destruct (step_others s t s' HI H p Hne) as [[E|[(k & f & A & B)|(a & k & A & B & _)]]|[(A & _)|(A & T)]].
  - rewrite E. reflexivity.
  - rewrite A, B. reflexivity.
  - rewrite A, B. reflexivity.
  - contradiction.
  - rewrite (K p Hne A), A. reflexivity.
Qed.

Lemma other_ppwait_back s t s' u : Inv s -> step s t = Some s' -> u <> t -> pcof s' u = PPwait -> pcof s u = PPwait.
Proof.
  intros HI H Hne P.
  destruct (step_others s t s' HI H u Hne) as [[E|[(k & f & A & B)|(a & k & A & B & _)]]|[(_ & _ & [B|B])|(A & [B|[f B]])]];
    try (rewrite B in P; discriminate). rewrite <- E. exact P.
Qed.

Lemma only_pump_head l c rest : only_pump l -> l = c :: rest -> c = CPump.
Proof. intros F E. subst. inversion F. assumption. Qed.

Theorem step_pf s t s' : Inv s -> PF s -> step s t = Some s' -> closed s' = false -> PF s'.
Proof.
  intros HI [Ho Pp Po Np Pi Pw Pf] H C'.
  pose proof (step_view s t s' HI H C') as V.
  (* programs *)
  assert (only_pump (t_prog (tasks s' p))) as Pp'.
  { destruct (Nat.eq_dec p t) as [->|Hne].
    - destruct (step_self_prog s t s' H) as [E|[c E]]; [rewrite E; exact Pp|].
      unfold only_pump in *. rewrite E in Pp. inversion Pp. assumption.
    - rewrite (step_other_prog s t s' p H Hne). exact Pp. }
  assert (forall u, u <> p -> ~ In CPump (t_prog (tasks s' u))) as Po'.
  { intros u Hu. destruct (Nat.eq_dec u t) as [->|Hne].
    - destruct (step_self_prog s t s' H) as [E|[c E]]; [rewrite E; apply Po; exact Hu|].
      intros Hin. apply (Po t Hu). rewrite E. right. exact Hin.
    - rewrite (step_other_prog s t s' u H Hne). apply Po. exact Hu. }
  (* whoever is at the head of a CPump call is p *)
  assert (forall rest, t_prog (tasks s t) = CPump :: rest -> t = p) as HeadP.
  { intros rest E. destruct (Nat.eq_dec t p) as [->|Hne]; [reflexivity|]. exfalso. apply (Po t Hne). rewrite E. left. reflexivity. }
  assert (pump_owner s = Some t -> t = p) as OwnP.
  { intros E. destruct Ho as [E2|E2]; rewrite E2 in E; [discriminate | inversion E; reflexivity]. }
  (* p never runs open_stream *)
  assert (is_po (pcof s' p) = false) as Np'.
  { destruct (is_po (pcof s' p)) eqn:E; [|reflexivity]. exfalso.
    destruct (Nat.eq_dec p t) as [->|Hne].
    - destruct (step_self_po s t s' H E) as [A|(A & rest & B)]; [congruence|].
      pose proof (only_pump_head _ _ _ Pp B). discriminate.
    - destruct (step_others s t s' HI H p Hne) as [[A|[(k & f & A & B)|(a & k & A & B & _)]]|[(A & _)|(A & [B|[f B]])]];
        try (rewrite B in E; discriminate); try contradiction. rewrite A in E. congruence. }
  (* the owner *)
  assert (pump_owner s' = pump_owner s \/ (pump_owner s = None /\ pump_owner s' = Some p /\ t = p)) as Ow.
  { destruct V as [Q _ _|f Q _ _ _ _ _|f Q _ _ _ _|f _ _ _ O _ _|O O' _ _ _ _ [rest E] _|u f q O O' _ _ _ _ _ _ _|O Q _ _ _ _ _];
      try (left; apply (qs_fields _ _ Q)); try (left; exact O).
    - right. pose proof (HeadP rest E). subst t. auto.
    - left. congruence. }
  assert (pump_owner s' = None \/ pump_owner s' = Some p) as Ho'.
  { destruct Ow as [E|(_ & E & _)]; [rewrite E; exact Ho | right; exact E]. }
  (* a parked task *)
  assert (forall u, pcof s' u = PPwait -> u = p /\ pump_owner s' = Some p /\ dq s' = []) as Pw'.
  { intros u Hu. destruct (Nat.eq_dec u t) as [->|Hne].
    - destruct (step_self_ppwait s t s' H Hu) as (Ei & Eo & Ed & rest & Ep).
      pose proof (OwnP Eo). subst t.
      destruct V as [Q _ _|f Q _ _ _ _ _|f Q _ _ _ _|f _ [sd [d [r [E _]]]] _ _ _ _|O _ _ _ _ _ _ _|u f q _ _ Ed' _ _ _ _ _ _|_ Q _ _ _ _ _];
        try (destruct (qs_fields _ _ Q) as (D & _ & O); rewrite D, O; auto; fail).
      + rewrite Ep in E. discriminate.
      + congruence.
      + congruence.
    - pose proof (other_ppwait_back s t s' u HI H Hne Hu) as Hu0.
      destruct (Pw u Hu0) as (-> & Eo & Ed).
      assert (pump_owner s' = Some p) as Eo'.
      { destruct Ow as [E|(E & _)]; [rewrite E; exact Eo | congruence]. }
      split; [reflexivity | split; [exact Eo'|]].
      destruct V as [Q _ _|f Q _ _ _ _ _|f Q _ _ _ _|f _ _ _ _ _ [(D & _ & NW)|(q & _ & Eq & Wq & D & Pq & _)]|O _ _ _ _ _ _ _|u f q O _ Ed' _ _ _ _ _ _|_ Q _ _ _ _ _];
        try (destruct (qs_fields _ _ Q) as (D & _ & _); rewrite D; exact Ed; fail).
      + exfalso. apply (NW p Eo). exact Hu0.
      + rewrite Eo in Eq. inversion Eq; subst q. rewrite Pq in Hu. discriminate.
      + congruence.
      + exfalso. apply Hne. symmetry. apply OwnP. exact O. }
  (* before the receiver is taken *)
  assert (pump_owner s' = None -> pcof s' p = PIdle /\ t_sub (tasks s' p) = []) as Pi'.
  { intros E. assert (pump_owner s = None) as E0 by (destruct Ow as [A|(A & _)]; congruence).
    destruct (Pi E0) as [Ei Es].
    destruct (Nat.eq_dec p t) as [->|Hne].
    - exfalso.
      assert (exists c rest, t_prog (tasks s t) = c :: rest) as (c & rest & Ep).
      { unfold step in H. unfold pcof in Ei. rewrite Ei in H. destruct (t_prog (tasks s t)) as [|c rest]; [discriminate | eauto]. }
      pose proof (only_pump_head _ _ _ Pp Ep). subst c.
      rewrite (step_take s t s' rest H Ei Ep E0) in E. discriminate.
    - rewrite (step_other_sub s t s' p H Hne). split; [|exact Es].
      destruct (step_others s t s' HI H p Hne) as [[A|[(k & f & A & B)|(a & k & A & B & _)]]|[(A & _)|(A & _)]];
        try congruence; contradiction. }
  (* FIFO *)
  assert (t_sub (tasks s' p) ++ pre_hand (pcof s' p) ++ map snd (dq s') = map snd (pushed s')) as Pf'.
  { destruct (Nat.eq_dec p t) as [->|Hne].
    - destruct V as [Q O _|f Q _ _ _ [(Ei & c & r & E & Nc)|(sid & E)] _|f Q Ei S P _|f Ei [sd [d [r [E _]]]] _ _ _ _|O _ D Pu Ow' _ _ _|u f q _ _ Ed D Pu Ei Ei' S _|_ Q _ Ei Ei' S _].
      + destruct (qs_fields _ _ Q) as (D & Pu & _). unfold own in O. inversion O as [[O1 O2]]. rewrite O1, O2, D, Pu. exact Pf.
      + exfalso. apply Nc. apply (only_pump_head _ _ _ Pp E).
      + exfalso. rewrite E in Np. discriminate.
      + destruct (qs_fields _ _ Q) as (D & Pu & _). rewrite S, P, D, Pu. rewrite Ei in Pf. cbn [pre_hand] in *.
        rewrite <- app_assoc. exact Pf.
      + exfalso. pose proof (only_pump_head _ _ _ Pp E). discriminate.
      + unfold own in Ow'. inversion Ow' as [[O1 O2]]. rewrite O1, O2, D, Pu. exact Pf.
      + rewrite S, Ei', D, Pu. rewrite Ei, Ed in Pf. cbn [pre_hand map snd app] in *. exact Pf.
      + destruct (qs_fields _ _ Q) as (D & Pu & _). rewrite S, Ei', D, Pu. rewrite Ei in Pf. exact Pf.
    - rewrite (step_other_sub s t s' p H Hne).
      destruct V as [Q _ K|f Q _ _ _ _ K|f Q _ _ _ K|f _ _ Pu _ _ [(D & K & _)|(q & Hq & Eq & Wq & D & Pq & Sq)]|O _ _ _ _ _ [rest E] _|u f q O _ _ _ _ _ _ _ _|O Q _ _ _ _ K];
        try (destruct (qs_fields _ _ Q) as (D & Pu & _); rewrite (other_pre_hand s t s' HI H Hne K), D, Pu; exact Pf; fail).
      + rewrite (other_pre_hand s t s' HI H Hne K), D, Pu, !map_app. cbn [map snd]. rewrite !app_assoc. f_equal.
        rewrite <- !app_assoc. exact Pf.
      + assert (q = p) by (destruct Ho as [A|A]; rewrite A in Eq; [discriminate | inversion Eq; reflexivity]). subst q.
        destruct (Pw p Wq) as (_ & _ & Ed). rewrite Pq, D, Ed, Pu, map_app. rewrite Wq, Ed in Pf. cbn [pre_hand map snd app] in *.
        rewrite app_nil_r in *. rewrite Pf. reflexivity.
      + exfalso. apply Hne. symmetry. eapply HeadP. exact E.
      + exfalso. apply Hne. symmetry. apply OwnP. exact O. }
  constructor; assumption.
Qed.

Lemma pf_init progs buf pend :
  only_pump (nth p progs []) -> (forall u, u <> p -> ~ In CPump (nth u progs [])) -> PF (init progs buf pend).
Proof.
  intros A B. constructor; cbn.
  - left. reflexivity.
  - exact A.
  - exact B.
  - reflexivity.
  - intros _. split; reflexivity.
  - intros u Hu. unfold pcof in Hu. cbn in Hu. discriminate.
  - reflexivity.
Qed.

(* an open end state has only open predecessors *)
Lemma run_open sched : forall s, closed (run s sched) = false -> closed s = false.
Proof.
  induction sched as [|t sched IH]; intros s C; [exact C|].
  rewrite run_cons in C. apply IH in C. unfold step_or_skip in C.
  destruct (step s t) as [s1|] eqn:E; [|exact C].
  destruct (closed s) eqn:Cs; [|reflexivity]. rewrite (closed_mono s t s1 E Cs) in C. discriminate.
Qed.

Theorem run_pf sched : forall s, Inv s -> PF s -> closed (run s sched) = false -> PF (run s sched).
Proof.
  induction sched as [|t sched IH]; intros s HI P C; [exact P|].
  rewrite run_cons in *. unfold step_or_skip in *. destruct (step s t) as [s1|] eqn:E.
  - apply IH; [eapply step_inv; eauto | | exact C].
    eapply step_pf; eauto. apply (run_open sched s1 C).
  - apply IH; assumption.
Qed.

(* for every schedule, on an open session: what the forwarding task has submitted, what it holds and what is still
   in the channel are, in this order, exactly what the applications pushed *)
Theorem pump_fifo progs buf pend sched :
  only_pump (nth p progs []) -> (forall u, u <> p -> ~ In CPump (nth u progs [])) ->
  let s := run (init progs buf pend) sched in
  closed s = false ->
  t_sub (tasks s p) ++ pre_hand (pcof s p) ++ map snd (dq s) = map snd (pushed s).
Proof.
  intros A B s C. apply pf_fifo. unfold s. apply run_pf; [apply inv_init | apply pf_init; assumption | exact C].
Qed.

End Pump.

(* ---- a stream's SYN is in the log before anything is pushed for it ---- *)
(* for a task that holds a stream id: inside open_stream the frame in hand is that stream's SYN; everywhere else
   (the handle has been returned, or an older handle is still held while a new open starts) the SYN is in the log *)
Definition open_ok (s : state) (u : tid) : Prop :=
  forall sid, t_sid (tasks s u) = Some sid ->
    match pcof s u with
    | PO0b x | PO1 x => x = sid
    | PW0 WkOpen f | PW1 WkOpen f | PW2 WkOpen f | PW2wait WkOpen f | PW3 WkOpen f => f = syn_frame sid
    | _ => In (u, syn_frame sid) (lin s)
    end.

Lemma open_ok_init progs buf pend u : open_ok (init progs buf pend) u.
Proof. intros sid H. cbn in H. discriminate. Qed.

Lemma in_lin_grows s s' e : (exists l, lin s' = lin s ++ l) -> In e (lin s) -> In e (lin s').
Proof. intros [l E] H. rewrite E. apply in_or_app. left. exact H. Qed.

(* the stepping task *)
Lemma open_ok_self s t s' : Inv s -> step s t = Some s' -> closed s' = false -> open_ok s t -> open_ok s' t.
Proof.
  intros HI H C' O.
  assert (closed s = false) as C.
  { destruct (closed s) eqn:E; [|reflexivity]. rewrite (closed_mono s t s' H E) in C'. discriminate. }
  pose proof (step_lin_grows s t s' HI H) as G.
  unfold step in H. unfold open_ok in *. unfold pcof in O.
  destruct (t_pc (tasks s t)) eqn:Epc.
  - (* PIdle *)
    destruct (t_prog (tasks s t)) as [|c rest] eqn:Eprog; [discriminate|].
    unfold start_call in H. set (x := with_prog (tasks s t) rest) in *. set (s0 := set_task s t x) in *.
    assert (forall X r sid, t_sid (tasks (finish X t r) t) = Some sid -> t_sid (tasks X t) = Some sid) as FS.
    { intros X r sid E. cbn in E. rewrite upd_same in E. exact E. }
    assert (forall sid, t_sid (tasks s0 t) = Some sid -> t_sid (tasks s t) = Some sid) as S0.
    { intros sid E. unfold s0 in E. cbn in E. rewrite upd_same in E. exact E. }
    (* every call that ends at once leaves t at PIdle holding the same id: the SYN stays in the (growing) log *)
    assert (forall X r, (forall sid, t_sid (tasks X t) = Some sid -> t_sid (tasks s t) = Some sid) ->
                        s' = finish X t r -> forall sid, t_sid (tasks s' t) = Some sid ->
                        match pcof s' t with
                        | PO0b x0 | PO1 x0 => x0 = sid
                        | PW0 WkOpen f | PW1 WkOpen f | PW2 WkOpen f | PW2wait WkOpen f | PW3 WkOpen f => f = syn_frame sid
                        | _ => In (t, syn_frame sid) (lin s')
                        end) as FIN.
    { intros X r SX -> sid E. rewrite pcof_finish_self. apply (in_lin_grows s _ _ G). apply (O sid). apply SX. apply (FS X r). exact E. }
    destruct c.
    + (* CWrite *) inversion H; subst. intros sid E. rewrite pcof_set_task_same. cbn [t_pc with_pc].
      apply (in_lin_grows s _ _ G). apply (O sid). cbn in E. rewrite upd_same in E. exact E.
    + (* CData *)
      destruct (t_sid x) eqn:Es; inversion H; subst; [|eapply FIN; [exact S0 | reflexivity]].
      intros sid E. rewrite pcof_set_task_same. cbn [t_pc with_pc].
      apply (in_lin_grows s _ _ G). apply (O sid). cbn in E. rewrite upd_same in E. exact E.
    + (* COpen *)
      destruct (closed s); inversion H; subst; [eapply FIN; [exact S0 | reflexivity]|].
      intros sid E. rewrite pcof_set_task_same. cbn [t_pc with_pc].
      apply (in_lin_grows s _ _ G). apply (O sid). cbn in E. rewrite upd_same in E. exact E.
    + destruct (t_sid x); [destruct (t_verdict x)|]; inversion H; subst; eapply FIN; try exact S0; reflexivity.
    + destruct (t_sid x); [destruct (t_verdict x)|]; inversion H; subst; try (eapply FIN; [exact S0 | reflexivity]).
      eapply FIN; [|reflexivity]. intros sid E. cbn in E. rewrite !upd_same in E. exact E.
    + destruct (t_sid x); [destruct (t_rq x) as [|q]; [destruct (t_rclosed x)|]|]; inversion H; subst; try (eapply FIN; [exact S0 | reflexivity]).
      eapply FIN; [|reflexivity]. intros sid E. cbn in E. rewrite !upd_same in E. exact E.
    + (* CClose closes *)
      inversion H; subst. exfalso. unfold enter_close in C'. change (closed s0) with (closed s) in C'. rewrite C in C'. cbn in C'. discriminate.
    + inversion H; subst. eapply FIN; [|reflexivity]. exact S0.
    + inversion H; subst. eapply FIN; [|reflexivity]. exact S0.
    + inversion H; subst. eapply FIN; [|reflexivity]. exact S0.
    + inversion H; subst. eapply FIN; [|reflexivity]. exact S0.
    + (* CFeed *)
      destruct (Nat.eqb t rtid) eqn:Et; inversion H; subst; [eapply FIN; [exact S0 | reflexivity]|].
      eapply FIN; [|reflexivity]. intros sid E.
      destruct (ks_feed s0 ev t) as [[A|A] _]; [rewrite A in E; apply S0; exact E | congruence].
    + (* CSend *)
      destruct (t_sid x) eqn:Es; [destruct (t_sclosed x || pump_done s)|]; inversion H; subst; try (eapply FIN; [exact S0 | reflexivity]).
      eapply FIN; [|reflexivity]. intros sid E.
      destruct (ks_push s0 t (psh_frame n payload) t) as [[A|A] _]; [rewrite A in E; apply S0; exact E | congruence].
    + (* CPump *)
      destruct (pump_owner s) as [p|].
      * destruct (negb (Nat.eqb p t)); [inversion H; subst; eapply FIN; [exact S0 | reflexivity]|].
        destruct (pump_done s); [inversion H; subst; eapply FIN; [exact S0 | reflexivity]|].
        destruct (dq s) as [|[u f] q].
        -- inversion H; subst. intros sid E. rewrite pcof_set_task_same. cbn [t_pc with_pc].
           apply (in_lin_grows s _ _ G). apply (O sid). cbn in E. rewrite upd_same in E. exact E.
        -- rewrite C in H. inversion H; subst. intros sid E. rewrite pcof_set_task_same. cbn [t_pc with_pc].
           apply (in_lin_grows s _ _ G). apply (O sid). cbn in E. rewrite upd_same in E. exact E.
      * inversion H; subst. eapply FIN; [|reflexivity]. exact S0.
  - (* PW0 *)
    rewrite C in H.
    assert (forall sid, t_sid (sub_if_pump k (tasks s t) f) = Some sid -> t_sid (tasks s t) = Some sid) as SP by (intros sid; destruct k; exact (fun e => e)).
    destruct (buffering s); inversion H; subst; intros sid E; rewrite pcof_set_task_same; cbn [t_pc with_pc];
      cbn in E; rewrite upd_same in E; cbn in E; apply SP in E; specialize (O sid E);
      destruct k; try exact O; apply (in_lin_grows s _ _ G); exact O.
  - (* PW1: the frame is logged, the call returns *)
    inversion H; subst. intros sid E. rewrite pcof_finish_w_self.
    assert (t_sid (tasks s t) = Some sid) as E0.
    { destruct k; cbn in E; rewrite ?upd_same in E; exact E. }
    specialize (O sid E0). destruct (data_finish_w (set_queue s (pending s ++ [(t, f)]) (lin s ++ [(t, f)])) t k ResOk) as (_ & _ & L & _).
    rewrite L. cbn [lin set_queue]. destruct k; [apply in_or_app; left; exact O | subst f; apply in_or_app; right; left; reflexivity | apply in_or_app; left; exact O].
  - (* PW2 *)
    destruct (wr s); inversion H; subst; intros sid E; (assert (t_sid (tasks s t) = Some sid) as E0 by (cbn in E; rewrite upd_same in E; exact E));
      specialize (O sid E0); unfold pcof; cbn; rewrite upd_same; cbn; exact O.
  - discriminate.
  - (* PW3: logged under the lock *)
    inversion H; subst. intros sid E. assert (t_sid (tasks s t) = Some sid) as E0 by (cbn in E; rewrite upd_same in E; exact E).
    specialize (O sid E0). unfold pcof. cbn. rewrite upd_same. cbn.
    destruct k; [apply in_or_app; left; exact O | subst f; apply in_or_app; right; left; reflexivity | apply in_or_app; left; exact O].
  - (* PW4 *)
    destruct (stalled s && negb (shut s)); [discriminate|].
    destruct (failing s || shut s); inversion H; subst; intros sid E.
    + set (s1 := set_wire s (pkt s + 1)%N (wire s)) in *.
      assert (t_sid (tasks s t) = Some sid) as E0.
      { destruct (ks_trans _ _ _ (ks_release_ws (waiters s1) s1 t) (ks_set_pc (release_ws (waiters s1) s1) t (PE0 AfterIoErr k) t)) as [[A|A] _];
          [|unfold release in E; congruence]. unfold release in E. rewrite A in E. exact E. }
      unfold pcof. cbn. rewrite upd_same. cbn. apply (in_lin_grows s _ _ G). exact (O sid E0).
    + set (s1 := set_wire s (pkt s + 1)%N (wire s ++ [((pkt s + 1)%N, held)])) in *.
      rewrite pcof_finish_w_self.
      assert (t_sid (tasks s t) = Some sid) as E0.
      { destruct (ks_trans _ _ _ (ks_release_ws (waiters s1) s1 t) (ks_finish_w (release_ws (waiters s1) s1) t k ResOk t)) as [[A|A] _];
          [|unfold release in E; congruence]. unfold release in E. rewrite A in E. exact E. }
      apply (in_lin_grows s _ _ G). exact (O sid E0).
  - (* PE0: close() sets the flag *)
    inversion H; subst. exfalso. unfold enter_close in C'. rewrite C in C'. cbn in C'. discriminate.
  - (* PC1 *)
    cbv zeta in H. rewrite (wake_id s C) in H. inversion H; subst. intros sid E.
    assert (t_sid (tasks s t) = Some sid) as E0.
    { cbn in E. rewrite upd_same in E. cbn in E. destruct (drain_keeps (table s) (tasks s) t) as (_ & _ & B & _). rewrite B in E. exact E. }
    unfold pcof. cbn. rewrite upd_same. cbn. exact (O sid E0).
  - (* PC2 *)
    destruct (wr s); inversion H; subst; intros sid E.
    + assert (t_sid (tasks s t) = Some sid) as E0 by (cbn in E; rewrite upd_same in E; exact E).
      unfold pcof. cbn. rewrite upd_same. cbn. exact (O sid E0).
    + rewrite pcof_finish_close_same.
      destruct (ks_shutdown_close s t a k t) as [[A|A] _]; [|congruence].
      rewrite A in E. destruct (data_finish_close (shutdown_tr s) t a k) as (_ & _ & L & _). rewrite L. shtr. exact (O sid E).
  - discriminate.
  - (* PO0: the id is allocated; between the two inserts the task holds the new id, the old one (whose SYN is logged)
       is forgotten *)
    inversion H; subst. intros sid E. rewrite pcof_set_task_same. cbn [t_pc with_pc].
    cbn in E. rewrite upd_same in E. cbn in E. inversion E; subst. reflexivity.
  - (* PO0b: second insert *)
    inversion H; subst. intros sid' E. assert (t_sid (tasks s t) = Some sid') as E0 by (cbn in E; rewrite upd_same in E; exact E).
    specialize (O sid' E0). subst sid. rewrite pcof_set_task_same. reflexivity.
  - (* PO1: the SYN is submitted *)
    inversion H; subst. intros sid' E. assert (t_sid (tasks s t) = Some sid') as E0 by (cbn in E; rewrite upd_same in E; exact E).
    specialize (O sid' E0). subst sid. rewrite pcof_set_task_same. reflexivity.
  - discriminate.
Qed.

(* a step of another task *)
Lemma open_ok_other s t s' u : Inv s -> step s t = Some s' -> u <> t -> open_ok s u -> open_ok s' u.
Proof.
  intros HI H Hne O sid E.
  pose proof (step_lin_grows s t s' HI H) as G.
  assert (t_sid (tasks s u) = Some sid) as E0.
  { destruct (step_keeps s t s' u H (fun X => False_ind _ (Hne X))) as [[A|A] _]; [rewrite A in E; exact E | congruence]. }
  specialize (O sid E0).
  destruct (step_others s t s' HI H u Hne) as [[A|[(k & f & A & B)|(a & k & A & B & _)]]|[(_ & A & [B|B])|(A & [B|[f B]])]].
  - rewrite A. destruct (pcof s u) as [ | k f| k f| k f| k f| k f| | | | | | | | | ]; try destruct k; try exact O; apply (in_lin_grows s _ _ G); exact O.
  - rewrite A in O. rewrite B. destruct k; try exact O; apply (in_lin_grows s _ _ G); exact O.
  - rewrite A in O. rewrite B. apply (in_lin_grows s _ _ G); exact O.
  - rewrite A in O. rewrite B. apply (in_lin_grows s _ _ G); exact O.
  - rewrite A in O. rewrite B. apply (in_lin_grows s _ _ G); exact O.
  - rewrite A in O. rewrite B. apply (in_lin_grows s _ _ G); exact O.
  - rewrite A in O. rewrite B. apply (in_lin_grows s _ _ G); exact O.
Qed.

Definition open_all (s : state) : Prop := forall u, open_ok s u.

Lemma step_open_all s t s' : Inv s -> open_all s -> step s t = Some s' -> closed s' = false -> open_all s'.
Proof.
  intros HI O H C u. destruct (Nat.eq_dec u t) as [->|Hne]; [eapply open_ok_self; eauto | eapply open_ok_other; eauto].
Qed.

(* everything in the channel log belongs to a stream whose SYN is already in the linearisation log *)
Definition pushed_ok (s : state) : Prop := forall u f, In (u, f) (pushed s) -> In (u, syn_frame (fsid f)) (lin s).

Lemma step_pushed_ok s t s' : Inv s -> open_all s -> pushed_ok s -> step s t = Some s' -> closed s' = false -> pushed_ok s'.
Proof.
  intros HI O P H C' u f Hin.
  pose proof (step_lin_grows s t s' HI H) as G.
  destruct (step_view s t s' HI H C') as [Q _ _|g Q _ _ _ _ _|g Q _ _ _ _|g Ei (sid & d & rest & _ & Es & ->) Pu _ _ _|_ _ _ Pu _ _ _ _|x g q _ _ _ _ Pu _ _ _ _|_ Q _ _ _ _ _];
    try (destruct (qs_fields _ _ Q) as (_ & Pu & _)); rewrite Pu in Hin; try (apply (in_lin_grows s _ _ G); apply P; exact Hin).
  apply in_app_or in Hin. destruct Hin as [Hin|[E|[]]]; [apply (in_lin_grows s _ _ G); apply P; exact Hin|].
  inversion E as [[E1 E2]]. rewrite <- E1. cbn [fsid psh_frame]. apply (in_lin_grows s _ _ G).
  specialize (O t sid Es). rewrite Ei in O. exact O.
Qed.

Section PumpSyn.
Variable p : tid.
Hypothesis p_not_recv : p <> rtid.

(* in the linearisation log, every frame the forwarding task has logged is preceded by the SYN of its stream *)
Definition syn_first (s : state) : Prop :=
  forall l1 l2 f, lin s = l1 ++ (p, f) :: l2 -> exists u, In (u, syn_frame (fsid f)) l1.

Lemma app_cons_snoc {A} (l l1 l2 : list A) (x y : A) :
  l ++ [x] = l1 ++ y :: l2 -> (l2 = [] /\ l1 = l /\ y = x) \/ exists l2', l2 = l2' ++ [x] /\ l = l1 ++ y :: l2'.
Proof.
  revert l. induction l1 as [|a l1 IH]; intros l E.
  - destruct l as [|b l]; cbn in E.
    + inversion E; subst. left. auto.
    + inversion E; subst. right. exists l. split; reflexivity.
  - destruct l as [|b l]; cbn in E.
    + inversion E as [[E1 E2]]. destruct l1; discriminate.
    + inversion E as [[E1 E2]]. subst a. destruct (IH l E2) as [(H1 & H2 & H3)|(l2' & H1 & H2)].
      * left. subst. auto.
      * right. exists l2'. subst. split; reflexivity.
Qed.

Lemma mine_in t l f : In f (mine t l) -> In (t, f) l.
Proof.
  unfold mine. intros H. apply in_map_iff in H. destruct H as ([u g] & E & Hin). cbn in E. subst g.
  apply filter_In in Hin. destruct Hin as [Hin Eq]. cbn in Eq. apply Nat.eqb_eq in Eq. subst u. exact Hin.
Qed.

Lemma step_syn_first s t s' :
  Inv s -> PF p s -> pushed_ok s -> order_ok s p -> syn_first s -> step s t = Some s' -> syn_first s'.
Proof.
  intros HI Pf Po Oo S H l1 l2 f E.
  destruct (step_lin_point s t s' HI H) as [L|(k & g & Pc & L)]; rewrite L in E; [apply (S l1 l2 f E)|].
  destruct (app_cons_snoc _ _ _ _ _ E) as [(_ & -> & Eq)|(l2' & _ & E2)]; [|apply (S l1 l2' f E2)].
  inversion Eq; subst t g.
  (* p appends f: f is the frame p has in hand, hence one of its submissions, hence pushed by some u *)
  assert (In f (t_sub (tasks s p))) as Hs.
  { unfold order_ok in Oo. rewrite <- Oo. apply in_or_app. right. destruct Pc as [-> | ->]; cbn; left; reflexivity. }
  assert (In f (map snd (pushed s))) as Hp.
  { rewrite <- (pf_fifo p s Pf). apply in_or_app. left. exact Hs. }
  apply in_map_iff in Hp. destruct Hp as ([u g] & Eg & Hin). cbn in Eg. subst g.
  exists u. apply Po. exact Hin.
Qed.

Theorem run_syn_first progs buf pend sched :
  only_pump (nth p progs []) -> (forall u, u <> p -> ~ In CPump (nth u progs [])) ->
  Forall (fun x => fst x <> p) pend ->
  let s := run (init progs buf pend) sched in
  closed s = false -> syn_first s /\ pushed_ok s.
Proof.
  intros A B Hp s C.
  assert (forall sc s0, Inv s0 -> PF p s0 -> open_all s0 -> pushed_ok s0 -> order_ok s0 p -> syn_first s0 ->
                           closed (run s0 sc) = false ->
                           syn_first (run s0 sc) /\ pushed_ok (run s0 sc)) as G.
  { clear s C. intros sc. induction sc as [|t sc IH]; intros s0 HI Pf Oa Po Oo S C; [split; assumption|].
    rewrite run_cons in *. unfold step_or_skip in *. destruct (step s0 t) as [s1|] eqn:E; [|apply IH; assumption].
    pose proof (run_open sc s1 C) as C1.
    apply IH; try assumption.
    - eapply step_inv; eauto.
    - eapply step_pf; eauto.
    - eapply step_open_all; eauto.
    - eapply step_pushed_ok; eauto.
    - destruct (Nat.eq_dec p t) as [->|Hne]; [eapply order_self; eauto | eapply order_other; eauto].
    - eapply step_syn_first; eauto. }
  apply G; try assumption.
  - apply inv_init.
  - apply pf_init; assumption.
  - intros u. apply open_ok_init.
  - intros u f H. destruct H.
  - apply order_init. exact Hp.
  - intros l1 l2 f E. cbn in E.
    assert (In (p, f) pend) as Hin by (rewrite E; apply in_or_app; right; left; reflexivity).
    rewrite Forall_forall in Hp. exfalso. apply (Hp _ Hin). reflexivity.
Qed.

End PumpSyn.
