(* ConcStall.v -- the stalled transport (known finding F4) inside the interleaving model Model/Conc.v.
   `stalled s`: the peer has stopped reading, every transport write and every shutdown stays pending (CStall).
   `writer.write_all(..).await` in write_frame is not bounded by any timer, and it runs under the writer mutex:
     1. as long as the transport has not stalled, nothing in the model can block while it holds a session lock
        (no_deadlock_live: the statement the property asks for);
     2. once a write is inside the stalled transport (`wedged`), that is for ever, under every schedule: the
        holder never moves, the lock is never released, the transport is never shut down, and every task queued
        on the writer mutex -- every close(), whatever its cause, included -- stays queued for ever
        (wedged_forever: the finding, for all programs and schedules, not one sampled run). *)
From Coq Require Import List NArith ZArith Lia Bool Arith.
From AnyTLS Require Import Bytes Cmd Generated Frame Conc ConcInv ConcLin ConcDeath.
Import ListNotations.
Arguments push_item : simpl never.
Arguments wake_pump_closed : simpl never.

(* ---- 1. without a stall the original statement holds ---- *)
Theorem no_deadlock_live s t :
  Inv s -> stalled s = false ->
  finished s t \/ (awaits_peer s t \/ awaits_app s t) \/ step s t <> None \/
  (waits_pc (pcof s t) = true /\ exists h, wr s = Some h /\ step s h <> None).
Proof.
  intros HI St. destruct (no_deadlock s t HI) as [A|[A|[A|[(W & h & E & [B|(B & _)])|(B & _)]]]]; auto.
  - right; right; right. split; [exact W|]. exists h. split; assumption.
  - congruence.
  - congruence.
Qed.

(* ---- 2. what a step of a task that does not hold the lock inside the transport leaves alone ---- *)
Lemma waiters_finish_w s t k r : waiters (finish_w s t k r) = waiters s.
Proof. destruct k, r; reflexivity. Qed.
Lemma waiters_finish_close s t a k : waiters (finish_close s t a k) = waiters s.
Proof. destruct a; [| destruct k |]; reflexivity. Qed.
Lemma waiters_enter_close s t a k : waiters (enter_close s t a k) = waiters s.
Proof. unfold enter_close. destruct (closed s); [apply waiters_finish_close | reflexivity]. Qed.
Lemma waiters_feed s ev : waiters (feed_ev s ev) = waiters s.
Proof.
  unfold feed_ev. destruct (negb (ralive s)); [reflexivity|].
  destruct ev;
    repeat match goal with
           | |- context [match ?x with _ => _ end] => destruct x
           end; try reflexivity;
    first [apply waiters_enter_close | rewrite waiters_enter_close; reflexivity].
Qed.
Lemma waiters_push s t f : waiters (push_item s t f) = waiters s.
Proof. exact (proj2 (pump_effect_locks _ _ (pump_effect_push s t f))). Qed.
Lemma waiters_wake s : waiters (wake_pump_closed s) = waiters s.
Proof. exact (proj2 (pump_effect_locks _ _ (pump_effect_wake s))). Qed.

Lemma shut_finish_w s t k r : shut (finish_w s t k r) = shut s.
Proof. destruct k, r; reflexivity. Qed.
Lemma shut_finish_close s t a k : shut (finish_close s t a k) = shut s.
Proof. destruct a; [| destruct k |]; reflexivity. Qed.
Lemma shut_enter_close s t a k : shut (enter_close s t a k) = shut s.
Proof. unfold enter_close. destruct (closed s); [apply shut_finish_close | reflexivity]. Qed.
Lemma shut_feed s ev : shut (feed_ev s ev) = shut s.
Proof.
  unfold feed_ev. destruct (negb (ralive s)); [reflexivity|].
  destruct ev;
    repeat match goal with
           | |- context [match ?x with _ => _ end] => destruct x
           end; try reflexivity;
    first [apply shut_enter_close | rewrite shut_enter_close; reflexivity].
Qed.
Lemma shut_shutdown_tr_stalled s : stalled s = true -> shut (shutdown_tr s) = shut s.
Proof. intros St. unfold shutdown_tr. rewrite St. reflexivity. Qed.

Definition not_in_write (p : pc) : bool := match p with PW4 _ _ => false | _ => true end.

(* the lock queue only grows, and only by the stepping task itself *)
Lemma step_waiters s t s' :
  step s t = Some s' -> not_in_write (pcof s t) = true ->
  waiters s' = waiters s \/ waiters s' = waiters s ++ [t].
Proof.
  intros H NW. unfold step in H. unfold pcof in NW.
  destruct (t_pc (tasks s t)) eqn:Epc; try discriminate.
  - destruct (t_prog (tasks s t)) as [|c rest]; [discriminate|].
    unfold start_call in H.
    set (s0 := set_task s t (with_prog (tasks s t) rest)) in *.
    left.
    destruct c;
      repeat match type of H with
             | context [match ?x with _ => _ end] => destruct x
             end; inversion H; subst; try reflexivity.
    + change (waiters (enter_close s0 t AfterClose WkPlain) = waiters s0). apply waiters_enter_close.
    + change (waiters (feed_ev s0 ev) = waiters s0). apply waiters_feed.
    + change (waiters (push_item s0 t (psh_frame n payload)) = waiters s0). apply waiters_push.
  - left. destruct (closed s); [|destruct (buffering s)]; inversion H; subst;
      [apply waiters_finish_w | reflexivity | reflexivity].
  - left. inversion H; subst. rewrite waiters_finish_w. reflexivity.
  - destruct (wr s); inversion H; subst; [right | left]; reflexivity.
  - left. inversion H; subst. reflexivity.
  - left. inversion H; subst. apply waiters_enter_close.
  - left. cbv zeta in H. inversion H; subst. change (waiters (wake_pump_closed s) = waiters s). apply waiters_wake.
  - destruct (wr s); inversion H; subst; [right; reflexivity | left].
    rewrite waiters_finish_close. apply waiters_shutdown_tr.
  - left. inversion H; subst. reflexivity.
  - left. inversion H; subst. reflexivity.
  - left. inversion H; subst. reflexivity.
Qed.

(* on a stalled transport no close() can shut anything down *)
Lemma step_shut_stalled s t s' :
  step s t = Some s' -> not_in_write (pcof s t) = true -> stalled s = true -> shut s' = shut s.
Proof.
  intros H NW St. unfold step in H. unfold pcof in NW.
  destruct (t_pc (tasks s t)) eqn:Epc; try discriminate.
  - destruct (t_prog (tasks s t)) as [|c rest]; [discriminate|].
    unfold start_call in H.
    set (s0 := set_task s t (with_prog (tasks s t) rest)) in *.
    destruct c;
      repeat match type of H with
             | context [match ?x with _ => _ end] => destruct x
             end; inversion H; subst; try reflexivity.
    + change (shut (enter_close s0 t AfterClose WkPlain) = shut s0). apply shut_enter_close.
    + change (shut (feed_ev s0 ev) = shut s0). apply shut_feed.
    + change (shut (push_item s0 t (psh_frame n payload)) = shut s0).
      destruct (flags_push s0 t (psh_frame n payload)) as (_ & B & _). exact B.
  - destruct (closed s); [|destruct (buffering s)]; inversion H; subst;
      [apply shut_finish_w | reflexivity | reflexivity].
  - inversion H; subst. rewrite shut_finish_w. reflexivity.
  - destruct (wr s); inversion H; subst; reflexivity.
  - inversion H; subst. reflexivity.
  - inversion H; subst. apply shut_enter_close.
  - cbv zeta in H. inversion H; subst. change (shut (wake_pump_closed s) = shut s).
    destruct (flags_wake s) as (_ & B & _). exact B.
  - destruct (wr s); inversion H; subst; [reflexivity|].
    rewrite shut_finish_close. apply shut_shutdown_tr_stalled. exact St.
  - inversion H; subst. reflexivity.
  - inversion H; subst. reflexivity.
  - inversion H; subst. reflexivity.
Qed.

(* ---- 3. a write inside the stalled transport: for ever ---- *)
Definition wedged (s : state) (h : tid) : Prop := wr s = Some h /\ in_transport s h.

Lemma wedged_holder_stuck s h : wedged s h -> step s h = None.
Proof.
  intros (_ & St & Sh & k & held & P). unfold step. unfold pcof in P. rewrite P, St, Sh. reflexivity.
Qed.

Lemma wedged_step s h t s' :
  Inv s -> wedged s h -> step s t = Some s' ->
  wedged s' h /\ forall w, In w (waiters s) -> In w (waiters s') /\ pcof s' w = pcof s w.
Proof.
  intros HI W H.
  assert (t <> h) as Hth.
  { intros ->. rewrite (wedged_holder_stuck s h W) in H. discriminate. }
  destruct W as (Ewr & St & Sh & k & held & P).
  assert (not_in_write (pcof s t) = true) as NW.
  { destruct (pcof s t) eqn:E; try reflexivity. exfalso. apply Hth.
    assert (wr s = Some t) as E2 by (apply (inv_holder s HI); rewrite E; reflexivity). congruence. }
  assert (holds_pc (pcof s h) = true) as Hh by (rewrite P; reflexivity).
  assert (Inv s') as HI' by (eapply step_inv; eauto).
  assert (wr s' = Some h /\ pcof s' h = pcof s h) as (Ewr' & P').
  { destruct (step_classify s t s' HI H) as [D E K|k' f' Pt _ _ _ _ E K|k' f' E0 _ _ _|k' f' Pt E0 _ _ _ _ _ _|k' held' Pt E0 _ _ _ _ _ _ _|k' held' Pt _ _ _ _ _].
    - split; [congruence | apply K; exact Hh].
    - split; [congruence | apply K; exact Hh].
    - congruence.
    - exfalso. apply Hth. congruence.
    - exfalso. apply Hth. congruence.
    - rewrite Pt in NW. discriminate. }
  split.
  - split; [exact Ewr'|]. split; [eapply step_stalled; eauto|]. split.
    + rewrite (step_shut_stalled s t s' H NW St). exact Sh.
    + exists k, held. rewrite P'. exact P.
  - intros w Hw.
    assert (In w (waiters s')) as Hw'.
    { destruct (step_waiters s t s' H NW) as [E|E]; rewrite E; [exact Hw | apply in_or_app; left; exact Hw]. }
    split; [exact Hw'|].
    assert (waits_pc (pcof s w) = true) as W1 by (apply (inv_wait s HI); exact Hw).
    assert (waits_pc (pcof s' w) = true) as W2 by (apply (inv_wait s' HI'); exact Hw').
    assert (w <> t) as Hwt.
    { intros ->. unfold step in H. unfold pcof in W1. destruct (t_pc (tasks s t)); discriminate. }
    destruct (step_others s t s' HI H w Hwt) as [[E|[(k' & f' & A & B)|(a & k' & A & B & _)]]|[(_ & A & _)|(A & _)]].
    + exact E.
    + rewrite B in W2. discriminate.
    + rewrite B in W2. discriminate.
    + rewrite A in W1. discriminate.
    + rewrite A in W1. discriminate.
Qed.

Theorem wedged_forever sched : forall s h,
  Inv s -> wedged s h ->
  let s' := run s sched in
  wedged s' h /\ forall w, In w (waiters s) -> In w (waiters s') /\ pcof s' w = pcof s w.
Proof.
  induction sched as [|t sched IH]; intros s h HI W; cbn [run fold_left].
  - split; [exact W | intros w Hw; split; [exact Hw | reflexivity]].
  - unfold step_or_skip. destruct (step s t) as [s1|] eqn:E.
    + destruct (wedged_step s h t s1 HI W E) as (W1 & K1).
      assert (Inv s1) as HI1 by (eapply step_inv; eauto).
      destruct (IH s1 h HI1 W1) as (W2 & K2). split; [exact W2|].
      intros w Hw. destruct (K1 w Hw) as (A & B). destruct (K2 w A) as (C & D).
      split; [exact C | rewrite <- B; exact D].
    + apply IH; assumption.
Qed.

(* what this means for the property: the session can be closed -- by its owner, by the receive task on EOF, an
   error or an Alert, by the liveness monitor -- and that close() never returns: it is in the lock queue for ever,
   the transport is never shut down, and the tasks queued behind it (writers that would get their error, other
   closers) are never released *)
Corollary wedged_close_never_returns s h w a k sched :
  Inv s -> wedged s h -> pcof s w = PC2wait a k ->
  let s' := run s sched in
  pcof s' w = PC2wait a k /\ shut s' = false /\ ~ quiescent_close s' /\ ~ finished s' w.
Proof.
  intros HI W P s'.
  assert (In w (waiters s)) as Hw by (apply (inv_wait s HI); rewrite P; reflexivity).
  destruct (wedged_forever sched s h HI W) as ((_ & _ & Sh & _) & K). fold s' in Sh, K.
  destruct (K w Hw) as (_ & E). rewrite P in E.
  split; [exact E | split; [exact Sh | split]].
  - intros Q. specialize (Q w). rewrite E in Q. discriminate.
  - intros (F & _). congruence.
Qed.

Corollary wedged_writer_never_returns s h w k f sched :
  Inv s -> wedged s h -> pcof s w = PW2wait k f ->
  pcof (run s sched) w = PW2wait k f.
Proof.
  intros HI W P.
  assert (In w (waiters s)) as Hw by (apply (inv_wait s HI); rewrite P; reflexivity).
  destruct (wedged_forever sched s h HI W) as (_ & K). destruct (K w Hw) as (_ & E). rewrite E. exact P.
Qed.

(* ---- what the stalled transport does NOT block: once close() has done its drain (nobody is between the flag and
   the drain), the tables hold late entries only and every stream handle's queue is closed -- whether or not the
   close() that drained is now stuck on the writer mutex behind the stalled write ---- *)
Definition drained (s : state) : Prop := forall x, is_pc1 (pcof s x) = false.

Theorem released_after_drain sched progs buf pend :
  let s := run (init progs buf pend) sched in
  closed s = true -> drained s ->
  (forall sid u, In (sid, u) (table s) -> late_entry s sid u) /\
  (forall sid u, In (sid, u) (rtable s) -> late_entry_r s sid u) /\
  (forall u sid, t_sid (tasks s u) = Some sid -> t_rclosed (tasks s u) = true \/ in_window_r (pcof s u) sid).
Proof.
  intros s C Dn.
  assert (Inv s /\ half_ok s /\ drained_ok s /\ reader_ok s) as (HI & Hh & D & R).
  { unfold s. clear s C Dn.
    apply (run_invariant (fun s => Inv s /\ half_ok s /\ drained_ok s /\ reader_ok s)).
    - intros s t s' HI (_ & Hh & D & R) H.
      split; [eapply step_inv; eauto | split; [eapply step_half_ok; eauto | split; [eapply step_drained_ok; eauto | eapply step_reader_ok; eauto]]].
    - apply inv_init.
    - split; [apply inv_init | split; [apply half_ok_init | split; [apply drained_ok_init | apply reader_ok_init]]]. }
  destruct (D C) as [[x A]|[T1 T2]]; [rewrite Dn in A; discriminate|].
  split; [exact T1 | split; [exact T2|]].
  intros u sid H. destruct (R u sid H) as [A|A]; [|left; exact A].
  destruct (T2 sid u A) as [W|[Sn _]]; [right; exact W | congruence].
Qed.
