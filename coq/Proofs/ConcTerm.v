(* ConcTerm.v -- every task finishes its program within a bound that depends only on that program:
   no schedule, however adversarial, makes a task take more than `budget` steps. Together with
   no_deadlock (ConcDeath.v) this is "never blocks forever" for the session's own machinery. *)
From Coq Require Import List NArith ZArith Lia Bool Arith.
From AnyTLS Require Import Bytes Cmd Generated Frame Conc ConcInv ConcLin ConcDeath.
Import ListNotations.
Local Open Scope nat_scope.

Definition pcw (p : pc) : nat :=
  match p with
  | PIdle => 0 | PW0 _ _ => 7 | PW1 _ _ => 1 | PW2 _ _ => 6 | PW2wait _ _ => 5 | PW3 _ _ => 5
  | PW4 _ _ => 4 | PE0 _ _ => 3 | PC1 _ _ => 2 | PC2 _ _ => 1 | PC2wait _ _ => 0 | PO1 _ => 8
  | PO0 => 10 | PO0b _ => 9 | PPwait => 8
  end.
Definition callw (c : call) : nat :=
  match c with
  | CWrite _ | CData _ => 8 | COpen => 11 | CClose => 3 | CPump => 9
  | CFeed _ => 4      (* 1 for the call itself + 3: an injected EOF / error / Alert sets the receive task in motion (ConcFair) *)
  | _ => 1
  end.
Fixpoint progw (p : list call) : nat := match p with [] => 0 | c :: r => callw c + progw r end.
Definition mu (s : state) (t : tid) : nat := pcw (pcof s t) + progw (t_prog (tasks s t)).

(* programs of other tasks are never touched *)
Lemma prog_finish_close s w a k u : t_prog (tasks (finish_close s w a k) u) = t_prog (tasks s u).
Proof.
  destruct a; [| destruct k |]; cbn; unfold upd; destruct (Nat.eqb u w) eqn:E; try reflexivity;
    apply Nat.eqb_eq in E; subst; reflexivity.
Qed.
Lemma prog_finish_w s w k r u : t_prog (tasks (finish_w s w k r) u) = t_prog (tasks s u).
Proof.
  destruct k, r; cbn; unfold upd; destruct (Nat.eqb u w) eqn:E; try reflexivity;
    apply Nat.eqb_eq in E; subst; reflexivity.
Qed.
Lemma prog_set_pc s w p u : t_prog (tasks (set_pc s w p) u) = t_prog (tasks s u).
Proof. cbn. unfold upd. destruct (Nat.eqb u w) eqn:E; try reflexivity. apply Nat.eqb_eq in E; subst; reflexivity. Qed.
Lemma prog_finish s w r u : t_prog (tasks (finish s w r) u) = t_prog (tasks s u).
Proof. cbn. unfold upd. destruct (Nat.eqb u w) eqn:E; try reflexivity. apply Nat.eqb_eq in E; subst; reflexivity. Qed.

Lemma prog_release_ws ws : forall s u, t_prog (tasks (release_ws ws s) u) = t_prog (tasks s u).
Proof.
  induction ws as [|w ws IH]; intros s u; cbn [release_ws]; [reflexivity|].
  destruct (t_pc (tasks s w)); try reflexivity.
  - apply (prog_set_pc (set_lock s (Some w) ws) w (PW3 k f) u).
  - rewrite IH. rewrite prog_finish_close, tasks_shutdown_tr. reflexivity.
Qed.

Lemma prog_drain tb ts u : t_prog (drain tb ts u) = t_prog (ts u).
Proof. apply (drain_keeps tb ts u). Qed.

Lemma prog_enter_close s w a k u : t_prog (tasks (enter_close s w a k) u) = t_prog (tasks s u).
Proof. unfold enter_close. destruct (closed s); [apply prog_finish_close | apply (prog_set_pc (set_closed s))]. Qed.

Lemma prog_set_task_keep s w v u : t_prog v = t_prog (tasks s w) -> t_prog (tasks (set_task s w v) u) = t_prog (tasks s u).
Proof. intros H. cbn. unfold upd. destruct (Nat.eqb u w) eqn:E; try reflexivity. apply Nat.eqb_eq in E; subst. exact H. Qed.

Lemma prog_feed s ev u : t_prog (tasks (feed_ev s ev) u) = t_prog (tasks s u).
Proof.
  unfold feed_ev. destruct (negb (ralive s)); [reflexivity|].
  destruct ev;
    repeat match goal with
           | |- context [match ?x with _ => _ end] => destruct x eqn:?
           end; try reflexivity;
    try (apply prog_set_task_keep; reflexivity);
    try apply prog_enter_close; try apply prog_set_pc;
    try (rewrite prog_enter_close; apply (mark_keeps (table s) (tasks s) u)).
Qed.

Lemma prog_push s t f u : t_prog (tasks (push_item s t f) u) = t_prog (tasks s u).
Proof.
  unfold push_item. destruct (pump_owner s) as [p|]; [|reflexivity].
  destruct (is_ppwait (t_pc (tasks s p))); [destruct (closed s)|]; try reflexivity.
  - apply (prog_finish (set_pump s (dq s) (pushed s ++ [(t, f)]) (pump_owner s) (pump_done s)) p ResClosed u).
  - apply (prog_set_task_keep (set_pump s (dq s) (pushed s ++ [(t, f)]) (pump_owner s) (pump_done s)) p). reflexivity.
Qed.
Lemma prog_wake s u : t_prog (tasks (wake_pump_closed s) u) = t_prog (tasks s u).
Proof.
  unfold wake_pump_closed. destruct (closed s); [|reflexivity]. destruct (pump_owner s) as [p|]; [|reflexivity].
  destruct (is_ppwait (t_pc (tasks s p))); [|reflexivity]. apply (prog_finish s p ResClosed u).
Qed.
Arguments push_item : simpl never.
Arguments wake_pump_closed : simpl never.

Ltac progtac Hw :=
  cbn [tasks set_pump set_dq set_pump_done];
  repeat first [ rewrite prog_finish_w | rewrite prog_finish | rewrite prog_set_pc | rewrite prog_finish_close
               | rewrite prog_enter_close | rewrite prog_feed | rewrite prog_push | rewrite prog_wake ];
  cbn [tasks set_task set_tasks set_table set_rtable set_buffering set_failing set_stalled set_flags set_queue set_lock set_wire set_shut set_closed set_pump set_dq set_pump_done];
  rewrite ?tasks_shutdown_tr;
  rewrite ?upd_other by exact Hw; try reflexivity.

Theorem step_other_prog s t s' w :
  step s t = Some s' -> w <> t -> t_prog (tasks s' w) = t_prog (tasks s w).
Proof.
  intros H Hw. unfold step in H.
  destruct (t_pc (tasks s t)) eqn:Epc.
  - destruct (t_prog (tasks s t)) as [|c rest]; [discriminate|].
    unfold start_call in H.
    destruct c;
      repeat match type of H with
             | context [match ?x with _ => _ end] => destruct x eqn:?
             end; inversion H; subst; progtac Hw.
  - destruct (closed s); [|destruct (buffering s)]; inversion H; subst; progtac Hw.
  - inversion H; subst; progtac Hw.
  - destruct (wr s); inversion H; subst; progtac Hw.
  - discriminate.
  - inversion H; subst; progtac Hw.
  - destruct (stalled s && negb (shut s)); [discriminate|].
    destruct (failing s || shut s); inversion H; subst.
    + rewrite prog_set_pc. unfold release. rewrite prog_release_ws. reflexivity.
    + rewrite prog_finish_w. unfold release. rewrite prog_release_ws. reflexivity.
  - inversion H; subst; progtac Hw.
  - cbv zeta in H. inversion H; subst. rewrite prog_set_pc. cbn [tasks set_table set_tasks set_rtable drain_state]. rewrite prog_drain. apply prog_wake.
  - destruct (wr s); inversion H; subst; progtac Hw.
  - discriminate.
  - inversion H; subst; progtac Hw.
  - inversion H; subst; progtac Hw.
  - inversion H; subst; progtac Hw.
  - discriminate.
Qed.

Lemma pcof_of_pcu s s' t p : pc_update s s' t p -> pcof s' t = p.
Proof. intros (_ & _ & E & _). exact E. Qed.

Lemma tasks_release_self s t : Inv s -> wr s = Some t -> tasks (release s) t = tasks s t.
Proof.
  intros HI E. unfold release.
  destruct (release_ws_released (waiters s) s t (leaving_of_inv s t HI E)) as (_ & _ & _ & _ & _ & R & _). exact R.
Qed.

Theorem step_self_mu s t s' : Inv s -> step s t = Some s' -> mu s' t < mu s t.
Proof.
  intros HI H. unfold step in H.
  assert (mu s t = pcw (t_pc (tasks s t)) + progw (t_prog (tasks s t))) as Em by reflexivity. rewrite Em. clear Em.
  destruct (t_pc (tasks s t)) eqn:Epc.
  - destruct (t_prog (tasks s t)) as [|c rest] eqn:Eprog; [discriminate|].
    unfold start_call in H. set (s0 := set_task s t (with_prog (tasks s t) rest)) in *.
    assert (t_prog (tasks s0 t) = rest) as P0 by (unfold s0; cbn; rewrite upd_same; reflexivity).
    cbn [progw pcw].
    destruct c;
      repeat match type of H with
             | context [match ?x with _ => _ end] => destruct x eqn:?
             end; inversion H; subst s'; unfold mu;
      try (rewrite (pcof_of_pcu _ _ _ _ (pcu_finish _ t _)), prog_finish; cbn [pcw callw];
           try (cbn [tasks set_task set_tasks set_buffering set_failing set_stalled set_flags]; rewrite ?upd_same; cbn [t_prog with_verdict with_rq with_prog]);
           rewrite ?P0; lia).
    + rewrite (pcof_of_pcu _ _ _ _ (pcu_set_task s0 t _)). cbn. rewrite upd_same. cbn. lia.
    + rewrite (pcof_of_pcu _ _ _ _ (pcu_set_task s0 t _)). cbn. rewrite upd_same. cbn. lia.
    + rewrite (pcof_of_pcu _ _ _ _ (pcu_set_task _ t _)). cbn. rewrite upd_same. cbn. lia.
    + (* CClose *) rewrite prog_enter_close, P0. unfold enter_close. destruct (closed s0).
      * rewrite pcof_finish_close_same. cbn. lia.
      * rewrite (pcof_of_pcu _ _ _ _ (pcu_set_pc _ t _)). cbn. lia.
    + (* CFeed *) rewrite (pcof_of_pcu _ _ _ _ (pcu_finish _ t _)), prog_finish, prog_feed, P0. cbn. lia.
    + (* CSend *) rewrite (pcof_of_pcu _ _ _ _ (pcu_finish _ t _)), prog_finish, prog_push, P0. cbn. lia.
    + (* CPump: parks in recv() *)
      rewrite (pcof_of_pcu _ _ _ _ (pcu_set_task s0 t _)). cbn. rewrite upd_same. cbn. lia.
    + (* CPump: the closed flag is seen *)
      match goal with |- context [set_pump_done (finish ?X t ?r)] =>
        change (pcof (set_pump_done (finish X t r)) t) with (pcof (finish X t r) t);
        change (tasks (set_pump_done (finish X t r)) t) with (tasks (finish X t r) t);
        rewrite (pcof_of_pcu _ _ _ _ (pcu_finish X t r)), prog_finish end.
      cbn. rewrite upd_same. cbn. lia.
    + (* CPump: submits the frame *)
      match goal with |- context [set_task ?X t ?v] => rewrite (pcof_of_pcu _ _ _ _ (pcu_set_task X t v)) end.
      cbn. rewrite upd_same. cbn. lia.
    + (* CPump: takes the receiver *)
      rewrite (pcof_of_pcu _ _ _ _ (pcu_finish _ t _)), prog_finish. cbn. rewrite upd_same. cbn. lia.
  - destruct (closed s); [|destruct (buffering s)]; inversion H; subst; unfold mu.
    + rewrite (pcof_of_pcu _ _ _ _ (pcu_finish_w s t k _)), prog_finish_w. cbn. lia.
    + rewrite (pcof_of_pcu _ _ _ _ (pcu_set_task s t _)). cbn. rewrite upd_same. destruct k; cbn; lia.
    + rewrite (pcof_of_pcu _ _ _ _ (pcu_set_task s t _)). cbn. rewrite upd_same. destruct k; cbn; lia.
  - inversion H; subst; unfold mu. rewrite (pcof_of_pcu _ _ _ _ (pcu_finish_w _ t k _)), prog_finish_w. cbn. lia.
  - destruct (wr s); inversion H; subst; unfold mu;
      rewrite (pcof_of_pcu _ _ _ _ (pcu_set_pc _ t _)), prog_set_pc; cbn; lia.
  - discriminate.
  - inversion H; subst; unfold mu. rewrite (pcof_of_pcu _ _ _ _ (pcu_set_pc _ t _)), prog_set_pc. cbn. lia.
  - assert (wr s = Some t) as Ewr by (apply (inv_holder s HI); unfold pcof; rewrite Epc; reflexivity).
    destruct (stalled s && negb (shut s)); [discriminate|].
    destruct (failing s || shut s); inversion H; subst; unfold mu.
    + rewrite (pcof_of_pcu _ _ _ _ (pcu_set_pc _ t _)), prog_set_pc. unfold release. rewrite prog_release_ws. cbn. lia.
    + rewrite (pcof_of_pcu _ _ _ _ (pcu_finish_w _ t k _)), prog_finish_w. unfold release. rewrite prog_release_ws. cbn. lia.
  - inversion H; subst; unfold mu. rewrite prog_enter_close. unfold enter_close. destruct (closed s).
    + rewrite pcof_finish_close_same. cbn. lia.
    + rewrite (pcof_of_pcu _ _ _ _ (pcu_set_pc _ t _)). cbn. lia.
  - cbv zeta in H. inversion H; subst; unfold mu. rewrite (pcof_of_pcu _ _ _ _ (pcu_set_pc _ t _)), prog_set_pc. cbn [tasks set_table set_tasks set_rtable drain_state].
    rewrite prog_drain, prog_wake. cbn. lia.
  - destruct (wr s); inversion H; subst; unfold mu.
    + rewrite (pcof_of_pcu _ _ _ _ (pcu_set_pc _ t _)), prog_set_pc. cbn. lia.
    + rewrite pcof_finish_close_same, prog_finish_close, tasks_shutdown_tr. cbn. lia.
  - discriminate.
  - inversion H; subst; unfold mu. rewrite (pcof_of_pcu _ _ _ _ (pcu_set_task _ t _)). cbn. rewrite upd_same. cbn. lia.
  - inversion H; subst; unfold mu. rewrite (pcof_of_pcu _ _ _ _ (pcu_set_task _ t _)). cbn. rewrite upd_same. cbn. lia.
  - inversion H; subst; unfold mu. rewrite (pcof_of_pcu _ _ _ _ (pcu_set_task s t _)). cbn. rewrite upd_same. cbn. lia.
  - discriminate.
Qed.

Theorem step_other_mu s t s' w :
  Inv s -> step s t = Some s' -> w <> t -> w <> rtid -> mu s' w <= mu s w.
Proof.
  intros HI H Hw Hr. unfold mu. rewrite (step_other_prog s t s' w H Hw).
  destruct (step_others s t s' HI H w Hw) as [[E|[(k & f & A & B)|(a & k & A & B & _)]]|[(A & _)|(A & [B|[f B]])]].
  - rewrite E. lia.
  - rewrite A, B. cbn. lia.
  - rewrite A, B. cbn. lia.
  - contradiction.
  - rewrite A, B. cbn. lia.
  - rewrite A, B. cbn. lia.
Qed.

(* number of steps task t actually takes under a schedule *)
Fixpoint steps_of (t : tid) (s : state) (sched : list tid) : nat :=
  match sched with
  | [] => 0
  | u :: r =>
      match step s u with
      | Some s' => (if Nat.eqb u t then 1 else 0) + steps_of t s' r
      | None => steps_of t s r
      end
  end.

Theorem bounded_steps t : t <> rtid -> forall sched s,
  Inv s -> steps_of t s sched + mu (run s sched) t <= mu s t.
Proof.
  intros Hr. induction sched as [|u sched IH]; intros s HI.
  - cbn. lia.
  - rewrite run_cons. cbn [steps_of]. unfold step_or_skip. destruct (step s u) as [s1|] eqn:E.
    + specialize (IH s1 (step_inv s u s1 HI E)).
      destruct (Nat.eqb_spec u t) as [->|Hne].
      * pose proof (step_self_mu s t s1 HI E). lia.
      * pose proof (step_other_mu s u s1 t HI E (not_eq_sym Hne) Hr). lia.
    + apply IH. exact HI.
Qed.

(* in terms of the program alone: a fresh task never takes more than progw(program) steps *)
Corollary budget progs buf pend sched t :
  t <> rtid -> steps_of t (init progs buf pend) sched <= progw (nth t progs []).
Proof.
  intros Hr. pose proof (bounded_steps t Hr sched (init progs buf pend) (inv_init progs buf pend)) as B.
  unfold mu at 2 in B. cbn in B. lia.
Qed.
