(* DestProofs.v -- lemmas behind C07 part (a) (destination codec, UDP initial request, routing) and
   reused by C15 (target of the association) and C16 (SOCKS5 request). *)
From Coq Require Import List NArith ZArith Lia Bool.
From AnyTLS Require Import Bytes Reader ReaderProg Generated Dest BytesFacts ReaderProofs.
Import ListNotations.
Open Scope N_scope.
Ltac Zify.zify_post_hook ::= Z.to_euclidean_division_equations.

Definition wf_dest (d : dest) : Prop :=
  match d with
  | DV4 a => lenN a = 4
  | DV6 a => lenN a = 16
  | DName n => 1 <= lenN n <= 255 /\ utf8_valid n = true
  end.

Lemma wf_destb_wf d : wf_destb d = true -> wf_dest d.
Proof.
  destruct d as [a|a|n]; cbn [wf_destb wf_dest]; intros H;
    repeat (apply andb_true_iff in H; destruct H as [H ?]).
  - apply N.eqb_eq in H. exact H.
  - apply N.eqb_eq in H. exact H.
  - apply N.leb_le in H. apply N.leb_le in H2. auto.
Qed.

(* ---- building blocks ---- *)
Lemma run_exact_app {A} n e (k : bytes -> prog A) (a r : bytes) :
  lenN a = n -> run_bytes (PExact n e k) (a ++ r) = run_bytes (k a) r.
Proof.
  intros Hl. cbn [run_bytes]. rewrite lenN_app.
  destruct (N.leb_spec n (lenN a + lenN r)); [|lia].
  rewrite <- Hl, takeN_app_exact, dropN_app_exact. reflexivity.
Qed.

Lemma de16_of_be16 p : p < 65536 -> de16_of (be16 p) = p.
Proof. intros H. unfold de16_of, byte_at, be16. cbn [nth]. apply de16_be16. exact H. Qed.

Lemma port_k_ok {A} (f : N -> A) p rest :
  p < 65536 -> run_bytes (port_k f) (be16 p ++ rest) = Accept (f p) rest.
Proof.
  intros H. unfold port_k. rewrite run_exact_app by reflexivity.
  cbn [run_bytes]. rewrite de16_of_be16 by exact H. reflexivity.
Qed.

Lemma name_k_ok {A} (k : bytes -> prog A) n r :
  1 <= lenN n <= 255 -> utf8_valid n = true ->
  run_bytes (name_k k) (u8_of (lenN n) :: n ++ r) = run_bytes (k n) r.
Proof.
  intros Hl Hu. unfold name_k.
  change (u8_of (lenN n) :: n ++ r) with ([u8_of (lenN n)] ++ n ++ r).
  rewrite run_exact_app by reflexivity.
  unfold byte_at. cbn [nth]. unfold u8_of. replace (lenN n mod 256) with (lenN n) by lia.
  destruct (N.eqb_spec (lenN n) 0); [lia|]. destruct (N.ltb_spec 255 (lenN n)); [lia|].
  cbn [orb]. rewrite run_exact_app by reflexivity. rewrite Hu. reflexivity.
Qed.

Lemma addr_k_ok {A} (k : dest -> prog A) d r :
  wf_dest d ->
  run_bytes (addr_k (match d with DV4 _ => atyp_v4 | DV6 _ => atyp_v6 | DName _ => atyp_name end) k)
            (match d with DV4 a => a | DV6 a => a | DName n => u8_of (lenN n) :: n end ++ r)
  = run_bytes (k d) r.
Proof.
  destruct d as [a|a|n]; cbn [wf_dest]; intros Hw; unfold addr_k, atyp_v4, atyp_v6, atyp_name; cbn [N.eqb Pos.eqb].
  - apply (run_exact_app 4 E_EOF (fun a => k (DV4 a))). exact Hw.
  - apply (run_exact_app 16 E_EOF (fun a => k (DV6 a))). exact Hw.
  - destruct Hw as [Hl Hu]. cbn [app]. apply (name_k_ok (fun d => k (DName d))); assumption.
Qed.

(* ---- round trips ---- *)
Lemma dest_roundtrip d p rest :
  wf_dest d -> p < 65536 -> dest_decode (dest_wire d p ++ rest) = Accept (d, p) rest.
Proof.
  intros Hw Hp. unfold dest_decode, dest_prog.
  pose proof (addr_k_ok (fun d => port_k (fun p => (d, p))) d (be16 p ++ rest) Hw) as Hk.
  destruct d as [a|a|n]; unfold dest_wire; cbn [app run_bytes]; rewrite <- ?app_assoc;
    cbn [app] in *; rewrite Hk; apply port_k_ok; exact Hp.
Qed.

Lemma udp_init_roundtrip d p rest :
  wf_dest d -> p < 65536 -> udp_init_decode (udp_init_encode d p ++ rest) = Accept (d, p) rest.
Proof.
  intros Hw Hp. unfold udp_init_decode, udp_init_prog, udp_init_encode.
  change ((1 :: dest_wire d p) ++ rest) with ([1] ++ dest_wire d p ++ rest).
  rewrite run_exact_app by reflexivity. unfold byte_at at 1. cbn [nth N.eqb Pos.eqb].
  pose proof (addr_k_ok (fun d => port_k (fun p => (d, p))) d (be16 p ++ rest) Hw) as Hk.
  destruct d as [a|a|n]; unfold dest_wire; cbn [app]; rewrite <- ?app_assoc; cbn [app] in *.
  - change (atyp_v4 :: a ++ be16 p ++ rest) with ([atyp_v4] ++ a ++ be16 p ++ rest).
    rewrite run_exact_app by reflexivity. unfold byte_at. cbn [nth]. rewrite Hk. apply port_k_ok; exact Hp.
  - change (atyp_v6 :: a ++ be16 p ++ rest) with ([atyp_v6] ++ a ++ be16 p ++ rest).
    rewrite run_exact_app by reflexivity. unfold byte_at. cbn [nth]. rewrite Hk. apply port_k_ok; exact Hp.
  - change (atyp_name :: u8_of (lenN n) :: n ++ be16 p ++ rest) with ([atyp_name] ++ u8_of (lenN n) :: n ++ be16 p ++ rest).
    rewrite run_exact_app by reflexivity. unfold byte_at. cbn [nth]. rewrite Hk. apply port_k_ok; exact Hp.
Qed.

(* the client's encoder composed with the server's decoder *)
Section Client.
Variable parse_v4 parse_v6 : bytes -> option bytes.

Lemma client_roundtrip host p rest :
  wf_dest (classify parse_v4 parse_v6 host) -> p < 65536 ->
  exists w, client_encode parse_v4 parse_v6 host p = Some w /\
            dest_decode (w ++ rest) = Accept (classify parse_v4 parse_v6 host, p) rest.
Proof.
  intros Hw Hp. unfold client_encode.
  destruct (classify parse_v4 parse_v6 host) as [a|a|n] eqn:E.
  - eexists. split; [reflexivity|]. apply dest_roundtrip; assumption.
  - eexists. split; [reflexivity|]. apply dest_roundtrip; assumption.
  - destruct Hw as [Hl Hu]. destruct (N.leb_spec (lenN n) 255); [|lia].
    eexists. split; [reflexivity|]. apply dest_roundtrip; [split|]; assumption.
Qed.

Lemma client_encode_too_long host p :
  parse_v4 host = None -> parse_v6 host = None -> 255 < lenN host ->
  client_encode parse_v4 parse_v6 host p = None.
Proof.
  intros H4 H6 Hl. unfold client_encode, classify. rewrite H4, H6.
  destruct (N.leb_spec (lenN host) 255); [lia | reflexivity].
Qed.

(* names are sent as they are: a host that is not an IP literal is decoded to the same bytes *)
Lemma classify_name host : parse_v4 host = None -> parse_v6 host = None ->
  classify parse_v4 parse_v6 host = DName host.
Proof. intros H4 H6. unfold classify. rewrite H4, H6. reflexivity. Qed.
End Client.

(* ---- any fragmentation of the stream that carries the destination ---- *)
Lemma dest_chunking d p rest chunks closed :
  wf_dest d -> p < 65536 -> concat chunks = dest_wire d p ++ rest ->
  exists st', run_rd dest_prog (rd_of_chunks chunks closed) = (st', SDone (d, p)) /\
              rd_pending_bytes st' = rest /\ rclosed st' = closed.
Proof.
  intros Hw Hp Hc.
  destruct (run_rd_chunks_rest dest_prog chunks closed (d, p) rest) as (st' & H1 & H2 & H3 & _).
  - rewrite Hc. apply dest_roundtrip; assumption.
  - exists st'. auto.
Qed.

Lemma udp_init_chunking d p rest chunks closed :
  wf_dest d -> p < 65536 -> concat chunks = udp_init_encode d p ++ rest ->
  exists st', run_rd udp_init_prog (rd_of_chunks chunks closed) = (st', SDone (d, p)) /\
              rd_pending_bytes st' = rest /\ rclosed st' = closed.
Proof.
  intros Hw Hp Hc.
  destruct (run_rd_chunks_rest udp_init_prog chunks closed (d, p) rest) as (st' & H1 & H2 & H3 & _).
  - rewrite Hc. apply udp_init_roundtrip; assumption.
  - exists st'. auto.
Qed.

(* ---- routing ---- *)
Lemma is_prefixb_spec m : forall n, is_prefixb m n = true <-> exists c, n = m ++ c.
Proof.
  induction m as [|x m IH]; intros n; cbn [is_prefixb].
  - split; [intros _; exists n; reflexivity | reflexivity].
  - destruct n as [|y n].
    + split; [discriminate | intros [c Hc]; discriminate].
    + rewrite andb_true_iff, N.eqb_eq, IH. split.
      * intros [-> [c ->]]. exists c. reflexivity.
      * intros [c Hc]. cbn [app] in Hc. inversion Hc; subst. split; [reflexivity | exists c; reflexivity].
Qed.

Definition is_infix (m n : bytes) : Prop := exists a c, n = a ++ m ++ c.

Lemma is_infixb_spec m : forall n, is_infixb m n = true <-> is_infix m n.
Proof.
  induction n as [|y n IH]; cbn [is_infixb]; rewrite orb_true_iff, is_prefixb_spec.
  - split.
    + intros [[c Hc]|Hf]; [|discriminate]. exists [], c. exact Hc.
    + intros (a & c & Hc). left. destruct a as [|z a]; [|discriminate]. exists c. exact Hc.
  - rewrite IH. split.
    + intros [[c Hc]|(a & c & Hc)]; [exists [], c; exact Hc | exists (y :: a), c; cbn [app]; congruence].
    + intros (a & c & Hc). destruct a as [|z a].
      * left. exists c. exact Hc.
      * right. cbn [app] in Hc. inversion Hc; subst. exists a, c. reflexivity.
Qed.

Lemma route_udp_iff d :
  route d = RUdp <-> exists n, d = DName n /\ is_infix udp_magic_infix n.
Proof.
  destruct d as [a|a|n]; cbn [route].
  - split; [discriminate | intros (n & Hn & _); discriminate].
  - split; [discriminate | intros (n & Hn & _); discriminate].
  - destruct (is_infixb udp_magic_infix n) eqn:E.
    + split; [|reflexivity]. intros _. exists n. split; [reflexivity|]. apply is_infixb_spec. exact E.
    + split; [discriminate|]. intros (n' & Hn & Hi). inversion Hn; subst.
      apply is_infixb_spec in Hi. congruence.
Qed.

(* the address the client uses for an association is routed to the UDP handler, and is a legal name *)
Lemma magic_addr_routes_udp : route (DName udp_magic_addr) = RUdp /\ wf_dest (DName udp_magic_addr).
Proof. split; [vm_compute; reflexivity|]. cbn [wf_dest]. split; [vm_compute; split; discriminate | vm_compute; reflexivity]. Qed.
