(* DnsProofs.v -- lemmas behind C07 part (b): the resolver cache never changes the port/host outcome. *)
From Coq Require Import List NArith ZArith Lia Bool.
From AnyTLS Require Import Bytes Generated FactsCore FactsParsers DnsCache BytesFacts ReaderProofs.
Import ListNotations.
Open Scope N_scope.

(* ---- association list ---- *)
Lemma bytes_eqb_sym a b : bytes_eqb a b = bytes_eqb b a.
Proof.
  destruct (bytes_eqb a b) eqn:E1, (bytes_eqb b a) eqn:E2; try reflexivity.
  - apply bytes_eqb_eq in E1. subst. rewrite bytes_eqb_refl in E2. discriminate.
  - apply bytes_eqb_eq in E2. subst. rewrite bytes_eqb_refl in E1. discriminate.
Qed.

Lemma c_find_remove c h h' :
  c_find (c_remove c h) h' = if bytes_eqb h h' then None else c_find c h'.
Proof.
  induction c as [|[k e] c IH]; cbn [c_remove c_find].
  - destruct (bytes_eqb h h'); reflexivity.
  - destruct (bytes_eqb k h) eqn:E1.
    + apply bytes_eqb_eq in E1. subst k. rewrite IH. destruct (bytes_eqb h h'); reflexivity.
    + cbn [c_find]. destruct (bytes_eqb k h') eqn:E2; [|exact IH].
      apply bytes_eqb_eq in E2. subst k. rewrite bytes_eqb_sym, E1. reflexivity.
Qed.

Lemma c_find_insert c h e h' :
  c_find (c_insert c h e) h' = if bytes_eqb h h' then Some e else c_find c h'.
Proof.
  unfold c_insert. cbn [c_find]. destruct (bytes_eqb h h') eqn:E; [reflexivity|].
  rewrite c_find_remove, E. reflexivity.
Qed.

(* ---- sorting keeps the elements ---- *)
Lemma ins_sorted_in a x l : In x (ins_sorted a l) <-> x = a \/ In x l.
Proof.
  induction l as [|b l IH]; cbn [ins_sorted In].
  - split; [intros [H|[]]; auto | intros [H|[]]; auto].
  - destruct (addr_leb a b); cbn [In]; [split; intros [H|H]; auto|].
    rewrite IH. tauto.
Qed.

Lemma sort_addrs_in x l : In x (sort_addrs l) <-> In x l.
Proof.
  induction l as [|a l IH]; cbn [sort_addrs fold_right In]; [tauto|].
  fold (sort_addrs l). rewrite ins_sorted_in, IH. split; intros [H|H]; auto.
Qed.

Lemma sorted_fill_in resolved port i p :
  In (i, p) (sort_addrs (map (fun i => (i, port)) resolved)) -> p = port /\ In i resolved.
Proof.
  intros H. apply (proj1 (sort_addrs_in _ _)) in H. apply in_map_iff in H. destruct H as (j & Hj & Hin).
  inversion Hj; subst. auto.
Qed.

Lemma cache_get_in c now host i p :
  cache_get c now host = Some (i, p) ->
  exists e, c_find c host = Some e /\ In (i, p) (c_addrs e) /\ (now <= c_expires e)%Z.
Proof.
  unfold cache_get. destruct (c_find c host) as [e|]; [|discriminate].
  destruct (Z.leb_spec now (c_expires e)) as [Hle|Hgt]; [|discriminate]. cbn [andb].
  destruct (negb (lenN (c_addrs e) =? 0)); [|discriminate].
  intros Hn. apply nth_error_In in Hn. exists e. auto.
Qed.

Section Dns.
Variable parse_ip : bytes -> option ip.
Variable resolve : Z -> bytes -> list ip.

(* ---- the port of every answer is the port of its own request (no hypothesis on times) ---- *)
Lemma dns_request_port c now host port c' i p :
  dns_request parse_ip resolve c now host port = (c', Some (i, p)) -> p = port.
Proof.
  unfold dns_request. destruct (parse_ip host) as [j|].
  - intros H. inversion H; subst. reflexivity.
  - destruct (cache_get c now host) as [[j p0]|].
    + intros H. inversion H; subst. reflexivity.
    + destruct (sort_addrs (map (fun i0 => (i0, port)) (resolve now host))) as [|a rest] eqn:E; [discriminate|].
      intros H. inversion H; subst.
      assert (Hin : In (i, p) (sort_addrs (map (fun i0 => (i0, port)) (resolve now host)))) by (rewrite E; left; reflexivity).
      apply sorted_fill_in in Hin. tauto.
Qed.

Lemma dns_run_port h : forall c a i p,
  In a (dns_run parse_ip resolve c h) -> a_res a = Some (i, p) -> p = a_port a.
Proof.
  induction h as [|[t op] h IH]; intros c a i p Hin Hr; [contradiction|].
  destruct op as [host port|]; cbn [dns_run] in Hin.
  - destruct (dns_request parse_ip resolve c t host port) as [c' r] eqn:E.
    destruct Hin as [<-|Hin]; [|eapply IH; eauto].
    cbn [a_res a_port] in *. subst r. eapply dns_request_port. exact E.
  - eapply IH; eauto.
Qed.

(* ---- every answer is an address of the requested host from a fill still in force ---- *)
Variable c0 : cache.     (* the cache the history starts from: arbitrary (this covers seeded entries) *)

Definition entry_ok (tcur : Z) (host : bytes) (e : centry) : Prop :=
  forall i p0, In (i, p0) (c_addrs e) ->
    (exists t0, (t0 <= tcur)%Z /\ c_expires e = (t0 + dns_ttl)%Z /\ In i (resolve t0 host)) \/
    (exists e0, c_find c0 host = Some e0 /\ In i (map fst (c_addrs e0)) /\ c_expires e = c_expires e0).

Definition cache_ok (tcur : Z) (c : cache) : Prop :=
  forall host e, c_find c host = Some e -> entry_ok tcur host e.

Lemma cache_ok_c0 t : cache_ok t c0.
Proof.
  intros host e Hf i p0 Hin. right. exists e. split; [exact Hf|]. split; [|reflexivity].
  apply in_map_iff. exists (i, p0). auto.
Qed.

Lemma cache_ok_nil t : cache_ok t [].
Proof. intros host e Hf. discriminate. Qed.

Lemma cache_ok_mono t t' c : (t <= t')%Z -> cache_ok t c -> cache_ok t' c.
Proof.
  intros Hle Hok host e Hf i p0 Hin. destruct (Hok host e Hf i p0 Hin) as [(t0 & H1 & H2 & H3)|H]; [left|right; exact H].
  exists t0. split; [lia | auto].
Qed.

Lemma cache_ok_advance t c host : cache_ok t c -> cache_ok t (cache_advance c host).
Proof.
  intros Hok. unfold cache_advance. destruct (c_find c host) as [e|] eqn:E; [|exact Hok].
  intros h' e' Hf. rewrite c_find_insert in Hf. destruct (bytes_eqb host h') eqn:Eh.
  - apply bytes_eqb_eq in Eh. subst h'. inversion Hf; subst. exact (Hok host e E).
  - exact (Hok h' e' Hf).
Qed.

Lemma cache_ok_fill t c host port :
  cache_ok t c ->
  cache_ok t (cache_fill c t host (sort_addrs (map (fun i => (i, port)) (resolve t host)))).
Proof.
  intros Hok h' e' Hf. unfold cache_fill in Hf. rewrite c_find_insert in Hf.
  destruct (bytes_eqb host h') eqn:Eh.
  - apply bytes_eqb_eq in Eh. subst h'. inversion Hf; subst. intros i p0 Hin. cbn [c_addrs c_expires] in *.
    apply sorted_fill_in in Hin. left. exists t. split; [lia|]. tauto.
  - exact (Hok h' e' Hf).
Qed.

Definition justified (a : answer) : Prop :=
  match a_res a with
  | None => True
  | Some (i, p) =>
      p = a_port a /\
      (parse_ip (a_host a) = Some i \/
       (exists t0, (t0 <= a_time a <= t0 + dns_ttl)%Z /\ In i (resolve t0 (a_host a))) \/
       (exists e0, c_find c0 (a_host a) = Some e0 /\ In i (map fst (c_addrs e0)) /\ (a_time a <= c_expires e0)%Z))
  end.

Lemma dns_request_ok tprev c t host port c' r :
  cache_ok tprev c -> (tprev <= t)%Z ->
  dns_request parse_ip resolve c t host port = (c', r) ->
  cache_ok t c' /\ justified {| a_time := t; a_host := host; a_port := port; a_res := r |}.
Proof.
  intros Hok Hle. apply (cache_ok_mono tprev t c Hle) in Hok.
  unfold dns_request, justified. cbn [a_res a_port a_host a_time].
  destruct (parse_ip host) as [j|] eqn:Ep.
  - intros H. inversion H; subst. split; [exact Hok|]. split; [reflexivity|]. left. reflexivity.
  - destruct (cache_get c t host) as [[j p0]|] eqn:Eg.
    + intros H. inversion H; subst. split; [apply cache_ok_advance; exact Hok|]. split; [reflexivity|]. right.
      apply cache_get_in in Eg. destruct Eg as (e & Hf & Hin & Hexp).
      apply (cache_ok_mono t t) in Hok; [|lia].
      clear Hle. destruct (Hok host e Hf j p0 Hin) as [(t0 & H1 & H2 & H3)|(e0 & H1 & H2 & H3)].
      * left. exists t0. split; [lia | exact H3].
      * right. exists e0. split; [exact H1|]. split; [exact H2 | lia].
    + destruct (sort_addrs (map (fun i0 => (i0, port)) (resolve t host))) as [|a rest] eqn:E.
      * intros H. inversion H; subst. auto.
      * intros H. inversion H; subst. split.
        -- apply cache_ok_advance. rewrite <- E. apply cache_ok_fill. exact Hok.
        -- destruct a as [i p].
           assert (Hin : In (i, p) (sort_addrs (map (fun i0 => (i0, port)) (resolve t host)))) by (rewrite E; left; reflexivity).
           apply sorted_fill_in in Hin. destruct Hin as [-> Hin]. split; [reflexivity|].
           right; left. exists t. pose proof dns_ttl_positive. unfold dns_ttl. split; [lia | exact Hin].
Qed.

Fixpoint times_sorted (t : Z) (h : list (Z * hop)) : Prop :=
  match h with
  | [] => True
  | (t', _) :: h' => (t <= t')%Z /\ times_sorted t' h'
  end.

Lemma dns_run_ok h : forall c t,
  cache_ok t c -> times_sorted t h -> forall a, In a (dns_run parse_ip resolve c h) -> justified a.
Proof.
  induction h as [|[t' op] h IH]; intros c t Hok Hs a Hin; [contradiction|].
  destruct Hs as [Hle Hs]. destruct op as [host port|]; cbn [dns_run] in Hin.
  - destruct (dns_request parse_ip resolve c t' host port) as [c' r] eqn:E.
    destruct (dns_request_ok t c t' host port c' r Hok Hle E) as [Hok' Hj].
    destruct Hin as [<-|Hin]; [exact Hj | exact (IH c' t' Hok' Hs a Hin)].
  - exact (IH [] t' (cache_ok_nil t') Hs a Hin).
Qed.

Theorem dns_cache_sound h t :
  times_sorted t h -> forall a, In a (dns_run parse_ip resolve c0 h) -> justified a.
Proof. intros Hs. exact (dns_run_ok h c0 t (cache_ok_c0 t) Hs). Qed.

End Dns.
