(* FrameProofs.v -- codec lemmas behind C03 (and reused by C01, C04, C20). *)
From Coq Require Import List NArith ZArith Lia Bool.
From AnyTLS Require Import Bytes Cmd Generated FactsCore Frame BytesFacts.
Import ListNotations.
Open Scope N_scope.
Ltac Zify.zify_post_hook ::= Z.to_euclidean_division_equations.

(* ---- command table ---- *)
Lemma cmd_of_byte_unknown c : 10 < c -> cmd_of_byte c = Waste.
Proof.
  intros H. unfold cmd_of_byte, assoc_N. rewrite cmd_table_exact, cmd_default_waste.
  cbn [find fst snd].
  repeat match goal with |- context [?a =? c] => destruct (N.eqb_spec a c); [lia|] end.
  reflexivity.
Qed.

Lemma byte_of_cmd_lt c : byte_of_cmd c < 256.
Proof. destruct c; vm_compute; reflexivity. Qed.

Lemma cmd_byte_roundtrip c : cmd_of_byte (byte_of_cmd c) = c.
Proof. destruct c; reflexivity. Qed.

Lemma byte_cmd_roundtrip b : b <= 10 -> byte_of_cmd (cmd_of_byte b) = b.
Proof.
  intros H.
  assert (b = 0 \/ b = 1 \/ b = 2 \/ b = 3 \/ b = 4 \/ b = 5 \/ b = 6 \/ b = 7 \/ b = 8 \/ b = 9 \/ b = 10) as Hc by lia.
  repeat destruct Hc as [-> | Hc]; try reflexivity. subst; reflexivity.
Qed.

(* ---- single frame ---- *)
Lemma max_payload_val : max_payload = 65535.
Proof. unfold max_payload. apply encode_max_payload_u16. Qed.

Lemma decode1_raw_encode_raw r rest :
  wf_rframe r -> decode1_raw (encode_raw r ++ rest) = Some (r, rest).
Proof.
  intros (Hc & Hs & Hd & Hl). rewrite max_payload_val in Hl.
  unfold encode_raw, be32, be16. cbn [app].
  unfold decode1_raw.
  rewrite de16_be16 by lia. rewrite de32_be32 by lia.
  rewrite lenN_app.
  destruct (N.leb_spec (lenN (rdata r)) (lenN (rdata r) + lenN rest)) as [_|]; [|lia].
  rewrite takeN_app_exact, dropN_app_exact. destruct r; reflexivity.
Qed.

Lemma decode1_raw_inv b r rest :
  wfb b -> decode1_raw b = Some (r, rest) ->
  b = encode_raw r ++ rest /\ wf_rframe r /\ wfb rest.
Proof.
  intros Hw H. unfold decode1_raw in H.
  destruct b as [|c [|s3 [|s2 [|s1 [|s0 [|l1 [|l0 body]]]]]]]; try discriminate.
  destruct (N.leb_spec (de16 l1 l0) (lenN body)) as [Hle|]; [|discriminate].
  inversion H; subst; clear H.
  repeat (apply wfb_cons in Hw; destruct Hw as [? Hw]).
  destruct (wfb_take_drop (de16 l1 l0) body Hw) as [Ht Hd].
  split; [|split; [|exact Hd]].
  - unfold encode_raw. cbn [rcmd rsid rdata].
    rewrite lenN_takeN by exact Hle.
    rewrite be32_de32, be16_de16 by assumption. cbn [app].
    rewrite takeN_dropN. reflexivity.
  - unfold wf_rframe. cbn [rcmd rsid rdata]. rewrite max_payload_val.
    rewrite lenN_takeN by exact Hle.
    pose proof (de16_lt l1 l0). pose proof (de32_lt s3 s2 s1 s0).
    repeat split; try assumption; try lia; auto.
Qed.

Lemma decode1_raw_consumes b r rest :
  decode1_raw b = Some (r, rest) -> lenN b = 7 + lenN (rdata r) + lenN rest.
Proof.
  intros H. unfold decode1_raw in H.
  destruct b as [|c [|s3 [|s2 [|s1 [|s0 [|l1 [|l0 body]]]]]]]; try discriminate.
  destruct (N.leb_spec (de16 l1 l0) (lenN body)) as [Hle|]; [|discriminate].
  inversion H; subst; clear H. cbn [rdata].
  rewrite !lenN_cons, lenN_takeN, lenN_dropN by exact Hle. lia.
Qed.

Lemma decode1_raw_app b c r rest :
  decode1_raw b = Some (r, rest) -> decode1_raw (b ++ c) = Some (r, rest ++ c).
Proof.
  intros H. unfold decode1_raw in *.
  destruct b as [|c0 [|s3 [|s2 [|s1 [|s0 [|l1 [|l0 body]]]]]]]; try discriminate.
  cbn [app].
  destruct (N.leb_spec (de16 l1 l0) (lenN body)) as [Hle|]; [|discriminate].
  inversion H; subst; clear H.
  rewrite lenN_app.
  destruct (N.leb_spec (de16 l1 l0) (lenN body + lenN c)) as [_|]; [|lia].
  rewrite takeN_app_le, dropN_app_le by exact Hle. reflexivity.
Qed.

(* ---- the drain loop ---- *)
Lemma decode_all_raw_fuel_irrel f1 : forall f2 b,
  (length b <= f1)%nat -> (length b <= f2)%nat ->
  decode_all_raw_fuel f1 b = decode_all_raw_fuel f2 b.
Proof.
  induction f1 as [|k IH]; intros f2 b H1 H2.
  - destruct b; [|cbn in H1; lia]. destruct f2; reflexivity.
  - destruct f2 as [|k2].
    + destruct b; [|cbn in H2; lia]. reflexivity.
    + cbn [decode_all_raw_fuel].
      destruct (decode1_raw b) as [[f r]|] eqn:E; [|reflexivity].
      pose proof (decode1_raw_consumes _ _ _ E) as Hlen. unfold lenN in Hlen.
      rewrite (IH k2 r) by lia. reflexivity.
Qed.

Lemma decode_all_raw_unfold b :
  decode_all_raw b =
  match decode1_raw b with
  | None => ([], b)
  | Some (f, r) => let '(fs, r') := decode_all_raw r in (f :: fs, r')
  end.
Proof.
  unfold decode_all_raw. destruct (length b) as [|n] eqn:En.
  - destruct b; [reflexivity | discriminate].
  - cbn [decode_all_raw_fuel].
    destruct (decode1_raw b) as [[f r]|] eqn:E; [|reflexivity].
    pose proof (decode1_raw_consumes _ _ _ E) as Hlen. unfold lenN in Hlen.
    rewrite (decode_all_raw_fuel_irrel n (length r) r) by lia. reflexivity.
Qed.

(* strong induction on the length of the buffer *)
Lemma bytes_len_ind (P : bytes -> Prop) :
  (forall b, (forall b', (length b' < length b)%nat -> P b') -> P b) -> forall b, P b.
Proof.
  intros H b. remember (length b) as n eqn:En. revert b En.
  induction n as [n IH] using lt_wf_ind. intros b ->. apply H. intros b' Hlt. eapply IH; eauto.
Qed.

Lemma decode1_raw_shorter b r rest :
  decode1_raw b = Some (r, rest) -> (length rest < length b)%nat.
Proof. intros E. pose proof (decode1_raw_consumes _ _ _ E) as H. unfold lenN in H. lia. Qed.

(* total: the input is exactly the re-encoding of what was decoded plus an undecodable rest *)
Lemma decode_all_raw_spec b fs r :
  wfb b -> decode_all_raw b = (fs, r) ->
  b = concat (map encode_raw fs) ++ r /\ decode1_raw r = None /\ Forall wf_rframe fs /\ wfb r.
Proof.
  revert fs r. induction b as [b IH] using bytes_len_ind. intros fs r Hw H.
  rewrite decode_all_raw_unfold in H.
  destruct (decode1_raw b) as [[f rest]|] eqn:E.
  - destruct (decode_all_raw rest) as [gs r'] eqn:E2. inversion H; subst; clear H.
    destruct (decode1_raw_inv _ _ _ Hw E) as (Hb & Hf & Hrest).
    destruct (IH rest (decode1_raw_shorter _ _ _ E) gs r Hrest E2) as (Hr & Hn & Hall & Hwr).
    repeat split; auto.
    cbn [map concat]. rewrite <- app_assoc, <- Hr. exact Hb.
  - inversion H; subst. repeat split; auto.
Qed.

(* inverse: decoding a concatenation of encodings yields the frames *)
Lemma decode_all_raw_concat fs : forall r,
  Forall wf_rframe fs -> decode1_raw r = None ->
  decode_all_raw (concat (map encode_raw fs) ++ r) = (fs, r).
Proof.
  induction fs as [|f fs IH]; intros r Hall Hn.
  - cbn [map concat app]. rewrite decode_all_raw_unfold, Hn. reflexivity.
  - inversion Hall; subst. cbn [map concat]. rewrite <- app_assoc.
    rewrite decode_all_raw_unfold, decode1_raw_encode_raw by assumption.
    rewrite IH by assumption. reflexivity.
Qed.

(* chunking independence *)
Lemma decode_all_raw_app (b : bytes) : forall c,
  decode_all_raw (b ++ c) =
  let '(fs, r) := decode_all_raw b in
  let '(gs, r') := decode_all_raw (r ++ c) in (fs ++ gs, r').
Proof.
  induction b as [b IH] using bytes_len_ind. intros c.
  rewrite (decode_all_raw_unfold b).
  destruct (decode1_raw b) as [[f rest]|] eqn:E.
  - rewrite decode_all_raw_unfold, (decode1_raw_app _ c _ _ E).
    rewrite (IH rest (decode1_raw_shorter _ _ _ E) c).
    destruct (decode_all_raw rest) as [fs r].
    destruct (decode_all_raw (r ++ c)) as [gs r']. reflexivity.
  - cbn [app]. destruct (decode_all_raw (b ++ c)) as [gs r']. reflexivity.
Qed.

Lemma decode_all_app b c :
  decode_all (b ++ c) =
  let '(fs, r) := decode_all b in
  let '(gs, r') := decode_all (r ++ c) in (fs ++ gs, r').
Proof.
  unfold decode_all. rewrite decode_all_raw_app.
  destruct (decode_all_raw b) as [fs r]. destruct (decode_all_raw (r ++ c)) as [gs r'].
  rewrite map_app. reflexivity.
Qed.

Lemma decode_all_idem_rest (b : bytes) :
  decode_all_raw (snd (decode_all_raw b)) = ([], snd (decode_all_raw b)).
Proof.
  induction b as [b IH] using bytes_len_ind.
  rewrite (decode_all_raw_unfold b).
  destruct (decode1_raw b) as [[f rest]|] eqn:E.
  - specialize (IH rest (decode1_raw_shorter _ _ _ E)).
    destruct (decode_all_raw rest) as [fs r]. exact IH.
  - cbn [snd]. rewrite decode_all_raw_unfold, E. reflexivity.
Qed.

Lemma drained_rest (b : bytes) : decode1_raw (snd (decode_all_raw b)) = None.
Proof.
  pose proof (decode_all_idem_rest b) as H. rewrite decode_all_raw_unfold in H.
  destruct (decode1_raw (snd (decode_all_raw b))) as [[f r]|]; [|reflexivity].
  destruct (decode_all_raw r); discriminate.
Qed.

Lemma decode_all_drained r : decode1_raw r = None -> decode_all r = ([], r).
Proof. intros H. unfold decode_all. rewrite decode_all_raw_unfold, H. reflexivity. Qed.

Lemma decode_all_rest_drained (b : bytes) : decode1_raw (snd (decode_all b)) = None.
Proof.
  unfold decode_all. pose proof (drained_rest b) as H.
  destruct (decode_all_raw b) as [fs r]. exact H.
Qed.

Lemma feed_all_spec chunks : forall carry,
  decode1_raw carry = None ->
  feed_all carry chunks = decode_all (carry ++ concat chunks).
Proof.
  induction chunks as [|c cs IH]; intros carry Hd.
  - cbn [feed_all concat]. rewrite app_nil_r, decode_all_drained by exact Hd. reflexivity.
  - cbn [feed_all concat]. unfold feed. rewrite app_assoc, (decode_all_app (carry ++ c) (concat cs)).
    pose proof (decode_all_rest_drained (carry ++ c)) as Hr.
    destruct (decode_all (carry ++ c)) as [fs r]. cbn [snd] in Hr.
    rewrite (IH r Hr). reflexivity.
Qed.

(* ---- statements used by Props/C03.v ---- *)
Definition raw_of (f : frame) : rframe :=
  {| rcmd := byte_of_cmd (fcmd f); rsid := fsid f; rdata := fdata f |}.

Lemma cook_raw_of f : cook (raw_of f) = f.
Proof. destruct f. unfold cook, raw_of. cbn. rewrite cmd_byte_roundtrip. reflexivity. Qed.

Lemma encode_some f : lenN (fdata f) <= 65535 -> encode f = Some (encode_raw (raw_of f)).
Proof.
  intros H. unfold encode. rewrite max_payload_val.
  destruct (N.leb_spec (lenN (fdata f)) 65535); [reflexivity | lia].
Qed.

Lemma roundtrip f rest :
  wf_frame f -> lenN (fdata f) <= 65535 ->
  exists e, encode f = Some e /\ decode1 (e ++ rest) = Some (f, rest).
Proof.
  intros [Hs Hd] Hl. exists (encode_raw (raw_of f)). split; [apply encode_some; exact Hl|].
  unfold decode1. rewrite decode1_raw_encode_raw.
  - rewrite cook_raw_of. reflexivity.
  - unfold wf_rframe, raw_of. cbn. rewrite max_payload_val.
    repeat split; auto. apply byte_of_cmd_lt.
Qed.

Lemma len_field f e :
  encode f = Some e ->
  exists c s3 s2 s1 s0 l1 l0,
    e = c :: s3 :: s2 :: s1 :: s0 :: l1 :: l0 :: fdata f /\
    de16 l1 l0 = lenN (fdata f) /\ lenN e = 7 + lenN (fdata f).
Proof.
  unfold encode. rewrite max_payload_val.
  destruct (N.leb_spec (lenN (fdata f)) 65535) as [Hl|]; [|discriminate].
  intros H. inversion H; subst; clear H. unfold be32, be16. cbn [app].
  do 7 eexists. split; [reflexivity|]. split.
  - apply de16_be16. lia.
  - rewrite !lenN_cons. lia.
Qed.

Lemma oversize f : 65535 < lenN (fdata f) -> encode f = None.
Proof.
  intros H. unfold encode. rewrite max_payload_val.
  destruct (N.leb_spec (lenN (fdata f)) 65535); [lia | reflexivity].
Qed.

Lemma decode_total b :
  wfb b ->
  exists rs r, decode_all_raw b = (rs, r) /\ decode_all b = (map cook rs, r) /\
    b = concat (map encode_raw rs) ++ r /\ decode1 r = None /\ Forall wf_rframe rs.
Proof.
  intros Hw. destruct (decode_all_raw b) as [rs r] eqn:E. exists rs, r.
  destruct (decode_all_raw_spec b rs r Hw E) as (Hb & Hn & Hall & _).
  repeat split; auto.
  - unfold decode_all. rewrite E. reflexivity.
  - unfold decode1. rewrite Hn. reflexivity.
Qed.

Lemma decode_frames fs rest :
  Forall wf_frame fs -> Forall (fun f => lenN (fdata f) <= 65535) fs -> decode1 rest = None ->
  decode_all (concat (map encode_raw (map raw_of fs)) ++ rest) = (fs, rest).
Proof.
  intros Hw Hl Hn. unfold decode_all. rewrite decode_all_raw_concat.
  - rewrite map_map. f_equal. rewrite <- (map_id fs) at 2. apply map_ext. apply cook_raw_of.
  - apply Forall_forall. intros r Hr. apply in_map_iff in Hr. destruct Hr as (f & <- & Hf).
    rewrite Forall_forall in Hw, Hl. destruct (Hw f Hf) as [Hs Hd]. specialize (Hl f Hf).
    unfold wf_rframe, raw_of. cbn. rewrite max_payload_val. repeat split; auto. apply byte_of_cmd_lt.
  - unfold decode1 in Hn. destruct (decode1_raw rest) as [[? ?]|]; [discriminate | reflexivity].
Qed.

Lemma chunking chunks : feed_all [] chunks = decode_all (concat chunks).
Proof. rewrite feed_all_spec by reflexivity. reflexivity. Qed.

Lemma incomplete_untouched b : decode1 b = None -> decode_all b = ([], b).
Proof.
  intros H. apply decode_all_drained. unfold decode1 in H.
  destruct (decode1_raw b) as [[? ?]|]; [discriminate | reflexivity].
Qed.

(* ---- progress: every decoded frame consumes at least the 7 header bytes (no spinning on input) ---- *)
Lemma decode_all_raw_progress (b : bytes) :
  (7 * length (fst (decode_all_raw b)) + length (snd (decode_all_raw b)) <= length b)%nat.
Proof.
  induction b as [b IH] using bytes_len_ind.
  rewrite decode_all_raw_unfold.
  destruct (decode1_raw b) as [[f rest]|] eqn:E.
  - specialize (IH rest (decode1_raw_shorter _ _ _ E)).
    pose proof (decode1_raw_consumes _ _ _ E) as Hc. unfold lenN in Hc.
    destruct (decode_all_raw rest) as [fs r]. cbn [fst snd length] in *. lia.
  - cbn. lia.
Qed.

Lemma decode_all_progress (b : bytes) :
  (7 * length (fst (decode_all b)) + length (snd (decode_all b)) <= length b)%nat.
Proof.
  pose proof (decode_all_raw_progress b) as H. unfold decode_all.
  destruct (decode_all_raw b) as [fs r]. cbn [fst snd] in *. rewrite map_length. exact H.
Qed.
