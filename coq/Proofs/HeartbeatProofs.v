(* HeartbeatProofs.v -- C14 about Model/Heartbeat.v (the repaired liveness rule: a deadline per
   outstanding keep-alive request). Statements are over arbitrary event traces: the tick instants are
   not even assumed periodic for C14_no_false_close, so every (interval, timeout) pair is covered. *)
From Coq Require Import List NArith ZArith Bool Lia.
From AnyTLS Require Import Generated FactsTimed Pool Heartbeat.
Import ListNotations.
Open Scope Z_scope.

Lemma hb_due_eq : forall T s t, hb_due T s t = (T <=? t - s).
Proof. reflexivity. Qed.

Lemma hb_step_resp_eq : forall T st a,
  hb_step T st (HResp a) =
  let st1 := hb_expire T st a in
  match hb_closed st1 with
  | Some _ => st1
  | None => {| hb_out := None; hb_closed := None; hb_sent := hb_sent st1 |}
  end.
Proof. reflexivity. Qed.

Lemma hb_step_tick_eq : forall T st t,
  hb_step T st (HTick t) =
  let st1 := hb_expire T st t in
  match hb_closed st1 with
  | Some _ => st1
  | None => {| hb_out := match hb_out st1 with None => Some t | o => o end;
               hb_closed := None; hb_sent := t :: hb_sent st1 |}
  end.
Proof. reflexivity. Qed.

Global Opaque hb_due hb_step.

(* ---- the peer answers in time (trace form) *)
(* the request sent at s: before anything happens at or after its deadline s + T, an answer arrives
   (or the observation ends) *)
Fixpoint answered (T s : Z) (post : list hbev) : Prop :=
  match post with
  | [] => True
  | HResp a :: _ => a < s + T
  | HTick t :: r => t < s + T /\ answered T s r
  end.

Fixpoint in_time (T : Z) (evs : list hbev) : Prop :=
  match evs with
  | [] => True
  | HTick s :: post => answered T s post /\ in_time T post
  | HResp _ :: post => in_time T post
  end.

Lemma expire_idle : forall T st t,
  hb_closed st = None -> (forall s, hb_out st = Some s -> t < s + T) -> hb_expire T st t = st.
Proof.
  intros T st t Hc Ho. unfold hb_expire. rewrite Hc. destruct (hb_out st) as [s|]; [|reflexivity].
  rewrite hb_due_eq. specialize (Ho s eq_refl). destruct (Z.leb_spec T (t - s)); [lia|reflexivity].
Qed.

Lemma run_no_close : forall T evs st,
  hb_closed st = None -> (forall s, hb_out st = Some s -> answered T s evs) -> in_time T evs ->
  hb_closed (hb_run T st evs) = None.
Proof.
  intros T evs. induction evs as [|e evs IH]; intros st Hc Ho Hi; [exact Hc|].
  change (hb_run T st (e :: evs)) with (hb_run T (hb_step T st e) evs).
  destruct e as [t|a].
  - destruct Hi as [Ha Hi].
    assert (E : hb_expire T st t = st).
    { apply expire_idle; [assumption|]. intros s Hs. destruct (Ho s Hs) as [? _]. assumption. }
    rewrite hb_step_tick_eq. cbv zeta. rewrite E, Hc. apply IH; [reflexivity| |assumption].
    cbn [hb_out]. intros s Hs. destruct (hb_out st) as [s0|] eqn:Eo.
    + inversion Hs; subst. destruct (Ho s eq_refl) as [_ ?]. assumption.
    + inversion Hs; subst. assumption.
  - assert (E : hb_expire T st a = st).
    { apply expire_idle; [assumption|]. intros s Hs. exact (Ho s Hs). }
    rewrite hb_step_resp_eq. cbv zeta. rewrite E, Hc. apply IH; [reflexivity| |assumption].
    cbn [hb_out]. intros s Hs. discriminate.
Qed.

(* C14_no_false_close, trace form: whatever the tick instants (any interval) and whatever T *)
Theorem no_false_close_trace : forall T evs,
  in_time T evs -> hb_closed (hb_run T hb_init evs) = None.
Proof.
  intros T evs H. apply run_no_close; [reflexivity| |assumption]. cbn. intros s Hs. discriminate.
Qed.

(* ---- the same hypothesis in index form, for time-ordered traces *)
Definition sorted_ev (evs : list hbev) : Prop :=
  forall i j a b, (i <= j)%nat -> nth_error evs i = Some a -> nth_error evs j = Some b ->
    hbev_time a <= hbev_time b.

(* every keep-alive request is followed by an answer less than T after it was sent, unless the observation
   ends before that deadline *)
Definition peer_in_time (T : Z) (evs : list hbev) : Prop :=
  forall i s, nth_error evs i = Some (HTick s) ->
    (exists j a, (i < j)%nat /\ nth_error evs j = Some (HResp a) /\ a < s + T) \/
    (forall j e, (i < j)%nat -> nth_error evs j = Some e -> hbev_time e < s + T).

Lemma answered_by : forall T s j post a,
  nth_error post j = Some (HResp a) -> a < s + T ->
  (forall m e, (m <= j)%nat -> nth_error post m = Some e -> hbev_time e <= a) ->
  answered T s post.
Proof.
  intros T s j. induction j as [|j IH]; intros post a Hn Ha Hb.
  - destruct post as [|e post]; [discriminate|]. cbn in Hn. inversion Hn; subst. cbn. assumption.
  - destruct post as [|e post]; [discriminate|]. cbn in Hn.
    pose proof (Hb 0%nat e ltac:(lia) eq_refl) as H0.
    destruct e as [t|a0]; cbn in *; [|lia]. split; [lia|].
    eapply IH; eauto. intros m e Hm He. apply (Hb (S m) e); [lia|exact He].
Qed.

Lemma answered_all_early : forall T s post,
  (forall m e, nth_error post m = Some e -> hbev_time e < s + T) -> answered T s post.
Proof.
  intros T s post. induction post as [|e post IH]; intros H; [exact I|].
  pose proof (H 0%nat e eq_refl) as H0. destruct e as [t|a]; cbn in *; [|assumption].
  split; [assumption|]. apply IH. intros m e He. exact (H (S m) e He).
Qed.

Lemma in_time_of_peer : forall T evs, sorted_ev evs -> peer_in_time T evs -> in_time T evs.
Proof.
  intros T evs. induction evs as [|e evs IH]; intros Hs Hp; [exact I|].
  assert (Hs' : sorted_ev evs).
  { intros i j a b Hij Ha Hb. exact (Hs (S i) (S j) a b ltac:(lia) Ha Hb). }
  assert (Hp' : peer_in_time T evs).
  { intros i s Hi. destruct (Hp (S i) s Hi) as [[j [a [Hj [Hn Ha]]]]|Hall].
    - destruct j as [|j]; [lia|]. left. exists j, a. repeat split; [lia|exact Hn|assumption].
    - right. intros j x Hj Hx. exact (Hall (S j) x ltac:(lia) Hx). }
  destruct e as [s|a]; cbn; [|auto]. split; [|auto].
  destruct (Hp 0%nat s eq_refl) as [[j [a [Hj [Hn Ha]]]]|Hall].
  - destruct j as [|j]; [lia|]. cbn in Hn. eapply answered_by; eauto.
    intros m e Hm He. exact (Hs (S m) (S j) e (HResp a) ltac:(lia) He Hn).
  - apply answered_all_early. intros m e He. exact (Hall (S m) e ltac:(lia) He).
Qed.

(* C14_no_false_close *)
Theorem no_false_close : forall T evs,
  sorted_ev evs -> peer_in_time T evs -> hb_closed (hb_run T hb_init evs) = None.
Proof. intros. apply no_false_close_trace. apply in_time_of_peer; assumption. Qed.

(* ---- detection of a silent peer *)
Lemma closed_sticky_step : forall T st e c, hb_closed st = Some c -> hb_step T st e = st.
Proof.
  intros T st e c H. destruct e; [rewrite hb_step_tick_eq|rewrite hb_step_resp_eq]; cbv zeta;
    unfold hb_expire; rewrite H; cbn; rewrite H; reflexivity.
Qed.

Lemma closed_sticky : forall T evs st c, hb_closed st = Some c -> hb_run T st evs = st.
Proof.
  intros T evs. induction evs as [|e evs IH]; intros st c H; [reflexivity|].
  change (hb_run T st (e :: evs)) with (hb_run T (hb_step T st e) evs).
  rewrite (closed_sticky_step T st e c H). eapply IH; eassumption.
Qed.

(* while only ticks happen, the outstanding request stays the same and the only possible closing instant is its deadline *)
Lemma tick_step_outstanding : forall T st s t,
  hb_out st = Some s -> (hb_closed st = None \/ hb_closed st = Some (s + T)) ->
  hb_out (hb_step T st (HTick t)) = Some s /\
  (hb_closed (hb_step T st (HTick t)) = None \/ hb_closed (hb_step T st (HTick t)) = Some (s + T)).
Proof.
  intros T st s t Ho Hc. rewrite hb_step_tick_eq. cbv zeta. destruct Hc as [Hc|Hc].
  - unfold hb_expire. rewrite Hc, Ho. destruct (hb_due T s t).
    + cbn. rewrite ?Ho. auto.
    + rewrite ?Hc. cbn. rewrite ?Ho. auto.
  - unfold hb_expire. rewrite Hc. cbn. rewrite ?Hc. auto.
Qed.

Lemma run_ticks_outstanding : forall T ticks st s,
  hb_out st = Some s -> (hb_closed st = None \/ hb_closed st = Some (s + T)) ->
  let st' := hb_run T st (map HTick ticks) in
  hb_out st' = Some s /\ (hb_closed st' = None \/ hb_closed st' = Some (s + T)).
Proof.
  intros T ticks. induction ticks as [|t ticks IH]; intros st s Ho Hc; [cbn; auto|].
  cbn [map]. change (hb_run T st (HTick t :: map HTick ticks)) with (hb_run T (hb_step T st (HTick t)) (map HTick ticks)).
  destruct (tick_step_outstanding T st s t Ho Hc) as [A B]. apply IH; assumption.
Qed.

(* after an answer has been processed nothing is outstanding *)
Lemma resp_clears : forall T st a,
  hb_closed (hb_step T st (HResp a)) = None -> hb_out (hb_step T st (HResp a)) = None.
Proof.
  intros T st a. rewrite hb_step_resp_eq. cbv zeta.
  destruct (hb_closed (hb_expire T st a)) eqn:E; [rewrite E; discriminate|reflexivity].
Qed.

(* C14_detects: st0 is the monitor right after the peer's last answer at instant a (or at session start):
   not closed, nothing outstanding. From then on only ticks happen; the interval timer fires next at
   s1 <= a + I. Once the clock has reached s1 + T the session is closed, and it was closed at s1 + T,
   which is at most a + T + I. *)
Theorem detects : forall T I st0 a s1 more t,
  hb_closed st0 = None -> hb_out st0 = None ->
  s1 <= a + I -> s1 + T <= t ->
  hb_closed (hb_expire T (hb_run T st0 (map HTick (s1 :: more))) t) = Some (s1 + T) /\
  s1 + T <= a + T + I.
Proof.
  intros T I st0 a s1 more t Hc Ho Hs Ht. split; [|lia].
  cbn [map]. change (hb_run T st0 (HTick s1 :: map HTick more)) with (hb_run T (hb_step T st0 (HTick s1)) (map HTick more)).
  set (st1 := hb_step T st0 (HTick s1)).
  assert (H1 : hb_out st1 = Some s1 /\ hb_closed st1 = None).
  { subst st1. rewrite hb_step_tick_eq. cbv zeta. rewrite expire_idle by (auto; intros s E; congruence).
    rewrite Hc. cbn. rewrite Ho. auto. }
  destruct H1 as [Ho1 Hc1].
  destruct (run_ticks_outstanding T more st1 s1 Ho1 (or_introl Hc1)) as [Ho2 Hc2].
  cbv zeta in *. unfold hb_expire. destruct Hc2 as [Hc2|Hc2]; rewrite Hc2; [|exact Hc2].
  rewrite Ho2, hb_due_eq. destruct (Z.leb_spec T (t - s1)); [reflexivity|lia].
Qed.

(* the interval timer of period I > 0 started at 0 fires within I after any instant a >= 0 *)
Lemma next_tick_within : forall I a, 0 < I -> exists k, a < k * I <= a + I.
Proof.
  intros I a HI. exists (a / I + 1).
  pose proof (Z.div_mod a I ltac:(lia)) as D. pose proof (Z.mod_pos_bound a I HI) as M. nia.
Qed.

(* closing happens at the deadline of a request, never earlier: a session is closed at c only if a request
   was sent at c - T and no answer followed it *)
Lemma step_close_instant : forall T st e c,
  hb_closed st = None -> hb_closed (hb_step T st e) = Some c -> exists s, hb_out st = Some s /\ c = s + T.
Proof.
  intros T st e c Hc H.
  destruct e as [t|a]; [rewrite hb_step_tick_eq in H|rewrite hb_step_resp_eq in H]; cbv zeta in H;
    unfold hb_expire in H; rewrite Hc in H; destruct (hb_out st) as [s|] eqn:Eo.
  - destruct (hb_due T s t); cbn in H; rewrite ?Hc in H; cbn in H; [|discriminate]. inversion H; subst. eauto.
  - rewrite Hc in H. cbn in H. discriminate.
  - destruct (hb_due T s a); cbn in H; rewrite ?Hc in H; cbn in H; [|discriminate]. inversion H; subst. eauto.
  - rewrite Hc in H. cbn in H. discriminate.
Qed.

Lemma step_out_origin : forall T st e s,
  hb_closed st = None -> hb_closed (hb_step T st e) = None -> hb_out (hb_step T st e) = Some s ->
  hb_out st = Some s \/ e = HTick s.
Proof.
  intros T st e s Hc H1 H.
  destruct e as [t|a]; [rewrite hb_step_tick_eq in H, H1|rewrite hb_step_resp_eq in H, H1]; cbv zeta in *;
    unfold hb_expire in *; rewrite Hc in *; destruct (hb_out st) as [s0|] eqn:Eo.
  - destruct (hb_due T s0 t); cbn in *; [discriminate|]. rewrite Hc in *. cbn in *. rewrite Eo in H. auto.
  - rewrite Hc in *. cbn in *. rewrite Eo in H. inversion H; subst. auto.
  - destruct (hb_due T s0 a); cbn in *; [discriminate|]. rewrite Hc in *. cbn in *. discriminate.
  - rewrite Hc in *. cbn in *. discriminate.
Qed.

Lemma close_instant : forall T evs st c,
  hb_closed st = None -> hb_closed (hb_run T st evs) = Some c ->
  exists s, c = s + T /\ (hb_out st = Some s \/ In (HTick s) evs).
Proof.
  intros T evs. induction evs as [|e evs IH]; intros st c Hc H; [cbn in H; congruence|].
  change (hb_run T st (e :: evs)) with (hb_run T (hb_step T st e) evs) in H.
  destruct (hb_closed (hb_step T st e)) as [c1|] eqn:E1.
  - rewrite (closed_sticky T evs _ c1 E1) in H. rewrite E1 in H. inversion H; subst.
    destruct (step_close_instant T st e c Hc E1) as [s [? ?]]. exists s. auto.
  - destruct (IH _ c E1 H) as [s [Ec Hs]]. exists s. split; [exact Ec|].
    destruct Hs as [Hs|Hs]; [|right; right; assumption].
    destruct (step_out_origin T st e s Hc E1 Hs) as [Hq|Hq]; [left; assumption|right; left; rewrite Hq; reflexivity].
Qed.
