(* HbSimProofs.v -- C14_no_false_close for the simulation function the correspondence check executes
   (Heartbeat.hb_sim: ticks at 0, I, 2I, .., the k-th request answered script[k] ms later, observation until H):
   if every request sent within the horizon is answered after a delay in [0, T), the session is never closed --
   for every interval, every timeout (timeout <= interval included), every number of requests in flight. *)
From Coq Require Import List NArith ZArith Bool Lia Sorting.Sorted.
From AnyTLS Require Import Generated FactsTimed Pool Heartbeat HeartbeatProofs.
Import ListNotations.
Open Scope Z_scope.

Lemma ins_in : forall a l x, In x (hb_ins_sorted a l) <-> x = a \/ In x l.
Proof.
  intros a l. induction l as [|b l IH]; intros x; cbn.
  - split; [intros [->|[]]; auto|intros [->|[]]; auto].
  - destruct (a <? b); cbn.
    + split; [intros [->|[->|H]]; auto|intros [->|[->|H]]; auto].
    + rewrite IH. split; [intros [->|[->|H]]; auto|intros [->|[->|H]]; auto].
Qed.

Lemma ins_sorted : forall a l, StronglySorted Z.le l -> StronglySorted Z.le (hb_ins_sorted a l).
Proof.
  intros a l H. induction H as [|b l Hs IH Hf]; cbn.
  - constructor; constructor.
  - destruct (Z.ltb_spec a b).
    + constructor; [constructor; assumption|]. constructor; [lia|].
      eapply Forall_impl; [|exact Hf]. cbn. intros; lia.
    + constructor; [assumption|]. apply Forall_forall. intros x Hx. apply ins_in in Hx.
      destruct Hx as [->|Hx]; [assumption|]. rewrite Forall_forall in Hf. auto.
Qed.

Lemma head_le : forall a l x, StronglySorted Z.le (a :: l) -> In x (a :: l) -> a <= x.
Proof.
  intros a l x H Hin. inversion H as [|? ? _ Hf]; subst. destruct Hin as [->|Hin]; [lia|].
  rewrite Forall_forall in Hf. auto.
Qed.

Section Sim.
  Variables (I T H : Z) (script : list (option Z)).
  Hypothesis answers_in_time :
    forall k, Z.of_nat k * I <= H -> exists d, nth_error script k = Some (Some d) /\ 0 <= d < T.

  Definition sim_inv (k : nat) (nt : Z) (arr : list Z) (st : hb) : Prop :=
    hb_closed st = None /\ nt = Z.of_nat k * I /\ StronglySorted Z.le arr /\
    (forall s, hb_out st = Some s -> exists a, In a arr /\ a < s + T).

  Lemma expire_safe : forall arr st t, hb_closed st = None ->
    (forall s, hb_out st = Some s -> exists a, In a arr /\ a < s + T) ->
    (forall a, In a arr -> t <= a) -> hb_expire T st t = st.
  Proof.
    intros arr st t Hc Ho Ht. apply expire_idle; [assumption|]. intros s Hs.
    destruct (Ho s Hs) as [a [Hin Ha]]. specialize (Ht a Hin). lia.
  Qed.

  Lemma sim_loop_open : forall fuel k nt arr st,
    sim_inv k nt arr st -> hb_closed (hb_sim_loop fuel I T H script k nt arr st) = None.
  Proof.
    intros fuel. induction fuel as [|f IH]; intros k nt arr st [Hc [Hnt [Hs Ho]]]; [exact Hc|].
    cbn [hb_sim_loop]. rewrite Hc.
    destruct arr as [|a arr'].
    - (* no arrival pending: nothing is outstanding *)
      assert (Hn : hb_out st = None).
      { destruct (hb_out st) as [s|] eqn:E; [|reflexivity]. destruct (Ho s eq_refl) as [x [[] _]]. }
      destruct (Z.leb_spec nt H) as [Hle|Hgt].
      + rewrite hb_step_tick_eq. cbv zeta.
        rewrite (expire_safe [] st nt Hc Ho) by (intros x []). rewrite Hc. cbn [hb_closed].
        destruct (answers_in_time k ltac:(lia)) as [d [Hd Hdr]]. rewrite Hd.
        apply IH. repeat split; cbn [hb_closed hb_out].
        * rewrite Nat2Z.inj_succ. lia.
        * apply ins_sorted. constructor.
        * intros s Hs'. rewrite Hn in Hs'. inversion Hs'; subst. exists (Z.of_nat k * I + d). split; [apply ins_in; auto|lia].
      + rewrite (expire_safe [] st H Hc Ho) by (intros x []). assumption.
    - destruct (Z.leb_spec a nt) as [Hdue|Hnot].
      + (* the earliest arrival is due *)
        assert (Hmin : forall x, In x (a :: arr') -> a <= x) by (intros x Hx; eapply head_le; eauto).
        destruct (Z.leb_spec a H) as [Hle|Hgt].
        * cbn [tl]. apply IH. rewrite hb_step_resp_eq. cbv zeta.
          rewrite (expire_safe (a :: arr') st a Hc Ho Hmin). rewrite Hc.
          repeat split; cbn [hb_closed hb_out]; [assumption| |intros s Hs'; discriminate].
          inversion Hs; assumption.
        * rewrite (expire_safe (a :: arr') st H Hc Ho); [assumption|]. intros x Hx. specialize (Hmin x Hx). lia.
      + (* the next event is the tick *)
        assert (Hmin : forall x, In x (a :: arr') -> nt <= x).
        { intros x Hx. pose proof (head_le a arr' x Hs Hx). lia. }
        destruct (Z.leb_spec nt H) as [Hle|Hgt].
        * rewrite hb_step_tick_eq. cbv zeta. rewrite (expire_safe (a :: arr') st nt Hc Ho Hmin). rewrite Hc. cbn [hb_closed].
          destruct (answers_in_time k ltac:(lia)) as [d [Hd Hdr]]. rewrite Hd.
          apply IH. repeat split; cbn [hb_closed hb_out].
          -- rewrite Nat2Z.inj_succ. lia.
          -- apply ins_sorted. assumption.
          -- intros s Hs'. destruct (hb_out st) as [s0|] eqn:E.
             ++ inversion Hs'; subst. destruct (Ho s eq_refl) as [x [Hx Hlt]]. exists x. split; [apply ins_in; auto|assumption].
             ++ inversion Hs'; subst. exists (Z.of_nat k * I + d). split; [apply ins_in; auto|lia].
        * rewrite (expire_safe (a :: arr') st H Hc Ho); [assumption|]. intros x Hx. specialize (Hmin x Hx). lia.
  Qed.

  Theorem sim_no_false_close : hb_closed (hb_sim I T H script) = None.
  Proof.
    unfold hb_sim. apply sim_loop_open. repeat split; cbn; try constructor. intros s Hs. discriminate.
  Qed.
End Sim.
