(* HeartbeatStallProofs.v -- (1) with writes that always return, the stalling monitor IS the monitor of Heartbeat.v, so
   every C14 theorem carries over; (2) after one write that never returns, nothing closes the session any more. *)
From Coq Require Import List ZArith Bool Lia.
From AnyTLS Require Import Generated Pool Heartbeat HeartbeatStall.
Import ListNotations.
Open Scope Z_scope.

Lemma hbw_step_no_stall T st e :
  w_blocked st = false -> hbw_step T st (e, false) = {| w_hb := hb_step T (w_hb st) e; w_blocked := false |}.
Proof.
  intros B. unfold hbw_step. rewrite B. cbn [fst snd].
  destruct e as [t|t]; [destruct (hb_closed (hb_step T (w_hb st) (HTick t))) | destruct (hb_closed (hb_step T (w_hb st) (HResp t)))]; reflexivity.
Qed.

Lemma hbw_run_never_stalls T : forall evs st,
  w_blocked st = false ->
  hbw_run T st (map (fun e => (e, false)) evs) = {| w_hb := hb_run T (w_hb st) evs; w_blocked := false |}.
Proof.
  induction evs as [|e evs IH]; intros st B; cbn [map hbw_run hb_run fold_left].
  - destruct st as [h b]. cbn in *. subst. reflexivity.
  - rewrite (hbw_step_no_stall T st e B). unfold hbw_run, hb_run in IH. rewrite IH by reflexivity. reflexivity.
Qed.

Lemma hbw_blocked_stays T : forall evs st, w_blocked st = true -> hbw_run T st evs = st.
Proof.
  induction evs as [|e evs IH]; intros st B; [reflexivity|].
  cbn [hbw_run fold_left]. unfold hbw_step at 2. rewrite B. apply IH. exact B.
Qed.

(* the finding: the monitor is open with nothing outstanding (right after an answer), the next tick's write never returns:
   whatever happens afterwards -- any ticks, any silence, any horizon -- the session is never closed by the monitor *)
Theorem stalled_write_never_detected T st0 s more t :
  w_blocked st0 = false -> hb_closed (w_hb st0) = None -> hb_out (w_hb st0) = None ->
  hb_closed (w_hb (hbw_expire T (hbw_run T st0 ((HTick s, true) :: more)) t)) = None.
Proof.
  intros B C O. cbn [hbw_run fold_left].
  assert (w_blocked (hbw_step T st0 (HTick s, true)) = true /\ hb_closed (w_hb (hbw_step T st0 (HTick s, true))) = None) as [B1 C1].
  { unfold hbw_step. rewrite B. cbn [fst snd].
    assert (hb_closed (hb_step T (w_hb st0) (HTick s)) = None) as E.
    { unfold hb_step, hb_expire. rewrite C, O. cbn. rewrite C. reflexivity. }
    rewrite E. cbn. split; [reflexivity | exact E]. }
  change (fold_left (hbw_step T) more (hbw_step T st0 (HTick s, true))) with (hbw_run T (hbw_step T st0 (HTick s, true)) more).
  rewrite (hbw_blocked_stays T more _ B1). unfold hbw_expire. rewrite B1. exact C1.
Qed.
