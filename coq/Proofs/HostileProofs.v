(* HostileProofs.v -- C20 on the dispatch machine (Model/Session.v): whatever frames a peer sends, the
   session state stays well-formed; nothing but a fatal Alert (or, on a mis-configured server, a scheme that
   cannot be framed) ends the session, and an Alert ends it cleanly. *)
From Coq Require Import List NArith ZArith Lia Bool.
From AnyTLS Require Import Bytes Cmd Generated Frame FrameProofs Reader Session SessTable SessHandle SessRecv.
Import ListNotations.
Import Sess.

Lemma handle_all_survives c fs : forall st,
  cfg_ok c -> wf_sess st -> Forall no_alert fs ->
  let st' := fst (handle_all c st fs) in
  wf_sess st' /\ s_closed st' = s_closed st /\ dead st' = dead st.
Proof.
  induction fs as [|f fs IH]; intros st Hc Hw Hn; cbn [handle_all fst]; [auto|].
  inversion Hn as [|? ? Hf Hn']; subst.
  destruct (dead st) eqn:Ed; [cbn [fst]; auto|].
  destruct (handle c st f) as [st1 o1] eqn:E1.
  pose proof (handle_wf c st f Hw) as W1. rewrite E1 in W1. cbn [fst] in W1.
  destruct (handle_flags c st f Hf) as (F1 & _ & _ & F4). rewrite E1 in F1, F4. cbn [fst] in F1, F4.
  specialize (F4 Hc).
  specialize (IH st1 Hc W1 Hn'). destruct (handle_all c st1 fs) as [st2 o2]. cbn [fst] in *.
  destruct IH as (A & B & C). repeat split; [exact A | congruence | congruence].
Qed.

(* a fatal Alert: closed, dead, tables drained, exactly one Closed event *)
Lemma alert_closes_cleanly c st f :
  fcmd f = Alert -> s_closed st = false ->
  let '(st', o) := handle c st f in
  s_closed st' = true /\ dead st' = true /\ tbl st' = [] /\ sendq st' = [] /\ o = [Closed].
Proof.
  intros Hf Hc. unfold handle. rewrite Hf. unfold close. rewrite Hc. cbn. repeat split; reflexivity.
Qed.

(* nothing is processed after the session died: the rest of a hostile stream is inert *)
Lemma dead_is_inert c st carry chunks : dead st = true -> recv_all c st carry chunks = (st, carry, []).
Proof. apply recv_all_dead. Qed.
