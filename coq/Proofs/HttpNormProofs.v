(* HttpNormProofs.v -- C17: the normalised Host line names the same authority (decimal printing of the port is
   exact for every u16), so the forwarded request is again a well-formed request for the same target --
   except that a port 443 is omitted like a port 80 (known finding C17-host-port-elision, witnessed below). *)
From Coq Require Import List NArith ZArith Lia Bool.
From AnyTLS Require Import Bytes BytesFacts Generated HttpText Http HttpTextFacts HttpParseProofs.
Import ListNotations.
Open Scope N_scope.
Ltac Zify.zify_post_hook ::= Z.to_euclidean_division_equations.

(* all numbers s .. s + 2^k - 1 *)
Fixpoint nrange (k : nat) (s : N) : list N :=
  match k with
  | O => [s]
  | S k' => nrange k' s ++ nrange k' (s + 2 ^ N.of_nat k')
  end.

Lemma nrange_in k : forall s p, p < 2 ^ N.of_nat k -> In (s + p) (nrange k s).
Proof.
  induction k as [|k IH]; intros s p H.
  - cbn in H. assert (p = 0) by lia. subst. rewrite N.add_0_r. now left.
  - rewrite Nat2N.inj_succ, N.pow_succ_r' in H. cbn [nrange]. apply in_or_app.
    destruct (N.lt_ge_cases p (2 ^ N.of_nat k)) as [L|G].
    + left. now apply IH.
    + right. replace (s + p) with ((s + 2 ^ N.of_nat k) + (p - 2 ^ N.of_nat k)) by lia. apply IH. lia.
Qed.

Definition dec_digits (p : N) : list N := map (fun c => c - 48) (h_dec p).
Definition dec_ok (p : N) : bool :=
  negb (h_nil (dec_digits p)) && wf_digitsb (dec_digits p) && (digits_value (dec_digits p) =? p).

(* finite domain (every u16), checked by computation *)
Lemma dec_ok_all : forallb dec_ok (nrange 16 0) = true.
Proof. vm_compute. reflexivity. Qed.

Lemma dec_ok_u16 p : p < 65536 -> dec_ok p = true.
Proof.
  intros H. pose proof dec_ok_all as A. rewrite forallb_forall in A. apply A.
  replace p with (0 + p) by lia. apply nrange_in. exact H.
Qed.

Lemma auth_port_u16 a d : wf_authb a = true -> d < 65536 -> auth_port a d < 65536.
Proof.
  unfold wf_authb, auth_port. intros H Hd. apply andb_true_iff in H. destruct H as [_ H].
  destruct (au_port a) as [[|x ds]|]; try assumption.
  apply wf_digits_split in H. lia.
Qed.

Lemma norm_host_hdr_wf h p : wf_hostb h = true -> p < 65536 -> wf_host_hdrb (norm_host_hdr h p) = true.
Proof.
  intros Hh Hp. unfold wf_host_hdrb, norm_host_hdr, wf_authb. cbn [hh_name hh_pre hh_post hh_auth au_host au_port].
  rewrite Hh. destruct ((p =? 80) || (p =? 443)); [reflexivity|].
  pose proof (dec_ok_u16 _ Hp) as D. unfold dec_ok, dec_digits in D.
  apply andb_true_iff in D. destruct D as [D _]. apply andb_true_iff in D. destruct D as [_ D]. now rewrite D.
Qed.

Lemma norm_host_hdr_port h p : p < 65536 ->
  auth_port (hh_auth (norm_host_hdr h p)) 80 = if p =? 443 then 80 else p.
Proof.
  intros Hp. unfold norm_host_hdr, auth_port. cbn [hh_auth au_port].
  destruct (N.eqb_spec p 80) as [->|N80]; [reflexivity|]. destruct (N.eqb_spec p 443) as [->|N443]; [reflexivity|].
  cbn [orb]. pose proof (dec_ok_u16 _ Hp) as D. unfold dec_ok, dec_digits in D.
  apply andb_true_iff in D. destruct D as [D V]. apply andb_true_iff in D. destruct D as [D _].
  apply N.eqb_eq in V. destruct (map (fun c => c - 48) (h_dec p)) as [|x ds]; [discriminate|]. exact V.
Qed.

(* the forwarded request is a well-formed origin-form request that names the same host, and the same port unless
   the port is 443 (then its Host line, having no port, means 80) *)
Lemma origin_form_names_same_target r host port :
  wf_req r = true -> is_connect_req r = false -> spec_target r = Some (host, port) ->
  spec_target (origin_form r) = Some (host, if port =? 443 then 80 else port) /\
  is_connect_req (origin_form r) = false /\
  wf_host_hdrb (match r_host (origin_form r) with Some hh => hh | None => norm_host_hdr (HName []) 0 end) = true.
Proof.
  intros Hwf Hnc Hs. unfold wf_req in Hwf.
  apply andb_true_iff in Hwf. destruct Hwf as [H Hh].
  apply andb_true_iff in H. destruct H as [H _]. apply andb_true_iff in H. destruct H as [H _].
  apply andb_true_iff in H. destruct H as [_ Ht].
  assert (HA : exists a d, target_authority r = Some (a, d) /\ wf_authb a = true /\ d < 65536 /\
                           host = host_text (au_host a) /\ port = auth_port a d).
  { unfold target_authority, spec_target, wf_targetb, is_connect_req in *.
    destruct (r_target r) as [a|https sch a pq|p]; [discriminate| |].
    - bool_hyps. exists a, (if https then 443 else 80). inversion Hs.
      assert ((if https then 443 else 80) < 65536) by (destruct https; lia). repeat split; assumption.
    - destruct (r_host r) as [hh|]; [|discriminate]. exists (hh_auth hh), 80. inversion Hs.
      unfold wf_host_hdrb in Hh. bool_hyps. assert (80 < 65536) by lia. repeat split; assumption. }
  destruct HA as (a & d & HTA & Hwa & Hd & -> & ->).
  assert (Hwh : wf_hostb (au_host a) = true) by (unfold wf_authb in Hwa; now bool_hyps).
  pose proof (auth_port_u16 _ _ Hwa Hd) as Hp.
  unfold origin_form. rewrite HTA.
  destruct (r_host r) as [hh|]; unfold spec_target, is_connect_req; cbn [r_target r_host];
    (split; [|split; [reflexivity|now apply norm_host_hdr_wf]]);
    unfold auth_target; rewrite (norm_host_hdr_port _ _ Hp); reflexivity.
Qed.

(* the known finding, formally: a well-formed request for port 443 whose forwarded form names port 80 *)
Lemma known_host_port_elision :
  exists r, wf_req r = true /\ is_connect_req r = false /\
            spec_target r = Some ([97], 443) /\ spec_target (origin_form r) = Some ([97], 80).
Proof.
  exists {| r_method := [71; 69; 84]; r_target := TOrigin [47]; r_version := k_http11; r_before := [];
            r_host := Some {| hh_name := [72; 111; 115; 116]; hh_pre := [32];
                              hh_auth := {| au_host := HName [97]; au_port := Some [4; 4; 3] |}; hh_post := [] |};
            r_after := []; r_body := [] |}.
  vm_compute. repeat split.
Qed.
