(* HttpParseProofs.v -- C17: split_host_port, determine_target, parse_http_request and build_forward_request
   against the abstract syntax of Model/Http.v (per function, then composed). *)
From Coq Require Import List NArith ZArith Lia Bool String.
From AnyTLS Require Import Bytes BytesFacts Generated FactsCore FactsHttp HttpText Http HttpTextFacts.
Import ListNotations.
Open Scope N_scope.
Ltac Zify.zify_post_hook ::= Z.to_euclidean_division_equations.

(* the spelled-out literals are the ASCII strings they stand for *)
Lemma lit_ok :
  k_connect = bs "CONNECT"%string /\ k_host_colon = bs "host:"%string /\ k_http = bs "http://"%string /\
  k_https = bs "https://"%string /\ k_scheme_sep = bs "://"%string /\ k_http11 = bs "HTTP/1.1"%string /\
  k_host_sp = bs "Host: "%string /\ k_crlf = [13; 10] /\
  [c_colon; c_slash; c_qmark; c_star; c_lbr; c_rbr; c_sp] = bs ":/?*[] "%string.
Proof. vm_compute. repeat split. Qed.

(* ---- boolean plumbing ---- *)
Ltac bool_hyps :=
  repeat match goal with
         | H : _ && _ = true |- _ => apply andb_true_iff in H; destruct H
         | H : negb _ = true |- _ => apply negb_true_iff in H
         end.

Lemma forallb_nof (g f : N -> bool) s :
  (forall c, g c = true -> f c = false) -> forallb g s = true -> nof f s = true.
Proof.
  intros H Hs. unfold nof. eapply forallb_imp; [|exact Hs]. intros c Hc. cbn. now rewrite (H c Hc).
Qed.

Lemma ws_not c x : h_is_ws c = false -> h_is_ws x = true -> (c =? x) = false.
Proof. intros H1 H2. destruct (N.eqb_spec c x); [subst; congruence|reflexivity]. Qed.

(* character classes *)
Lemma host_char_facts c : host_charb c = true ->
  h_is_ws c = false /\ (c =? 58) = false /\ (c =? 47) = false /\ (c =? 63) = false /\
  (c =? 91) = false /\ (c =? 93) = false /\ (c =? 13) = false.
Proof.
  unfold host_charb, c_colon, c_slash, c_qmark, c_lbr, c_rbr. intros H. bool_hyps.
  repeat split; try assumption. now apply ws_not.
Qed.

Lemma v6_char_facts c : v6_charb c = true ->
  h_is_ws c = false /\ (c =? 47) = false /\ (c =? 63) = false /\
  (c =? 91) = false /\ (c =? 93) = false /\ (c =? 13) = false.
Proof.
  unfold v6_charb, c_slash, c_qmark, c_lbr, c_rbr. intros H. bool_hyps.
  repeat split; try assumption. now apply ws_not.
Qed.

Lemma digit_char_facts d : d < 10 ->
  h_is_ws (48 + d) = false /\ (48 + d =? 58) = false /\ (48 + d =? 47) = false /\ (48 + d =? 63) = false /\
  (48 + d =? 91) = false /\ (48 + d =? 93) = false /\ (48 + d =? 13) = false.
Proof.
  intros H. unfold h_is_ws.
  repeat split; repeat match goal with
    | |- context [N.leb ?a ?b] => destruct (N.leb_spec a b)
    | |- context [N.eqb ?a ?b] => destruct (N.eqb_spec a b)
    end; cbn; try reflexivity; lia.
Qed.

Definition clsb (c : N) : bool :=       (* a byte that is none of: white space, '/', '?' *)
  negb (h_is_ws c) && negb (c =? 47) && negb (c =? 63).

(* ---- authority text ---- *)
Lemma digits_text_nof f ds :
  digitsb ds = true -> (forall d, d < 10 -> f (48 + d) = false) -> nof f (digits_text ds) = true.
Proof.
  intros Hd Hf. unfold nof, digits_text. rewrite forallb_forall. intros x Hx.
  apply in_map_iff in Hx. destruct Hx as (d & <- & Hin).
  unfold digitsb in Hd. rewrite forallb_forall in Hd. specialize (Hd d Hin). apply N.ltb_lt in Hd.
  now rewrite (Hf d Hd).
Qed.

Lemma wf_digits_split ds : wf_digitsb ds = true -> digitsb ds = true /\ digits_value ds <= 65535.
Proof. unfold wf_digitsb. intros H. bool_hyps. split; [assumption|now apply N.leb_le]. Qed.

Lemma render_host_nof f h :
  wf_hostb h = true ->
  (forall c, host_charb c = true -> f c = false) -> (forall c, v6_charb c = true -> f c = false) ->
  f 91 = false -> f 93 = false -> nof f (render_host h) = true.
Proof.
  intros Hw H1 H2 Hl Hr. destruct h as [s|s]; cbn [render_host wf_hostb] in *; bool_hyps.
  - eapply forallb_nof; [|eassumption]; assumption.
  - unfold c_lbr, c_rbr. rewrite nof_cons, Hl. cbn [negb andb]. rewrite nof_app, nof_cons, Hr. cbn.
    rewrite andb_true_r. eapply forallb_nof; [|eassumption]; assumption.
Qed.

Lemma render_auth_nof f a :
  wf_authb a = true ->
  (forall c, host_charb c = true -> f c = false) -> (forall c, v6_charb c = true -> f c = false) ->
  (forall d, d < 10 -> f (48 + d) = false) ->
  f 91 = false -> f 93 = false -> f 58 = false -> nof f (render_auth a) = true.
Proof.
  intros Hw H1 H2 Hd Hl Hr Hc. unfold wf_authb in Hw. bool_hyps. unfold render_auth.
  rewrite nof_app. rewrite render_host_nof by assumption. cbn [andb].
  destruct (au_port a) as [ds|]; [|reflexivity].
  unfold c_colon. rewrite nof_cons, Hc. cbn [negb andb]. apply digits_text_nof; [|exact Hd].
  now apply wf_digits_split.
Qed.

Lemma render_auth_no_ws a : wf_authb a = true -> no_ws (render_auth a) = true.
Proof.
  intros H. apply render_auth_nof; try exact H; try reflexivity.
  - intros c Hc. apply host_char_facts in Hc. tauto.
  - intros c Hc. apply v6_char_facts in Hc. tauto.
  - intros d Hd. apply digit_char_facts in Hd. tauto.
Qed.

Lemma render_auth_no_end a : wf_authb a = true -> nof is_authority_end (render_auth a) = true.
Proof.
  intros H. unfold is_authority_end, c_slash, c_qmark. apply render_auth_nof; try exact H; try reflexivity.
  - intros c Hc. apply host_char_facts in Hc. destruct Hc as (_ & _ & -> & -> & _). reflexivity.
  - intros c Hc. apply v6_char_facts in Hc. destruct Hc as (_ & -> & -> & _). reflexivity.
  - intros d Hd. apply digit_char_facts in Hd. destruct Hd as (_ & _ & -> & -> & _). reflexivity.
Qed.

Lemma render_host_nonempty h : wf_hostb h = true -> h_nil (render_host h) = false.
Proof. destruct h as [s|s]; cbn; intros H; bool_hyps; [assumption|reflexivity]. Qed.

Lemma render_auth_nonempty a : wf_authb a = true -> h_nil (render_auth a) = false.
Proof.
  unfold wf_authb, render_auth. intros H. bool_hyps. rewrite h_nil_app, render_host_nonempty by assumption.
  reflexivity.
Qed.

(* ---- split_host_port on a well-formed authority ---- *)
Lemma dropN_app_plus {A} (a b : list A) n : dropN (lenN a + n) (a ++ b) = dropN n b.
Proof. rewrite dropN_add, dropN_app_exact. reflexivity. Qed.

Lemma clean_host_plain s :
  no_ws s = true -> nof (fun x => x =? 91) s = true -> nof (fun x => x =? 93) s = true -> clean_host s = s.
Proof.
  intros H1 H2 H3. unfold clean_host, h_trim, h_trim_matches, c_lbr, c_rbr.
  rewrite (trim_by_keep _ _ H1), (trim_by_keep _ _ H2), (trim_by_keep _ _ H3). reflexivity.
Qed.

Lemma trim_by_strip_l f pre s : forallb f pre = true -> nof f s = true -> h_trim_by f (pre ++ s) = s.
Proof. intros H1 H2. rewrite <- (trim_by_strip f pre s [] H1 eq_refl H2) at 2. now rewrite app_nil_r. Qed.

Lemma trim_by_strip_r f s post : forallb f post = true -> nof f s = true -> h_trim_by f (s ++ post) = s.
Proof. intros H1 H2. exact (trim_by_strip f [] s post eq_refl H1 H2). Qed.

Lemma clean_host_bracketed s :
  no_ws s = true -> nof (fun x => x =? 91) s = true -> nof (fun x => x =? 93) s = true ->
  clean_host (91 :: s ++ [93]) = s.
Proof.
  intros H1 H2 H3. unfold clean_host, h_trim, h_trim_matches, c_lbr, c_rbr.
  rewrite (trim_by_keep h_is_ws (91 :: s ++ [93]))
    by (unfold no_ws in H1; rewrite nof_cons, nof_app, H1; reflexivity).
  change (91 :: s ++ [93]) with ([91] ++ (s ++ [93])).
  rewrite (trim_by_strip_l (fun x => x =? 91) [91] (s ++ [93]) eq_refl)
    by (rewrite nof_app, H2; reflexivity).
  now apply trim_by_strip_r.
Qed.

Lemma host_text_clean h : wf_hostb h = true -> clean_host (render_host h) = host_text h.
Proof.
  destruct h as [s|s]; cbn [wf_hostb render_host host_text]; intros H; bool_hyps.
  - apply clean_host_plain; (eapply forallb_nof; [|eassumption]); intros c Hc; apply host_char_facts in Hc; tauto.
  - unfold c_lbr, c_rbr. apply clean_host_bracketed; (eapply forallb_nof; [|eassumption]);
      intros c Hc; apply v6_char_facts in Hc; tauto.
Qed.

Lemma parse_u16_digits d ds :
  wf_digitsb (d :: ds) = true -> h_parse_u16 (digits_text (d :: ds)) = Some (digits_value (d :: ds)).
Proof.
  intros H. apply wf_digits_split in H. destruct H as [H1 H2].
  unfold h_parse_u16, digits_text, digits_value. now apply parse_uint_digits.
Qed.

Lemma shp_with_port hs ds default :
  nof (fun x => x =? 58) hs = true \/ h_contains_byte 93 hs = true ->
  wf_digitsb ds = true ->
  split_host_port (hs ++ 58 :: digits_text ds) default =
  (clean_host hs, match ds with d :: ds0 => digits_value (d :: ds0) | [] => default end).
Proof.
  intros Hh Hd. unfold split_host_port, c_colon, c_rbr.
  assert (Hn : nof (fun x => x =? 58) (digits_text ds) = true).
  { apply digits_text_nof; [now apply wf_digits_split|]. intros d L. apply digit_char_facts in L. tauto. }
  rewrite (h_rfind_last _ _ _ Hn), takeN_app_exact.
  replace (h_contains_byte 58 hs && negb (h_contains_byte 93 (hs ++ 58 :: digits_text ds))) with false.
  2:{ destruct Hh as [Hh|Hh].
      - rewrite contains_nof, Hh. reflexivity.
      - rewrite contains_app, Hh. cbn. now rewrite andb_false_r. }
  replace (hs ++ 58 :: digits_text ds) with (hs ++ [58] ++ digits_text ds) by reflexivity.
  rewrite app_assoc.
  replace (lenN hs + 1) with (lenN (hs ++ [58])) by (rewrite lenN_app; reflexivity).
  rewrite dropN_app_exact.
  destruct ds as [|d ds]; [reflexivity|].
  cbn [digits_text map h_nil]. change (48 + d :: map (fun d0 => 48 + d0) ds) with (digits_text (d :: ds)).
  now rewrite (parse_u16_digits _ _ Hd).
Qed.

Lemma shp_auth a default : wf_authb a = true -> split_host_port (render_auth a) default = auth_target a default.
Proof.
  intros Hw. unfold wf_authb in Hw. apply andb_true_iff in Hw. destruct Hw as [Hh Hp].
  unfold render_auth, auth_target, auth_port.
  destruct (au_port a) as [ds|].
  - unfold c_colon. rewrite shp_with_port; [now rewrite host_text_clean| |exact Hp].
    destruct (au_host a) as [s|s]; cbn [wf_hostb render_host] in *; bool_hyps.
    + left. eapply forallb_nof; [|eassumption]. intros c Hc. apply host_char_facts in Hc. tauto.
    + right. unfold c_lbr, c_rbr. change (91 :: s ++ [93]) with ([91] ++ s ++ [93]).
      rewrite !contains_app. change (h_contains_byte 93 [93]) with true. now rewrite !orb_true_r.
  - rewrite app_nil_r.
    destruct (au_host a) as [s|s] eqn:Eh; cbn [wf_hostb render_host host_text] in *; bool_hyps.
    + unfold split_host_port, c_colon.
      rewrite h_rfind_none.
      * assert (E : clean_host s = s) by (apply (host_text_clean (HName s)); cbn [wf_hostb]; now rewrite H, H0).
        now rewrite E.
      * eapply forallb_nof; [|eassumption]. intros c Hc. apply host_char_facts in Hc. tauto.
    + (* [v6]: the last colon is inside the brackets; what follows it ends in ']' and is not a port *)
      assert (Hclean : clean_host (91 :: s ++ [93]) = s).
      { apply (host_text_clean (HV6 s)). cbn [wf_hostb]. now rewrite H, H0. }
      unfold c_colon in H. destruct (contains_split_last _ _ H) as (x & y & -> & Hy).
      unfold split_host_port, c_colon, c_rbr, c_lbr.
      replace (91 :: (x ++ 58 :: y) ++ [93]) with ((91 :: x) ++ 58 :: (y ++ [93]))
        by (cbn; rewrite <- app_assoc; reflexivity).
      rewrite h_rfind_last by (rewrite nof_app, Hy; reflexivity).
      rewrite takeN_app_exact.
      assert (C : h_contains_byte 93 ((91 :: x) ++ 58 :: y ++ [93]) = true).
      { change ((91 :: x) ++ 58 :: y ++ [93]) with ((91 :: x) ++ (58 :: y) ++ [93]). rewrite !contains_app.
        change (h_contains_byte 93 [93]) with true. now rewrite !orb_true_r. }
      rewrite C. cbn [negb]. rewrite andb_false_r.
      replace ((91 :: x) ++ 58 :: y ++ [93]) with ((91 :: x) ++ [58] ++ (y ++ [93])) by reflexivity.
      rewrite app_assoc.
      replace (lenN (91 :: x) + 1) with (lenN ((91 :: x) ++ [58])) by (rewrite lenN_app; reflexivity).
      rewrite dropN_app_exact.
      replace (h_nil (y ++ [93])) with false by (destruct y; reflexivity).
      unfold h_parse_u16. rewrite parse_uint_bad_last by (reflexivity || discriminate).
      f_equal. rewrite <- Hclean. f_equal. cbn. rewrite <- !app_assoc. reflexivity.
Qed.

(* ---- lower-casing never creates or removes white space, ':' or CR ---- *)
Lemma nof_lower f s :
  (forall c, f c = true -> h_lower c = c) -> nof f (h_to_lower s) = true -> nof f s = true.
Proof.
  intros Hf. induction s as [|x s IH]; [reflexivity|].
  cbn [h_to_lower map]. rewrite !nof_cons. intros H. bool_hyps.
  rewrite (IH H0), andb_true_r. destruct (f x) eqn:E; [|reflexivity].
  rewrite (Hf x E) in H. congruence.
Qed.

Lemma lower_fix_ws c : h_is_ws c = true -> h_lower c = c.
Proof.
  unfold h_is_ws, h_lower. intros H.
  destruct (N.leb_spec 65 c), (N.leb_spec c 90); cbn [andb]; try reflexivity.
  exfalso. destruct (N.leb_spec 9 c), (N.leb_spec c 13), (N.eqb_spec c 32); cbn in H; try discriminate; lia.
Qed.

Lemma lower_fix_eq k c : k < 65 -> (c =? k) = true -> h_lower c = c.
Proof.
  intros Hk H. apply N.eqb_eq in H. subst. unfold h_lower.
  destruct (N.leb_spec 65 k); [lia|reflexivity].
Qed.

Lemma no_ws_no_cr s : no_ws s = true -> no_cr s = true.
Proof.
  unfold no_ws, no_cr. apply nof_weaken. intros c H. apply N.eqb_eq in H. subst. reflexivity.
Qed.

(* ---- the Host header line ---- *)
Lemma lower_name_len4 name x1 x2 x3 x4 :
  h_to_lower name = [x1; x2; x3; x4] -> exists a b c d, name = [a; b; c; d].
Proof.
  destruct name as [|a [|b [|c [|d [|e ?]]]]]; cbn; intros H; try discriminate. now exists a, b, c, d.
Qed.

Lemma ows_ws s : owsb s = true -> forallb h_is_ws s = true.
Proof.
  unfold owsb. apply forallb_imp. intros c H.
  destruct (N.eqb_spec c 32); [subst; reflexivity|]. destruct (N.eqb_spec c 9); [subst; reflexivity|discriminate].
Qed.

Lemma ows_no_cr s : owsb s = true -> no_cr s = true.
Proof.
  unfold owsb, no_cr, nof. apply forallb_imp. intros c H.
  destruct (N.eqb_spec c 13); [subst; discriminate|reflexivity].
Qed.

Lemma host_line_is hh : wf_host_hdrb hh = true -> is_host_line (render_host_line hh) = true.
Proof.
  unfold wf_host_hdrb. intros H. bool_hyps. apply bytes_eqb_eq in H.
  unfold is_host_line, render_host_line. rewrite to_lower_app, H. reflexivity.
Qed.

Lemma host_line_value hh :
  wf_host_hdrb hh = true -> h_trim (dropN 5 (render_host_line hh)) = render_auth (hh_auth hh).
Proof.
  unfold wf_host_hdrb. intros H. bool_hyps. apply bytes_eqb_eq in H.
  destruct (lower_name_len4 _ _ _ _ _ H) as (a & b & c & d & E).
  unfold render_host_line. rewrite E.
  replace (dropN 5 ([a; b; c; d] ++ c_colon :: hh_pre hh ++ render_auth (hh_auth hh) ++ hh_post hh))
    with (hh_pre hh ++ render_auth (hh_auth hh) ++ hh_post hh) by reflexivity.
  unfold h_trim. apply trim_by_strip; [now apply ows_ws | now apply ows_ws | now apply render_auth_no_ws].
Qed.

Lemma host_line_no_cr hh : wf_host_hdrb hh = true -> no_cr (render_host_line hh) = true.
Proof.
  unfold wf_host_hdrb. intros H. bool_hyps. apply bytes_eqb_eq in H.
  unfold render_host_line, no_cr, c_colon. rewrite nof_app, nof_cons, !nof_app.
  rewrite (nof_lower (fun c => c =? 13) (hh_name hh)).
  - fold (no_cr (hh_pre hh)) (no_cr (hh_post hh)) (no_cr (render_auth (hh_auth hh))).
    rewrite (ows_no_cr _ H2), (ows_no_cr _ H1), (no_ws_no_cr _ (render_auth_no_ws _ H0)). reflexivity.
  - intros c. apply lower_fix_eq. lia.
  - rewrite H. reflexivity.
Qed.

Lemma host_line_nonempty hh : wf_host_hdrb hh = true -> h_nil (render_host_line hh) = false.
Proof. unfold render_host_line. intros _. rewrite h_nil_app. cbn. apply andb_false_r. Qed.

Lemma plain_line_facts l : plain_lineb l = true -> h_nil l = false /\ no_cr l = true /\ is_host_line l = false.
Proof.
  unfold plain_lineb. intros H. bool_hyps. repeat split; try assumption.
  unfold no_cr, nof. eapply forallb_imp; [|eassumption]. intros c Hc. cbn in Hc. bool_hyps. now rewrite H2.
Qed.

Lemma find_host_before before l after :
  forallb plain_lineb before = true -> is_host_line l = true ->
  find_host_header (before ++ l :: after) = Some (h_trim (dropN 5 l)).
Proof.
  intros Hb Hl. induction before as [|x before IH]; cbn [app find_host_header].
  - now rewrite Hl.
  - cbn in Hb. bool_hyps. destruct (plain_line_facts _ H) as (_ & _ & E). rewrite E. now apply IH.
Qed.

Lemma find_host_none ls : forallb plain_lineb ls = true -> find_host_header ls = None.
Proof.
  induction ls as [|x ls IH]; intros H; [reflexivity|]. cbn in H. bool_hyps.
  destruct (plain_line_facts _ H) as (_ & _ & E). cbn [find_host_header]. rewrite E. now apply IH.
Qed.

Lemma exists_host_none ls : forallb plain_lineb ls = true -> existsb is_host_line ls = false.
Proof.
  induction ls as [|x ls IH]; intros H; [reflexivity|]. cbn in H. bool_hyps.
  destruct (plain_line_facts _ H) as (_ & _ & E). cbn [existsb]. rewrite E. now apply IH.
Qed.

Lemma rewrite_plain hv ls : forallb plain_lineb ls = true -> concat (map (rewrite_line hv) ls) = render_lines ls.
Proof.
  induction ls as [|x ls IH]; intros H; [reflexivity|]. cbn in H. bool_hyps.
  destruct (plain_line_facts _ H) as (E1 & _ & E2).
  cbn [map concat]. unfold render_lines. cbn [map concat]. fold (render_lines ls).
  rewrite (IH H0). unfold rewrite_line. now rewrite E1, E2.
Qed.

Lemma render_lines_app a b : render_lines (a ++ b) = render_lines a ++ render_lines b.
Proof. unfold render_lines. now rewrite map_app, concat_app. Qed.

(* ---- determine_target ---- *)
Lemma dt_connect m a hs :
  h_eq_ignore_case m k_connect = true -> wf_authb a = true ->
  determine_target m (render_auth a) hs = HOk (host_text (au_host a), auth_port a 443, [], true).
Proof.
  intros Hm Ha. unfold determine_target. rewrite Hm. change http_default_port_connect with 443.
  rewrite (shp_auth _ _ Ha). reflexivity.
Qed.

Lemma dt_origin m p hs a :
  h_eq_ignore_case m k_connect = false ->
  h_starts_with [c_slash] p || h_starts_with [c_star] p = true ->
  find_host_header hs = Some (render_auth a) -> wf_authb a = true ->
  determine_target m p hs = HOk (host_text (au_host a), auth_port a 80, p, false).
Proof.
  intros Hm Hp Hf Ha. unfold determine_target. rewrite Hm, Hf.
  assert (Hs : h_starts_with k_http (h_to_lower p) = false /\ h_starts_with k_https (h_to_lower p) = false).
  { destruct p as [|c p']; [discriminate|]. unfold c_slash, c_star in Hp. cbn [h_starts_with] in Hp.
    destruct (N.eqb_spec 47 c); [subst; split; reflexivity|].
    destruct (N.eqb_spec 42 c); [subst; split; reflexivity|discriminate]. }
  destruct Hs as [-> ->]. cbn [orb]. rewrite (render_auth_nonempty _ Ha).
  change http_default_port_http with 80. rewrite (shp_auth _ _ Ha), Hp. reflexivity.
Qed.

Definition abs_path (pq : bytes) : bytes :=
  match pq with
  | [] => [c_slash]
  | c :: _ => if c =? c_slash then pq else c_slash :: pq
  end.

Lemma scheme_facts https sch :
  wf_schemeb https sch = true ->
  h_to_lower sch = (if https then [104; 116; 116; 112; 115] else [104; 116; 116; 112]) /\
  nof (fun x => x =? 58) sch = true /\ no_ws sch = true /\ h_nil sch = false.
Proof.
  unfold wf_schemeb. intros H. apply bytes_eqb_eq in H. split; [exact H|]. split; [|split].
  - apply (nof_lower (fun c => c =? 58)); [intros c; apply lower_fix_eq; lia|]. rewrite H. now destruct https.
  - apply (nof_lower h_is_ws); [apply lower_fix_ws|]. rewrite H. now destruct https.
  - destruct sch; [destruct https; discriminate|reflexivity].
Qed.

Lemma sw_scheme_lits Z :
  h_starts_with k_http ([104; 116; 116; 112] ++ k_scheme_sep ++ Z) = true /\
  h_starts_with k_https ([104; 116; 116; 112] ++ k_scheme_sep ++ Z) = false /\
  h_starts_with k_http ([104; 116; 116; 112; 115] ++ k_scheme_sep ++ Z) = false /\
  h_starts_with k_https ([104; 116; 116; 112; 115] ++ k_scheme_sep ++ Z) = true.
Proof. repeat split; reflexivity. Qed.

Lemma dt_absolute m https sch a pq hs :
  h_eq_ignore_case m k_connect = false -> wf_schemeb https sch = true -> wf_authb a = true -> wf_pqb pq = true ->
  determine_target m (sch ++ k_scheme_sep ++ render_auth a ++ pq) hs =
  HOk (host_text (au_host a), auth_port a (if https then 443 else 80), abs_path pq, false).
Proof.
  intros Hm Hs Ha Hq. destruct (scheme_facts _ _ Hs) as (Hl & H58 & _ & _).
  unfold determine_target. rewrite Hm. rewrite to_lower_app, Hl, to_lower_app.
  change (h_to_lower k_scheme_sep) with k_scheme_sep.
  assert (Hfind : h_find k_scheme_sep (sch ++ k_scheme_sep ++ render_auth a ++ pq) = Some (lenN sch)).
  { unfold k_scheme_sep. change ([58; 47; 47] ++ render_auth a ++ pq) with (58 :: [47; 47] ++ render_auth a ++ pq).
    now apply h_find_first. }
  rewrite Hfind, dropN_app_plus.
  replace (dropN 3 (k_scheme_sep ++ render_auth a ++ pq)) with (render_auth a ++ pq) by reflexivity.
  destruct (sw_scheme_lits (h_to_lower (render_auth a ++ pq))) as (E1 & E2 & E3 & E4).
  change http_default_port_https with 443. change http_default_port_http with 80.
  pose proof (render_auth_no_end _ Ha) as Hend.
  unfold wf_pqb in Hq. apply andb_true_iff in Hq. destruct Hq as [_ Hq].
  assert (Hgoal : forall port,
    (let '(host, path) :=
       match h_find_if is_authority_end (render_auth a ++ pq) with
       | Some pos => (takeN pos (render_auth a ++ pq), dropN pos (render_auth a ++ pq))
       | None => (render_auth a ++ pq, [c_slash])
       end in
     if h_nil host then HErr
     else let '(host_only, port_resolved) := split_host_port host port in
          let path' := if h_starts_with [c_slash] path || h_starts_with [c_star] path then path else c_slash :: path in
          HOk (host_only, port_resolved, path', false)) =
    HOk (host_text (au_host a), auth_port a port, abs_path pq, false)).
  { intros port. destruct pq as [|c pq'].
    - rewrite app_nil_r, (h_find_if_none _ _ Hend), (render_auth_nonempty _ Ha), (shp_auth _ _ Ha). reflexivity.
    - rewrite (h_find_if_first _ _ _ _ Hend Hq), takeN_app_exact, dropN_app_exact.
      rewrite (render_auth_nonempty _ Ha), (shp_auth _ _ Ha).
      unfold abs_path, auth_target, c_slash, c_star. cbn [h_starts_with].
      unfold is_authority_end, c_slash, c_qmark in Hq.
      destruct (N.eqb_spec 47 c) as [<-|N47]; [reflexivity|].
      destruct (N.eqb_spec c 47) as [E|_]; [congruence|].
      destruct (N.eqb_spec 42 c) as [<-|_]; [discriminate|]. reflexivity. }
  destruct https; cbn match in *.
  - rewrite E3, E4. cbn [orb]. rewrite <- (Hgoal 443).
    destruct (h_find_if is_authority_end (render_auth a ++ pq)); reflexivity.
  - rewrite E1, E2. cbn [orb]. rewrite <- (Hgoal 80).
    destruct (h_find_if is_authority_end (render_auth a ++ pq)); reflexivity.
Qed.

(* ---- parse_http_request on a rendered request ---- *)
Lemma token_facts s : tokenb s = true -> h_nil s = false /\ no_ws s = true.
Proof.
  unfold tokenb. intros H. bool_hyps. split; [assumption|].
  unfold no_ws, nof. eapply forallb_imp; [|eassumption]. intros c Hc. cbn beta in Hc.
  apply andb_true_iff in Hc. exact (proj1 Hc).
Qed.

Lemma split_crlf_lines (ls : list bytes) :
  forallb no_cr ls = true -> h_split_crlf (render_lines ls ++ k_crlf) = ls ++ [[]; []].
Proof.
  induction ls as [|l ls IH]; intros H; [reflexivity|]. cbn in H. bool_hyps.
  unfold render_lines. cbn [map concat]. fold (render_lines ls).
  rewrite <- !app_assoc. unfold k_crlf at 1. cbn [app].
  rewrite (split_crlf_line _ _ H). cbn [app]. f_equal. now apply IH.
Qed.

Lemma filter_nonempty_lines (ls : list bytes) :
  forallb (fun l => negb (h_nil l)) ls = true ->
  filter (fun l => negb (h_nil l)) (ls ++ [[]; []]) = ls.
Proof.
  induction ls as [|l ls IH]; intros H; [reflexivity|]. cbn in H. bool_hyps.
  cbn [app filter]. rewrite H. cbn [negb]. f_equal. apply IH. assumption.
Qed.

Lemma split_request_line m t v :
  tokenb m = true -> h_nil t = false -> no_ws t = true -> tokenb v = true ->
  h_split_whitespace (m ++ c_sp :: t ++ c_sp :: v) = [m; t; v].
Proof.
  intros Hm Ht1 Ht2 Hv. apply token_facts in Hm. apply token_facts in Hv.
  destruct Hm as [Hm1 Hm2]. destruct Hv as [Hv1 Hv2].
  rewrite split_ws_tok; [|assumption|now apply h_nil_false_iff|reflexivity].
  rewrite split_ws_tok; [|assumption|now apply h_nil_false_iff|reflexivity].
  rewrite split_ws_last; [reflexivity|assumption|now apply h_nil_false_iff].
Qed.

Definition wf_lines (ls : list bytes) : Prop :=
  forallb no_cr ls = true /\ forallb (fun l => negb (h_nil l)) ls = true.

Lemma parse_rendered m t v ls body :
  tokenb m = true -> h_nil t = false -> no_ws t = true -> tokenb v = true -> wf_lines ls ->
  parse_http_request ((m ++ c_sp :: t ++ c_sp :: v ++ k_crlf) ++ render_lines ls ++ k_crlf) body =
  match determine_target m t ls with
  | HErr => HErr
  | HOk (host, port, path, is_connect) =>
      HOk {| hp_method := m; hp_version := v; hp_host := host; hp_port := port; hp_path := path;
             hp_connect := is_connect; hp_headers := ls; hp_body := body |}
  end.
Proof.
  intros Hm Ht1 Ht2 Hv [Hl1 Hl2].
  assert (Hcr : no_cr (m ++ c_sp :: t ++ c_sp :: v) = true).
  { destruct (token_facts _ Hm) as [_ Wm]. destruct (token_facts _ Hv) as [_ Wv].
    apply no_ws_no_cr in Wm. apply no_ws_no_cr in Wv. pose proof (no_ws_no_cr _ Ht2) as Wt.
    unfold no_cr, c_sp in *. rewrite nof_app, nof_cons, nof_app, nof_cons, Wm, Wv, Wt. reflexivity. }
  replace ((m ++ c_sp :: t ++ c_sp :: v ++ k_crlf) ++ render_lines ls ++ k_crlf)
    with ((m ++ c_sp :: t ++ c_sp :: v) ++ 13 :: 10 :: (render_lines ls ++ k_crlf)).
  2:{ unfold k_crlf. rewrite <- !app_assoc. cbn [app]. rewrite <- !app_assoc. cbn [app].
      rewrite <- !app_assoc. reflexivity. }
  unfold parse_http_request.
  rewrite (split_crlf_line _ _ Hcr), (split_crlf_lines _ Hl1), (split_request_line _ _ _ Hm Ht1 Ht2 Hv).
  rewrite (filter_nonempty_lines _ Hl2). reflexivity.
Qed.

(* the header lines of a well-formed request *)
Lemma wf_header_lines r :
  forallb plain_lineb (r_before r) = true -> forallb plain_lineb (r_after r) = true ->
  match r_host r with Some hh => wf_host_hdrb hh = true | None => True end ->
  wf_lines (header_lines r).
Proof.
  intros Hb Ha Hh. unfold wf_lines, header_lines.
  assert (P : forall ls, forallb plain_lineb ls = true ->
                         forallb no_cr ls = true /\ forallb (fun l => negb (h_nil l)) ls = true).
  { intros ls H. split; (eapply forallb_imp; [|exact H]); intros l Hl;
      destruct (plain_line_facts _ Hl) as (E1 & E2 & _); [exact E2|now rewrite E1]. }
  destruct (P _ Hb) as [B1 B2]. destruct (P _ Ha) as [A1 A2].
  split; rewrite forallb_app; apply andb_true_iff; (split; [assumption|]);
    destruct (r_host r) as [hh|]; try assumption; cbn [forallb]; apply andb_true_iff; (split; [|assumption]).
  - now apply host_line_no_cr.
  - now rewrite host_line_nonempty.
Qed.

Lemma find_host_header_lines r hh :
  forallb plain_lineb (r_before r) = true -> r_host r = Some hh -> wf_host_hdrb hh = true ->
  find_host_header (header_lines r) = Some (render_auth (hh_auth hh)).
Proof.
  intros Hb E Hh. unfold header_lines. rewrite E.
  rewrite (find_host_before _ _ _ Hb (host_line_is _ Hh)). now rewrite host_line_value.
Qed.

Lemma render_target_facts r :
  wf_targetb r = true -> h_nil (render_target (r_target r)) = false /\ no_ws (render_target (r_target r)) = true.
Proof.
  unfold wf_targetb. destruct (r_target r) as [a|https sch a pq|p]; cbn [render_target]; intros H; bool_hyps.
  - split; [now apply render_auth_nonempty | now apply render_auth_no_ws].
  - destruct (scheme_facts _ _ H2) as (_ & _ & Hws & Hne). split.
    + rewrite h_nil_app, Hne. reflexivity.
    + unfold no_ws in *. rewrite !nof_app, Hws. fold (no_ws (render_auth a)). rewrite (render_auth_no_ws _ H1).
      unfold wf_pqb in H0. bool_hyps.
      replace (nof h_is_ws pq) with true.
      * reflexivity.
      * symmetry. unfold nof. eapply forallb_imp; [|eassumption]. intros c Hc. cbn beta in Hc.
        apply andb_true_iff in Hc. exact (proj1 Hc).
  - now apply token_facts.
Qed.

(* parse of a rendered well-formed request: everything the parser returns, explicitly *)
Definition expected_parse (r : hreq) (host : bytes) (port : N) : hparsed :=
  {| hp_method := r_method r; hp_version := r_version r; hp_host := host; hp_port := port;
     hp_path := spec_path r; hp_connect := is_connect_req r; hp_headers := header_lines r; hp_body := r_body r |}.

Lemma parse_render r :
  wf_req r = true ->
  exists host port, spec_target r = Some (host, port) /\
    parse_http_request (render_head r) (r_body r) = HOk (expected_parse r host port).
Proof.
  unfold wf_req. intros H.
  apply andb_true_iff in H. destruct H as [H Hh].
  apply andb_true_iff in H. destruct H as [H Ha].
  apply andb_true_iff in H. destruct H as [H Hb].
  apply andb_true_iff in H. destruct H as [H Ht].
  apply andb_true_iff in H. destruct H as [Hm Hv].
  assert (Hh' : match r_host r with Some hh => wf_host_hdrb hh = true | None => True end)
    by (destruct (r_host r); [exact Hh|exact I]).
  destruct (render_target_facts _ Ht) as [Tn Tw].
  unfold render_head. rewrite (parse_rendered _ _ _ _ _ Hm Tn Tw Hv (wf_header_lines _ Hb Ha Hh')).
  unfold wf_targetb in Ht. unfold spec_target, expected_parse, spec_path, is_connect_req.
  destruct (r_target r) as [a|https sch a pq|p] eqn:ET; cbn [render_target] in *; bool_hyps.
  - rewrite (dt_connect _ _ _ H H0). do 2 eexists. split; reflexivity.
  - assert (Hnc : h_eq_ignore_case (r_method r) k_connect = false)
      by (first [assumption | apply negb_true_iff; assumption]).
    rewrite (dt_absolute _ _ _ _ _ _ Hnc H2 H1 H0). do 2 eexists. split; reflexivity.
  - assert (Hnc : h_eq_ignore_case (r_method r) k_connect = false)
      by (first [assumption | apply negb_true_iff; assumption]).
    destruct (r_host r) as [hh|] eqn:EH; [|discriminate].
    rewrite (dt_origin _ _ _ (hh_auth hh) Hnc H1).
    + do 2 eexists. split; reflexivity.
    + now apply find_host_header_lines.
    + unfold wf_host_hdrb in Hh. now bool_hyps.
Qed.

(* ---- build_forward_request ---- *)
Lemma host_value_render h port :
  wf_hostb h = true ->
  host_header_value (host_text h) port = render_auth (hh_auth (norm_host_hdr h port)).
Proof.
  intros Hw. unfold host_header_value, norm_host_hdr, render_auth. cbn [hh_auth au_host au_port].
  assert (E : (if h_contains_byte c_colon (host_text h) then c_lbr :: host_text h ++ [c_rbr] else host_text h)
              = render_host h).
  { destruct h as [s|s]; cbn [wf_hostb host_text render_host] in *; bool_hyps.
    - unfold c_colon. rewrite contains_nof.
      replace (nof (fun x => x =? 58) s) with true; [reflexivity|].
      symmetry. eapply forallb_nof; [|eassumption]. intros c Hc. apply host_char_facts in Hc. tauto.
    - now rewrite H. }
  rewrite E. destruct ((port =? 80) || (port =? 443)); [now rewrite app_nil_r|].
  unfold digits_text. now rewrite h_dec_digits_text.
Qed.

Lemma host_line_out_render h port :
  wf_hostb h = true -> host_line_out (host_text h) port = render_host_line (norm_host_hdr h port) ++ k_crlf.
Proof.
  intros Hw. unfold host_line_out, render_host_line. rewrite (host_value_render _ _ Hw).
  cbn [hh_name hh_pre hh_post norm_host_hdr hh_auth]. rewrite app_nil_r.
  unfold k_host_sp, c_colon, c_sp. cbn [app]. reflexivity.
Qed.

Lemma concat_map_app (f : bytes -> bytes) (a b : list bytes) :
  concat (map f (a ++ b)) = concat (map f a) ++ concat (map f b).
Proof. now rewrite map_app, concat_app. Qed.

Lemma rewrite_lines_some hv before hl after :
  forallb plain_lineb before = true -> forallb plain_lineb after = true ->
  is_host_line hl = true -> h_nil hl = false ->
  concat (map (rewrite_line hv) (before ++ hl :: after))
    ++ (if existsb is_host_line (before ++ hl :: after) then [] else hv) =
  render_lines before ++ hv ++ render_lines after.
Proof.
  intros Hb Ha Hl Hn. rewrite concat_map_app. cbn [map concat].
  rewrite (rewrite_plain _ _ Hb), (rewrite_plain _ _ Ha).
  unfold rewrite_line at 1. rewrite Hn, Hl.
  rewrite existsb_app. cbn [existsb]. rewrite Hl, orb_true_r. cbn [orb].
  now rewrite app_nil_r.
Qed.

Lemma rewrite_lines_none hv ls :
  forallb plain_lineb ls = true ->
  concat (map (rewrite_line hv) ls) ++ (if existsb is_host_line ls then [] else hv) = render_lines ls ++ hv.
Proof. intros H. now rewrite (rewrite_plain _ _ H), (exists_host_none _ H). Qed.

Lemma spec_path_nonempty r : wf_targetb r = true -> is_connect_req r = false -> h_nil (spec_path r) = false.
Proof.
  unfold wf_targetb, is_connect_req, spec_path. destruct (r_target r) as [a|https sch a pq|p]; intros H Hc.
  - discriminate.
  - destruct pq as [|c pq']; [reflexivity|]. now destruct (c =? c_slash).
  - bool_hyps. now apply token_facts.
Qed.

(* composition: the request rebuilt from the parse of a rendered well-formed non-CONNECT request is the
   rendering of its origin form *)
Lemma forward_render r :
  wf_req r = true -> is_connect_req r = false ->
  exists host port,
    spec_target r = Some (host, port) /\
    parse_http_request (render_head r) (r_body r) = HOk (expected_parse r host port) /\
    build_forward_request (expected_parse r host port) = render_head (origin_form r).
Proof.
  intros Hwf Hnc. destruct (parse_render _ Hwf) as (host & port & Hs & Hp).
  exists host, port. split; [exact Hs|]. split; [exact Hp|].
  unfold wf_req in Hwf.
  apply andb_true_iff in Hwf. destruct Hwf as [H Hh].
  apply andb_true_iff in H. destruct H as [H Ha].
  apply andb_true_iff in H. destruct H as [H Hb].
  apply andb_true_iff in H. destruct H as [H Ht].
  apply andb_true_iff in H. destruct H as [Hm Hv].
  pose proof (spec_path_nonempty _ Ht Hnc) as Hpath.
  (* the authority that names the target, and its well-formedness *)
  assert (HA : exists a d, target_authority r = Some (a, d) /\ wf_authb a = true /\
                           host = host_text (au_host a) /\ port = auth_port a d).
  { unfold target_authority, spec_target, wf_targetb, is_connect_req in *.
    destruct (r_target r) as [a|https sch a pq|p]; [discriminate| |].
    - bool_hyps. exists a, (if https then 443 else 80). inversion Hs. repeat split; assumption.
    - destruct (r_host r) as [hh|]; [|discriminate]. exists (hh_auth hh), 80. inversion Hs.
      unfold wf_host_hdrb in Hh. bool_hyps. repeat split; assumption. }
  destruct HA as (a & d & HTA & Hwa & -> & ->).
  assert (Hwh : wf_hostb (au_host a) = true) by (unfold wf_authb in Hwa; now bool_hyps).
  unfold build_forward_request, expected_parse.
  cbn [hp_method hp_version hp_host hp_port hp_path hp_connect hp_headers hp_body].
  rewrite Hpath, (host_line_out_render _ _ Hwh).
  unfold origin_form. rewrite HTA. unfold render_head, header_lines.
  destruct (r_host r) as [hh|] eqn:EH;
    cbn [r_method r_target r_version r_before r_host r_after render_target].
  - f_equal. rewrite app_assoc.
    rewrite (rewrite_lines_some _ _ _ _ Hb Ha (host_line_is _ Hh) (host_line_nonempty _ Hh)).
    rewrite render_lines_app. unfold render_lines at 4. cbn [map concat]. fold (render_lines (r_after r)).
    now rewrite <- !app_assoc.
  - f_equal. rewrite app_assoc.
    assert (Hall : forallb plain_lineb (r_before r ++ r_after r) = true) by (now rewrite forallb_app, Hb, Ha).
    rewrite (rewrite_lines_none _ _ Hall).
    rewrite render_lines_app with (b := [_]). unfold render_lines at 3. cbn [map concat].
    now rewrite app_nil_r, <- !app_assoc.
Qed.
