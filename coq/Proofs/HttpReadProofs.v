(* HttpReadProofs.v -- C17: the header read loop for every chunking, and the event order of the connection handler. *)
From Coq Require Import List NArith ZArith Lia Bool.
From AnyTLS Require Import Bytes BytesFacts Generated FactsCore FactsHttp HttpText Http HttpTextFacts.
Import ListNotations.
Open Scope N_scope.
Ltac Zify.zify_post_hook ::= Z.to_euclidean_division_equations.

(* ---- find_header_end ---- *)
Lemma fhe_bound b e : find_header_end b = Some e -> e <= lenN b.
Proof.
  unfold find_header_end. destruct (h_find http_terminator b) as [i|] eqn:F; [|discriminate].
  intros H. inversion H; subst. now apply h_find_bound.
Qed.

Lemma fhe_app a b e : find_header_end a = Some e -> find_header_end (a ++ b) = Some e.
Proof.
  unfold find_header_end. destruct (h_find http_terminator a) as [i|] eqn:F; [|discriminate].
  intros H. now rewrite (h_find_app _ _ b _ F).
Qed.

Lemma fhe_app_inv a b e : find_header_end (a ++ b) = Some e -> e <= lenN a -> find_header_end a = Some e.
Proof.
  unfold find_header_end. destruct (h_find http_terminator (a ++ b)) as [i|] eqn:F; [|discriminate].
  intros H L. inversion H; subst. now rewrite (h_find_app_inv _ _ _ _ F L).
Qed.

Lemma fhe_nil : find_header_end [] = None.
Proof. reflexivity. Qed.

(* the split point is the end of the FIRST occurrence of the terminator *)
Lemma fhe_first s e :
  find_header_end s = Some e ->
  exists pre post, s = pre ++ http_terminator ++ post /\ e = lenN pre + lenN http_terminator /\
                   takeN e s = pre ++ http_terminator /\ dropN e s = post /\
                   forall pre' post', s = pre' ++ http_terminator ++ post' -> lenN pre <= lenN pre'.
Proof.
  unfold find_header_end. destruct (h_find http_terminator s) as [i|] eqn:F; [|discriminate].
  intros H. inversion H; subst. clear H.
  pose proof (h_find_occ _ _ _ F) as Hs. pose proof (h_find_bound _ _ _ F) as Hb.
  exists (takeN i s), (dropN (i + lenN http_terminator) s).
  assert (Li : lenN (takeN i s) = i) by (apply lenN_takeN; lia).
  split; [exact Hs|]. split; [now rewrite Li|]. split; [|split].
  - rewrite Hs at 1. rewrite app_assoc.
    replace (i + lenN http_terminator) with (lenN (takeN i s ++ http_terminator)) by (rewrite lenN_app; lia).
    apply takeN_app_exact.
  - rewrite Hs at 1. rewrite app_assoc.
    replace (i + lenN http_terminator) with (lenN (takeN i s ++ http_terminator)) at 1 by (rewrite lenN_app; lia).
    apply dropN_app_exact.
  - intros pre' post' E. destruct (h_find_first_occ http_terminator pre' post') as (j & Hj & Lj).
    rewrite <- E, F in Hj. inversion Hj; subst. lia.
Qed.

(* ---- the read loop ---- *)
Definition nonempty_chunks (chunks : list bytes) : Prop := Forall (fun c => c <> []) chunks.

Lemma read_header_spec : forall chunks buf eof,
  nonempty_chunks chunks -> find_header_end buf = None -> lenN buf <= http_max_header ->
  match find_header_end (buf ++ concat chunks) with
  | Some e =>
      if e <=? http_max_header
      then exists k rest,
             read_header buf chunks eof = RhOk (takeN e (buf ++ concat chunks)) rest (skipn k chunks) /\
             buf ++ concat (firstn k chunks) = takeN e (buf ++ concat chunks) ++ rest
      else read_header buf chunks eof = RhTooLarge
  | None =>
      read_header buf chunks eof =
      if http_max_header <? lenN (buf ++ concat chunks) then RhTooLarge
      else if eof then RhClosed else RhPending (buf ++ concat chunks)
  end.
Proof.
  induction chunks as [|c cs IH]; intros buf eof Hne Hf Hl.
  - cbn [concat]. rewrite app_nil_r, Hf. cbn [read_header].
    destruct (N.ltb_spec http_max_header (lenN buf)); [lia|reflexivity].
  - inversion Hne as [|? ? Hc Hcs]; subst.
    cbn [concat]. rewrite app_assoc. cbn [read_header].
    destruct c as [|c0 c']; [congruence|]. cbn [h_nil].
    set (buf' := buf ++ c0 :: c').
    destruct (find_header_end buf') as [e'|] eqn:F.
    + rewrite (fhe_app _ (concat cs) _ F). pose proof (fhe_bound _ _ F) as Hb.
      destruct (e' <=? http_max_header); [|reflexivity].
      exists 1%nat, (dropN e' buf'). cbn [skipn firstn concat]. rewrite app_nil_r.
      rewrite (takeN_app_le _ _ _ Hb). split; [reflexivity|].
      fold buf'. symmetry. apply takeN_dropN.
    + destruct (N.ltb_spec http_max_header (lenN buf')) as [Hgt|Hle].
      * destruct (find_header_end (buf' ++ concat cs)) as [e|] eqn:F2.
        -- destruct (N.leb_spec e http_max_header) as [Hle|]; [|reflexivity].
           exfalso. assert (find_header_end buf' = Some e) by (apply (fhe_app_inv _ _ _ F2); lia). congruence.
        -- rewrite lenN_app. destruct (N.ltb_spec http_max_header (lenN buf' + lenN (concat cs))); [reflexivity|lia].
      * specialize (IH buf' eof Hcs F Hle).
        destruct (find_header_end (buf' ++ concat cs)) as [e|] eqn:F2; [|exact IH].
        destruct (e <=? http_max_header); [|exact IH].
        destruct IH as (k & rest & Hr & Hcat).
        exists (S k), rest. cbn [skipn firstn concat]. split; [exact Hr|].
        rewrite app_assoc. exact Hcat.
Qed.

Lemma concat_firstn_skipn {A} k (l : list (list A)) : concat (firstn k l) ++ concat (skipn k l) = concat l.
Proof. rewrite <- concat_app, firstn_skipn. reflexivity. Qed.

(* header that fits: for every chunking the loop returns the split at the first terminator *)
Lemma read_header_fits chunks eof e :
  nonempty_chunks chunks -> find_header_end (concat chunks) = Some e -> e <= http_max_header ->
  exists k rest,
    read_header [] chunks eof = RhOk (takeN e (concat chunks)) rest (skipn k chunks) /\
    concat (firstn k chunks) = takeN e (concat chunks) ++ rest /\
    rest ++ concat (skipn k chunks) = dropN e (concat chunks).
Proof.
  intros Hne Hf Hl.
  pose proof (read_header_spec chunks [] eof Hne fhe_nil) as H. cbn [app] in H.
  assert (L0 : lenN (@nil N) <= http_max_header) by (cbn; lia). specialize (H L0).
  rewrite Hf in H. destruct (N.leb_spec e http_max_header); [|lia].
  destruct H as (k & rest & Hr & Hc). cbn [app] in Hc. exists k, rest. split; [exact Hr|]. split; [exact Hc|].
  assert (Hall : concat (firstn k chunks) ++ concat (skipn k chunks) = concat chunks) by apply concat_firstn_skipn.
  rewrite Hc, <- app_assoc in Hall.
  pose proof (fhe_bound _ _ Hf) as Hb.
  set (T := takeN e (concat chunks)) in *.
  assert (LT : lenN T = e) by (apply lenN_takeN; exact Hb).
  rewrite <- Hall, <- LT. now rewrite dropN_app_exact.
Qed.

Lemma read_header_too_large chunks eof e :
  nonempty_chunks chunks -> find_header_end (concat chunks) = Some e -> http_max_header < e ->
  read_header [] chunks eof = RhTooLarge.
Proof.
  intros Hne Hf Hl.
  pose proof (read_header_spec chunks [] eof Hne fhe_nil) as H. cbn [app] in H.
  assert (L0 : lenN (@nil N) <= http_max_header) by (cbn; lia). specialize (H L0).
  rewrite Hf in H. destruct (N.leb_spec e http_max_header); [lia|exact H].
Qed.

Lemma read_header_unterminated chunks eof :
  nonempty_chunks chunks -> find_header_end (concat chunks) = None ->
  read_header [] chunks eof =
  if http_max_header <? lenN (concat chunks) then RhTooLarge
  else if eof then RhClosed else RhPending (concat chunks).
Proof.
  intros Hne Hf.
  pose proof (read_header_spec chunks [] eof Hne fhe_nil) as H. cbn [app] in H.
  assert (L0 : lenN (@nil N) <= http_max_header) by (cbn; lia). specialize (H L0).
  now rewrite Hf in H.
Qed.

(* OK iff the header block fits the limit *)
Lemma read_header_ok_iff chunks eof :
  nonempty_chunks chunks ->
  ((exists h rest rem, read_header [] chunks eof = RhOk h rest rem) <->
   (exists e, find_header_end (concat chunks) = Some e /\ e <= http_max_header)).
Proof.
  intros Hne. split.
  - intros (h & rest & rem & H).
    destruct (find_header_end (concat chunks)) as [e|] eqn:F.
    + destruct (N.leb_spec e http_max_header) as [Hle|Hgt]; [now exists e|].
      rewrite (read_header_too_large _ _ _ Hne F Hgt) in H. discriminate.
    + rewrite (read_header_unterminated _ _ Hne F) in H.
      destruct (_ <? _); [discriminate|]. destruct eof; discriminate.
  - intros (e & F & Hle). destruct (read_header_fits _ eof _ Hne F Hle) as (k & rest & H & _).
    now exists (takeN e (concat chunks)), rest, (skipn k chunks).
Qed.

(* ---- the connection handler ---- *)
Lemma parse_body h b r : parse_http_request h b = HOk r -> hp_body r = b.
Proof.
  unfold parse_http_request. destruct (h_split_crlf h) as [|rl ls]; [discriminate|].
  destruct (h_split_whitespace rl) as [|m [|t rest]]; try discriminate.
  destruct (determine_target m t _) as [[[[ho po] pa] c]|]; [|discriminate].
  intros H. inversion H. reflexivity.
Qed.

Definition with_body (r : hparsed) (b : bytes) : hparsed :=
  {| hp_method := hp_method r; hp_version := hp_version r; hp_host := hp_host r; hp_port := hp_port r;
     hp_path := hp_path r; hp_connect := hp_connect r; hp_headers := hp_headers r; hp_body := b |}.

Lemma parse_body_indep h b :
  parse_http_request h b =
  match parse_http_request h [] with HOk r => HOk (with_body r b) | HErr => HErr end.
Proof.
  unfold parse_http_request. destruct (h_split_crlf h) as [|rl ls]; [reflexivity|].
  destruct (h_split_whitespace rl) as [|m [|t rest]]; try reflexivity.
  destruct (determine_target m t _) as [[[[ho po] pa] c]|]; reflexivity.
Qed.

Lemma build_with_body r b : build_forward_request (with_body r b) = build_forward_request r.
Proof. reflexivity. Qed.

Lemma sent_bytes_app a b : sent_bytes (a ++ b) = sent_bytes a ++ sent_bytes b.
Proof.
  induction a as [|x a IH]; [reflexivity|]. destruct x; cbn [app sent_bytes]; rewrite IH; [reflexivity..|].
  now rewrite app_assoc.
Qed.

Lemma sent_fwd_loop cs : nonempty_chunks cs -> sent_bytes (fwd_loop cs) = concat cs.
Proof.
  induction cs as [|c cs IH]; intros H; [reflexivity|].
  inversion H; subst. destruct c; [congruence|]. cbn [fwd_loop h_nil sent_bytes concat]. now rewrite IH.
Qed.

Lemma sent_opt_send b : sent_bytes (opt_send b) = b.
Proof. destruct b; [reflexivity|]. cbn. now rewrite app_nil_r. Qed.

Lemma nonempty_skipn k cs : nonempty_chunks cs -> nonempty_chunks (skipn k cs).
Proof.
  unfold nonempty_chunks. rewrite !Forall_forall. intros H x Hx. apply H.
  rewrite <- (firstn_skipn k cs). apply in_or_app. now right.
Qed.

(* the bytes that follow the header are sent exactly once, in order, after the rewritten header
   (non-CONNECT) or alone (CONNECT); nothing is sent when the open fails or the header does not parse *)
Lemma handle_body chunks eof e :
  nonempty_chunks chunks -> find_header_end (concat chunks) = Some e -> e <= http_max_header ->
  match parse_http_request (takeN e (concat chunks)) [] with
  | HOk r =>
      sent_bytes (handle chunks eof true) =
        (if hp_connect r then [] else build_forward_request r) ++ dropN e (concat chunks) /\
      sent_bytes (handle chunks eof false) = []
  | HErr => forall ok, handle chunks eof ok = []
  end.
Proof.
  intros Hne Hf Hl. destruct (read_header_fits _ eof _ Hne Hf Hl) as (k & rest & Hr & _ & Hd).
  destruct (parse_http_request (takeN e (concat chunks)) []) as [r|] eqn:P.
  - unfold handle. rewrite Hr, parse_body_indep, P.
    cbn [hp_host hp_port hp_connect hp_body with_body]. split; [|reflexivity].
    cbn [sent_bytes]. rewrite !sent_bytes_app, sent_opt_send, sent_fwd_loop by (now apply nonempty_skipn).
    rewrite Hd. destruct (hp_connect r); cbn [sent_bytes app]; [reflexivity|].
    now rewrite build_with_body, app_nil_r.
  - intros ok. unfold handle. now rewrite Hr, parse_body_indep, P.
Qed.

Lemma no_reply_in_fwd c cs : ~ In (EvReply c) (fwd_loop cs).
Proof.
  induction cs as [|x cs IH]; cbn; [tauto|]. destruct (h_nil x); cbn; [tauto|].
  intros [H|H]; [discriminate|tauto].
Qed.

Lemma no_reply_in_opt c b : ~ In (EvReply c) (opt_send b).
Proof. unfold opt_send. destruct (h_nil b); cbn; [tauto|]. intros [H|H]; [discriminate|tauto]. Qed.

(* event order of the handler, with the outcome of the open as an argument *)
Lemma handle_shape chunks eof ok :
  handle chunks eof ok = [] \/
  exists h p tl, handle chunks eof ok = EvOpen h p :: tl /\
    ((ok = false /\ tl = [EvReply http_reply_open_failed]) \/
     (ok = true /\ exists tl', (tl = EvReply http_reply_connect_ok :: tl' \/ exists b, tl = EvSend b :: tl') /\
                               forall c, ~ In (EvReply c) tl')).
Proof.
  unfold handle. destruct (read_header [] chunks eof) as [h rest rem| | |]; try (left; reflexivity).
  destruct (parse_http_request h rest) as [r|]; [|left; reflexivity].
  right. exists (hp_host r), (hp_port r). eexists. split; [reflexivity|].
  destruct ok; [right|left; split; reflexivity]. split; [reflexivity|].
  exists (opt_send (hp_body r) ++ fwd_loop rem). split.
  - destruct (hp_connect r); [left; reflexivity|right; eexists; reflexivity].
  - intros c H. apply in_app_or in H. destruct H; [eapply no_reply_in_opt|eapply no_reply_in_fwd]; eassumption.
Qed.

Lemma reply_200_needs_open chunks eof ok :
  In (EvReply http_reply_connect_ok) (handle chunks eof ok) -> ok = true.
Proof.
  destruct (handle_shape chunks eof ok) as [E|(h & p & tl & E & [[-> ->]|[-> _]])]; rewrite E; [cbn; tauto| |reflexivity].
  cbn. intros [H|[H|H]]; try discriminate; tauto.
Qed.
