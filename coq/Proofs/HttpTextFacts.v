(* HttpTextFacts.v -- lemmas about the text functions of Model/HttpText.v (package http, C17). *)
From Coq Require Import List NArith ZArith Lia Bool.
From AnyTLS Require Import Bytes BytesFacts HttpText.
Import ListNotations.
Open Scope N_scope.
Ltac Zify.zify_post_hook ::= Z.to_euclidean_division_equations.

(* ---- generic ---- *)
Definition nof (f : N -> bool) (s : bytes) : bool := forallb (fun c => negb (f c)) s.

Lemma forallb_rev {A} (f : A -> bool) l : forallb f (rev l) = forallb f l.
Proof.
  induction l as [|x l IH]; [reflexivity|]. cbn [rev forallb].
  rewrite forallb_app, IH. cbn [forallb]. rewrite andb_true_r. apply andb_comm.
Qed.

Lemma nof_app f a b : nof f (a ++ b) = nof f a && nof f b.
Proof. apply forallb_app. Qed.

Lemma nof_cons f x a : nof f (x :: a) = negb (f x) && nof f a.
Proof. reflexivity. Qed.

Lemma nof_weaken (f g : N -> bool) s :
  (forall c, g c = true -> f c = true) -> nof f s = true -> nof g s = true.
Proof.
  intros H. unfold nof. rewrite !forallb_forall. intros Hs x Hx. specialize (Hs x Hx).
  destruct (g x) eqn:E; [|reflexivity]. rewrite (H x E) in Hs. exact Hs.
Qed.

Lemma forallb_imp {A} (f g : A -> bool) l :
  (forall x, f x = true -> g x = true) -> forallb f l = true -> forallb g l = true.
Proof. intros H. rewrite !forallb_forall. intros Hl x Hx. apply H, Hl, Hx. Qed.

Lemma lenN_succ {A} (x : A) l : lenN (x :: l) = N.succ (lenN l).
Proof. rewrite lenN_cons. lia. Qed.

Lemma takeN_0 {A} (l : list A) : takeN 0 l = [].
Proof. reflexivity. Qed.

Lemma dropN_0 {A} (l : list A) : dropN 0 l = l.
Proof. reflexivity. Qed.

Lemma takeN_succ {A} n (x : A) l : takeN (N.succ n) (x :: l) = x :: takeN n l.
Proof. unfold takeN. rewrite N2Nat.inj_succ. reflexivity. Qed.

Lemma dropN_succ {A} n (x : A) l : dropN (N.succ n) (x :: l) = dropN n l.
Proof. unfold dropN. rewrite N2Nat.inj_succ. reflexivity. Qed.

Lemma dropN_add {A} a b (l : list A) : dropN (a + b) l = dropN b (dropN a l).
Proof.
  unfold dropN. rewrite N2Nat.inj_add.
  revert l. induction (N.to_nat a) as [|k IH]; intros l; [reflexivity|].
  destruct l as [|x l]; cbn [Nat.add skipn]; [now rewrite skipn_nil | apply IH].
Qed.

Lemma h_nil_false_iff {A} (l : list A) : h_nil l = false <-> l <> [].
Proof. destruct l; cbn; split; congruence. Qed.

Lemma h_nil_app {A} (a b : list A) : h_nil (a ++ b) = h_nil a && h_nil b.
Proof. destruct a; reflexivity. Qed.

(* ---- starts_with ---- *)
Lemma sw_refl_app p r : h_starts_with p (p ++ r) = true.
Proof. induction p as [|x p IH]; [reflexivity|]. cbn. now rewrite N.eqb_refl, IH. Qed.

Lemma sw_app_mono p a b : h_starts_with p a = true -> h_starts_with p (a ++ b) = true.
Proof.
  revert a. induction p as [|x p IH]; intros a H; [reflexivity|].
  destruct a as [|y a]; [discriminate|]. cbn in *.
  apply andb_true_iff in H. destruct H as [H1 H2]. now rewrite H1, (IH _ H2).
Qed.

Lemma sw_len p a : h_starts_with p a = true -> lenN p <= lenN a.
Proof.
  revert a. induction p as [|x p IH]; intros a H; [unfold lenN; cbn [length]; lia|].
  destruct a as [|y a]; [discriminate|]. cbn in H. apply andb_true_iff in H.
  rewrite !lenN_cons. specialize (IH a (proj2 H)). lia.
Qed.

Lemma sw_app_inv p a b : h_starts_with p (a ++ b) = true -> lenN p <= lenN a -> h_starts_with p a = true.
Proof.
  revert a. induction p as [|x p IH]; intros a H L; [reflexivity|].
  destruct a as [|y a]; [rewrite lenN_cons in L; change (lenN (@nil N)) with 0 in L; lia|].
  cbn in H |- *. apply andb_true_iff in H. destruct H as [H1 H2]. rewrite H1.
  apply IH; [exact H2|]. rewrite !lenN_cons in L. lia.
Qed.

Lemma sw_split p s : h_starts_with p s = true -> s = p ++ dropN (lenN p) s.
Proof.
  revert s. induction p as [|x p IH]; intros s H; [reflexivity|].
  destruct s as [|y s]; [discriminate|]. cbn in H. apply andb_true_iff in H. destruct H as [H1 H2].
  apply N.eqb_eq in H1. subst y. rewrite lenN_succ, dropN_succ. cbn [app]. f_equal. apply IH, H2.
Qed.

Lemma sw_head_neq c p x s : x <> c -> h_starts_with (c :: p) (x :: s) = false.
Proof. intros H. cbn. destruct (N.eqb_spec c x); [congruence|reflexivity]. Qed.

(* ---- find ---- *)
Lemma h_find_unfold p x s :
  h_find p (x :: s) = if h_starts_with p (x :: s) then Some 0
                      else match h_find p s with Some i => Some (N.succ i) | None => None end.
Proof. reflexivity. Qed.

Lemma h_find_bound p a i : h_find p a = Some i -> i + lenN p <= lenN a.
Proof.
  revert i. induction a as [|x a IH]; intros i H.
  - cbn in H. destruct (h_starts_with p []) eqn:E; [|discriminate]. inversion H; subst.
    apply sw_len in E. lia.
  - rewrite h_find_unfold in H. destruct (h_starts_with p (x :: a)) eqn:E.
    + inversion H; subst. apply sw_len in E. lia.
    + destruct (h_find p a) as [j|] eqn:F; [|discriminate]. inversion H; subst.
      specialize (IH j eq_refl). rewrite lenN_cons. lia.
Qed.

Lemma h_find_app p a b i : h_find p a = Some i -> h_find p (a ++ b) = Some i.
Proof.
  revert i. induction a as [|x a IH]; intros i H.
  - cbn in H. destruct (h_starts_with p []) eqn:E; [|discriminate]. inversion H; subst.
    destruct p; [|discriminate]. destruct b; reflexivity.
  - rewrite h_find_unfold in H. cbn [app]. rewrite h_find_unfold.
    destruct (h_starts_with p (x :: a)) eqn:E.
    + change (x :: a ++ b) with ((x :: a) ++ b). now rewrite (sw_app_mono _ _ b E).
    + destruct (h_find p a) as [j|] eqn:F; [|discriminate]. inversion H; subst.
      destruct (h_starts_with p (x :: a ++ b)) eqn:E2.
      * exfalso. change (x :: a ++ b) with ((x :: a) ++ b) in E2.
        apply sw_app_inv in E2; [congruence|].
        apply h_find_bound in F. rewrite lenN_cons. lia.
      * now rewrite (IH j eq_refl).
Qed.

Lemma h_find_app_inv p a b i :
  h_find p (a ++ b) = Some i -> i + lenN p <= lenN a -> h_find p a = Some i.
Proof.
  revert i. induction a as [|x a IH]; intros i H L.
  - cbn in L. assert (i = 0) by lia. assert (lenN p = 0) by lia. subst i.
    destruct p; [reflexivity|]. rewrite lenN_cons in *. lia.
  - cbn [app] in H. rewrite h_find_unfold in H. rewrite h_find_unfold.
    destruct (h_starts_with p (x :: a ++ b)) eqn:E.
    + inversion H; subst. change (x :: a ++ b) with ((x :: a) ++ b) in E.
      apply sw_app_inv in E; [now rewrite E | lia].
    + destruct (h_find p (a ++ b)) as [j|] eqn:F; [|discriminate]. inversion H; subst.
      destruct (h_starts_with p (x :: a)) eqn:E2.
      * change (x :: a ++ b) with ((x :: a) ++ b) in E. now rewrite (sw_app_mono _ _ b E2) in E.
      * rewrite (IH j eq_refl); [reflexivity|]. rewrite lenN_cons in L. lia.
Qed.

Lemma h_find_none_prefix p a b : h_find p (a ++ b) = None -> h_find p a = None.
Proof.
  intros H. destruct (h_find p a) as [i|] eqn:E; [|reflexivity].
  now rewrite (h_find_app _ _ b _ E) in H.
Qed.

(* the match is an occurrence of p ... *)
Lemma h_find_occ p s i : h_find p s = Some i -> s = takeN i s ++ p ++ dropN (i + lenN p) s.
Proof.
  revert i. induction s as [|x s IH]; intros i H.
  - cbn in H. destruct (h_starts_with p []) eqn:E; [|discriminate]. inversion H; subst.
    destruct p; [reflexivity|discriminate].
  - rewrite h_find_unfold in H. destruct (h_starts_with p (x :: s)) eqn:E.
    + inversion H; subst. rewrite takeN_0, N.add_0_l. cbn [app]. apply sw_split, E.
    + destruct (h_find p s) as [j|] eqn:F; [|discriminate]. inversion H; subst.
      rewrite takeN_succ. replace (N.succ j + lenN p) with (N.succ (j + lenN p)) by lia.
      rewrite dropN_succ. cbn [app]. f_equal. apply IH. reflexivity.
Qed.

(* ... and the first one *)
Lemma h_find_first_occ p pre post : exists i, h_find p (pre ++ p ++ post) = Some i /\ i <= lenN pre.
Proof.
  induction pre as [|x pre IH].
  - exists 0. cbn [app]. split; [|cbn; lia].
    destruct (p ++ post) eqn:E.
    + destruct p; [reflexivity|discriminate].
    + rewrite h_find_unfold, <- E, sw_refl_app. reflexivity.
  - destruct IH as (i & Hi & Li). cbn [app]. rewrite h_find_unfold.
    destruct (h_starts_with p (x :: pre ++ p ++ post)).
    + exists 0. split; [reflexivity|lia].
    + exists (N.succ i). rewrite Hi. split; [reflexivity|]. rewrite lenN_cons. lia.
Qed.

Lemma h_find_first c p pre rest :
  nof (fun x => x =? c) pre = true -> h_find (c :: p) (pre ++ c :: p ++ rest) = Some (lenN pre).
Proof.
  induction pre as [|x pre IH]; intros H.
  - cbn [app]. rewrite h_find_unfold.
    change (c :: p ++ rest) with ((c :: p) ++ rest). now rewrite sw_refl_app.
  - rewrite nof_cons in H. apply andb_true_iff in H. destruct H as [H1 H2].
    cbn [app]. rewrite h_find_unfold, sw_head_neq.
    + rewrite (IH H2), lenN_succ. reflexivity.
    + intros ->. now rewrite N.eqb_refl in H1.
Qed.

(* ---- find_if / rfind / contains ---- *)
Lemma h_find_if_first f pre x rest :
  nof f pre = true -> f x = true -> h_find_if f (pre ++ x :: rest) = Some (lenN pre).
Proof.
  induction pre as [|y pre IH]; intros H Hx.
  - cbn. now rewrite Hx.
  - rewrite nof_cons in H. apply andb_true_iff in H. destruct H as [H1 H2].
    cbn [app h_find_if]. apply negb_true_iff in H1. rewrite H1, (IH H2 Hx), lenN_succ. reflexivity.
Qed.

Lemma h_find_if_none f s : nof f s = true -> h_find_if f s = None.
Proof.
  induction s as [|y s IH]; intros H; [reflexivity|].
  rewrite nof_cons in H. apply andb_true_iff in H. destruct H as [H1 H2].
  cbn. apply negb_true_iff in H1. now rewrite H1, (IH H2).
Qed.

Lemma contains_nof c s : h_contains_byte c s = negb (nof (fun x => x =? c) s).
Proof.
  unfold h_contains_byte, nof. induction s as [|x s IH]; [reflexivity|].
  cbn. rewrite IH. destruct (x =? c); reflexivity.
Qed.

Lemma contains_app c a b : h_contains_byte c (a ++ b) = h_contains_byte c a || h_contains_byte c b.
Proof. apply existsb_app. Qed.

Lemma h_rfind_none c s : nof (fun x => x =? c) s = true -> h_rfind_byte c s = None.
Proof.
  induction s as [|x s IH]; intros H; [reflexivity|].
  rewrite nof_cons in H. apply andb_true_iff in H. destruct H as [H1 H2].
  cbn. apply negb_true_iff in H1. now rewrite (IH H2), H1.
Qed.

Lemma h_rfind_last c a b :
  nof (fun x => x =? c) b = true -> h_rfind_byte c (a ++ c :: b) = Some (lenN a).
Proof.
  intros H. induction a as [|x a IH].
  - cbn. now rewrite (h_rfind_none _ _ H), N.eqb_refl.
  - cbn [app h_rfind_byte]. now rewrite IH, lenN_succ.
Qed.

(* a string that contains c splits at its last c *)
Lemma contains_split_last c s :
  h_contains_byte c s = true -> exists a b, s = a ++ c :: b /\ nof (fun x => x =? c) b = true.
Proof.
  induction s as [|x s IH]; intros H; [discriminate|].
  destruct (h_contains_byte c s) eqn:E.
  - destruct (IH eq_refl) as (a & b & -> & Hb). exists (x :: a), b. split; [reflexivity|exact Hb].
  - cbn in H. unfold h_contains_byte in E. rewrite E, orb_false_r in H. apply N.eqb_eq in H. subst x.
    exists [], s. split; [reflexivity|]. fold (h_contains_byte c s) in E. rewrite contains_nof in E.
    now apply negb_false_iff in E.
Qed.

(* ---- split on CRLF ---- *)
Definition no_cr (l : bytes) : bool := nof (fun c => c =? 13) l.

Lemma h_split_crlf_unfold x y s :
  h_split_crlf (x :: y :: s) =
  if (x =? 13) && (y =? 10) then [] :: h_split_crlf s
  else match h_split_crlf (y :: s) with l :: ls => (x :: l) :: ls | [] => [[x]] end.
Proof. reflexivity. Qed.

Lemma split_crlf_line l rest : no_cr l = true -> h_split_crlf (l ++ 13 :: 10 :: rest) = l :: h_split_crlf rest.
Proof.
  induction l as [|x l IH]; intros H.
  - cbn [app]. rewrite h_split_crlf_unfold. reflexivity.
  - unfold no_cr in H. rewrite nof_cons in H. apply andb_true_iff in H. destruct H as [H1 H2].
    apply negb_true_iff in H1. specialize (IH H2).
    destruct l as [|y l].
    + cbn [app] in *. rewrite h_split_crlf_unfold. rewrite IH.
      replace ((x =? 13) && (13 =? 10)) with false by (now rewrite H1). reflexivity.
    + cbn [app] in *. rewrite h_split_crlf_unfold, H1. cbn [andb]. now rewrite IH.
Qed.

(* ---- split_whitespace ---- *)
Definition no_ws (l : bytes) : bool := nof h_is_ws l.

Lemma ws_aux_tok t s : no_ws t = true -> h_ws_aux (t ++ s) = (t ++ fst (h_ws_aux s), snd (h_ws_aux s)).
Proof.
  induction t as [|x t IH]; intros H.
  - cbn [app]. now destruct (h_ws_aux s).
  - unfold no_ws in H. rewrite nof_cons in H. apply andb_true_iff in H. destruct H as [H1 H2].
    apply negb_true_iff in H1. cbn [app h_ws_aux]. rewrite (IH H2), H1. reflexivity.
Qed.

Lemma ws_aux_ws x s : h_is_ws x = true ->
  h_ws_aux (x :: s) = ([], h_split_whitespace s).
Proof.
  intros H. cbn [h_ws_aux]. unfold h_split_whitespace. destruct (h_ws_aux s) as [t ts]. now rewrite H.
Qed.

Lemma split_ws_tok t x s : no_ws t = true -> t <> [] -> h_is_ws x = true ->
  h_split_whitespace (t ++ x :: s) = t :: h_split_whitespace s.
Proof.
  intros H Ht Hx. unfold h_split_whitespace at 1. rewrite (ws_aux_tok _ _ H), (ws_aux_ws _ _ Hx).
  cbn [fst snd]. rewrite app_nil_r. destruct t; [congruence|reflexivity].
Qed.

Lemma split_ws_last t : no_ws t = true -> t <> [] -> h_split_whitespace t = [t].
Proof.
  intros H Ht. unfold h_split_whitespace. rewrite <- (app_nil_r t) at 1. rewrite (ws_aux_tok _ _ H).
  cbn. rewrite app_nil_r. destruct t; [congruence|reflexivity].
Qed.

(* ---- trim ---- *)
Lemma trim_start_strip f pre s : forallb f pre = true -> h_trim_start_by f (pre ++ s) = h_trim_start_by f s.
Proof.
  induction pre as [|x pre IH]; intros H; [reflexivity|].
  cbn in H. apply andb_true_iff in H. destruct H as [H1 H2]. cbn [app h_trim_start_by]. now rewrite H1, IH.
Qed.

Lemma trim_start_keep f s : nof f s = true -> h_trim_start_by f s = s.
Proof.
  destruct s as [|x s]; intros H; [reflexivity|].
  rewrite nof_cons in H. apply andb_true_iff in H. destruct H as [H1 _]. apply negb_true_iff in H1.
  cbn. now rewrite H1.
Qed.

Lemma trim_start_keep_app f s t : nof f s = true -> s <> [] -> h_trim_start_by f (s ++ t) = s ++ t.
Proof.
  destruct s as [|x s]; intros H Hs; [congruence|].
  rewrite nof_cons in H. apply andb_true_iff in H. destruct H as [H1 _]. apply negb_true_iff in H1.
  cbn. now rewrite H1.
Qed.

Lemma trim_by_strip f pre s post :
  forallb f pre = true -> forallb f post = true -> nof f s = true -> h_trim_by f (pre ++ s ++ post) = s.
Proof.
  intros Hpre Hpost Hs. unfold h_trim_by, h_trim_end_by.
  rewrite (trim_start_strip _ _ _ Hpre).
  destruct s as [|x s].
  - cbn [app]. replace (h_trim_start_by f post) with (@nil N).
    + reflexivity.
    + clear -Hpost. induction post as [|y post IH]; [reflexivity|].
      cbn in Hpost. apply andb_true_iff in Hpost. destruct Hpost as [H1 H2]. cbn. now rewrite H1, <- IH.
  - rewrite (trim_start_keep_app _ _ _ Hs) by discriminate.
    rewrite rev_app_distr, trim_start_strip by (now rewrite forallb_rev).
    rewrite trim_start_keep; [apply rev_involutive|].
    unfold nof. now rewrite forallb_rev.
Qed.

Lemma trim_by_keep f s : nof f s = true -> h_trim_by f s = s.
Proof.
  intros H. rewrite <- (trim_by_strip f [] s [] eq_refl eq_refl H) at 2. now rewrite app_nil_r.
Qed.

(* ---- lower case ---- *)
Lemma to_lower_app a b : h_to_lower (a ++ b) = h_to_lower a ++ h_to_lower b.
Proof. apply map_app. Qed.

Lemma h_lower_idem_noupper c : (c <? 65) || (90 <? c) = true -> h_lower c = c.
Proof.
  intros H. unfold h_lower. apply orb_true_iff in H.
  destruct (N.leb_spec 65 c), (N.leb_spec c 90); cbn; try reflexivity.
  destruct H as [H|H]; [apply N.ltb_lt in H | apply N.ltb_lt in H]; lia.
Qed.

Lemma bytes_eqb_eq a b : bytes_eqb a b = true <-> a = b.
Proof.
  revert b. induction a as [|x a IH]; intros [|y b]; cbn; split; try congruence; try discriminate.
  - intros H. apply andb_true_iff in H. destruct H as [H1 H2]. apply N.eqb_eq in H1. apply IH in H2. congruence.
  - intros H. inversion H; subst. rewrite N.eqb_refl. now apply IH.
Qed.

(* ---- decimal ---- *)
Definition digitsb (ds : list N) : bool := forallb (fun d => d <? 10) ds.

Lemma h_digit_of d : d < 10 -> h_digit (48 + d) = Some d.
Proof.
  intros H. unfold h_digit.
  destruct (N.leb_spec 48 (48 + d)); [|lia]. destruct (N.leb_spec (48 + d) 57); [|lia].
  cbn [andb]. f_equal. lia.
Qed.

Lemma fold_digits_ge ds acc : acc <= fold_left (fun a d => a * 10 + d) ds acc.
Proof.
  revert acc. induction ds as [|d ds IH]; intros acc; cbn [fold_left]; [lia|].
  specialize (IH (acc * 10 + d)). lia.
Qed.

Lemma parse_digits_ok lim ds acc :
  digitsb ds = true -> fold_left (fun a d => a * 10 + d) ds acc <= lim ->
  h_parse_digits lim acc (map (fun d => 48 + d) ds) = Some (fold_left (fun a d => a * 10 + d) ds acc).
Proof.
  revert acc. induction ds as [|d ds IH]; intros acc Hd Hl; [reflexivity|].
  cbn in Hd. apply andb_true_iff in Hd. destruct Hd as [H1 H2]. apply N.ltb_lt in H1.
  cbn [map h_parse_digits fold_left] in *. rewrite (h_digit_of _ H1).
  pose proof (fold_digits_ge ds (acc * 10 + d)).
  destruct (N.leb_spec (acc * 10 + d) lim); [|lia]. now apply IH.
Qed.

Lemma parse_uint_digits lim d ds :
  digitsb (d :: ds) = true -> fold_left (fun a x => a * 10 + x) (d :: ds) 0 <= lim ->
  h_parse_uint lim (map (fun x => 48 + x) (d :: ds)) = Some (fold_left (fun a x => a * 10 + x) (d :: ds) 0).
Proof.
  intros Hd Hl. unfold h_parse_uint. cbn [map].
  destruct (N.eqb_spec (48 + d) 43) as [E|_]; [lia|].
  cbn [h_nil]. change (48 + d :: map (fun x => 48 + x) ds) with (map (fun x => 48 + x) (d :: ds)).
  now apply parse_digits_ok.
Qed.

Lemma parse_digits_bad lim acc s x : h_digit x = None -> h_parse_digits lim acc (s ++ [x]) = None.
Proof.
  intros Hx. revert acc. induction s as [|c s IH]; intros acc.
  - cbn. now rewrite Hx.
  - cbn [app h_parse_digits]. destruct (h_digit c); [|reflexivity].
    destruct (_ <=? lim); [apply IH|reflexivity].
Qed.

Lemma parse_uint_bad_last lim s x : h_digit x = None -> x <> 43 -> h_parse_uint lim (s ++ [x]) = None.
Proof.
  intros Hx Hne. unfold h_parse_uint. destruct s as [|c s].
  - cbn [app]. destruct (N.eqb_spec x 43); [congruence|]. cbn. now rewrite Hx.
  - cbn [app]. destruct (c =? 43).
    + destruct s as [|c' s]; cbn [app h_nil]; [cbn; now rewrite Hx|].
      change (c' :: s ++ [x]) with ((c' :: s) ++ [x]). now apply parse_digits_bad.
    + cbn [h_nil]. change (c :: s ++ [x]) with ((c :: s) ++ [x]). now apply parse_digits_bad.
Qed.

(* Display of an unsigned integer produces decimal digits only *)
Lemma h_dec_fuel_digits k n acc :
  forallb (fun c => (48 <=? c) && (c <=? 57)) acc = true ->
  forallb (fun c => (48 <=? c) && (c <=? 57)) (h_dec_fuel k n acc) = true.
Proof.
  revert n acc. induction k as [|k IH]; intros n acc H; [exact H|].
  cbn [h_dec_fuel].
  assert (Hd : forallb (fun c => (48 <=? c) && (c <=? 57)) ((48 + n mod 10) :: acc) = true).
  { cbn [forallb]. rewrite H, andb_true_r.
    destruct (N.leb_spec 48 (48 + n mod 10)); [|lia].
    destruct (N.leb_spec (48 + n mod 10) 57); [reflexivity|]. lia. }
  destruct (n / 10 =? 0); [exact Hd | now apply IH].
Qed.

Lemma h_dec_digits n : forallb (fun c => (48 <=? c) && (c <=? 57)) (h_dec n) = true.
Proof. unfold h_dec. now apply h_dec_fuel_digits. Qed.

Lemma h_dec_digits_text n : map (fun d => 48 + d) (map (fun c => c - 48) (h_dec n)) = h_dec n.
Proof.
  pose proof (h_dec_digits n) as H. induction (h_dec n) as [|c l IH]; [reflexivity|].
  cbn in H. apply andb_true_iff in H. destruct H as [H1 H2]. apply andb_true_iff in H1. destruct H1 as [H1 _].
  apply N.leb_le in H1. cbn [map]. rewrite (IH H2). f_equal. lia.
Qed.
