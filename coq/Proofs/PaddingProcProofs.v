(* PaddingProcProofs.v -- C19: the process-level model (replaceable default scheme, client, sessions) *)
From Coq Require Import List NArith ZArith Lia Bool Arith.
From AnyTLS Require Import Bytes Cmd Generated FactsCore FactsPadding Frame Text Padding BytesFacts FrameProofs PaddingProofs.
Import ListNotations.
Open Scope N_scope.

(* side lemma: the built-in scheme text is accepted by the parser, stop = 8 *)
Lemma default_scheme_parses :
  exists s, factory_new default_scheme = Some s /\ sc_stop s = 8 /\ sc_raw s = default_scheme /\ builtin_scheme = s.
Proof. eexists. split; [vm_compute; reflexivity|]. split; [|split]; reflexivity. Qed.

Lemma factory_new_raw raw s : factory_new raw = Some s -> sc_raw s = raw.
Proof.
  unfold factory_new. destruct (map_get key_stop (parse_map raw)); [|discriminate].
  destruct (parse_u32 b); [|discriminate]. intros H; inversion H. reflexivity.
Qed.

Lemma factory_new_nil : factory_new [] = None.
Proof. reflexivity. Qed.

Lemma bytes_eqb_neq a b : a <> b -> bytes_eqb a b = false.
Proof. intros H. destruct (bytes_eqb a b) eqn:E; [apply bytes_eqb_eq in E; contradiction | reflexivity]. Qed.

Section WithMd5.
  Variable md5 : bytes -> bytes.

  (* the server pushes its raw scheme exactly when the announced digest differs from its own *)
  Lemma server_push_same srv cl :
    sc_raw cl = sc_raw srv -> server_on_announce md5 srv (Some (scheme_md5 md5 cl)) = None.
  Proof. intros H. unfold server_on_announce, scheme_md5. rewrite H, bytes_eqb_refl. reflexivity. Qed.

  Lemma server_push_differs srv cl :
    (forall a b, md5 a = md5 b -> a = b) -> sc_raw cl <> sc_raw srv ->
    server_on_announce md5 srv (Some (scheme_md5 md5 cl)) = Some (sc_raw srv).
  Proof.
    intros Hinj H. unfold server_on_announce, scheme_md5.
    rewrite bytes_eqb_neq; [reflexivity|]. intros E. apply H. apply Hinj. exact E.
  Qed.

  Lemma server_no_announce srv : server_on_announce md5 srv None = None.
  Proof. reflexivity. Qed.
End WithMd5.

(* ---------- the client's UpdatePaddingScheme arm *)
Definition proc_with (p : proc) (f : scheme) : proc :=
  {| p_builtin_made := p_builtin_made p; p_updated := Some f |}.

Lemma on_update_adopts p s raw f :
  cs_client s = true -> factory_new raw = Some f ->
  on_update p s raw = (proc_with p f, sess_set_scheme s f).
Proof.
  intros Hc Hf. unfold on_update, proc_update. rewrite Hc.
  destruct raw as [|b raw']; [rewrite factory_new_nil in Hf; discriminate|].
  cbn [is_nil negb andb]. rewrite Hf. reflexivity.
Qed.

Lemma on_update_ignored p s raw : factory_new raw = None -> on_update p s raw = (p, s).
Proof.
  intros Hf. unfold on_update, proc_update. rewrite Hf.
  destruct (cs_client s && negb (is_nil raw)); reflexivity.
Qed.

Lemma on_update_server p s raw : cs_client s = false -> on_update p s raw = (p, s).
Proof. intros H. unfold on_update. rewrite H. reflexivity. Qed.

Lemma adopted_is_default p f : proc_default (proc_with p f) = (f, proc_with p f).
Proof. reflexivity. Qed.

Lemma adopted_next_session p f cl : session_padding (proc_with p f) cl = f.
Proof. reflexivity. Qed.

Lemma update_any_time p raw f : factory_new raw = Some f -> proc_update p raw = Some (proc_with p f).
Proof. intros H. unfold proc_update. rewrite H. reflexivity. Qed.

(* later packets of the session are shaped by the adopted scheme, the packet counter goes on *)
Lemma sess_write_after_update s f d e :
  cs_buffering s = false ->
  sess_write (sess_set_scheme s f) d e =
  (let '(r, c') := write_packet (sess_pads s) f (cs_counter s) d (cs_buffer s ++ e) in
   ({| cs_client := cs_client s; cs_scheme := f; cs_counter := c'; cs_buffering := false; cs_buffer := [] |}, Some r)).
Proof. intros Hb. unfold sess_write, sess_set_scheme, sess_pads. cbn. rewrite Hb. reflexivity. Qed.

(* ---------- histories *)
Lemma nth_error_upd_same {A} (l : list A) : forall i x y, nth_error l i = Some y -> nth_error (upd_nth i l x) i = Some x.
Proof. induction l as [|h t IH]; intros [|i] x y H; cbn in *; try discriminate; [reflexivity | eauto]. Qed.

Lemma nth_error_upd_other {A} (l : list A) : forall i j x, i <> j -> nth_error (upd_nth j l x) i = nth_error l i.
Proof.
  induction l as [|h t IH]; intros i j x H; [destruct j; reflexivity|].
  destruct j as [|j], i as [|i]; cbn; try reflexivity; [congruence | apply IH; congruence].
Qed.

Lemma upd_nth_length {A} (l : list A) : forall i x, length (upd_nth i l x) = length l.
Proof. induction l as [|h t IH]; intros [|i] x; cbn; auto. Qed.

Lemma nth_error_app_l {A} (l : list A) x i y : nth_error l i = Some y -> nth_error (l ++ [x]) i = Some y.
Proof. intros H. rewrite nth_error_app1; [exact H | apply nth_error_Some; congruence]. Qed.

Definition adopted (raw : bytes) : option scheme := factory_new raw.

(* the scheme the process has adopted after history h, when it started with `cur` and n open sessions *)
Fixpoint adopted_after (h : list event) (n : nat) (cur : option scheme) : option scheme :=
  match h with
  | [] => cur
  | EvNewSession :: t => adopted_after t (S n) cur
  | EvPush i raw :: t =>
      adopted_after t n (if (i <? n)%nat then match adopted raw with Some f => Some f | None => cur end else cur)
  | _ :: t => adopted_after t n cur
  end.

(* the scheme of the (already open) session i after history h *)
Fixpoint scheme_after (h : list event) (i : nat) (cur : scheme) : scheme :=
  match h with
  | [] => cur
  | EvPush j raw :: t =>
      scheme_after t i (if (j =? i)%nat then match adopted raw with Some f => f | None => cur end else cur)
  | _ :: t => scheme_after t i cur
  end.

Definition all_clients (w : world) : Prop := Forall (fun s => cs_client s = true) (w_sessions w).

Lemma Forall_upd_nth {A} (P : A -> Prop) (l : list A) : forall i x, Forall P l -> P x -> Forall P (upd_nth i l x).
Proof.
  induction l as [|h t IH]; intros [|i] x Hl Hx; cbn; try exact Hl; inversion Hl; subst; constructor; auto.
Qed.

Lemma step_push_existing w i raw s :
  nth_error (w_sessions w) i = Some s -> cs_client s = true ->
  step w (EvPush i raw) =
  match adopted raw with
  | Some f => {| w_proc := proc_with (w_proc w) f; w_client := w_client w;
                 w_sessions := upd_nth i (w_sessions w) (sess_set_scheme s f); w_out := w_out w |}
  | None => {| w_proc := w_proc w; w_client := w_client w;
               w_sessions := upd_nth i (w_sessions w) s; w_out := w_out w |}
  end.
Proof.
  intros Hn Hc. cbn [step]. rewrite Hn. unfold adopted. destruct (factory_new raw) as [f|] eqn:E.
  - rewrite (on_update_adopts _ _ _ _ Hc E). reflexivity.
  - rewrite (on_update_ignored _ _ _ E). reflexivity.
Qed.

Lemma upd_nth_same {A} (l : list A) : forall i x, nth_error l i = Some x -> upd_nth i l x = l.
Proof. induction l as [|h t IH]; intros [|i] x H; cbn in *; try discriminate; [inversion H; reflexivity | f_equal; auto]. Qed.

Lemma sess_write_keeps s d e : cs_client (fst (sess_write s d e)) = cs_client s /\ cs_scheme (fst (sess_write s d e)) = cs_scheme s.
Proof.
  unfold sess_write. destruct (cs_buffering s); [split; reflexivity|].
  destruct (write_packet (sess_pads s) (cs_scheme s) (cs_counter s) d (cs_buffer s ++ e)). split; reflexivity.
Qed.

(* invariant of one step *)
Lemma step_inv w e :
  all_clients w ->
  all_clients (step w e) /\ w_client (step w e) = w_client w /\
  p_updated (w_proc (step w e)) = adopted_after [e] (length (w_sessions w)) (p_updated (w_proc w)) /\
  length (w_sessions (step w e)) = (length (w_sessions w) + match e with EvNewSession => 1 | _ => 0 end)%nat /\
  (forall i s, nth_error (w_sessions w) i = Some s ->
     exists s', nth_error (w_sessions (step w e)) i = Some s' /\ cs_scheme s' = scheme_after [e] i (cs_scheme s)).
Proof.
  intros Hall. destruct e as [| |j raw|j d payload].
  - (* EvDefault *) cbn [step adopted_after scheme_after]. unfold all_clients. cbn [w_sessions w_client w_proc].
    split; [exact Hall|]. split; [reflexivity|]. split.
    + unfold proc_default. destruct (p_updated (w_proc w)) eqn:E; cbn; [exact E | reflexivity].
    + split; [lia|]. intros i s H. eauto.
  - (* EvNewSession *) cbn [step adopted_after scheme_after]. unfold all_clients. cbn [w_sessions w_client w_proc].
    split; [apply Forall_app; split; [exact Hall | constructor; [reflexivity | constructor]]|].
    split; [reflexivity|]. split; [reflexivity|]. split; [rewrite app_length; cbn; lia|].
    intros i s H. exists s. split; [apply nth_error_app_l; exact H | reflexivity].
  - (* EvPush *) cbn [adopted_after scheme_after].
    destruct (nth_error (w_sessions w) j) as [sj|] eqn:Ej.
    + assert (cs_client sj = true) as Hcj.
      { unfold all_clients in Hall. rewrite Forall_forall in Hall. apply Hall. eapply nth_error_In; exact Ej. }
      rewrite (step_push_existing w j raw sj Ej Hcj).
      assert (j < length (w_sessions w))%nat as Hlt by (apply nth_error_Some; congruence).
      destruct (Nat.ltb_spec j (length (w_sessions w))) as [_|]; [|lia].
      destruct (adopted raw) as [f|] eqn:Ea; unfold all_clients; cbn [w_sessions w_client w_proc p_updated proc_with].
      * split; [apply Forall_upd_nth; [exact Hall | exact Hcj]|]. split; [reflexivity|]. split; [reflexivity|].
        split; [rewrite upd_nth_length; lia|]. intros i s H.
        destruct (Nat.eqb_spec j i) as [->|Hne].
        -- exists (sess_set_scheme sj f). split; [eapply nth_error_upd_same; exact Ej | reflexivity].
        -- exists s. split; [rewrite nth_error_upd_other by congruence; exact H | reflexivity].
      * rewrite (upd_nth_same _ _ _ Ej).
        split; [exact Hall|]. split; [reflexivity|]. split; [reflexivity|]. split; [lia|].
        intros i s H. exists s. split; [exact H|]. destruct (j =? i)%nat; reflexivity.
    + cbn [step]. rewrite Ej.
      assert (length (w_sessions w) <= j)%nat as Hge by (apply nth_error_None; exact Ej).
      destruct (Nat.ltb_spec j (length (w_sessions w))) as [|_]; [lia|].
      split; [exact Hall|]. split; [reflexivity|]. split; [reflexivity|]. split; [lia|].
      intros i s H. exists s. split; [exact H|].
      destruct (Nat.eqb_spec j i) as [->|]; [rewrite H in Ej; discriminate | reflexivity].
  - (* EvSend *) cbn [step adopted_after scheme_after].
    destruct (nth_error (w_sessions w) j) as [sj|] eqn:Ej.
    + pose proof (sess_write_keeps sj d payload) as [Hk1 Hk2].
      assert (cs_client sj = true) as Hcj.
      { unfold all_clients in Hall. rewrite Forall_forall in Hall. apply Hall. eapply nth_error_In; exact Ej. }
      destruct (sess_write sj d payload) as [s' [r|]]; cbn [fst] in *; unfold all_clients; cbn [w_sessions w_client w_proc].
      * split; [apply Forall_upd_nth; [exact Hall | congruence]|]. split; [reflexivity|]. split; [reflexivity|].
        split; [rewrite upd_nth_length; lia|]. intros i s H.
        destruct (Nat.eq_dec j i) as [->|Hne].
        -- exists s'. split; [eapply nth_error_upd_same; exact Ej | congruence].
        -- exists s. split; [rewrite nth_error_upd_other by congruence; exact H | reflexivity].
      * split; [apply Forall_upd_nth; [exact Hall | congruence]|]. split; [reflexivity|]. split; [reflexivity|].
        split; [rewrite upd_nth_length; lia|]. intros i s H.
        destruct (Nat.eq_dec j i) as [->|Hne].
        -- exists s'. split; [eapply nth_error_upd_same; exact Ej | congruence].
        -- exists s. split; [rewrite nth_error_upd_other by congruence; exact H | reflexivity].
    + split; [exact Hall|]. split; [reflexivity|]. split; [reflexivity|]. split; [lia|]. intros i s H. eauto.
Qed.

Fixpoint count_new (h : list event) : nat :=
  match h with [] => 0 | EvNewSession :: t => S (count_new t) | _ :: t => count_new t end.

Lemma run_inv h : forall w,
  all_clients w ->
  all_clients (run w h) /\ w_client (run w h) = w_client w /\
  p_updated (w_proc (run w h)) = adopted_after h (length (w_sessions w)) (p_updated (w_proc w)) /\
  length (w_sessions (run w h)) = (length (w_sessions w) + count_new h)%nat /\
  (forall i s, nth_error (w_sessions w) i = Some s ->
     exists s', nth_error (w_sessions (run w h)) i = Some s' /\ cs_scheme s' = scheme_after h i (cs_scheme s)).
Proof.
  induction h as [|e h IH]; intros w Hall.
  - cbn. split; [exact Hall|]. split; [reflexivity|]. split; [reflexivity|]. split; [lia|]. eauto.
  - unfold run. cbn [fold_left]. fold (run (step w e) h).
    destruct (step_inv w e Hall) as (H1 & H2 & H3 & H4 & H5).
    destruct (IH (step w e) H1) as (I1 & I2 & I3 & I4 & I5).
    split; [exact I1|]. split; [congruence|]. split.
    + rewrite I3, H3, H4. destruct e; cbn [adopted_after]; try rewrite Nat.add_0_r; try reflexivity.
      rewrite Nat.add_1_r. reflexivity.
    + split.
      * rewrite I4, H4. destruct e; cbn [count_new]; lia.
      * intros i s Hn. destruct (H5 i s Hn) as (s1 & Hn1 & Hs1).
        destruct (I5 i s1 Hn1) as (s2 & Hn2 & Hs2). exists s2. split; [exact Hn2|].
        rewrite Hs2, Hs1. destruct e; reflexivity.
Qed.

(* the session opened after any history starts from the adopted scheme, whatever happened to the built-in default *)
Lemma next_session_after h p0 cl :
  let w := run (world_init p0 cl) h in
  let w' := step w EvNewSession in
  exists s, nth_error (w_sessions w') (length (w_sessions w)) = Some s /\
    cs_client s = true /\ cs_counter s = 0 /\
    cs_scheme s = match adopted_after h 0 (p_updated p0) with Some f => f | None => cl end.
Proof.
  intros w w'.
  destruct (run_inv h (world_init p0 cl)) as (_ & Hc & Hu & _ & _); [constructor|].
  cbn [world_init w_sessions w_proc w_client length] in Hu, Hc.
  exists (sess_new true (session_padding (w_proc w) (w_client w))).
  split.
  - unfold w'. cbn [step w_sessions]. rewrite nth_error_app2 by lia. rewrite Nat.sub_diag. reflexivity.
  - split; [reflexivity|]. split; [reflexivity|]. cbn [sess_new cs_scheme]. unfold session_padding.
    fold w in Hu, Hc. rewrite Hu, Hc. reflexivity.
Qed.

(* ---------- what the specification functions say *)
Lemma adopted_after_app h1 : forall h2 n cur,
  adopted_after (h1 ++ h2) n cur = adopted_after h2 (n + count_new h1) (adopted_after h1 n cur).
Proof.
  induction h1 as [|e h1 IH]; intros h2 n cur; cbn [app adopted_after count_new].
  - rewrite Nat.add_0_r. reflexivity.
  - destruct e; cbn [adopted_after count_new]; rewrite IH; try reflexivity.
    rewrite Nat.add_succ_r. reflexivity.
Qed.

Lemma last_push_wins h i raw f n cur :
  (i < n + count_new h)%nat -> factory_new raw = Some f ->
  adopted_after (h ++ [EvPush i raw]) n cur = Some f.
Proof.
  intros Hi Hf. rewrite adopted_after_app. cbn [adopted_after]. unfold adopted. rewrite Hf.
  destruct (Nat.ltb_spec i (n + count_new h)); [reflexivity | lia].
Qed.

Lemma unparsable_push_keeps h i raw n cur :
  factory_new raw = None -> adopted_after (h ++ [EvPush i raw]) n cur = adopted_after h n cur.
Proof.
  intros Hf. rewrite adopted_after_app. cbn [adopted_after]. unfold adopted. rewrite Hf.
  destruct (i <? n + count_new h)%nat; reflexivity.
Qed.

Lemma default_use_irrelevant h1 h2 n cur :
  adopted_after (h1 ++ EvDefault :: h2) n cur = adopted_after (h1 ++ h2) n cur.
Proof. rewrite !adopted_after_app. reflexivity. Qed.

(* ---------- statements in the form used by Props/C19.v *)
Lemma push_adopted (md5 : bytes -> bytes) raw_srv srv cl p s :
  (forall a b, md5 a = md5 b -> a = b) ->
  factory_new raw_srv = Some srv -> sc_raw cl <> raw_srv -> cs_client s = true ->
  server_on_announce md5 srv (Some (scheme_md5 md5 cl)) = Some raw_srv /\
  on_update p s raw_srv = (proc_with p srv, sess_set_scheme s srv) /\
  cs_scheme (sess_set_scheme s srv) = srv /\ cs_counter (sess_set_scheme s srv) = cs_counter s /\
  proc_default (proc_with p srv) = (srv, proc_with p srv) /\
  (cs_buffering s = false -> forall d e,
     sess_write (sess_set_scheme s srv) d e =
     (let '(r, c') := write_packet (sess_pads s) srv (cs_counter s) d (cs_buffer s ++ e) in
      ({| cs_client := cs_client s; cs_scheme := srv; cs_counter := c'; cs_buffering := false; cs_buffer := [] |},
       Some r))).
Proof.
  intros Hinj Hf Hne Hc. pose proof (factory_new_raw _ _ Hf) as Hraw.
  split; [rewrite <- Hraw; apply server_push_differs; [exact Hinj | rewrite Hraw; exact Hne]|].
  split; [apply on_update_adopts; assumption|].
  split; [reflexivity|]. split; [reflexivity|]. split; [reflexivity|].
  intros Hb d e. apply sess_write_after_update. exact Hb.
Qed.

Lemma next_session (md5 : bytes -> bytes) raw_srv srv p cl :
  factory_new raw_srv = Some srv ->
  let p' := proc_with p srv in
  let s := sess_new true (session_padding p' cl) in
  cs_scheme s = srv /\ scheme_md5 md5 (cs_scheme s) = md5 raw_srv /\
  server_on_announce md5 srv (Some (scheme_md5 md5 (cs_scheme s))) = None /\
  (forall srv', factory_new raw_srv = Some srv' -> server_on_announce md5 srv' (Some (scheme_md5 md5 (cs_scheme s))) = None).
Proof.
  intros Hf p' s. pose proof (factory_new_raw _ _ Hf) as Hraw.
  split; [reflexivity|]. split; [unfold scheme_md5; cbn; rewrite Hraw; reflexivity|].
  split; [apply server_push_same; reflexivity|].
  intros srv' Hf'. rewrite Hf in Hf'. inversion Hf'; subst. apply server_push_same. reflexivity.
Qed.

Lemma unparsable_ignored p s raw : factory_new raw = None -> on_update p s raw = (p, s).
Proof. apply on_update_ignored. Qed.

Lemma any_history h1 h2 p0 cl :
  let w1 := run (world_init p0 cl) h1 in
  let i := length (w_sessions w1) in
  let w := run (step w1 EvNewSession) h2 in
  let start := match adopted_after h1 0 (p_updated p0) with Some f => f | None => cl end in
  (* the process default after the whole history: the last parsable push, whatever else happened *)
  p_updated (w_proc w) = adopted_after (h1 ++ EvNewSession :: h2) 0 (p_updated p0) /\
  w_client w = cl /\
  (* the session opened after h1 started from the scheme adopted so far, and now runs the scheme of the last
     parsable push it received *)
  exists s, nth_error (w_sessions w) i = Some s /\ cs_client s = true /\
            cs_scheme s = scheme_after h2 i start.
Proof.
  intros w1 i w start.
  destruct (run_inv h1 (world_init p0 cl)) as (A1 & C1 & U1 & L1 & _); [constructor|].
  fold w1 in A1, C1, U1, L1. cbn [world_init w_sessions w_proc w_client length] in U1, C1, L1.
  destruct (step_inv w1 EvNewSession A1) as (A2 & C2 & U2 & L2 & _).
  destruct (run_inv h2 (step w1 EvNewSession) A2) as (A3 & C3 & U3 & L3 & S3). fold w in A3, C3, U3, L3, S3.
  split.
  - rewrite U3, U2, U1. rewrite adopted_after_app. cbn [adopted_after]. rewrite L2, L1.
    cbn [Nat.add]. rewrite Nat.add_1_r. reflexivity.
  - split; [congruence|].
    destruct (next_session_after h1 p0 cl) as (s0 & Hn & Hc & _ & Hs). fold w1 in Hn. fold i in Hn.
    destruct (S3 i s0 Hn) as (s & Hn' & Hs').
    exists s. split; [exact Hn'|]. split.
    + unfold all_clients in A3. rewrite Forall_forall in A3. apply A3. eapply nth_error_In. exact Hn'.
    + rewrite Hs', Hs. reflexivity.
Qed.
