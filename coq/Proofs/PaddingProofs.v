From Coq Require Import List NArith ZArith Lia Bool.
From AnyTLS Require Import Bytes Cmd Generated FactsCore FactsPadding Frame Text Padding BytesFacts FrameProofs.
Import ListNotations.
Open Scope N_scope.
Ltac Zify.zify_post_hook ::= Z.to_euclidean_division_equations.

(* ---------- entries are well-formed *)
Definition entry_wf (e : entry) : Prop :=
  match e with ECheck => True | ERange lo hi => (1 <= lo <= hi /\ hi <= 65535)%Z end.

Lemma filter_map_Forall {A B} (f : A -> option B) (P : B -> Prop) l :
  (forall x y, f x = Some y -> P y) -> Forall P (filter_map f l).
Proof.
  intros H. induction l as [|x l IH]; cbn [filter_map]; [constructor|].
  destruct (f x) eqn:E; [constructor; eauto | exact IH].
Qed.

Lemma parse_entry_wf part e : parse_entry (Some 65535%Z) part = Some e -> entry_wf e.
Proof.
  unfold parse_entry. destruct (bytes_eqb (trim part) lit_c).
  - intros H; inversion H; exact I.
  - destruct (split_once 45 (trim part)) as [[a b]|]; [|discriminate].
    set (lo := or0 (parse_i64 (trim a))). set (hi := or0 (parse_i64 (trim b))).
    destruct ((lo <=? 0)%Z || (hi <=? 0)%Z) eqn:E0; [discriminate|].
    apply orb_false_iff in E0. destruct E0 as [E1 E2].
    apply Z.leb_gt in E1. apply Z.leb_gt in E2.
    destruct (65535 <? Z.max lo hi)%Z eqn:E3; [discriminate|].
    apply Z.ltb_ge in E3. intros H; inversion H; subst. cbn. lia.
Qed.

Lemma line_entries_wf sc k : Forall entry_wf (line_entries sc k).
Proof.
  unfold line_entries, line_entries_gen. rewrite padding_size_bound_u16.
  destruct (map_get (u32_to_string k) (sc_map sc)); [|constructor].
  unfold spec_entries. apply filter_map_Forall. intros x y. apply parse_entry_wf.
Qed.

(* ---------- sizes handed to the loop *)
Definition size_ok (s : Z) : Prop := s = check_mark \/ (1 <= s <= 65535)%Z.

Lemma i32_of_small z : (-2147483648 <= z < 2147483648)%Z -> i32_of z = z.
Proof. intros H. unfold i32_of. rewrite Z.mod_small by lia. lia. Qed.

Lemma sizes_ok es : forall draws,
  Forall entry_wf es -> draws_ok es draws -> Forall size_ok (sizes es draws).
Proof.
  induction es as [|e es IH]; intros draws Hwf Hd; cbn [sizes]; [constructor|].
  inversion Hwf as [|? ? He Hes]; subst. destruct e as [|lo hi].
  - constructor; [left; reflexivity | apply IH; assumption].
  - cbn [draws_ok] in Hd. cbn in He. destruct (lo =? hi)%Z.
    + constructor; [right; rewrite i32_of_small; lia | apply IH; assumption].
    + destruct draws as [|d ds]; [contradiction|]. destruct Hd as [Hr Hd].
      constructor; [right; rewrite i32_of_small; lia | apply IH; assumption].
Qed.

(* ---------- the shaping loop on admissible sizes *)
Lemma concat_wr b : concat (wr b) = b.
Proof. destruct b; cbn; [reflexivity | rewrite app_nil_r; reflexivity]. Qed.

Lemma wr_nonempty b : Forall (fun w : bytes => w <> []) (wr b).
Proof. destruct b; cbn; constructor; [discriminate | constructor]. Qed.

Lemma byte_of_cmd_waste : byte_of_cmd Waste = 0.
Proof. reflexivity. Qed.

Lemma waste_bytes_waste n : n <= 65535 -> waste_bytes (u16_of n) n = waste n.
Proof.
  intros H. unfold waste_bytes, waste, u16_of. rewrite byte_of_cmd_waste.
  rewrite N.mod_small by lia. reflexivity.
Qed.

Lemma lenN_0_nil {A} (l : list A) : lenN l = 0 -> l = [].
Proof. destruct l; [reflexivity | unfold lenN; cbn [length]; lia]. Qed.

Lemma usize_small s : (1 <= s <= 65535)%Z -> usize_of_i32 s = Z.to_N s.
Proof. intros H. unfold usize_of_i32. destruct (Z.ltb_spec s 0); [lia | reflexivity]. Qed.

Lemma and_then_writes w k ws : k = Writes ws -> and_then w k = Writes (w ++ ws).
Proof. intros ->. reflexivity. Qed.

Definition pad_ok (n : N) : Prop := n <= 65535.

Lemma shape_ok szs : forall buf,
  Forall size_ok szs ->
  exists ws ns, shape_loop szs buf = Writes ws /\
    concat ws = buf ++ concat (map waste ns) /\
    Forall pad_ok ns /\ Forall (fun w : bytes => w <> []) ws.
Proof.
  induction szs as [|s rest IH]; intros buf Hok; cbn [shape_loop].
  - exists (wr buf), []. cbn [map concat]. rewrite concat_wr, app_nil_r.
    repeat split; [constructor | apply wr_nonempty].
  - inversion Hok as [|? ? Hs Hrest]; subst.
    destruct Hs as [Hs | Hs].
    + subst s. rewrite Z.eqb_refl. destruct buf as [|b0 buf'].
      * cbn [is_nil]. exists [], []. cbn. repeat split; constructor.
      * cbn [is_nil]. apply IH. assumption.
    + assert (s <> check_mark) as Hne by (rewrite check_mark_neg1; lia).
      apply Z.eqb_neq in Hne. rewrite Hne. rewrite usize_small by assumption.
      set (sz := Z.to_N s). assert (1 <= sz <= 65535) as Hsz by (unfold sz; lia).
      rewrite header_size_7.
      destruct (N.ltb_spec sz (lenN buf)) as [Hlt | Hge].
      * destruct (IH (dropN sz buf) Hrest) as (ws & ns & E & Hc & Hn & Hw).
        exists (wr (takeN sz buf) ++ ws), ns. split; [apply and_then_writes; exact E|].
        split; [|split; [exact Hn|]].
        -- rewrite concat_app, concat_wr, Hc, app_assoc, takeN_dropN. reflexivity.
        -- apply Forall_app. split; [apply wr_nonempty | exact Hw].
      * destruct (N.ltb_spec 0 (lenN buf)) as [Hpos | Hzero].
        -- destruct (IH [] Hrest) as (ws & ns & E & Hc & Hn & Hw). cbn [app] in Hc.
           destruct (N.ltb_spec 0 (sz - (lenN buf + 7))) as [Hpl | Hpl0].
           ++ set (pl := sz - (lenN buf + 7)) in *.
              assert (pl <= 65535) as Hpl2 by (unfold pl; lia).
              destruct (N.ltb_spec isize_max (7 + pl)) as [Hbad | _]; [unfold isize_max in Hbad; lia|].
              exists (wr (buf ++ waste_bytes (u16_of pl) pl) ++ ws), (pl :: ns).
              split; [apply and_then_writes; exact E|].
              split; [|split].
              ** rewrite concat_app, concat_wr, Hc, waste_bytes_waste by exact Hpl2.
                 cbn [map concat]. rewrite <- app_assoc. reflexivity.
              ** constructor; [unfold pad_ok; lia | exact Hn].
              ** apply Forall_app. split; [apply wr_nonempty | exact Hw].
           ++ exists (wr buf ++ ws), ns. split; [apply and_then_writes; exact E|].
              split; [|split; [exact Hn|]].
              ** rewrite concat_app, concat_wr, Hc. reflexivity.
              ** apply Forall_app. split; [apply wr_nonempty | exact Hw].
        -- assert (buf = []) as -> by (apply lenN_0_nil; lia).
           destruct (IH [] Hrest) as (ws & ns & E & Hc & Hn & Hw). cbn [app] in Hc.
           destruct (N.ltb_spec isize_max (7 + sz)) as [Hbad | _]; [unfold isize_max in Hbad; lia|].
           exists (wr (waste_bytes (u16_of sz) sz) ++ ws), (sz :: ns).
           split; [apply and_then_writes; exact E|].
           split; [|split].
           ++ rewrite concat_app, concat_wr, Hc, waste_bytes_waste by lia. reflexivity.
           ++ constructor; [unfold pad_ok; lia | exact Hn].
           ++ apply Forall_app. split; [apply wr_nonempty | exact Hw].
Qed.

(* ---------- the reference acceptor *)
Lemma bytes_eqb_refl b : bytes_eqb b b = true.
Proof. induction b as [|x b IH]; cbn; [reflexivity | rewrite N.eqb_refl, IH; reflexivity]. Qed.

Lemma bytes_eqb_eq a : forall b, bytes_eqb a b = true -> a = b.
Proof.
  induction a as [|x a IH]; intros [|y b] H; cbn in H; try discriminate; [reflexivity|].
  apply andb_true_iff in H. destruct H as [H1 H2]. apply N.eqb_eq in H1. subst. f_equal. auto.
Qed.

Lemma lenN_waste n : lenN (waste n) = 7 + n.
Proof.
  unfold waste, be32, be16. cbn [app]. repeat rewrite lenN_cons. rewrite lenN_zeros. lia.
Qed.

Lemma wr_cons (b : bytes) : b <> [] -> wr b = [b].
Proof. destruct b; [congruence | reflexivity]. Qed.

Lemma lenN_pos_nonnil {A} (l : list A) : 0 < lenN l -> l <> [].
Proof. destruct l; [unfold lenN; cbn; lia | discriminate]. Qed.

Lemma and_then_inv w k ws : and_then w k = Writes ws -> exists ws', k = Writes ws' /\ ws = w ++ ws'.
Proof. destruct k; cbn; [discriminate|]. intros H; inversion H. eauto. Qed.

(* one range entry consumes at most one draw and yields a size inside the range *)
Lemma sizes_range lo hi es draws :
  entry_wf (ERange lo hi) -> draws_ok (ERange lo hi :: es) draws ->
  exists s draws', sizes (ERange lo hi :: es) draws = s :: sizes es draws' /\
                   (lo <= s <= hi)%Z /\ draws_ok es draws'.
Proof.
  intros Hwf Hd. cbn in Hwf. cbn [sizes draws_ok] in *. destruct (lo =? hi)%Z eqn:E.
  - exists lo, draws. rewrite i32_of_small by lia. repeat split; [lia | lia | exact Hd].
  - destruct draws as [|d ds]; [contradiction|]. destruct Hd as [Hr Hd].
    exists d, ds. rewrite i32_of_small by lia. repeat split; [lia | lia | exact Hd].
Qed.

Lemma model_accepted es : forall draws p ws,
  Forall entry_wf es -> draws_ok es draws ->
  shape_loop (sizes es draws) p = Writes ws -> accepts es p ws = true.
Proof.
  induction es as [|e es IH]; intros draws p ws Hwf Hd Hs.
  - cbn in Hs. inversion Hs; subst. destruct p; cbn; [reflexivity|].
    rewrite N.eqb_refl, bytes_eqb_refl. reflexivity.
  - inversion Hwf as [|? ? He Hes]; subst. destruct e as [|lo hi].
    + cbn [sizes shape_loop] in Hs. rewrite Z.eqb_refl in Hs. cbn [draws_ok] in Hd.
      destruct p as [|b p']; cbn [is_nil] in Hs.
      * inversion Hs; subst. reflexivity.
      * cbn [accepts]. eapply IH; eassumption.
    + destruct (sizes_range lo hi es draws He Hd) as (s & draws' & Es & Hr & Hd').
      rewrite Es in Hs. cbn in He. cbn [shape_loop] in Hs.
      assert (s <> check_mark) as Hne by (rewrite check_mark_neg1; lia).
      apply Z.eqb_neq in Hne. rewrite Hne in Hs. rewrite usize_small in Hs by lia.
      set (sz := Z.to_N s) in *. assert (1 <= sz <= 65535 /\ Z.of_N sz = s) as [Hsz Hszs] by (unfold sz; lia).
      rewrite header_size_7 in Hs.
      destruct (N.ltb_spec sz (lenN p)) as [Hlt | Hge].
      * (* payload only *)
        apply and_then_inv in Hs. destruct Hs as (ws' & Hs' & ->).
        assert (lenN (takeN sz p) = sz) as Hl by (apply lenN_takeN; lia).
        rewrite wr_cons by (apply lenN_pos_nonnil; lia). cbn [app].
        destruct p as [|b p']; [unfold lenN in Hlt; cbn in Hlt; lia|].
        cbn [accepts]. rewrite Hl.
        destruct (Z.ltb_spec (Z.of_N sz) (Z.of_N (lenN (b :: p')))) as [_ | Hbad]; [|lia].
        unfold in_range. rewrite bytes_eqb_refl.
        rewrite (IH draws' _ ws' Hes Hd' Hs').
        destruct (Z.leb_spec lo (Z.of_N sz)); [|lia]. destruct (Z.leb_spec (Z.of_N sz) hi); [|lia]. reflexivity.
      * destruct (N.ltb_spec 0 (lenN p)) as [Hpos | Hzero].
        -- destruct p as [|b p']; [unfold lenN in Hpos; cbn in Hpos; lia|].
           set (p := b :: p') in *.
           destruct (N.ltb_spec 0 (sz - (lenN p + 7))) as [Hpl | Hpl0].
           ++ set (pl := sz - (lenN p + 7)) in *.
              destruct (N.ltb_spec isize_max (7 + pl)) as [Hbad | _]; [unfold isize_max, pl in Hbad; lia|].
              apply and_then_inv in Hs. destruct Hs as (ws' & Hs' & ->).
              rewrite waste_bytes_waste by (unfold pl; lia).
              rewrite wr_cons by (unfold p; discriminate). cbn [app].
              unfold p at 1. cbn [accepts]. fold p.
              assert (lenN (p ++ waste pl) = sz) as Hl by (rewrite lenN_app, lenN_waste; unfold pl; lia).
              rewrite Hl.
              destruct (Z.ltb_spec (Z.of_N sz) (Z.of_N (lenN p))) as [Hbad | _]; [lia|].
              destruct (Z.eqb_spec (Z.of_N sz) (Z.of_N (lenN p))) as [Hbad | _]; [unfold pl in Hpl; lia|].
              replace (Z.to_N (Z.of_N sz - Z.of_N (lenN p) - 7)) with pl by (unfold pl; lia).
              rewrite bytes_eqb_refl, (IH draws' _ ws' Hes Hd' Hs').
              unfold in_range.
              destruct (Z.leb_spec lo (Z.of_N sz)); [|lia]. destruct (Z.leb_spec (Z.of_N sz) hi); [|lia].
              destruct (Z.ltb_spec 0 (Z.of_N sz - Z.of_N (lenN p) - 7)); [|unfold pl in Hpl; lia].
              destruct (Z.leb_spec (Z.of_N sz - Z.of_N (lenN p) - 7) 65535); [|lia]. reflexivity.
           ++ apply and_then_inv in Hs. destruct Hs as (ws' & Hs' & ->).
              rewrite wr_cons by (unfold p; discriminate). cbn [app].
              unfold p at 1. cbn [accepts]. fold p.
              destruct (Z.ltb_spec (Z.of_N (lenN p)) (Z.of_N (lenN p))) as [Hbad | _]; [lia|].
              rewrite Z.eqb_refl, bytes_eqb_refl, (IH draws' _ ws' Hes Hd' Hs').
              destruct (Z.leb_spec (Z.max lo (Z.of_N (lenN p))) (Z.min hi (Z.of_N (lenN p) + 7))); [reflexivity | lia].
        -- assert (p = []) as -> by (apply lenN_0_nil; lia).
           destruct (N.ltb_spec isize_max (7 + sz)) as [Hbad | _]; [unfold isize_max in Hbad; lia|].
           apply and_then_inv in Hs. destruct Hs as (ws' & Hs' & ->).
           rewrite waste_bytes_waste by lia.
           rewrite wr_cons by (unfold waste; discriminate). cbn [app accepts].
           rewrite lenN_waste.
           replace (Z.of_N (7 + sz) - 7)%Z with (Z.of_N sz) by lia.
           rewrite N2Z.id, bytes_eqb_refl, (IH draws' _ ws' Hes Hd' Hs').
           unfold in_range.
           destruct (Z.leb_spec lo (Z.of_N sz)); [|lia]. destruct (Z.leb_spec (Z.of_N sz) hi); [|lia].
           destruct (Z.leb_spec (Z.of_N sz) 65535); [|lia]. reflexivity.
Qed.

Lemma is_nil_true {A} (l : list A) : is_nil l = true -> l = [].
Proof. destruct l; [reflexivity | discriminate]. Qed.

Lemma accept_sound es : forall p ws,
  accepts es p ws = true ->
  exists ns, concat ws = p ++ concat (map waste ns) /\ Forall pad_ok ns.
Proof.
  induction es as [|e es IH]; intros p ws H.
  - cbn [accepts] in H. destruct p as [|b p'].
    + apply is_nil_true in H. subst. exists []. split; [reflexivity | constructor].
    + destruct ws as [|w [|w2 ws2]]; try discriminate. apply bytes_eqb_eq in H. subst.
      exists []. cbn. rewrite !app_nil_r. split; [reflexivity | constructor].
  - destruct e as [|lo hi].
    + cbn [accepts] in H. destruct p as [|b p'].
      * apply is_nil_true in H. subst. exists []. split; [reflexivity | constructor].
      * apply IH. exact H.
    + cbn [accepts] in H. destruct ws as [|w ws']; [discriminate|].
      destruct p as [|b p'].
      * apply andb_true_iff in H. destruct H as [H Ha].
        apply andb_true_iff in H. destruct H as [H Hb].
        apply andb_true_iff in H. destruct H as [_ Hl].
        destruct (IH _ _ Ha) as (ns & Hc & Hn).
        apply bytes_eqb_eq in Hb. apply Z.leb_le in Hl.
        exists (Z.to_N (Z.of_N (lenN w) - 7) :: ns). cbn [concat map app]. rewrite Hc. cbn [app].
        split; [f_equal; exact Hb|]. constructor; [unfold pad_ok; lia | exact Hn].
      * set (p := b :: p') in *.
        destruct (Z.ltb_spec (Z.of_N (lenN w)) (Z.of_N (lenN p))) as [Hlt | Hge].
        -- apply andb_true_iff in H. destruct H as [H Ha].
           apply andb_true_iff in H. destruct H as [_ Hb].
           destruct (IH _ _ Ha) as (ns & Hc & Hn). apply bytes_eqb_eq in Hb.
           exists ns. split; [|exact Hn]. cbn [concat]. rewrite Hc, app_assoc.
           rewrite <- (takeN_dropN (lenN w) p) at 2. f_equal. f_equal. exact Hb.
        -- destruct (Z.eqb_spec (Z.of_N (lenN w)) (Z.of_N (lenN p))) as [Heq | Hne].
           ++ apply andb_true_iff in H. destruct H as [H Ha].
              apply andb_true_iff in H. destruct H as [_ Hb].
              destruct (IH _ _ Ha) as (ns & Hc & Hn). apply bytes_eqb_eq in Hb.
              exists ns. split; [|exact Hn]. cbn [concat]. rewrite Hc. cbn [app]. f_equal. exact Hb.
           ++ apply andb_true_iff in H. destruct H as [H Ha].
              apply andb_true_iff in H. destruct H as [H Hb].
              apply andb_true_iff in H. destruct H as [_ Hl].
              destruct (IH _ _ Ha) as (ns & Hc & Hn). apply bytes_eqb_eq in Hb. apply Z.leb_le in Hl.
              exists (Z.to_N (Z.of_N (lenN w) - Z.of_N (lenN p) - 7) :: ns).
              cbn [concat map]. rewrite Hc. cbn [app]. rewrite app_assoc.
              split; [f_equal; exact Hb|]. constructor; [unfold pad_ok; lia | exact Hn].
Qed.

(* ---------- the wire decodes: submitted frames, then padding frames, nothing left over *)
Definition waste_r (n : N) : rframe := {| rcmd := 0; rsid := 0; rdata := zeros n |}.
Definition waste_f (n : N) : frame := {| fcmd := Waste; fsid := 0; fdata := zeros n |}.

Lemma waste_encode n : waste n = encode_raw (waste_r n).
Proof. unfold waste, encode_raw, waste_r. cbn [rcmd rsid rdata]. rewrite lenN_zeros. reflexivity. Qed.

Lemma waste_r_wf n : pad_ok n -> wf_rframe (waste_r n).
Proof.
  intros H. unfold wf_rframe, waste_r. cbn [rcmd rsid rdata]. rewrite lenN_zeros, max_payload_val.
  unfold pad_ok in H. split; [lia | split; [lia | split; [apply wfb_zeros | exact H]]].
Qed.

Lemma cook_waste_r n : cook (waste_r n) = waste_f n.
Proof. reflexivity. Qed.

Lemma concat_map_waste ns : concat (map waste ns) = concat (map encode_raw (map waste_r ns)).
Proof. rewrite map_map. f_equal. apply map_ext. intros n. apply waste_encode. Qed.

Lemma padded_wire_decodes_raw fs ns :
  Forall wf_rframe fs -> Forall pad_ok ns ->
  decode_all_raw (concat (map encode_raw fs) ++ concat (map waste ns)) = (fs ++ map waste_r ns, []).
Proof.
  intros Hf Hn. rewrite concat_map_waste, <- concat_app, <- map_app.
  rewrite <- (app_nil_r (concat _)). apply decode_all_raw_concat; [|reflexivity].
  apply Forall_app. split; [exact Hf|]. apply Forall_forall. intros r Hr.
  apply in_map_iff in Hr. destruct Hr as (n & <- & Hin). apply waste_r_wf.
  rewrite Forall_forall in Hn. auto.
Qed.

(* cooked frames: what the session was asked to send, as `frame`s *)
Definition payload_of (fs : list frame) : bytes := concat (map encode_raw (map raw_of fs)).

Lemma raw_of_wf f : wf_frame f -> lenN (fdata f) <= 65535 -> wf_rframe (raw_of f).
Proof.
  intros [Hs Hd] Hl. unfold wf_rframe, raw_of. cbn [rcmd rsid rdata]. rewrite max_payload_val.
  split; [apply byte_of_cmd_lt | split; [exact Hs | split; [exact Hd | exact Hl]]].
Qed.

Lemma padded_wire_decodes fs ns :
  Forall wf_frame fs -> Forall (fun f => lenN (fdata f) <= 65535) fs -> Forall pad_ok ns ->
  decode_all (payload_of fs ++ concat (map waste ns)) = (fs ++ map waste_f ns, []).
Proof.
  intros Hw Hl Hn. unfold decode_all, payload_of. rewrite padded_wire_decodes_raw.
  - rewrite map_app, !map_map. f_equal. f_equal.
    rewrite <- (map_id fs) at 2. apply map_ext. intros f. apply cook_raw_of.
  - apply Forall_forall. intros r Hr. apply in_map_iff in Hr. destruct Hr as (f & <- & Hin).
    rewrite Forall_forall in Hw, Hl. apply raw_of_wf; auto.
  - exact Hn.
Qed.

Lemma payload_of_encode fs :
  Forall (fun f => lenN (fdata f) <= 65535) fs ->
  Forall2 (fun f e => encode f = Some e) fs (map encode_raw (map raw_of fs)).
Proof.
  induction 1 as [|f fs Hf _ IH]; cbn [map]; constructor; [apply encode_some; exact Hf | exact IH].
Qed.

(* ---------- one packet *)
Lemma write_packet_shape szs buf :
  match szs with [] => Writes (wr buf) | _ => shape_loop szs buf end = shape_loop szs buf.
Proof. destruct szs; reflexivity. Qed.

Lemma write_packet_counter sc c d p :
  snd (write_packet true sc c d p) = u32_of (c + 1).
Proof.
  unfold write_packet, write_packet_gen. cbn [negb].
  destruct (sc_stop sc <=? pkt_index c); [reflexivity|].
  destruct (sizes (line_entries sc (pkt_index c)) d); reflexivity.
Qed.

Lemma write_packet_server sc c d p : write_packet false sc c d p = (Writes (wr p), c).
Proof. reflexivity. Qed.

Lemma write_packet_stop sc c d p :
  sc_stop sc <= pkt_index c -> fst (write_packet true sc c d p) = Writes (wr p).
Proof.
  intros H. unfold write_packet, write_packet_gen. cbn [negb].
  destruct (N.leb_spec (sc_stop sc) (pkt_index c)); [reflexivity | lia].
Qed.

Lemma write_packet_below sc c d p :
  pkt_index c < sc_stop sc ->
  fst (write_packet true sc c d p) = shape_loop (sizes (line_entries sc (pkt_index c)) d) p.
Proof.
  intros H. unfold write_packet, write_packet_gen. cbn [negb].
  destruct (N.leb_spec (sc_stop sc) (pkt_index c)); [lia|].
  rewrite <- (write_packet_shape (sizes (line_entries sc (pkt_index c)) d) p).
  destruct (sizes (line_entries sc (pkt_index c)) d); reflexivity.
Qed.

Lemma write_packet_wire pads sc c d p :
  draws_ok (line_entries sc (pkt_index c)) d ->
  exists ws ns, fst (write_packet pads sc c d p) = Writes ws /\
    concat ws = p ++ concat (map waste ns) /\ Forall pad_ok ns /\
    Forall (fun w : bytes => w <> []) ws.
Proof.
  intros Hd.
  assert (exists ws ns, Writes (wr p) = Writes ws /\ concat ws = p ++ concat (map waste ns) /\
            Forall pad_ok ns /\ Forall (fun w : bytes => w <> []) ws) as Hplain.
  { exists (wr p), []. cbn [map concat]. rewrite concat_wr, app_nil_r.
    repeat split; [constructor | apply wr_nonempty]. }
  destruct pads; [|exact Hplain].
  destruct (N.ltb_spec (pkt_index c) (sc_stop sc)) as [Hlt | Hge].
  - rewrite write_packet_below by exact Hlt. apply shape_ok. apply sizes_ok; [apply line_entries_wf | exact Hd].
  - rewrite write_packet_stop by exact Hge. exact Hplain.
Qed.

Lemma write_packet_accepted sc c d p ws :
  draws_ok (line_entries sc (pkt_index c)) d ->
  fst (write_packet true sc c d p) = Writes ws ->
  (pkt_index c < sc_stop sc -> accepts (line_entries sc (pkt_index c)) p ws = true) /\
  (sc_stop sc <= pkt_index c -> ws = wr p).
Proof.
  intros Hd Hw. split; intros Hk.
  - rewrite write_packet_below in Hw by exact Hk.
    eapply model_accepted; [apply line_entries_wf | exact Hd | exact Hw].
  - rewrite write_packet_stop in Hw by exact Hk. inversion Hw. reflexivity.
Qed.

(* ---------- a run of packets on one session: numbering *)
Lemma u32_of_small n : n < 4294967296 -> u32_of n = n.
Proof. intros H. unfold u32_of. apply N.mod_small. exact H. Qed.

Lemma pkt_index_val c : c + 1 < 4294967296 -> pkt_index c = c + 1.
Proof. intros H. unfold pkt_index. rewrite pkt_index_offset_1. apply u32_of_small. exact H. Qed.

Lemma run_packets_nth sc pkts : forall c i d p,
  nth_error pkts i = Some (d, p) -> c + N.of_nat i + 1 < 4294967296 ->
  nth_error (run_packets true sc c pkts) i = Some (fst (write_packet true sc (c + N.of_nat i) d p)).
Proof.
  induction pkts as [|[d0 p0] pkts IH]; intros c i d p Hn Hb; [destruct i; discriminate|].
  cbn [run_packets].
  destruct (write_packet true sc c d0 p0) as [r c'] eqn:E.
  destruct i as [|i].
  - cbn in Hn. inversion Hn; subst. cbn [nth_error]. rewrite N.add_0_r, E. reflexivity.
  - cbn [nth_error] in *.
    assert (c' = c + 1) as ->.
    { pose proof (write_packet_counter sc c d0 p0) as Hc. rewrite E in Hc. cbn [snd] in Hc.
      rewrite Hc. apply u32_of_small. lia. }
    rewrite (IH (c + 1) i d p Hn) by lia. do 3 f_equal. lia.
Qed.

Lemma run_packets_server sc pkts : forall c,
  run_packets false sc c pkts = map (fun dp => Writes (wr (snd dp))) pkts.
Proof.
  induction pkts as [|[d p] pkts IH]; intros c; cbn [run_packets map]; [reflexivity|].
  rewrite write_packet_server, IH. reflexivity.
Qed.

(* ---------- authentication preamble *)
Lemma sizes_first_range lo hi es draws :
  entry_wf (ERange lo hi) -> draws_ok (ERange lo hi :: es) draws ->
  exists s rest, sizes (ERange lo hi :: es) draws = s :: rest /\ (lo <= s <= hi)%Z.
Proof.
  intros Hw Hd. destruct (sizes_range lo hi es draws Hw Hd) as (s & d' & E & Hr & _). eauto.
Qed.

Lemma auth_preamble_shape hash es draws :
  Forall entry_wf es -> draws_ok es draws ->
  exists L, concat (auth_writes hash (sizes es draws)) = hash ++ be16 L ++ zeros L /\ L <= 65535 /\
    match es with
    | ERange lo hi :: _ => (lo <= Z.of_N L <= hi)%Z
    | _ => L = 0
    end.
Proof.
  intros Hwf Hd. unfold auth_writes.
  destruct es as [|[|lo hi] es].
  - exists 0. cbn [sizes]. cbn. rewrite !concat_app, !concat_wr. cbn. split; [reflexivity | split; [lia | reflexivity]].
  - exists 0. cbn [sizes]. rewrite check_mark_neg1. cbn. rewrite !concat_app, !concat_wr. cbn.
    split; [reflexivity | split; [lia | reflexivity]].
  - inversion Hwf as [|? ? He _]; subst.
    destruct (sizes_first_range lo hi es draws He Hd) as (s & rest & E & Hr). rewrite E. cbn in He.
    destruct (Z.ltb_spec s 0); [lia|].
    assert (u16_of (Z.to_N s) = Z.to_N s) as -> by (unfold u16_of; apply N.mod_small; lia).
    destruct (N.ltb_spec 0 (Z.to_N s)); [|lia].
    exists (Z.to_N s). rewrite !concat_app, !concat_wr. split; [reflexivity | split; lia].
Qed.

(* ---------- the whole session wire: every packet ends on a frame boundary, and what is between the
   submitted frames are padding frames only *)
Fixpoint pkts_ok (pads : bool) (sc : scheme) (c : N) (pkts : list (list Z * bytes)) : Prop :=
  match pkts with
  | [] => True
  | (d, p) :: rest =>
      draws_ok (line_entries sc (pkt_index c)) d /\
      pkts_ok pads sc (snd (write_packet pads sc c d p)) rest
  end.

Definition frames_ok (fs : list frame) : Prop :=
  Forall wf_frame fs /\ Forall (fun f => lenN (fdata f) <= 65535) fs.

Definition to_pkts (pk : list (list Z * list frame)) : list (list Z * bytes) :=
  map (fun dfs => (fst dfs, payload_of (snd dfs))) pk.

Definition expected_frames (pk : list (list Z * list frame)) (nss : list (list N)) : list frame :=
  concat (map (fun x => snd (fst x) ++ map waste_f (snd x)) (combine pk nss)).

Lemma decode_all_clean_app a b fa fb :
  decode_all a = (fa, []) -> decode_all b = (fb, []) -> decode_all (a ++ b) = (fa ++ fb, []).
Proof. intros Ha Hb. rewrite decode_all_app, Ha. cbn [app]. rewrite Hb. reflexivity. Qed.

Lemma session_wire pads sc (pk : list (list Z * list frame)) : forall c,
  Forall (fun dfs => frames_ok (snd dfs)) pk ->
  pkts_ok pads sc c (to_pkts pk) ->
  exists bursts nss,
    run_packets pads sc c (to_pkts pk) = map Writes bursts /\
    length nss = length pk /\ Forall (Forall pad_ok) nss /\
    Forall2 (fun b x => concat b = payload_of (snd (fst x)) ++ concat (map waste (snd x))) bursts (combine pk nss) /\
    decode_all (concat (map (@concat N) bursts)) = (expected_frames pk nss, []).
Proof.
  induction pk as [|[d fs] pk IH]; intros c Hf Hok.
  - exists [], []. cbn. repeat split; constructor.
  - inversion Hf as [|? ? [Hw Hl] Hf']; subst. cbn [to_pkts map fst snd pkts_ok] in Hok.
    destruct Hok as [Hd Hrest].
    destruct (write_packet_wire pads sc c d (payload_of fs) Hd) as (ws & ns & E & Hc & Hn & _).
    cbn [to_pkts map fst snd run_packets].
    destruct (write_packet pads sc c d (payload_of fs)) as [r c'] eqn:Ew. cbn [fst snd] in *. subst r.
    destruct (IH c' Hf' Hrest) as (bursts & nss & Er & Hlen & Hnn & Hb & Hdec).
    exists (ws :: bursts), (ns :: nss).
    split; [cbn [map]; unfold to_pkts in Er; rewrite Er; reflexivity|].
    split; [cbn [length]; lia|].
    split; [constructor; assumption|].
    split; [cbn [combine]; constructor; [exact Hc | exact Hb]|].
    cbn [map concat]. unfold expected_frames. cbn [combine map concat fst snd].
    apply decode_all_clean_app; [|exact Hdec].
    rewrite Hc. apply padded_wire_decodes; assumption.
Qed.

(* ---------- statements in the form used by Props/C04.v and Props/C05.v *)
Lemma waste_decodes n rest :
  n <= 65535 -> decode1 (waste n ++ rest) = Some (waste_f n, rest) /\ lenN (waste n) = 7 + n.
Proof.
  intros H. split; [|apply lenN_waste]. unfold decode1. rewrite waste_encode.
  rewrite decode1_raw_encode_raw by (apply waste_r_wf; exact H). reflexivity.
Qed.

Lemma wellformed_packet raw sc counter draws fs ws :
  factory_new raw = Some sc ->
  Forall wf_frame fs -> Forall (fun f => lenN (fdata f) <= 65535) fs ->
  draws_ok (line_entries sc (pkt_index counter)) draws ->
  fst (write_packet true sc counter draws (payload_of fs)) = Writes ws ->
  exists ns, Forall (fun n => n <= 65535) ns /\
    concat ws = payload_of fs ++ concat (map waste ns) /\
    decode_all (concat ws) = (fs ++ map waste_f ns, []) /\
    firstn (length fs) (fst (decode_all (concat ws))) = fs /\
    skipn (length fs) (fst (decode_all (concat ws))) = map waste_f ns.
Proof.
  intros _ Hw Hl Hd E.
  destruct (write_packet_wire true sc counter draws (payload_of fs) Hd) as (ws' & ns & E' & Hc & Hn & _).
  rewrite E in E'. inversion E'; subst ws'. exists ns. split; [exact Hn|]. split; [exact Hc|].
  assert (decode_all (concat ws) = (fs ++ map waste_f ns, [])) as Hdec
    by (rewrite Hc; apply padded_wire_decodes; assumption).
  rewrite Hdec. cbn [fst]. split; [reflexivity|]. split.
  - rewrite firstn_app, Nat.sub_diag, firstn_all. cbn. apply app_nil_r.
  - rewrite skipn_app, Nat.sub_diag, skipn_all. reflexivity.
Qed.

Lemma no_crash raw sc pads counter draws buf :
  factory_new raw = Some sc -> draws_ok (line_entries sc (pkt_index counter)) draws ->
  fst (write_packet pads sc counter draws buf) <> Crash.
Proof.
  intros _ Hd. destruct (write_packet_wire pads sc counter draws buf Hd) as (ws & ns & E & _).
  rewrite E. discriminate.
Qed.

Lemma bytes_preserved raw sc pads counter draws buf :
  factory_new raw = Some sc -> draws_ok (line_entries sc (pkt_index counter)) draws ->
  exists ws ns, fst (write_packet pads sc counter draws buf) = Writes ws /\
    concat ws = buf ++ concat (map waste ns) /\ Forall (fun n => n <= 65535) ns /\
    Forall (fun w : bytes => w <> []) ws.
Proof. intros _ Hd. apply write_packet_wire. exact Hd. Qed.

Lemma sizes_expressible raw sc k draws :
  factory_new raw = Some sc -> draws_ok (line_entries sc k) draws ->
  Forall (fun s => s = check_mark \/ (1 <= s <= 65535)%Z) (sizes (line_entries sc k) draws).
Proof. intros _ Hd. apply sizes_ok; [apply line_entries_wf | exact Hd]. Qed.

Lemma accepted_packet raw sc counter draws p ws :
  factory_new raw = Some sc ->
  draws_ok (line_entries sc (pkt_index counter)) draws ->
  fst (write_packet true sc counter draws p) = Writes ws ->
  (pkt_index counter < sc_stop sc -> accepts (line_entries sc (pkt_index counter)) p ws = true) /\
  (sc_stop sc <= pkt_index counter -> ws = wr p).
Proof. intros _. apply write_packet_accepted. Qed.

Lemma model_accepted_entries raw sc k draws p ws :
  factory_new raw = Some sc -> draws_ok (line_entries sc k) draws ->
  shape_loop (sizes (line_entries sc k) draws) p = Writes ws -> accepts (line_entries sc k) p ws = true.
Proof. intros _. apply model_accepted. apply line_entries_wf. Qed.

(* the k-th packet of a client session (k = 1, 2, ...) is shaped by line k; from `stop` on it is plain *)
Lemma session_numbering raw sc pkts i d p :
  factory_new raw = Some sc ->
  nth_error pkts i = Some (d, p) -> N.of_nat i + 1 < 4294967296 ->
  draws_ok (line_entries sc (N.of_nat i + 1)) d ->
  exists ws, nth_error (run_packets true sc client_pkt_start pkts) i = Some (Writes ws) /\
    (N.of_nat i + 1 < sc_stop sc -> accepts (line_entries sc (N.of_nat i + 1)) p ws = true) /\
    (sc_stop sc <= N.of_nat i + 1 -> ws = wr p).
Proof.
  intros _ Hn Hb Hd.
  assert (client_pkt_start = 0) as -> by reflexivity.
  rewrite (run_packets_nth sc pkts 0 i d p Hn) by lia. rewrite N.add_0_l.
  assert (pkt_index (N.of_nat i) = N.of_nat i + 1) as Ei by (apply pkt_index_val; lia).
  rewrite <- Ei in Hd.
  destruct (write_packet_wire true sc (N.of_nat i) d p Hd) as (ws & ns & E & _).
  exists ws. split; [rewrite E; reflexivity|].
  destruct (write_packet_accepted sc (N.of_nat i) d p ws Hd E) as [H1 H2]. rewrite Ei in H1, H2.
  split; assumption.
Qed.

Lemma stop_is_final raw sc pkts i d p :
  factory_new raw = Some sc ->
  nth_error pkts i = Some (d, p) -> N.of_nat i + 1 < 4294967296 -> sc_stop sc <= N.of_nat i + 1 ->
  nth_error (run_packets true sc client_pkt_start pkts) i = Some (Writes (wr p)).
Proof.
  intros _ Hn Hb Hs. assert (client_pkt_start = 0) as -> by reflexivity.
  rewrite (run_packets_nth sc pkts 0 i d p Hn) by lia. rewrite N.add_0_l.
  rewrite write_packet_stop; [reflexivity|]. rewrite pkt_index_val by lia. exact Hs.
Qed.

Lemma server_plain sc pkts c :
  server_send_padding = false /\
  run_packets server_send_padding sc c pkts = map (fun dp => Writes (wr (snd dp))) pkts.
Proof. split; [reflexivity|]. apply run_packets_server. Qed.

Lemma preamble raw sc hash draws :
  factory_new raw = Some sc -> draws_ok (line_entries sc 0) draws ->
  exists L, concat (auth_writes hash (sizes (line_entries sc 0) draws)) = hash ++ be16 L ++ zeros L /\
    L <= 65535 /\
    match line_entries sc 0 with
    | ERange lo hi :: _ => (lo <= Z.of_N L <= hi)%Z
    | _ => L = 0
    end.
Proof. intros _ Hd. apply auth_preamble_shape; [apply line_entries_wf | exact Hd]. Qed.
