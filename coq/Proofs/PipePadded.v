(* PipePadded.v -- composition of C04 (padding) with C01 (byte pipe): the padded wire a client session
   produces for any grouping of its submitted frames into packets satisfies the wire hypothesis of C01_pipe. *)
From Coq Require Import List NArith ZArith Bool.
From AnyTLS Require Import Bytes Cmd Generated Frame FrameProofs Text Padding PaddingProofs Session.
Import ListNotations.
Import Sess.

Lemma filter_not_padding_waste ns : filter not_padding (map waste_f ns) = [].
Proof. induction ns as [|n ns IH]; [reflexivity | exact IH]. Qed.

Lemma filter_all_true {A} (p : A -> bool) l : Forall (fun x => p x = true) l -> filter p l = l.
Proof. induction 1 as [|x l Hx _ IH]; cbn; [reflexivity | rewrite Hx, IH; reflexivity]. Qed.

Lemma filter_expected pk : forall nss,
  length nss = length pk ->
  Forall (fun dfs => Forall (fun f => not_padding f = true) (snd dfs)) pk ->
  filter not_padding (expected_frames pk nss) = concat (map snd pk).
Proof.
  unfold expected_frames.
  induction pk as [|[d fs] pk IH]; intros nss Hl Hn.
  - destruct nss; [reflexivity | discriminate].
  - destruct nss as [|ns nss]; [discriminate|]. inversion Hn as [|? ? Hfs Hn']; subst.
    cbn [combine map concat fst snd]. rewrite !filter_app, filter_not_padding_waste, app_nil_r.
    cbn [snd] in Hfs. rewrite (filter_all_true _ _ Hfs). f_equal. apply IH; [cbn in Hl; congruence | exact Hn'].
Qed.

(* any number of packets, any scheme the parser accepts, padded (client) or plain (server) *)
Theorem padded_wire_ok pads sc (pk : list (list Z * list frame)) c :
  Forall (fun dfs => frames_ok (snd dfs)) pk ->
  pkts_ok pads sc c (to_pkts pk) ->
  Forall (fun dfs => Forall (fun f => not_padding f = true) (snd dfs)) pk ->
  exists bursts gs,
    run_packets pads sc c (to_pkts pk) = map Writes bursts /\
    decode_all (concat (map (@concat N) bursts)) = (gs, []) /\
    filter not_padding gs = concat (map snd pk).
Proof.
  intros Hf Hok Hn.
  destruct (session_wire pads sc pk c Hf Hok) as (bursts & nss & E & Hl & _ & _ & D).
  exists bursts, (expected_frames pk nss). split; [exact E | split; [exact D|]].
  apply filter_expected; assumption.
Qed.
