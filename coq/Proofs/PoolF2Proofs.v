(* PoolF2Proofs.v -- the exact reach of known finding F2 on client histories: a session that sits in the idle map
   carries at most ONE stream, the one of the request that created it (a reuse takes the session out of the map for
   good). So the only stream the reaper can ever kill is the first stream of a session that was never reused. *)
From Coq Require Import List NArith ZArith Bool Lia Sorting.Sorted.
From AnyTLS Require Import Generated FactsTimed Pool PoolProofs PoolReuseProofs.
Import ListNotations.
Open Scope Z_scope.

Definition map_first_stream_only (st : pool) : Prop :=
  forall e, In e (p_idle st) -> (p_busy st (e_sid e) <= 1)%N.

Lemma first_only_step : forall c now st o, client_op o -> cinv st ->
  map_first_stream_only st -> map_first_stream_only (fst (pool_step c now st o)).
Proof.
  intros c now st o Ho [Hwf Hfr] Hm. unfold map_first_stream_only in *.
  pose proof (wf_nodup _ Hwf) as Nd.
  destruct o; try contradiction; cbn [pool_step].
  - destruct (pool_get_idle (p_closed st) (p_idle st)) as [[s|] l'] eqn:E; cbn.
    + destruct (get_idle_spec _ _ _ _ E) as [d [_ [e0 [Hi [Es _]]]]].
      intros e He. rewrite Hi in Nd, Hm. rewrite map_app in Nd. cbn [map] in Nd.
      assert (Hne : e_sid e <> s).
      { intro Heq. apply NoDup_remove_2 in Nd. apply Nd. apply in_or_app. left.
        rewrite Es, <- Heq. apply in_map. assumption. }
      unfold pupd. destruct (Nat.eqb_spec (e_sid e) s) as [Heq|_]; [contradiction|]. apply Hm. apply in_or_app. left. assumption.
    + destruct (get_idle_spec _ _ _ _ E) as [d [_ [_ ->]]]. intros e [].
  - destruct (p_pending st =? 0)%N; cbn; [assumption|].
    rewrite add_idle_eq, pupd_same. intros e He. apply bt_insert_in in He. destruct He as [->|He].
    + cbn. unfold pupd. rewrite Nat.eqb_refl. lia.
    + destruct Hwf as [_ Hk]. rewrite Forall_forall in Hk. destruct (Hk _ He) as [_ L].
      unfold pupd. destruct (Nat.eqb_spec (e_sid e) (p_n st)); [lia|]. auto.
  - destruct (0 <? p_busy st sid)%N; cbn; [|assumption].
    intros e He. specialize (Hm e He). unfold pupd. destruct (Nat.eqb_spec (e_sid e) sid); [subst; lia|assumption].
  - destruct (Nat.ltb sid (p_n st)); cbn; assumption.
  - cbn. intros e He. apply (tick_idle_incl 1 c now st (or_intror eq_refl)) in He.
    assert (B : p_busy (pool_reap_step 1 c now st) = p_busy st)
      by (unfold pool_reap_step; destruct (pool_reap_pass _ _ _ _ _ _); reflexivity).
    rewrite B. auto.
  - cbn. intros e He. apply (tick_idle_incl 0 c now st (or_introl eq_refl)) in He.
    assert (B : p_busy (pool_reap_step 0 c now st) = p_busy st)
      by (unfold pool_reap_step; destruct (pool_reap_pass _ _ _ _ _ _); reflexivity).
    rewrite B. auto.
Qed.

Theorem map_first_stream_only_run : forall c h, Forall (fun x => client_op (snd x)) h ->
  map_first_stream_only (pool_run c pool_init h).
Proof.
  intros c h. induction h as [|x h IH] using rev_ind; intros H; [intros e []|].
  apply Forall_app in H. destruct H as [H1 H2]. inversion H2; subst.
  rewrite run_snoc. apply first_only_step; auto. apply cinv_run. assumption.
Qed.

(* whatever the reaper closes on a client history carries at most one stream *)
Theorem reaper_kills_at_most_first_stream : forall copy c now h, copy_ok copy ->
  Forall (fun x => client_op (snd x)) h ->
  let st := pool_run c pool_init h in
  forall sid, p_closed st sid = false -> p_closed (pool_reap_step copy c now st) sid = true ->
    (p_busy st sid <= 1)%N.
Proof.
  intros copy c now h Hc Hh st sid H0 H1.
  destruct (tick_closes_only_idle copy c now st Hc sid H0 H1) as [e [Hin [<- _]]].
  exact (map_first_stream_only_run c h Hh e Hin).
Qed.
