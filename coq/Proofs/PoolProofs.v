(* PoolProofs.v -- facts about Model/Pool.v used by C12 (and the well-formedness invariant used by C13).
   All statements are over arbitrary pool states / arbitrary histories (no bound). *)
From Coq Require Import List NArith ZArith Bool Lia Sorting.Sorted.
From AnyTLS Require Import Generated FactsTimed Pool.
Import ListNotations.
Open Scope Z_scope.

(* ------------------------------------------------------------------ the generated shape, unfolded *)
Lemma get_from_eq : forall closed e r,
  pool_get_from closed (e :: r) =
  if closed (e_sid e) then pool_get_from closed r else (Some (e_sid e), r).
Proof. intros. reflexivity. Qed.

Lemma get_idle_eq : forall closed idle,
  pool_get_idle closed idle = let (o, r) := pool_get_from closed (rev idle) in (o, rev r).
Proof. intros. reflexivity. Qed.

Definition copy_ok (copy : nat) : Prop := (copy = 0 \/ copy = 1)%nat.

Lemma unexpired_eq : forall copy T now since, copy_ok copy ->
  pool_unexpired copy T now since = (Z.max 0 (now - since) <? T).
Proof. intros copy T now since [->| ->]; reflexivity. Qed.

Lemma below_min_eq : forall copy M act, copy_ok copy ->
  pool_below_min copy M act = (Z.of_N act <? Z.of_N M).
Proof. intros copy M act [->| ->]; reflexivity. Qed.

Lemma reap_cons : forall copy T M now closed e l act, copy_ok copy ->
  pool_reap copy T M now closed (e :: l) act =
  if closed (e_sid e) then pool_reap copy T M now closed l act
  else if Z.max 0 (now - e_since e) <? T then
    let (k, c) := pool_reap copy T M now closed l (act + 1)%N in (e :: k, c)
  else if (Z.of_N act <? Z.of_N M) then
    let (k, c) := pool_reap copy T M now closed l (act + 1)%N in (e :: k, c)
  else let (k, c) := pool_reap copy T M now closed l act in (k, e_sid e :: c).
Proof.
  intros. cbn [pool_reap]. rewrite unexpired_eq, below_min_eq by assumption. reflexivity.
Qed.

Lemma reap_pass_eq : forall copy T M now closed l,
  pool_reap_pass copy T M now closed l = pool_reap copy T M now closed l 0%N.
Proof. reflexivity. Qed.

Lemma add_idle_eq : forall closed seq sid now idle,
  pool_add_idle closed seq sid now idle =
  if closed sid then idle else bt_insert {| e_seq := seq; e_sid := sid; e_since := now |} idle.
Proof. reflexivity. Qed.

Global Opaque pool_reap pool_get_from pool_get_idle pool_reap_pass pool_add_idle.

(* ------------------------------------------------------------------ get_idle_session *)
Lemma get_from_spec : forall closed r o r',
  pool_get_from closed r = (o, r') ->
  exists pre, Forall (fun e => closed (e_sid e) = true) pre /\
    match o with
    | Some sid => exists e, r = pre ++ e :: r' /\ e_sid e = sid /\ closed sid = false
    | None => r = pre /\ r' = []
    end.
Proof.
  intros closed r. induction r as [|e r IH]; intros o r' H.
  - Transparent pool_get_from. cbn in H. Opaque pool_get_from. inversion H; subst. exists []. auto.
  - rewrite get_from_eq in H. destruct (closed (e_sid e)) eqn:E.
    + destruct (IH _ _ H) as [pre [Hp Hm]]. exists (e :: pre). split; [constructor; auto|].
      destruct o as [sid|].
      * destruct Hm as [e0 [-> [? ?]]]. exists e0. auto.
      * destruct Hm as [-> ->]. auto.
    + inversion H; subst. exists []. split; [constructor|]. exists e. auto.
Qed.

(* the shape of the map after a get: a prefix of the old map; a hit removes one live entry and, beyond it,
   closed ones only; a miss means every entry was closed and the map is now empty *)
Lemma get_idle_spec : forall closed idle o l',
  pool_get_idle closed idle = (o, l') ->
  exists dropped, Forall (fun e => closed (e_sid e) = true) dropped /\
    match o with
    | Some sid => exists e, idle = l' ++ e :: dropped /\ e_sid e = sid /\ closed sid = false
    | None => idle = dropped /\ l' = []
    end.
Proof.
  intros closed idle o l' H. rewrite get_idle_eq in H.
  destruct (pool_get_from closed (rev idle)) as [o1 r1] eqn:E. inversion H; subst. clear H.
  destruct (get_from_spec _ _ _ _ E) as [pre [Hp Hm]].
  exists (rev pre). split.
  { apply Forall_forall. intros x Hx. rewrite <- in_rev in Hx. rewrite Forall_forall in Hp. auto. }
  destruct o as [sid|].
  - destruct Hm as [e [Hr [? ?]]]. exists e. split; [|auto].
    rewrite <- (rev_involutive idle), Hr, rev_app_distr. cbn. rewrite <- app_assoc. reflexivity.
  - destruct Hm as [Hr ->]. split; [|reflexivity]. rewrite <- Hr. symmetry. apply rev_involutive.
Qed.

Lemma get_idle_not_closed : forall closed idle sid l',
  pool_get_idle closed idle = (Some sid, l') -> closed sid = false.
Proof.
  intros. destruct (get_idle_spec _ _ _ _ H) as [d [_ [e [_ [_ ?]]]]]. assumption.
Qed.

(* C12_get_not_closed: whatever the state, a session handed out by a step is not closed at that step *)
Definition handed_out (r : poolres) (sid : nat) : Prop :=
  r = QHit sid \/ r = QNew sid \/ r = QGot sid.

Lemma pupd_same : forall A (f : nat -> A) k v, pupd f k v k = v.
Proof. intros. unfold pupd. rewrite Nat.eqb_refl. reflexivity. Qed.

Lemma pupd_other : forall A (f : nat -> A) k v j, j <> k -> pupd f k v j = f j.
Proof. intros. unfold pupd. destruct (Nat.eqb_spec j k); congruence. Qed.

Theorem step_hands_out_open : forall c now st o st' r sid,
  pool_step c now st o = (st', r) -> handed_out r sid -> p_closed st' sid = false.
Proof.
  intros c now st o st' r sid H Hh.
  destruct o; cbn [pool_step] in H.
  - destruct (pool_get_idle (p_closed st) (p_idle st)) as [[s|] l'] eqn:E; inversion H; subst; clear H;
      destruct Hh as [Hh|[Hh|Hh]]; inversion Hh; subst.
    cbn. eapply get_idle_not_closed; eauto.
  - destruct (p_pending st =? 0)%N; inversion H; subst; clear H;
      destruct Hh as [Hh|[Hh|Hh]]; inversion Hh; subst. cbn. apply pupd_same.
  - destruct (0 <? p_busy st sid0)%N; inversion H; subst; destruct Hh as [Hh|[Hh|Hh]]; inversion Hh.
  - destruct (Nat.ltb sid0 (p_n st)); inversion H; subst; destruct Hh as [Hh|[Hh|Hh]]; inversion Hh.
  - inversion H; subst; destruct Hh as [Hh|[Hh|Hh]]; inversion Hh.
  - inversion H; subst; destruct Hh as [Hh|[Hh|Hh]]; inversion Hh.
  - inversion H; subst; destruct Hh as [Hh|[Hh|Hh]]; inversion Hh.
  - destruct (Nat.ltb sid0 (p_n st)); inversion H; subst; destruct Hh as [Hh|[Hh|Hh]]; inversion Hh.
  - destruct (pool_get_idle (p_closed st) (p_idle st)) as [[s|] l'] eqn:E; inversion H; subst; clear H;
      destruct Hh as [Hh|[Hh|Hh]]; inversion Hh; subst.
    cbn. eapply get_idle_not_closed; eauto.
Qed.

(* ------------------------------------------------------------------ the reaper pass *)
Definition live_cnt (closed : nat -> bool) (l : list pentry) : nat :=
  length (filter (fun e => negb (closed (e_sid e))) l).

Definition expired_cnt (T now : Z) (l : list pentry) : nat :=
  length (filter (fun e => negb (Z.max 0 (now - e_since e) <? T)) l).

Lemma live_cnt_cons : forall closed e l,
  live_cnt closed (e :: l) = ((if closed (e_sid e) then 0 else 1) + live_cnt closed l)%nat.
Proof. intros. unfold live_cnt. cbn. destruct (closed (e_sid e)); reflexivity. Qed.

(* every kept entry was in the map and live; every session to close was in the map, live, expired;
   kept + closed = the live entries *)
Lemma reap_sound : forall copy T M now closed, copy_ok copy -> forall l act k c,
  pool_reap copy T M now closed l act = (k, c) ->
  Forall (fun e => In e l /\ closed (e_sid e) = false) k /\
  Forall (fun sid => exists e, In e l /\ e_sid e = sid /\ closed sid = false /\
                               (Z.max 0 (now - e_since e) <? T) = false) c /\
  (length k + length c = live_cnt closed l)%nat.
Proof.
  intros copy T M now closed Hc l. induction l as [|e l IH]; intros act k c H.
  - Transparent pool_reap. cbn in H. Opaque pool_reap. inversion H; subst. repeat split; constructor.
  - rewrite reap_cons in H by assumption. rewrite live_cnt_cons.
    assert (W1 : forall k0, Forall (fun e0 => In e0 l /\ closed (e_sid e0) = false) k0 ->
                 Forall (fun e0 => In e0 (e :: l) /\ closed (e_sid e0) = false) k0).
    { intros k0 Hk. eapply Forall_impl; [|exact Hk]. cbn. intros a [? ?]. auto. }
    assert (W2 : forall c0, Forall (fun sid => exists e0, In e0 l /\ e_sid e0 = sid /\ closed sid = false /\
                               (Z.max 0 (now - e_since e0) <? T) = false) c0 ->
                 Forall (fun sid => exists e0, In e0 (e :: l) /\ e_sid e0 = sid /\ closed sid = false /\
                               (Z.max 0 (now - e_since e0) <? T) = false) c0).
    { intros c0 Hk. eapply Forall_impl; [|exact Hk]. cbn. intros a [e0 [? ?]]. exists e0. auto. }
    destruct (closed (e_sid e)) eqn:E.
    + destruct (IH _ _ _ H) as [A [B C]]. repeat split; auto.
    + destruct (Z.max 0 (now - e_since e) <? T) eqn:U.
      * destruct (pool_reap copy T M now closed l (act + 1)%N) as [k1 c1] eqn:R. inversion H; subst.
        destruct (IH _ _ _ R) as [A [B C]]. repeat split; auto.
        -- constructor; [split; [left; reflexivity|assumption]|auto].
        -- cbn. lia.
      * destruct (Z.of_N act <? Z.of_N M) eqn:Bm.
        -- destruct (pool_reap copy T M now closed l (act + 1)%N) as [k1 c1] eqn:R. inversion H; subst.
           destruct (IH _ _ _ R) as [A [B C]]. repeat split; auto.
           ++ constructor; [split; [left; reflexivity|assumption]|auto].
           ++ cbn. lia.
        -- destruct (pool_reap copy T M now closed l act) as [k1 c1] eqn:R. inversion H; subst.
           destruct (IH _ _ _ R) as [A [B C]]. repeat split; auto.
           ++ constructor; [|auto]. exists e. repeat split; auto. left; reflexivity.
           ++ cbn. lia.
Qed.

(* min_idle: counting `act` sessions already kept, at least min(M, live + act) are kept in total *)
Lemma reap_keeps_min : forall copy T M now closed, copy_ok copy -> forall l act k c,
  pool_reap copy T M now closed l act = (k, c) ->
  (N.min M (N.of_nat (live_cnt closed l) + act) <= N.of_nat (length k) + act)%N.
Proof.
  intros copy T M now closed Hc l. induction l as [|e l IH]; intros act k c H.
  - Transparent pool_reap. cbn in H. Opaque pool_reap. inversion H; subst. cbn. lia.
  - rewrite reap_cons in H by assumption. rewrite live_cnt_cons.
    destruct (closed (e_sid e)) eqn:E.
    + specialize (IH _ _ _ H). cbn. lia.
    + destruct (Z.max 0 (now - e_since e) <? T) eqn:U.
      * destruct (pool_reap copy T M now closed l (act + 1)%N) as [k1 c1] eqn:R. inversion H; subst.
        specialize (IH _ _ _ R). cbn [length]. lia.
      * destruct (Z.of_N act <? Z.of_N M) eqn:Bm.
        -- destruct (pool_reap copy T M now closed l (act + 1)%N) as [k1 c1] eqn:R. inversion H; subst.
           specialize (IH _ _ _ R). cbn [length]. lia.
        -- destruct (pool_reap copy T M now closed l act) as [k1 c1] eqn:R. inversion H; subst.
           specialize (IH _ _ _ R). apply Z.ltb_ge in Bm. lia.
Qed.

(* surplus: of the entries that stay in the map, at most M - act are expired *)
Lemma reap_expired_bound : forall copy T M now closed, copy_ok copy -> forall l act k c,
  pool_reap copy T M now closed l act = (k, c) ->
  (N.of_nat (expired_cnt T now k) <= M - act)%N.
Proof.
  intros copy T M now closed Hc l. induction l as [|e l IH]; intros act k c H.
  - Transparent pool_reap. cbn in H. Opaque pool_reap. inversion H; subst. cbn. lia.
  - rewrite reap_cons in H by assumption.
    destruct (closed (e_sid e)) eqn:E.
    + exact (IH _ _ _ H).
    + destruct (Z.max 0 (now - e_since e) <? T) eqn:U.
      * destruct (pool_reap copy T M now closed l (act + 1)%N) as [k1 c1] eqn:R. inversion H; subst.
        specialize (IH _ _ _ R). unfold expired_cnt in *. cbn [filter]. rewrite U. cbn [negb]. lia.
      * destruct (Z.of_N act <? Z.of_N M) eqn:Bm.
        -- destruct (pool_reap copy T M now closed l (act + 1)%N) as [k1 c1] eqn:R. inversion H; subst.
           specialize (IH _ _ _ R). unfold expired_cnt in *. cbn [filter]. rewrite U. cbn [negb length].
           apply Z.ltb_lt in Bm. lia.
        -- destruct (pool_reap copy T M now closed l act) as [k1 c1] eqn:R. inversion H; subst.
           exact (IH _ _ _ R).
Qed.

(* kept entries and sessions to close never share a session when the map holds each session once *)
Lemma reap_disjoint : forall copy T M now closed, copy_ok copy -> forall l act k c,
  pool_reap copy T M now closed l act = (k, c) ->
  NoDup (map e_sid l) -> NoDup (map e_sid k ++ c) /\ incl (map e_sid k ++ c) (map e_sid l).
Proof.
  intros copy T M now closed Hc l. induction l as [|e l IH]; intros act k c H Hn.
  - Transparent pool_reap. cbn in H. Opaque pool_reap. inversion H; subst. cbn. split; [constructor|apply incl_refl].
  - rewrite reap_cons in H by assumption. cbn [map] in Hn. inversion Hn as [|? ? Hni Hn']; subst.
    destruct (closed (e_sid e)) eqn:E.
    + destruct (IH _ _ _ H Hn') as [A B]. split; [assumption|]. cbn [map]. apply incl_tl. assumption.
    + destruct (Z.max 0 (now - e_since e) <? T) eqn:U;
        [|destruct (Z.of_N act <? Z.of_N M) eqn:Bm].
      * destruct (pool_reap copy T M now closed l (act + 1)%N) as [k1 c1] eqn:R. inversion H; subst.
        destruct (IH _ _ _ R Hn') as [A B]. cbn [map app]. split.
        -- constructor; [|assumption]. intro Hin. apply Hni. apply B. assumption.
        -- intros x [<-|Hx]; [left; reflexivity|right; apply B; assumption].
      * destruct (pool_reap copy T M now closed l (act + 1)%N) as [k1 c1] eqn:R. inversion H; subst.
        destruct (IH _ _ _ R Hn') as [A B]. cbn [map app]. split.
        -- constructor; [|assumption]. intro Hin. apply Hni. apply B. assumption.
        -- intros x [<-|Hx]; [left; reflexivity|right; apply B; assumption].
      * destruct (pool_reap copy T M now closed l act) as [k1 c1] eqn:R. inversion H; subst.
        destruct (IH _ _ _ R Hn') as [A B]. split.
        -- apply NoDup_Add with (a := e_sid e) (l := map e_sid k ++ c1).
           ++ apply Add_app.
           ++ split; [assumption|]. intro Hin. apply Hni. apply B. assumption.
        -- intros x Hx. apply in_app_or in Hx. destruct Hx as [Hx|[<-|Hx]].
           ++ right. apply B. apply in_or_app. left. assumption.
           ++ left. reflexivity.
           ++ right. apply B. apply in_or_app. right. assumption.
Qed.

Lemma pmemb_true : forall k l, pmemb k l = true <-> In k l.
Proof.
  intros. unfold pmemb. rewrite existsb_exists. split.
  - intros [x [Hx E]]. apply Nat.eqb_eq in E. subst. assumption.
  - intros H. exists k. split; [assumption|apply Nat.eqb_refl].
Qed.

Lemma pmemb_false : forall k l, pmemb k l = false <-> ~ In k l.
Proof.
  intros. destruct (pmemb k l) eqn:E.
  - apply pmemb_true in E. split; [discriminate|contradiction].
  - split; [|reflexivity]. intros _ Hin. apply pmemb_true in Hin. congruence.
Qed.

(* ------------------------------------------------------------------ well-formed pools *)
Definition key_lt (a b : pentry) : Prop := (e_seq a < e_seq b)%N.

(* the map is a BTreeMap (strictly ascending keys), an entry's key is its session's seq, sessions exist *)
Record wf (st : pool) : Prop := {
  wf_sorted : StronglySorted key_lt (p_idle st);
  wf_keys : Forall (fun e => e_seq e = p_seq st (e_sid e) /\ (e_sid e < p_n st)%nat) (p_idle st)
}.

Lemma sorted_keys_nodup : forall (f : nat -> N) l,
  StronglySorted key_lt l -> Forall (fun e => e_seq e = f (e_sid e)) l -> NoDup (map e_sid l).
Proof.
  intros f l Hs. induction Hs as [|e l Hs IH Hf]; intros Hk; cbn.
  - constructor.
  - inversion Hk as [|? ? He Hk']; subst. constructor; [|auto].
    intro Hin. apply in_map_iff in Hin. destruct Hin as [e' [Es Hin']].
    rewrite Forall_forall in Hf, Hk'. specialize (Hf _ Hin'). specialize (Hk' _ Hin').
    unfold key_lt in Hf. rewrite He, Hk', Es in Hf. lia.
Qed.

Lemma wf_nodup : forall st, wf st -> NoDup (map e_sid (p_idle st)).
Proof.
  intros st [Hs Hk]. apply sorted_keys_nodup with (f := p_seq st); [assumption|].
  eapply Forall_impl; [|exact Hk]. cbn. intros a [? _]. assumption.
Qed.

Lemma NoDup_app_disj : forall A (l1 l2 : list A) x, NoDup (l1 ++ l2) -> In x l1 -> ~ In x l2.
Proof.
  intros A l1. induction l1 as [|a l1 IH]; intros l2 x Hn Hin Hin2; [contradiction|].
  cbn in Hn. inversion Hn as [|? ? Hna Hn']; subst. destruct Hin as [->|Hin].
  - apply Hna. apply in_or_app. right. assumption.
  - exact (IH _ _ Hn' Hin Hin2).
Qed.

Lemma live_cnt_all : forall closed k,
  Forall (fun e => closed (e_sid e) = false) k -> live_cnt closed k = length k.
Proof.
  intros closed k H. induction H as [|e k He Hk IH]; [reflexivity|].
  rewrite live_cnt_cons, He. cbn. lia.
Qed.

(* ---- state-level facts about one reaper pass (either copy) *)
Section Tick.
  Variables (copy : nat) (c : pcfg) (now : Z) (st : pool).
  Hypothesis Hcopy : copy_ok copy.
  Let st' := pool_reap_step copy c now st.

  Lemma tick_kept_live : wf st ->
    Forall (fun e => p_closed st' (e_sid e) = false) (p_idle st').
  Proof.
    intros Hwf. subst st'. unfold pool_reap_step. rewrite reap_pass_eq.
    destruct (pool_reap copy (c_timeout c) (c_min c) now (p_closed st) (p_idle st) 0%N) as [k cl] eqn:R.
    cbn. destruct (reap_sound _ _ _ _ _ Hcopy _ _ _ _ R) as [A _].
    destruct (reap_disjoint _ _ _ _ _ Hcopy _ _ _ _ R (wf_nodup _ Hwf)) as [D _].
    apply Forall_forall. intros e He. rewrite Forall_forall in A. destruct (A _ He) as [_ Hc].
    unfold pool_close_set. rewrite Hc. cbn. apply pmemb_false.
    eapply NoDup_app_disj; [exact D|]. apply in_map. assumption.
  Qed.

  (* C12_min_idle *)
  Theorem tick_min_idle : wf st ->
    (N.min (c_min c) (N.of_nat (live_cnt (p_closed st) (p_idle st)))
     <= N.of_nat (live_cnt (p_closed st') (p_idle st')))%N.
  Proof.
    intros Hwf. rewrite (live_cnt_all _ _ (tick_kept_live Hwf)).
    subst st'. unfold pool_reap_step. rewrite reap_pass_eq.
    destruct (pool_reap copy (c_timeout c) (c_min c) now (p_closed st) (p_idle st) 0%N) as [k cl] eqn:R.
    cbn. pose proof (reap_keeps_min _ _ _ _ _ Hcopy _ _ _ _ R). lia.
  Qed.

  (* C12_surplus, per tick: at most min_idle of the entries a pass leaves behind are expired *)
  Theorem tick_expired_bound :
    (N.of_nat (expired_cnt (c_timeout c) now (p_idle st')) <= c_min c)%N.
  Proof.
    subst st'. unfold pool_reap_step. rewrite reap_pass_eq.
    destruct (pool_reap copy (c_timeout c) (c_min c) now (p_closed st) (p_idle st) 0%N) as [k cl] eqn:R.
    cbn [p_idle]. pose proof (reap_expired_bound _ _ _ _ _ Hcopy _ _ _ _ R) as P.
    rewrite N.sub_0_r in P. exact P.
  Qed.

  (* what a pass closes: live sessions that sit in the idle map and are expired -- nothing else *)
  Theorem tick_closes_only_idle : forall sid,
    p_closed st sid = false -> p_closed st' sid = true ->
    exists e, In e (p_idle st) /\ e_sid e = sid /\ (Z.max 0 (now - e_since e) <? c_timeout c) = false.
  Proof.
    intros sid H0 H1. subst st'. unfold pool_reap_step in H1. rewrite reap_pass_eq in H1.
    destruct (pool_reap copy (c_timeout c) (c_min c) now (p_closed st) (p_idle st) 0%N) as [k cl] eqn:R.
    cbn in H1. unfold pool_close_set in H1. rewrite H0 in H1. cbn in H1. apply pmemb_true in H1.
    destruct (reap_sound _ _ _ _ _ Hcopy _ _ _ _ R) as [_ [B _]].
    rewrite Forall_forall in B. destruct (B _ H1) as [e [? [? [? ?]]]]. exists e. auto.
  Qed.

  Lemma tick_idle_incl : incl (p_idle st') (p_idle st).
  Proof.
    subst st'. unfold pool_reap_step. rewrite reap_pass_eq.
    destruct (pool_reap copy (c_timeout c) (c_min c) now (p_closed st) (p_idle st) 0%N) as [k cl] eqn:R.
    cbn. destruct (reap_sound _ _ _ _ _ Hcopy _ _ _ _ R) as [A _]. rewrite Forall_forall in A.
    intros e He. apply A. assumption.
  Qed.

  Lemma tick_closed_mono : forall sid, p_closed st sid = true -> p_closed st' sid = true.
  Proof.
    intros sid H. subst st'. unfold pool_reap_step. rewrite reap_pass_eq.
    destruct (pool_reap copy (c_timeout c) (c_min c) now (p_closed st) (p_idle st) 0%N) as [k cl] eqn:R.
    cbn. unfold pool_close_set. rewrite H. reflexivity.
  Qed.
End Tick.

(* C12_reaper_only_unused outside the known class: when no session in the idle map carries a stream, a pass
   closes only sessions without open streams *)
Theorem tick_only_unused_if_map_clean : forall copy c now st, copy_ok copy ->
  (forall e, In e (p_idle st) -> p_busy st (e_sid e) = 0%N) ->
  forall sid, p_closed st sid = false -> p_closed (pool_reap_step copy c now st) sid = true ->
    p_busy st sid = 0%N.
Proof.
  intros copy c now st Hc Hclean sid H0 H1.
  destruct (tick_closes_only_idle copy c now st Hc sid H0 H1) as [e [Hin [<- _]]]. auto.
Qed.

(* ------------------------------------------------------------------ wf is an invariant of every step *)
Lemma bt_insert_in : forall e l x, In x (bt_insert e l) -> x = e \/ In x l.
Proof.
  intros e l. induction l as [|y r IH]; intros x H; cbn in H.
  - destruct H as [<-|[]]. left; reflexivity.
  - destruct (e_seq e <? e_seq y)%N.
    + destruct H as [<-|H]; [left; reflexivity|right; assumption].
    + destruct (e_seq e =? e_seq y)%N.
      * destruct H as [<-|H]; [left; reflexivity|right; right; assumption].
      * destruct H as [<-|H]; [right; left; reflexivity|].
        destruct (IH _ H) as [->|H']; [left; reflexivity|right; right; assumption].
Qed.

Lemma bt_insert_sorted : forall e l, StronglySorted key_lt l -> StronglySorted key_lt (bt_insert e l).
Proof.
  intros e l Hs. induction Hs as [|y r Hs IH Hf]; cbn.
  - constructor; constructor.
  - destruct (N.ltb_spec (e_seq e) (e_seq y)) as [Hlt|Hge].
    + constructor; [constructor; assumption|]. constructor; [exact Hlt|].
      eapply Forall_impl; [|exact Hf]. unfold key_lt. intros a Ha. lia.
    + destruct (N.eqb_spec (e_seq e) (e_seq y)) as [Heq|Hne].
      * constructor; [assumption|]. eapply Forall_impl; [|exact Hf]. unfold key_lt. intros a Ha. lia.
      * constructor; [assumption|]. apply Forall_forall. intros x Hx.
        destruct (bt_insert_in _ _ _ Hx) as [->|Hx'].
        -- unfold key_lt. lia.
        -- rewrite Forall_forall in Hf. auto.
Qed.

Lemma sorted_app_l : forall l1 l2, StronglySorted key_lt (l1 ++ l2) -> StronglySorted key_lt l1.
Proof.
  intros l1. induction l1 as [|a l1 IH]; intros l2 H; [constructor|].
  cbn in H. inversion H as [|? ? Hs Hf]; subst. constructor; [eapply IH; eassumption|].
  apply Forall_app in Hf. tauto.
Qed.

Lemma reap_sorted : forall copy T M now closed, copy_ok copy -> forall l act k c,
  pool_reap copy T M now closed l act = (k, c) ->
  StronglySorted key_lt l -> StronglySorted key_lt k.
Proof.
  intros copy T M now closed Hc l. induction l as [|e l IH]; intros act k c H Hs.
  - Transparent pool_reap. cbn in H. Opaque pool_reap. inversion H; subst. constructor.
  - rewrite reap_cons in H by assumption. inversion Hs as [|? ? Hs' Hf]; subst.
    assert (K : forall act1 k1 c1, pool_reap copy T M now closed l act1 = (k1, c1) ->
                StronglySorted key_lt (e :: k1)).
    { intros act1 k1 c1 R. constructor; [eapply IH; eassumption|].
      destruct (reap_sound _ _ _ _ _ Hc _ _ _ _ R) as [A _].
      apply Forall_forall. intros x Hx. rewrite Forall_forall in A, Hf. apply Hf. apply A. assumption. }
    destruct (closed (e_sid e)).
    + eapply IH; eassumption.
    + destruct (Z.max 0 (now - e_since e) <? T); [|destruct (Z.of_N act <? Z.of_N M)].
      * destruct (pool_reap copy T M now closed l (act + 1)%N) as [k1 c1] eqn:R. inversion H; subst. eapply K; eauto.
      * destruct (pool_reap copy T M now closed l (act + 1)%N) as [k1 c1] eqn:R. inversion H; subst. eapply K; eauto.
      * destruct (pool_reap copy T M now closed l act) as [k1 c1] eqn:R. inversion H; subst. eapply IH; eauto.
Qed.

Lemma get_idle_prefix : forall closed idle o l',
  pool_get_idle closed idle = (o, l') -> exists suf, idle = l' ++ suf.
Proof.
  intros closed idle o l' H. destruct (get_idle_spec _ _ _ _ H) as [d [_ Hm]]. destruct o.
  - destruct Hm as [e [-> _]]. eexists. reflexivity.
  - destruct Hm as [-> ->]. exists d. reflexivity.
Qed.

Lemma step_idle_acq : forall c now st,
  p_idle (fst (pool_step c now st PAcq)) = snd (pool_get_idle (p_closed st) (p_idle st)).
Proof.
  intros. cbn [pool_step]. destruct (pool_get_idle (p_closed st) (p_idle st)) as [[s|] l']; reflexivity.
Qed.

Lemma wf_step : forall c now st o, wf st -> wf (fst (pool_step c now st o)).
Proof.
  intros c now st o [Hs Hk].
  assert (Kw : forall n' seq', (forall j, (j < p_n st)%nat -> seq' j = p_seq st j) -> (p_n st <= n')%nat ->
              Forall (fun e => e_seq e = seq' (e_sid e) /\ (e_sid e < n')%nat) (p_idle st)).
  { intros n' seq' Hq Hn. eapply Forall_impl; [|exact Hk]. cbn. intros a [E L]. rewrite Hq by assumption. split; [assumption|lia]. }
  destruct o; cbn [pool_step].
  - (* PAcq *)
    destruct (pool_get_idle (p_closed st) (p_idle st)) as [o l'] eqn:E.
    destruct (get_idle_prefix _ _ _ _ E) as [suf Hsuf].
    assert (S1 : StronglySorted key_lt l') by (rewrite Hsuf in Hs; eapply sorted_app_l; eassumption).
    assert (K1 : Forall (fun e => e_seq e = p_seq st (e_sid e) /\ (e_sid e < p_n st)%nat) l')
      by (rewrite Hsuf in Hk; apply Forall_app in Hk; tauto).
    destruct o; cbn; constructor; cbn; assumption.
  - (* PCreate *)
    destruct (p_pending st =? 0)%N; cbn; [constructor; assumption|].
    rewrite add_idle_eq, pupd_same. constructor; cbn.
    + apply bt_insert_sorted. assumption.
    + apply Forall_forall. intros x Hx. destruct (bt_insert_in _ _ _ Hx) as [->|Hx'].
      * cbn. rewrite pupd_same. split; [reflexivity|lia].
      * rewrite Forall_forall in Hk. destruct (Hk _ Hx') as [E L].
        rewrite pupd_other by lia. split; [assumption|lia].
  - (* PDone *)
    destruct (0 <? p_busy st sid)%N; cbn; constructor; assumption.
  - (* PDie *)
    destruct (Nat.ltb sid (p_n st)); cbn; constructor; assumption.
  - (* PTick *)
    cbn. unfold pool_reap_step. rewrite reap_pass_eq.
    destruct (pool_reap 1 (c_timeout c) (c_min c) now (p_closed st) (p_idle st) 0%N) as [k cl] eqn:R.
    assert (Hc : copy_ok 1) by (right; reflexivity).
    constructor; cbn.
    + eapply reap_sorted; eauto.
    + destruct (reap_sound _ _ _ _ _ Hc _ _ _ _ R) as [A _]. apply Forall_forall. intros x Hx.
      rewrite Forall_forall in A, Hk. apply Hk. apply A. assumption.
  - (* PCleanup *)
    cbn. unfold pool_reap_step. rewrite reap_pass_eq.
    destruct (pool_reap 0 (c_timeout c) (c_min c) now (p_closed st) (p_idle st) 0%N) as [k cl] eqn:R.
    assert (Hc : copy_ok 0) by (left; reflexivity).
    constructor; cbn.
    + eapply reap_sorted; eauto.
    + destruct (reap_sound _ _ _ _ _ Hc _ _ _ _ R) as [A _]. apply Forall_forall. intros x Hx.
      rewrite Forall_forall in A, Hk. apply Hk. apply A. assumption.
  - (* PNew *)
    cbn. constructor; cbn; [assumption|].
    apply Kw; [|lia]. intros j Hj. apply pupd_other. lia.
  - (* PAdd *)
    destruct (Nat.ltb_spec sid (p_n st)) as [Hlt|Hge]; cbn; [|constructor; assumption].
    rewrite add_idle_eq. destruct (p_closed st sid); constructor; cbn; try assumption.
    + apply bt_insert_sorted. assumption.
    + apply Forall_forall. intros x Hx. destruct (bt_insert_in _ _ _ Hx) as [->|Hx'].
      * cbn. split; [reflexivity|assumption].
      * rewrite Forall_forall in Hk. auto.
  - (* PGet *)
    destruct (pool_get_idle (p_closed st) (p_idle st)) as [o l'] eqn:E.
    destruct (get_idle_prefix _ _ _ _ E) as [suf Hsuf]. cbn.
    constructor; cbn.
    + rewrite Hsuf in Hs. eapply sorted_app_l; eassumption.
    + rewrite Hsuf in Hk. apply Forall_app in Hk. tauto.
Qed.

Lemma copy_ok_cases : forall copy, copy_ok copy -> {copy = 0%nat} + {copy = 1%nat}.
Proof.
  intros copy H. destruct copy as [|[|n]]; [left; reflexivity|right; reflexivity|].
  exfalso. destruct H; discriminate.
Qed.

Lemma wf_init : wf pool_init.
Proof. constructor; cbn; constructor. Qed.

Lemma run_snoc : forall c st h x,
  pool_run c st (h ++ [x]) = fst (pool_step c (fst x) (pool_run c st h) (snd x)).
Proof. intros. unfold pool_run. rewrite fold_left_app. reflexivity. Qed.

Lemma run_app : forall c st h1 h2, pool_run c st (h1 ++ h2) = pool_run c (pool_run c st h1) h2.
Proof. intros. unfold pool_run. apply fold_left_app. Qed.

Lemma wf_run_from : forall c st h, wf st -> wf (pool_run c st h).
Proof.
  intros c st h. revert st. induction h as [|x h IH]; intros st H; [exact H|].
  cbn. apply IH. apply wf_step. assumption.
Qed.

Theorem wf_run : forall c h, wf (pool_run c pool_init h).
Proof. intros. apply wf_run_from. apply wf_init. Qed.

(* ------------------------------------------------------------------ C12_surplus over quiet histories *)
Definition inserts (o : poolop) : Prop :=
  match o with PCreate => True | PAdd _ => True | _ => False end.

Lemma step_idle_incl : forall c now st o, ~ inserts o ->
  incl (p_idle (fst (pool_step c now st o))) (p_idle st).
Proof.
  intros c now st o Hn. destruct o; cbn [pool_step]; try (exfalso; apply Hn; exact I).
  - destruct (pool_get_idle (p_closed st) (p_idle st)) as [o l'] eqn:E.
    destruct (get_idle_prefix _ _ _ _ E) as [suf Hsuf]. rewrite Hsuf.
    destruct o; cbn; apply incl_appl; apply incl_refl.
  - destruct (0 <? p_busy st sid)%N; cbn; apply incl_refl.
  - destruct (Nat.ltb sid (p_n st)); cbn; apply incl_refl.
  - cbn. apply tick_idle_incl. right; reflexivity.
  - cbn. apply tick_idle_incl. left; reflexivity.
  - cbn. apply incl_refl.
  - destruct (pool_get_idle (p_closed st) (p_idle st)) as [o l'] eqn:E.
    destruct (get_idle_prefix _ _ _ _ E) as [suf Hsuf]. rewrite Hsuf. cbn.
    apply incl_appl; apply incl_refl.
Qed.

(* every entry's idle_since is an instant at which something was inserted *)
Lemma step_since_bound : forall c now st o t, now <= t ->
  Forall (fun e => e_since e <= t) (p_idle st) ->
  Forall (fun e => e_since e <= t) (p_idle (fst (pool_step c now st o))).
Proof.
  intros c now st o t Hnow H.
  assert (Hsub : forall l, incl l (p_idle st) -> Forall (fun e => e_since e <= t) l).
  { intros l Hl. apply Forall_forall. intros x Hx. rewrite Forall_forall in H. auto. }
  destruct o; try (apply Hsub; apply step_idle_incl; cbn; tauto).
  - cbn [pool_step]. destruct (p_pending st =? 0)%N; cbn; [assumption|].
    rewrite add_idle_eq, pupd_same. apply Forall_forall. intros x Hx.
    destruct (bt_insert_in _ _ _ Hx) as [->|Hx']; [cbn; assumption|]. rewrite Forall_forall in H. auto.
  - cbn [pool_step]. destruct (Nat.ltb sid (p_n st)); cbn; [|assumption].
    rewrite add_idle_eq. destruct (p_closed st sid); [assumption|].
    apply Forall_forall. intros x Hx.
    destruct (bt_insert_in _ _ _ Hx) as [->|Hx']; [cbn; assumption|]. rewrite Forall_forall in H. auto.
Qed.

Lemma run_since_bound : forall c t h st,
  Forall (fun x => fst x <= t) h -> Forall (fun e => e_since e <= t) (p_idle st) ->
  Forall (fun e => e_since e <= t) (p_idle (pool_run c st h)).
Proof.
  intros c t h. induction h as [|x h IH]; intros st Hh Hst; [exact Hst|].
  inversion Hh; subst. cbn. apply IH; [assumption|]. apply step_since_bound; assumption.
Qed.

Lemma run_quiet_incl : forall c h st,
  Forall (fun x => ~ inserts (snd x)) h -> incl (p_idle (pool_run c st h)) (p_idle st).
Proof.
  intros c h. induction h as [|x h IH]; intros st Hh; [apply incl_refl|].
  inversion Hh; subst. cbn. eapply incl_tran; [apply IH; assumption|]. apply step_idle_incl. assumption.
Qed.

Lemma all_expired_cnt : forall T now l,
  Forall (fun e => e_since e + T <= now) l -> expired_cnt T now l = length l.
Proof.
  intros T now l H. induction H as [|e l He Hl IH]; [reflexivity|].
  unfold expired_cnt in *. cbn [filter].
  assert (E : (Z.max 0 (now - e_since e) <? T) = false) by (apply Z.ltb_ge; lia).
  rewrite E. cbn. lia.
Qed.

Lemma sorted_sub_nodup_len : forall (l k : list pentry),
  NoDup k -> incl k l -> (length k <= length l)%nat.
Proof. intros. apply NoDup_incl_length; assumption. Qed.

(* C12_surplus: nothing is inserted after instant t (h1 is the history up to t, h2 and h3 contain no
   creation / insertion); then after a reaper pass at any instant >= t + timeout, and from then on, the idle
   map holds at most min_idle sessions *)
Theorem surplus_quiet : forall copy c h1 h2 h3 t now, copy_ok copy ->
  Forall (fun x => fst x <= t) h1 ->
  Forall (fun x => ~ inserts (snd x)) h2 -> Forall (fun x => ~ inserts (snd x)) h3 ->
  t + c_timeout c <= now ->
  let st := pool_run c pool_init (h1 ++ h2) in
  let st' := pool_run c (pool_reap_step copy c now st) h3 in
  (N.of_nat (length (p_idle st')) <= c_min c)%N.
Proof.
  intros copy c h1 h2 h3 t now Hc H1 H2 H3 Ht st st'.
  assert (B : Forall (fun e => e_since e <= t) (p_idle st)).
  { subst st. rewrite run_app. apply Forall_forall. intros e He.
    apply (run_quiet_incl c h2 _ H2) in He.
    pose proof (run_since_bound c t h1 pool_init H1 (Forall_nil _)) as B1.
    rewrite Forall_forall in B1. auto. }
  set (s1 := pool_reap_step copy c now st) in *.
  assert (E1 : (N.of_nat (length (p_idle s1)) <= c_min c)%N).
  { pose proof (tick_expired_bound copy c now st Hc) as P. fold s1 in P.
    rewrite all_expired_cnt in P; [exact P|].
    apply Forall_forall. intros e He. apply (tick_idle_incl copy c now st Hc) in He.
    rewrite Forall_forall in B. specialize (B _ He). lia. }
  assert (W : wf st') by (subst st'; apply wf_run_from; subst s1;
    pose proof (wf_run c (h1 ++ h2)) as W0; fold st in W0;
    destruct copy_ok_cases with (1 := Hc) as [-> | ->];
    [exact (wf_step c now st PCleanup W0) | exact (wf_step c now st PTick W0)]).
  pose proof (run_quiet_incl c h3 s1 H3) as I3. fold st' in I3.
  assert (Nd : NoDup (p_idle st')).
  { pose proof (wf_nodup _ W) as Nm. apply NoDup_map_inv in Nm. assumption. }
  pose proof (NoDup_incl_length Nd I3). lia.
Qed.

(* the periodic reaper fires at the multiples of its interval: one of them lies in [t, t + I) *)
Lemma tick_within_interval : forall I t, 0 < I -> exists k, t <= k * I < t + I.
Proof.
  intros I t HI. exists ((t + I - 1) / I).
  pose proof (Z.div_mod (t + I - 1) I ltac:(lia)) as D.
  pose proof (Z.mod_pos_bound (t + I - 1) I HI) as M. nia.
Qed.
