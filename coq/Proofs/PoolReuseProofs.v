(* PoolReuseProofs.v -- C13: what the pool glue guarantees about reuse and about the number of live
   sessions, for client histories (create_stream / create_new_session / stream completions / deaths /
   reaper passes), and exactly where it stops (known finding F3: a reused session never returns to the map). *)
From Coq Require Import List NArith ZArith Bool Lia Sorting.Sorted.
From AnyTLS Require Import Generated FactsTimed Pool PoolProofs.
Import ListNotations.
Open Scope Z_scope.

Definition client_op (o : poolop) : Prop :=
  match o with PAcq | PCreate | PDone _ | PDie _ | PTick | PCleanup => True | _ => False end.

(* every live session is in the idle map -- what create_stream needs in order to find it *)
Definition complete (st : pool) : Prop :=
  forall sid, (sid < p_n st)%nat -> p_closed st sid = false -> In sid (map e_sid (p_idle st)).

(* keys handed out by the client's counter are fresh *)
Definition keys_fresh (st : pool) : Prop := Forall (fun e => (e_seq e < p_nextseq st)%N) (p_idle st).

Lemma get_idle_hit_if_live : forall closed idle,
  (exists e, In e idle /\ closed (e_sid e) = false) ->
  exists sid l', pool_get_idle closed idle = (Some sid, l').
Proof.
  intros closed idle [e [Hin Hc]].
  destruct (pool_get_idle closed idle) as [[sid|] l'] eqn:E; [eauto|].
  destruct (get_idle_spec _ _ _ _ E) as [d [Hd [-> _]]].
  rewrite Forall_forall in Hd. rewrite (Hd _ Hin) in Hc. discriminate.
Qed.

(* C13_sequential_reuse outside the known class: if every live session is in the map, a request that finds
   a live session reuses it and dials nothing *)
Theorem acq_reuses_if_complete : forall c now st,
  complete st -> (exists sid, (sid < p_n st)%nat /\ p_closed st sid = false) ->
  exists sid st', pool_step c now st PAcq = (st', QHit sid) /\
                  p_dials st' = p_dials st /\ p_closed st sid = false /\ p_n st' = p_n st.
Proof.
  intros c now st Hc [sid [Hlt Hl]].
  specialize (Hc _ Hlt Hl). apply in_map_iff in Hc. destruct Hc as [e [Es Hin]].
  destruct (get_idle_hit_if_live (p_closed st) (p_idle st)) as [s [l' E]].
  { exists e. rewrite Es. auto. }
  exists s. cbn [pool_step]. rewrite E. eexists. split; [reflexivity|]. cbn.
  repeat split. eapply get_idle_not_closed; eauto.
Qed.

(* a request dials only when the map holds no live session *)
Theorem acq_dials_only_if_map_dead : forall c now st st',
  pool_step c now st PAcq = (st', QMiss) ->
  Forall (fun e => p_closed st (e_sid e) = true) (p_idle st) /\ p_idle st' = [].
Proof.
  intros c now st st' H. cbn [pool_step] in H.
  destruct (pool_get_idle (p_closed st) (p_idle st)) as [[s|] l'] eqn:E; inversion H; subst; clear H.
  destruct (get_idle_spec _ _ _ _ E) as [d [Hd [-> ->]]]. cbn. auto.
Qed.

Lemma bt_insert_fresh : forall e l, Forall (fun x => (e_seq x < e_seq e)%N) l -> bt_insert e l = l ++ [e].
Proof.
  intros e l H. induction H as [|x l Hx Hl IH]; [reflexivity|].
  cbn. destruct (N.ltb_spec (e_seq e) (e_seq x)); [lia|].
  destruct (N.eqb_spec (e_seq e) (e_seq x)); [lia|]. rewrite IH. reflexivity.
Qed.

(* ---- invariants of client histories *)
Record cinv (st : pool) : Prop := {
  ci_wf : wf st;
  ci_fresh : keys_fresh st
}.

Lemma cinv_step : forall c now st o, client_op o -> cinv st -> cinv (fst (pool_step c now st o)).
Proof.
  intros c now st o Ho [Hwf Hf]. constructor; [apply wf_step; assumption|].
  unfold keys_fresh in *.
  assert (Hsub : forall l nx, incl l (p_idle st) -> (p_nextseq st <= nx)%N -> Forall (fun e => (e_seq e < nx)%N) l).
  { intros l nx Hl Hn. apply Forall_forall. intros x Hx. rewrite Forall_forall in Hf. specialize (Hf _ (Hl _ Hx)). lia. }
  destruct o; try contradiction.
  - pose proof (step_idle_incl c now st PAcq (fun x => x)) as I.
    cbn [pool_step] in *. destruct (pool_get_idle (p_closed st) (p_idle st)) as [[s|] l']; cbn in *; (apply Hsub; [exact I|lia]).
  - cbn [pool_step]. destruct (p_pending st =? 0)%N; cbn; [assumption|].
    rewrite add_idle_eq, pupd_same. apply Forall_forall. intros x Hx.
    destruct (bt_insert_in _ _ _ Hx) as [->|Hx']; [cbn; lia|].
    rewrite Forall_forall in Hf. specialize (Hf _ Hx'). lia.
  - cbn [pool_step]. destruct (0 <? p_busy st sid)%N; cbn; assumption.
  - cbn [pool_step]. destruct (Nat.ltb sid (p_n st)); cbn; assumption.
  - pose proof (step_idle_incl c now st PTick (fun x => x)) as I. cbn [pool_step fst] in *.
    apply Hsub; [assumption|]. unfold pool_reap_step. destruct (pool_reap_pass _ _ _ _ _ _). cbn. lia.
  - pose proof (step_idle_incl c now st PCleanup (fun x => x)) as I. cbn [pool_step fst] in *.
    apply Hsub; [assumption|]. unfold pool_reap_step. destruct (pool_reap_pass _ _ _ _ _ _). cbn. lia.
Qed.

Lemma cinv_init : cinv pool_init.
Proof. constructor; [apply wf_init|constructor]. Qed.

Lemma cinv_run : forall c h, Forall (fun x => client_op (snd x)) h -> cinv (pool_run c pool_init h).
Proof.
  intros c h. induction h as [|x h IH] using rev_ind; intros H; [apply cinv_init|].
  apply Forall_app in H. destruct H as [H1 H2]. inversion H2; subst.
  rewrite run_snoc. apply cinv_step; auto.
Qed.

(* ---- completeness survives everything except a reuse *)
Lemma hits_step_mono : forall c now st o, (p_hits st <= p_hits (fst (pool_step c now st o)))%N.
Proof.
  intros. destruct o; cbn [pool_step].
  - destruct (pool_get_idle (p_closed st) (p_idle st)) as [[s|] l']; cbn; lia.
  - destruct (p_pending st =? 0)%N; cbn; lia.
  - destruct (0 <? p_busy st sid)%N; cbn; lia.
  - destruct (Nat.ltb sid (p_n st)); cbn; lia.
  - cbn. unfold pool_reap_step. destruct (pool_reap_pass _ _ _ _ _ _). cbn. lia.
  - cbn. unfold pool_reap_step. destruct (pool_reap_pass _ _ _ _ _ _). cbn. lia.
  - cbn. lia.
  - destruct (Nat.ltb sid (p_n st)); cbn; lia.
  - destruct (pool_get_idle (p_closed st) (p_idle st)) as [[s|] l']; cbn; lia.
Qed.

Lemma reap_partition : forall copy T M now closed, copy_ok copy -> forall l act k cl,
  pool_reap copy T M now closed l act = (k, cl) ->
  forall e, In e l -> closed (e_sid e) = false -> In e k \/ In (e_sid e) cl.
Proof.
  intros copy T M now closed Hc l. induction l as [|x l IH]; intros act k cl R e Hin Hl; [contradiction|].
  rewrite reap_cons in R by assumption.
  destruct Hin as [->|Hin].
  - rewrite Hl in R.
    destruct (Z.max 0 (now - e_since e) <? T); [|destruct (Z.of_N act <? Z.of_N M)].
    + destruct (pool_reap copy T M now closed l (act + 1)%N) as [k1 c1]. inversion R; subst. left. left. reflexivity.
    + destruct (pool_reap copy T M now closed l (act + 1)%N) as [k1 c1]. inversion R; subst. left. left. reflexivity.
    + destruct (pool_reap copy T M now closed l act) as [k1 c1]. inversion R; subst. right. left. reflexivity.
  - destruct (closed (e_sid x)); [eapply IH; eauto|].
    destruct (Z.max 0 (now - e_since x) <? T); [|destruct (Z.of_N act <? Z.of_N M)].
    + destruct (pool_reap copy T M now closed l (act + 1)%N) as [k1 c1] eqn:R1. inversion R; subst.
      destruct (IH _ _ _ R1 _ Hin Hl); [left; right; assumption|right; assumption].
    + destruct (pool_reap copy T M now closed l (act + 1)%N) as [k1 c1] eqn:R1. inversion R; subst.
      destruct (IH _ _ _ R1 _ Hin Hl); [left; right; assumption|right; assumption].
    + destruct (pool_reap copy T M now closed l act) as [k1 c1] eqn:R1. inversion R; subst.
      destruct (IH _ _ _ R1 _ Hin Hl); [left; assumption|right; right; assumption].
Qed.

Lemma complete_tick : forall copy c now st, copy_ok copy ->
  complete st -> complete (pool_reap_step copy c now st).
Proof.
  intros copy c now st Hk Hc sid Hlt Hl.
  assert (Hl0 : p_closed st sid = false).
  { destruct (p_closed st sid) eqn:E0; [|reflexivity].
    rewrite (tick_closed_mono copy c now st sid E0) in Hl. discriminate. }
  unfold pool_reap_step in *. rewrite reap_pass_eq in *.
  destruct (pool_reap copy (c_timeout c) (c_min c) now (p_closed st) (p_idle st) 0%N) as [k cl] eqn:R.
  cbn in *. specialize (Hc _ Hlt Hl0).
  unfold pool_close_set in Hl. rewrite Hl0 in Hl. cbn in Hl. apply pmemb_false in Hl.
  apply in_map_iff in Hc. destruct Hc as [e [Es Hin]].
  destruct (reap_partition _ _ _ _ _ Hk _ _ _ _ R e Hin) as [Hkk|Hcl].
  - rewrite Es. assumption.
  - apply in_map_iff. exists e. auto.
  - rewrite Es in Hcl. contradiction.
Qed.

Lemma complete_step : forall c now st o, client_op o -> cinv st -> complete st ->
  p_hits (fst (pool_step c now st o)) = p_hits st -> complete (fst (pool_step c now st o)).
Proof.
  intros c now st o Ho [Hwf Hf] Hc Hh. unfold complete in *.
  destruct o; try contradiction; cbn [pool_step] in *.
  - (* PAcq: only a miss keeps the hit counter *)
    destruct (pool_get_idle (p_closed st) (p_idle st)) as [[s|] l'] eqn:E; cbn in *; [lia|].
    destruct (get_idle_spec _ _ _ _ E) as [d [Hd [Hi ->]]].
    intros sid Hlt Hl. exfalso. specialize (Hc _ Hlt Hl). apply in_map_iff in Hc.
    destruct Hc as [e [Es Hin]]. rewrite Hi in Hin. rewrite Forall_forall in Hd.
    specialize (Hd _ Hin). rewrite Es in Hd. congruence.
  - (* PCreate *)
    destruct (p_pending st =? 0)%N; cbn in *; [assumption|].
    rewrite add_idle_eq, pupd_same.
    rewrite bt_insert_fresh by (cbn; exact Hf). rewrite map_app. cbn.
    intros sid Hlt Hl. apply in_or_app. destruct (Nat.eq_dec sid (p_n st)) as [->|Hne].
    + right. left. reflexivity.
    + left. rewrite pupd_other in Hl by assumption. apply Hc; [lia|assumption].
  - destruct (0 <? p_busy st sid)%N; cbn in *; assumption.
  - destruct (Nat.ltb sid (p_n st)); cbn in *; [|assumption].
    intros s Hlt Hl. destruct (Nat.eq_dec s sid) as [->|Hne].
    + rewrite pupd_same in Hl. discriminate.
    + rewrite pupd_other in Hl by assumption. auto.
  - cbn in *. eapply complete_tick; eauto. right; reflexivity.
  - cbn in *. eapply complete_tick; eauto. left; reflexivity.
Qed.


Lemma complete_init : complete pool_init.
Proof. intros sid H. cbn in H. lia. Qed.

Lemma hits_run_mono : forall c h st, (p_hits st <= p_hits (pool_run c st h))%N.
Proof.
  intros c h. induction h as [|x h IH]; intros st; [cbn; lia|].
  change (pool_run c st (x :: h)) with (pool_run c (fst (pool_step c (fst x) st (snd x))) h).
  specialize (IH (fst (pool_step c (fst x) st (snd x)))). pose proof (hits_step_mono c (fst x) st (snd x)). lia.
Qed.

(* the proved part of C13_sequential_reuse: as long as no reuse has happened yet, every live session is in the map *)
Theorem complete_until_first_reuse : forall c h,
  Forall (fun x => client_op (snd x)) h ->
  p_hits (pool_run c pool_init h) = 0%N -> complete (pool_run c pool_init h).
Proof.
  intros c h. induction h as [|x h IH] using rev_ind; intros Hc Hh; [apply complete_init|].
  apply Forall_app in Hc. destruct Hc as [H1 H2]. inversion H2; subst.
  rewrite run_snoc in *.
  pose proof (hits_step_mono c (fst x) (pool_run c pool_init h) (snd x)) as M.
  assert (H0 : p_hits (pool_run c pool_init h) = 0%N) by lia.
  apply complete_step; auto; [apply cinv_run; assumption|lia].
Qed.

(* ------------------------------------------------------------------ counting live sessions *)
Definition cnt (f : nat -> bool) (dom : list nat) : nat := length (filter (fun k => negb (f k)) dom).

Definition live (st : pool) : nat := cnt (p_closed st) (seq 0 (p_n st)).
Definition live_in_map (st : pool) : nat := live_cnt (p_closed st) (p_idle st).

Arguments live_cnt : simpl never.
Arguments cnt : simpl never.
Lemma live_cnt_nil : forall closed, live_cnt closed [] = 0%nat.
Proof. reflexivity. Qed.

Ltac fin := unfold live, live_in_map, p_active in *; cbn in *; rewrite ?live_cnt_nil in *;
  repeat match goal with
  | |- context [N.max ?a ?b] =>
      lazymatch goal with
      | _ : (a <= N.max a b)%N |- _ => fail
      | _ => pose proof (N.le_max_l a b); pose proof (N.le_max_r a b)
      end
  end.

Lemma live_cnt_as_cnt : forall closed l, live_cnt closed l = cnt closed (map e_sid l).
Proof.
  intros closed l. unfold live_cnt, cnt. induction l as [|e l IH]; [reflexivity|].
  cbn. destruct (closed (e_sid e)); cbn; rewrite IH; reflexivity.
Qed.

Lemma cnt_ext : forall f g dom, (forall k, In k dom -> f k = g k) -> cnt f dom = cnt g dom.
Proof.
  intros f g dom H. unfold cnt. f_equal. apply filter_ext_in. intros k Hk. rewrite (H k Hk). reflexivity.
Qed.

Lemma cnt_app : forall f l1 l2, cnt f (l1 ++ l2) = (cnt f l1 + cnt f l2)%nat.
Proof. intros. unfold cnt. rewrite filter_app, app_length. reflexivity. Qed.

Lemma cnt_close_absent : forall f x dom, ~ In x dom -> cnt (pupd f x true) dom = cnt f dom.
Proof.
  intros f x dom H. apply cnt_ext. intros k Hk. apply pupd_other. intro E. subst. contradiction.
Qed.

Lemma cnt_close_one : forall f x dom, NoDup dom -> In x dom -> f x = false ->
  (cnt (pupd f x true) dom + 1 = cnt f dom)%nat.
Proof.
  intros f x dom Hn. induction Hn as [|a dom Hna Hn IH]; intros Hin Hf; [contradiction|].
  unfold cnt in *. cbn [filter]. destruct Hin as [->|Hin].
  - rewrite pupd_same, Hf. cbn. pose proof (cnt_close_absent f x dom Hna) as E. unfold cnt in E. rewrite E. lia.
  - assert (a <> x) by (intro; subst; contradiction).
    rewrite pupd_other by assumption. specialize (IH Hin Hf).
    destruct (f a); cbn; lia.
Qed.

Lemma cnt_close_le : forall f x dom, (cnt (pupd f x true) dom <= cnt f dom)%nat.
Proof.
  intros f x dom. unfold cnt. induction dom as [|a dom IH]; [cbn; lia|].
  cbn [filter]. unfold pupd at 1. destruct (Nat.eqb a x); cbn; [destruct (f a); cbn; lia|].
  destruct (f a); cbn; lia.
Qed.

Lemma cnt_close_ge : forall f x dom, NoDup dom -> (cnt f dom <= cnt (pupd f x true) dom + 1)%nat.
Proof.
  intros f x dom Hn. destruct (in_dec Nat.eq_dec x dom) as [Hin|Hni].
  - destruct (f x) eqn:E.
    + rewrite (cnt_ext (pupd f x true) f); [lia|]. intros k _. unfold pupd. destruct (Nat.eqb_spec k x); [subst; auto|reflexivity].
    + pose proof (cnt_close_one f x dom Hn Hin E). lia.
  - rewrite cnt_close_absent by assumption. lia.
Qed.

Lemma close_set_cons_ext : forall f x cl k,
  pool_close_set f (x :: cl) k = pool_close_set (pupd f x true) cl k.
Proof.
  intros. unfold pool_close_set, pmemb, pupd. cbn [existsb].
  destruct (Nat.eqb k x); cbn; [rewrite orb_true_r; reflexivity|reflexivity].
Qed.

Lemma cnt_close_set : forall cl f dom, NoDup dom -> NoDup cl -> incl cl dom ->
  Forall (fun x => f x = false) cl ->
  (cnt (pool_close_set f cl) dom + length cl = cnt f dom)%nat.
Proof.
  intros cl. induction cl as [|x cl IH]; intros f dom Hd Hn Hi Hf.
  - cbn. rewrite (cnt_ext (pool_close_set f []) f); [lia|]. intros k _. unfold pool_close_set. cbn. apply orb_false_r.
  - inversion Hn as [|? ? Hx Hn']; subst. inversion Hf as [|? ? Hfx Hf']; subst.
    rewrite (cnt_ext _ _ dom (fun k _ => close_set_cons_ext f x cl k)).
    rewrite <- (cnt_close_one f x dom Hd (Hi _ (or_introl eq_refl)) Hfx).
    rewrite <- (IH (pupd f x true) dom Hd Hn'); [cbn; lia| |].
    + intros y Hy. apply Hi. right. assumption.
    + apply Forall_forall. intros y Hy. rewrite Forall_forall in Hf'.
      rewrite pupd_other; [auto|]. intro; subst; contradiction.
Qed.

Lemma live_cnt_app : forall closed l1 l2,
  live_cnt closed (l1 ++ l2) = (live_cnt closed l1 + live_cnt closed l2)%nat.
Proof. intros. unfold live_cnt. rewrite filter_app, app_length. reflexivity. Qed.

Lemma live_cnt_dead : forall closed l, Forall (fun e => closed (e_sid e) = true) l -> live_cnt closed l = 0%nat.
Proof.
  intros closed l H. induction H as [|e l He Hl IH]; [reflexivity|]. rewrite live_cnt_cons, He, IH. reflexivity.
Qed.

(* ------------------------------------------------------------------ C13_bounded: the accounting invariant *)
Record binv (st : pool) : Prop := {
  bi_c : cinv st;
  bi_map : (N.of_nat (live_in_map st) + p_pending st <= p_peak st)%N;   (* live sessions in the map + dials in flight *)
  bi_act : (p_active st <= p_peak st)%N;
  bi_live : (N.of_nat (live st) <= N.of_nat (live_in_map st) + p_hits st)%N   (* each reuse takes one session out of the map for good *)
}.

Lemma binv_init : binv pool_init.
Proof. constructor; [apply cinv_init| | |]; vm_compute; discriminate. Qed.

Lemma wf_sids_nodup_lt : forall st, wf st ->
  NoDup (map e_sid (p_idle st)) /\ incl (map e_sid (p_idle st)) (seq 0 (p_n st)).
Proof.
  intros st Hwf. split; [apply wf_nodup; assumption|].
  destruct Hwf as [_ Hk]. intros x Hx. apply in_map_iff in Hx. destruct Hx as [e [<- Hin]].
  rewrite Forall_forall in Hk. destruct (Hk _ Hin) as [_ L]. apply in_seq. lia.
Qed.

Lemma NoDup_app_r : forall A (l1 l2 : list A), NoDup (l1 ++ l2) -> NoDup l2.
Proof.
  intros A l1. induction l1 as [|a l1 IH]; intros l2 H; [exact H|].
  cbn in H. inversion H; subst. auto.
Qed.

Lemma binv_tick : forall copy c now st, copy_ok copy ->
  wf st -> cinv (pool_reap_step copy c now st) ->
  (N.of_nat (live_cnt (p_closed st) (p_idle st)) + p_pending st <= p_peak st)%N ->
  (p_pending st + p_streams st <= p_peak st)%N ->
  (N.of_nat (cnt (p_closed st) (seq 0 (p_n st))) <= N.of_nat (live_cnt (p_closed st) (p_idle st)) + p_hits st)%N ->
  binv (pool_reap_step copy c now st).
Proof.
  intros copy c now st Hk Hwf Hc' J1 J2 K.
  destruct (wf_sids_nodup_lt _ Hwf) as [Nd Inc].
  pose proof (tick_kept_live copy c now st Hk Hwf) as KL.
  unfold pool_reap_step in *. rewrite reap_pass_eq in *.
  destruct (pool_reap copy (c_timeout c) (c_min c) now (p_closed st) (p_idle st) 0%N) as [k cl] eqn:R.
  destruct (reap_sound _ _ _ _ _ Hk _ _ _ _ R) as [A [B C]].
  destruct (reap_disjoint _ _ _ _ _ Hk _ _ _ _ R Nd) as [D1 D2].
  cbn [p_idle p_closed] in KL. pose proof (live_cnt_all _ _ KL) as Lk.
  assert (Ncl : NoDup cl) by (apply NoDup_app_r in D1; assumption).
  assert (Icl : incl cl (seq 0 (p_n st))).
  { intros x Hx. apply Inc. apply D2. apply in_or_app. right. assumption. }
  assert (Fcl : Forall (fun x => p_closed st x = false) cl).
  { eapply Forall_impl; [|exact B]. cbn. intros a [e [_ [_ [? _]]]]. assumption. }
  pose proof (cnt_close_set cl (p_closed st) (seq 0 (p_n st)) (seq_NoDup _ _) Ncl Icl Fcl) as Q.
  constructor; [assumption| | |]; unfold live, live_in_map, p_active;
    cbn [p_idle p_closed p_pending p_peak p_streams p_hits p_n]; try rewrite Lk; lia.
Qed.

Lemma binv_step : forall c now st o, client_op o -> binv st -> binv (fst (pool_step c now st o)).
Proof.
  intros c now st o Ho [Hc J1 J2 K].
  pose proof (cinv_step c now st o Ho Hc) as Hc'.
  destruct Hc as [Hwf Hfr]. destruct (wf_sids_nodup_lt _ Hwf) as [Nd Inc].
  unfold live, live_in_map, p_active in *.
  destruct o; try contradiction; cbn [pool_step] in *.
  - (* PAcq *)
    destruct (pool_get_idle (p_closed st) (p_idle st)) as [[s|] l'] eqn:E; cbn [fst] in *.
    + destruct (get_idle_spec _ _ _ _ E) as [d [Hd [e [Hi [Es Hl]]]]].
      assert (L : (live_cnt (p_closed st) l' + 1 = live_cnt (p_closed st) (p_idle st))%nat).
      { rewrite Hi, live_cnt_app, live_cnt_cons, Es, Hl, (live_cnt_dead _ _ Hd). lia. }
      constructor; [assumption| | |]; fin; lia.
    + destruct (get_idle_spec _ _ _ _ E) as [d [Hd [Hi ->]]].
      assert (L : live_cnt (p_closed st) (p_idle st) = 0%nat) by (rewrite Hi; apply live_cnt_dead; assumption).
      constructor; [assumption| | |]; fin; lia.
  - (* PCreate *)
    destruct (N.eqb_spec (p_pending st) 0) as [E0|Hp]; cbn [fst] in *; [constructor; auto; constructor; auto|].
    assert (Lm : live_cnt (pupd (p_closed st) (p_n st) false)
                   (pool_add_idle (pupd (p_closed st) (p_n st) false) (p_nextseq st) (p_n st) now (p_idle st))
                 = (live_cnt (p_closed st) (p_idle st) + 1)%nat).
    { rewrite add_idle_eq, pupd_same. rewrite bt_insert_fresh by (cbn; exact Hfr).
      assert (X : cnt (pupd (p_closed st) (p_n st) false) (map e_sid (p_idle st)) = cnt (p_closed st) (map e_sid (p_idle st))).
      { apply cnt_ext. intros k Hk. apply pupd_other. apply Inc in Hk. apply in_seq in Hk. lia. }
      rewrite live_cnt_app, live_cnt_cons. cbn [e_sid]. rewrite pupd_same, live_cnt_nil.
      rewrite !live_cnt_as_cnt, X. lia. }
    assert (Ll : cnt (pupd (p_closed st) (p_n st) false) (seq 0 (S (p_n st)))
                 = (cnt (p_closed st) (seq 0 (p_n st)) + 1)%nat).
    { assert (X : cnt (pupd (p_closed st) (p_n st) false) (seq 0 (p_n st)) = cnt (p_closed st) (seq 0 (p_n st))).
      { apply cnt_ext. intros k Hk. apply pupd_other. apply in_seq in Hk. lia. }
      assert (Y : cnt (pupd (p_closed st) (p_n st) false) [p_n st] = 1%nat).
      { unfold cnt. cbn [filter]. rewrite pupd_same. reflexivity. }
      rewrite seq_S, cnt_app, X. cbn [plus]. rewrite Y. reflexivity. }
    constructor; [assumption| | |]; unfold live, live_in_map, p_active;
      cbn [p_idle p_closed p_pending p_peak p_streams p_hits p_n];
      change client_adds_new_session_to_idle with true; change client_seq_before_add with true; cbn iota.
    + rewrite Lm. lia.
    + lia.
    + rewrite Lm, Ll. lia.
  - (* PDone *)
    destruct (0 <? p_busy st sid)%N; cbn [fst] in *; (constructor; [assumption| | |]; fin; lia).
  - (* PDie *)
    destruct (Nat.ltb_spec sid (p_n st)) as [Hlt|Hge]; cbn [fst] in *; [|constructor; auto; constructor; auto].
    rewrite !live_cnt_as_cnt in *.
    pose proof (cnt_close_le (p_closed st) sid (map e_sid (p_idle st))) as Q1.
    pose proof (cnt_close_ge (p_closed st) sid (map e_sid (p_idle st)) Nd) as Q2.
    constructor; [assumption| | |]; unfold live, live_in_map, p_active;
      cbn [p_idle p_closed p_pending p_peak p_streams p_hits p_n];
      rewrite ?live_cnt_as_cnt.
    + lia.
    + lia.
    + destruct (p_closed st sid) eqn:Ec.
      * assert (X : forall dom, cnt (pupd (p_closed st) sid true) dom = cnt (p_closed st) dom).
        { intros dom. apply cnt_ext. intros k _. unfold pupd. destruct (Nat.eqb_spec k sid); [subst; auto|reflexivity]. }
        rewrite !X. lia.
      * pose proof (cnt_close_one (p_closed st) sid (seq 0 (p_n st)) (seq_NoDup _ _)) as Q3.
        specialize (Q3 ltac:(apply in_seq; lia) Ec). lia.
  - (* PTick *)
    cbn [fst] in *. eapply binv_tick; eauto. right; reflexivity.
  - cbn [fst] in *. eapply binv_tick; eauto. left; reflexivity.
Qed.

Lemma binv_run : forall c h, Forall (fun x => client_op (snd x)) h -> binv (pool_run c pool_init h).
Proof.
  intros c h. induction h as [|x h IH] using rev_ind; intros H; [apply binv_init|].
  apply Forall_app in H. destruct H as [H1 H2]. inversion H2; subst.
  rewrite run_snoc. apply binv_step; auto.
Qed.

(* live sessions still in the idle map, plus dials in flight, never exceed the peak number of simultaneous requests *)
Theorem map_bounded_by_peak : forall c h, Forall (fun x => client_op (snd x)) h ->
  let st := pool_run c pool_init h in
  (N.of_nat (live_in_map st) + p_pending st <= p_peak st)%N.
Proof. intros c h H st. exact (bi_map _ (binv_run c h H)). Qed.

(* what holds of ALL live sessions: the peak plus one per reuse so far (a reused session is never put back,
   so each reuse can strand one live session outside the map: known finding F3) *)
Theorem live_bounded_by_peak_plus_reuses : forall c h, Forall (fun x => client_op (snd x)) h ->
  let st := pool_run c pool_init h in
  (N.of_nat (live st) <= p_peak st + p_hits st)%N.
Proof.
  intros c h H st. subst st. pose proof (binv_run c h H) as [_ J1 _ K]. lia.
Qed.

(* C13_bounded outside the known class (histories without a reuse) *)
Theorem live_bounded_outside_known : forall c h, Forall (fun x => client_op (snd x)) h ->
  let st := pool_run c pool_init h in
  p_hits st = 0%N -> (N.of_nat (live st) <= p_peak st + c_min c)%N.
Proof.
  intros c h H st H0. subst st. pose proof (live_bounded_by_peak_plus_reuses c h H) as P. cbv zeta in P. lia.
Qed.
