(* ReaderProofs.v -- M2 lemmas about the per-stream reader (Model/Reader.v) and the generic
   parser-over-reader theorems (Model/ReaderProg.v).  Reused by every front-end parser:
     rd_read_exact_spec : read_exact over ANY chunking of the queue returns exactly the next n bytes of
                          the concatenation (empty chunks are skipped), XPending when fewer are available
                          and the channel is open, XEof when fewer are available and it is closed;
     run_rd_open/closed : a reader program run over the reader computes what run_bytes / run_eof compute
                          on the concatenation, and leaves exactly the unconsumed rest in the reader;
     run_bytes_app_*    : prefix stability (once a parser answers on b it answers the same on b ++ more). *)
From Coq Require Import List NArith ZArith Lia Bool.
From AnyTLS Require Import Bytes Reader ReaderProg BytesFacts.
Import ListNotations.
Open Scope N_scope.
Ltac Zify.zify_post_hook ::= Z.to_euclidean_division_equations.

(* ---------------------------------------------------------------- small list facts *)
Lemma is_nil_true {A} (l : list A) : is_nil l = true <-> l = [].
Proof. destruct l; cbn; split; intros H; congruence. Qed.

Lemma is_nil_false {A} (l : list A) : is_nil l = false <-> l <> [].
Proof. destruct l; cbn; split; intros H; congruence. Qed.

Lemma lenN_zero_nil {A} (l : list A) : lenN l = 0 <-> l = [].
Proof. destruct l; unfold lenN; cbn [length]; split; intros H; try congruence; lia. Qed.

Lemma lenN_pos {A} (l : list A) : l <> [] -> 1 <= lenN l.
Proof. destruct l; [congruence|]. intros _. rewrite lenN_cons. lia. Qed.

Lemma takeN_app_ge {A} n (d r : list A) : lenN d <= n -> takeN n (d ++ r) = d ++ takeN (n - lenN d) r.
Proof.
  unfold takeN, lenN. intros H. rewrite firstn_app.
  rewrite firstn_all2 by lia. f_equal. f_equal. lia.
Qed.

Lemma dropN_app_ge {A} n (d r : list A) : lenN d <= n -> dropN n (d ++ r) = dropN (n - lenN d) r.
Proof.
  unfold dropN, lenN. intros H. rewrite skipn_app.
  rewrite skipn_all2 by lia. cbn [app]. f_equal. lia.
Qed.

Lemma takeN_0 {A} (l : list A) : takeN 0 l = [].
Proof. reflexivity. Qed.

Lemma dropN_0 {A} (l : list A) : dropN 0 l = l.
Proof. reflexivity. Qed.

Lemma takeN_all {A} n (l : list A) : lenN l <= n -> takeN n l = l.
Proof. unfold takeN, lenN. intros H. apply firstn_all2. lia. Qed.

Lemma dropN_all {A} n (l : list A) : lenN l <= n -> dropN n l = [].
Proof. unfold dropN, lenN. intros H. apply skipn_all2. lia. Qed.

Lemma takeN_nonempty {A} n (l : list A) : 0 < n -> l <> [] -> takeN n l <> [].
Proof.
  unfold takeN. intros Hn Hl. destruct l; [congruence|].
  destruct (N.to_nat n) eqn:E; [lia|]. cbn. congruence.
Qed.

Lemma lenN_takeN_le {A} n (l : list A) : lenN (takeN n l) <= n.
Proof. unfold lenN, takeN. rewrite firstn_length. lia. Qed.

Lemma lenN_takeN_min {A} n (l : list A) : lenN (takeN n l) = N.min n (lenN l).
Proof. unfold lenN, takeN. rewrite firstn_length. lia. Qed.

Lemma takeN_min {A} (l : list A) n : takeN (N.min (lenN l) n) l = takeN n l.
Proof.
  destruct (N.le_ge_cases (lenN l) n) as [H|H].
  - rewrite N.min_l by exact H. rewrite !takeN_all by lia. reflexivity.
  - rewrite N.min_r by exact H. reflexivity.
Qed.

Lemma dropN_min {A} (l : list A) n : dropN (N.min (lenN l) n) l = dropN n l.
Proof.
  destruct (N.le_ge_cases (lenN l) n) as [H|H].
  - rewrite N.min_l by exact H. rewrite !dropN_all by lia. reflexivity.
  - rewrite N.min_r by exact H. reflexivity.
Qed.

(* ---------------------------------------------------------------- the queue *)
Lemma pop_nonempty_none q : pop_nonempty q = None <-> concat q = [].
Proof.
  induction q as [|c q IH]; cbn [pop_nonempty concat]; [tauto|].
  destruct c as [|x c]; cbn [is_nil app]; [exact IH|]. split; intros H; discriminate.
Qed.

Lemma pop_nonempty_some q c q' :
  pop_nonempty q = Some (c, q') -> c <> [] /\ concat q = c ++ concat q'.
Proof.
  induction q as [|c0 q IH]; cbn [pop_nonempty concat]; [discriminate|].
  destruct c0 as [|x c0]; cbn [is_nil app].
  - exact IH.
  - intros H. inversion H; subst. split; [discriminate | reflexivity].
Qed.

(* the reader never reports EOF while chunks are still queued: `eof` is only set when the channel
   returned None, i.e. it is empty and every sender is gone *)
Definition rd_wf (st : rd) : Prop := reof st = true -> rq st = [] /\ rclosed st = true.

Lemma rd_wf_of_chunks chunks closed : rd_wf (rd_of_chunks chunks closed).
Proof. unfold rd_wf, rd_of_chunks. cbn. discriminate. Qed.

Lemma rd_pending_of_chunks chunks closed : rd_pending_bytes (rd_of_chunks chunks closed) = concat chunks.
Proof. reflexivity. Qed.

Lemma rd_wf_push st c : reof st = false -> rd_wf (rd_push st c).
Proof. unfold rd_wf, rd_push. cbn. congruence. Qed.

Lemma rd_pending_push st c : rd_pending_bytes (rd_push st c) = rd_pending_bytes st ++ c.
Proof.
  unfold rd_pending_bytes, rd_push. cbn. rewrite concat_app. cbn [concat].
  rewrite app_nil_r, app_assoc. reflexivity.
Qed.

(* ---------------------------------------------------------------- one read *)
Lemma rd_read_data st cap :
  rd_wf st -> 0 < cap -> rd_pending_bytes st <> [] ->
  exists st' d, rd_read st cap = (st', RData d) /\ d <> [] /\ lenN d <= cap /\
    rd_pending_bytes st = d ++ rd_pending_bytes st' /\
    rclosed st' = rclosed st /\ reof st' = reof st /\ rd_wf st'.
Proof.
  intros Hwf Hcap Hne. unfold rd_read, rd_pending_bytes in *.
  destruct (rbuf st) as [|x bf] eqn:Eb.
  - (* buffer empty *)
    cbn [is_nil negb andb app] in *.
    destruct (reof st) eqn:Ee.
    + destruct (Hwf Ee) as [Hq _]. rewrite Hq in Hne. cbn in Hne. congruence.
    + cbn [andb].
      destruct (pop_nonempty (rq st)) as [[c q']|] eqn:Ep.
      * destruct (pop_nonempty_some _ _ _ Ep) as [Hc Hcat].
        eexists; eexists. split; [reflexivity|]. cbn [rq rbuf rclosed reof].
        rewrite takeN_min, dropN_min.
        refine (conj _ (conj _ (conj _ (conj eq_refl (conj eq_refl _))))).
        -- apply takeN_nonempty; assumption.
        -- apply lenN_takeN_le.
        -- unfold rd_pending_bytes. cbn [rq rbuf]. rewrite Hcat, app_assoc, takeN_dropN. reflexivity.
        -- unfold rd_wf. cbn. intros Ht. congruence.
      * apply pop_nonempty_none in Ep. congruence.
  - (* buffer non-empty *)
    cbn [is_nil negb andb].
    rewrite andb_false_r.
    eexists; eexists. split; [reflexivity|]. cbn [rq rbuf rclosed reof].
    rewrite takeN_min, dropN_min.
    refine (conj _ (conj _ (conj _ (conj eq_refl (conj eq_refl _))))).
    + apply takeN_nonempty; [assumption | discriminate].
    + apply lenN_takeN_le.
    + rewrite app_assoc, takeN_dropN. reflexivity.
    + unfold rd_wf in *. cbn. exact Hwf.
Qed.

Lemma rd_read_empty st cap :
  rd_wf st -> rd_pending_bytes st = [] ->
  exists st', rd_read st cap = (st', if rclosed st then REof else RPending) /\
    rd_pending_bytes st' = [] /\ rclosed st' = rclosed st /\ rd_wf st'.
Proof.
  intros Hwf He. unfold rd_pending_bytes in He. apply app_eq_nil in He. destruct He as [Hb Hq].
  unfold rd_read. rewrite Hb. cbn [is_nil negb andb].
  destruct (reof st) eqn:Ee.
  - cbn [andb]. destruct (Hwf Ee) as [Hq' Hc]. rewrite Hc.
    exists st. refine (conj eq_refl (conj _ (conj Hc Hwf))). unfold rd_pending_bytes. rewrite Hb, Hq'. reflexivity.
  - cbn [andb]. apply pop_nonempty_none in Hq. rewrite Hq.
    destruct (rclosed st) eqn:Ec.
    + eexists. refine (conj eq_refl (conj eq_refl (conj eq_refl _))). unfold rd_wf. cbn. auto.
    + eexists. refine (conj eq_refl (conj eq_refl (conj eq_refl _))). unfold rd_wf. cbn. discriminate.
Qed.

(* ---------------------------------------------------------------- read_exact *)
Lemma rd_read_exact_fuel_spec fuel : forall st need acc,
  rd_wf st -> (N.to_nat need <= fuel)%nat ->
  (need <= lenN (rd_pending_bytes st) ->
     exists st', rd_read_exact_fuel fuel st need acc = (st', XOk (acc ++ takeN need (rd_pending_bytes st))) /\
       rd_pending_bytes st' = dropN need (rd_pending_bytes st) /\
       rclosed st' = rclosed st /\ rd_wf st') /\
  (lenN (rd_pending_bytes st) < need ->
     exists st', rd_read_exact_fuel fuel st need acc = (st', if rclosed st then XEof else XPending)).
Proof.
  induction fuel as [|k IH]; intros st need acc Hwf Hf.
  - assert (need = 0) by lia. subst need. cbn [rd_read_exact_fuel N.eqb].
    split; [|lia]. intros _. exists st. rewrite takeN_0, app_nil_r, dropN_0. auto.
  - cbn [rd_read_exact_fuel]. destruct (N.eqb_spec need 0) as [->|Hnz].
    + split; [|lia]. intros _. exists st. rewrite takeN_0, app_nil_r, dropN_0. auto.
    + destruct (rd_pending_bytes st) as [|x B] eqn:EB.
      * (* nothing available *)
        destruct (rd_read_empty st need Hwf EB) as (st' & Hr & _ & _ & _).
        rewrite Hr. split; [rewrite lenN_nil; lia|]. intros _.
        destruct (rclosed st); eexists; reflexivity.
      * assert (Hne : rd_pending_bytes st <> []) by (rewrite EB; discriminate).
        destruct (rd_read_data st need Hwf ltac:(lia) Hne)
          as (st' & d & Hr & Hd & Hdl & Hcat & Hc & He & Hwf').
        rewrite Hr. rewrite <- EB. rewrite Hcat.
        pose proof (lenN_pos d Hd) as Hd1.
        destruct (IH st' (need - lenN d) (acc ++ d) Hwf' ltac:(lia)) as [IHok IHshort].
        rewrite lenN_app. split.
        -- intros Hle. destruct (IHok ltac:(lia)) as (st'' & Hx & Hp & Hc' & Hw'').
           exists st''. rewrite Hx. rewrite takeN_app_ge, dropN_app_ge by exact Hdl.
           rewrite <- app_assoc. refine (conj eq_refl (conj Hp (conj _ Hw''))). congruence.
        -- intros Hlt. destruct (IHshort ltac:(lia)) as (st'' & Hx).
           exists st''. rewrite Hx, Hc. reflexivity.
Qed.

(* read_exact over any state: the next n bytes of (left-over buffer ++ concatenation of the queue) *)
Theorem rd_read_exact_spec st n :
  rd_wf st ->
  (n <= lenN (rd_pending_bytes st) ->
     exists st', rd_read_exact st n = (st', XOk (takeN n (rd_pending_bytes st))) /\
       rd_pending_bytes st' = dropN n (rd_pending_bytes st) /\
       rclosed st' = rclosed st /\ rd_wf st') /\
  (lenN (rd_pending_bytes st) < n ->
     exists st', rd_read_exact st n = (st', if rclosed st then XEof else XPending)).
Proof.
  intros Hwf. unfold rd_read_exact.
  destruct (rd_read_exact_fuel_spec (S (N.to_nat n) + length (rq st)) st n [] Hwf ltac:(lia)) as [H1 H2].
  split; [|exact H2]. intros Hle. destruct (H1 Hle) as (st' & Hx & Hrest). exists st'. split; [exact Hx | exact Hrest].
Qed.

(* the statement asked for by the other packages: any chunking of the queue *)
Corollary rd_read_exact_chunks chunks closed n :
  (n <= lenN (concat chunks) ->
     exists st', rd_read_exact (rd_of_chunks chunks closed) n = (st', XOk (takeN n (concat chunks))) /\
       rd_pending_bytes st' = dropN n (concat chunks) /\ rclosed st' = closed /\ rd_wf st') /\
  (lenN (concat chunks) < n ->
     exists st', rd_read_exact (rd_of_chunks chunks closed) n = (st', if closed then XEof else XPending)).
Proof. exact (rd_read_exact_spec (rd_of_chunks chunks closed) n (rd_wf_of_chunks chunks closed)). Qed.

(* empty chunks are invisible *)
Lemma concat_filter_nonempty (chunks : list bytes) :
  concat (filter (fun c => negb (is_nil c)) chunks) = concat chunks.
Proof.
  induction chunks as [|c cs IH]; [reflexivity|]. cbn [filter concat].
  destruct c; cbn [is_nil negb]; [exact IH | cbn [concat]; rewrite IH; reflexivity].
Qed.

(* ---------------------------------------------------------------- prefix stability of reader programs *)
Section Progs.
Context {A : Type}.

Lemma run_bytes_app_accept (p : prog A) : forall b m v r,
  run_bytes p b = Accept v r -> run_bytes p (b ++ m) = Accept v (r ++ m).
Proof.
  induction p as [a|e|n ee k IH|k IH]; intros b m v r H; cbn [run_bytes] in *.
  - inversion H; subst. reflexivity.
  - discriminate.
  - destruct (N.leb_spec n (lenN b)) as [Hle|]; [|discriminate].
    rewrite lenN_app. destruct (N.leb_spec n (lenN b + lenN m)) as [_|]; [|lia].
    rewrite takeN_app_le, dropN_app_le by exact Hle. apply IH. exact H.
  - destruct b as [|x b]; [discriminate|]. cbn [app]. apply IH. exact H.
Qed.

Lemma run_bytes_app_reject (p : prog A) : forall b m e,
  run_bytes p b = Reject e -> run_bytes p (b ++ m) = Reject e.
Proof.
  induction p as [a|e0|n ee k IH|k IH]; intros b m e H; cbn [run_bytes] in *.
  - discriminate.
  - exact H.
  - destruct (N.leb_spec n (lenN b)) as [Hle|]; [|discriminate].
    rewrite lenN_app. destruct (N.leb_spec n (lenN b + lenN m)) as [_|]; [|lia].
    rewrite takeN_app_le, dropN_app_le by exact Hle. apply IH. exact H.
  - destruct b as [|x b]; [discriminate|]. cbn [app]. apply IH. exact H.
Qed.

(* the generic prefix_stable statement: an answer is final *)
Definition answered (x : pres A) : Prop := x <> NeedMore.

Theorem run_bytes_prefix_stable (p : prog A) b m :
  answered (run_bytes p b) ->
  run_bytes p (b ++ m) =
    match run_bytes p b with Accept v r => Accept v (r ++ m) | x => x end.
Proof.
  intros H. destruct (run_bytes p b) as [|e|v r] eqn:E.
  - exfalso. apply H. reflexivity.
  - apply run_bytes_app_reject. exact E.
  - apply run_bytes_app_accept. exact E.
Qed.

(* a prefix of an input that is still incomplete is incomplete *)
Corollary run_bytes_needmore_prefix (p : prog A) b m :
  run_bytes p (b ++ m) = NeedMore -> run_bytes p b = NeedMore.
Proof.
  intros H. destruct (run_bytes p b) as [|e|v r] eqn:E; [reflexivity| |].
  - rewrite (run_bytes_app_reject p b m e E) in H. discriminate.
  - rewrite (run_bytes_app_accept p b m v r E) in H. discriminate.
Qed.

(* an accepting run consumes a prefix and returns exactly the unconsumed suffix *)
Lemma run_bytes_accept_suffix (p : prog A) : forall b v r,
  run_bytes p b = Accept v r -> exists c, b = c ++ r.
Proof.
  induction p as [a|e|n ee k IH|k IH]; intros b v r H; cbn [run_bytes] in *.
  - inversion H; subst. exists []. reflexivity.
  - discriminate.
  - destruct (N.leb_spec n (lenN b)) as [Hle|]; [|discriminate].
    destruct (IH _ _ _ _ H) as [c Hc]. exists (takeN n b ++ c).
    rewrite <- app_assoc, <- Hc, takeN_dropN. reflexivity.
  - destruct b as [|x b]; [discriminate|]. destruct (IH _ _ _ _ H) as [c Hc].
    exists (x :: c). cbn [app]. congruence.
Qed.

(* an answer on the flat bytes is also the answer when the input then ends *)
Lemma run_eof_of_accept (p : prog A) : forall b v r,
  run_bytes p b = Accept v r -> run_eof p b = FDone v r.
Proof.
  induction p as [a|e|n ee k IH|k IH]; intros b v r H; cbn [run_bytes run_eof] in *.
  - inversion H; subst. reflexivity.
  - discriminate.
  - destruct (n <=? lenN b); [|discriminate]. apply IH. exact H.
  - destruct b as [|x b]; [discriminate|]. apply IH. exact H.
Qed.

Lemma run_eof_of_reject (p : prog A) : forall b e,
  run_bytes p b = Reject e -> run_eof p b = FFail e.
Proof.
  induction p as [a|e0|n ee k IH|k IH]; intros b e H; cbn [run_bytes run_eof] in *.
  - discriminate.
  - inversion H; subst. reflexivity.
  - destruct (n <=? lenN b); [|discriminate]. apply IH. exact H.
  - destruct b as [|x b]; [discriminate|]. apply IH. exact H.
Qed.

(* ---------------------------------------------------------------- programs over the reader *)
Theorem run_rd_open (p : prog A) : forall st,
  rd_wf st -> rclosed st = false ->
  match run_bytes p (rd_pending_bytes st) with
  | Accept v r => exists st', run_rd p st = (st', SDone v) /\ rd_pending_bytes st' = r /\
                               rclosed st' = false /\ rd_wf st'
  | Reject e => exists st', run_rd p st = (st', SFail e)
  | NeedMore => exists st', run_rd p st = (st', SPending)
  end.
Proof.
  induction p as [a|e|n ee k IH|k IH]; intros st Hwf Hc; cbn [run_bytes run_rd].
  - exists st. auto.
  - exists st. reflexivity.
  - destruct (rd_read_exact_spec st n Hwf) as [Hok Hshort].
    destruct (N.leb_spec n (lenN (rd_pending_bytes st))) as [Hle|Hlt].
    + destruct (Hok Hle) as (st' & Hx & Hp & Hc' & Hwf'). rewrite Hx.
      specialize (IH (takeN n (rd_pending_bytes st)) st' Hwf' ltac:(congruence)).
      rewrite Hp in IH. exact IH.
    + destruct (Hshort Hlt) as (st' & Hx). rewrite Hx, Hc. exists st'. reflexivity.
  - destruct (rd_pending_bytes st) as [|x B] eqn:EB.
    + destruct (rd_read_empty st 1 Hwf EB) as (st' & Hr & _). rewrite Hr, Hc. exists st'. reflexivity.
    + assert (Hne : rd_pending_bytes st <> []) by (rewrite EB; discriminate).
      destruct (rd_read_data st 1 Hwf ltac:(lia) Hne) as (st' & d & Hr & Hd & Hdl & Hcat & Hc' & He & Hwf').
      rewrite Hr. rewrite EB in Hcat.
      destruct d as [|y [|z d]]; [congruence| |rewrite !lenN_cons in Hdl; lia].
      cbn [app] in Hcat. inversion Hcat; subst. cbn [hd].
      specialize (IH y st' Hwf' ltac:(congruence)). exact IH.
Qed.

Theorem run_rd_closed (p : prog A) : forall st,
  rd_wf st -> rclosed st = true ->
  match run_eof p (rd_pending_bytes st) with
  | FDone v r => exists st', run_rd p st = (st', SDone v) /\ rd_pending_bytes st' = r /\
                              rclosed st' = true /\ rd_wf st'
  | FFail e => exists st', run_rd p st = (st', SFail e)
  end.
Proof.
  induction p as [a|e|n ee k IH|k IH]; intros st Hwf Hc; cbn [run_eof run_rd].
  - exists st. auto.
  - exists st. reflexivity.
  - destruct (rd_read_exact_spec st n Hwf) as [Hok Hshort].
    destruct (N.leb_spec n (lenN (rd_pending_bytes st))) as [Hle|Hlt].
    + destruct (Hok Hle) as (st' & Hx & Hp & Hc' & Hwf'). rewrite Hx.
      specialize (IH (takeN n (rd_pending_bytes st)) st' Hwf' ltac:(congruence)).
      rewrite Hp in IH. exact IH.
    + destruct (Hshort Hlt) as (st' & Hx). rewrite Hx, Hc. exists st'. reflexivity.
  - destruct (rd_pending_bytes st) as [|x B] eqn:EB.
    + destruct (rd_read_empty st 1 Hwf EB) as (st' & Hr & Hp & Hc' & Hwf'). rewrite Hr, Hc.
      specialize (IH 0 st' Hwf' ltac:(congruence)). rewrite Hp in IH. exact IH.
    + assert (Hne : rd_pending_bytes st <> []) by (rewrite EB; discriminate).
      destruct (rd_read_data st 1 Hwf ltac:(lia) Hne) as (st' & d & Hr & Hd & Hdl & Hcat & Hc' & He & Hwf').
      rewrite Hr. rewrite EB in Hcat.
      destruct d as [|y [|z d]]; [congruence| |rewrite !lenN_cons in Hdl; lia].
      cbn [app] in Hcat. inversion Hcat; subst. cbn [hd].
      specialize (IH y st' Hwf' ltac:(congruence)). exact IH.
Qed.

(* "for all fragmentations" as a corollary: what a parser reports over a transport that delivered
   `chunks` depends only on their concatenation *)
Definition sres_of_pres (x : pres A) : sres A :=
  match x with Accept v _ => SDone v | Reject e => SFail e | NeedMore => SPending end.
Definition sres_of_fres (x : fres A) : sres A :=
  match x with FDone v _ => SDone v | FFail e => SFail e end.

Theorem run_chunks_open (p : prog A) chunks :
  run_chunks p chunks false = sres_of_pres (run_bytes p (concat chunks)).
Proof.
  unfold run_chunks.
  pose proof (run_rd_open p (rd_of_chunks chunks false) (rd_wf_of_chunks _ _) eq_refl) as H.
  rewrite rd_pending_of_chunks in H.
  destruct (run_bytes p (concat chunks)) as [|e|v r]; cbn [sres_of_pres].
  - destruct H as (st' & ->). reflexivity.
  - destruct H as (st' & ->). reflexivity.
  - destruct H as (st' & -> & _). reflexivity.
Qed.

Theorem run_chunks_closed (p : prog A) chunks :
  run_chunks p chunks true = sres_of_fres (run_eof p (concat chunks)).
Proof.
  unfold run_chunks.
  pose proof (run_rd_closed p (rd_of_chunks chunks true) (rd_wf_of_chunks _ _) eq_refl) as H.
  rewrite rd_pending_of_chunks in H.
  destruct (run_eof p (concat chunks)) as [v r|e]; cbn [sres_of_fres].
  - destruct H as (st' & -> & _). reflexivity.
  - destruct H as (st' & ->). reflexivity.
Qed.

(* the rest left in the reader after an accepting run is the unconsumed suffix of the concatenation *)
Theorem run_rd_chunks_rest (p : prog A) chunks closed v r :
  run_bytes p (concat chunks) = Accept v r ->
  exists st', run_rd p (rd_of_chunks chunks closed) = (st', SDone v) /\
              rd_pending_bytes st' = r /\ rclosed st' = closed /\ rd_wf st'.
Proof.
  intros H. destruct closed.
  - pose proof (run_rd_closed p (rd_of_chunks chunks true) (rd_wf_of_chunks _ _) eq_refl) as Hc.
    rewrite rd_pending_of_chunks, (run_eof_of_accept p _ _ _ H) in Hc. exact Hc.
  - pose proof (run_rd_open p (rd_of_chunks chunks false) (rd_wf_of_chunks _ _) eq_refl) as Ho.
    rewrite rd_pending_of_chunks, H in Ho. exact Ho.
Qed.

(* two fragmentations of the same byte stream are indistinguishable *)
Corollary run_chunks_fragmentation (p : prog A) c1 c2 closed :
  concat c1 = concat c2 -> run_chunks p c1 closed = run_chunks p c2 closed.
Proof.
  intros H. destruct closed.
  - rewrite !run_chunks_closed, H. reflexivity.
  - rewrite !run_chunks_open, H. reflexivity.
Qed.

End Progs.

(* ---------------------------------------------------------------- bytes_eqb, utf8 fuel *)
Lemma bytes_eqb_eq a : forall b, bytes_eqb a b = true <-> a = b.
Proof.
  induction a as [|x a IH]; intros [|y b]; cbn [bytes_eqb]; split; intros H; try congruence; try discriminate.
  - apply andb_true_iff in H. destruct H as [H1 H2]. apply N.eqb_eq in H1. apply IH in H2. congruence.
  - inversion H; subst. apply andb_true_iff. split; [apply N.eqb_refl | apply IH; reflexivity].
Qed.

Lemma bytes_eqb_refl a : bytes_eqb a a = true.
Proof. apply bytes_eqb_eq. reflexivity. Qed.

Lemma bytes_eqb_neq a b : a <> b -> bytes_eqb a b = false.
Proof.
  intros H. destruct (bytes_eqb a b) eqn:E; [|reflexivity]. apply bytes_eqb_eq in E. contradiction.
Qed.

Lemma byte_at_app_l i (a b : bytes) : (i < length a)%nat -> byte_at i (a ++ b) = byte_at i a.
Proof. intros H. unfold byte_at. apply app_nth1. exact H. Qed.

(* ---------------------------------------------------------------- indexing helpers *)
Lemma dropN_dropN {A} a b (l : list A) : dropN a (dropN b l) = dropN (b + a) l.
Proof.
  unfold dropN. replace (N.to_nat (b + a)) with (N.to_nat b + N.to_nat a)%nat by lia.
  generalize (N.to_nat a) as x. generalize (N.to_nat b) as y. clear a b.
  intros y. revert l. induction y as [|y IH]; intros l x; [reflexivity|].
  destruct l as [|z l]; [destruct x; reflexivity|]. cbn [skipn Nat.add]. apply IH.
Qed.

Lemma nth_skipn_add {A} (d : A) : forall n i (l : list A), nth i (skipn n l) d = nth (n + i) l d.
Proof.
  induction n as [|n IH]; intros i l; [reflexivity|].
  destruct l as [|x l]; [destruct i; reflexivity|]. cbn [skipn Nat.add nth]. apply IH.
Qed.

Lemma nth_firstn_lt {A} (d : A) : forall n i (l : list A), (i < n)%nat -> nth i (firstn n l) d = nth i l d.
Proof.
  induction n as [|n IH]; intros i l H; [lia|].
  destruct l as [|x l]; [reflexivity|]. destruct i as [|i]; [reflexivity|].
  cbn [firstn nth]. apply IH. lia.
Qed.

Lemma byte_at_dropN i n (b : bytes) : byte_at i (dropN n b) = byte_at (N.to_nat n + i) b.
Proof. unfold byte_at, dropN. apply nth_skipn_add. Qed.

Lemma byte_at_takeN i n (b : bytes) : (i < N.to_nat n)%nat -> byte_at i (takeN n b) = byte_at i b.
Proof. unfold byte_at, takeN. apply nth_firstn_lt. Qed.

Lemma de16_of_take2_drop n (b : bytes) :
  de16_of (takeN 2 (dropN n b)) = de16 (byte_at (N.to_nat n) b) (byte_at (S (N.to_nat n)) b).
Proof.
  unfold de16_of. rewrite !byte_at_takeN by lia. rewrite !byte_at_dropN.
  rewrite Nat.add_0_r, Nat.add_1_r. reflexivity.
Qed.

(* ---------------------------------------------------------------- programs made of read_exact only *)
Inductive exact_only {A} (e : N) : prog A -> Prop :=
| eo_ret a : exact_only e (PRet a)
| eo_fail x : exact_only e (PFail x)
| eo_exact n k : (forall b, exact_only e (k b)) -> exact_only e (PExact n e k).

(* for such a parser an incomplete input followed by end-of-input is the UnexpectedEof error *)
Lemma run_eof_needmore {A} (p : prog A) e :
  exact_only e p -> forall b, run_bytes p b = NeedMore -> run_eof p b = FFail e.
Proof.
  induction 1 as [a|x|n k Hk IH]; intros b Hb; cbn [run_bytes run_eof] in *; try discriminate.
  destruct (n <=? lenN b); [apply IH; exact Hb | reflexivity].
Qed.

(* a complete, exactly consumed input cannot have been answered on a proper prefix *)
Lemma run_bytes_proper_prefix {A} (p : prog A) b s v :
  run_bytes p (b ++ s) = Accept v [] -> s <> [] -> run_bytes p b = NeedMore.
Proof.
  intros H Hs. destruct (run_bytes p b) as [|e|v' r] eqn:E; [reflexivity| |].
  - rewrite (run_bytes_app_reject p b s e E) in H. discriminate.
  - rewrite (run_bytes_app_accept p b s v' r E) in H. inversion H.
    apply app_eq_nil in H2. destruct H2. contradiction.
Qed.

(* ---------------------------------------------------------------- one-line forms for any reader state *)
Lemma run_rd_accept {A} (p : prog A) st v r :
  rd_wf st -> run_bytes p (rd_pending_bytes st) = Accept v r ->
  exists st', run_rd p st = (st', SDone v) /\ rd_pending_bytes st' = r /\
              rclosed st' = rclosed st /\ rd_wf st'.
Proof.
  intros Hwf H. destruct (rclosed st) eqn:Ec.
  - pose proof (run_rd_closed p st Hwf Ec) as Hc. rewrite (run_eof_of_accept p _ _ _ H) in Hc. exact Hc.
  - pose proof (run_rd_open p st Hwf Ec) as Ho. rewrite H in Ho. exact Ho.
Qed.

Lemma run_rd_reject {A} (p : prog A) st e :
  rd_wf st -> run_bytes p (rd_pending_bytes st) = Reject e ->
  exists st', run_rd p st = (st', SFail e).
Proof.
  intros Hwf H. destruct (rclosed st) eqn:Ec.
  - pose proof (run_rd_closed p st Hwf Ec) as Hc. rewrite (run_eof_of_reject p _ _ H) in Hc. exact Hc.
  - pose proof (run_rd_open p st Hwf Ec) as Ho. rewrite H in Ho. exact Ho.
Qed.

Lemma run_rd_needmore {A} (p : prog A) st e :
  rd_wf st -> exact_only e p -> run_bytes p (rd_pending_bytes st) = NeedMore ->
  exists st', run_rd p st = (st', if rclosed st then SFail e else SPending).
Proof.
  intros Hwf He H. destruct (rclosed st) eqn:Ec.
  - pose proof (run_rd_closed p st Hwf Ec) as Hc. rewrite (run_eof_needmore p e He _ H) in Hc. exact Hc.
  - pose proof (run_rd_open p st Hwf Ec) as Ho. rewrite H in Ho. exact Ho.
Qed.
