(* RelayProofs.v -- the copy loops forward exactly what they read (Model/Relay.v), and the upload direction of a
   tunnel composed with the pipe of C01. *)
From Coq Require Import List NArith Lia Bool.
From AnyTLS Require Import Bytes Cmd Generated FactsRelay Frame Reader Session FrameProofs ReaderProofs SessTable SessHandle SessRecv SessPipe Relay.
Import ListNotations.
Import Sess.
Open Scope N_scope.

(* ---------------------------------------------------------------- the buffer *)
Lemma firstn_fill buf d : firstn (length d) (fill buf d) = d.
Proof.
  unfold fill. rewrite firstn_app, firstn_all, Nat.sub_diag. cbn [firstn]. apply app_nil_r.
Qed.

Lemma fill_length buf d : (length d <= length buf)%nat -> length (fill buf d) = length buf.
Proof. intros H. unfold fill. rewrite app_length, skipn_length. lia. Qed.

(* the stale tail survives a read: that is why the slice has to end at n *)
Lemma fill_keeps_tail buf d : skipn (length d) (fill buf d) = skipn (length d) buf.
Proof.
  unfold fill. rewrite skipn_app, skipn_all, Nat.sub_diag. reflexivity.
Qed.

(* ---------------------------------------------------------------- loop = specification *)
Lemma lp_run_stopped es : forall s, lstop s = true -> lp_run s es = s.
Proof.
  induction es as [|e es IH]; intros s H; [reflexivity|].
  cbn [lp_run fold_left]. unfold lp_iter at 2. rewrite H. apply IH, H.
Qed.

Lemma lp_run_spec es : forall s, lstop s = false -> lout (lp_run s es) = lout s ++ relay_spec es.
Proof.
  induction es as [|[r w] es IH]; intros s H.
  - cbn. symmetry. apply app_nil_r.
  - cbn [lp_run fold_left relay_spec]. unfold lp_iter at 2. rewrite H. cbn [fst snd].
    destruct r as [d| |].
    + destruct (is_nil d) eqn:En.
      * fold (lp_run (lp_stop s) es). rewrite lp_run_stopped by reflexivity. cbn. symmetry. apply app_nil_r.
      * destruct w.
        -- match goal with |- lout (fold_left lp_iter es ?s1) = _ => fold (lp_run s1 es); rewrite (IH s1) by reflexivity end.
           cbn [lout]. unfold slice_len. rewrite relay_sinks_exact, firstn_fill, <- app_assoc. reflexivity.
        -- match goal with |- lout (fold_left lp_iter es ?s1) = _ => fold (lp_run s1 es); rewrite (lp_run_stopped es s1) by reflexivity end.
           cbn. symmetry. apply app_nil_r.
    + fold (lp_run (lp_stop s) es). rewrite lp_run_stopped by reflexivity. cbn. symmetry. apply app_nil_r.
    + fold (lp_run (lp_stop s) es). rewrite lp_run_stopped by reflexivity. cbn. symmetry. apply app_nil_r.
Qed.

(* whatever the buffer size and whatever earlier iterations left in it: the sink gets the chunks that were read *)
Lemma relay_exact cap es : relay cap es = relay_spec es.
Proof. unfold relay. rewrite lp_run_spec by reflexivity. reflexivity. Qed.

Lemma relay_exact_any_buffer buf0 es :
  lout (lp_run {| lbuf := buf0; lout := []; lstop := false |} es) = relay_spec es.
Proof. rewrite lp_run_spec by reflexivity. reflexivity. Qed.

(* the buffer keeps its size as long as no read returns more than it holds *)
Definition reads_fit (cap : N) (es : list (rd_ev * wr_ev)) : Prop :=
  Forall (fun e => match fst e with GotN d => lenN d <= cap | _ => True end) es.

Lemma lp_iter_buf_len s e n :
  length (lbuf s) = n -> match fst e with GotN d => (length d <= n)%nat | _ => True end ->
  length (lbuf (lp_iter s e)) = n.
Proof.
  intros Hn He. unfold lp_iter. destruct (lstop s); [exact Hn|].
  destruct (fst e) as [d| |]; try exact Hn.
  destruct (is_nil d); [exact Hn|].
  destruct (snd e); cbn [lbuf]; rewrite fill_length; lia.
Qed.

Lemma relay_buffer_bounded cap es : reads_fit cap es -> lenN (lbuf (lp_run (lp_init cap) es)) = cap.
Proof.
  intros H. unfold lenN.
  assert (G : forall s, length (lbuf s) = N.to_nat cap -> length (lbuf (lp_run s es)) = N.to_nat cap).
  { induction H as [|e es He Hes IH]; intros s Hs; [exact Hs|].
    cbn [lp_run fold_left]. apply IH. apply lp_iter_buf_len; [exact Hs|].
    destruct (fst e) as [d| |]; auto. unfold lenN in He. lia. }
  rewrite G; [lia|]. unfold lp_init, zeros. cbn [lbuf]. apply repeat_length.
Qed.

(* ---------------------------------------------------------------- nothing altered, nothing out of order *)
Lemma relay_spec_prefix es : exists rest, concat (relay_spec es) ++ rest = source_bytes es.
Proof.
  induction es as [|[r w] es IH]; [exists []; reflexivity|].
  cbn [relay_spec source_bytes]. destruct r as [d| |]; try (exists []; reflexivity).
  destruct (is_nil d); [exists []; reflexivity|].
  destruct w.
  - destruct IH as [rest IH]. exists rest. cbn [concat]. rewrite <- app_assoc, IH. reflexivity.
  - exists (d ++ source_bytes es). reflexivity.
Qed.

Lemma relay_spec_complete es : ran_to_eof es = true -> concat (relay_spec es) = source_bytes es.
Proof.
  induction es as [|[r w] es IH]; [discriminate|].
  cbn [relay_spec source_bytes ran_to_eof]. destruct r as [d| |]; try reflexivity; try discriminate.
  destruct (is_nil d); [reflexivity|]. destruct w; [|discriminate].
  intros H. cbn [concat]. rewrite IH by exact H. reflexivity.
Qed.

Lemma relay_spec_nonempty es : Forall (fun c => c <> []) (relay_spec es).
Proof.
  induction es as [|[r w] es IH]; [constructor|].
  cbn [relay_spec]. destruct r as [d| |]; try constructor.
  destruct (is_nil d) eqn:E; [constructor|]. destruct w; constructor; auto.
  intros ->. discriminate.
Qed.

(* every chunk handed to the sink fits the buffer (so a write_data_frame sink never has to split: <= 65535) *)
Lemma relay_spec_fit cap es : reads_fit cap es -> Forall (fun c => lenN c <= cap) (relay_spec es).
Proof.
  induction 1 as [|[r w] es He Hes IH]; [constructor|].
  cbn [relay_spec]. destruct r as [d| |]; try constructor.
  destruct (is_nil d); [constructor|]. destruct w; constructor; auto.
Qed.

(* ---------------------------------------------------------------- the server relay over the receiver's read log *)
Lemma source_zip_prefix rs : forall ws,
  exists rest, source_bytes (zip_ev rs ws) ++ rest =
               concat (flat_map (fun r => match r with GotN d => [d] | _ => [] end) rs).
Proof.
  induction rs as [|r rs IH]; intros ws; [exists []; reflexivity|].
  destruct ws as [|w ws]; cbn [zip_ev source_bytes flat_map].
  - destruct r as [d| |].
    + destruct (IH []) as [rest E]. cbn [app concat]. destruct (is_nil d) eqn:En.
      * destruct d; [|discriminate]. cbn [app]. eexists. reflexivity.
      * exists rest. rewrite <- app_assoc, E. reflexivity.
    + cbn [app]. eexists. reflexivity.
    + cbn [app]. eexists. reflexivity.
  - destruct r as [d| |].
    + destruct (IH ws) as [rest E]. cbn [app concat]. destruct (is_nil d) eqn:En.
      * destruct d; [|discriminate]. cbn [app]. eexists. reflexivity.
      * exists rest. rewrite <- app_assoc, E. reflexivity.
    + cbn [app]. eexists. reflexivity.
    + cbn [app]. eexists. reflexivity.
Qed.

Lemma log_reads_delivered b k lg :
  concat (flat_map (fun r => match r with GotN d => [d] | _ => [] end) (log_reads b k lg)) = delivered b k lg.
Proof.
  induction lg as [|[[s k'] res] lg IH]; [reflexivity|].
  unfold log_reads, delivered in *. cbn [flat_map].
  destruct res as [d| |]; cbn [app].
  - destruct ((s =? b) && Nat.eqb k' k); cbn [flat_map app concat]; rewrite ?IH; reflexivity.
  - destruct ((s =? b) && Nat.eqb k' k); cbn [flat_map app concat]; rewrite ?IH; reflexivity.
  - exact IH.
Qed.

(* whatever the target's write results: it has received a prefix of what the stream's reader was given *)
Lemma to_target_prefix cap b k lg ws : exists rest, to_target cap b k lg ws ++ rest = delivered b k lg.
Proof.
  unfold to_target. rewrite relay_exact.
  destruct (relay_spec_prefix (zip_ev (log_reads b k lg) ws)) as [r1 E1].
  destruct (source_zip_prefix (log_reads b k lg) ws) as [r2 E2].
  exists (r1 ++ r2). rewrite app_assoc, E1, E2. apply log_reads_delivered.
Qed.

(* a read with a positive capacity never returns an empty chunk *)
Lemma takeN_min_nonempty (c : bytes) cap : c <> [] -> 0 < cap -> takeN (N.min (lenN c) cap) c <> [].
Proof.
  intros Hc Hcap. destruct c as [|x c]; [congruence|].
  unfold takeN, lenN. cbn [length].
  destruct (N.to_nat (N.min (N.of_nat (S (length c))) cap)) eqn:E; [lia|]. cbn [firstn]. discriminate.
Qed.

Lemma pop_nonempty_some q c q' : pop_nonempty q = Some (c, q') -> c <> [].
Proof.
  induction q as [|x q IH]; cbn [pop_nonempty]; [discriminate|].
  destruct (is_nil x) eqn:E; [exact IH|]. intros H. injection H as <- _. intros ->. discriminate.
Qed.

Lemma rd_read_data_nonempty r cap r' d : 0 < cap -> rd_read r cap = (r', RData d) -> d <> [].
Proof.
  intros Hcap. unfold rd_read.
  destruct (reof r && is_nil (rbuf r)); [discriminate|].
  destruct (is_nil (rbuf r)) eqn:Eb; cbn [negb].
  - destruct (pop_nonempty (rq r)) as [[c q']|] eqn:Ep.
    + intros H. injection H as _ <-. apply takeN_min_nonempty; [eapply pop_nonempty_some; exact Ep | exact Hcap].
    + destruct (rclosed r); discriminate.
  - intros H. injection H as _ <-. apply takeN_min_nonempty; [|exact Hcap]. intros E. rewrite E in Eb. discriminate.
Qed.

Definition log_data_nonempty (lg : rlog) : Prop :=
  Forall (fun e => match e with (_, _, RData d) => d <> [] | _ => True end) lg.

Lemma run_rops_data_nonempty c ops : forall st carry, caps_pos ops ->
  let '(_, _, lg) := run_rops c st carry ops in log_data_nonempty lg.
Proof.
  induction ops as [|o ops IH]; intros st carry Hc; [constructor|].
  unfold caps_pos in Hc. apply Forall_cons_iff in Hc. destruct Hc as [Ho Hc]. fold (caps_pos ops) in Hc.
  destruct o as [ch|sid k cap]; cbn [run_rops].
  - destruct (recv c st carry ch) as [[st1 carry1] o1]. apply IH, Hc.
  - unfold read. destruct (obj st sid k) as [s|].
    + destruct (rd_read (rd s) cap) as [r' res] eqn:Er.
      specialize (IH (set_obj st sid k (set_rd s r')) carry Hc).
      destruct (run_rops c (set_obj st sid k (set_rd s r')) carry ops) as [[st2 c2] lg].
      constructor; [|exact IH]. destruct res as [d| |]; auto.
      eapply rd_read_data_nonempty; [exact Ho | exact Er].
    + apply IH, Hc.
Qed.

(* with a target that accepts every write and a log without Eof and without empty chunks, the target has
   received everything the reader was given *)
Lemma relay_all_ok rs :
  Forall (fun r => match r with GotN d => d <> [] | GotEof => False | GotErr => False end) rs ->
  concat (relay_spec (zip_ev rs [])) = concat (flat_map (fun r => match r with GotN d => [d] | _ => [] end) rs).
Proof.
  induction 1 as [|r rs Hr Hrs IH]; [reflexivity|].
  destruct r as [d| |]; try contradiction.
  cbn [zip_ev relay_spec flat_map app concat].
  destruct d as [|x d]; [congruence|]. cbn [is_nil]. cbn [concat]. rewrite IH. reflexivity.
Qed.

Lemma log_reads_ok b k lg : log_data_nonempty lg -> saw_eof b k lg = false ->
  Forall (fun r => match r with GotN d => d <> [] | GotEof => False | GotErr => False end) (log_reads b k lg).
Proof.
  induction 1 as [|[[s k'] res] lg He Hlg IH]; intros Hs; [constructor|].
  unfold log_reads. cbn [flat_map]. fold (log_reads b k lg).
  unfold saw_eof in Hs. cbn [existsb] in Hs. fold (saw_eof b k lg) in Hs.
  destruct res as [d| |].
  - cbn [orb] in Hs. destruct ((s =? b) && Nat.eqb k' k); cbn [app]; [constructor; [exact He|]|]; apply IH, Hs.
  - apply orb_false_iff in Hs. destruct Hs as [Hs1 Hs2]. rewrite Hs1. cbn [app]. apply IH, Hs2.
  - cbn [orb app] in Hs |- *. apply IH, Hs.
Qed.

Lemma to_target_all cap b k lg :
  log_data_nonempty lg -> saw_eof b k lg = false -> to_target cap b k lg [] = delivered b k lg.
Proof.
  intros H1 H2. unfold to_target. rewrite relay_exact, relay_all_ok by (apply log_reads_ok; assumption).
  apply log_reads_delivered.
Qed.

(* ---------------------------------------------------------------- upload, end to end
   front-end relay (events es1 = the application's reads and the results of write_data_frame) -> wops of stream b
   -> session pipe -> server relay with the target's write results ws. *)
Lemma tunnel_upload_prefix capC capS es1 ws cR stR b s w gs ops stS wops rest :
  written b wops = concat (relay capC es1) ->
  s_closed stS = false ->
  decode_all w = (gs, []) ->
  filter not_padding gs = sent_frames (run_wops stS wops) ->
  quiet_for cR b (sent_frames (run_wops stS wops)) ->
  cfg_ok cR -> wf_sess stR -> s_closed stR = false -> dead stR = false ->
  lookup b (tbl stR) = Some s -> rd s = rd_init ->
  concat (recv_chunks ops) ++ rest = w -> caps_pos ops ->
  let '(_, _, lg) := run_rops cR stR [] ops in
  exists missing, to_target capS b (length (only b (gone stR))) lg ws ++ missing = source_bytes es1.
Proof.
  intros Hw H1 H2 H3 H4 H5 H6 H7 H8 H9 H10 H11 H12.
  pose proof (pipe_prefix cR stR b s w gs ops stS wops rest H1 H2 H3 H4 H5 H6 H7 H8 H9 H10 H11 H12) as H.
  destruct (run_rops cR stR [] ops) as [[st' c'] lg].
  destruct H as [[more E] _].
  destruct (to_target_prefix capS b (length (only b (gone stR))) lg ws) as [r1 E1].
  rewrite Hw, relay_exact in E. destruct (relay_spec_prefix es1) as [r2 E2].
  exists (r1 ++ more ++ r2). rewrite app_assoc, E1, app_assoc, E. exact E2.
Qed.

Lemma tunnel_upload_complete capC capS es1 cR stR b s w gs ops stS wops :
  written b wops = concat (relay capC es1) -> ran_to_eof es1 = true ->
  s_closed stS = false ->
  decode_all w = (gs, []) ->
  filter not_padding gs = sent_frames (run_wops stS wops) ->
  quiet_for cR b (sent_frames (run_wops stS wops)) ->
  cfg_ok cR -> wf_sess stR -> s_closed stR = false -> dead stR = false ->
  lookup b (tbl stR) = Some s -> rd s = rd_init ->
  concat (recv_chunks ops) = w -> caps_pos ops ->
  let '(stR', _, lg) := run_rops cR stR [] ops in
  forall s', lookup b (tbl stR') = Some s' -> rd_pending_bytes (rd s') = [] ->
  to_target capS b (length (only b (gone stR))) lg [] = source_bytes es1.
Proof.
  intros Hw He H1 H2 H3 H4 H5 H6 H7 H8 H9 H10 H11 H12.
  pose proof (pipe_main cR stR b s w gs ops stS wops [] H1 H2 H3 H4 H5 H6 H7 H8 H9 H10
                ltac:(rewrite app_nil_r; exact H11) H12) as H.
  pose proof (run_rops_data_nonempty cR ops stR [] H12) as Hne.
  destruct (run_rops cR stR [] ops) as [[st' c'] lg].
  destruct H as (s1 & later & Hl & _ & E & Heof & Hlater & _).
  intros s' Hl' Hp. rewrite Hl in Hl'. injection Hl' as ->.
  rewrite (Hlater eq_refl), Hp in E. cbn [app] in E. rewrite app_nil_r in E.
  rewrite to_target_all by assumption.
  rewrite E, Hw, relay_exact. apply relay_spec_complete, He.
Qed.

(* ---------------------------------------------------------------- the two kinds of session-side sinks
   (a) write_data_frame directly (front-end Task2): the accepted chunks ARE the submissions of stream b *)
Lemma written_of_chunks b cs : written b (map (WData b) cs) = concat cs.
Proof.
  induction cs as [|c cs IH]; [reflexivity|].
  cbn [map written flat_map]. fold (written b (map (WData b) cs)). rewrite N.eqb_refl, IH. reflexivity.
Qed.

(* submissions of other streams, interleaved in any way, do not show up in b's bytes *)
Fixpoint merge_ok (b : N) (cs : list bytes) (ops : list wop) : Prop :=
  match ops with
  | [] => cs = []
  | WData s d :: r => if s =? b then match cs with c :: cs' => d = c /\ merge_ok b cs' r | [] => False end
                      else merge_ok b cs r
  | WCtrl f :: r => cmd_eqb (fcmd f) Push = false /\ merge_ok b cs r
  end.

Lemma written_of_merge b ops : forall cs, merge_ok b cs ops -> written b ops = concat cs.
Proof.
  induction ops as [|o ops IH]; intros cs H.
  - cbn in H. subst cs. reflexivity.
  - destruct o as [s d|f]; cbn [merge_ok] in H; cbn [written flat_map]; fold (written b ops).
    + destruct (s =? b).
      * destruct cs as [|c cs]; [contradiction|]. destruct H as [-> H]. cbn [concat]. rewrite (IH cs H). reflexivity.
      * cbn [app]. apply IH, H.
    + destruct H as [Hf H]. rewrite Hf. cbn [andb app]. apply IH, H.
Qed.

(* (b) Stream::send_data (server Task2): one channel item per call; the forwarding task (process_stream_data)
   turns the queue into the same submissions in the same order *)
Definition wops_of_queue (q : list (N * bytes)) : list wop := map (fun p => WData (fst p) (snd p)) q.

Lemma run_wops_with_sendq st q ops : run_wops (with_sendq st q) ops = run_wops st ops.
Proof.
  induction ops as [|o ops IH]; [reflexivity|].
  cbn [run_wops flat_map]. fold (run_wops (with_sendq st q) ops). fold (run_wops st ops). rewrite IH.
  destruct o; reflexivity.
Qed.

Lemma pump_n_wops n : forall st, s_closed st = false -> n = length (sendq st) ->
  snd (pump_n n st) = run_wops st (wops_of_queue (sendq st)) /\ sendq (fst (pump_n n st)) = [].
Proof.
  induction n as [|n IH]; intros st Hc Hn.
  - destruct (sendq st) eqn:E; [|discriminate]. cbn. rewrite E. split; reflexivity.
  - destruct (sendq st) as [|[sid d] q] eqn:E; [discriminate|].
    cbn [pump_n]. unfold pump. rewrite E, Hc.
    specialize (IH (with_sendq st q) Hc ltac:(cbn; cbn in Hn; congruence)).
    destruct (pump_n n (with_sendq st q)) as [st2 o2]. cbn [snd fst] in IH |- *. destruct IH as [IH1 IH2].
    split; [|exact IH2]. rewrite IH1, run_wops_with_sendq. cbn [with_sendq sendq].
    cbn [wops_of_queue map run_wops flat_map fst snd]. reflexivity.
Qed.

Lemma forwarding_task_submits_queue st : s_closed st = false ->
  snd (pump_all st) = run_wops st (wops_of_queue (sendq st)).
Proof. intros H. apply (pump_n_wops (length (sendq st)) st H eq_refl). Qed.

(* send_data on an open stream of an open session appends exactly the chunk *)
Lemma stream_send_appends st sid k d st' : stream_send st sid k d = (st', WOk) ->
  sendq st' = sendq st ++ [(sid, d)] /\ s_closed st' = s_closed st.
Proof.
  unfold stream_send. destruct (obj st sid k); [|discriminate].
  destruct (sclosed s || s_closed st); [discriminate|]. intros H. injection H as <-. split; reflexivity.
Qed.
