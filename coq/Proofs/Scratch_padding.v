From Coq Require Import List NArith ZArith.
From AnyTLS Require Import Padding.
Import ListNotations.
Open Scope N_scope.
Eval vm_compute in (sc_stop builtin_scheme, line_entries builtin_scheme 2, line_entries builtin_scheme 0, line_entries builtin_scheme 9).
Eval vm_compute in (u32_to_string 0, u32_to_string 4294967295, u32_to_string 10).
Eval vm_compute in (map (@length N) match snd (let '(r,c) := write_packet true builtin_scheme 0 [150%Z] (zeros 20) in (c, r)) with Writes ws => ws | Crash => [[99]] end).
Eval vm_compute in (lines [97;13;10;98;10;10;99;13], split 44 [44;97;44], parse_i64 [45;48], parse_i64 [43], parse_u32 [43;48;55], parse_u32 [45;49]).
Eval vm_compute in (accepts (line_entries builtin_scheme 1) (zeros 20) match fst (write_packet true builtin_scheme 0 [150%Z] (zeros 20)) with Writes ws => ws | Crash => [] end).
