(* SessEnd.v -- what a reader obtains when its stream ends because the session ends (transport EOF, close):
   everything that was dispatched, then Eof.  Completes C01 ("when it ends it has seen all of it"). *)
From Coq Require Import List NArith ZArith Lia Bool.
From AnyTLS Require Import Bytes Cmd Generated FactsCore FactsSession Frame Reader Session BytesFacts FrameProofs
  ReaderProofs SessTable SessHandle SessRecv SessPipe SessFin SessOpen.
Import ListNotations.
Import Sess.
Open Scope N_scope.

Lemma only_lookup_nodup {A} k (l : list (N * A)) v :
  NoDup (keys l) -> lookup k l = Some v -> only k l = [v].
Proof.
  induction l as [|[k' v'] r IH]; cbn [lookup keys map fst]; [discriminate|].
  intros Hnd H. inversion Hnd as [|? ? Hni Hnd']; subst.
  destruct (N.eqb_spec k' k) as [->|Hn].
  - injection H as ->. rewrite only_cons_eq. f_equal.
    assert (Hl : lookup k r = None) by (apply lookup_not_in_keys; exact Hni).
    clear -Hl. induction r as [|[k2 v2] r IH]; [reflexivity|]. cbn [lookup] in Hl.
    destruct (N.eqb_spec k2 k); [discriminate|]. rewrite only_cons_neq by assumption. apply IH. exact Hl.
  - rewrite only_cons_neq by exact Hn. apply IH; assumption.
Qed.

Lemma close_after_data st b s :
  wf_sess st -> s_closed st = false -> lookup b (tbl st) = Some s -> rd_wf (rd s) ->
  let st' := fst (close st) in
  tbl st' = [] /\ s_closed st' = true /\
  only b (gone st') = only b (gone st) ++ [kill s] /\
  rclosed (rd (kill s)) = true /\ rd_wf (rd (kill s)) /\
  rd_pending_bytes (rd (kill s)) = rd_pending_bytes (rd s) /\
  forall caps, Forall (fun cap => 0 < cap) caps ->
    let '(_, got, e) := rd_read_script (rd (kill s)) caps in
    (exists rest, got ++ rest = rd_pending_bytes (rd s)) /\ (e = true -> got = rd_pending_bytes (rd s)).
Proof.
  intros Hwf Hc Hl Hrw. cbv zeta. unfold close. rewrite Hc. cbn [fst tbl s_closed gone].
  rewrite only_app, only_map_kill, (only_lookup_nodup b (tbl st) s Hwf Hl). cbn [map].
  assert (Hw : rd_wf (rd (kill s))) by (cbn [kill rd]; apply rd_wf_close; exact Hrw).
  refine (conj eq_refl (conj eq_refl (conj eq_refl (conj eq_refl (conj Hw (conj eq_refl _)))))).
  intros caps Hcaps.
  pose proof (rd_read_script_closed caps (rd (kill s)) Hw eq_refl Hcaps) as H.
  destruct (rd_read_script (rd (kill s)) caps) as [[r' got] e].
  destruct H as (Hcat & He & _ & _).
  assert (Hp : rd_pending_bytes (rd (kill s)) = rd_pending_bytes (rd s)) by reflexivity.
  rewrite Hp in *. split; [exists (rd_pending_bytes r'); exact Hcat | exact He].
Qed.

(* the whole pipe, ending with the end of the session: delivered-while-open ++ delivered-after-the-end is
   exactly what was written, and Eof comes only after all of it *)
Lemma pipe_end cR stR b s w gs ops stS wops :
  s_closed stS = false ->
  decode_all w = (gs, []) ->
  filter not_padding gs = sent_frames (run_wops stS wops) ->
  quiet_for cR b (sent_frames (run_wops stS wops)) ->
  cfg_ok cR -> wf_sess stR -> s_closed stR = false -> dead stR = false ->
  lookup b (tbl stR) = Some s -> rd s = rd_init ->
  concat (recv_chunks ops) = w -> caps_pos ops ->
  let '(stR', _, lg) := run_rops cR stR [] ops in
  let stE := fst (recv_eof stR') in
  tbl stE = [] /\
  exists sf, only b (gone stE) = only b (gone stR') ++ [sf] /\
    forall caps, Forall (fun cap => 0 < cap) caps ->
      let '(_, got, e) := rd_read_script (rd sf) caps in
      (exists rest, delivered b (length (only b (gone stR))) lg ++ got ++ rest = written b wops) /\
      (e = true -> delivered b (length (only b (gone stR))) lg ++ got = written b wops).
Proof.
  intros HcS Hdec Hpad Hq Hok Hwf Hcl Hd Hl Hrd Hw Hcaps.
  pose proof (pipe_main cR stR b s w gs ops stS wops [] HcS Hdec Hpad Hq Hok Hwf Hcl Hd Hl Hrd
                ltac:(rewrite app_nil_r; exact Hw) Hcaps) as H.
  pose proof (run_rel cR b (length (only b (gone stR))) ops stR [] s Hok Hwf Hcl Hd Hl
                ltac:(rewrite Hrd; apply rd_open_init) eq_refl eq_refl) as Hrel.
  assert (Hq' : quiet_for cR b (fst (decode_all ([] ++ concat (recv_chunks ops))))).
  { cbn [app]. rewrite Hw, Hdec. cbn [fst]. apply quiet_unpad. rewrite Hpad. exact Hq. }
  specialize (Hrel Hq' Hcaps).
  destruct (run_rops cR stR [] ops) as [[stR' carry'] lg].
  destruct H as (s' & later & H1 & H2 & H3 & H4 & H5 & H6 & H7 & H8).
  destruct Hrel as (s2 & R1 & _ & _ & _ & _ & _ & R7 & _).
  rewrite H1 in R1. injection R1 as <-.
  rewrite (H5 eq_refl), app_nil_r in H3.
  cbv zeta. unfold recv_eof. rewrite H6, H7. cbn [orb].
  destruct (close_after_data stR' b s' R7 H6 H1 (rd_open_wf _ H2)) as (E1 & E2 & E3 & _ & _ & _ & E7).
  destruct (close stR') as [stC o]. cbn [fst with_dead tbl gone] in *.
  split; [exact E1|]. exists (kill s'). split; [exact E3|].
  intros caps Hc. specialize (E7 caps Hc).
  destruct (rd_read_script (rd (kill s')) caps) as [[r' got] e].
  destruct E7 as [[rest Er] Ee]. split.
  - exists rest. rewrite Er. exact H3.
  - intros Ht. rewrite (Ee Ht). exact H3.
Qed.
