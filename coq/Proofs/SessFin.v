(* SessFin.v -- C08: what a received FIN does (after the data, only its own id, nothing retained),
   that the other direction keeps working, and that no sending site ever emits a FIN (known finding F1). *)
From Coq Require Import List NArith ZArith Lia Bool.
From AnyTLS Require Import Bytes Cmd Generated FactsCore FactsSession Frame Reader Session BytesFacts FrameProofs
  ReaderProofs SessTable SessHandle SessRecv SessPipe.
Import ListNotations.
Import Sess.
Open Scope N_scope.

Lemma vrun_app c b fs gs v : vrun c b (fs ++ gs) v = vrun c b gs (vrun c b fs v).
Proof. unfold vrun. apply fold_left_app. Qed.

Lemma rd_wf_close r : rd_wf r -> rd_wf (rd_close r).
Proof. unfold rd_wf, rd_close. cbn. intros H He. destruct (H He) as [Hq _]. auto. Qed.

(* data dispatched before the FIN is all queued before the queue is closed; the reader then obtains exactly
   that data and only then Eof *)
Lemma fin_after_data c st b s gs1 d :
  cfg_ok c -> wf_sess st -> dead st = false ->
  lookup b (tbl st) = Some s -> rd_open (rd s) -> quiet_for c b gs1 ->
  let st' := fst (handle_all c st (gs1 ++ [mk Fin b d])) in
  lookup b (tbl st') = None /\
  exists sf, only b (gone st') = only b (gone st) ++ [sf] /\
    rclosed (rd sf) = true /\ rd_wf (rd sf) /\ sclosed sf = sclosed s /\
    rd_pending_bytes (rd sf) = rd_pending_bytes (rd s) ++ concat (pushes b gs1) /\
    forall caps, Forall (fun cap => 0 < cap) caps ->
      let '(_, got, e) := rd_read_script (rd sf) caps in
      (exists rest, got ++ rest = rd_pending_bytes (rd s) ++ concat (pushes b gs1)) /\
      (e = true -> got = rd_pending_bytes (rd s) ++ concat (pushes b gs1)).
Proof.
  intros Hok Hwf Hd Hl Hop Hq. cbv zeta.
  destruct (quiet_split _ _ _ Hq) as [Hna Hne].
  assert (Hna' : Forall no_alert (gs1 ++ [mk Fin b d])).
  { apply Forall_app. split; [exact Hna|]. constructor; [|constructor]. unfold no_alert. cbn. discriminate. }
  destruct (handle_all_view c b _ st Hok Hna' Hd) as (Hv & _).
  rewrite vrun_app in Hv. unfold view in Hv at 2. rewrite Hl in Hv.
  destruct (vrun_content c b gs1 s (only b (gone st)) Hne) as (s1 & Hvr & Hrd1 & Hsc1 & _).
  rewrite Hvr in Hv. cbn [vrun fold_left mk fsid] in Hv. rewrite N.eqb_refl in Hv.
  unfold vstep in Hv. cbn [fcmd detached] in Hv.
  unfold view in Hv. injection Hv as Hl' Hg'.
  split; [exact Hl'|]. exists (drop_tx s1). split; [exact Hg'|].
  assert (Hwf1 : rd_wf (rd_close (rd s1))).
  { apply rd_wf_close. rewrite Hrd1. apply rd_open_wf, rd_open_pushes, Hop. }
  assert (Hp : rd_pending_bytes (rd (drop_tx s1)) = rd_pending_bytes (rd s) ++ concat (pushes b gs1)).
  { cbn [drop_tx rd]. unfold rd_pending_bytes, rd_close. cbn [rbuf rq].
    fold (rd_pending_bytes (rd s1)). rewrite Hrd1. apply rd_pending_pushes. }
  cbn [drop_tx rd sclosed]. refine (conj eq_refl (conj Hwf1 (conj Hsc1 (conj Hp _)))).
  intros caps Hcaps.
  pose proof (rd_read_script_closed caps (rd_close (rd s1)) Hwf1 eq_refl Hcaps) as H.
  destruct (rd_read_script (rd_close (rd s1)) caps) as [[r' got] e].
  destruct H as (Hcat & He & _ & _). cbn [drop_tx rd] in Hp. rewrite <- Hp.
  split; [exists (rd_pending_bytes r'); exact Hcat | exact He].
Qed.

(* the other direction keeps working at the endpoint that received the FIN:
   write_data_frame does not consult the tables, and the detached stream object still accepts send_data *)
Lemma other_direction_writer c st sid d chunk :
  s_closed st = false ->
  let st' := fst (handle c st (mk Fin sid d)) in
  write_data st' sid chunk = (map Send (data_frames sid chunk), WOk).
Proof.
  intros Hc. cbv zeta. unfold write_data.
  assert (Hna : no_alert (mk Fin sid d)) by (unfold no_alert; cbn; discriminate).
  destruct (handle_flags c st (mk Fin sid d) Hna) as (Hc' & _). rewrite Hc', Hc. reflexivity.
Qed.

Lemma other_direction_stream c st sid s d chunk :
  wf_sess st -> s_closed st = false -> lookup sid (tbl st) = Some s -> sclosed s = false ->
  let st' := fst (handle c st (mk Fin sid d)) in
  stream_send st' sid (length (only sid (gone st))) chunk =
    (with_sendq st' (sendq st' ++ [(sid, chunk)]), WOk).
Proof.
  intros Hwf Hc Hl Hs. cbv zeta.
  destruct (fin_effect c st sid d Hwf) as (_ & Hl' & _ & Hg' & _ & _ & Hcl & _).
  unfold stream_send, obj. rewrite Hg', Hl. cbn [detached].
  rewrite nth_error_app2 by lia. rewrite Nat.sub_diag. cbn [nth_error drop_tx sclosed].
  rewrite Hs, Hcl, Hc. reflexivity.
Qed.

(* ... and at the endpoint that sent the FIN nothing changed: sending has no effect on the sender's tables *)
Lemma other_direction_sender c st b s gs :
  cfg_ok c -> dead st = false -> lookup b (tbl st) = Some s -> quiet_for c b gs ->
  fst (write_ctrl st (mk Fin b [])) = (if s_closed st then [] else [Send (mk Fin b [])]) /\
  exists s', lookup b (tbl (fst (handle_all c st gs))) = Some s' /\
    rd s' = rd_pushes (rd s) (pushes b gs).
Proof.
  intros Hok Hd Hl Hq. split.
  - unfold write_ctrl. destruct (s_closed st); [reflexivity|]. cbn [mk fdata lenN length].
    rewrite max_payload_val. reflexivity.
  - destruct (quiet_split _ _ _ Hq) as [Hna Hne].
    destruct (handle_all_view c b gs st Hok Hna Hd) as (Hv & _).
    destruct (vrun_content c b gs s (only b (gone st)) Hne) as (s1 & Hvr & Hrd1 & _).
    unfold view in Hv at 2. rewrite Hl, Hvr in Hv. unfold view in Hv. injection Hv as Hl' _.
    exists s1. auto.
Qed.

(* nothing is retained once the session itself ends *)
Lemma close_empties st : tbl (fst (close st)) = [] \/ s_closed st = true.
Proof. unfold close. destruct (s_closed st); [right; reflexivity | left; reflexivity]. Qed.

(* ---- the sending side: no site writes anything when its input ends, and no local operation of a
   session ever produces a FIN frame by itself *)
Lemma set_obj_fields st sid k s :
  s_closed (set_obj st sid k s) = s_closed st /\ sendq (set_obj st sid k s) = sendq st.
Proof.
  unfold set_obj. destruct (Nat.ltb k _); [split; reflexivity|].
  destruct (lookup sid (tbl st)); [|split; reflexivity].
  destruct (Nat.eqb k _); split; reflexivity.
Qed.

Lemma local_eof_silent site st sid k : snd (local_eof site st sid k) = [].
Proof.
  destruct site; cbn [local_eof snd]; try reflexivity.
  unfold stream_shutdown. destruct (obj st sid k); reflexivity.
Qed.

Definition no_fin (os : list out) : Prop :=
  Forall (fun o => match o with Send f => fcmd f <> Fin | _ => True end) os.

Lemma no_fin_app a b : no_fin a -> no_fin b -> no_fin (a ++ b).
Proof. intros; apply Forall_app; split; assumption. Qed.

Lemma write_data_no_fin st sid d : no_fin (fst (write_data st sid d)).
Proof.
  unfold write_data. destruct (s_closed st); cbn [fst]; [constructor|].
  unfold no_fin, data_frames. rewrite map_map. apply Forall_forall. intros o Ho.
  apply in_map_iff in Ho. destruct Ho as (p & <- & _). cbn. discriminate.
Qed.

Lemma open_no_fin st : no_fin (snd (fst (open st))).
Proof.
  unfold open. destruct (s_closed st); cbn [fst snd]; [constructor|].
  constructor; [cbn; discriminate | constructor].
Qed.

Lemma pump_no_fin st : no_fin (snd (pump st)).
Proof.
  unfold pump. destruct (sendq st) as [|[sid d] q]; cbn [snd]; [constructor|].
  destruct (s_closed st) eqn:E; cbn [snd]; [constructor | apply write_data_no_fin].
Qed.

Ltac nf := unfold no_fin; repeat (first [apply Forall_nil | apply Forall_cons; [cbn; first [exact I | discriminate]|]]).

Lemma handle_no_fin c st f : no_fin (snd (handle c st f)).
Proof.
  unfold handle. destruct (fcmd f); cbn [snd]; try (nf; fail).
  - destruct (is_client c); cbn [snd]; nf.
  - destruct (lookup (fsid f) (tbl st)); nf.
  - destruct (detach (fsid f) (tbl st) (gone st)); nf.
  - destruct (negb (is_client c) && negb (is_nil (fdata f))); [|nf].
    destruct (match map_get key_md5 (fdata f) with Some m => negb (bytes_eqb m (c_md5 c)) | None => false end);
      cbn [andb].
    + destruct (max_payload <? lenN (c_scheme c)); [nf|].
      destruct (map_get key_v (fdata f)) as [vs|]; [|nf].
      destruct (parse_u8 vs) as [v|]; [|nf].
      destruct (2 <=? v); cbn [snd app]; nf.
    + destruct (map_get key_v (fdata f)) as [vs|]; [|nf].
      destruct (parse_u8 vs) as [v|]; [|nf].
      destruct (2 <=? v); cbn [snd app]; nf.
  - unfold close. destruct (s_closed st); cbn [snd]; nf.
  - destruct (is_client c); [|nf]. destruct (lookup (fsid f) (tbl st)); nf.
  - destruct (is_client c && negb (is_nil (fdata f))); [|nf].
    destruct (map_get key_v (fdata f)) as [vs|]; [|nf]. destruct (parse_u8 vs); nf.
Qed.

(* ---------------------------------------------------------------- statements used by Props/C08.v *)
Lemma other_direction c st sid s d chunk gs :
  cfg_ok c -> wf_sess st -> s_closed st = false -> dead st = false ->
  lookup sid (tbl st) = Some s -> sclosed s = false -> quiet_for c sid gs ->
  let st' := fst (handle c st (mk Fin sid d)) in
  write_data st' sid chunk = (map Send (data_frames sid chunk), WOk) /\
  stream_send st' sid (length (only sid (gone st))) chunk = (with_sendq st' (sendq st' ++ [(sid, chunk)]), WOk) /\
  fst (write_ctrl st (mk Fin sid [])) = [Send (mk Fin sid [])] /\
  exists s', lookup sid (tbl (fst (handle_all c st gs))) = Some s' /\ rd s' = rd_pushes (rd s) (pushes sid gs).
Proof.
  intros Hok Hwf Hc Hd Hl Hs Hq. cbv zeta.
  split; [apply other_direction_writer; exact Hc|].
  split; [apply (other_direction_stream c st sid s d chunk); assumption|].
  destruct (other_direction_sender c st sid s gs Hok Hd Hl Hq) as [H1 H2].
  rewrite Hc in H1. split; [exact H1 | exact H2].
Qed.

Lemma cleanup c st sid d :
  wf_sess st ->
  lookup sid (tbl (fst (handle c st (mk Fin sid d)))) = None /\
  (s_closed st = false -> tbl (fst (close st)) = []).
Proof.
  intros Hwf. destruct (fin_effect c st sid d Hwf) as (_ & H & _).
  split; [exact H|]. intros Hc. unfold close. rewrite Hc. reflexivity.
Qed.

Lemma propagates_refuted site st sid k :
  snd (local_eof site st sid k) = [] /\
  (forall st2 sid2 chunk, no_fin (fst (write_data st2 sid2 chunk))) /\
  (forall st2, no_fin (snd (fst (open st2)))) /\
  (forall st2, no_fin (snd (pump st2))) /\
  (forall c st2 f, no_fin (snd (handle c st2 f))).
Proof.
  split; [apply local_eof_silent|].
  split; [intros; apply write_data_no_fin|]. split; [intros; apply open_no_fin|].
  split; [intros; apply pump_no_fin | intros; apply handle_no_fin].
Qed.
