(* SessHandle.v -- dispatch lemmas behind C02 (and reused by C01, C08, C10):
   handle_frame acts on the view of the frame's own stream id only. *)
From Coq Require Import List NArith ZArith Lia Bool.
From AnyTLS Require Import Bytes Cmd Generated FactsCore FactsSession Frame Reader Session BytesFacts FrameProofs SessTable.
Import ListNotations.
Import Sess.
Open Scope N_scope.

Definition cfg_ok (c : cfg) : Prop := lenN (c_scheme c) <= max_payload.
Definition no_alert (f : frame) : Prop := fcmd f <> Alert.

(* what one frame does to the view of its own id *)
Definition vstep (c : cfg) (f : frame) (v : option stream * list stream) : option stream * list stream :=
  let '(cur, old) := v in
  match fcmd f with
  | Push => (match cur with Some s => Some (push_data s (fdata f)) | None => None end, old)
  | Syn => if is_client c then v else (Some fresh, detached cur old)
  | SynAck =>
      if is_client c
      then (match cur with
            | Some s => Some (resolve s (if is_nil (fdata f) then SOk else SErr (fdata f)))
            | None => None
            end, old)
      else v
  | Fin => (None, detached cur old)
  | _ => v
  end.

Definition vrun (c : cfg) (b : N) (fs : list frame) (v : option stream * list stream) :=
  fold_left (fun v f => if fsid f =? b then vstep c f v else v) fs v.

(* fields no dispatch arm other than Alert / a failing Settings reply touches *)
Lemma with_tbl_fields st t g :
  next_id (with_tbl st t g) = next_id st /\ peer_version (with_tbl st t g) = peer_version st /\
  s_closed (with_tbl st t g) = s_closed st /\ dead (with_tbl st t g) = dead st /\
  sendq (with_tbl st t g) = sendq st /\ tbl (with_tbl st t g) = t /\ gone (with_tbl st t g) = g.
Proof. repeat split. Qed.

Lemma view_with_tbl b st t g : view b (with_tbl st t g) = (lookup b t, only b g).
Proof. reflexivity. Qed.

Lemma install_view_eq sid st :
  view sid (install sid st) = (Some fresh, detached (lookup sid (tbl st)) (only sid (gone st))).
Proof.
  unfold install. pose proof (detach_view_eq sid (tbl st) (gone st)) as H.
  destruct (detach sid (tbl st) (gone st)) as [t g]. destruct H as [_ Hg].
  rewrite view_with_tbl, lookup_insert_eq, Hg. reflexivity.
Qed.

Lemma install_view_neq sid b st : sid <> b -> view b (install sid st) = view b st.
Proof.
  intros Hn. unfold install. pose proof (detach_view_neq sid b (tbl st) (gone st) Hn) as H.
  destruct (detach sid (tbl st) (gone st)) as [t g]. destruct H as [Ht Hg].
  rewrite view_with_tbl, lookup_insert_neq by exact Hn. unfold view. rewrite Ht, Hg. reflexivity.
Qed.

Lemma install_fields sid st :
  next_id (install sid st) = next_id st /\ peer_version (install sid st) = peer_version st /\
  s_closed (install sid st) = s_closed st /\ dead (install sid st) = dead st /\ sendq (install sid st) = sendq st.
Proof. unfold install. destruct (detach sid (tbl st) (gone st)). repeat split. Qed.

(* ---- the central locality lemma *)
Lemma handle_view c st f b :
  no_alert f ->
  view b (fst (handle c st f)) = if fsid f =? b then vstep c f (view b st) else view b st.
Proof.
  intros Hna. unfold handle, no_alert in *.
  destruct (fcmd f) eqn:Ec; try congruence; cbn [fst];
    try (destruct (fsid f =? b); unfold vstep; try rewrite Ec; destruct (view b st); reflexivity).
  - (* Syn *)
    unfold vstep. rewrite Ec. destruct (is_client c); cbn [fst].
    + destruct (fsid f =? b); destruct (view b st); reflexivity.
    + destruct (N.eqb_spec (fsid f) b) as [<-|Hn].
      * rewrite install_view_eq. reflexivity.
      * apply install_view_neq. exact Hn.
  - (* Push *)
    unfold vstep. rewrite Ec.
    destruct (lookup (fsid f) (tbl st)) as [s|] eqn:El; cbn [fst].
    + rewrite view_with_tbl. destruct (N.eqb_spec (fsid f) b) as [<-|Hn].
      * rewrite lookup_insert_eq. unfold view. rewrite El. reflexivity.
      * rewrite lookup_insert_neq by exact Hn. reflexivity.
    + destruct (N.eqb_spec (fsid f) b) as [<-|Hn]; [|reflexivity].
      unfold view. rewrite El. reflexivity.
  - (* Fin *)
    unfold vstep. rewrite Ec.
    destruct (N.eqb_spec (fsid f) b) as [<-|Hn].
    + pose proof (detach_view_eq (fsid f) (tbl st) (gone st)) as H.
      destruct (detach (fsid f) (tbl st) (gone st)) as [t g]. destruct H as [Ht Hg].
      cbn [fst]. rewrite view_with_tbl, Ht, Hg. reflexivity.
    + pose proof (detach_view_neq (fsid f) b (tbl st) (gone st) Hn) as H.
      destruct (detach (fsid f) (tbl st) (gone st)) as [t g]. destruct H as [Ht Hg].
      cbn [fst]. rewrite view_with_tbl, Ht, Hg. reflexivity.
  - (* Settings *)
    assert (Hv : forall x, (if fsid f =? b then vstep c f x else x) = x).
    { intros [cur old]. unfold vstep. rewrite Ec. destruct (fsid f =? b); reflexivity. }
    rewrite Hv.
    destruct (negb (is_client c) && negb (is_nil (fdata f))); [|reflexivity].
    destruct (_ && (max_payload <? lenN (c_scheme c))); [reflexivity|].
    destruct (map_get key_v (fdata f)) as [vs|]; [|reflexivity].
    destruct (parse_u8 vs) as [v|]; [|reflexivity].
    destruct (2 <=? v); reflexivity.
  - (* SynAck *)
    unfold vstep. rewrite Ec. destruct (is_client c); cbn [fst].
    + destruct (lookup (fsid f) (tbl st)) as [s|] eqn:El; cbn [fst].
      * rewrite view_with_tbl. destruct (N.eqb_spec (fsid f) b) as [<-|Hn].
        -- rewrite lookup_insert_eq. unfold view. rewrite El. reflexivity.
        -- rewrite lookup_insert_neq by exact Hn. reflexivity.
      * destruct (N.eqb_spec (fsid f) b) as [<-|Hn]; [|reflexivity].
        unfold view. rewrite El. reflexivity.
    + destruct (fsid f =? b); destruct (view b st); reflexivity.
  - (* ServerSettings *)
    assert (Hv : forall x, (if fsid f =? b then vstep c f x else x) = x).
    { intros [cur old]. unfold vstep. rewrite Ec. destruct (fsid f =? b); reflexivity. }
    rewrite Hv.
    destruct (is_client c && negb (is_nil (fdata f))); [|reflexivity].
    destruct (map_get key_v (fdata f)) as [vs|]; [|reflexivity].
    destruct (parse_u8 vs) as [v|]; reflexivity.
Qed.

(* closed / next_id / sendq never change by a non-Alert frame; dead only by a Settings reply that cannot be encoded *)
Lemma handle_flags c st f :
  no_alert f ->
  s_closed (fst (handle c st f)) = s_closed st /\ next_id (fst (handle c st f)) = next_id st /\
  sendq (fst (handle c st f)) = sendq st /\
  (cfg_ok c -> dead (fst (handle c st f)) = dead st).
Proof.
  intros Hna. unfold handle, no_alert, cfg_ok in *.
  destruct (fcmd f) eqn:Ec; try congruence; cbn [fst]; try (repeat split; reflexivity).
  - destruct (is_client c); cbn [fst]; [repeat split; reflexivity|].
    destruct (install_fields (fsid f) st) as (H1 & H2 & H3 & H4 & H5). repeat split; auto.
  - destruct (lookup (fsid f) (tbl st)); cbn [fst]; repeat split; reflexivity.
  - destruct (detach (fsid f) (tbl st) (gone st)); cbn [fst]; repeat split; reflexivity.
  - destruct (negb (is_client c) && negb (is_nil (fdata f))); [|repeat split; reflexivity].
    destruct (match map_get key_md5 (fdata f) with Some m => negb (bytes_eqb m (c_md5 c)) | None => false end) eqn:Em;
      cbn [andb].
    + destruct (N.ltb_spec max_payload (lenN (c_scheme c))) as [Hlt|Hge].
      * cbn [fst]. repeat split; try reflexivity. intros Hok. lia.
      * destruct (map_get key_v (fdata f)) as [vs|]; [|repeat split; reflexivity].
        destruct (parse_u8 vs) as [v|]; [|repeat split; reflexivity].
        destruct (2 <=? v); repeat split; reflexivity.
    + destruct (map_get key_v (fdata f)) as [vs|]; [|repeat split; reflexivity].
      destruct (parse_u8 vs) as [v|]; [|repeat split; reflexivity].
      destruct (2 <=? v); repeat split; reflexivity.
  - destruct (is_client c); cbn [fst]; [|repeat split; reflexivity].
    destruct (lookup (fsid f) (tbl st)); cbn [fst]; repeat split; reflexivity.
  - destruct (is_client c && negb (is_nil (fdata f))); [|repeat split; reflexivity].
    destruct (map_get key_v (fdata f)) as [vs|]; [|repeat split; reflexivity].
    destruct (parse_u8 vs) as [v|]; repeat split; reflexivity.
Qed.

(* ---- runs *)
Lemma handle_all_app c fs : forall st gs,
  handle_all c st (fs ++ gs) =
  let '(st1, o1) := handle_all c st fs in
  let '(st2, o2) := handle_all c st1 gs in (st2, o1 ++ o2).
Proof.
  induction fs as [|f fs IH]; intros st gs.
  - cbn [app handle_all]. destruct (handle_all c st gs). reflexivity.
  - cbn [app handle_all]. destruct (dead st) eqn:Ed.
    + destruct gs; cbn [handle_all]; [reflexivity | rewrite Ed; reflexivity].
    + destruct (handle c st f) as [st1 o1]. rewrite IH.
      destruct (handle_all c st1 fs) as [st2 o2]. destruct (handle_all c st2 gs) as [st3 o3].
      rewrite app_assoc. reflexivity.
Qed.

Lemma handle_all_dead c st fs : dead st = true -> handle_all c st fs = (st, []).
Proof. intros H. destruct fs; cbn [handle_all]; [reflexivity | rewrite H; reflexivity]. Qed.

Lemma handle_all_view c b fs : forall st,
  cfg_ok c -> Forall no_alert fs -> dead st = false ->
  view b (fst (handle_all c st fs)) = vrun c b fs (view b st) /\
  dead (fst (handle_all c st fs)) = false /\
  s_closed (fst (handle_all c st fs)) = s_closed st /\
  next_id (fst (handle_all c st fs)) = next_id st /\
  sendq (fst (handle_all c st fs)) = sendq st.
Proof.
  induction fs as [|f fs IH]; intros st Hok Hall Hd.
  - cbn. auto.
  - inversion Hall as [|? ? Hf Hfs]; subst. cbn [handle_all]. rewrite Hd.
    pose proof (handle_view c st f b Hf) as Hv.
    destruct (handle_flags c st f Hf) as (Hc & Hn & Hq & Hdd).
    destruct (handle c st f) as [st1 o1]. cbn [fst] in *.
    specialize (IH st1 Hok Hfs ltac:(rewrite (Hdd Hok); exact Hd)).
    destruct (handle_all c st1 fs) as [st2 o2]. cbn [fst] in *.
    destruct IH as (IHv & IHd & IHc & IHn & IHq).
    cbn [vrun fold_left]. fold (vrun c b fs). rewrite <- Hv.
    repeat split; try congruence. exact IHv.
Qed.

(* ---- C02: non-interference *)
Lemma vrun_filter c a b fs : a <> b -> forall v,
  vrun c b (filter (fun f => negb (fsid f =? a)) fs) v = vrun c b fs v.
Proof.
  intros Hab. induction fs as [|f fs IH]; intros v; [reflexivity|].
  cbn [filter]. destruct (N.eqb_spec (fsid f) a) as [Ha|Ha]; cbn [negb].
  - cbn [vrun fold_left]. fold (vrun c b fs).
    destruct (N.eqb_spec (fsid f) b); [congruence|]. apply IH.
  - cbn [vrun fold_left]. fold (vrun c b fs). fold (vrun c b (filter (fun f => negb (fsid f =? a)) fs)).
    apply IH.
Qed.

Lemma forall_filter {A} (P : A -> Prop) (p : A -> bool) l : Forall P l -> Forall P (filter p l).
Proof.
  induction l as [|x l IH]; intros H; [constructor|]. inversion H; subst. cbn [filter].
  destruct (p x); [constructor; auto | auto].
Qed.

Lemma noninterference c st fs a b :
  cfg_ok c -> a <> b -> Forall no_alert fs -> dead st = false ->
  view b (fst (handle_all c st fs)) =
  view b (fst (handle_all c st (filter (fun f => negb (fsid f =? a)) fs))).
Proof.
  intros Hok Hab Hall Hd.
  destruct (handle_all_view c b fs st Hok Hall Hd) as [H1 _].
  destruct (handle_all_view c b _ st Hok (forall_filter _ (fun f => negb (fsid f =? a)) _ Hall) Hd) as [H2 _].
  rewrite H1, H2, vrun_filter by exact Hab. reflexivity.
Qed.

(* ---- C02: content of the queue *)
Definition is_push_for (b : N) (f : frame) : bool := cmd_eqb (fcmd f) Push && (fsid f =? b).
Definition pushes (b : N) (fs : list frame) : list bytes := map fdata (filter (is_push_for b) fs).
(* a frame that opens / ends the incarnation of b *)
Definition ends (c : cfg) (b : N) (f : frame) : bool :=
  (fsid f =? b) && (cmd_eqb (fcmd f) Fin || (cmd_eqb (fcmd f) Syn && negb (is_client c))).

Definition rd_pushes (r : Reader.rd) (ds : list bytes) : Reader.rd := fold_left rd_push ds r.

Lemma pushes_app b fs gs : pushes b (fs ++ gs) = pushes b fs ++ pushes b gs.
Proof. unfold pushes. rewrite filter_app, map_app. reflexivity. Qed.

Lemma rd_pushes_app r ds es : rd_pushes r (ds ++ es) = rd_pushes (rd_pushes r ds) es.
Proof. unfold rd_pushes. apply fold_left_app. Qed.

Lemma rd_pushes_fields r ds :
  rq (rd_pushes r ds) = rq r ++ ds /\ rclosed (rd_pushes r ds) = rclosed r /\
  rbuf (rd_pushes r ds) = rbuf r /\ reof (rd_pushes r ds) = reof r.
Proof.
  revert r. induction ds as [|d ds IH]; intros r; cbn [rd_pushes fold_left].
  - rewrite app_nil_r. auto.
  - fold (rd_pushes (rd_push r d) ds). destruct (IH (rd_push r d)) as (H1 & H2 & H3 & H4).
    rewrite H1, H2, H3, H4. cbn [rd_push rq rclosed rbuf reof]. rewrite <- app_assoc. auto.
Qed.

Lemma vrun_content c b fs : forall s old,
  Forall (fun f => ends c b f = false) fs ->
  exists s', vrun c b fs (Some s, old) = (Some s', old) /\
    rd s' = rd_pushes (rd s) (pushes b fs) /\ sclosed s' = sclosed s /\
    (synack s <> Pending -> synack s' = synack s).
Proof.
  induction fs as [|f fs IH]; intros s old Hall.
  - exists s. cbn. auto.
  - inversion Hall as [|? ? Hf Hfs]; subst.
    cbn [vrun fold_left]. fold (vrun c b fs).
    unfold ends in Hf. unfold pushes, is_push_for. cbn [filter].
    destruct (N.eqb_spec (fsid f) b) as [Hb|Hb].
    + cbn [andb] in Hf. rewrite andb_true_r.
      remember (vstep c f (Some s, old)) as v1 eqn:Ev. unfold vstep in Ev.
      destruct (fcmd f) eqn:Ec; cbn [cmd_eqb orb andb negb] in *; try discriminate; subst v1;
        try (destruct (IH s old Hfs) as (s' & H1 & H2 & H3 & H4); exists s'; repeat split; assumption).
      * (* Syn on a client *)
        destruct (is_client c); [|discriminate].
        destruct (IH s old Hfs) as (s' & H1 & H2 & H3 & H4); exists s'; repeat split; assumption.
      * (* Push *)
        destruct (IH (push_data s (fdata f)) old Hfs) as (s' & H1 & H2 & H3 & H4).
        exists s'. cbn [map]. repeat split; try assumption.
      * (* SynAck *)
        destruct (is_client c).
        -- destruct (IH (resolve s (if is_nil (fdata f) then SOk else SErr (fdata f))) old Hfs)
             as (s' & H1 & H2 & H3 & H4).
           exists s'. unfold resolve in *. destruct (synack s) eqn:Es; cbn [rd sclosed synack] in *;
             repeat split; try assumption; try congruence.
           intros _. rewrite H4; [exact Es | rewrite Es; discriminate].
        -- destruct (IH s old Hfs) as (s' & H1 & H2 & H3 & H4); exists s'; repeat split; assumption.
    + rewrite andb_false_r. apply IH. exact Hfs.
Qed.

(* frames for an id that is not in the table: PSH / FIN / SYNACK change nothing at all *)
Lemma unknown_dropped c st f :
  lookup (fsid f) (tbl st) = None ->
  fcmd f = Push \/ fcmd f = Fin \/ fcmd f = SynAck ->
  handle c st f = (st, []).
Proof.
  intros Hl Hc. unfold handle. destruct Hc as [Hc|[Hc|Hc]]; rewrite Hc.
  - rewrite Hl. reflexivity.
  - unfold detach. rewrite Hl. destruct st; reflexivity.
  - rewrite Hl. destruct (is_client c); reflexivity.
Qed.

(* ---- key invariant: the table has unique keys *)
Definition wf_sess (st : sess) : Prop := NoDup (keys (tbl st)).

Lemma wf_init c : wf_sess (init_sess c).
Proof. constructor. Qed.

Lemma install_wf sid st : wf_sess st -> wf_sess (install sid st).
Proof.
  unfold wf_sess, install. intros H.
  pose proof (detach_nodup sid (tbl st) (gone st) H) as Hd.
  destruct (detach sid (tbl st) (gone st)) as [t g]. cbn [fst] in Hd.
  cbn [with_tbl tbl]. apply nodup_insert. exact Hd.
Qed.

Lemma handle_wf c st f : wf_sess st -> wf_sess (fst (handle c st f)).
Proof.
  unfold wf_sess. intros H. unfold handle.
  destruct (fcmd f); cbn [fst]; try exact H.
  - destruct (is_client c); [exact H | apply install_wf; exact H].
  - destruct (lookup (fsid f) (tbl st)); cbn [fst]; [apply nodup_insert; exact H | exact H].
  - pose proof (detach_nodup (fsid f) (tbl st) (gone st) H) as Hd.
    destruct (detach (fsid f) (tbl st) (gone st)); exact Hd.
  - destruct (negb (is_client c) && negb (is_nil (fdata f))); [|exact H].
    destruct (_ && (max_payload <? lenN (c_scheme c))); [exact H|].
    destruct (map_get key_v (fdata f)) as [vs|]; [|exact H].
    destruct (parse_u8 vs) as [v|]; [|exact H]. destruct (2 <=? v); exact H.
  - unfold close. destruct (s_closed st); cbn [fst with_dead tbl]; [exact H | constructor].
  - destruct (is_client c); [|exact H].
    destruct (lookup (fsid f) (tbl st)); cbn [fst]; [apply nodup_insert; exact H | exact H].
  - destruct (is_client c && negb (is_nil (fdata f))); [|exact H].
    destruct (map_get key_v (fdata f)) as [vs|]; [|exact H].
    destruct (parse_u8 vs) as [v|]; exact H.
Qed.

Lemma handle_all_wf c fs : forall st, wf_sess st -> wf_sess (fst (handle_all c st fs)).
Proof.
  induction fs as [|f fs IH]; intros st H; [exact H|]. cbn [handle_all].
  destruct (dead st); [exact H|].
  pose proof (handle_wf c st f H) as H1. destruct (handle c st f) as [st1 o1]. cbn [fst] in H1.
  specialize (IH st1 H1). destruct (handle_all c st1 fs). exact IH.
Qed.

(* ---- a received FIN: exactly the entry of its own id leaves the tables *)
Lemma fin_effect c st sid d :
  wf_sess st ->
  let st' := fst (handle c st (mk Fin sid d)) in
  snd (handle c st (mk Fin sid d)) = [] /\
  lookup sid (tbl st') = None /\
  (forall b, b <> sid -> lookup b (tbl st') = lookup b (tbl st)) /\
  only sid (gone st') = detached (lookup sid (tbl st)) (only sid (gone st)) /\
  (forall b, b <> sid -> only b (gone st') = only b (gone st)) /\
  length (tbl st') = match lookup sid (tbl st) with Some _ => pred (length (tbl st)) | None => length (tbl st) end /\
  s_closed st' = s_closed st /\ dead st' = dead st /\ sendq st' = sendq st /\
  peer_version st' = peer_version st /\ next_id st' = next_id st.
Proof.
  intros Hwf. cbv zeta. unfold handle. cbn [mk fcmd fsid fdata].
  pose proof (detach_view_eq sid (tbl st) (gone st)) as He.
  pose proof (detach_length sid (tbl st) (gone st) Hwf) as Hlen.
  assert (Hne : forall b, b <> sid ->
     lookup b (fst (detach sid (tbl st) (gone st))) = lookup b (tbl st) /\
     only b (snd (detach sid (tbl st) (gone st))) = only b (gone st)).
  { intros b Hb. pose proof (detach_view_neq sid b (tbl st) (gone st) ltac:(congruence)) as H.
    destruct (detach sid (tbl st) (gone st)). exact H. }
  destruct (detach sid (tbl st) (gone st)) as [t g]. cbn [fst snd] in *. destruct He as [He1 He2].
  cbn [with_tbl tbl gone s_closed dead sendq peer_version next_id].
  repeat split; auto.
  - intros b Hb. apply (Hne b Hb).
  - intros b Hb. apply (Hne b Hb).
Qed.
