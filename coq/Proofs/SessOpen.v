(* SessOpen.v -- C10: the pending-open slot is a one-shot; the opener's outcome is the verdict of the first
   decisive event.  C02_stamp: ids handed out by open_stream are pairwise distinct below 2^32 opens. *)
From Coq Require Import List NArith ZArith Lia Bool.
From AnyTLS Require Import Bytes Cmd Generated FactsCore FactsSession Frame Reader Session BytesFacts FrameProofs
  SessTable SessHandle SessRecv SessPipe.
Import ListNotations.
Import Sess.
Open Scope N_scope.
Ltac Zify.zify_post_hook ::= Z.to_euclidean_division_equations.

(* ---------------------------------------------------------------- the opener never changes its mind *)
Lemma opener_poll_done o s t : opener_poll (Done o) s t = Done o.
Proof. reflexivity. Qed.

Lemma crun_done c sid es : forall st o, snd (crun c sid (st, Done o) es) = Done o.
Proof.
  induction es as [|e es IH]; intros st o; [reflexivity|].
  cbn [crun fold_left]. unfold cstep at 2. cbn [opener_poll]. apply IH.
Qed.

Lemma expect_done_stable sid : forall es reg alive o es2,
  expect sid reg alive es = Done o -> expect sid reg alive (es ++ es2) = Done o.
Proof.
  induction es as [|e es IH]; intros reg alive o es2 H; [discriminate|].
  cbn [app]. destruct e as [f| | |s]; cbn [expect] in *.
  - destruct (negb alive); [apply IH; exact H|].
    destruct (fcmd f); try (apply IH; exact H).
    + destruct reg; [exact H | apply IH; exact H].
    + destruct (reg && (fsid f =? sid)); [exact H | apply IH; exact H].
  - destruct (alive && reg); [exact H | apply IH; exact H].
  - destruct (alive && reg); [exact H | apply IH; exact H].
  - destruct (s =? sid); [exact H | apply IH; exact H].
Qed.

(* ---------------------------------------------------------------- where the opener's object lives *)
Lemma lookup_only {A} k (l : list (N * A)) v : lookup k l = Some v -> exists rest, only k l = v :: rest.
Proof.
  induction l as [|[k' v'] r IH]; cbn [lookup]; [discriminate|].
  destruct (N.eqb_spec k' k) as [->|Hn].
  - intros H. injection H as ->. rewrite only_cons_eq. eauto.
  - intros H. rewrite only_cons_neq by exact Hn. apply IH. exact H.
Qed.

Lemma only_map_kill sid (t : list (N * stream)) :
  only sid (map (fun p => (fst p, kill (snd p))) t) = map kill (only sid t).
Proof.
  unfold only. induction t as [|[k v] r IH]; [reflexivity|]. cbn [map filter fst snd].
  destruct (k =? sid); cbn [map snd]; rewrite IH; reflexivity.
Qed.

(* reg: the stream is registered and its open is still pending; unreg: it left the tables while pending *)
Definition reg_inv (st : sess) (sid : N) : Prop :=
  exists s, lookup sid (tbl st) = Some s /\ synack s = Pending /\ only sid (gone st) = [].
Definition unreg_inv (st : sess) (sid : N) : Prop :=
  lookup sid (tbl st) = None /\ exists s rest, only sid (gone st) = s :: rest /\ synack s = Pending.

Lemma slot_reg st sid : reg_inv st sid -> slot_of st sid = Pending.
Proof. intros (s & Hl & Hs & Hg). unfold slot_of, obj. rewrite Hg, Hl. cbn. exact Hs. Qed.

Lemma slot_unreg st sid : unreg_inv st sid -> slot_of st sid = Pending.
Proof. intros (_ & s & rest & Hg & Hs). unfold slot_of, obj. rewrite Hg. cbn. exact Hs. Qed.

Definition alive_of (st : sess) : bool := negb (s_closed st || dead st).

Lemma close_reg st sid :
  s_closed st = false -> reg_inv st sid -> slot_of (fst (close st)) sid = Resolved SClosed.
Proof.
  intros Hc (s & Hl & Hs & Hg). unfold close. rewrite Hc. cbn [fst].
  unfold slot_of, obj. cbn [gone tbl]. rewrite only_app, Hg, only_map_kill. cbn [app].
  destruct (lookup_only sid (tbl st) s Hl) as (rest & Ho). rewrite Ho. cbn [map nth_error].
  unfold kill. rewrite Hs. reflexivity.
Qed.

Lemma close_unreg st sid :
  unreg_inv st sid -> unreg_inv (fst (close st)) sid /\ alive_of (fst (close st)) = false.
Proof.
  intros (Hl & s & rest & Hg & Hs). unfold close. destruct (s_closed st) eqn:Hc; cbn [fst].
  - split; [split; [exact Hl | eauto]|]. unfold alive_of. rewrite Hc. reflexivity.
  - split; [|reflexivity]. split; [reflexivity|]. cbn [gone]. rewrite only_app, Hg. cbn [app]. eauto.
Qed.

(* ---------------------------------------------------------------- main characterisation *)
Lemma crun_expect c sid es : forall st,
  cfg_ok c -> is_client c = true ->
  ((reg_inv st sid /\ alive_of st = true) \/ unreg_inv st sid) ->
  snd (crun c sid (st, Waiting) es) =
  expect sid (match lookup sid (tbl st) with Some _ => true | None => false end) (alive_of st) es.
Proof.
  unfold crun.
  induction es as [|e es IH]; intros st Hok Hcl Hinv; [reflexivity|].
  cbn [fold_left].
  assert (Hregb : forall st0, reg_inv st0 sid -> match lookup sid (tbl st0) with Some _ => true | None => false end = true)
    by (intros st0 (s & Hl & _); rewrite Hl; reflexivity).
  assert (Hunregb : forall st0, unreg_inv st0 sid -> match lookup sid (tbl st0) with Some _ => true | None => false end = false)
    by (intros st0 (Hl & _); rewrite Hl; reflexivity).
  destruct e as [f| | |s]; cbn [cstep expect].
  - (* a frame *)
    unfold alive_of at 1 3.
    destruct (s_closed st || dead st) eqn:Ecd; cbn [negb].
    + (* the session no longer dispatches *)
      assert (Hu : unreg_inv st sid).
      { destruct Hinv as [[_ Ha]|Hu]; [unfold alive_of in Ha; rewrite Ecd in Ha; discriminate | exact Hu]. }
      rewrite (slot_unreg st sid Hu). cbn [opener_poll].
      rewrite (IH st Hok Hcl (or_intror Hu)). unfold alive_of. rewrite Ecd. reflexivity.
    + apply orb_false_iff in Ecd. destruct Ecd as [Ec Ed].
      cbn [handle_all]. rewrite Ed.
      destruct (cmd_eqb (fcmd f) Alert) eqn:Ea.
      * (* Alert: the session ends *)
        assert (Ef : fcmd f = Alert) by (destruct (fcmd f); try discriminate; reflexivity).
        unfold handle. rewrite Ef.
        destruct Hinv as [[Hr _]|Hu].
        -- rewrite (Hregb st Hr).
           pose proof (close_reg st sid Ec Hr) as Hs. destruct (close st) as [st' o]. cbn [fst] in *.
           assert (Hs' : slot_of (with_dead st') sid = Resolved SClosed) by exact Hs.
           rewrite Hs'. cbn [opener_poll]. apply crun_done.
        -- rewrite (Hunregb st Hu).
           destruct (close_unreg st sid Hu) as [Hu' Ha']. destruct (close st) as [st' o]. cbn [fst] in *.
           assert (Hu'' : unreg_inv (with_dead st') sid) by exact Hu'.
           rewrite (slot_unreg _ sid Hu''). cbn [opener_poll].
           rewrite (IH _ Hok Hcl (or_intror Hu'')). rewrite (Hunregb _ Hu'').
           unfold alive_of. cbn [with_dead dead]. rewrite orb_true_r. reflexivity.
      * (* any other frame acts on the view of its own id only *)
        assert (Hna : no_alert f) by (unfold no_alert; intros E; rewrite E in Ea; discriminate).
        pose proof (handle_view c st f sid Hna) as Hv.
        destruct (handle_flags c st f Hna) as (Hc' & _ & _ & Hd').
        specialize (Hd' Hok).
        destruct (handle c st f) as [st1 o1]. cbn [fst] in *.
        assert (Hal : alive_of st1 = true) by (unfold alive_of; rewrite Hc', Hd', Ec, Ed; reflexivity).
        assert (Hal0 : alive_of st = true) by (unfold alive_of; rewrite Ec, Ed; reflexivity).
        unfold view in Hv. rewrite ?Hal0.
        destruct Hinv as [[Hr _]|Hu].
        -- (* registered *)
           destruct Hr as (s0 & Hl & Hs & Hg). rewrite Hl, Hg in Hv. rewrite Hl.
           destruct (N.eqb_spec (fsid f) sid) as [Hsid|Hsid].
           ++ unfold vstep in Hv. rewrite Hcl in Hv.
              destruct (fcmd f) eqn:Ef; try discriminate;
                try (injection Hv as Hl1 Hg1;
                     assert (Hr1 : reg_inv st1 sid) by (exists s0; auto);
                     rewrite (slot_reg _ _ Hr1); cbn [opener_poll andb negb];
                     rewrite (IH st1 Hok Hcl (or_introl (conj Hr1 Hal))), (Hregb _ Hr1), Hal, ?Hal0; reflexivity).
              ** (* Push *)
                 injection Hv as Hl1 Hg1.
                 assert (Hr1 : reg_inv st1 sid) by (exists (push_data s0 (fdata f)); auto).
                 rewrite (slot_reg _ _ Hr1). cbn [opener_poll].
                 rewrite (IH st1 Hok Hcl (or_introl (conj Hr1 Hal))), (Hregb _ Hr1), Hal. reflexivity.
              ** (* Fin: leaves the tables, the open stays pending *)
                 injection Hv as Hl1 Hg1. cbn [detached app] in Hg1.
                 assert (Hu1 : unreg_inv st1 sid).
                 { split; [exact Hl1|]. exists (drop_tx s0), []. split; [exact Hg1 | exact Hs]. }
                 rewrite (slot_unreg _ _ Hu1). cbn [opener_poll andb negb].
                 rewrite (IH st1 Hok Hcl (or_intror Hu1)), (Hunregb _ Hu1), Hal. reflexivity.
              ** (* SynAck for this id: decisive *)
                 injection Hv as Hl1 Hg1. cbn [andb].
                 unfold slot_of, obj. rewrite Hg1, Hl1. cbn [nth_error length Nat.eqb].
                 unfold resolve. rewrite Hs. cbn [synack].
                 destruct (is_nil (fdata f)); cbn [opener_poll]; apply crun_done.
           ++ assert (Hr1 : reg_inv st1 sid) by (injection Hv as Hl1 Hg1; exists s0; auto).
              rewrite (slot_reg _ _ Hr1). cbn [opener_poll].
              rewrite (IH st1 Hok Hcl (or_introl (conj Hr1 Hal))), (Hregb _ Hr1), Hal.
              destruct (fcmd f); try reflexivity; try discriminate.
        -- (* no longer registered: nothing for this id is dispatched any more *)
           pose proof Hu as (Hl & s0 & rest & Hg & Hs). rewrite Hl, Hg in Hv. rewrite Hl.
           assert (Hu1 : unreg_inv st1 sid).
           { destruct (fsid f =? sid).
             - unfold vstep in Hv. rewrite Hcl in Hv.
               destruct (fcmd f); injection Hv as Hl1 Hg1; (split; [exact Hl1 | exists s0, rest; auto]).
             - injection Hv as Hl1 Hg1. split; [exact Hl1 | exists s0, rest; auto]. }
           rewrite (slot_unreg _ _ Hu1). cbn [opener_poll].
           rewrite (IH st1 Hok Hcl (or_intror Hu1)), (Hunregb _ Hu1), Hal.
           destruct (fcmd f); try reflexivity; discriminate.
  - (* local close *)
    destruct Hinv as [[Hr Ha]|Hu].
    + rewrite Ha, (Hregb st Hr). cbn [andb].
      assert (Ec : s_closed st = false).
      { unfold alive_of in Ha. destruct (s_closed st); [discriminate | reflexivity]. }
      rewrite (close_reg st sid Ec Hr). cbn [opener_poll]. apply crun_done.
    + rewrite (Hunregb st Hu), andb_false_r.
      destruct (close_unreg st sid Hu) as [Hu' Ha'].
      rewrite (slot_unreg _ sid Hu'). cbn [opener_poll].
      rewrite (IH _ Hok Hcl (or_intror Hu')), (Hunregb _ Hu'), Ha'. reflexivity.
  - (* transport end *)
    unfold recv_eof.
    destruct Hinv as [[Hr Ha]|Hu].
    + rewrite Ha, (Hregb st Hr). cbn [andb].
      assert (Ecd : s_closed st || dead st = false).
      { unfold alive_of in Ha. destruct (s_closed st || dead st); [discriminate | reflexivity]. }
      rewrite Ecd. apply orb_false_iff in Ecd. destruct Ecd as [Ec Ed].
      pose proof (close_reg st sid Ec Hr) as Hs. destruct (close st) as [st' o]. cbn [fst] in *.
      assert (Hs' : slot_of (with_dead st') sid = Resolved SClosed) by exact Hs.
      rewrite Hs'. cbn [opener_poll]. apply crun_done.
    + rewrite (Hunregb st Hu), andb_false_r.
      destruct (s_closed st || dead st) eqn:Ecd; cbn [fst].
      * rewrite (slot_unreg _ sid Hu). cbn [opener_poll].
        rewrite (IH _ Hok Hcl (or_intror Hu)), (Hunregb _ Hu). unfold alive_of. rewrite Ecd. reflexivity.
      * destruct (close_unreg st sid Hu) as [Hu' Ha']. destruct (close st) as [st' o]. cbn [fst] in *.
        assert (Hu'' : unreg_inv (with_dead st') sid) by exact Hu'.
        rewrite (slot_unreg _ sid Hu''). cbn [opener_poll].
        rewrite (IH _ Hok Hcl (or_intror Hu'')), (Hunregb _ Hu'').
        unfold alive_of. cbn [with_dead dead]. rewrite orb_true_r. reflexivity.
  - (* a timer *)
    assert (Hp : slot_of st sid = Pending).
    { destruct Hinv as [[Hr _]|Hu]; [apply slot_reg | apply slot_unreg]; assumption. }
    rewrite Hp. cbn [opener_poll]. destruct (s =? sid); [apply crun_done|].
    apply IH; assumption.
Qed.

(* right after open_stream on a live session, for an id not used before, the hypotheses of crun_expect hold *)
Lemma open_registers st st' o sid :
  lookup (next_id st) (tbl st) = None -> only (next_id st) (gone st) = [] ->
  open st = (st', o, Some sid) ->
  sid = next_id st /\ reg_inv st' sid /\ alive_of st' = alive_of st /\ s_closed st = false /\
  o = [Send (mk Syn sid [])].
Proof.
  intros Hl0 Hg H. unfold open in H. destruct (s_closed st) eqn:Ec; [discriminate|].
  injection H as <- <- <-. split; [reflexivity|].
  pose proof (install_view_eq (next_id st) st) as Hv.
  destruct (install_fields (next_id st) st) as (_ & _ & Hc & Hd & _).
  unfold view in Hv. injection Hv as Hl Hgo. rewrite Hl0, Hg in Hgo. cbn [detached] in Hgo.
  split; [|split; [|split; [reflexivity | reflexivity]]].
  - exists fresh. cbn [tbl gone]. auto.
  - unfold alive_of. cbn [s_closed dead]. rewrite Hc, Hd. reflexivity.
Qed.

(* ---------------------------------------------------------------- server and front-end halves *)
Definition dial_wf (d : dial) : Prop :=
  match d with
  | DialFail m | DialTimeout m => m <> [] /\ lenN m <= max_payload
  | _ => True
  end.

Definition dial_payload (d : dial) : bytes :=
  match d with DialOk | DialUdp => [] | DialFail m | DialTimeout m => m end.

Lemma serve_open_spec st sid d :
  s_closed st = false -> dial_wf d ->
  serve_open st sid d =
    if 2 <=? peer_version st then [Send (mk SynAck sid (dial_payload d))] else [].
Proof.
  intros Hc Hw. unfold serve_open. destruct (2 <=? peer_version st); [|reflexivity].
  pose proof max_payload_val as Hm.
  destruct d as [|m|m|]; unfold write_ctrl; rewrite Hc; cbn [mk fdata dial_payload fst].
  - destruct (N.ltb_spec max_payload (lenN (@nil N))); [unfold lenN in *; cbn in *; lia | reflexivity].
  - destruct Hw as [_ Hl]. destruct (N.ltb_spec max_payload (lenN m)); [lia | reflexivity].
  - destruct Hw as [_ Hl]. destruct (N.ltb_spec max_payload (lenN m)); [lia | reflexivity].
  - destruct (N.ltb_spec max_payload (lenN (@nil N))); [unfold lenN in *; cbn in *; lia | reflexivity].
Qed.

(* the server reports success only after a successful dial (or for the UDP pseudo-destination, which has
   no dial), the failure text only after a failed one, and nothing to a peer below version 2 *)
Lemma success_after_dial st sid d :
  s_closed st = false -> dial_wf d ->
  (In (Send (mk SynAck sid [])) (serve_open st sid d) <-> (2 <= peer_version st /\ (d = DialOk \/ d = DialUdp))) /\
  (forall m, m <> [] -> In (Send (mk SynAck sid m)) (serve_open st sid d) <->
                        (2 <= peer_version st /\ (d = DialFail m \/ d = DialTimeout m))) /\
  (peer_version st < 2 -> serve_open st sid d = []) /\
  (forall o, In o (serve_open st sid d) -> exists m, o = Send (mk SynAck sid m)).
Proof.
  intros Hc Hw. rewrite (serve_open_spec st sid d Hc Hw).
  destruct (N.leb_spec 2 (peer_version st)) as [Hv|Hv].
  - split; [|split; [|split]].
    + split.
      * intros [E|[]]. injection E as E'. split; [exact Hv|].
        destruct d as [|m|m|]; cbn in *; auto; destruct Hw; congruence.
      * intros [_ [->| ->]]; left; reflexivity.
    + intros m Hm. split.
      * intros [E|[]]. injection E as E'. split; [exact Hv|].
        destruct d as [|m'|m'|]; cbn in *; subst; auto; congruence.
      * intros [_ [->| ->]]; left; reflexivity.
    + lia.
    + intros o [<-|[]]. eauto.
  - split; [|split; [|split]].
    + split; [intros [] | intros [H _]; lia].
    + intros m Hm. split; [intros [] | intros [H _]; lia].
    + reflexivity.
    + intros o [].
Qed.

Lemma pv_changes_only_by_settings c st f :
  peer_version (fst (handle c st f)) <> peer_version st ->
  (fcmd f = Settings /\ is_client c = false /\ 2 <= peer_version (fst (handle c st f))) \/
  (fcmd f = ServerSettings /\ is_client c = true).
Proof.
  unfold handle. destruct (fcmd f); cbn [fst]; try congruence.
  - destruct (is_client c); cbn [fst]; [congruence|].
    destruct (install_fields (fsid f) st) as (_ & H & _). congruence.
  - destruct (lookup (fsid f) (tbl st)); cbn; congruence.
  - destruct (detach (fsid f) (tbl st) (gone st)); cbn; congruence.
  - destruct (is_client c); cbn [negb andb fst]; [congruence|].
    destruct (negb (is_nil (fdata f))); cbn [fst]; [|congruence].
    destruct (_ && (max_payload <? lenN (c_scheme c))); [cbn; congruence|].
    destruct (map_get key_v (fdata f)) as [vs|]; cbn [fst]; [|congruence].
    destruct (parse_u8 vs) as [v|]; cbn [fst]; [|congruence].
    destruct (N.leb_spec 2 v); cbn [fst]; [|congruence]. cbn [with_pv peer_version]. intros _. left. auto.
  - destruct (close st) as [st' o] eqn:E. unfold close in E. destruct (s_closed st); injection E as <- _; cbn; congruence.
  - destruct (is_client c); cbn [fst]; [|congruence]. destruct (lookup (fsid f) (tbl st)); cbn; congruence.
  - destruct (is_client c); cbn [andb fst]; [|congruence]. intros _. right. auto.
Qed.

Lemma front_end_spec fe o early app :
  (In ReplyOk (front_end fe o early app) -> o = OOk) /\
  (forall x, In (ToStream x) (front_end fe o early app) -> o = OOk) /\
  (o <> OOk -> front_end fe o early app = [ReplyFail]) /\
  (o = OOk -> fe <> HttpPlain -> front_end fe o early app = ReplyOk :: map ToStream app).
Proof.
  unfold front_end. destruct o; repeat split; try congruence;
    try (intros [H|[]]; discriminate); try (intros x [H|[]]; discriminate).
  intros _ Hfe. destruct fe; congruence.
Qed.

(* ---------------------------------------------------------------- C02_stamp: ids *)
Lemma open_next st st1 o sid :
  open st = (st1, o, Some sid) ->
  sid = next_id st /\ next_id st1 = u32_of (next_id st + 1) /\ s_closed st1 = false /\ s_closed st = false.
Proof.
  unfold open. destruct (s_closed st) eqn:Ec; [discriminate|]. intros H. injection H as <- _ <-.
  cbn [next_id s_closed]. destruct (install_fields (next_id st) st) as (_ & _ & Hc & _).
  repeat split; auto. congruence.
Qed.

Lemma open_many_ids n : forall st,
  s_closed st = false ->
  snd (open_many n st) = map (fun i => u32_of (next_id st + N.of_nat i)) (seq 0 n) \/ next_id st >= 4294967296.
Proof.
  induction n as [|n IH]; intros st Hc; [left; reflexivity|].
  destruct (N.lt_ge_cases (next_id st) 4294967296) as [Hlt|Hge]; [|right; lia]. left.
  cbn [open_many]. destruct (open st) as [[st1 o] [sid|]] eqn:Eo.
  - destruct (open_next st st1 o sid Eo) as (-> & Hn & Hc1 & _).
    destruct (IH st1 Hc1) as [IH1|IH1].
    + destruct (open_many n st1) as [st2 ids]. cbn [snd] in *. rewrite IH1.
      cbn [seq map]. f_equal.
      * unfold u32_of. rewrite N.add_0_r. symmetry. apply N.mod_small. exact Hlt.
      * rewrite <- seq_shift, map_map. apply map_ext. intros i. rewrite Hn. unfold u32_of. lia.
    + rewrite Hn in IH1. unfold u32_of in IH1. lia.
  - unfold open in Eo. rewrite Hc in Eo. discriminate.
Qed.

Lemma NoDup_map_inj_on {A B} (f : A -> B) l :
  (forall x y, In x l -> In y l -> f x = f y -> x = y) -> NoDup l -> NoDup (map f l).
Proof.
  intros Hinj Hnd. induction Hnd as [|x l Hni Hnd IH]; cbn [map]; constructor.
  - intros Hin. apply in_map_iff in Hin. destruct Hin as (y & Hy & Hyl).
    assert (y = x) by (apply Hinj; [right; exact Hyl | left; reflexivity | exact Hy]). subst. auto.
  - apply IH. intros a b Ha Hb. apply Hinj; right; assumption.
Qed.

Lemma open_ids_distinct n st :
  s_closed st = false -> next_id st < 4294967296 -> N.of_nat n <= 4294967296 ->
  NoDup (snd (open_many n st)).
Proof.
  intros Hc Hlt Hn. destruct (open_many_ids n st Hc) as [H|H]; [|lia]. rewrite H.
  apply NoDup_map_inj_on; [|apply seq_NoDup].
  intros x y Hx Hy. apply in_seq in Hx, Hy. unfold u32_of. intros E. lia.
Qed.

(* ---------------------------------------------------------------- statements used by Props/C02.v *)
Lemma content c st b s fs :
  cfg_ok c -> dead st = false -> lookup b (tbl st) = Some s ->
  Forall no_alert fs -> Forall (fun f => ends c b f = false) fs ->
  exists s', lookup b (tbl (fst (handle_all c st fs))) = Some s' /\
    rd s' = rd_pushes (rd s) (pushes b fs) /\ sclosed s' = sclosed s /\
    only b (gone (fst (handle_all c st fs))) = only b (gone st).
Proof.
  intros Hok Hd Hl Hna Hne.
  destruct (handle_all_view c b fs st Hok Hna Hd) as (Hv & _).
  destruct (vrun_content c b fs s (only b (gone st)) Hne) as (s1 & Hvr & Hrd & Hsc & _).
  unfold view in Hv at 2. rewrite Hl, Hvr in Hv. unfold view in Hv. injection Hv as H1 H2.
  exists s1. auto.
Qed.

Lemma stamp sid d n st :
  Forall (fun f => fcmd f = Push /\ fsid f = sid /\ lenN (fdata f) <= max_payload) (data_frames sid d) /\
  (s_closed st = false -> next_id st < 4294967296 -> N.of_nat n <= 4294967296 ->
   NoDup (snd (open_many n st))).
Proof. split; [apply SessPipe.data_frames_ok | apply open_ids_distinct]. Qed.

Lemma fin_own_id_only c st sid d :
  wf_sess st ->
  let st' := fst (handle c st (mk Fin sid d)) in
  lookup sid (tbl st') = None /\
  (forall b, b <> sid -> lookup b (tbl st') = lookup b (tbl st) /\ only b (gone st') = only b (gone st)).
Proof.
  intros Hwf. cbv zeta.
  destruct (fin_effect c st sid d Hwf) as (_ & H1 & H2 & _ & H4 & _).
  split; [exact H1|]. intros b Hb. split; [apply H2 | apply H4]; exact Hb.
Qed.

Lemma no_second_outcome c sid es st o es1 reg alive es2 :
  snd (crun c sid (st, Done o) es) = Done o /\
  (expect sid reg alive es1 = Done o -> expect sid reg alive (es1 ++ es2) = Done o).
Proof. split; [apply crun_done | apply expect_done_stable]. Qed.
