(* SessPipe.v -- C01: a stream is a lossless, ordered, exact byte pipe.
   Sender: write_data_frame splits without loss.  Receiver: for every interleaving of transport reads
   (any fragmentation) and application reads (any capacities), what has been delivered on a stream plus what
   is still queued for it is exactly the concatenation of the PSH payloads dispatched so far. *)
From Coq Require Import List NArith ZArith Lia Bool.
From AnyTLS Require Import Bytes Cmd Generated FactsCore FactsSession Frame Reader Session BytesFacts FrameProofs
  ReaderProofs SessTable SessHandle SessRecv.
Import ListNotations.
Import Sess.
Open Scope N_scope.

(* ---------------------------------------------------------------- sender *)
Lemma concat_split_fuel k : forall d, concat (split_fuel k d) = d.
Proof.
  induction k as [|k IH]; intros d; cbn [split_fuel].
  - cbn. apply app_nil_r.
  - destruct (max_payload <? lenN d); [|cbn; apply app_nil_r].
    cbn [concat]. rewrite IH. apply takeN_dropN.
Qed.

Lemma concat_split_chunk d : concat (split_chunk d) = d.
Proof. apply concat_split_fuel. Qed.

Lemma split_fuel_fits k : forall d, (length d <= k)%nat ->
  Forall (fun p => lenN p <= max_payload) (split_fuel k d).
Proof.
  pose proof max_payload_val as Hm.
  induction k as [|k IH]; intros d Hk; cbn [split_fuel].
  - constructor; [|constructor]. destruct d; [unfold lenN; cbn; lia | cbn in Hk; lia].
  - destruct (N.ltb_spec max_payload (lenN d)) as [Hlt|Hge].
    + constructor.
      * rewrite lenN_takeN by lia. lia.
      * apply IH. unfold dropN. rewrite skipn_length. unfold lenN in Hlt. lia.
    + constructor; [exact Hge | constructor].
Qed.

Lemma split_chunk_fits d : Forall (fun p => lenN p <= max_payload) (split_chunk d).
Proof. apply split_fuel_fits. lia. Qed.

Lemma split_chunk_nonempty d : split_chunk d <> [].
Proof. unfold split_chunk. destruct (length d); cbn [split_fuel]; [discriminate|]. destruct (max_payload <? lenN d); discriminate. Qed.

Lemma pushes_data_frames b sid d :
  pushes b (data_frames sid d) = if sid =? b then split_chunk d else [].
Proof.
  unfold pushes, data_frames. induction (split_chunk d) as [|p ps IH]; cbn [map filter].
  - destruct (sid =? b); reflexivity.
  - unfold is_push_for at 1. cbn [mk fcmd fsid cmd_eqb andb].
    destruct (sid =? b) eqn:E; cbn [map]; [rewrite IH; reflexivity | exact IH].
Qed.

Lemma sent_frames_app a b : sent_frames (a ++ b) = sent_frames a ++ sent_frames b.
Proof. unfold sent_frames. apply flat_map_app. Qed.

Lemma sent_frames_map_send fs : sent_frames (map Send fs) = fs.
Proof. induction fs as [|f fs IH]; [reflexivity|]. cbn. f_equal. exact IH. Qed.

Lemma run_wops_sent st ops :
  s_closed st = false -> sent_frames (run_wops st ops) = flat_map wop_frames ops.
Proof.
  intros Hc. induction ops as [|o ops IH]; [reflexivity|].
  cbn [run_wops flat_map]. fold (run_wops st ops). rewrite sent_frames_app, IH. f_equal.
  destruct o as [sid d|f]; cbn [wop_frames].
  - unfold write_data. rewrite Hc. cbn [fst]. apply sent_frames_map_send.
  - unfold write_ctrl. rewrite Hc. destruct (max_payload <? lenN (fdata f)); reflexivity.
Qed.

Lemma concat_pushes_wops b ops :
  concat (pushes b (flat_map wop_frames ops)) = written b ops.
Proof.
  induction ops as [|o ops IH]; [reflexivity|].
  cbn [flat_map written]. fold (written b ops). rewrite pushes_app, concat_app, IH. f_equal.
  destruct o as [sid d|f]; cbn [wop_frames].
  - rewrite pushes_data_frames. destruct (sid =? b); [apply concat_split_chunk | reflexivity].
  - destruct (max_payload <? lenN (fdata f)); cbn [negb]; [rewrite andb_false_r; reflexivity|].
    rewrite andb_true_r. unfold pushes. cbn [filter]. unfold is_push_for.
    destruct (cmd_eqb (fcmd f) Push && (fsid f =? b)); cbn; [apply app_nil_r | reflexivity].
Qed.

(* every data frame a session writes can be encoded, and carries the id it was submitted under *)
Lemma data_frames_ok sid d :
  Forall (fun f => fcmd f = Push /\ fsid f = sid /\ lenN (fdata f) <= max_payload) (data_frames sid d).
Proof.
  unfold data_frames. pose proof (split_chunk_fits d) as H.
  induction H as [|p ps Hp Hps IH]; cbn [map]; constructor; auto.
Qed.

(* ---------------------------------------------------------------- padding is invisible to dispatch *)
Lemma pushes_filter_not_padding b gs : pushes b (filter not_padding gs) = pushes b gs.
Proof.
  unfold pushes. induction gs as [|g gs IH]; [reflexivity|]. cbn [filter].
  destruct (not_padding g) eqn:En.
  - cbn [filter]. destruct (is_push_for b g); cbn [map]; rewrite IH; reflexivity.
  - assert (Hp : is_push_for b g = false).
    { unfold not_padding in En. unfold is_push_for. destruct (fcmd g); cbn in *; try discriminate. reflexivity. }
    rewrite Hp. exact IH.
Qed.

Lemma forall_unfilter {A} (P : A -> Prop) (p : A -> bool) l :
  (forall x, p x = false -> P x) -> Forall P (filter p l) -> Forall P l.
Proof.
  intros Hp. induction l as [|x l IH]; intros H; [constructor|]. cbn [filter] in H.
  destruct (p x) eqn:E.
  - inversion H; subst. constructor; auto.
  - constructor; [apply Hp; exact E | apply IH; exact H].
Qed.

Lemma waste_quiet c b f : not_padding f = false -> no_alert f /\ ends c b f = false.
Proof.
  unfold not_padding, no_alert, ends. destruct (fcmd f); cbn; try discriminate.
  intros _. split; [discriminate | apply andb_false_r].
Qed.

(* ---------------------------------------------------------------- receiver: the run invariant *)
Definition caps_pos (ops : list rop) : Prop :=
  Forall (fun o => match o with ORead _ _ cap => 0 < cap | ORecv _ => True end) ops.

Definition quiet_for (c : cfg) (b : N) (fs : list frame) : Prop :=
  Forall (fun f => no_alert f /\ ends c b f = false) fs.

Lemma quiet_split c b fs : quiet_for c b fs -> Forall no_alert fs /\ Forall (fun f => ends c b f = false) fs.
Proof. intros H. split; eapply Forall_impl; try exact H; cbn; tauto. Qed.

Lemma quiet_app c b fs gs : quiet_for c b (fs ++ gs) <-> quiet_for c b fs /\ quiet_for c b gs.
Proof. apply Forall_app. Qed.

Lemma delivered_cons_hit b k d lg : delivered b k ((b, k, RData d) :: lg) = d ++ delivered b k lg.
Proof. unfold delivered. cbn [flat_map]. rewrite N.eqb_refl, Nat.eqb_refl. reflexivity. Qed.

Lemma delivered_cons_pending b k sid k' lg : delivered b k ((sid, k', RPending) :: lg) = delivered b k lg.
Proof. reflexivity. Qed.

Lemma delivered_cons_other b k sid k' res lg :
  (sid <> b \/ k' <> k) -> delivered b k ((sid, k', res) :: lg) = delivered b k lg.
Proof.
  intros H. unfold delivered. cbn [flat_map]. destruct res; try reflexivity.
  destruct (N.eqb_spec sid b) as [->|]; cbn [andb]; [|reflexivity].
  destruct (Nat.eqb_spec k' k) as [->|]; [destruct H; congruence | reflexivity].
Qed.

Lemma saw_eof_cons_other b k sid k' res lg :
  (sid <> b \/ k' <> k) -> saw_eof b k ((sid, k', res) :: lg) = saw_eof b k lg.
Proof.
  intros H. unfold saw_eof. cbn [existsb]. destruct res; try reflexivity.
  destruct (N.eqb_spec sid b) as [->|]; cbn [andb orb]; [|reflexivity].
  destruct (Nat.eqb_spec k' k) as [->|]; [destruct H; congruence | reflexivity].
Qed.

Lemma run_rel c b k0 ops : forall st carry s,
  cfg_ok c -> wf_sess st -> s_closed st = false -> dead st = false ->
  lookup b (tbl st) = Some s -> rd_open (rd s) -> length (only b (gone st)) = k0 ->
  decode1_raw carry = None ->
  quiet_for c b (fst (decode_all (carry ++ concat (recv_chunks ops)))) ->
  caps_pos ops ->
  let '(st', carry', lg) := run_rops c st carry ops in
  exists s', lookup b (tbl st') = Some s' /\ rd_open (rd s') /\
    delivered b k0 lg ++ rd_pending_bytes (rd s') =
      rd_pending_bytes (rd s) ++ concat (pushes b (fst (decode_all (carry ++ concat (recv_chunks ops))))) /\
    saw_eof b k0 lg = false /\
    s_closed st' = false /\ dead st' = false /\ wf_sess st' /\ length (only b (gone st')) = k0 /\
    sclosed s' = sclosed s.
Proof.
  induction ops as [|o ops IH]; intros st carry s Hok Hwf Hcl Hd Hl Hop Hk Hcarry Hq Hcaps.
  - cbn [run_rops recv_chunks flat_map concat]. rewrite app_nil_r, decode_all_drained by exact Hcarry.
    exists s. cbn [fst pushes filter map concat delivered flat_map saw_eof existsb]. rewrite app_nil_r. auto 10.
  - unfold caps_pos in Hcaps. apply Forall_cons_iff in Hcaps. destruct Hcaps as [Hcap Hcaps']. fold (caps_pos ops) in Hcaps'.
    destruct o as [ch|sid k cap].
    + (* a transport read *)
      cbn [run_rops recv_chunks flat_map app concat] in *. fold (recv_chunks ops) in *.
      unfold recv. rewrite Hcl, Hd. cbn [orb]. unfold feed.
      rewrite app_assoc, (decode_all_app (carry ++ ch)) in Hq |- *.
      pose proof (decode_all_rest_drained (carry ++ ch)) as Hr.
      destruct (decode_all (carry ++ ch)) as [fs1 carry1]. cbn [snd] in Hr.
      destruct (decode_all (carry1 ++ concat (recv_chunks ops))) as [gs r'] eqn:Eg. cbn [fst] in Hq |- *.
      apply quiet_app in Hq. destruct Hq as [Hq1 Hq2]. destruct (quiet_split _ _ _ Hq1) as [Hna1 Hne1].
      destruct (handle_all_view c b fs1 st Hok Hna1 Hd) as (Hv & Hd1 & Hc1 & _ & _).
      pose proof (handle_all_wf c fs1 st Hwf) as Hwf1.
      destruct (vrun_content c b fs1 s (only b (gone st)) Hne1) as (s1 & Hvr & Hrd1 & Hsc1 & _).
      unfold view in Hv at 2. rewrite Hl, Hvr in Hv.
      destruct (handle_all c st fs1) as [st1 o1]. cbn [fst] in *.
      unfold view in Hv. injection Hv as Hl1 Hg1.
      specialize (IH st1 carry1 s1 Hok Hwf1 ltac:(congruence) Hd1 Hl1
                     ltac:(rewrite Hrd1; apply rd_open_pushes; exact Hop)
                     ltac:(rewrite Hg1; exact Hk) Hr ltac:(rewrite Eg; exact Hq2) Hcaps').
      rewrite Eg in IH. cbn [fst] in IH.
      destruct (run_rops c st1 carry1 ops) as [[st2 carry2] lg].
      destruct IH as (s' & H1 & H2 & H3 & H4 & H5 & H6 & H7 & H8 & H9).
      exists s'. rewrite H3, Hrd1, rd_pending_pushes, pushes_app, concat_app, app_assoc.
      unfold rd_open in *. repeat split; try tauto; auto; congruence.
    + (* an application read on object (sid,k) *)
      cbn [run_rops recv_chunks flat_map app] in *. fold (recv_chunks ops) in *.
      destruct (N.eq_dec sid b) as [->|Hsb]; [destruct (Nat.eq_dec k k0) as [->|Hkk]|].
      * (* the live object of b *)
        unfold read. rewrite <- Hk, (obj_live st b s Hl).
        destruct (rd_read_open (rd s) cap Hop Hcap) as (r' & res & Hr & Hop' & Hres).
        rewrite Hr, (set_obj_live st b s _ Hl).
        set (st1 := with_tbl st (insert b (set_rd s r') (tbl st)) (gone st)).
        assert (Hl1 : lookup b (tbl st1) = Some (set_rd s r')) by apply lookup_insert_eq.
        specialize (IH st1 carry (set_rd s r') Hok ltac:(unfold wf_sess; apply nodup_insert; exact Hwf)
                       Hcl Hd Hl1 Hop' Hk Hcarry Hq Hcaps').
        destruct (run_rops c st1 carry ops) as [[st2 carry2] lg].
        destruct IH as (s' & H1 & H2 & H3 & H4 & H5 & H6 & H7 & H8 & H9).
        exists s'. cbn [set_rd rd sclosed] in *. rewrite Hk.
        destruct res as [d| |]; [| contradiction |].
        -- destruct Hres as [_ Hcat]. rewrite delivered_cons_hit, <- app_assoc, H3, Hcat, <- app_assoc.
           unfold rd_open in *. repeat split; try tauto; auto.
        -- destruct Hres as [He1 He2]. rewrite delivered_cons_pending, H3, He1, He2.
           unfold rd_open in *. repeat split; try tauto; auto.
      * (* an older object of b *)
        unfold read. destruct (obj st b k) as [so|] eqn:Eo.
        -- destruct (rd_read (rd so) cap) as [r' res].
           destruct (set_obj_other st b k (set_rd so r') b Hwf ltac:(right; rewrite Hk; exact Hkk))
             as (E1 & E2 & E3 & E4 & E5).
           specialize (IH _ carry s Hok E5 ltac:(congruence) ltac:(congruence) ltac:(congruence) Hop
                          ltac:(congruence) Hcarry Hq Hcaps').
           destruct (run_rops c _ carry ops) as [[st2 carry2] lg].
           rewrite delivered_cons_other, saw_eof_cons_other by (right; exact Hkk). exact IH.
        -- apply IH; assumption.
      * (* another stream *)
        unfold read. destruct (obj st sid k) as [so|] eqn:Eo.
        -- destruct (rd_read (rd so) cap) as [r' res].
           destruct (set_obj_other st sid k (set_rd so r') b Hwf ltac:(left; exact Hsb))
             as (E1 & E2 & E3 & E4 & E5).
           specialize (IH _ carry s Hok E5 ltac:(congruence) ltac:(congruence) ltac:(congruence) Hop
                          ltac:(congruence) Hcarry Hq Hcaps').
           destruct (run_rops c _ carry ops) as [[st2 carry2] lg].
           rewrite delivered_cons_other, saw_eof_cons_other by (left; exact Hsb). exact IH.
        -- apply IH; assumption.
Qed.

(* ---------------------------------------------------------------- the composed statement *)
Lemma quiet_unpad c b gs : quiet_for c b (filter not_padding gs) -> quiet_for c b gs.
Proof. apply forall_unfilter. intros f Hf. apply (waste_quiet c b f Hf). Qed.

Lemma pipe_main cR stR b s w gs ops stS wops rest :
  s_closed stS = false ->
  decode_all w = (gs, []) ->
  filter not_padding gs = sent_frames (run_wops stS wops) ->
  quiet_for cR b (sent_frames (run_wops stS wops)) ->
  cfg_ok cR -> wf_sess stR -> s_closed stR = false -> dead stR = false ->
  lookup b (tbl stR) = Some s -> rd s = rd_init ->
  concat (recv_chunks ops) ++ rest = w -> caps_pos ops ->
  let '(stR', _, lg) := run_rops cR stR [] ops in
  exists s' later, lookup b (tbl stR') = Some s' /\ rd_open (rd s') /\
    delivered b (length (only b (gone stR))) lg ++ rd_pending_bytes (rd s') ++ later = written b wops /\
    saw_eof b (length (only b (gone stR))) lg = false /\
    (rest = [] -> later = []) /\
    s_closed stR' = false /\ dead stR' = false /\ sclosed s' = sclosed s.
Proof.
  intros HcS Hdec Hpad Hquiet Hok Hwf Hcl Hd Hl Hrd Hw Hcaps.
  rewrite <- Hpad in Hquiet. apply quiet_unpad in Hquiet.
  assert (Hwr : written b wops = concat (pushes b gs)).
  { rewrite <- concat_pushes_wops, <- (run_wops_sent stS wops HcS), <- Hpad.
    rewrite pushes_filter_not_padding. reflexivity. }
  rewrite <- Hw in Hdec. rewrite decode_all_app in Hdec.
  pose proof (decode_all_rest_drained (concat (recv_chunks ops))) as Hdr.
  destruct (decode_all (concat (recv_chunks ops))) as [fs1 r1] eqn:E1. cbn [snd] in Hdr.
  destruct (decode_all (r1 ++ rest)) as [gs' r'] eqn:E2.
  injection Hdec as Hgs Hr'. subst gs r'.
  apply quiet_app in Hquiet. destruct Hquiet as [Hq1 _].
  pose proof (run_rel cR b (length (only b (gone stR))) ops stR [] s Hok Hwf Hcl Hd Hl
                ltac:(rewrite Hrd; apply rd_open_init) eq_refl eq_refl) as H.
  cbn [app] in H. rewrite E1 in H. cbn [fst] in H. specialize (H Hq1 Hcaps).
  destruct (run_rops cR stR [] ops) as [[stR' carry'] lg].
  destruct H as (s' & H1 & H2 & H3 & H4 & H5 & H6 & H7 & H8 & H9).
  exists s', (concat (pushes b gs')).
  rewrite Hrd in H3. cbn [rd_pending_bytes rd_init rbuf rq concat app] in H3.
  rewrite Hwr, pushes_app, concat_app, app_assoc, H3.
  refine (conj H1 (conj H2 (conj eq_refl (conj H4 (conj _ (conj H5 (conj H6 H9))))))).
  intros ->. rewrite app_nil_r, decode_all_drained in E2 by exact Hdr. injection E2 as <- _. reflexivity.
Qed.

(* a reader that has been answered Pending has received everything that was dispatched *)
Lemma pending_means_drained r cap r' :
  rd_open r -> 0 < cap -> rd_read r cap = (r', RPending) -> rd_pending_bytes r = [].
Proof.
  intros Hop Hcap H. destruct (rd_read_open r cap Hop Hcap) as (r2 & res & Hr & _ & Hres).
  rewrite Hr in H. injection H as _ ->. tauto.
Qed.

(* reading script on an open queue: never Eof, returns a prefix of what is pending *)
Lemma rd_read_script_open caps : forall r,
  rd_open r -> Forall (fun cap => 0 < cap) caps ->
  let '(r', got, e) := rd_read_script r caps in
  e = false /\ rd_open r' /\ got ++ rd_pending_bytes r' = rd_pending_bytes r.
Proof.
  induction caps as [|cap caps IH]; intros r Hop Hall.
  - cbn. auto.
  - inversion Hall as [|? ? Hcap Hall']; subst. cbn [rd_read_script].
    destruct (rd_read_open r cap Hop Hcap) as (r1 & res & Hr & Hop1 & Hres). rewrite Hr.
    destruct res as [d| |]; [|contradiction|].
    + specialize (IH r1 Hop1 Hall'). destruct (rd_read_script r1 caps) as [[r2 got] e].
      destruct IH as (He & Hop2 & Hcat). destruct Hres as [_ Hd].
      rewrite Hd, <- Hcat, app_assoc. auto.
    + destruct Hres as [H1 H2]. rewrite H1, H2. auto.
Qed.

(* reading script after the sender side is gone: Eof only once everything pending was returned *)
Lemma rd_read_script_closed caps : forall r,
  rd_wf r -> rclosed r = true -> Forall (fun cap => 0 < cap) caps ->
  let '(r', got, e) := rd_read_script r caps in
  got ++ rd_pending_bytes r' = rd_pending_bytes r /\ (e = true -> got = rd_pending_bytes r) /\
  rd_wf r' /\ rclosed r' = true.
Proof.
  induction caps as [|cap caps IH]; intros r Hwf Hc Hall.
  - cbn. refine (conj eq_refl (conj _ (conj Hwf Hc))). discriminate.
  - inversion Hall as [|? ? Hcap Hall']; subst. cbn [rd_read_script].
    destruct (rd_read_closed r cap Hwf Hc Hcap) as (r1 & res & Hr & Hwf1 & Hc1 & Hres). rewrite Hr.
    destruct res as [d| |]; [| |contradiction].
    + specialize (IH r1 Hwf1 Hc1 Hall'). destruct (rd_read_script r1 caps) as [[r2 got] e].
      destruct IH as (Hcat & He & Hwf2 & Hc2). destruct Hres as [_ Hd].
      refine (conj _ (conj _ (conj Hwf2 Hc2))).
      * rewrite Hd, <- app_assoc, Hcat. reflexivity.
      * intros Ht. rewrite Hd, (He Ht). reflexivity.
    + destruct Hres as [H1 H2]. rewrite H1, H2. refine (conj eq_refl (conj (fun _ => eq_refl) (conj Hwf1 Hc1))).
Qed.

(* while the stream is open the reader has seen a prefix of what was written and no Eof *)
Lemma pipe_prefix cR stR b s w gs ops stS wops rest :
  s_closed stS = false ->
  decode_all w = (gs, []) ->
  filter not_padding gs = sent_frames (run_wops stS wops) ->
  quiet_for cR b (sent_frames (run_wops stS wops)) ->
  cfg_ok cR -> wf_sess stR -> s_closed stR = false -> dead stR = false ->
  lookup b (tbl stR) = Some s -> rd s = rd_init ->
  concat (recv_chunks ops) ++ rest = w -> caps_pos ops ->
  let '(_, _, lg) := run_rops cR stR [] ops in
  (exists more, delivered b (length (only b (gone stR))) lg ++ more = written b wops) /\
  saw_eof b (length (only b (gone stR))) lg = false.
Proof.
  intros H1 H2 H3 H4 H5 H6 H7 H8 H9 H10 H11 H12.
  pose proof (pipe_main cR stR b s w gs ops stS wops rest H1 H2 H3 H4 H5 H6 H7 H8 H9 H10 H11 H12) as H.
  destruct (run_rops cR stR [] ops) as [[st' c'] lg].
  destruct H as (s' & later & _ & _ & E & Heof & _). split; [eexists; exact E | exact Heof].
Qed.

Lemma split_ok sid d :
  concat (split_chunk d) = d /\
  Forall (fun f => fcmd f = Push /\ fsid f = sid /\ lenN (fdata f) <= max_payload) (data_frames sid d).
Proof. split; [apply concat_split_chunk | apply data_frames_ok]. Qed.
