(* SessRecv.v -- the receive loop: any fragmentation of the transport bytes dispatches the same frames
   in the same order as the unfragmented byte string; reader and table facts used by the pipe theorems. *)
From Coq Require Import List NArith ZArith Lia Bool.
From AnyTLS Require Import Bytes Cmd Generated FactsCore FactsSession Frame Reader Session BytesFacts FrameProofs
  ReaderProofs SessTable SessHandle.
Import ListNotations.
Import Sess.
Open Scope N_scope.

(* ---- closed implies dead inside the receive loop (only the Alert arm closes, and it returns Err) *)
Lemma handle_dead_mono c st f : dead st = true -> dead (fst (handle c st f)) = true.
Proof.
  intros H. unfold handle.
  destruct (fcmd f); cbn [fst]; try exact H.
  - destruct (is_client c); cbn [fst]; [exact H|]. destruct (install_fields (fsid f) st) as (_ & _ & _ & Hd & _). congruence.
  - destruct (lookup (fsid f) (tbl st)); exact H.
  - destruct (detach (fsid f) (tbl st) (gone st)); exact H.
  - destruct (negb (is_client c) && negb (is_nil (fdata f))); [|exact H].
    destruct (_ && (max_payload <? lenN (c_scheme c))); [reflexivity|].
    destruct (map_get key_v (fdata f)) as [vs|]; [|exact H].
    destruct (parse_u8 vs) as [v|]; [|exact H]. destruct (2 <=? v); exact H.
  - destruct (close st). reflexivity.
  - destruct (is_client c); [|exact H]. destruct (lookup (fsid f) (tbl st)); exact H.
  - destruct (is_client c && negb (is_nil (fdata f))); [|exact H].
    destruct (map_get key_v (fdata f)) as [vs|]; [|exact H]. destruct (parse_u8 vs); exact H.
Qed.

Definition cd_inv (st : sess) : Prop := s_closed st = true -> dead st = true.

Lemma handle_cd c st f : cd_inv st -> cd_inv (fst (handle c st f)).
Proof.
  unfold cd_inv. intros H.
  destruct (cmd_eqb (fcmd f) Alert) eqn:Ea.
  - unfold handle. destruct (fcmd f); try discriminate. destruct (close st). intros _. reflexivity.
  - assert (Hna : no_alert f) by (unfold no_alert; intros E; rewrite E in Ea; discriminate).
    destruct (handle_flags c st f Hna) as (Hc & _ & _ & _). rewrite Hc. intros Hcl.
    apply handle_dead_mono. apply H. exact Hcl.
Qed.

Lemma handle_all_cd c fs : forall st, cd_inv st -> cd_inv (fst (handle_all c st fs)).
Proof.
  induction fs as [|f fs IH]; intros st H; [exact H|]. cbn [handle_all].
  destruct (dead st); [exact H|].
  pose proof (handle_cd c st f H) as H1. destruct (handle c st f) as [st1 o1]. cbn [fst] in H1.
  specialize (IH st1 H1). destruct (handle_all c st1 fs). exact IH.
Qed.

Lemma recv_all_dead c chunks : forall st carry, dead st = true -> recv_all c st carry chunks = (st, carry, []).
Proof.
  induction chunks as [|ch r IH]; intros st carry H; [reflexivity|].
  cbn [recv_all]. unfold recv. rewrite H, orb_true_r. rewrite (IH st carry H). reflexivity.
Qed.

(* ---- C03 chunking lifted to the dispatch loop *)
Lemma recv_all_spec c chunks : forall st carry,
  cd_inv st -> decode1_raw carry = None ->
  let '(st', carry', o) := recv_all c st carry chunks in
  (st', o) = handle_all c st (fst (decode_all (carry ++ concat chunks))) /\
  (dead st' = false -> carry' = snd (decode_all (carry ++ concat chunks))).
Proof.
  induction chunks as [|ch r IH]; intros st carry Hcd Hcarry.
  - cbn [recv_all concat]. rewrite app_nil_r, decode_all_drained by exact Hcarry. cbn. auto.
  - cbn [recv_all concat]. unfold recv.
    destruct (dead st) eqn:Ed.
    + rewrite orb_true_r. rewrite (recv_all_dead c r st carry Ed).
      rewrite handle_all_dead by exact Ed. split; [reflexivity | congruence].
    + destruct (s_closed st) eqn:Ecl; [rewrite (Hcd Ecl) in Ed; discriminate|]. cbn [orb].
      unfold feed. rewrite app_assoc, (decode_all_app (carry ++ ch) (concat r)).
      pose proof (decode_all_rest_drained (carry ++ ch)) as Hr.
      destruct (decode_all (carry ++ ch)) as [fs1 carry1]. cbn [snd] in Hr.
      pose proof (handle_all_cd c fs1 st Hcd) as Hcd1.
      destruct (decode_all (carry1 ++ concat r)) as [gs r'] eqn:Eg. cbn [fst snd].
      rewrite (handle_all_app c fs1 st).
      destruct (handle_all c st fs1) as [st1 o1]. cbn [fst] in Hcd1.
      specialize (IH st1 carry1 Hcd1 Hr). rewrite Eg in IH. cbn [fst snd] in IH.
      destruct (recv_all c st1 carry1 r) as [[st2 carry2] o2].
      destruct IH as [IH1 IH2]. rewrite <- IH1. split; [reflexivity | exact IH2].
Qed.

(* ---- reader facts in the form the pipe theorems use *)
Lemma rd_pending_pushes r ds : rd_pending_bytes (rd_pushes r ds) = rd_pending_bytes r ++ concat ds.
Proof.
  unfold rd_pending_bytes. destruct (rd_pushes_fields r ds) as (Hq & _ & Hb & _).
  rewrite Hq, Hb, concat_app, app_assoc. reflexivity.
Qed.

Definition rd_open (r : Reader.rd) : Prop := rclosed r = false /\ reof r = false.

Lemma rd_open_wf r : rd_open r -> rd_wf r.
Proof. intros [_ H]. unfold rd_wf. congruence. Qed.

Lemma rd_open_pushes r ds : rd_open r -> rd_open (rd_pushes r ds).
Proof. intros [H1 H2]. destruct (rd_pushes_fields r ds) as (_ & Hc & _ & He). split; congruence. Qed.

Lemma rd_open_init : rd_open rd_init.
Proof. split; reflexivity. Qed.

(* one read on an open queue: data (a non-empty piece of what is pending) or Pending, never Eof *)
Lemma rd_read_open r cap :
  rd_open r -> 0 < cap ->
  exists r' res, rd_read r cap = (r', res) /\ rd_open r' /\
    match res with
    | RData d => d <> [] /\ rd_pending_bytes r = d ++ rd_pending_bytes r'
    | RPending => rd_pending_bytes r = [] /\ rd_pending_bytes r' = []
    | REof => False
    end.
Proof.
  intros Hop Hcap. pose proof (rd_open_wf r Hop) as Hwf. destruct Hop as [Hc He].
  destruct (rd_pending_bytes r) as [|x B] eqn:EB.
  - destruct (rd_read_empty r cap Hwf EB) as (r' & Hr & Hp & Hc' & Hwf').
    rewrite Hc in Hr. exists r', RPending. split; [exact Hr|]. split; [|auto].
    split; [congruence|]. destruct (reof r') eqn:E; [|reflexivity].
    destruct (Hwf' E) as [_ Hx]. congruence.
  - assert (Hne : rd_pending_bytes r <> []) by (rewrite EB; discriminate).
    destruct (rd_read_data r cap Hwf Hcap Hne) as (r' & d & Hr & Hd & _ & Hcat & Hc' & He' & _).
    exists r', (RData d). split; [exact Hr|]. split; [split; congruence|].
    split; [exact Hd|]. rewrite <- EB. exact Hcat.
Qed.

(* after the sender side of the queue is gone: data, then Eof exactly when nothing is pending *)
Lemma rd_read_closed r cap :
  rd_wf r -> rclosed r = true -> 0 < cap ->
  exists r' res, rd_read r cap = (r', res) /\ rd_wf r' /\ rclosed r' = true /\
    match res with
    | RData d => d <> [] /\ rd_pending_bytes r = d ++ rd_pending_bytes r'
    | REof => rd_pending_bytes r = [] /\ rd_pending_bytes r' = []
    | RPending => False
    end.
Proof.
  intros Hwf Hc Hcap.
  destruct (rd_pending_bytes r) as [|x B] eqn:EB.
  - destruct (rd_read_empty r cap Hwf EB) as (r' & Hr & Hp & Hc' & Hwf').
    rewrite Hc in Hr. exists r', REof.
    refine (conj Hr (conj Hwf' (conj _ (conj eq_refl Hp)))). congruence.
  - assert (Hne : rd_pending_bytes r <> []) by (rewrite EB; discriminate).
    destruct (rd_read_data r cap Hwf Hcap Hne) as (r' & d & Hr & Hd & _ & Hcat & Hc' & He' & Hwf').
    exists r', (RData d).
    refine (conj Hr (conj Hwf' (conj _ (conj Hd _)))); [congruence | rewrite <- EB; exact Hcat].
Qed.

(* Eof is never reported while something is pending or while the queue is open *)
Lemma rd_eof_only_when_done r cap r' :
  rd_wf r -> rd_read r cap = (r', REof) -> rclosed r = true /\ rd_pending_bytes r = [].
Proof.
  intros Hwf H. unfold rd_read in H.
  destruct (reof r) eqn:Ee; cbn [andb] in H.
  - destruct (Hwf Ee) as [Hq Hc].
    destruct (rbuf r) as [|x bf] eqn:Eb; cbn [is_nil negb] in H.
    + split; [exact Hc|]. unfold rd_pending_bytes. rewrite Eb, Hq. reflexivity.
    + discriminate.
  - destruct (rbuf r) as [|x bf] eqn:Eb; cbn [is_nil negb] in H; [|discriminate].
    destruct (pop_nonempty (rq r)) as [[ch q']|] eqn:Ep; [discriminate|].
    destruct (rclosed r) eqn:Ec; [|discriminate].
    split; [reflexivity|]. unfold rd_pending_bytes. rewrite Eb. apply pop_nonempty_none in Ep. exact Ep.
Qed.

(* ---- objects *)
Lemma set_nth_for_only sid k s g : forall b,
  length (only b (set_nth_for sid k s g)) = length (only b g) /\
  (b <> sid -> only b (set_nth_for sid k s g) = only b g).
Proof.
  revert k. induction g as [|[k' v] r IH]; intros k b; [cbn; auto|].
  cbn [set_nth_for]. destruct (N.eqb_spec k' sid) as [->|Hn].
  - destruct k as [|k1].
    + destruct (N.eqb_spec sid b) as [->|Hb].
      * rewrite !only_cons_eq. cbn [length]. split; [reflexivity | congruence].
      * rewrite !only_cons_neq by exact Hb. auto.
    + destruct (IH k1 b) as [IH1 IH2].
      destruct (N.eqb_spec sid b) as [->|Hb].
      * rewrite !only_cons_eq. cbn [length]. rewrite IH1. split; [reflexivity | congruence].
      * rewrite !only_cons_neq by exact Hb. split; [exact IH1 | exact IH2].
  - destruct (IH k b) as [IH1 IH2].
    destruct (N.eqb_spec k' b) as [->|Hb].
    + rewrite !only_cons_eq. cbn [length]. rewrite IH1. split; [reflexivity|].
      intros Hbs. rewrite (IH2 Hbs). reflexivity.
    + rewrite !only_cons_neq by exact Hb. split; [exact IH1 | exact IH2].
Qed.

Lemma obj_live st sid s :
  lookup sid (tbl st) = Some s -> obj st sid (length (only sid (gone st))) = Some s.
Proof.
  intros H. unfold obj.
  assert (Hn : nth_error (only sid (gone st)) (length (only sid (gone st))) = None)
    by (apply nth_error_None; lia).
  rewrite Hn, Nat.eqb_refl. exact H.
Qed.

Lemma set_obj_live st sid s s' :
  lookup sid (tbl st) = Some s ->
  set_obj st sid (length (only sid (gone st))) s' = with_tbl st (insert sid s' (tbl st)) (gone st).
Proof.
  intros H. unfold set_obj. rewrite Nat.ltb_irrefl, H, Nat.eqb_refl. reflexivity.
Qed.

(* writing back any other object leaves the live entry of b and the number of its detached objects alone *)
Lemma set_obj_other st sid k s b :
  wf_sess st -> (sid <> b \/ k <> length (only b (gone st))) ->
  let st' := set_obj st sid k s in
  lookup b (tbl st') = lookup b (tbl st) /\
  length (only b (gone st')) = length (only b (gone st)) /\
  s_closed st' = s_closed st /\ dead st' = dead st /\ wf_sess st'.
Proof.
  intros Hwf Hne. cbv zeta. unfold set_obj.
  destruct (Nat.ltb k (length (only sid (gone st)))) eqn:Elt.
  - cbn [with_tbl tbl gone s_closed dead]. destruct (set_nth_for_only sid k s (gone st) b) as [H1 _].
    repeat split; auto.
  - destruct (lookup sid (tbl st)) as [s0|] eqn:El; [|repeat split; auto].
    destruct (Nat.eqb k (length (only sid (gone st)))) eqn:Eeq; [|repeat split; auto].
    apply Nat.eqb_eq in Eeq. cbn [with_tbl tbl gone s_closed dead].
    assert (Hsb : sid <> b) by (destruct Hne as [H|H]; [exact H | intros ->; apply H; exact Eeq]).
    rewrite lookup_insert_neq by exact Hsb. repeat split; auto.
    unfold wf_sess. cbn [tbl]. apply nodup_insert. exact Hwf.
Qed.
