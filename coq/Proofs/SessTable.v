(* SessTable.v -- association-list facts for the stream table of Model/Session.v,
   and the per-stream *view* (live entry + detached objects of one id). *)
From Coq Require Import List NArith ZArith Lia Bool.
From AnyTLS Require Import Bytes Cmd Generated Frame Reader Session BytesFacts.
Import ListNotations.
Import Sess.
Open Scope N_scope.

Section Assoc.
  Context {A : Type}.
  Implicit Types (l : list (N * A)).

  Lemma lookup_remove_eq k l : lookup k (remove k l) = None.
  Proof.
    induction l as [|[k' v] r IH]; [reflexivity|]. cbn [remove].
    destruct (N.eqb_spec k' k) as [->|Hn]; [exact IH|].
    cbn [lookup]. destruct (N.eqb_spec k' k); [congruence | exact IH].
  Qed.

  Lemma lookup_remove_neq k k' l : k <> k' -> lookup k' (remove k l) = lookup k' l.
  Proof.
    intros Hn. induction l as [|[k0 v] r IH]; [reflexivity|]. cbn [remove lookup].
    destruct (N.eqb_spec k0 k) as [->|H0].
    - destruct (N.eqb_spec k k'); [congruence | exact IH].
    - cbn [lookup]. destruct (N.eqb_spec k0 k'); [reflexivity | exact IH].
  Qed.

  Lemma lookup_insert_eq k v l : lookup k (insert k v l) = Some v.
  Proof. unfold insert. cbn [lookup]. rewrite N.eqb_refl. reflexivity. Qed.

  Lemma lookup_insert_neq k k' v l : k <> k' -> lookup k' (insert k v l) = lookup k' l.
  Proof.
    intros Hn. unfold insert. cbn [lookup].
    destruct (N.eqb_spec k k'); [congruence|]. apply lookup_remove_neq. exact Hn.
  Qed.

  Lemma lookup_none_remove k l : lookup k l = None -> remove k l = l.
  Proof.
    induction l as [|[k' v] r IH]; [reflexivity|]. cbn [lookup remove].
    destruct (N.eqb_spec k' k); [discriminate|]. intros H. rewrite (IH H). reflexivity.
  Qed.

  Lemma in_keys_remove k k' l : In k' (keys (remove k l)) -> In k' (keys l) /\ k' <> k.
  Proof.
    induction l as [|[k0 v] r IH]; cbn [remove keys map]; [tauto|].
    destruct (N.eqb_spec k0 k) as [->|H0].
    - intros H. destruct (IH H). split; [right; assumption | assumption].
    - cbn [keys map fst]. intros [<-|H]; [split; [left; reflexivity | exact H0]|].
      destruct (IH H). split; [right; assumption | assumption].
  Qed.

  Lemma nodup_remove k l : NoDup (keys l) -> NoDup (keys (remove k l)).
  Proof.
    induction l as [|[k0 v] r IH]; cbn [remove keys map]; [auto|].
    intros H. inversion H as [|? ? Hni Hnd]; subst.
    destruct (N.eqb_spec k0 k); [apply IH; exact Hnd|].
    cbn [keys map fst]. constructor; [|apply IH; exact Hnd].
    intros Hin. apply in_keys_remove in Hin. destruct Hin as [Hin _]. apply Hni. exact Hin.
  Qed.

  Lemma nodup_insert k v l : NoDup (keys l) -> NoDup (keys (insert k v l)).
  Proof.
    intros H. unfold insert. cbn [keys map fst]. constructor; [|apply nodup_remove; exact H].
    intros Hin. apply in_keys_remove in Hin. destruct Hin as [_ Hne]. congruence.
  Qed.

  Lemma lookup_in_keys k l v : lookup k l = Some v -> In k (keys l).
  Proof.
    induction l as [|[k0 v0] r IH]; cbn [lookup keys map fst]; [discriminate|].
    destruct (N.eqb_spec k0 k); [intros _; left; assumption | intros H; right; apply IH; exact H].
  Qed.

  Lemma lookup_not_in_keys k l : ~ In k (keys l) -> lookup k l = None.
  Proof.
    induction l as [|[k0 v0] r IH]; cbn [lookup keys map fst]; [reflexivity|].
    intros H. destruct (N.eqb_spec k0 k); [exfalso; apply H; left; assumption|].
    apply IH. intros Hin. apply H. right. exact Hin.
  Qed.

  Lemma length_remove_present k l v :
    NoDup (keys l) -> lookup k l = Some v -> S (length (remove k l)) = length l.
  Proof.
    induction l as [|[k0 v0] r IH]; cbn [lookup remove keys map fst length]; [discriminate|].
    intros Hnd H. inversion Hnd as [|? ? Hni Hnd']; subst.
    destruct (N.eqb_spec k0 k) as [->|Hne].
    - rewrite lookup_none_remove; [reflexivity|]. apply lookup_not_in_keys. exact Hni.
    - cbn [length]. rewrite (IH Hnd' H). reflexivity.
  Qed.

  Lemma only_app k l1 l2 : only k (l1 ++ l2) = only k l1 ++ only k l2.
  Proof. unfold only. rewrite filter_app, map_app. reflexivity. Qed.

  Lemma only_cons_eq k v l : only k ((k, v) :: l) = v :: only k l.
  Proof. unfold only. cbn [filter fst]. rewrite N.eqb_refl. reflexivity. Qed.

  Lemma only_cons_neq k k' v l : k' <> k -> only k ((k', v) :: l) = only k l.
  Proof. intros H. unfold only. cbn [filter fst]. destruct (N.eqb_spec k' k); [congruence | reflexivity]. Qed.

  Lemma only_nil k : only k (@nil (N * A)) = [].
  Proof. reflexivity. Qed.
End Assoc.

(* ---------------------------------------------------------------- the view of one stream id *)
Definition view (b : N) (st : sess) : option stream * list stream :=
  (lookup b (tbl st), only b (gone st)).

Definition detached (cur : option stream) (old : list stream) : list stream :=
  match cur with Some s => old ++ [drop_tx s] | None => old end.

Lemma detach_view_eq sid t g :
  let '(t', g') := detach sid t g in
  lookup sid t' = None /\ only sid g' = detached (lookup sid t) (only sid g).
Proof.
  unfold detach. destruct (lookup sid t) as [s|] eqn:E.
  - split; [apply lookup_remove_eq|]. rewrite only_app, only_cons_eq. reflexivity.
  - split; [exact E | reflexivity].
Qed.

Lemma detach_view_neq sid b t g :
  sid <> b ->
  let '(t', g') := detach sid t g in
  lookup b t' = lookup b t /\ only b g' = only b g.
Proof.
  intros Hn. unfold detach. destruct (lookup sid t) as [s|] eqn:E.
  - split; [apply lookup_remove_neq; exact Hn|].
    rewrite only_app, only_cons_neq by exact Hn. cbn. apply app_nil_r.
  - split; reflexivity.
Qed.

Lemma detach_nodup sid t g :
  NoDup (keys t) -> NoDup (keys (fst (detach sid t g))).
Proof.
  intros H. unfold detach. destruct (lookup sid t); cbn [fst]; [apply nodup_remove; exact H | exact H].
Qed.

Lemma detach_length sid t g :
  NoDup (keys t) ->
  length (fst (detach sid t g)) = match lookup sid t with Some _ => pred (length t) | None => length t end.
Proof.
  intros H. unfold detach. destruct (lookup sid t) as [s|] eqn:E; cbn [fst]; [|reflexivity].
  rewrite <- (length_remove_present sid t s H E). reflexivity.
Qed.
