(* SocksProofs.v -- lemmas behind C16 (SOCKS5 front-end). *)
From Coq Require Import List NArith ZArith Lia Bool.
From AnyTLS Require Import Bytes Reader ReaderProg Generated FactsCore FactsParsers Dest Socks5 BytesFacts ReaderProofs DestProofs.
Import ListNotations.
Open Scope N_scope.
Ltac Zify.zify_post_hook ::= Z.to_euclidean_division_equations.

Lemma socks_ver_5 : socks_ver = 5.
Proof. reflexivity. Qed.

(* ---- method negotiation ---- *)
Lemma offers_noauth_iff ms : offers_noauth ms = true <-> In 0 ms.
Proof.
  unfold offers_noauth. rewrite existsb_exists. split.
  - intros (m & Hin & Hm). apply N.eqb_eq in Hm. change socks_auth_no_authentication with 0 in Hm. subst. exact Hin.
  - intros Hin. exists 0. split; [exact Hin | reflexivity].
Qed.

Lemma method_reply_cases ms :
  (In 0 ms /\ method_reply ms = [5; 0]) \/ (~ In 0 ms /\ method_reply ms = [5; 255]).
Proof.
  unfold method_reply. destruct (offers_noauth ms) eqn:E.
  - left. split; [apply offers_noauth_iff; exact E | reflexivity].
  - right. split; [|reflexivity]. intros Hin. apply offers_noauth_iff in Hin. congruence.
Qed.

Lemma greeting_ok ms rest :
  lenN ms <= 255 -> run_bytes greeting_prog ([5; lenN ms] ++ ms ++ rest) = Accept ms rest.
Proof.
  intros Hl. unfold greeting_prog. rewrite run_exact_app by reflexivity.
  unfold byte_at. cbn [nth]. change (5 =? socks_ver) with true. cbv iota.
  rewrite run_exact_app by reflexivity. reflexivity.
Qed.

Lemma greeting_bad_version v n rest : v <> 5 -> run_bytes greeting_prog (v :: n :: rest) = Reject E_VER.
Proof.
  intros Hv. unfold greeting_prog. change (v :: n :: rest) with ([v; n] ++ rest).
  rewrite run_exact_app by reflexivity. unfold byte_at. cbn [nth]. rewrite socks_ver_5.
  destruct (N.eqb_spec v 5); [contradiction | reflexivity].
Qed.

Section Session.
Variable open_ok : dest -> N -> bool.

(* the selection message is [5;0] exactly when 'no authentication' was offered; otherwise [5;255] and
   the connection ends; before the greeting is complete nothing is written *)
Lemma session_method b ms r :
  run_bytes greeting_prog b = Accept ms r ->
  (In 0 ms -> exists tl, socks_session open_ok b = SWrite [5; 0] :: tl) /\
  (~ In 0 ms -> socks_session open_ok b = [SWrite [5; 255]; SEnd]).
Proof.
  intros Hg. unfold socks_session. rewrite Hg.
  destruct (method_reply_cases ms) as [[Hin Hr]|[Hn Hr]]; split; intros H; try contradiction.
  - pose proof (proj2 (offers_noauth_iff ms) Hin) as Ho. rewrite Ho, Hr. eexists. reflexivity.
  - destruct (offers_noauth ms) eqn:Ho; [apply offers_noauth_iff in Ho; contradiction|]. rewrite Hr. reflexivity.
Qed.

Lemma session_no_greeting b :
  (run_bytes greeting_prog b = NeedMore -> socks_session open_ok b = []) /\
  (forall e, run_bytes greeting_prog b = Reject e -> socks_session open_ok b = [SEnd]).
Proof. unfold socks_session. split; [intros -> | intros e ->]; reflexivity. Qed.

(* 'no authentication' is selected only if offered *)
Lemma session_selects_only_offered b tl :
  socks_session open_ok b = SWrite [5; 0] :: tl ->
  exists ms r, run_bytes greeting_prog b = Accept ms r /\ In 0 ms.
Proof.
  unfold socks_session. destruct (run_bytes greeting_prog b) as [|e|ms r] eqn:E; try discriminate.
  intros H. exists ms, r. split; [reflexivity|].
  destruct (method_reply_cases ms) as [[Hin Hr]|[Hn Hr]]; [exact Hin|].
  destruct (offers_noauth ms) eqn:Ho; [apply offers_noauth_iff in Ho; contradiction|].
  rewrite Hr in H. discriminate.
Qed.

(* ---- request ---- *)
Lemma socks_addr_k_ok {A} (k : dest -> prog A) d r :
  wf_dest d -> run_bytes (socks_addr_k (atyp_of d) k) (addr_wire d ++ r) = run_bytes (k d) r.
Proof.
  destruct d as [a|a|n]; cbn [wf_dest atyp_of addr_wire]; intros Hw; unfold socks_addr_k.
  - change (socks_atyp_ipv4 =? socks_atyp_ipv4) with true. cbv iota.
    apply (run_exact_app 4 E_EOF (fun a => k (DV4 a))). exact Hw.
  - change (socks_atyp_ipv6 =? socks_atyp_ipv4) with false. change (socks_atyp_ipv6 =? socks_atyp_domain) with false.
    change (socks_atyp_ipv6 =? socks_atyp_ipv6) with true. cbv iota.
    apply (run_exact_app 16 E_EOF (fun a => k (DV6 a))). exact Hw.
  - change (socks_atyp_domain =? socks_atyp_ipv4) with false. change (socks_atyp_domain =? socks_atyp_domain) with true.
    cbv iota. destruct Hw as [Hl Hu]. cbn [app]. apply (name_k_ok (fun d => k (DName d))); assumption.
Qed.

Lemma request_roundtrip rsv q rest :
  wf_dest (q_dest q) -> q_port q < 65536 ->
  run_bytes request_prog (request_wire rsv q ++ rest) = Accept q rest.
Proof.
  intros Hw Hp. unfold request_prog, request_wire.
  change ((socks_ver :: q_cmd q :: rsv :: atyp_of (q_dest q) :: addr_wire (q_dest q) ++ be16 (q_port q)) ++ rest)
    with ([socks_ver; q_cmd q; rsv; atyp_of (q_dest q)] ++ (addr_wire (q_dest q) ++ be16 (q_port q)) ++ rest).
  rewrite run_exact_app by reflexivity. unfold byte_at. cbn [nth]. rewrite N.eqb_refl.
  rewrite <- app_assoc, socks_addr_k_ok by exact Hw.
  rewrite port_k_ok by exact Hp. destruct q. reflexivity.
Qed.

(* ---- CONNECT only, reply codes ---- *)
Lemma after_greeting_cases r :
  match run_bytes request_prog r with
  | NeedMore => socks_after_greeting open_ok r = []
  | Reject _ => socks_after_greeting open_ok r = [SEnd]
  | Accept q r2 =>
      (q_cmd q = 1 /\ open_ok (q_dest q) (q_port q) = true /\
         socks_after_greeting open_ok r = [SOpen (q_dest q) (q_port q); SWrite (reply_bytes 0); STunnel r2]) \/
      (q_cmd q = 1 /\ open_ok (q_dest q) (q_port q) = false /\
         socks_after_greeting open_ok r = [SOpen (q_dest q) (q_port q); SWrite (reply_bytes 1); SEnd]) \/
      (q_cmd q <> 1 /\ socks_after_greeting open_ok r = [SWrite (reply_bytes 7); SEnd])
  end.
Proof.
  unfold socks_after_greeting. destruct (run_bytes request_prog r) as [|e|q r2]; try reflexivity.
  change socks_cmd_connect with 1. destruct (N.eqb_spec (q_cmd q) 1) as [Hc|Hc].
  - destruct (open_ok (q_dest q) (q_port q)); [left | right; left]; auto.
  - right; right. auto.
Qed.

Lemma session_cases b :
  match run_bytes greeting_prog b with
  | NeedMore => socks_session open_ok b = []
  | Reject _ => socks_session open_ok b = [SEnd]
  | Accept ms r =>
      (In 0 ms /\ socks_session open_ok b = SWrite [5; 0] :: socks_after_greeting open_ok r) \/
      (~ In 0 ms /\ socks_session open_ok b = [SWrite [5; 255]; SEnd])
  end.
Proof.
  unfold socks_session. destruct (run_bytes greeting_prog b) as [|e|ms r]; try reflexivity.
  destruct (method_reply_cases ms) as [[Hin Hr]|[Hn Hr]].
  - left. rewrite (proj2 (offers_noauth_iff ms) Hin), Hr. auto.
  - right. destruct (offers_noauth ms) eqn:Ho; [apply offers_noauth_iff in Ho; contradiction|]. rewrite Hr. auto.
Qed.

(* a tunnel is opened only for CONNECT, and only for the (addr, port) of the request *)
Lemma session_connect_only b d p :
  In (SOpen d p) (socks_session open_ok b) ->
  exists ms r q r2, run_bytes greeting_prog b = Accept ms r /\ In 0 ms /\
    run_bytes request_prog r = Accept q r2 /\ q_cmd q = 1 /\ d = q_dest q /\ p = q_port q.
Proof.
  intros Hin. pose proof (session_cases b) as Hs.
  destruct (run_bytes greeting_prog b) as [|e|ms r] eqn:Eg.
  - rewrite Hs in Hin. contradiction.
  - rewrite Hs in Hin. destruct Hin as [Hx|[]]; discriminate.
  - destruct Hs as [[H0 Hs]|[Hn Hs]]; rewrite Hs in Hin.
    + destruct Hin as [Hx|Hin]; [discriminate|].
      pose proof (after_greeting_cases r) as Ha.
      destruct (run_bytes request_prog r) as [|e|q r2] eqn:Er.
      * rewrite Ha in Hin. contradiction.
      * rewrite Ha in Hin. destruct Hin as [Hx|[]]; discriminate.
      * exists ms, r, q, r2.
        destruct Ha as [(Hc & Ho & Ha)|[(Hc & Ho & Ha)|(Hc & Ha)]]; rewrite Ha in Hin.
        -- destruct Hin as [Hx|[Hx|[Hx|[]]]]; try discriminate. inversion Hx; subst. auto 10.
        -- destruct Hin as [Hx|[Hx|[Hx|[]]]]; try discriminate. inversion Hx; subst. auto 10.
        -- destruct Hin as [Hx|[Hx|[]]]; discriminate.
    + destruct Hin as [Hx|[Hx|[]]]; discriminate.
Qed.

(* a non-CONNECT request is answered with 'command not supported' and the connection ends:
   no tunnel, no forwarding *)
Lemma session_other_command b ms r q r2 :
  run_bytes greeting_prog b = Accept ms r -> In 0 ms ->
  run_bytes request_prog r = Accept q r2 -> q_cmd q <> 1 ->
  socks_session open_ok b = [SWrite [5; 0]; SWrite (reply_bytes 7); SEnd].
Proof.
  intros Hg H0 Hr Hc. pose proof (session_cases b) as Hs. rewrite Hg in Hs.
  destruct Hs as [[_ Hs]|[Hn _]]; [|contradiction]. rewrite Hs.
  pose proof (after_greeting_cases r) as Ha. rewrite Hr in Ha.
  destruct Ha as [(Hc' & _)|[(Hc' & _)|(_ & Ha)]]; try contradiction. rewrite Ha. reflexivity.
Qed.

(* REP = 0 is written only after the open for exactly the requested destination succeeded;
   every other reply carries a non-zero code; forwarding happens only after REP = 0 *)
Lemma session_reply b w :
  In (SWrite w) (socks_session open_ok b) -> lenN w = 10 ->
  (reply_rep w = 0 <->
   exists ms r q r2, run_bytes greeting_prog b = Accept ms r /\ run_bytes request_prog r = Accept q r2 /\
     q_cmd q = 1 /\ open_ok (q_dest q) (q_port q) = true /\
     socks_session open_ok b = [SWrite [5; 0]; SOpen (q_dest q) (q_port q); SWrite (reply_bytes 0); STunnel r2]).
Proof.
  intros Hin Hl. pose proof (session_cases b) as Hs.
  destruct (run_bytes greeting_prog b) as [|e|ms r] eqn:Eg.
  - rewrite Hs in Hin. contradiction.
  - rewrite Hs in Hin. destruct Hin as [Hx|[]]; discriminate.
  - destruct Hs as [[H0 Hs]|[Hn Hs]]; rewrite Hs in Hin |- *.
    + destruct Hin as [Hx|Hin]; [inversion Hx; subst; discriminate|].
      pose proof (after_greeting_cases r) as Ha.
      destruct (run_bytes request_prog r) as [|e|q r2] eqn:Er.
      * rewrite Ha in Hin. contradiction.
      * rewrite Ha in Hin. destruct Hin as [Hx|[]]; discriminate.
      * destruct Ha as [(Hc & Ho & Ha)|[(Hc & Ho & Ha)|(Hc & Ha)]]; rewrite Ha in Hin |- *.
        -- destruct Hin as [Hx|[Hx|[Hx|[]]]]; try discriminate. inversion Hx; subst.
           split; [|reflexivity]. intros _. exists ms, r, q, r2. auto 10.
        -- destruct Hin as [Hx|[Hx|[Hx|[]]]]; try discriminate. inversion Hx; subst.
           split; [discriminate|]. intros (ms' & r' & q' & r2' & Hg' & Hr' & _ & Ho' & _).
           inversion Hg'; subst. rewrite Er in Hr'. inversion Hr'; subst. congruence.
        -- destruct Hin as [Hx|[Hx|[]]]; try discriminate. inversion Hx; subst.
           split; [discriminate|]. intros (ms' & r' & q' & r2' & Hg' & Hr' & Hc' & _).
           inversion Hg'; subst. rewrite Er in Hr'. inversion Hr'; subst. contradiction.
    + destruct Hin as [Hx|[Hx|[]]]; try discriminate. inversion Hx; subst. discriminate.
Qed.

Lemma session_tunnel_after_success b f :
  In (STunnel f) (socks_session open_ok b) ->
  exists d p, socks_session open_ok b = [SWrite [5; 0]; SOpen d p; SWrite (reply_bytes 0); STunnel f] /\
              open_ok d p = true.
Proof.
  intros Hin. pose proof (session_cases b) as Hs.
  destruct (run_bytes greeting_prog b) as [|e|ms r] eqn:Eg.
  - rewrite Hs in Hin. contradiction.
  - rewrite Hs in Hin. destruct Hin as [Hx|[]]; discriminate.
  - destruct Hs as [[H0 Hs]|[Hn Hs]]; rewrite Hs in Hin |- *.
    + destruct Hin as [Hx|Hin]; [discriminate|].
      pose proof (after_greeting_cases r) as Ha.
      destruct (run_bytes request_prog r) as [|e|q r2] eqn:Er.
      * rewrite Ha in Hin. contradiction.
      * rewrite Ha in Hin. destruct Hin as [Hx|[]]; discriminate.
      * destruct Ha as [(Hc & Ho & Ha)|[(Hc & Ho & Ha)|(Hc & Ha)]]; rewrite Ha in Hin |- *.
        -- destruct Hin as [Hx|[Hx|[Hx|[]]]]; try discriminate. inversion Hx; subst.
           exists (q_dest q), (q_port q). auto.
        -- destruct Hin as [Hx|[Hx|[Hx|[]]]]; discriminate.
        -- destruct Hin as [Hx|[Hx|[]]]; discriminate.
    + destruct Hin as [Hx|[Hx|[]]]; discriminate.
Qed.

(* ---- prefix stability / fragmentation ---- *)
Lemma after_greeting_ended_stable r m :
  In SEnd (socks_after_greeting open_ok r) ->
  socks_after_greeting open_ok (r ++ m) = socks_after_greeting open_ok r.
Proof.
  unfold socks_after_greeting. destruct (run_bytes request_prog r) as [|e|q r2] eqn:E.
  - intros [].
  - intros _. rewrite (run_bytes_app_reject _ _ m _ E). reflexivity.
  - rewrite (run_bytes_app_accept _ _ m _ _ E).
    destruct (q_cmd q =? socks_cmd_connect); [|reflexivity].
    destruct (open_ok (q_dest q) (q_port q)); [|reflexivity].
    intros Hin. destruct Hin as [Hx|[Hx|[Hx|[]]]]; discriminate.
Qed.

(* once the connection has ended, later bytes change nothing *)
Lemma session_ended_stable b m :
  In SEnd (socks_session open_ok b) -> socks_session open_ok (b ++ m) = socks_session open_ok b.
Proof.
  unfold socks_session. destruct (run_bytes greeting_prog b) as [|e|ms r] eqn:E.
  - intros [].
  - intros _. rewrite (run_bytes_app_reject _ _ m _ E). reflexivity.
  - rewrite (run_bytes_app_accept _ _ m _ _ E). destruct (offers_noauth ms); [|reflexivity].
    intros [Hx|Hin]; [discriminate|]. rewrite (after_greeting_ended_stable r m Hin). reflexivity.
Qed.

(* once the tunnel is up, later bytes are forwarded, in order, and nothing else changes *)
Lemma session_tunnel_stable b m pre f :
  socks_session open_ok b = pre ++ [STunnel f] ->
  socks_session open_ok (b ++ m) = pre ++ [STunnel (f ++ m)].
Proof.
  intros Hs. assert (Hin : In (STunnel f) (socks_session open_ok b)) by (rewrite Hs; apply in_or_app; right; left; reflexivity).
  revert Hs Hin. unfold socks_session, socks_after_greeting.
  destruct (run_bytes greeting_prog b) as [|e|ms r] eqn:E; try (intros _ []; fail).
  - intros _ [Hx|[]]; discriminate.
  - rewrite (run_bytes_app_accept _ _ m _ _ E). destruct (offers_noauth ms).
    + destruct (run_bytes request_prog r) as [|e|q r2] eqn:Er.
      * intros _ [Hx|[]]; discriminate.
      * intros _ [Hx|[Hx|[]]]; discriminate.
      * rewrite (run_bytes_app_accept _ _ m _ _ Er).
        destruct (q_cmd q =? socks_cmd_connect).
        -- destruct (open_ok (q_dest q) (q_port q)).
           ++ intros Hs _.
              change (SWrite (method_reply ms) :: SOpen (q_dest q) (q_port q) :: [SWrite (reply_bytes socks_reply_succeeded); STunnel r2])
                with ([SWrite (method_reply ms); SOpen (q_dest q) (q_port q); SWrite (reply_bytes socks_reply_succeeded)] ++ [STunnel r2]) in Hs.
              apply app_inj_tail in Hs. destruct Hs as [<- Hx]. inversion Hx; subst. reflexivity.
           ++ intros _ [Hx|[Hx|[Hx|[Hx|[]]]]]; discriminate.
        -- intros _ [Hx|[Hx|[Hx|[]]]]; discriminate.
    + intros _ [Hx|[Hx|[]]]; discriminate.
Qed.

(* the session over any fragmentation of the client's byte stream *)
Lemma request_exact_only : exact_only E_EOF request_prog.
Proof.
  unfold request_prog. constructor. intros h. destruct (byte_at 0 h =? socks_ver); [|constructor].
  unfold socks_addr_k.
  destruct (byte_at 3 h =? socks_atyp_ipv4); [constructor; intros; unfold port_k; constructor; intros; constructor|].
  destruct (byte_at 3 h =? socks_atyp_domain).
  { unfold name_k. constructor. intros l. destruct ((byte_at 0 l =? 0) || (255 <? byte_at 0 l)); [constructor|].
    constructor. intros d. destruct (utf8_valid d); [|constructor]. unfold port_k. constructor. intros. constructor. }
  destruct (byte_at 3 h =? socks_atyp_ipv6); [constructor; intros; unfold port_k; constructor; intros; constructor|].
  constructor.
Qed.

Lemma greeting_exact_only : exact_only E_EOF greeting_prog.
Proof.
  unfold greeting_prog. constructor. intros h. destruct (byte_at 0 h =? socks_ver); [|constructor].
  constructor. intros ms. constructor.
Qed.

Lemma after_greeting_rd_eq st :
  rd_wf st ->
  socks_after_greeting_rd open_ok st =
    if rclosed st then socks_after_greeting_eof open_ok (rd_pending_bytes st)
    else socks_after_greeting open_ok (rd_pending_bytes st).
Proof.
  intros Hwf. unfold socks_after_greeting_rd, socks_after_greeting_eof, socks_after_greeting.
  destruct (run_bytes request_prog (rd_pending_bytes st)) as [|e|q r2] eqn:E.
  - destruct (run_rd_needmore request_prog st E_EOF Hwf request_exact_only E) as (st' & ->).
    destruct (rclosed st); reflexivity.
  - destruct (run_rd_reject request_prog st e Hwf E) as (st' & ->). destruct (rclosed st); reflexivity.
  - destruct (run_rd_accept request_prog st q r2 Hwf E) as (st' & -> & Hp & _). rewrite Hp.
    destruct (rclosed st); reflexivity.
Qed.

Lemma session_rd_eq chunks closed :
  socks_session_rd open_ok chunks closed =
    if closed then socks_session_eof open_ok (concat chunks) else socks_session open_ok (concat chunks).
Proof.
  unfold socks_session_rd, socks_session_eof, socks_session.
  pose proof (rd_wf_of_chunks chunks closed) as Hwf.
  rewrite <- (rd_pending_of_chunks chunks closed).
  destruct (run_bytes greeting_prog (rd_pending_bytes (rd_of_chunks chunks closed))) as [|e|ms r] eqn:E.
  - destruct (run_rd_needmore greeting_prog _ E_EOF Hwf greeting_exact_only E) as (st' & ->).
    cbn [rclosed rd_of_chunks]. destruct closed; reflexivity.
  - destruct (run_rd_reject greeting_prog _ e Hwf E) as (st' & ->). destruct closed; reflexivity.
  - destruct (run_rd_accept greeting_prog _ ms r Hwf E) as (st' & -> & Hp & Hc & Hwf').
    rewrite (after_greeting_rd_eq st' Hwf'), Hp, Hc. cbn [rclosed rd_of_chunks].
    destruct closed; reflexivity.
Qed.

End Session.
