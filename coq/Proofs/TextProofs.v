(* TextProofs.v -- facts about the text functions of Model/Text.v used by the scheme language *)
From Coq Require Import List NArith ZArith Lia Bool.
From AnyTLS Require Import Bytes Text.
Import ListNotations.
Open Scope N_scope.

Lemma parse_u32_bound s n : parse_u32 s = Some n -> n < 4294967296.
Proof.
  unfold parse_u32. destruct (parse_nat_digits _) as [v|]; [|discriminate].
  destruct (Z.leb_spec v u32_max) as [Hv|Hv]; [|discriminate]. intros E; inversion E; subst. unfold u32_max in *. lia.
Qed.

Lemma parse_i64_bound s z : parse_i64 s = Some z -> (i64_min <= z <= i64_max)%Z.
Proof.
  unfold parse_i64.
  destruct (match s with 45 :: t => (true, t) | 43 :: t => (false, t) | _ => (false, s) end) as [neg body].
  destruct (parse_nat_digits body) as [v|]; [|discriminate].
  destruct ((i64_min <=? (if neg then (- v)%Z else v))%Z && ((if neg then (- v)%Z else v) <=? i64_max)%Z) eqn:E; [|discriminate].
  intros H; inversion H; subst. apply andb_true_iff in E. destruct E as [E1 E2].
  apply Z.leb_le in E1. apply Z.leb_le in E2. lia.
Qed.

Lemma parse_digits_nonneg s : forall acc v, (0 <= acc)%Z -> parse_digits acc s = Some v -> (acc <= v)%Z.
Proof.
  induction s as [|c s IH]; intros acc v Ha H; cbn in H.
  - inversion H; lia.
  - unfold digit_val in H. destruct ((48 <=? c) && (c <=? 57)) eqn:E; [|discriminate].
    apply IH in H; lia.
Qed.

(* an unsigned parser never accepts a minus sign, an empty string or a lone sign *)
Lemma parse_u32_rejects : parse_u32 [] = None /\ parse_u32 [43] = None /\ forall t, parse_u32 (45 :: t) = None.
Proof. repeat split. Qed.

Lemma parse_i64_rejects : parse_i64 [] = None /\ parse_i64 [43] = None /\ parse_i64 [45] = None.
Proof. repeat split. Qed.

(* split_once cuts at the first occurrence *)
Lemma split_once_spec c s a b :
  split_once c s = Some (a, b) -> s = a ++ c :: b /\ ~ In c a.
Proof.
  revert a b. induction s as [|x s IH]; intros a b H; cbn in H; [discriminate|].
  destruct (N.eqb_spec x c) as [->|Hne].
  - inversion H; subst. split; [reflexivity | intros []].
  - destruct (split_once c s) as [[a' b']|]; [|discriminate]. inversion H; subst.
    destruct (IH a' b eq_refl) as [-> Hn]. split; [reflexivity|]. intros [E|E]; [congruence | auto].
Qed.

Lemma split_once_none c s : split_once c s = None -> ~ In c s.
Proof.
  induction s as [|x s IH]; intros H; cbn in H; [intros []|].
  destruct (N.eqb_spec x c); [discriminate|]. destruct (split_once c s) as [[? ?]|]; [discriminate|].
  intros [E|E]; [congruence | exact (IH eq_refl E)].
Qed.

(* split never returns an empty list, and joining the pieces with the separator gives the input back *)
Fixpoint join (c : N) (l : list bytes) : bytes :=
  match l with [] => [] | [p] => p | p :: t => p ++ c :: join c t end.

Lemma split_nonempty c s : split c s <> [].
Proof. destruct s as [|x s]; cbn; [discriminate|]. destruct (x =? c); [discriminate|]. destruct (split c s); discriminate. Qed.

Lemma join_split c s : join c (split c s) = s.
Proof.
  induction s as [|x s IH]; [reflexivity|]. cbn [split].
  destruct (N.eqb_spec x c) as [->|Hne].
  - pose proof (split_nonempty c s). destruct (split c s) as [|p ps] eqn:E; [congruence|].
    cbn [join app]. cbn [join] in IH. rewrite IH. reflexivity.
  - destruct (split c s) as [|p ps] eqn:E; [exfalso; eapply split_nonempty; exact E|].
    destruct ps; cbn [join app] in *; rewrite IH; reflexivity.
Qed.

(* trimming removes exactly leading/trailing ASCII whitespace *)
Lemma trim_start_spec s : exists w, s = w ++ trim_start s /\ forallb is_ws w = true /\
  match trim_start s with [] => True | c :: _ => is_ws c = false end.
Proof.
  induction s as [|c s IH]; [exists []; repeat split|]. cbn [trim_start].
  destruct (is_ws c) eqn:E.
  - destruct IH as (w & Hs & Hw & Hh). exists (c :: w). cbn [app forallb]. rewrite E, Hw.
    split; [f_equal; exact Hs | split; [reflexivity | exact Hh]].
  - exists []. repeat split. exact E.
Qed.

Lemma trim_start_idem s : trim_start (trim_start s) = trim_start s.
Proof.
  destruct (trim_start_spec s) as (_ & _ & _ & H). destruct (trim_start s) as [|c t]; [reflexivity|].
  cbn [trim_start]. rewrite H. reflexivity.
Qed.

(* the last binding of a key wins *)
Lemma map_get_last k v m : map_get k (m ++ [(k, v)]) = Some v.
Proof.
  induction m as [|[k' v'] m IH]; cbn [app map_get].
  - assert (bytes_eqb k k = true) as ->; [|reflexivity].
    induction k as [|x k IHk]; cbn; [reflexivity | rewrite N.eqb_refl, IHk; reflexivity].
  - rewrite IH. reflexivity.
Qed.

(* canonical decimal rendering of packet numbers, checked on the boundary values *)
Example u32_to_string_samples :
  u32_to_string 0 = [48] /\ u32_to_string 7 = [55] /\ u32_to_string 10 = [49; 48] /\
  u32_to_string 4294967295 = [52; 50; 57; 52; 57; 54; 55; 50; 57; 53] /\
  parse_u32 (u32_to_string 4294967295) = Some 4294967295 /\ parse_u32 [48; 49] = Some 1.
Proof. repeat split. Qed.

(* lines: `\n` terminates, `\r\n` too, no empty last line, a final line without `\n` keeps a trailing `\r` *)
Example lines_samples :
  lines [] = [] /\ lines [10] = [[]] /\ lines [97; 10] = [[97]] /\ lines [97; 13; 10; 98] = [[97]; [98]] /\
  lines [97; 10; 10] = [[97]; []] /\ lines [97; 13] = [[97; 13]].
Proof. repeat split. Qed.
